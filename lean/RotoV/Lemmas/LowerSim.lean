/-
  The simulation between the order specification and the structured lowering
  model: statements (`SimE` …) and their proof by induction on the fuel of the
  specification. `Props/C08.lean` states the results.
-/
import RotoV.Lemmas.LowerS
namespace RotoV.LowerS
open RotoV.TraceSpec

/-- `P` holds the parameters and the structured MIR of every function of `fns`. -/
def ProgOk (fns : List FnDef) (P : Prog) : Prop :=
  ∀ (f : Nat) (fd : FnDef), fns[f]? = some fd → ∃ code, lowerFn fd = some code ∧ P[f]? = some (fd.params, code)

def SimE (fns : List FnDef) (P : Prog) (n : Nat) : Prop :=
  ∀ (e : Expr) (env : Env) (c : Nat) (code : Code) (value : Value) (c' : Nat) (σ : Store),
    lowerE e c = some (code, value, c') → Agree env σ →
    (∀ t env' v, evalExpr fns n env e = ⟨t, .ok (env', v)⟩ →
      ∃ σ1 t1 t2, ExecC P σ code t1 (.normal σ1) ∧ EvalV P σ1 value t2 v ∧ t = t1 ++ t2
        ∧ Agree env' σ1 ∧ Frame c σ σ1) ∧
    (∀ t v, evalExpr fns n env e = ⟨t, .ret v⟩ → ExecC P σ code t (.returned v))

def SimArgs (fns : List FnDef) (P : Prog) (n : Nat) : Prop :=
  ∀ (es : Exprs) (env : Env) (c : Nat) (code : Code) (tmps : List Var) (c' : Nat) (σ : Store),
    lowerArgs es c = some (code, tmps, c') → Agree env σ →
    (∀ t env' vs, evalArgs fns n env es = ⟨t, .ok (env', vs)⟩ →
      ∃ σ1, ExecC P σ code t (.normal σ1) ∧ tmps.map σ1 = vs ∧ Agree env' σ1 ∧ Frame c σ σ1) ∧
    (∀ t v, evalArgs fns n env es = ⟨t, .ret v⟩ → ExecC P σ code t (.returned v))

/-- the elements of a list literal: `lst` (a temporary below the counter) holds the list so far -/
def SimElems (fns : List FnDef) (P : Prog) (n : Nat) : Prop :=
  ∀ (es : Exprs) (env : Env) (k u c : Nat) (code : Code) (c' : Nat) (σ : Store) (pre : List Int),
    lowerElems es (.t k) (.t u) c = some (code, c') → Agree env σ → k < c → σ (.t k) = .list pre →
    (∀ t env' fs, evalInts fns n env es = ⟨t, .ok (env', fs)⟩ →
      ∃ σ1, ExecC P σ code t (.normal σ1) ∧ σ1 (.t k) = .list (pre ++ fs) ∧ Agree env' σ1 ∧ Frame k σ σ1) ∧
    (∀ t v, evalInts fns n env es = ⟨t, .ret v⟩ → ExecC P σ code t (.returned v))

/-- a `for` loop from index `j` on: `all` is the whole list, `xs` what is left of it -/
def SimFor (fns : List FnDef) (P : Prog) (n : Nat) : Prop :=
  ∀ (x : Nat) (b : Block) (env : Env) (all xs : List Int) (j kl c2 copt : Nat) (cb : Code) (xb : Var) (c3 : Nat) (σ : Store),
    lowerBlock b (c2 + 4) = some (cb, xb, c3) → Agree env σ → σ (.t kl) = .list all → σ (.t c2) = .int (j : Nat) →
    all.drop j = xs → copt < kl → kl < c2 →
    (∀ t env' v, evalFor fns n env x xs b = ⟨t, .ok (env', v)⟩ →
      ∃ σ1, ExecS P σ (.forL [.assign (.t (c2 + 2)) (.clone (.t kl)), .assign (.t copt) (.listGet (.t (c2 + 2)) (.t c2)),
            .assign (.t (c2 + 3)) (.disc (.t copt))] (.t (c2 + 3))
          ([.assign (.x x) (.cloneProj (.t copt) 0 0)] ++ cb)
          [.assign (.t (c2 + 1)) (.const (.int 1)), .assign (.t c2) (.idxAdd (.t c2) (.t (c2 + 1)))]) t (.normal σ1)
        ∧ v = .unit ∧ Agree env' σ1 ∧ Frame copt σ σ1) ∧
    (∀ t w, evalFor fns n env x xs b = ⟨t, .ret w⟩ →
      ExecS P σ (.forL [.assign (.t (c2 + 2)) (.clone (.t kl)), .assign (.t copt) (.listGet (.t (c2 + 2)) (.t c2)),
            .assign (.t (c2 + 3)) (.disc (.t copt))] (.t (c2 + 3))
          ([.assign (.x x) (.cloneProj (.t copt) 0 0)] ++ cb)
          [.assign (.t (c2 + 1)) (.const (.int 1)), .assign (.t c2) (.idxAdd (.t c2) (.t (c2 + 1)))]) t (.returned w))

/-- the parts of an f-string: `acc` (a temporary below the counter) holds the text so far -/
def SimParts (fns : List FnDef) (P : Prog) (n : Nat) : Prop :=
  ∀ (ps : Parts) (env : Env) (k c : Nat) (code : Code) (c' : Nat) (σ : Store) (acc : String),
    lowerParts ps (.t k) c = some (code, c') → Agree env σ → k < c → σ (.t k) = .str acc →
    (∀ t env' s, evalParts fns n env ps = ⟨t, .ok (env', s)⟩ →
      ∃ σ1, ExecC P σ code t (.normal σ1) ∧ σ1 (.t k) = .str (acc ++ s) ∧ Agree env' σ1 ∧ Frame k σ σ1) ∧
    (∀ t v, evalParts fns n env ps = ⟨t, .ret v⟩ → ExecC P σ code t (.returned v))

/-- the arguments of an enum constructor: every one materialised in a temporary -/
def SimCtor (fns : List FnDef) (P : Prog) (n : Nat) : Prop :=
  ∀ (es : Exprs) (env : Env) (c : Nat) (code : Code) (xs : List Var) (c' : Nat) (σ : Store),
    lowerCtorArgs es c = some (code, xs, c') → Agree env σ →
    (∀ t env' fs, evalInts fns n env es = ⟨t, .ok (env', fs)⟩ →
      ∃ σ1, ExecC P σ code t (.normal σ1) ∧ xs.map σ1 = fs.map Val.int ∧ Agree env' σ1 ∧ Frame c σ σ1) ∧
    (∀ t v, evalInts fns n env es = ⟨t, .ret v⟩ → ExecC P σ code t (.returned v))

/-- a guard chain against the arms it was built from -/
def SimChain (fns : List FnDef) (P : Prog) (n : Nat) : Prop :=
  ∀ (arms : Arms) (env : Env) (sel : Sel) (ke tb idx c : Nat) (steps : List GStep) (c' : Nat) (σ : Store) (v : Val)
    (ko cA : Nat) (codes : List Code) (cA' c0 : Nat),
    lowerChain arms sel (.t ke) tb idx c = some (steps, c') → lowerArms arms (.t ko) cA = some (codes, cA') →
    Agree env σ → σ (.t ke) = v → (discOf v).isSome → ke < c0 → c0 ≤ c → c0 ≤ cA → c0 ≤ ko → ko < cA →
    (∀ p, p ∈ patsOf arms → selects sel p = patMatches v p) →
    (∀ t env' r, evalArms fns n env v arms = ⟨t, .ok (env', r)⟩ →
      ∃ a σ1 t1 code σ2 t2, ExecG P σ steps t1 (.selected (idx + a) σ1) ∧ codes[a]? = some code ∧
        ExecC P σ1 code t2 (.normal σ2) ∧ σ2 (.t ko) = r ∧ t = t1 ++ t2 ∧ Agree env' σ2 ∧ Frame c0 σ σ2) ∧
    (∀ t w, evalArms fns n env v arms = ⟨t, .ret w⟩ →
      ExecG P σ steps t (.returned w) ∨
      ∃ a σ1 t1 code t2, ExecG P σ steps t1 (.selected (idx + a) σ1) ∧ codes[a]? = some code ∧
        ExecC P σ1 code t2 (.returned w) ∧ t = t1 ++ t2)

def SimSeq (fns : List FnDef) (P : Prog) (n : Nat) : Prop :=
  ∀ (b : Block) (env : Env) (c : Nat) (code : Code) (x : Var) (c' : Nat) (σ : Store),
    lowerBlock b c = some (code, x, c') → Agree env σ →
    (∀ t env' v, evalSeq fns n env b = ⟨t, .ok (env', v)⟩ →
      ∃ σ1, ExecC P σ code t (.normal σ1) ∧ σ1 x = v ∧ Agree env' σ1 ∧ Frame c σ σ1) ∧
    (∀ t v, evalSeq fns n env b = ⟨t, .ret v⟩ → ExecC P σ code t (.returned v))

def SimBlock (fns : List FnDef) (P : Prog) (n : Nat) : Prop :=
  ∀ (b : Block) (env : Env) (c : Nat) (code : Code) (x : Var) (c' : Nat) (σ : Store),
    lowerBlock b c = some (code, x, c') → Agree env σ →
    (∀ t env' v, evalBlock fns n env b = ⟨t, .ok (env', v)⟩ →
      ∃ σ1, ExecC P σ code t (.normal σ1) ∧ σ1 x = v ∧ Agree env' σ1 ∧ Frame c σ σ1) ∧
    (∀ t v, evalBlock fns n env b = ⟨t, .ret v⟩ → ExecC P σ code t (.returned v))

def SimWhile (fns : List FnDef) (P : Prog) (n : Nat) : Prop :=
  ∀ (cnd : Expr) (b : Block) (env : Env) (c : Nat) (cc : Code) (vc : Value) (c1 : Nat)
    (cb : Code) (xb : Var) (c2 : Nat) (σ : Store),
    lowerE cnd (c + 1) = some (cc, vc, c1) → lowerBlock b c1 = some (cb, xb, c2) → Agree env σ →
    (∀ t env' v, evalWhile fns n env cnd b = ⟨t, .ok (env', v)⟩ →
      ∃ σ1, ExecS P σ (.whl (cc ++ [.assign (.t c) vc]) (.t c) cb) t (.normal σ1) ∧ v = .unit
        ∧ Agree env' σ1 ∧ Frame c σ σ1) ∧
    (∀ t v, evalWhile fns n env cnd b = ⟨t, .ret v⟩ →
      ExecS P σ (.whl (cc ++ [.assign (.t c) vc]) (.t c) cb) t (.returned v))

/-- The value of a lowered expression, stored in any variable `y`. -/
theorem SimE.store {fns P n} (hE : SimE fns P n) {e env c code value c1 σ t env' v}
    (hl : lowerE e c = some (code, value, c1)) (ha : Agree env σ)
    (he : evalExpr fns n env e = ⟨t, .ok (env', v)⟩) (y : Var) :
    ∃ σ1, ExecC P σ (code ++ [.assign y value]) t (.normal (σ1.set y v)) ∧ Agree env' σ1 ∧ Frame c σ σ1 := by
  obtain ⟨σ1, t1, t2, hx, hv, rfl, ha1, hf1⟩ := (hE e env c code value c1 σ hl ha).1 t env' v he
  exact ⟨σ1, ExecC.append hx (ExecC.assign1 hv), ha1, hf1⟩

/-- … materialised by `assign_to_var`. -/
theorem SimE.mat {fns P n} (hE : SimE fns P n) {e env c code value c1 σ t env' v}
    (hl : lowerE e c = some (code, value, c1)) (ha : Agree env σ)
    (he : evalExpr fns n env e = ⟨t, .ok (env', v)⟩) :
    ∃ σ2, ExecC P σ (code ++ atvCode value c1) t (.normal σ2) ∧ σ2 (atvVar value c1) = v
      ∧ Agree env' σ2 ∧ Frame c σ σ2 := by
  have hm := (lowerE_mono e c code value c1 hl).1
  obtain ⟨σ1, t1, t2, hx, hv, rfl, ha1, hf1⟩ := (hE e env c code value c1 σ hl ha).1 t env' v he
  by_cases hmv : ∃ x, value = .move x
  · obtain ⟨x, rfl⟩ := hmv
    cases hv with
    | pure hv =>
    simp [evalValue] at hv
    obtain ⟨rfl, rfl⟩ := hv
    exact ⟨σ1, by simpa [atvCode] using hx, by simp [atvVar], ha1, hf1⟩
  · have h1 : atvCode value c1 = [.assign (.t c1) value] := by
      cases value <;> simp_all [atvCode]
    have h2 : atvVar value c1 = .t c1 := by
      cases value <;> simp_all [atvVar]
    rw [h1, h2]
    exact ⟨σ1.set (.t c1) v, ExecC.append hx (ExecC.assign1 hv), by simp, ha1.set_tmp _ _,
      hf1.trans (Frame.set_tmp _ _ (Nat.le_refl _)) hm⟩

theorem SimE.ret {fns P n} (hE : SimE fns P n) {e env c code value c1 σ t v}
    (hl : lowerE e c = some (code, value, c1)) (ha : Agree env σ)
    (he : evalExpr fns n env e = ⟨t, .ret v⟩) : ExecC P σ code t (.returned v) :=
  (hE e env c code value c1 σ hl ha).2 t v he

theorem R.ok_eq {α} (a : α) : (R.ok a : R α) = ⟨[], .ok a⟩ := rfl

theorem simE_step {fns P n} (hE : SimE fns P n) (hA : SimArgs fns P n) (hB : SimBlock fns P n)
    (hW : SimWhile fns P n) (hC : SimChain fns P n) (hK : SimCtor fns P n) (hS : SimParts fns P n) (hL : SimElems fns P n) (hR : SimFor fns P n)
    (hP : ProgOk fns P) :
    SimE fns P (n + 1) := by
  intro e env c code value c' σ hl ha
  cases e with
  | lit v =>
    simp [lowerE] at hl; obtain ⟨rfl, rfl, rfl⟩ := hl
    constructor
    · intro t env' w h
      simp [evalExpr, R.ok] at h
      obtain ⟨rfl, rfl, rfl⟩ := h
      exact ⟨σ, [], [], .nil, .pure rfl, rfl, ha, Frame.refl _ _⟩
    · intro t w h; simp [evalExpr, R.ok] at h
  | var x =>
    simp [lowerE] at hl; obtain ⟨rfl, rfl, rfl⟩ := hl
    constructor
    · intro t env' w h
      simp only [evalExpr] at h
      cases hx : lookup env x with
      | none => simp [hx, R.stuck] at h
      | some u =>
        simp [hx, R.ok] at h
        obtain ⟨rfl, rfl, rfl⟩ := h
        exact ⟨σ, [], [], .nil, (EvalV.pure (by simp [evalValue, ha x u hx])), rfl, ha, Frame.refl _ _⟩
    · intro t w h
      simp only [evalExpr] at h
      cases hx : lookup env x <;> simp [hx, R.stuck, R.ok] at h
  | host f args =>
    simp [lowerE, Option.bind_eq_some_iff] at hl
    obtain ⟨ca, tmps, c1, h1, rfl, rfl, rfl⟩ := hl
    constructor
    · intro t env' w h
      simp only [evalExpr, bind_eq, bind_ok_iff] at h
      obtain ⟨t1, ⟨env1, vs⟩, t2, hargs, h2, rfl⟩ := h
      obtain ⟨σ1, hx, hmap, ha1, hf1⟩ := (hA args env c _ _ _ σ h1 ha).1 t1 env1 vs hargs
      cases hh : hostSem f vs with
      | none => simp [hh, R.stuck] at h2
      | some u =>
        simp [hh, bind_eq, R.bind, R.emit, pure_eq, R.ok] at h2
        obtain ⟨rfl, rfl, rfl⟩ := h2
        exact ⟨σ1, t1, [⟨f, vs⟩], hx, (EvalV.pure (by simp [evalValue, hmap, hh])), rfl, ha1, hf1⟩
    · intro t w h
      simp only [evalExpr, bind_eq, bind_ret_iff] at h
      rcases h with h | ⟨t1, ⟨env1, vs⟩, t2, hargs, h2, rfl⟩
      · exact (hA args env c _ _ _ σ h1 ha).2 t w h
      · cases hh : hostSem f vs with
        | none => simp [hh, R.stuck] at h2
        | some u => simp [hh, bind_eq, R.bind, R.emit, pure_eq, R.ok] at h2
  | bin op l r =>
    simp [lowerE, Option.bind_eq_some_iff] at hl
    obtain ⟨cl, vl, c1, h1, cr, vr, c2, h2, rfl, rfl, rfl⟩ := hl
    have ⟨m1, b1⟩ := lowerE_mono l c cl vl c1 h1
    have ⟨a1, k1, hk1, hk1'⟩ := atv_spec vl c1 b1
    constructor
    · intro t env' w h
      simp only [evalExpr, bind_eq, bind_ok_iff] at h
      obtain ⟨t1, ⟨env1, a⟩, t2, hel, ⟨t3, ⟨env2, b⟩, t4, her, h4, rfl⟩, rfl⟩ := h
      obtain ⟨σ1, hx1, hv1, ha1, hf1⟩ := hE.mat h1 ha hel
      obtain ⟨σ2, hx2, hv2, ha2, hf2⟩ := hE.mat h2 ha1 her
      cases hb : binop op a b with
      | none => simp [hb, R.stuck] at h4
      | some u =>
        simp [hb, pure_eq, R.ok] at h4
        obtain ⟨rfl, rfl, rfl⟩ := h4
        refine ⟨σ2, t1 ++ t3, [], ?_, ?_, by simp, ha2, hf1.trans hf2 (by omega)⟩
        · have := ExecC.append hx1 hx2
          simpa [List.append_assoc] using this
        · have hl' : σ2 (atvVar vl c1) = a := by
            rw [hk1, hf2 k1 hk1', ← hk1, hv1]
          exact .pure (by simp [evalValue, hl', hv2, hb])
    · intro t w h
      simp only [evalExpr, bind_eq, bind_ret_iff] at h
      rcases h with h | ⟨t1, ⟨env1, a⟩, t2, hel, h2', rfl⟩
      · have := hE.ret h1 ha h
        simpa [List.append_assoc] using ExecC.append_ret _ this
      · obtain ⟨σ1, hx1, hv1, ha1, hf1⟩ := hE.mat h1 ha hel
        rcases h2' with h | ⟨t3, ⟨env2, b⟩, t4, her, h4, rfl⟩
        · have := hE.ret h2 ha1 h
          have := ExecC.append hx1 (ExecC.append_ret (atvCode vr c2) this)
          simpa [List.append_assoc] using this
        · cases hb : binop op a b <;> simp [hb, R.stuck, pure_eq, R.ok] at h4
  | eqH ne l r =>
    -- `==` / `!=` on a host type: operands as for `bin`; the lazy value is the call of the type's equality
    simp [lowerE, Option.bind_eq_some_iff] at hl
    obtain ⟨cl, vl, c1, h1, cr, vr, c2, h2, rfl, rfl, rfl⟩ := hl
    have ⟨m1, b1⟩ := lowerE_mono l c cl vl c1 h1
    have ⟨a1, k1, hk1, hk1'⟩ := atv_spec vl c1 b1
    constructor
    · intro t env' w h
      simp only [evalExpr, bind_eq, bind_ok_iff] at h
      obtain ⟨t1, ⟨env1, a⟩, t2, hel, ⟨t3, ⟨env2, b⟩, t4, her, h4, rfl⟩, rfl⟩ := h
      obtain ⟨σ1, hx1, hv1, ha1, hf1⟩ := hE.mat h1 ha hel
      obtain ⟨σ2, hx2, hv2, ha2, hf2⟩ := hE.mat h2 ha1 her
      cases hb : hostEq ne a b with
      | none => simp [hb, R.stuck] at h4
      | some p =>
        obtain ⟨te, u⟩ := p
        simp [hb, pure_eq, R.ok, bind_eq, R.bind, R.emits] at h4
        obtain ⟨rfl, rfl, rfl⟩ := h4
        refine ⟨σ2, t1 ++ t3, te, ?_, ?_, by simp, ha2, hf1.trans hf2 (by omega)⟩
        · have := ExecC.append hx1 hx2
          simpa [List.append_assoc] using this
        · have hl' : σ2 (atvVar vl c1) = a := by
            rw [hk1, hf2 k1 hk1', ← hk1, hv1]
          exact .pure (by simp [evalValue, hl', hv2, hb])
    · intro t w h
      simp only [evalExpr, bind_eq, bind_ret_iff] at h
      rcases h with h | ⟨t1, ⟨env1, a⟩, t2, hel, h2', rfl⟩
      · have := hE.ret h1 ha h
        simpa [List.append_assoc] using ExecC.append_ret _ this
      · obtain ⟨σ1, hx1, hv1, ha1, hf1⟩ := hE.mat h1 ha hel
        rcases h2' with h | ⟨t3, ⟨env2, b⟩, t4, her, h4, rfl⟩
        · have := hE.ret h2 ha1 h
          have := ExecC.append hx1 (ExecC.append_ret (atvCode vr c2) this)
          simpa [List.append_assoc] using this
        · cases hb : hostEq ne a b <;> simp [hb, R.stuck, pure_eq, R.ok, bind_eq, R.bind, R.emits] at h4
  | and l r =>
    simp [lowerE, Option.bind_eq_some_iff] at hl
    obtain ⟨cl, vl, c1, h1, cr, vr, c2, h2, rfl, rfl, rfl⟩ := hl
    have ⟨m1, _⟩ := lowerE_mono l (c + 1) cl vl c1 h1
    have ⟨m2, _⟩ := lowerE_mono r c1 cr vr c2 h2
    constructor
    · intro t env' w h
      simp only [evalExpr, bind_eq, bind_ok_iff] at h
      obtain ⟨t1, ⟨env1, a⟩, t2, hel, h2', rfl⟩ := h
      obtain ⟨σ1, hx1, ha1, hf1⟩ := hE.store h1 ha hel (.t c)
      cases a with
      | bool bv =>
        cases bv with
        | false =>
          -- left operand false: the right operand is skipped
          simp [pure_eq, R.ok] at h2'
          obtain ⟨rfl, rfl, rfl⟩ := h2'
          refine ⟨σ1.set (.t c) (.bool false), t1, [], ?_, (EvalV.pure (by simp [evalValue])), by simp, ha1.set_tmp _ _,
            (hf1.mono (by omega)).trans (Frame.set_tmp _ _ (Nat.le_refl _)) (Nat.le_refl _)⟩
          have hite : ExecC P (σ1.set (.t c) (.bool false)) [.ite (.t c) true (cr ++ [.assign (.t c) vr]) []] []
              (.normal (σ1.set (.t c) (.bool false))) :=
            ExecC.single (.iteElse (by simp) .nil)
          simpa [shortCircuit] using ExecC.append hx1 hite
        | true =>
          -- left operand true: the right operand runs
          simp only [bind_eq, bind_ok_iff] at h2'
          obtain ⟨t3, ⟨env2, b⟩, t4, her, h4, rfl⟩ := h2'
          obtain ⟨σ2, hx2, ha2, hf2⟩ := hE.store h2 (ha1.set_tmp c (.bool true)) her (.t c)
          cases b with
          | bool bb =>
            simp [pure_eq, R.ok] at h4
            obtain ⟨rfl, rfl, rfl⟩ := h4
            refine ⟨σ2.set (.t c) (.bool bb), t1 ++ t3, [], ?_, (EvalV.pure (by simp [evalValue])), by simp, ha2.set_tmp _ _, ?_⟩
            · have hite : ExecC P (σ1.set (.t c) (.bool true)) [.ite (.t c) true (cr ++ [.assign (.t c) vr]) []] t3
                  (.normal (σ2.set (.t c) (.bool bb))) := ExecC.single (.iteThen (by simp) hx2)
              simpa [shortCircuit] using ExecC.append hx1 hite
            · exact (((hf1.mono (by omega)).trans (Frame.set_tmp _ _ (Nat.le_refl _)) (Nat.le_refl _)).trans hf2 (by omega)).trans
                (Frame.set_tmp _ _ (Nat.le_refl _)) (Nat.le_refl _)
          | _ => simp [R.stuck] at h4
      | _ => simp [R.stuck] at h2'
    · intro t w h
      simp only [evalExpr, bind_eq, bind_ret_iff] at h
      rcases h with h | ⟨t1, ⟨env1, a⟩, t2, hel, h2', rfl⟩
      · have := hE.ret h1 ha h
        simpa [shortCircuit, List.append_assoc] using ExecC.append_ret _ this
      · obtain ⟨σ1, hx1, ha1, hf1⟩ := hE.store h1 ha hel (.t c)
        cases a with
        | bool bv =>
          cases bv with
          | false => simp [pure_eq, R.ok] at h2'
          | true =>
            simp only [bind_eq, bind_ret_iff] at h2'
            rcases h2' with h | ⟨t3, ⟨env2, b⟩, t4, her, h4, rfl⟩
            · have hr := hE.ret h2 (ha1.set_tmp c (.bool true)) h
              have hite : ExecC P (σ1.set (.t c) (.bool true)) [.ite (.t c) true (cr ++ [.assign (.t c) vr]) []] t2
                  (.returned w) := ExecC.single (.iteThen (by simp) (ExecC.append_ret _ hr))
              simpa [shortCircuit] using ExecC.append hx1 hite
            · cases b <;> simp [pure_eq, R.ok, R.stuck] at h4
        | _ => simp [R.stuck] at h2'
  | or l r =>
    simp [lowerE, Option.bind_eq_some_iff] at hl
    obtain ⟨cl, vl, c1, h1, cr, vr, c2, h2, rfl, rfl, rfl⟩ := hl
    have ⟨m1, _⟩ := lowerE_mono l (c + 1) cl vl c1 h1
    have ⟨m2, _⟩ := lowerE_mono r c1 cr vr c2 h2
    constructor
    · intro t env' w h
      simp only [evalExpr, bind_eq, bind_ok_iff] at h
      obtain ⟨t1, ⟨env1, a⟩, t2, hel, h2', rfl⟩ := h
      obtain ⟨σ1, hx1, ha1, hf1⟩ := hE.store h1 ha hel (.t c)
      cases a with
      | bool bv =>
        cases bv with
        | true =>
          -- left operand true: the right operand is skipped
          simp [pure_eq, R.ok] at h2'
          obtain ⟨rfl, rfl, rfl⟩ := h2'
          refine ⟨σ1.set (.t c) (.bool true), t1, [], ?_, (EvalV.pure (by simp [evalValue])), by simp, ha1.set_tmp _ _,
            (hf1.mono (by omega)).trans (Frame.set_tmp _ _ (Nat.le_refl _)) (Nat.le_refl _)⟩
          have hite : ExecC P (σ1.set (.t c) (.bool true)) [.ite (.t c) false (cr ++ [.assign (.t c) vr]) []] []
              (.normal (σ1.set (.t c) (.bool true))) :=
            ExecC.single (.iteElse (by simp) .nil)
          simpa [shortCircuit] using ExecC.append hx1 hite
        | false =>
          -- left operand false: the right operand runs
          simp only [bind_eq, bind_ok_iff] at h2'
          obtain ⟨t3, ⟨env2, b⟩, t4, her, h4, rfl⟩ := h2'
          obtain ⟨σ2, hx2, ha2, hf2⟩ := hE.store h2 (ha1.set_tmp c (.bool false)) her (.t c)
          cases b with
          | bool bb =>
            simp [pure_eq, R.ok] at h4
            obtain ⟨rfl, rfl, rfl⟩ := h4
            refine ⟨σ2.set (.t c) (.bool bb), t1 ++ t3, [], ?_, (EvalV.pure (by simp [evalValue])), by simp, ha2.set_tmp _ _, ?_⟩
            · have hite : ExecC P (σ1.set (.t c) (.bool false)) [.ite (.t c) false (cr ++ [.assign (.t c) vr]) []] t3
                  (.normal (σ2.set (.t c) (.bool bb))) := ExecC.single (.iteThen (by simp) hx2)
              simpa [shortCircuit] using ExecC.append hx1 hite
            · exact (((hf1.mono (by omega)).trans (Frame.set_tmp _ _ (Nat.le_refl _)) (Nat.le_refl _)).trans hf2 (by omega)).trans
                (Frame.set_tmp _ _ (Nat.le_refl _)) (Nat.le_refl _)
          | _ => simp [R.stuck] at h4
      | _ => simp [R.stuck] at h2'
    · intro t w h
      simp only [evalExpr, bind_eq, bind_ret_iff] at h
      rcases h with h | ⟨t1, ⟨env1, a⟩, t2, hel, h2', rfl⟩
      · have := hE.ret h1 ha h
        simpa [shortCircuit, List.append_assoc] using ExecC.append_ret _ this
      · obtain ⟨σ1, hx1, ha1, hf1⟩ := hE.store h1 ha hel (.t c)
        cases a with
        | bool bv =>
          cases bv with
          | true => simp [pure_eq, R.ok] at h2'
          | false =>
            simp only [bind_eq, bind_ret_iff] at h2'
            rcases h2' with h | ⟨t3, ⟨env2, b⟩, t4, her, h4, rfl⟩
            · have hr := hE.ret h2 (ha1.set_tmp c (.bool false)) h
              have hite : ExecC P (σ1.set (.t c) (.bool false)) [.ite (.t c) false (cr ++ [.assign (.t c) vr]) []] t2
                  (.returned w) := ExecC.single (.iteThen (by simp) (ExecC.append_ret _ hr))
              simpa [shortCircuit] using ExecC.append hx1 hite
            · cases b <;> simp [pure_eq, R.ok, R.stuck] at h4
        | _ => simp [R.stuck] at h2'
  | not e1 =>
    simp [lowerE, Option.bind_eq_some_iff] at hl
    obtain ⟨ce, ve, c1, h1, rfl, rfl, rfl⟩ := hl
    constructor
    · intro t env' w h
      simp only [evalExpr, bind_eq, bind_ok_iff] at h
      obtain ⟨t1, ⟨env1, a⟩, t2, hel, h2', rfl⟩ := h
      obtain ⟨σ1, hx1, hv1, ha1, hf1⟩ := hE.mat h1 ha hel
      cases a with
      | bool bv =>
        simp [pure_eq, R.ok] at h2'
        obtain ⟨rfl, rfl, rfl⟩ := h2'
        exact ⟨σ1, t1, [], hx1, (EvalV.pure (by simp [evalValue, hv1])), by simp, ha1, hf1⟩
      | _ => simp [R.stuck] at h2'
    · intro t w h
      simp only [evalExpr, bind_eq, bind_ret_iff] at h
      rcases h with h | ⟨t1, ⟨env1, a⟩, t2, hel, h2', rfl⟩
      · exact ExecC.append_ret _ (hE.ret h1 ha h)
      · cases a <;> simp [pure_eq, R.ok, R.stuck] at h2'
  | neg e1 =>
    simp [lowerE, Option.bind_eq_some_iff] at hl
    obtain ⟨ce, ve, c1, h1, rfl, rfl, rfl⟩ := hl
    constructor
    · intro t env' w h
      simp only [evalExpr, bind_eq, bind_ok_iff] at h
      obtain ⟨t1, ⟨env1, a⟩, t2, hel, h2', rfl⟩ := h
      obtain ⟨σ1, hx1, hv1, ha1, hf1⟩ := hE.mat h1 ha hel
      cases a with
      | int iv =>
        simp [pure_eq, R.ok] at h2'
        obtain ⟨rfl, rfl, rfl⟩ := h2'
        exact ⟨σ1, t1, [], hx1, (EvalV.pure (by simp [evalValue, hv1])), by simp, ha1, hf1⟩
      | _ => simp [R.stuck] at h2'
    · intro t w h
      simp only [evalExpr, bind_eq, bind_ret_iff] at h
      rcases h with h | ⟨t1, ⟨env1, a⟩, t2, hel, h2', rfl⟩
      · exact ExecC.append_ret _ (hE.ret h1 ha h)
      · cases a <;> simp [pure_eq, R.ok, R.stuck] at h2'
  | ret e1 =>
    simp [lowerE, Option.bind_eq_some_iff] at hl
    obtain ⟨ce, ve, c1, h1, rfl, rfl, rfl⟩ := hl
    constructor
    · intro t env' w h
      simp only [evalExpr, bind_eq, bind_ok_iff] at h
      obtain ⟨t1, ⟨env1, a⟩, t2, hel, h2', rfl⟩ := h
      simp [R.early] at h2'
    · intro t w h
      simp only [evalExpr, bind_eq, bind_ret_iff] at h
      rcases h with h | ⟨t1, ⟨env1, a⟩, t2, hel, h2', rfl⟩
      · have := hE.ret h1 ha h
        simpa [List.append_assoc] using ExecC.append_ret _ this
      · obtain ⟨σ1, hx1, hv1, ha1, hf1⟩ := hE.mat h1 ha hel
        simp [R.early] at h2'
        obtain ⟨rfl, rfl⟩ := h2'
        have hr : ExecC P σ1 [.ret (atvVar ve c1)] [] (.returned (σ1 (atvVar ve c1))) := ExecC.single .ret
        rw [hv1] at hr
        simpa [List.append_assoc] using ExecC.append hx1 hr
  | assign x e1 =>
    simp [lowerE, Option.bind_eq_some_iff] at hl
    obtain ⟨ce, ve, c1, h1, rfl, rfl, rfl⟩ := hl
    have ⟨m1, _⟩ := lowerE_mono e1 c ce ve c1 h1
    constructor
    · intro t env' w h
      simp only [evalExpr, bind_eq, bind_ok_iff] at h
      obtain ⟨t1, ⟨env1, a⟩, t2, hel, h2', rfl⟩ := h
      obtain ⟨σ1, hx1, ha1, hf1⟩ := hE.store h1 ha hel (.t c1)
      cases hu : update env1 x a with
      | none => simp [hu, R.stuck] at h2'
      | some env2 =>
        simp [hu, pure_eq, R.ok] at h2'
        obtain ⟨rfl, rfl, rfl⟩ := h2'
        refine ⟨(σ1.set (.t c1) a).set (.x x) a, t1, [], ?_, (EvalV.pure (by simp [evalValue])), by simp,
          (ha1.set_tmp _ _).update hu, ?_⟩
        · have h2s : ExecC P (σ1.set (.t c1) a) [.assign (.x x) (.move (.t c1))] []
              (.normal ((σ1.set (.t c1) a).set (.x x) a)) :=
            ExecC.assign1 ((EvalV.pure (by simp [evalValue])))
          have := ExecC.append hx1 h2s
          simpa [List.append_assoc] using this
        · exact (hf1.trans (Frame.set_tmp _ _ (Nat.le_refl _)) m1).trans (Frame.set_x _ _ _ _) (Nat.le_refl _)
    · intro t w h
      simp only [evalExpr, bind_eq, bind_ret_iff] at h
      rcases h with h | ⟨t1, ⟨env1, a⟩, t2, hel, h2', rfl⟩
      · exact ExecC.append_ret _ (hE.ret h1 ha h)
      · cases hu : update env1 x a <;> simp [hu, pure_eq, R.ok, R.stuck] at h2'
  | block b =>
    simp [lowerE, Option.bind_eq_some_iff] at hl
    obtain ⟨cb, xb, c1, h1, rfl, rfl, rfl⟩ := hl
    have ⟨m1, _⟩ := lowerBlock_mono b c cb xb c1 h1
    constructor
    · intro t env' w h
      simp only [evalExpr] at h
      obtain ⟨σ1, hx1, hv1, ha1, hf1⟩ := (hB b env c cb xb c1 σ h1 ha).1 t env' w h
      refine ⟨σ1.set (.t c1) w, t, [], ?_, (EvalV.pure (by simp [evalValue])), by simp, ha1.set_tmp _ _,
        hf1.trans (Frame.set_tmp _ _ (Nat.le_refl _)) m1⟩
      have h2s : ExecC P σ1 [.assign (.t c1) (.move xb)] [] (.normal (σ1.set (.t c1) w)) :=
        ExecC.assign1 ((EvalV.pure (by simp [evalValue, hv1])))
      simpa using ExecC.append hx1 h2s
    · intro t w h
      simp only [evalExpr] at h
      exact ExecC.append_ret _ ((hB b env c cb xb c1 σ h1 ha).2 t w h)
  | «while» cnd b =>
    simp [lowerE, Option.bind_eq_some_iff] at hl
    obtain ⟨cc, vc, c1, h1, cb, xb, c2, h2, rfl, rfl, rfl⟩ := hl
    constructor
    · intro t env' w h
      simp only [evalExpr] at h
      obtain ⟨σ1, hx1, rfl, ha1, hf1⟩ := (hW cnd b env c cc vc c1 cb xb c2 σ h1 h2 ha).1 t env' w h
      exact ⟨σ1, t, [], ExecC.single hx1, (EvalV.pure (by simp [evalValue])), by simp, ha1, hf1⟩
    · intro t w h
      simp only [evalExpr] at h
      exact ExecC.single ((hW cnd b env c cc vc c1 cb xb c2 σ h1 h2 ha).2 t w h)
  | cassign op x e1 =>
    simp [lowerE, Option.bind_eq_some_iff] at hl
    obtain ⟨hop, cr, vr, c1, h1, rfl, rfl, rfl⟩ := hl
    have ⟨m1, b1⟩ := lowerE_mono e1 (c + 1) cr vr c1 h1
    have ⟨a1, k1, hk1, hk1'⟩ := atv_spec vr c1 b1
    constructor
    · intro t env' w h
      simp only [evalExpr, hop] at h
      cases hx : lookup env x with
      | none => simp [hx, R.stuck] at h
      | some a =>
        simp only [hx, Bool.not_true, Bool.false_eq_true, if_false, bind_eq, bind_ok_iff] at h
        obtain ⟨t1, ⟨env1, b⟩, t2, hel, h2', rfl⟩ := h
        have ha0 : Agree env (σ.set (.t c) a) := ha.set_tmp _ _
        obtain ⟨σ1, hx1, hv1, ha1, hf1⟩ := hE.mat h1 ha0 hel
        cases hb : binop op a b with
        | none => simp [hb, R.stuck] at h2'
        | some v =>
          cases hu : update env1 x v with
          | none => simp [hb, hu, R.stuck] at h2'
          | some env2 =>
            simp [hb, hu, pure_eq, R.ok] at h2'
            obtain ⟨rfl, rfl, rfl⟩ := h2'
            have hc : σ1 (.t c) = a := by rw [hf1 c (by omega)]; simp
            refine ⟨((σ1.set (.t (atvNext vr c1)) v).set (.x x) v), t1, [], ?_, (EvalV.pure (by simp [evalValue])), by simp,
              (ha1.set_tmp _ _).update hu, ?_⟩
            · have h0 : ExecC P σ [.assign (.t c) (.clone (.x x))] [] (.normal (σ.set (.t c) a)) :=
                ExecC.assign1 ((EvalV.pure (by simp [evalValue, ha x a hx])))
              have h3 : ExecC P σ1 [.assign (.t (atvNext vr c1)) (.binop (.t c) op (atvVar vr c1)),
                    .assign (.x x) (.move (.t (atvNext vr c1)))] []
                  (.normal ((σ1.set (.t (atvNext vr c1)) v).set (.x x) v)) := by
                have s1 : ExecS P σ1 (.assign (.t (atvNext vr c1)) (.binop (.t c) op (atvVar vr c1))) []
                    (.normal (σ1.set (.t (atvNext vr c1)) v)) := .assign ((EvalV.pure (by simp [evalValue, hc, hv1, hb])))
                have s2 : ExecS P (σ1.set (.t (atvNext vr c1)) v) (.assign (.x x) (.move (.t (atvNext vr c1)))) []
                    (.normal ((σ1.set (.t (atvNext vr c1)) v).set (.x x) v)) := .assign ((EvalV.pure (by simp [evalValue])))
                simpa using ExecC.cons s1 (ExecC.single s2)
              have := ExecC.append h0 (ExecC.append hx1 h3)
              simpa [List.append_assoc] using this
            · exact (((Frame.set_tmp σ a (Nat.le_refl c)).trans (hf1.mono (by omega)) (Nat.le_refl _)).trans
                (Frame.set_tmp _ _ (by omega)) (Nat.le_refl _)).trans (Frame.set_x _ _ _ _) (Nat.le_refl _)
    · intro t w h
      simp only [evalExpr, hop] at h
      cases hx : lookup env x with
      | none => simp [hx, R.stuck] at h
      | some a =>
        simp only [hx, Bool.not_true, Bool.false_eq_true, if_false, bind_eq, bind_ret_iff] at h
        have ha0 : Agree env (σ.set (.t c) a) := ha.set_tmp _ _
        have h0 : ExecC P σ [.assign (.t c) (.clone (.x x))] [] (.normal (σ.set (.t c) a)) :=
          ExecC.assign1 ((EvalV.pure (by simp [evalValue, ha x a hx])))
        rcases h with h | ⟨t1, ⟨env1, b⟩, t2, hel, h2', rfl⟩
        · have := ExecC.append h0 (ExecC.append_ret (atvCode vr c1 ++ [.assign (.t (atvNext vr c1)) (.binop (.t c) op (atvVar vr c1)),
                    .assign (.x x) (.move (.t (atvNext vr c1)))]) (hE.ret h1 ha0 h))
          simpa [List.append_assoc] using this
        · cases hb : binop op a b with
          | none => simp [hb, R.stuck] at h2'
          | some v => cases hu : update env1 x v <;> simp [hb, hu, pure_eq, R.ok, R.stuck] at h2'
  | assignF x i e1 =>
    simp [lowerE, Option.bind_eq_some_iff] at hl
    obtain ⟨ce, ve, c1, h1, rfl, rfl, rfl⟩ := hl
    have ⟨m1, _⟩ := lowerE_mono e1 c ce ve c1 h1
    constructor
    · intro t env' w h
      simp only [evalExpr, bind_eq, bind_ok_iff] at h
      obtain ⟨t1, ⟨env1, a⟩, t2, hel, h2', rfl⟩ := h
      obtain ⟨σ1, hx1, ha1, hf1⟩ := hE.store h1 ha hel (.t c1)
      cases a with
      | int k =>
        cases hu : setField env1 x i k with
        | none => simp [hu, R.stuck] at h2'
        | some env2 =>
          simp [hu, pure_eq, R.ok] at h2'
          obtain ⟨rfl, rfl, rfl⟩ := h2'
          obtain ⟨fs, hlk, hlt, hup⟩ := setField_inv hu
          have hσx : (σ1.set (.t c1) (.int k)) (.x x) = .recd fs := by
            rw [set_other _ _ (by intro h; cases h)]; exact ha1 x _ hlk
          refine ⟨(σ1.set (.t c1) (.int k)).set (.x x) (.recd (fs.set i k)), t1, [], ?_, (EvalV.pure (by simp [evalValue])), by simp,
            (ha1.set_tmp _ _).update hup, ?_⟩
          · have h2s : ExecC P (σ1.set (.t c1) (.int k)) [.assignField (.x x) i (.move (.t c1))] []
                (.normal ((σ1.set (.t c1) (.int k)).set (.x x) (.recd (fs.set i k)))) :=
              ExecC.single (.assignField (n := k) (EvalV.pure (by simp [evalValue])) (by rw [hσx]; simp [setPayload, hlt]))
            have := ExecC.append hx1 h2s
            simpa [List.append_assoc] using this
          · exact (hf1.trans (Frame.set_tmp _ _ (Nat.le_refl _)) m1).trans (Frame.set_x _ _ _ _) (Nat.le_refl _)
      | _ => simp [R.stuck] at h2'
    · intro t w h
      simp only [evalExpr, bind_eq, bind_ret_iff] at h
      rcases h with h | ⟨t1, ⟨env1, a⟩, t2, hel, h2', rfl⟩
      · exact ExecC.append_ret _ (hE.ret h1 ha h)
      · cases a with
        | int k => cases hu : setField env1 x i k <;> simp [hu, pure_eq, R.ok, R.stuck] at h2'
        | _ => simp [R.stuck] at h2'
  | cassignF op x i e1 =>
    simp [lowerE, Option.bind_eq_some_iff] at hl
    obtain ⟨hop, cr, vr, c1, h1, rfl, rfl, rfl⟩ := hl
    have ⟨m1, b1⟩ := lowerE_mono e1 (c + 1) cr vr c1 h1
    have ⟨a1, k1, hk1, hk1'⟩ := atv_spec vr c1 b1
    constructor
    · intro t env' w h
      simp only [evalExpr, hop] at h
      cases hx : getField env x i with
      | none => simp [hx, R.stuck] at h
      | some a =>
        simp only [hx, Bool.not_true, Bool.false_eq_true, if_false, bind_eq, bind_ok_iff] at h
        obtain ⟨t1, ⟨env1, b⟩, t2, hel, h2', rfl⟩ := h
        obtain ⟨fs0, hlk0, hget0⟩ := getField_inv hx
        have ha0 : Agree env (σ.set (.t c) (.int a)) := ha.set_tmp _ _
        obtain ⟨σ1, hx1, hv1, ha1, hf1⟩ := hE.mat h1 ha0 hel
        cases hb : binop op (.int a) b with
        | none => simp [hb, R.stuck] at h2'
        | some v =>
          cases v with
          | int k =>
            cases hu : setField env1 x i k with
            | none => simp [hb, hu, R.stuck] at h2'
            | some env2 =>
              simp [hb, hu, pure_eq, R.ok] at h2'
              obtain ⟨rfl, rfl, rfl⟩ := h2'
              obtain ⟨fs, hlk, hlt, hup⟩ := setField_inv hu
              have hc : σ1 (.t c) = .int a := by rw [hf1 c (by omega)]; simp
              have hσx : (σ1.set (.t (atvNext vr c1)) (.int k)) (.x x) = .recd fs := by
                rw [set_other _ _ (by intro h; cases h)]; exact ha1 x _ hlk
              refine ⟨((σ1.set (.t (atvNext vr c1)) (.int k)).set (.x x) (.recd (fs.set i k))), t1, [], ?_, (EvalV.pure (by simp [evalValue])), by simp,
                (ha1.set_tmp _ _).update hup, ?_⟩
              · have h0 : ExecC P σ [.assign (.t c) (.cloneField (.x x) i)] [] (.normal (σ.set (.t c) (.int a))) :=
                  ExecC.assign1 ((EvalV.pure (by simp [evalValue, ha x _ hlk0, payload, hget0])))
                have h3 : ExecC P σ1 [.assign (.t (atvNext vr c1)) (.binop (.t c) op (atvVar vr c1)),
                      .assignField (.x x) i (.move (.t (atvNext vr c1)))] []
                    (.normal ((σ1.set (.t (atvNext vr c1)) (.int k)).set (.x x) (.recd (fs.set i k)))) := by
                  have s1 : ExecS P σ1 (.assign (.t (atvNext vr c1)) (.binop (.t c) op (atvVar vr c1))) []
                      (.normal (σ1.set (.t (atvNext vr c1)) (.int k))) := .assign ((EvalV.pure (by simp [evalValue, hc, hv1, hb])))
                  have s2 : ExecS P (σ1.set (.t (atvNext vr c1)) (.int k)) (.assignField (.x x) i (.move (.t (atvNext vr c1)))) []
                      (.normal ((σ1.set (.t (atvNext vr c1)) (.int k)).set (.x x) (.recd (fs.set i k)))) :=
                    .assignField (n := k) (EvalV.pure (by simp [evalValue])) (by rw [hσx]; simp [setPayload, hlt])
                  simpa using ExecC.cons s1 (ExecC.single s2)
                have := ExecC.append h0 (ExecC.append hx1 h3)
                simpa [List.append_assoc] using this
              · exact (((Frame.set_tmp σ (.int a) (Nat.le_refl c)).trans (hf1.mono (by omega)) (Nat.le_refl _)).trans
                  (Frame.set_tmp _ _ (by omega)) (Nat.le_refl _)).trans (Frame.set_x _ _ _ _) (Nat.le_refl _)
          | _ => simp [hb, R.stuck] at h2'
    · intro t w h
      simp only [evalExpr, hop] at h
      cases hx : getField env x i with
      | none => simp [hx, R.stuck] at h
      | some a =>
        simp only [hx, Bool.not_true, Bool.false_eq_true, if_false, bind_eq, bind_ret_iff] at h
        obtain ⟨fs0, hlk0, hget0⟩ := getField_inv hx
        have ha0 : Agree env (σ.set (.t c) (.int a)) := ha.set_tmp _ _
        have h0 : ExecC P σ [.assign (.t c) (.cloneField (.x x) i)] [] (.normal (σ.set (.t c) (.int a))) :=
          ExecC.assign1 ((EvalV.pure (by simp [evalValue, ha x _ hlk0, payload, hget0])))
        rcases h with h | ⟨t1, ⟨env1, b⟩, t2, hel, h2', rfl⟩
        · have := ExecC.append h0 (ExecC.append_ret (atvCode vr c1 ++ [.assign (.t (atvNext vr c1)) (.binop (.t c) op (atvVar vr c1)),
                    .assignField (.x x) i (.move (.t (atvNext vr c1)))]) (hE.ret h1 ha0 h))
          simpa [List.append_assoc] using this
        · cases hb : binop op (.int a) b with
          | none => simp [hb, R.stuck] at h2'
          | some v =>
            cases v with
            | int k => cases hu : setField env1 x i k <;> simp [hb, hu, pure_eq, R.ok, R.stuck] at h2'
            | _ => simp [hb, R.stuck] at h2'
  | ite cnd th el =>
    simp [lowerE, Option.bind_eq_some_iff] at hl
    obtain ⟨cc, vc, c1, h1, ct, xt, c2, h2, ce, xe, c3, h3, rfl, rfl, rfl⟩ := hl
    have ⟨m1, b1⟩ := lowerE_mono cnd c cc vc c1 h1
    have ⟨a1, k1, hk1, hk1'⟩ := atv_spec vc c1 b1
    have ⟨m2, _⟩ := lowerBlock_mono th _ ct xt c2 h2
    have ⟨m3, _⟩ := lowerBlock_mono el _ ce xe c3 h3
    constructor
    · intro t env' w h
      simp only [evalExpr, bind_eq, bind_ok_iff] at h
      obtain ⟨t1, ⟨env1, a⟩, t2, hel, h2', rfl⟩ := h
      obtain ⟨σ1, hx1, hv1, ha1, hf1⟩ := hE.mat h1 ha hel
      cases a with
      | bool bv =>
        cases bv with
        | true =>
          obtain ⟨σ2, hx2, hv2, ha2, hf2⟩ := (hB th env1 _ ct xt c2 σ1 h2 ha1).1 t2 env' w h2'
          refine ⟨σ2.set (.t c2) w, t1 ++ t2, [], ?_, (EvalV.pure (by simp [evalValue])), by simp, ha2.set_tmp _ _, ?_⟩
          · have hthen : ExecC P σ1 (ct ++ [.assign (.t c2) (.move xt)]) t2 (.normal (σ2.set (.t c2) w)) := by
              simpa using ExecC.append hx2 (ExecC.assign1 (x := .t c2) (v := .move xt) (t := []) (val := w) ((EvalV.pure (by simp [evalValue, hv2]))))
            have := ExecC.append hx1 (ExecC.single (ExecS.iteThen (els := ce ++ [.assign (.t c2) (.move xe)]) hv1 hthen))
            simpa [List.append_assoc] using this
          · exact (hf1.trans hf2 (by omega)).trans (Frame.set_tmp _ _ (by omega)) (Nat.le_refl _)
        | false =>
          obtain ⟨σ2, hx2, hv2, ha2, hf2⟩ := (hB el env1 _ ce xe c3 σ1 h3 ha1).1 t2 env' w h2'
          refine ⟨σ2.set (.t c2) w, t1 ++ t2, [], ?_, (EvalV.pure (by simp [evalValue])), by simp, ha2.set_tmp _ _, ?_⟩
          · have helse : ExecC P σ1 (ce ++ [.assign (.t c2) (.move xe)]) t2 (.normal (σ2.set (.t c2) w)) := by
              simpa using ExecC.append hx2 (ExecC.assign1 (x := .t c2) (v := .move xe) (t := []) (val := w) ((EvalV.pure (by simp [evalValue, hv2]))))
            have := ExecC.append hx1 (ExecC.single (ExecS.iteElse (k := true) (thn := ct ++ [.assign (.t c2) (.move xt)]) (by simpa using hv1) helse))
            simpa [List.append_assoc] using this
          · exact (hf1.trans (hf2.mono (c := c) (by omega)) (Nat.le_refl _)).trans (Frame.set_tmp _ _ (by omega)) (Nat.le_refl _)
      | _ => simp [R.stuck] at h2'
    · intro t w h
      simp only [evalExpr, bind_eq, bind_ret_iff] at h
      rcases h with h | ⟨t1, ⟨env1, a⟩, t2, hel, h2', rfl⟩
      · have := hE.ret h1 ha h
        simpa [List.append_assoc] using ExecC.append_ret _ this
      · obtain ⟨σ1, hx1, hv1, ha1, hf1⟩ := hE.mat h1 ha hel
        cases a with
        | bool bv =>
          cases bv with
          | true =>
            have hr := (hB th env1 _ ct xt c2 σ1 h2 ha1).2 t2 w h2'
            have := ExecC.append hx1 (ExecC.single (ExecS.iteThen (els := ce ++ [.assign (.t c2) (.move xe)]) hv1
              (ExecC.append_ret [.assign (.t c2) (.move xt)] hr)))
            simpa [List.append_assoc] using this
          | false =>
            have hr := (hB el env1 _ ce xe c3 σ1 h3 ha1).2 t2 w h2'
            have := ExecC.append hx1 (ExecC.single (ExecS.iteElse (k := true) (thn := ct ++ [.assign (.t c2) (.move xt)])
              (by simpa using hv1) (ExecC.append_ret [.assign (.t c2) (.move xe)] hr)))
            simpa [List.append_assoc] using this
        | _ => simp [R.stuck] at h2'
  | if1 cnd th =>
    simp [lowerE, Option.bind_eq_some_iff] at hl
    obtain ⟨cc, vc, c1, h1, ct, xt, c2, h2, rfl, rfl, rfl⟩ := hl
    have ⟨m1, b1⟩ := lowerE_mono cnd c cc vc c1 h1
    have ⟨a1, k1, hk1, hk1'⟩ := atv_spec vc c1 b1
    have ⟨m2, _⟩ := lowerBlock_mono th _ ct xt c2 h2
    have hne : atvVar vc c1 ≠ .t c2 := by rw [hk1]; intro h; cases h; omega
    constructor
    · intro t env' w h
      simp only [evalExpr, bind_eq, bind_ok_iff] at h
      obtain ⟨t1, ⟨env1, a⟩, t2, hel, h2', rfl⟩ := h
      obtain ⟨σ1, hx1, hv1, ha1, hf1⟩ := hE.mat h1 ha hel
      have hinit : ExecC P σ1 [.assign (.t c2) (.const .unit)] [] (.normal (σ1.set (.t c2) .unit)) :=
        ExecC.assign1 ((EvalV.pure (by simp [evalValue])))
      have hxc : (σ1.set (.t c2) .unit) (atvVar vc c1) = a := by rw [set_other _ _ hne, hv1]
      cases a with
      | bool bv =>
        cases bv with
        | true =>
          simp only [bind_eq, bind_ok_iff] at h2'
          obtain ⟨t3, ⟨env2, bvl⟩, t4, hbl, h4, rfl⟩ := h2'
          obtain ⟨σ2, hx2, hv2, ha2, hf2⟩ := (hB th env1 _ ct xt c2 _ h2 (ha1.set_tmp c2 .unit)).1 t3 env2 bvl hbl
          cases bvl with
          | unit =>
            simp [pure_eq, R.ok] at h4
            obtain ⟨rfl, rfl, rfl⟩ := h4
            refine ⟨σ2.set (.t c2) .unit, t1 ++ t3, [], ?_, (EvalV.pure (by simp [evalValue])), by simp, ha2.set_tmp _ _, ?_⟩
            · have hthen : ExecC P (σ1.set (.t c2) .unit) (ct ++ [.assign (.t c2) (.move xt)]) t3
                  (.normal (σ2.set (.t c2) .unit)) := by
                simpa using ExecC.append hx2 (ExecC.assign1 (x := .t c2) (v := .move xt) (t := []) (val := .unit)
                  ((EvalV.pure (by simp [evalValue, hv2]))))
              have := ExecC.append hx1 (ExecC.append hinit (ExecC.single (ExecS.iteThen (els := []) hxc hthen)))
              simpa [List.append_assoc] using this
            · exact ((hf1.trans (Frame.set_tmp _ _ (by omega)) (Nat.le_refl _)).trans (hf2.mono (c := c) (by omega)) (Nat.le_refl _)).trans
                (Frame.set_tmp _ _ (by omega)) (Nat.le_refl _)
          | _ => simp [R.stuck] at h4
        | false =>
          simp [pure_eq, R.ok] at h2'
          obtain ⟨rfl, rfl, rfl⟩ := h2'
          refine ⟨σ1.set (.t c2) .unit, t1, [], ?_, (EvalV.pure (by simp [evalValue])), by simp, ha1.set_tmp _ _,
            hf1.trans (Frame.set_tmp _ _ (by omega)) (Nat.le_refl _)⟩
          have := ExecC.append hx1 (ExecC.append hinit (ExecC.single
            (ExecS.iteElse (k := true) (thn := ct ++ [.assign (.t c2) (.move xt)]) (by simpa using hxc) .nil)))
          simpa [List.append_assoc] using this
      | _ => simp [R.stuck] at h2'
    · intro t w h
      simp only [evalExpr, bind_eq, bind_ret_iff] at h
      rcases h with h | ⟨t1, ⟨env1, a⟩, t2, hel, h2', rfl⟩
      · have := hE.ret h1 ha h
        simpa [List.append_assoc] using ExecC.append_ret _ this
      · obtain ⟨σ1, hx1, hv1, ha1, hf1⟩ := hE.mat h1 ha hel
        have hinit : ExecC P σ1 [.assign (.t c2) (.const .unit)] [] (.normal (σ1.set (.t c2) .unit)) :=
          ExecC.assign1 ((EvalV.pure (by simp [evalValue])))
        have hxc : (σ1.set (.t c2) .unit) (atvVar vc c1) = a := by rw [set_other _ _ hne, hv1]
        cases a with
        | bool bv =>
          cases bv with
          | true =>
            simp only [bind_eq, bind_ret_iff] at h2'
            rcases h2' with h | ⟨t3, ⟨env2, bvl⟩, t4, hbl, h4, rfl⟩
            · have hr := (hB th env1 _ ct xt c2 _ h2 (ha1.set_tmp c2 .unit)).2 t2 w h
              have := ExecC.append hx1 (ExecC.append hinit (ExecC.single (ExecS.iteThen (els := []) hxc
                (ExecC.append_ret [.assign (.t c2) (.move xt)] hr))))
              simpa [List.append_assoc] using this
            · cases bvl <;> simp [pure_eq, R.ok, R.stuck] at h4
          | false => simp [pure_eq, R.ok] at h2'
        | _ => simp [R.stuck] at h2'
  | some e1 =>
    simp [lowerE, Option.bind_eq_some_iff] at hl
    obtain ⟨ce, ve, c1, h1, rfl, rfl, rfl⟩ := hl
    have ⟨m1, b1⟩ := lowerE_mono e1 c ce ve c1 h1
    have ⟨a1, k1, hk1, hk1'⟩ := atv_spec ve c1 b1
    have hne : atvVar ve c1 ≠ .t (atvNext ve c1) := by rw [hk1]; intro h; cases h; omega
    constructor
    · intro t env' w h
      simp only [evalExpr, bind_eq, bind_ok_iff] at h
      obtain ⟨t1, ⟨env1, a⟩, t2, hel, h2', rfl⟩ := h
      obtain ⟨σ1, hx1, hv1, ha1, hf1⟩ := hE.mat h1 ha hel
      cases a with
      | int iv =>
        simp [pure_eq, R.ok] at h2'
        obtain ⟨rfl, rfl, rfl⟩ := h2'
        have s1 : ExecS P σ1 (.setDisc (.t (atvNext ve c1)) (.opt (some 0))) [] (.normal (σ1.set (.t (atvNext ve c1)) (.opt (some 0)))) := .setDisc
        have s2 : ExecS P (σ1.set (.t (atvNext ve c1)) (.opt (some 0))) (.assignField (.t (atvNext ve c1)) 0 (.move (atvVar ve c1))) []
            (.normal ((σ1.set (.t (atvNext ve c1)) (.opt (some 0))).set (.t (atvNext ve c1)) (.opt (some iv)))) :=
          .assignField (n := iv) ((EvalV.pure (by simp [evalValue, set_other _ _ hne, hv1]))) (by simp [setPayload])
        refine ⟨(σ1.set (.t (atvNext ve c1)) (.opt (some 0))).set (.t (atvNext ve c1)) (.opt (some iv)), t1, [], ?_,
          (EvalV.pure (by simp [evalValue])), by simp, (ha1.set_tmp _ _).set_tmp _ _,
          (hf1.trans (Frame.set_tmp _ _ (by omega)) (Nat.le_refl _)).trans (Frame.set_tmp _ _ (by omega)) (Nat.le_refl _)⟩
        have := ExecC.append hx1 (ExecC.cons s1 (ExecC.single s2))
        simpa [List.append_assoc] using this
      | _ => simp [R.stuck] at h2'
    · intro t w h
      simp only [evalExpr, bind_eq, bind_ret_iff] at h
      rcases h with h | ⟨t1, ⟨env1, a⟩, t2, hel, h2', rfl⟩
      · have := hE.ret h1 ha h
        simpa [List.append_assoc] using ExecC.append_ret _ this
      · cases a <;> simp [pure_eq, R.ok, R.stuck] at h2'
  | none =>
    simp [lowerE] at hl; obtain ⟨rfl, rfl, rfl⟩ := hl
    constructor
    · intro t env' w h
      simp [evalExpr, R.ok] at h
      obtain ⟨rfl, rfl, rfl⟩ := h
      exact ⟨_, [], [], ExecC.single .setDisc, (EvalV.pure (by simp [evalValue])), rfl, ha.set_tmp _ _,
        Frame.set_tmp _ _ (Nat.le_refl _)⟩
    · intro t w h; simp [evalExpr, R.ok] at h
  | accept e1 =>
    simp [lowerE, Option.bind_eq_some_iff] at hl
    obtain ⟨ce, ve, c1, h1, rfl, rfl, rfl⟩ := hl
    have hvb := lowerE_valueBound e1 c ce ve c1 h1
    constructor
    · intro t env' w h
      simp only [evalExpr, bind_eq, bind_ok_iff] at h
      obtain ⟨t1, ⟨env1, a⟩, t2, hel, h2', rfl⟩ := h
      cases a <;> simp [R.early, R.stuck] at h2'
    · intro t w h
      simp only [evalExpr, bind_eq, bind_ret_iff] at h
      rcases h with h | ⟨t1, ⟨env1, a⟩, t2, hel, h2', rfl⟩
      · exact ExecC.append_ret _ (hE.ret h1 ha h)
      · obtain ⟨σ1, t1', t2', hx1, hv1, rfl, ha1, hf1⟩ := (hE e1 env c ce ve c1 σ h1 ha).1 t1 env1 a hel
        cases a with
        | int iv =>
          simp [R.early] at h2'
          obtain ⟨rfl, rfl⟩ := h2'
          have s1 : ExecS P σ1 (.setDisc (.t c1) (.verdict true 0)) [] (.normal (σ1.set (.t c1) (.verdict true 0))) := .setDisc
          have s2 : ExecS P (σ1.set (.t c1) (.verdict true 0)) (.assignField (.t c1) 0 ve) t2'
              (.normal ((σ1.set (.t c1) (.verdict true 0)).set (.t c1) (.verdict true iv))) :=
            .assignField (n := iv) (hv1.set_fresh _ hvb (Nat.le_refl _)) (by simp [setPayload])
          have s3 : ExecS P ((σ1.set (.t c1) (.verdict true 0)).set (.t c1) (.verdict true iv)) (.ret (.t c1)) []
              (.returned (.verdict true iv)) := by
            have := ExecS.ret (P := P) (σ := (σ1.set (.t c1) (.verdict true 0)).set (.t c1) (.verdict true iv)) (x := .t c1)
            simpa using this
          have := ExecC.append hx1 (ExecC.cons s1 (ExecC.cons s2 (ExecC.consRet (rest := []) s3)))
          simpa [List.append_assoc] using this
        | _ => simp [R.stuck] at h2'
  | reject e1 =>
    simp [lowerE, Option.bind_eq_some_iff] at hl
    obtain ⟨ce, ve, c1, h1, rfl, rfl, rfl⟩ := hl
    have hvb := lowerE_valueBound e1 c ce ve c1 h1
    constructor
    · intro t env' w h
      simp only [evalExpr, bind_eq, bind_ok_iff] at h
      obtain ⟨t1, ⟨env1, a⟩, t2, hel, h2', rfl⟩ := h
      cases a <;> simp [R.early, R.stuck] at h2'
    · intro t w h
      simp only [evalExpr, bind_eq, bind_ret_iff] at h
      rcases h with h | ⟨t1, ⟨env1, a⟩, t2, hel, h2', rfl⟩
      · exact ExecC.append_ret _ (hE.ret h1 ha h)
      · obtain ⟨σ1, t1', t2', hx1, hv1, rfl, ha1, hf1⟩ := (hE e1 env c ce ve c1 σ h1 ha).1 t1 env1 a hel
        cases a with
        | int iv =>
          simp [R.early] at h2'
          obtain ⟨rfl, rfl⟩ := h2'
          have s1 : ExecS P σ1 (.setDisc (.t c1) (.verdict false 0)) [] (.normal (σ1.set (.t c1) (.verdict false 0))) := .setDisc
          have s2 : ExecS P (σ1.set (.t c1) (.verdict false 0)) (.assignField (.t c1) 0 ve) t2'
              (.normal ((σ1.set (.t c1) (.verdict false 0)).set (.t c1) (.verdict false iv))) :=
            .assignField (n := iv) (hv1.set_fresh _ hvb (Nat.le_refl _)) (by simp [setPayload])
          have s3 : ExecS P ((σ1.set (.t c1) (.verdict false 0)).set (.t c1) (.verdict false iv)) (.ret (.t c1)) []
              (.returned (.verdict false iv)) := by
            have := ExecS.ret (P := P) (σ := (σ1.set (.t c1) (.verdict false 0)).set (.t c1) (.verdict false iv)) (x := .t c1)
            simpa using this
          have := ExecC.append hx1 (ExecC.cons s1 (ExecC.cons s2 (ExecC.consRet (rest := []) s3)))
          simpa [List.append_assoc] using this
        | _ => simp [R.stuck] at h2'
  | «try» e1 =>
    simp [lowerE, Option.bind_eq_some_iff] at hl
    obtain ⟨ce, ve, c1, h1, rfl, rfl, rfl⟩ := hl
    have ⟨m1, b1⟩ := lowerE_mono e1 c ce ve c1 h1
    have ⟨a1, k1, hk1, hk1'⟩ := atv_spec ve c1 b1
    have hne : atvVar ve c1 ≠ .t (atvNext ve c1) := by rw [hk1]; intro h; cases h; omega
    constructor
    · intro t env' w h
      simp only [evalExpr, bind_eq, bind_ok_iff] at h
      obtain ⟨t1, ⟨env1, a⟩, t2, hel, h2', rfl⟩ := h
      obtain ⟨σ1, hx1, hv1, ha1, hf1⟩ := hE.mat h1 ha hel
      cases a with
      | opt o =>
        cases o with
        | some iv =>
          simp [pure_eq, R.ok] at h2'
          obtain ⟨rfl, rfl, rfl⟩ := h2'
          have s1 : ExecS P σ1 (.assign (.t (atvNext ve c1)) (.disc (atvVar ve c1))) [] (.normal (σ1.set (.t (atvNext ve c1)) (.int 0))) :=
            .assign ((EvalV.pure (by simp [evalValue, hv1, discOf])))
          have s2 : ExecS P (σ1.set (.t (atvNext ve c1)) (.int 0))
              (.iteD (.t (atvNext ve c1)) 0 [] [.setDisc (.t ((atvNext ve c1) + 1)) (.opt none), .ret (.t ((atvNext ve c1) + 1))]) []
              (.normal (σ1.set (.t (atvNext ve c1)) (.int 0))) := .iteDThen (by simp) .nil
          refine ⟨σ1.set (.t (atvNext ve c1)) (.int 0), t1, [], ?_, ?_, by simp, ha1.set_tmp _ _,
            hf1.trans (Frame.set_tmp _ _ (by omega)) (Nat.le_refl _)⟩
          · have := ExecC.append hx1 (ExecC.cons s1 (ExecC.single s2))
            simpa [List.append_assoc] using this
          · exact .pure (by simp [evalValue, set_other _ _ hne, hv1, payload])
        | none => simp [R.early] at h2'
      | _ => simp [R.stuck] at h2'
    · intro t w h
      simp only [evalExpr, bind_eq, bind_ret_iff] at h
      rcases h with h | ⟨t1, ⟨env1, a⟩, t2, hel, h2', rfl⟩
      · have := hE.ret h1 ha h
        simpa [List.append_assoc] using ExecC.append_ret _ this
      · obtain ⟨σ1, hx1, hv1, ha1, hf1⟩ := hE.mat h1 ha hel
        cases a with
        | opt o =>
          cases o with
          | some iv => simp [pure_eq, R.ok] at h2'
          | none =>
            simp [R.early] at h2'
            obtain ⟨rfl, rfl⟩ := h2'
            have s1 : ExecS P σ1 (.assign (.t (atvNext ve c1)) (.disc (atvVar ve c1))) [] (.normal (σ1.set (.t (atvNext ve c1)) (.int 1))) :=
              .assign ((EvalV.pure (by simp [evalValue, hv1, discOf])))
            have r1 : ExecS P (σ1.set (.t (atvNext ve c1)) (.int 1)) (.setDisc (.t ((atvNext ve c1) + 1)) (.opt none)) []
                (.normal ((σ1.set (.t (atvNext ve c1)) (.int 1)).set (.t ((atvNext ve c1) + 1)) (.opt none))) := .setDisc
            have r2 : ExecS P ((σ1.set (.t (atvNext ve c1)) (.int 1)).set (.t ((atvNext ve c1) + 1)) (.opt none)) (.ret (.t ((atvNext ve c1) + 1))) []
                (.returned (.opt none)) := by
              have := ExecS.ret (P := P) (σ := (σ1.set (.t (atvNext ve c1)) (.int 1)).set (.t ((atvNext ve c1) + 1)) (.opt none)) (x := .t ((atvNext ve c1) + 1))
              simpa using this
            have s2 : ExecS P (σ1.set (.t (atvNext ve c1)) (.int 1))
                (.iteD (.t (atvNext ve c1)) 0 [] [.setDisc (.t ((atvNext ve c1) + 1)) (.opt none), .ret (.t ((atvNext ve c1) + 1))]) []
                (.returned (.opt none)) :=
              .iteDElse (d := 1) (by simp) (by omega) (ExecC.cons r1 (ExecC.consRet (rest := []) r2))
            have := ExecC.append hx1 (ExecC.cons s1 (ExecC.consRet (rest := []) s2))
            simpa [List.append_assoc] using this
        | _ => simp [R.stuck] at h2'
  | call f args =>
    simp [lowerE, Option.bind_eq_some_iff] at hl
    obtain ⟨ca, tmps, c1, h1, rfl, rfl, rfl⟩ := hl
    constructor
    · intro t env' w h
      simp only [evalExpr, bind_eq, bind_ok_iff] at h
      obtain ⟨t1, ⟨env1, vs⟩, t2, hargs, h2, rfl⟩ := h
      obtain ⟨σ1, hx, hmap, ha1, hf1⟩ := (hA args env c _ _ _ σ h1 ha).1 t1 env1 vs hargs
      cases hfd : fns[f]? with
      | none => simp [hfd, R.stuck] at h2
      | some fd =>
        cases hbp : bindParams fd.params vs [] with
        | none => simp [hfd, hbp, R.stuck] at h2
        | some cenv =>
          simp only [hfd, hbp] at h2
          obtain ⟨codef, hlf, hPf⟩ := hP f fd hfd
          simp [lowerFn, Option.bind_eq_some_iff] at hlf
          obtain ⟨cb, xb, ⟨cz, hb⟩, rfl⟩ := hlf
          have hagree : Agree cenv (storeOfEnv cenv) := by
            intro x v hx; simp [storeOfEnv, hx]
          have hB' := hB fd.body cenv 0 cb xb cz (storeOfEnv cenv) hb hagree
          -- the callee's structured MIR returns the callee's value
          have callee : ∀ tc vv, (evalBlock fns n cenv fd.body).tr = tc →
              ((∃ e', (evalBlock fns n cenv fd.body).out = .ok (e', vv)) ∨ (evalBlock fns n cenv fd.body).out = .ret vv) →
              ExecC P (storeOfEnv cenv) (cb ++ [.ret xb]) tc (.returned vv) := by
            intro tc vv htr hout
            cases hr : evalBlock fns n cenv fd.body with
            | mk tr' o =>
              rw [hr] at htr hout; simp at htr; subst htr
              rcases hout with ⟨e', ho⟩ | ho
              · simp at ho; subst ho
                obtain ⟨σc, hxc, hvc, _, _⟩ := hB'.1 tr' e' vv hr
                have hret : ExecC P σc [.ret xb] [] (.returned (σc xb)) := ExecC.single .ret
                rw [hvc] at hret
                simpa using ExecC.append hxc hret
              · simp at ho; subst ho
                exact ExecC.append_ret _ (hB'.2 tr' vv hr)
          cases hr : evalBlock fns n cenv fd.body with
          | mk tr' o =>
            rw [hr] at h2
            cases o with
            | ok pr =>
              obtain ⟨e', vv⟩ := pr
              simp at h2
              obtain ⟨rfl, rfl, rfl⟩ := h2
              refine ⟨σ1, t1, tr', hx, ?_, rfl, ha1, hf1⟩
              exact .call hPf (by rw [hmap]; exact hbp) (callee tr' vv (by rw [hr]) (Or.inl ⟨e', by rw [hr]⟩))
            | ret vv =>
              simp at h2
              obtain ⟨rfl, rfl, rfl⟩ := h2
              refine ⟨σ1, t1, tr', hx, ?_, rfl, ha1, hf1⟩
              exact .call hPf (by rw [hmap]; exact hbp) (callee tr' vv (by rw [hr]) (Or.inr (by rw [hr])))
            | fuel => simp at h2
            | stuck w' => simp at h2
    · intro t w h
      simp only [evalExpr, bind_eq, bind_ret_iff] at h
      rcases h with h | ⟨t1, ⟨env1, vs⟩, t2, hargs, h2, rfl⟩
      · exact (hA args env c _ _ _ σ h1 ha).2 t w h
      · cases hfd : fns[f]? with
        | none => simp [hfd, R.stuck] at h2
        | some fd =>
          cases hbp : bindParams fd.params vs [] with
          | none => simp [hfd, hbp, R.stuck] at h2
          | some cenv =>
            simp only [hfd, hbp] at h2
            cases hr : evalBlock fns n cenv fd.body with
            | mk tr' o =>
              rw [hr] at h2
              cases o <;> simp at h2
  | mtch s isOpt arms =>
    obtain ⟨hds, ce, ve, c1, ch0, c0, ch1, c1', ch2, c2, dflt, c3, codes, h1, h2, h3, h4, h5, h6, rfl, rfl⟩ := lowerE_mtch_inv hl
    have ⟨m1, b1⟩ := lowerE_mono s c ce ve c1 h1
    have ⟨a1, ke, hke, hke'⟩ := atv_spec ve c1 b1
    have m2 := lowerChain_mono arms _ _ _ _ _ ch0 c0 h2
    have m3 := lowerChain_mono arms _ _ _ _ _ ch1 c1' h3
    have m4 := lowerChain_mono arms _ _ _ _ _ ch2 c2 h4
    have m5 := lowerChain_mono arms _ _ _ _ _ dflt c3 h5
    rw [hke] at h2 h3 h4 h5
    -- the chain the switch selects is the chain of the examinee's variant
    have chain : ∀ (v : Val) (k : Nat), examineeOk isOpt v = true → discOf v = some k →
        ∃ sel cx cx', lowerChain arms sel (.t ke) (if isOpt then 0 else 10) 0 cx
            = some (findChain ((if (discsOf arms).contains 0 then [GChain.mk 0 ch0] else [])
                ++ (if (discsOf arms).contains 1 then [GChain.mk 1 ch1] else [])
                ++ (if (discsOf arms).contains 2 then [GChain.mk 2 ch2] else [])) dflt k, cx')
          ∧ atvNext ve c1 + 1 ≤ cx ∧ (∀ p, p ∈ patsOf arms → selects sel p = patMatches v p) := by
      intro v k hok hk
      have hk3 : k < (if isOpt then 2 else 3) := by
        cases v with
        | opt o => cases o <;> simp_all [examineeOk, discOf] <;> omega
        | enm kk fs => simp_all [examineeOk, discOf]
        | _ => simp [examineeOk] at hok
      have hpm : ∀ k' bs, patMatches v (.variant k' bs) = (k == k') := by
        intro k' bs; simp [patMatches, hk]
      by_cases hmem : k ∈ discsOf arms
      · -- the variant has a chain of its own
        have hsel : ∀ p, p ∈ patsOf arms → selects (.variant k) p = patMatches v p := by
          intro p _; cases p with
          | wild => simp [selects, patMatches]
          | variant k' bs => rw [hpm]; simp [selects]
        have hk012 : k = 0 ∨ k = 1 ∨ k = 2 := by split at hk3 <;> omega
        rcases hk012 with rfl | rfl | rfl
        · exact ⟨.variant 0, atvNext ve c1 + 1, c0, by simpa [hmem, findChain] using h2, by omega, hsel⟩
        · refine ⟨.variant 1, c0, c1', ?_, by omega, hsel⟩
          by_cases h0 : (0 : Nat) ∈ discsOf arms <;> simpa [hmem, h0, findChain] using h3
        · refine ⟨.variant 2, c1', c2, ?_, by omega, hsel⟩
          by_cases h0 : (0 : Nat) ∈ discsOf arms <;> by_cases h1' : (1 : Nat) ∈ discsOf arms <;>
            simpa [hmem, h0, h1', findChain] using h4
      · -- no chain of its own: the default chain (the `_` arms)
        have hnc : ¬ ((List.range (if isOpt then 2 else 3)).all (fun k => (discsOf arms).contains k) = true) := by
          intro hall
          simp only [List.all_eq_true, List.mem_range] at hall
          exact hmem (by simpa using hall k hk3)
        have hfind : findChain ((if (discsOf arms).contains 0 then [GChain.mk 0 ch0] else [])
                ++ (if (discsOf arms).contains 1 then [GChain.mk 1 ch1] else [])
                ++ (if (discsOf arms).contains 2 then [GChain.mk 2 ch2] else [])) dflt k = dflt := by
          by_cases h0 : (0 : Nat) ∈ discsOf arms <;> by_cases h1' : (1 : Nat) ∈ discsOf arms <;>
            by_cases h2' : (2 : Nat) ∈ discsOf arms <;> simp [h0, h1', h2', findChain] <;>
            (repeat (first | (intro hh; subst hh; contradiction) | (split <;> try (exfalso; subst_vars; contradiction)) | rfl))
        rw [hfind]
        by_cases hw : hasWild arms = true
        · have hex : ∃ x, (x < if isOpt = true then 2 else 3) ∧ ¬ x ∈ discsOf arms := ⟨k, hk3, hmem⟩
          refine ⟨.wildOnly, c2, c3, by simpa [hw, hex] using h5, by omega, ?_⟩
          intro p hp; cases p with
          | wild => simp [selects, patMatches]
          | variant k' bs =>
            rw [hpm]; simp only [selects]
            have : k' ∈ discsOf arms := mem_discsOf arms k' bs hp
            have hne' : k ≠ k' := fun h => hmem (h ▸ this)
            have : (k == k') = false := by simp [hne']
            simp [this]
        · refine ⟨.off, c2, c3, by simpa [hw] using h5, by omega, ?_⟩
          intro p hp; cases p with
          | wild => exact absurd hp (not_hasWild arms (by simpa using hw))
          | variant k' bs =>
            rw [hpm]; simp only [selects]
            have : k' ∈ discsOf arms := mem_discsOf arms k' bs hp
            have hne' : k ≠ k' := fun h => hmem (h ▸ this)
            have : (k == k') = false := by simp [hne']
            simp [this]
    have m6 := lowerArms_mono arms _ _ codes c' h6
    have hne : Var.t ke ≠ .t (atvNext ve c1) := by intro h; cases h; omega
    constructor
    · intro t env' w h
      simp only [evalExpr, bind_eq, bind_ok_iff] at h
      obtain ⟨t1, ⟨env1, v⟩, t2, hel, h2', rfl⟩ := h
      obtain ⟨σ1, hx1, hv1, ha1, hf1⟩ := hE.mat h1 ha hel
      rw [hke] at hv1
      by_cases hok : examineeOk isOpt v = true
      · simp only [hok, if_true] at h2'
        have hd : (discOf v).isSome := by
          cases v <;> simp_all [examineeOk, discOf]
          rename_i o; cases o <;> simp
        obtain ⟨k, hk⟩ := Option.isSome_iff_exists.mp hd
        obtain ⟨sel, cx, cx', hch, hcx, hsel⟩ := chain v k hok hk
        have s1 : ExecS P σ1 (.assign (.t (atvNext ve c1)) (.disc (.t ke))) [] (.normal (σ1.set (.t (atvNext ve c1)) (.int k))) :=
          .assign ((EvalV.pure (by simp [evalValue, hv1, hk])))
        have hxe2 : (σ1.set (.t (atvNext ve c1)) (.int k)) (.t ke) = v := by rw [set_other _ _ hne, hv1]
        obtain ⟨a, σ2, tg, code, σ3, tb', hg, hcode, hxb, hr, rfl, ha3, hf3⟩ :=
          (hC arms env1 sel ke _ 0 cx _ cx' (σ1.set (.t (atvNext ve c1)) (.int k)) v c3 (c3 + 1) codes c'
            (atvNext ve c1 + 1) hch h6 (ha1.set_tmp _ _) hxe2 hd (by omega) hcx (by omega) (by omega) (by omega) hsel).1 t2 env' w h2'
        have s2 := ExecS.mtchArm (d := .t (atvNext ve c1)) (k := k) (set_same _ _ _) (by simpa using hg) hcode hxb
        refine ⟨σ3, t1 ++ (tg ++ tb'), [], ?_, (EvalV.pure (by simp [evalValue, hr])), by simp, ha3,
          (hf1.trans (Frame.set_tmp _ _ (by omega)) (Nat.le_refl _)).trans (hf3.mono (c := c) (by omega)) (Nat.le_refl _)⟩
        have := ExecC.append hx1 (ExecC.cons s1 (ExecC.single s2))
        rw [hke]
        simpa [List.append_assoc] using this
      · simp [hok, R.stuck] at h2'
    · intro t w h
      simp only [evalExpr, bind_eq, bind_ret_iff] at h
      rcases h with h | ⟨t1, ⟨env1, v⟩, t2, hel, h2', rfl⟩
      · have := hE.ret h1 ha h
        simpa [List.append_assoc] using ExecC.append_ret _ this
      · obtain ⟨σ1, hx1, hv1, ha1, hf1⟩ := hE.mat h1 ha hel
        rw [hke] at hv1
        by_cases hok : examineeOk isOpt v = true
        · simp only [hok, if_true] at h2'
          have hd : (discOf v).isSome := by
            cases v <;> simp_all [examineeOk, discOf]
            rename_i o; cases o <;> simp
          obtain ⟨k, hk⟩ := Option.isSome_iff_exists.mp hd
          obtain ⟨sel, cx, cx', hch, hcx, hsel⟩ := chain v k hok hk
          have s1 : ExecS P σ1 (.assign (.t (atvNext ve c1)) (.disc (.t ke))) [] (.normal (σ1.set (.t (atvNext ve c1)) (.int k))) :=
            .assign ((EvalV.pure (by simp [evalValue, hv1, hk])))
          have hxe2 : (σ1.set (.t (atvNext ve c1)) (.int k)) (.t ke) = v := by rw [set_other _ _ hne, hv1]
          have hres := (hC arms env1 sel ke _ 0 cx _ cx' (σ1.set (.t (atvNext ve c1)) (.int k)) v c3 (c3 + 1) codes c'
            (atvNext ve c1 + 1) hch h6 (ha1.set_tmp _ _) hxe2 hd (by omega) hcx (by omega) (by omega) (by omega) hsel).2 t2 w h2'
          rw [hke]
          rcases hres with hg | ⟨a, σ2, tg, code, tb', hg, hcode, hxb, rfl⟩
          · have s2 := ExecS.mtchGuardRet (d := .t (atvNext ve c1)) (k := k) (arms := codes) (set_same _ _ _) hg
            have := ExecC.append hx1 (ExecC.cons s1 (ExecC.consRet (rest := []) s2))
            simpa [List.append_assoc] using this
          · have s2 := ExecS.mtchArm (d := .t (atvNext ve c1)) (k := k) (set_same _ _ _) (by simpa using hg) hcode hxb
            have := ExecC.append hx1 (ExecC.cons s1 (ExecC.single s2))
            simpa [List.append_assoc] using this
        · simp [hok, R.stuck] at h2'
  | «for» x l b =>
    simp [lowerE, Option.bind_eq_some_iff] at hl
    obtain ⟨cl, vl, c1, h1, cb, xb, c3, h2, rfl, rfl, rfl⟩ := hl
    have ⟨m1, b1⟩ := lowerE_mono l _ cl vl c1 h1
    have ⟨a1, kl, hkl, hkl'⟩ := atv_spec vl c1 b1
    constructor
    · intro t env' w h
      simp only [evalExpr, bind_eq, bind_ok_iff] at h
      obtain ⟨t1, ⟨env1, lv⟩, t2, hel, h2', rfl⟩ := h
      obtain ⟨σ1, hx1, hv1, ha1, hf1⟩ := hE.mat h1 ha hel
      cases lv with
      | list xs =>
        simp only at h2'
        -- the list temporary lies above the option temporary: it was allocated later
        have hkl0 : c < kl := by
          have := atvVar_lower l (c + 1) cl vl c1 h1 hkl; omega
        have s0 : ExecS P σ1 (.assign (.t (atvNext vl c1)) (.const (.int 0))) []
            (.normal (σ1.set (.t (atvNext vl c1)) (.int (0 : Nat)))) := .assign (.pure (by simp [evalValue]))
        rw [hkl] at hv1
        have hlst : (σ1.set (.t (atvNext vl c1)) (.int (0 : Nat))) (.t kl) = .list xs := by
          rw [set_other _ _ (by intro h; cases h <;> omega), hv1]
        obtain ⟨σ2, hx2, rfl, ha2, hf2⟩ := (hR x b env1 xs xs 0 kl (atvNext vl c1) c cb xb c3 _ h2 (ha1.set_tmp _ _) hlst
          (by simp) (by simp) hkl0 hkl').1 t2 env' w h2'
        refine ⟨σ2, t1 ++ t2, [], ?_, .pure (by simp [evalValue]), by simp, ha2,
          (hf1.mono (by omega)).trans ((Frame.set_tmp _ _ (by omega)).trans hf2 (Nat.le_refl _)) (Nat.le_refl _)⟩
        have := ExecC.append hx1 (ExecC.cons s0 (ExecC.single hx2))
        rw [hkl]
        simpa [List.append_assoc] using this
      | _ => simp [R.stuck] at h2'
    · intro t w h
      simp only [evalExpr, bind_eq, bind_ret_iff] at h
      rcases h with h | ⟨t1, ⟨env1, lv⟩, t2, hel, h2', rfl⟩
      · have := hE.ret h1 ha h
        simpa [List.append_assoc] using ExecC.append_ret _ this
      · obtain ⟨σ1, hx1, hv1, ha1, hf1⟩ := hE.mat h1 ha hel
        cases lv with
        | list xs =>
          simp only at h2'
          have hkl0 : c < kl := by
            have := atvVar_lower l (c + 1) cl vl c1 h1 hkl; omega
          have s0 : ExecS P σ1 (.assign (.t (atvNext vl c1)) (.const (.int 0))) []
              (.normal (σ1.set (.t (atvNext vl c1)) (.int (0 : Nat)))) := .assign (.pure (by simp [evalValue]))
          rw [hkl] at hv1
          have hlst : (σ1.set (.t (atvNext vl c1)) (.int (0 : Nat))) (.t kl) = .list xs := by
            rw [set_other _ _ (by intro h; cases h <;> omega), hv1]
          have hx2 := (hR x b env1 xs xs 0 kl (atvNext vl c1) c cb xb c3 _ h2 (ha1.set_tmp _ _) hlst
            (by simp) (by simp) hkl0 hkl').2 t2 w h2'
          have := ExecC.append hx1 (ExecC.cons s0 (ExecC.consRet (rest := []) hx2))
          rw [hkl]
          simpa [List.append_assoc] using this
        | _ => simp [R.stuck] at h2'
  | ctor k args =>
    simp [lowerE, Option.bind_eq_some_iff] at hl
    obtain ⟨ca, xs, c1, h1, rfl, rfl, rfl⟩ := hl
    have ⟨m1, hxs⟩ := lowerCtorArgs_mono args c ca xs c1 h1
    have hne : ∀ x ∈ xs, x ≠ Var.t c1 := by
      intro x hx; obtain ⟨j, rfl, hj⟩ := hxs x hx; intro h; cases h; omega
    constructor
    · intro t env' w h
      simp only [evalExpr, bind_eq, bind_ok_iff] at h
      obtain ⟨t1, ⟨env1, fs⟩, t2, hargs, h2', rfl⟩ := h
      simp [pure_eq, R.ok] at h2'
      obtain ⟨rfl, rfl, rfl⟩ := h2'
      obtain ⟨σ1, hx1, hmap, ha1, hf1⟩ := (hK args env c ca xs c1 σ h1 ha).1 t1 env1 fs hargs
      have s1 : ExecS P σ1 (.setDisc (.t c1) (.enm k (List.replicate xs.length 0))) []
          (.normal (σ1.set (.t c1) (.enm k (List.replicate xs.length 0)))) := .setDisc
      have hmap' : xs.map (σ1.set (.t c1) (.enm k (List.replicate xs.length 0))) = fs.map Val.int := by
        rw [← hmap]; exact List.map_congr_left (fun y hy => set_other _ _ (hne y hy))
      obtain ⟨σ2, hx2, hv2, hk2⟩ := exec_storeFields (k := k) (to := .t c1) xs fs [] _ (by simp) hne hmap'
      refine ⟨σ2, t1, [], ?_, (EvalV.pure (by simp [evalValue, hv2])), by simp, ?_, ?_⟩
      · have := ExecC.append hx1 (ExecC.cons s1 hx2)
        simpa [List.append_assoc] using this
      · intro x v hx
        rw [hk2 (.x x) (by intro h; cases h), set_other _ _ (by intro h; cases h)]
        exact ha1 x v hx
      · intro j hj
        rw [hk2 (.t j) (by intro h; cases h <;> omega), set_other _ _ (by intro h; cases h <;> omega)]
        exact hf1 j hj
    · intro t w h
      simp only [evalExpr, bind_eq, bind_ret_iff] at h
      rcases h with h | ⟨t1, ⟨env1, fs⟩, t2, hargs, h2', rfl⟩
      · have := (hK args env c ca xs c1 σ h1 ha).2 t w h
        simpa [List.append_assoc] using ExecC.append_ret _ this
      · simp [pure_eq, R.ok] at h2'
  | record perm fs =>
    obtain ⟨ca, xs, c1, h1, hperm, rfl, rfl, rfl⟩ := lowerE_record_inv hl
    have ⟨m1, hxs⟩ := lowerCtorArgs_mono fs c ca xs c1 h1
    have hne : ∀ x ∈ xs, x ≠ Var.t c1 := by
      intro x hx; obtain ⟨j, rfl, hj⟩ := hxs x hx; intro h; cases h; omega
    constructor
    · intro t env' w h
      simp only [evalExpr, bind_eq, bind_ok_iff] at h
      obtain ⟨t1, ⟨env1, fs'⟩, t2, hargs, h2', rfl⟩ := h
      obtain ⟨σ1, hx1, hmap, ha1, hf1⟩ := (hK fs env c ca xs c1 σ h1 ha).1 t1 env1 fs' hargs
      have hlen : fs'.length = xs.length := by
        have := congrArg List.length hmap; simpa using this.symm
      rw [hlen] at h2'
      simp [hperm, pure_eq, R.ok] at h2'
      obtain ⟨rfl, rfl, rfl⟩ := h2'
      have hall : ∀ p ∈ perm, p < (List.replicate xs.length (0 : Int)).length := by
        intro p hp
        simp only [permOk, Bool.and_eq_true, List.all_eq_true, decide_eq_true_eq] at hperm
        simpa using hperm.1.2 p hp
      have s1 : ExecS P σ1 (.setDisc (.t c1) (.recd (List.replicate xs.length 0))) []
          (.normal (σ1.set (.t c1) (.recd (List.replicate xs.length 0)))) := .setDisc
      have hmap' : xs.map (σ1.set (.t c1) (.recd (List.replicate xs.length 0))) = fs'.map Val.int := by
        rw [← hmap]; exact List.map_congr_left (fun y hy => set_other _ _ (hne y hy))
      obtain ⟨σ2, hx2, hv2, hk2⟩ := exec_storeFieldsAt (P := P) (to := .t c1) perm xs fs' _ _ (by simp) hall hne hmap'
      refine ⟨σ2, t1, [], ?_, (EvalV.pure (by simp [evalValue, hv2, arrange, hlen])), by simp, ?_, ?_⟩
      · have := ExecC.append hx1 (ExecC.cons s1 hx2)
        simpa [List.append_assoc] using this
      · intro x v hx
        rw [hk2 (.x x) (by intro h; cases h), set_other _ _ (by intro h; cases h)]
        exact ha1 x v hx
      · intro j hj
        rw [hk2 (.t j) (by intro h; cases h <;> omega), set_other _ _ (by intro h; cases h <;> omega)]
        exact hf1 j hj
    · intro t w h
      simp only [evalExpr, bind_eq, bind_ret_iff] at h
      rcases h with h | ⟨t1, ⟨env1, fs'⟩, t2, hargs, h2', rfl⟩
      · have := (hK fs env c ca xs c1 σ h1 ha).2 t w h
        simpa [List.append_assoc] using ExecC.append_ret _ this
      · by_cases hp : permOk perm fs'.length = true <;> simp [hp, pure_eq, R.ok, R.stuck] at h2'
  | field e1 i =>
    by_cases hvar : ∃ x, e1 = .var x
    · -- `x.f`: a lazy read of a path
      obtain ⟨x, rfl⟩ := hvar
      simp [lowerE] at hl; obtain ⟨rfl, rfl, rfl⟩ := hl
      constructor
      · intro t env' w h
        simp only [evalExpr, bind_eq, bind_ok_iff] at h
        obtain ⟨t1, ⟨env1, a⟩, t2, hel, h2', rfl⟩ := h
        cases n with
        | zero => simp [evalExpr, R.fuel] at hel
        | succ m =>
          simp only [evalExpr] at hel
          cases hx : lookup env x with
          | none => simp [hx, R.stuck] at hel
          | some u =>
            simp [hx, R.ok] at hel
            obtain ⟨rfl, rfl, rfl⟩ := hel
            cases u with
            | recd fs =>
              cases hfi : fs[i]? with
              | none => simp [hfi, R.stuck] at h2'
              | some y =>
                simp [hfi, pure_eq, R.ok] at h2'
                obtain ⟨rfl, rfl, rfl⟩ := h2'
                exact ⟨σ, [], [], .nil, (EvalV.pure (by simp [evalValue, ha x _ hx, payload, hfi])), rfl, ha, Frame.refl _ _⟩
            | _ => simp [R.stuck] at h2'
      · intro t w h
        simp only [evalExpr, bind_eq, bind_ret_iff] at h
        rcases h with h | ⟨t1, ⟨env1, a⟩, t2, hel, h2', rfl⟩
        · cases n with
          | zero => simp [evalExpr, R.fuel] at h
          | succ m =>
            simp only [evalExpr] at h
            cases hx : lookup env x <;> simp [hx, R.stuck, R.ok] at h
        · cases a with
          | recd fs => cases hfi : fs[i]? <;> simp [hfi, pure_eq, R.ok, R.stuck] at h2'
          | _ => simp [R.stuck] at h2'
    obtain ⟨ce, ve, c1, h1, rfl, rfl, rfl⟩ := lowerE_field_inv hvar hl
    constructor
    · intro t env' w h
      simp only [evalExpr, bind_eq, bind_ok_iff] at h
      obtain ⟨t1, ⟨env1, a⟩, t2, hel, h2', rfl⟩ := h
      obtain ⟨σ1, hx1, hv1, ha1, hf1⟩ := hE.mat h1 ha hel
      cases a with
      | recd fs =>
        cases hfi : fs[i]? with
        | none => simp [hfi, R.stuck] at h2'
        | some x =>
          simp [hfi, pure_eq, R.ok] at h2'
          obtain ⟨rfl, rfl, rfl⟩ := h2'
          exact ⟨σ1, t1, [], hx1, (EvalV.pure (by simp [evalValue, hv1, payload, hfi])), by simp, ha1, hf1⟩
      | _ => simp [R.stuck] at h2'
    · intro t w h
      simp only [evalExpr, bind_eq, bind_ret_iff] at h
      rcases h with h | ⟨t1, ⟨env1, a⟩, t2, hel, h2', rfl⟩
      · exact ExecC.append_ret _ (hE.ret h1 ha h)
      · cases a with
        | recd fs => cases hfi : fs[i]? <;> simp [hfi, pure_eq, R.ok, R.stuck] at h2'
        | _ => simp [R.stuck] at h2'
  | list es =>
    simp [lowerE, Option.bind_eq_some_iff] at hl
    obtain ⟨ce, c1, h1, rfl, rfl, rfl⟩ := hl
    have m1 := lowerElems_mono es _ _ _ ce c1 h1
    have h0 : ExecS P σ (.assign (.t c) .listNew) [] (.normal (σ.set (.t c) (.list []))) :=
      .assign (.pure (by simp [evalValue]))
    have hL' := hL es env c (c + 1) (c + 2) ce c1 (σ.set (.t c) (.list [])) [] h1 (ha.set_tmp _ _) (by omega) (by simp)
    constructor
    · intro t env' w h
      simp only [evalExpr, bind_eq, bind_ok_iff] at h
      obtain ⟨t1, ⟨env1, fs⟩, t2, hargs, h2', rfl⟩ := h
      simp [pure_eq, R.ok] at h2'
      obtain ⟨rfl, rfl, rfl⟩ := h2'
      obtain ⟨σ1, hx1, hv1, ha1, hf1⟩ := hL'.1 t1 env1 fs hargs
      refine ⟨σ1, t1, [], ?_, .pure (by simp [evalValue, hv1]), by simp, ha1,
        (Frame.set_tmp σ _ (Nat.le_refl c)).trans hf1 (Nat.le_refl _)⟩
      simpa using ExecC.cons h0 hx1
    · intro t w h
      simp only [evalExpr, bind_eq, bind_ret_iff] at h
      rcases h with h | ⟨t1, ⟨env1, fs⟩, t2, hargs, h2', rfl⟩
      · simpa using ExecC.cons h0 (hL'.2 t w h)
      · simp [pure_eq, R.ok] at h2'
  | concat l r =>
    simp [lowerE, Option.bind_eq_some_iff] at hl
    obtain ⟨cl, vl, c1, h1, cr, vr, c2, h2, rfl, rfl, rfl⟩ := hl
    have ⟨m1, b1⟩ := lowerE_mono l c cl vl c1 h1
    have ⟨a1, k1, hk1, hk1'⟩ := atv_spec vl c1 b1
    have ⟨m2, b2⟩ := lowerE_mono r _ cr vr c2 h2
    have ⟨a2, k2, hk2, hk2'⟩ := atv_spec vr c2 b2
    constructor
    · intro t env' w h
      simp only [evalExpr, bind_eq, bind_ok_iff] at h
      obtain ⟨t1, ⟨env1, a⟩, t2, hel, ⟨t3, ⟨env2, b⟩, t4, her, h4, rfl⟩, rfl⟩ := h
      obtain ⟨σ1, hx1, hv1, ha1, hf1⟩ := hE.mat h1 ha hel
      obtain ⟨σ2, hx2, hv2, ha2, hf2⟩ := hE.mat h2 ha1 her
      cases a with
      | str sa =>
        cases b with
        | str sb =>
          simp [pure_eq, R.ok] at h4
          obtain ⟨rfl, rfl, rfl⟩ := h4
          have hl' : σ2 (atvVar vl c1) = .str sa := by
            rw [hk1, hf2 k1 hk1', ← hk1, hv1]
          have s3 : ExecS P σ2 (.assign (.t (atvNext vr c2)) (.append (atvVar vl c1) (atvVar vr c2))) []
              (.normal (σ2.set (.t (atvNext vr c2)) (.str (sa ++ sb)))) :=
            .assign (.pure (by simp [evalValue, hl', hv2]))
          refine ⟨σ2.set (.t (atvNext vr c2)) (.str (sa ++ sb)), t1 ++ t3, [], ?_, .pure (by simp [evalValue]), by simp,
            ha2.set_tmp _ _, (hf1.trans hf2 (by omega)).trans (Frame.set_tmp _ _ (by omega)) (Nat.le_refl _)⟩
          have := ExecC.append (ExecC.append hx1 hx2) (ExecC.single s3)
          simpa [List.append_assoc] using this
        | _ => simp [R.stuck] at h4
      | list sa =>
        cases b with
        | list sb =>
          simp [pure_eq, R.ok] at h4
          obtain ⟨rfl, rfl, rfl⟩ := h4
          have hl' : σ2 (atvVar vl c1) = .list sa := by
            rw [hk1, hf2 k1 hk1', ← hk1, hv1]
          have s3 : ExecS P σ2 (.assign (.t (atvNext vr c2)) (.append (atvVar vl c1) (atvVar vr c2))) []
              (.normal (σ2.set (.t (atvNext vr c2)) (.list (sa ++ sb)))) :=
            .assign (.pure (by simp [evalValue, hl', hv2]))
          refine ⟨σ2.set (.t (atvNext vr c2)) (.list (sa ++ sb)), t1 ++ t3, [], ?_, .pure (by simp [evalValue]), by simp,
            ha2.set_tmp _ _, (hf1.trans hf2 (by omega)).trans (Frame.set_tmp _ _ (by omega)) (Nat.le_refl _)⟩
          have := ExecC.append (ExecC.append hx1 hx2) (ExecC.single s3)
          simpa [List.append_assoc] using this
        | _ => simp [R.stuck] at h4
      | _ => simp [R.stuck] at h4
    · intro t w h
      simp only [evalExpr, bind_eq, bind_ret_iff] at h
      rcases h with h | ⟨t1, ⟨env1, a⟩, t2, hel, h2', rfl⟩
      · have := hE.ret h1 ha h
        simpa [List.append_assoc] using ExecC.append_ret _ this
      · obtain ⟨σ1, hx1, hv1, ha1, hf1⟩ := hE.mat h1 ha hel
        rcases h2' with h | ⟨t3, ⟨env2, b⟩, t4, her, h4, rfl⟩
        · have := hE.ret h2 ha1 h
          have := ExecC.append hx1 (ExecC.append_ret (atvCode vr c2 ++ [.assign (.t (atvNext vr c2)) (.append (atvVar vl c1) (atvVar vr c2))]) this)
          simpa [List.append_assoc] using this
        · cases a <;> cases b <;> simp [R.stuck, pure_eq, R.ok] at h4
  | fstr ps =>
    simp [lowerE, Option.bind_eq_some_iff] at hl
    obtain ⟨cp, c1, h1, rfl, rfl, rfl⟩ := hl
    have m1 := lowerParts_mono ps _ _ cp c1 h1
    have h0 : ExecS P σ (.assign (.t c) (.const (.str ""))) [] (.normal (σ.set (.t c) (.str ""))) :=
      .assign (.pure (by simp [evalValue]))
    have hS' := hS ps env c (c + 1) cp c1 (σ.set (.t c) (.str "")) "" h1 (ha.set_tmp _ _) (by omega) (by simp)
    constructor
    · intro t env' w h
      simp only [evalExpr, bind_eq, bind_ok_iff] at h
      obtain ⟨t1, ⟨env1, str⟩, t2, hparts, h2', rfl⟩ := h
      simp [pure_eq, R.ok] at h2'
      obtain ⟨rfl, rfl, rfl⟩ := h2'
      obtain ⟨σ1, hx1, hv1, ha1, hf1⟩ := hS'.1 t1 env1 str hparts
      refine ⟨σ1, t1, [], ?_, .pure (by simp [evalValue, hv1]), by simp, ha1,
        (Frame.set_tmp σ _ (Nat.le_refl c)).trans hf1 (Nat.le_refl _)⟩
      simpa using ExecC.cons h0 hx1
    · intro t w h
      simp only [evalExpr, bind_eq, bind_ret_iff] at h
      rcases h with h | ⟨t1, ⟨env1, str⟩, t2, hparts, h2', rfl⟩
      · simpa using ExecC.cons h0 (hS'.2 t w h)
      · simp [pure_eq, R.ok] at h2'


theorem simArgs_step {fns P n} (hE : SimE fns P n) (hA : SimArgs fns P n) : SimArgs fns P (n + 1) := by
  intro es env c code tmps c' σ hl ha
  cases es with
  | nil =>
    simp [lowerArgs] at hl; obtain ⟨rfl, rfl, rfl⟩ := hl
    constructor
    · intro t env' vs h
      simp [evalArgs, R.ok] at h
      obtain ⟨rfl, rfl, rfl⟩ := h
      exact ⟨σ, .nil, rfl, ha, Frame.refl _ _⟩
    · intro t v h; simp [evalArgs, R.ok] at h
  | cons e es =>
    simp [lowerArgs, Option.bind_eq_some_iff] at hl
    obtain ⟨ce, ve, c1, h1, cs, ts, c2, h2, rfl, rfl, rfl⟩ := hl
    have ⟨m1, _⟩ := lowerE_mono e c ce ve c1 h1
    constructor
    · intro t env' vs h
      simp only [evalArgs, bind_eq, bind_ok_iff] at h
      obtain ⟨t1, ⟨env1, v⟩, t2, hel, ⟨t3, ⟨env2, vs'⟩, t4, hes, h4, rfl⟩, rfl⟩ := h
      simp [pure_eq, R.ok] at h4
      obtain ⟨rfl, rfl, rfl⟩ := h4
      obtain ⟨σ1, hx1, ha1, hf1⟩ := hE.store h1 ha hel (.t c1)
      obtain ⟨σ2, hx2, hmap, ha2, hf2⟩ := (hA es env1 (c1 + 1) cs ts c2 _ h2 (ha1.set_tmp c1 v)).1 t3 env2 vs' hes
      refine ⟨σ2, ?_, ?_, ha2, (hf1.trans (Frame.set_tmp _ _ m1) (Nat.le_refl _)).trans (hf2.mono (c := c) (by omega)) (Nat.le_refl _)⟩
      · simpa [List.append_assoc] using ExecC.append hx1 hx2
      · simp [hmap, hf2 c1 (by omega)]
    · intro t w h
      simp only [evalArgs, bind_eq, bind_ret_iff] at h
      rcases h with h | ⟨t1, ⟨env1, v⟩, t2, hel, h2', rfl⟩
      · have := hE.ret h1 ha h
        simpa [List.append_assoc] using ExecC.append_ret _ this
      · obtain ⟨σ1, hx1, ha1, hf1⟩ := hE.store h1 ha hel (.t c1)
        rcases h2' with h | ⟨t3, ⟨env2, vs'⟩, t4, hes, h4, rfl⟩
        · have := (hA es env1 (c1 + 1) cs ts c2 _ h2 (ha1.set_tmp c1 v)).2 t2 w h
          simpa [List.append_assoc] using ExecC.append hx1 this
        · simp [pure_eq, R.ok] at h4

theorem frame_of_tmps {c : Nat} {σ σ1 : Store} (h : ∀ k, σ1 (.t k) = σ (.t k)) : Frame c σ σ1 := fun k _ => h k

theorem simChain_step {fns P n} (hE : SimE fns P n) (hB : SimBlock fns P n) (hC : SimChain fns P n) : SimChain fns P (n + 1) := by
  intro arms env sel ke tb idx c steps c' σ v ko cA codes cA' c0 hl hla ha hv hd hke hc hcA hko hko' hsel
  cases arms with
  | nil =>
    exact ⟨fun t env' r h => by simp [evalArms, R.stuck] at h, fun t w h => by simp [evalArms, R.stuck] at h⟩
  | arm p body rest =>
    simp [lowerArms, Option.bind_eq_some_iff] at hla
    obtain ⟨cb, xb, cA1, hb1, cs, hla', rfl⟩ := hla
    have ⟨mb, _⟩ := lowerBlock_mono body cA cb xb cA1 hb1
    have hp := hsel p (by simp [patsOf])
    have hrest : ∀ q, q ∈ patsOf rest → selects sel q = patMatches v q := fun q hq => hsel q (by simp [patsOf, hq])
    simp only [lowerChain] at hl
    by_cases hm : patMatches v p = true
    · -- the arm is taken
      rw [hm] at hp
      simp [hp, Option.bind_eq_some_iff] at hl
      obtain ⟨st, hl', rfl⟩ := hl
      constructor
      · intro t env' r h
        simp only [evalArms, hm, if_true] at h
        cases hbp : bindPat env v p with
        | none => simp [hbp, R.stuck] at h
        | some env1 =>
          simp only [hbp, bind_eq, bind_ok_iff] at h
          obtain ⟨t1, ⟨env2, r'⟩, t2, hbody, h2, rfl⟩ := h
          simp [pure_eq, R.ok] at h2
          obtain ⟨rfl, rfl, rfl⟩ := h2
          obtain ⟨σ1, hx1, ha1, hk1⟩ := exec_patBinds (tb := tb) p v env env1 σ hv hd hbp ha
          obtain ⟨σ2, hx2, hv2, ha2, hf2⟩ := (hB body env1 cA cb xb cA1 σ1 hb1 ha1).1 t1 env2 r' hbody
          refine ⟨0, σ1, [], cb ++ [.assign (.t ko) (.move xb)], σ2.set (.t ko) r', t1, .plain hx1, by simp, ?_, by simp,
            by simp, ha2.leave.set_tmp _ _, ?_⟩
          · simpa using ExecC.append hx2 (ExecC.assign1 (x := .t ko) (v := .move xb) (t := []) (val := r')
              ((EvalV.pure (by simp [evalValue, hv2]))))
          · exact ((frame_of_tmps hk1).trans (hf2.mono hcA) (Nat.le_refl _)).trans (Frame.set_tmp _ _ hko) (Nat.le_refl _)
      · intro t w h
        simp only [evalArms, hm, if_true] at h
        cases hbp : bindPat env v p with
        | none => simp [hbp, R.stuck] at h
        | some env1 =>
          simp only [hbp, bind_eq, bind_ret_iff] at h
          obtain ⟨σ1, hx1, ha1, hk1⟩ := exec_patBinds (tb := tb) p v env env1 σ hv hd hbp ha
          rcases h with h | ⟨t1, ⟨env2, r'⟩, t2, hbody, h2, rfl⟩
          · have hr := (hB body env1 cA cb xb cA1 σ1 hb1 ha1).2 t w h
            exact Or.inr ⟨0, σ1, [], cb ++ [.assign (.t ko) (.move xb)], t, .plain hx1, by simp, ExecC.append_ret _ hr, by simp⟩
          · simp [pure_eq, R.ok] at h2
    · -- the arm is skipped
      have hm' : patMatches v p = false := by simpa using hm
      rw [hm'] at hp
      simp [hp] at hl
      have IH := hC rest env sel ke tb (idx + 1) c steps c' σ v ko cA1 cs cA' c0 hl hla' ha hv hd hke hc (by omega) hko
        (by omega) hrest
      constructor
      · intro t env' r h
        simp only [evalArms, hm', Bool.false_eq_true, if_false] at h
        obtain ⟨a, σ1, t1, code, σ2, t2, hg, hcode, hx, hr, ht, ha2, hf2⟩ := IH.1 t env' r h
        exact ⟨a + 1, σ1, t1, code, σ2, t2, by simpa [Nat.add_assoc, Nat.add_comm 1 a] using hg, by simpa using hcode,
          hx, hr, ht, ha2, hf2⟩
      · intro t w h
        simp only [evalArms, hm', Bool.false_eq_true, if_false] at h
        rcases IH.2 t w h with hg | ⟨a, σ1, t1, code, t2, hg, hcode, hx, ht⟩
        · exact Or.inl hg
        · exact Or.inr ⟨a + 1, σ1, t1, code, t2, by simpa [Nat.add_assoc, Nat.add_comm 1 a] using hg, by simpa using hcode, hx, ht⟩
  | armG p g body rest =>
    simp [lowerArms, Option.bind_eq_some_iff] at hla
    obtain ⟨cb, xb, cA1, hb1, cs, hla', rfl⟩ := hla
    have ⟨mb, _⟩ := lowerBlock_mono body cA cb xb cA1 hb1
    have hp := hsel p (by simp [patsOf])
    have hrest : ∀ q, q ∈ patsOf rest → selects sel q = patMatches v q := fun q hq => hsel q (by simp [patsOf, hq])
    simp only [lowerChain] at hl
    by_cases hm : patMatches v p = true
    · rw [hm] at hp
      simp [hp, Option.bind_eq_some_iff] at hl
      obtain ⟨cg, vg, c1, hg1, st, hl', rfl⟩ := hl
      have ⟨mg, bg⟩ := lowerE_mono g c cg vg c1 hg1
      have ⟨ag, _⟩ := atv_spec vg c1 bg
      constructor
      · intro t env' r h
        simp only [evalArms, hm, if_true] at h
        cases hbp : bindPat env v p with
        | none => simp [hbp, R.stuck] at h
        | some env1 =>
          simp only [hbp, bind_eq, bind_ok_iff] at h
          obtain ⟨tg, ⟨env2, gv⟩, t2, hguard, h2, rfl⟩ := h
          obtain ⟨σ1, hx1, ha1, hk1⟩ := exec_patBinds (tb := tb) p v env env1 σ hv hd hbp ha
          obtain ⟨σ2, hx2, hv2, ha2, hf2⟩ := hE.mat hg1 ha1 hguard
          cases gv with
          | bool bg =>
            cases bg with
            | true =>
              simp only [bind_eq, bind_ok_iff] at h2
              obtain ⟨t3, ⟨env3, r'⟩, t4, hbody, h4, rfl⟩ := h2
              simp [pure_eq, R.ok] at h4
              obtain ⟨rfl, rfl, rfl⟩ := h4
              obtain ⟨σ3, hx3, hv3, ha3, hf3⟩ := (hB body env2 cA cb xb cA1 σ2 hb1 ha2).1 t3 env3 r' hbody
              refine ⟨0, σ2, tg, cb ++ [.assign (.t ko) (.move xb)], σ3.set (.t ko) r', t3, ?_, by simp, ?_, by simp,
                by simp, ha3.leave.set_tmp _ _, ?_⟩
              · simpa using ExecG.guardTrue (a := idx) (rest := st) hx1 hx2 hv2
              · simpa using ExecC.append hx3 (ExecC.assign1 (x := .t ko) (v := .move xb) (t := []) (val := r')
                  ((EvalV.pure (by simp [evalValue, hv3]))))
              · exact (((frame_of_tmps hk1).trans (hf2.mono hc) (Nat.le_refl _)).trans (hf3.mono hcA) (Nat.le_refl _)).trans
                  (Frame.set_tmp _ _ hko) (Nat.le_refl _)
            | false =>
              have hxe2 : σ2 (.t ke) = v := by rw [hf2 ke (by omega), hk1 ke, hv]
              have IH := hC rest (leave env env2) sel ke tb (idx + 1) (atvNext vg c1) st c' σ2 v ko cA1 cs cA' c0 hl' hla'
                ha2.leave hxe2 hd hke (by omega) (by omega) hko (by omega) hrest
              obtain ⟨a, σ3, t3, code, σ4, t4, hg, hcode, hx, hr, rfl, ha4, hf4⟩ := IH.1 t2 env' r h2
              refine ⟨a + 1, σ3, tg ++ t3, code, σ4, t4, ?_, by simpa using hcode, hx, hr, by simp, ha4,
                ((frame_of_tmps hk1).trans (hf2.mono hc) (Nat.le_refl _)).trans hf4 (Nat.le_refl _)⟩
              have := ExecG.guardFalse (a := idx) hx1 hx2 hv2 hg
              simpa [Nat.add_assoc, Nat.add_comm 1 a] using this
          | _ => simp [R.stuck] at h2
      · intro t w h
        simp only [evalArms, hm, if_true] at h
        cases hbp : bindPat env v p with
        | none => simp [hbp, R.stuck] at h
        | some env1 =>
          simp only [hbp, bind_eq, bind_ret_iff] at h
          obtain ⟨σ1, hx1, ha1, hk1⟩ := exec_patBinds (tb := tb) p v env env1 σ hv hd hbp ha
          rcases h with h | ⟨tg, ⟨env2, gv⟩, t2, hguard, h2, rfl⟩
          · -- the guard leaves the function
            have hr := ExecC.append_ret (atvCode vg c1) (hE.ret hg1 ha1 h)
            exact Or.inl (by simpa using ExecG.guardRet (g := atvVar vg c1) (a := idx) (rest := st) hx1 hr)
          · obtain ⟨σ2, hx2, hv2, ha2, hf2⟩ := hE.mat hg1 ha1 hguard
            cases gv with
            | bool bg =>
              cases bg with
              | true =>
                simp only [bind_eq, bind_ret_iff] at h2
                rcases h2 with h2 | ⟨t3, ⟨env3, r'⟩, t4, hbody, h4, rfl⟩
                · have hr := (hB body env2 cA cb xb cA1 σ2 hb1 ha2).2 t2 w h2
                  exact Or.inr ⟨0, σ2, tg, cb ++ [.assign (.t ko) (.move xb)], t2,
                    by simpa using ExecG.guardTrue (a := idx) (rest := st) hx1 hx2 hv2, by simp, ExecC.append_ret _ hr, rfl⟩
                · simp [pure_eq, R.ok] at h4
              | false =>
                have hxe2 : σ2 (.t ke) = v := by rw [hf2 ke (by omega), hk1 ke, hv]
                have IH := hC rest (leave env env2) sel ke tb (idx + 1) (atvNext vg c1) st c' σ2 v ko cA1 cs cA' c0 hl' hla'
                  ha2.leave hxe2 hd hke (by omega) (by omega) hko (by omega) hrest
                rcases IH.2 t2 w h2 with hg | ⟨a, σ3, t3, code, t4, hg, hcode, hx, rfl⟩
                · exact Or.inl (by simpa using ExecG.guardFalse (a := idx) hx1 hx2 hv2 hg)
                · refine Or.inr ⟨a + 1, σ3, tg ++ t3, code, t4, ?_, by simpa using hcode, hx, by simp⟩
                  have := ExecG.guardFalse (a := idx) hx1 hx2 hv2 hg
                  simpa [Nat.add_assoc, Nat.add_comm 1 a] using this
            | _ => simp [R.stuck] at h2
    · have hm' : patMatches v p = false := by simpa using hm
      rw [hm'] at hp
      simp [hp] at hl
      have IH := hC rest env sel ke tb (idx + 1) c steps c' σ v ko cA1 cs cA' c0 hl hla' ha hv hd hke hc (by omega) hko
        (by omega) hrest
      constructor
      · intro t env' r h
        simp only [evalArms, hm', Bool.false_eq_true, if_false] at h
        obtain ⟨a, σ1, t1, code, σ2, t2, hg, hcode, hx, hr, ht, ha2, hf2⟩ := IH.1 t env' r h
        exact ⟨a + 1, σ1, t1, code, σ2, t2, by simpa [Nat.add_assoc, Nat.add_comm 1 a] using hg, by simpa using hcode,
          hx, hr, ht, ha2, hf2⟩
      · intro t w h
        simp only [evalArms, hm', Bool.false_eq_true, if_false] at h
        rcases IH.2 t w h with hg | ⟨a, σ1, t1, code, t2, hg, hcode, hx, ht⟩
        · exact Or.inl hg
        · exact Or.inr ⟨a + 1, σ1, t1, code, t2, by simpa [Nat.add_assoc, Nat.add_comm 1 a] using hg, by simpa using hcode, hx, ht⟩
theorem simCtor_step {fns P n} (hE : SimE fns P n) (hK : SimCtor fns P n) : SimCtor fns P (n + 1) := by
  intro es env c code xs c' σ hl ha
  cases es with
  | nil =>
    simp [lowerCtorArgs] at hl; obtain ⟨rfl, rfl, rfl⟩ := hl
    constructor
    · intro t env' fs h
      simp [evalInts, R.ok] at h
      obtain ⟨rfl, rfl, rfl⟩ := h
      exact ⟨σ, .nil, rfl, ha, Frame.refl _ _⟩
    · intro t v h; simp [evalInts, R.ok] at h
  | cons e es =>
    simp [lowerCtorArgs, Option.bind_eq_some_iff] at hl
    obtain ⟨ce, ve, c1, h1, cs, xs', c2, h2, rfl, rfl, rfl⟩ := hl
    have ⟨m1, b1⟩ := lowerE_mono e c ce ve c1 h1
    have ⟨a1, k1, hk1, hk1'⟩ := atv_spec ve c1 b1
    constructor
    · intro t env' fs h
      simp only [evalInts, bind_eq, bind_ok_iff] at h
      obtain ⟨t1, ⟨env1, v⟩, t2, hel, h2', rfl⟩ := h
      obtain ⟨σ1, hx1, hv1, ha1, hf1⟩ := hE.mat h1 ha hel
      cases v with
      | int nv =>
        simp only [bind_eq, bind_ok_iff] at h2'
        obtain ⟨t3, ⟨env2, fs'⟩, t4, hes, h4, rfl⟩ := h2'
        simp [pure_eq, R.ok] at h4
        obtain ⟨rfl, rfl, rfl⟩ := h4
        obtain ⟨σ2, hx2, hmap, ha2, hf2⟩ := (hK es env1 _ cs xs' c2 σ1 h2 ha1).1 t3 env2 fs' hes
        refine ⟨σ2, ?_, ?_, ha2, hf1.trans (hf2.mono (c := c) (by omega)) (Nat.le_refl _)⟩
        · have := ExecC.append hx1 hx2
          simpa [List.append_assoc] using this
        · simp only [List.map_cons, hmap, List.cons.injEq, and_true]
          rw [hk1, hf2 k1 hk1', ← hk1, hv1]
      | _ => simp [R.stuck] at h2'
    · intro t w h
      simp only [evalInts, bind_eq, bind_ret_iff] at h
      rcases h with h | ⟨t1, ⟨env1, v⟩, t2, hel, h2', rfl⟩
      · have := hE.ret h1 ha h
        simpa [List.append_assoc] using ExecC.append_ret _ this
      · obtain ⟨σ1, hx1, hv1, ha1, hf1⟩ := hE.mat h1 ha hel
        cases v with
        | int nv =>
          simp only [bind_eq, bind_ret_iff] at h2'
          rcases h2' with h | ⟨t3, ⟨env2, fs'⟩, t4, hes, h4, rfl⟩
          · have := (hK es env1 _ cs xs' c2 σ1 h2 ha1).2 t2 w h
            have := ExecC.append hx1 this
            simpa [List.append_assoc] using this
          · simp [pure_eq, R.ok] at h4
        | _ => simp [R.stuck] at h2'

theorem simParts_step {fns P n} (hE : SimE fns P n) (hS : SimParts fns P n) : SimParts fns P (n + 1) := by
  intro ps env k c code c' σ acc hl ha hk hσ
  cases ps with
  | nil =>
    simp [lowerParts] at hl; obtain ⟨rfl, rfl⟩ := hl
    constructor
    · intro t env' s h
      simp [evalParts, R.ok] at h
      obtain ⟨rfl, rfl, rfl⟩ := h
      exact ⟨σ, .nil, by simpa using hσ, ha, Frame.refl _ _⟩
    · intro t v h; simp [evalParts, R.ok] at h
  | str lit rest =>
    simp [lowerParts, Option.bind_eq_some_iff] at hl
    obtain ⟨cr, h1, rfl⟩ := hl
    have hne : Var.t k ≠ .t c := by intro h; cases h; omega
    have s1 : ExecS P σ (.assign (.t c) (.const (.str lit))) [] (.normal (σ.set (.t c) (.str lit))) :=
      .assign (.pure (by simp [evalValue]))
    have s2 : ExecS P (σ.set (.t c) (.str lit)) (.assign (.t k) (.append (.t k) (.t c))) []
        (.normal ((σ.set (.t c) (.str lit)).set (.t k) (.str (acc ++ lit)))) :=
      .assign (.pure (by simp [evalValue, set_other _ _ hne, hσ]))
    have hS' := hS rest env k (c + 1) cr c' ((σ.set (.t c) (.str lit)).set (.t k) (.str (acc ++ lit))) (acc ++ lit) h1
      ((ha.set_tmp _ _).set_tmp _ _) (by omega) (by simp)
    have hfr : Frame k σ ((σ.set (.t c) (.str lit)).set (.t k) (.str (acc ++ lit))) :=
      (Frame.set_tmp σ _ (by omega)).trans (Frame.set_tmp _ _ (Nat.le_refl _)) (Nat.le_refl _)
    constructor
    · intro t env' s h
      simp only [evalParts, bind_eq, bind_ok_iff] at h
      obtain ⟨t1, ⟨env1, rest'⟩, t2, hr, h2', rfl⟩ := h
      simp [pure_eq, R.ok] at h2'
      obtain ⟨rfl, rfl, rfl⟩ := h2'
      obtain ⟨σ1, hx1, hv1, ha1, hf1⟩ := hS'.1 t1 env1 rest' hr
      refine ⟨σ1, ?_, by simpa [String.append_assoc] using hv1, ha1, hfr.trans hf1 (Nat.le_refl _)⟩
      simpa using ExecC.cons s1 (ExecC.cons s2 hx1)
    · intro t v h
      simp only [evalParts, bind_eq, bind_ret_iff] at h
      rcases h with h | ⟨t1, ⟨env1, rest'⟩, t2, hr, h2', rfl⟩
      · simpa using ExecC.cons s1 (ExecC.cons s2 (hS'.2 t v h))
      · simp [pure_eq, R.ok] at h2'
  | expr e rest =>
    simp [lowerParts, Option.bind_eq_some_iff] at hl
    obtain ⟨ce, ve, c1, h1, cr, h2, rfl⟩ := hl
    have ⟨m1, _⟩ := lowerE_mono e c ce ve c1 h1
    have hne1 : Var.t k ≠ .t c1 := by intro h; cases h; omega
    have hne2 : Var.t k ≠ .t (c1 + 1) := by intro h; cases h; omega
    constructor
    · intro t env' s h
      simp only [evalParts, bind_eq, bind_ok_iff] at h
      obtain ⟨t1, ⟨env1, v⟩, t2, hel, h2', rfl⟩ := h
      cases hd : render v with
      | none => simp [hd, R.stuck] at h2'
      | some p =>
        obtain ⟨te, sv⟩ := p
        simp only [hd, bind_eq, bind_ok_iff] at h2'
        obtain ⟨t0, u0, t0', he0, ⟨t3, ⟨env2, rest'⟩, t4, hr, h4, rfl⟩, rfl⟩ := h2'
        simp [R.emits] at he0
        obtain ⟨rfl⟩ := he0
        simp [pure_eq, R.ok] at h4
        obtain ⟨rfl, rfl, rfl⟩ := h4
        obtain ⟨σ1, hx1, ha1, hf1⟩ := hE.store h1 ha hel (.t c1)
        have hk1 : σ1 (.t k) = .str acc := by rw [hf1 k hk, hσ]
        have s2 : ExecS P (σ1.set (.t c1) v) (.assign (.t (c1 + 1)) (.toStr (.t c1))) te
            (.normal ((σ1.set (.t c1) v).set (.t (c1 + 1)) (.str sv))) :=
          .assign (.pure (by simp [evalValue, hd]))
        have s3 : ExecS P ((σ1.set (.t c1) v).set (.t (c1 + 1)) (.str sv)) (.assign (.t k) (.append (.t k) (.t (c1 + 1)))) []
            (.normal (((σ1.set (.t c1) v).set (.t (c1 + 1)) (.str sv)).set (.t k) (.str (acc ++ sv)))) :=
          .assign (.pure (by simp [evalValue, set_other _ _ hne1, set_other _ _ hne2, hk1]))
        obtain ⟨σ2, hx2, hv2, ha2, hf2⟩ := (hS rest env1 k (c1 + 2) cr c'
          (((σ1.set (.t c1) v).set (.t (c1 + 1)) (.str sv)).set (.t k) (.str (acc ++ sv))) (acc ++ sv) h2
          (((ha1.set_tmp _ _).set_tmp _ _).set_tmp _ _) (by omega) (by simp)).1 t3 env2 rest' hr
        refine ⟨σ2, ?_, by simpa [String.append_assoc] using hv2, ha2, ?_⟩
        · have := ExecC.append hx1 (ExecC.cons s2 (ExecC.cons s3 hx2))
          simpa [List.append_assoc] using this
        · exact ((((hf1.mono (by omega)).trans (Frame.set_tmp _ _ (by omega)) (Nat.le_refl _)).trans
            (Frame.set_tmp _ _ (by omega)) (Nat.le_refl _)).trans (Frame.set_tmp _ _ (Nat.le_refl _)) (Nat.le_refl _)).trans hf2 (Nat.le_refl _)
    · intro t w h
      simp only [evalParts, bind_eq, bind_ret_iff] at h
      rcases h with h | ⟨t1, ⟨env1, v⟩, t2, hel, h2', rfl⟩
      · have := hE.ret h1 ha h
        simpa [List.append_assoc] using ExecC.append_ret _ this
      · cases hd : render v with
        | none => simp [hd, R.stuck] at h2'
        | some p =>
          obtain ⟨te, sv⟩ := p
          simp only [hd, bind_eq, bind_ret_iff] at h2'
          rcases h2' with h | ⟨t0, u0, t0', he0, h2', rfl⟩
          · simp [R.emits] at h
          simp [R.emits] at he0
          obtain ⟨rfl⟩ := he0
          rcases h2' with h | ⟨t3, ⟨env2, rest'⟩, t4, hr, h4, rfl⟩
          · obtain ⟨σ1, hx1, ha1, hf1⟩ := hE.store h1 ha hel (.t c1)
            have hk1 : σ1 (.t k) = .str acc := by rw [hf1 k hk, hσ]
            have s2 : ExecS P (σ1.set (.t c1) v) (.assign (.t (c1 + 1)) (.toStr (.t c1))) te
                (.normal ((σ1.set (.t c1) v).set (.t (c1 + 1)) (.str sv))) :=
              .assign (.pure (by simp [evalValue, hd]))
            have s3 : ExecS P ((σ1.set (.t c1) v).set (.t (c1 + 1)) (.str sv)) (.assign (.t k) (.append (.t k) (.t (c1 + 1)))) []
                (.normal (((σ1.set (.t c1) v).set (.t (c1 + 1)) (.str sv)).set (.t k) (.str (acc ++ sv)))) :=
              .assign (.pure (by simp [evalValue, set_other _ _ hne1, set_other _ _ hne2, hk1]))
            have hr' := (hS rest env1 k (c1 + 2) cr c'
              (((σ1.set (.t c1) v).set (.t (c1 + 1)) (.str sv)).set (.t k) (.str (acc ++ sv))) (acc ++ sv) h2
              (((ha1.set_tmp _ _).set_tmp _ _).set_tmp _ _) (by omega) (by simp)).2 _ w h
            have := ExecC.append hx1 (ExecC.cons s2 (ExecC.cons s3 hr'))
            simpa [List.append_assoc] using this
          · simp [pure_eq, R.ok] at h4

theorem simElems_step {fns P n} (hE : SimE fns P n) (hL : SimElems fns P n) : SimElems fns P (n + 1) := by
  intro es env k u c code c' σ pre hl ha hk hσ
  cases es with
  | nil =>
    simp [lowerElems] at hl; obtain ⟨rfl, rfl⟩ := hl
    constructor
    · intro t env' fs h
      simp [evalInts, R.ok] at h
      obtain ⟨rfl, rfl, rfl⟩ := h
      exact ⟨σ, .nil, by simpa using hσ, ha, Frame.refl _ _⟩
    · intro t v h; simp [evalInts, R.ok] at h
  | cons e es =>
    simp [lowerElems, Option.bind_eq_some_iff] at hl
    obtain ⟨ce, ve, c1, h1, cs, h2, rfl⟩ := hl
    have ⟨m1, _⟩ := lowerE_mono e (c + 1) ce ve c1 h1
    have hnekc : Var.t k ≠ .t c := by intro h; cases h; omega
    have hnekc1 : Var.t k ≠ .t c1 := by intro h; cases h; omega
    have s0 : ExecS P σ (.assign (.t c) (.clone (.t k))) [] (.normal (σ.set (.t c) (.list pre))) :=
      .assign (.pure (by simp [evalValue, hσ]))
    have ha0 : Agree env (σ.set (.t c) (.list pre)) := ha.set_tmp _ _
    -- once the element's value (an i32) is known: stored, pushed
    have elem : ∀ t1 env1 nv, evalExpr fns n env e = ⟨t1, .ok (env1, .int nv)⟩ →
        ∃ σ3, ExecC P σ ([.assign (.t c) (.clone (.t k))] ++ ce ++ [.assign (.t c1) ve, .push (.t c) (.t k) (.t c1) (.t u)]) t1
            (.normal σ3) ∧ σ3 (.t k) = .list (pre ++ [nv]) ∧ Agree env1 σ3 ∧ Frame k σ σ3 := by
      intro t1 env1 nv hel
      obtain ⟨σ1, hx1, ha1, hf1⟩ := hE.store h1 ha0 hel (.t c1)
      have hk1 : σ1 (.t k) = .list pre := by rw [hf1 k (by omega), set_other _ _ hnekc, hσ]
      have s2 : ExecS P (σ1.set (.t c1) (.int nv)) (.push (.t c) (.t k) (.t c1) (.t u)) []
          (.normal ((σ1.set (.t c1) (.int nv)).set (.t k) (.list (pre ++ [nv])))) :=
        .push (by rw [set_other _ _ hnekc1, hk1]) (by simp)
      refine ⟨(σ1.set (.t c1) (.int nv)).set (.t k) (.list (pre ++ [nv])), ?_, by simp, (ha1.set_tmp _ _).set_tmp _ _, ?_⟩
      · have := ExecC.cons s0 (ExecC.append hx1 (ExecC.single s2))
        simpa [List.append_assoc] using this
      · exact (((Frame.set_tmp σ _ (by omega)).trans (hf1.mono (by omega)) (Nat.le_refl _)).trans
          (Frame.set_tmp _ _ (by omega)) (Nat.le_refl _)).trans (Frame.set_tmp _ _ (Nat.le_refl _)) (Nat.le_refl _)
    constructor
    · intro t env' fs h
      simp only [evalInts, bind_eq, bind_ok_iff] at h
      obtain ⟨t1, ⟨env1, v⟩, t2, hel, h2', rfl⟩ := h
      cases v with
      | int nv =>
        simp only [bind_eq, bind_ok_iff] at h2'
        obtain ⟨t3, ⟨env2, fs'⟩, t4, hes, h4, rfl⟩ := h2'
        simp [pure_eq, R.ok] at h4
        obtain ⟨rfl, rfl, rfl⟩ := h4
        obtain ⟨σ3, hx3, hv3, ha3, hf3⟩ := elem t1 env1 nv hel
        obtain ⟨σ4, hx4, hv4, ha4, hf4⟩ := (hL es env1 k u (c1 + 1) cs c' σ3 (pre ++ [nv]) h2 ha3 (by omega) hv3).1 t3 env2 fs' hes
        refine ⟨σ4, ?_, by simpa using hv4, ha4, hf3.trans hf4 (Nat.le_refl _)⟩
        have := ExecC.append hx3 hx4
        simpa [List.append_assoc] using this
      | _ => simp [R.stuck] at h2'
    · intro t w h
      simp only [evalInts, bind_eq, bind_ret_iff] at h
      rcases h with h | ⟨t1, ⟨env1, v⟩, t2, hel, h2', rfl⟩
      · have := ExecC.cons s0 (ExecC.append_ret ([.assign (.t c1) ve, .push (.t c) (.t k) (.t c1) (.t u)] ++ cs) (hE.ret h1 ha0 h))
        simpa [List.append_assoc] using this
      · cases v with
        | int nv =>
          simp only [bind_eq, bind_ret_iff] at h2'
          rcases h2' with h | ⟨t3, ⟨env2, fs'⟩, t4, hes, h4, rfl⟩
          · obtain ⟨σ3, hx3, hv3, ha3, hf3⟩ := elem t1 env1 nv hel
            have := ExecC.append hx3 ((hL es env1 k u (c1 + 1) cs c' σ3 (pre ++ [nv]) h2 ha3 (by omega) hv3).2 t2 w h)
            simpa [List.append_assoc] using this
          · simp [pure_eq, R.ok] at h4
        | _ => simp [R.stuck] at h2'

theorem simFor_step {fns P n} (hB : SimBlock fns P n) (hR : SimFor fns P n) : SimFor fns P (n + 1) := by
  intro x b env all xs j kl c2 copt cb xb c3 σ hb ha hlst hidx hdrop hcopt hkl
  have ⟨mb, _⟩ := lowerBlock_mono b (c2 + 4) cb xb c3 hb
  -- the condition block
  have cond : ∀ (o : Option Int), all[j]? = o →
      ExecC P σ [.assign (.t (c2 + 2)) (.clone (.t kl)), .assign (.t copt) (.listGet (.t (c2 + 2)) (.t c2)),
        .assign (.t (c2 + 3)) (.disc (.t copt))] []
        (.normal (((σ.set (.t (c2 + 2)) (.list all)).set (.t copt) (.opt o)).set (.t (c2 + 3))
          (.int (optDisc o : Nat)))) := by
    intro o ho
    have s1 : ExecS P σ (.assign (.t (c2 + 2)) (.clone (.t kl))) [] (.normal (σ.set (.t (c2 + 2)) (.list all))) :=
      .assign (.pure (by simp [evalValue, hlst]))
    have s2 : ExecS P (σ.set (.t (c2 + 2)) (.list all)) (.assign (.t copt) (.listGet (.t (c2 + 2)) (.t c2))) []
        (.normal ((σ.set (.t (c2 + 2)) (.list all)).set (.t copt) (.opt o))) :=
      .assign (.pure (by
        have : (σ.set (.t (c2 + 2)) (.list all)) (.t c2) = .int (j : Nat) := by
          rw [set_other _ _ (by intro h; cases h <;> omega), hidx]
        simp [evalValue, this, ho]))
    have s3 : ExecS P ((σ.set (.t (c2 + 2)) (.list all)).set (.t copt) (.opt o)) (.assign (.t (c2 + 3)) (.disc (.t copt))) []
        (.normal (((σ.set (.t (c2 + 2)) (.list all)).set (.t copt) (.opt o)).set (.t (c2 + 3))
          (.int (optDisc o : Nat)))) :=
      .assign (.pure (by cases o <;> simp [evalValue, discOf, optDisc]))
    simpa using ExecC.cons s1 (ExecC.cons s2 (ExecC.single s3))
  cases xs with
  | nil =>
    have hget := drop_nil_get all j hdrop
    constructor
    · intro t env' v h
      simp [evalFor, R.ok] at h
      obtain ⟨rfl, rfl, rfl⟩ := h
      refine ⟨_, .forDone (k := 1) (cond none hget) (by simp [optDisc]) (by omega), rfl, ((ha.set_tmp _ _).set_tmp _ _).set_tmp _ _, ?_⟩
      exact ((Frame.set_tmp σ _ (by omega)).trans (Frame.set_tmp _ _ (Nat.le_refl _)) (Nat.le_refl _)).trans
        (Frame.set_tmp _ _ (by omega)) (Nat.le_refl _)
    · intro t w h; simp [evalFor, R.ok] at h
  | cons v vs =>
    obtain ⟨hget, hdrop'⟩ := drop_cons_get all j v vs hdrop
    have hc := cond (some v) hget
    -- the store after the condition block
    generalize hσ1 : (((σ.set (.t (c2 + 2)) (.list all)).set (.t copt) (.opt (some v))).set (.t (c2 + 3))
      (.int (optDisc (some v) : Nat))) = σ1 at hc
    have ha1 : Agree env σ1 := by rw [← hσ1]; exact ((ha.set_tmp _ _).set_tmp _ _).set_tmp _ _
    have hd1 : σ1 (.t (c2 + 3)) = .int 0 := by rw [← hσ1]; simp [optDisc]
    have hopt1 : σ1 (.t copt) = .opt (some v) := by
      rw [← hσ1, set_other _ _ (by intro h; cases h <;> omega)]; simp
    have hlst1 : σ1 (.t kl) = .list all := by
      rw [← hσ1, set_other _ _ (by intro h; cases h <;> omega), set_other _ _ (by intro h; cases h <;> omega),
        set_other _ _ (by intro h; cases h <;> omega), hlst]
    have hidx1 : σ1 (.t c2) = .int (j : Nat) := by
      rw [← hσ1, set_other _ _ (by intro h; cases h <;> omega), set_other _ _ (by intro h; cases h <;> omega),
        set_other _ _ (by intro h; cases h <;> omega), hidx]
    have hf1 : Frame copt σ σ1 := by
      rw [← hσ1]
      exact ((Frame.set_tmp σ _ (by omega)).trans (Frame.set_tmp _ _ (Nat.le_refl _)) (Nat.le_refl _)).trans
        (Frame.set_tmp _ _ (by omega)) (Nat.le_refl _)
    have sb : ExecS P σ1 (.assign (.x x) (.cloneProj (.t copt) 0 0)) [] (.normal (σ1.set (.x x) (.int v))) :=
      .assign (.pure (by simp [evalValue, hopt1, payload]))
    -- the increment block, from any store that still holds the index
    have incr : ∀ σ2 : Store, σ2 (.t c2) = .int (j : Nat) →
        ExecC P σ2 [.assign (.t (c2 + 1)) (.const (.int 1)), .assign (.t c2) (.idxAdd (.t c2) (.t (c2 + 1)))] []
          (.normal ((σ2.set (.t (c2 + 1)) (.int 1)).set (.t c2) (.int ((j + 1 : Nat) : Nat)))) := by
      intro σ2 h2
      have i1 : ExecS P σ2 (.assign (.t (c2 + 1)) (.const (.int 1))) [] (.normal (σ2.set (.t (c2 + 1)) (.int 1))) :=
        .assign (.pure (by simp [evalValue]))
      have i2 : ExecS P (σ2.set (.t (c2 + 1)) (.int 1)) (.assign (.t c2) (.idxAdd (.t c2) (.t (c2 + 1)))) []
          (.normal ((σ2.set (.t (c2 + 1)) (.int 1)).set (.t c2) (.int ((j + 1 : Nat) : Nat)))) :=
        .assign (.pure (by
          have : (σ2.set (.t (c2 + 1)) (.int 1)) (.t c2) = .int (j : Nat) := by
            rw [set_other _ _ (by intro h; cases h <;> omega), h2]
          simp [evalValue, this]))
      simpa using ExecC.cons i1 (ExecC.single i2)
    constructor
    · intro t env' w h
      simp only [evalFor] at h
      cases hx : lookup env x with
      | some _ => simp [hx, R.stuck] at h
      | none =>
        simp only [hx, bind_eq, bind_ok_iff] at h
        obtain ⟨t1, ⟨env1, bv⟩, t2, hbody, hrest, rfl⟩ := h
        obtain ⟨σ2, hx2, _, ha2, hf2⟩ := (hB b ((x, .int v) :: env) (c2 + 4) cb xb c3 _ hb (ha1.cons x (.int v))).1 t1 env1 bv hbody
        have hidx2 : σ2 (.t c2) = .int (j : Nat) := by
          rw [hf2 c2 (by omega), set_other _ _ (by intro h; cases h), hidx1]
        have hlst2 : σ2 (.t kl) = .list all := by
          rw [hf2 kl (by omega), set_other _ _ (by intro h; cases h), hlst1]
        have hi := incr σ2 hidx2
        have hlst3 : ((σ2.set (.t (c2 + 1)) (.int 1)).set (.t c2) (.int ((j + 1 : Nat) : Nat))) (.t kl) = .list all := by
          rw [set_other _ _ (by intro h; cases h <;> omega), set_other _ _ (by intro h; cases h <;> omega), hlst2]
        obtain ⟨σ4, hx4, rfl, ha4, hf4⟩ := (hR x b (leave env env1) all vs (j + 1) kl c2 copt cb xb c3 _ hb
          ((ha2.leave.set_tmp _ _).set_tmp _ _) hlst3 (by simp) hdrop' hcopt hkl).1 t2 env' w hrest
        refine ⟨σ4, ?_, rfl, ha4, ?_⟩
        · have hbody' : ExecC P σ1 ([.assign (.x x) (.cloneProj (.t copt) 0 0)] ++ cb) t1 (.normal σ2) := by
            simpa using ExecC.cons sb hx2
          have := ExecS.forStep hc hd1 hbody' hi hx4
          simpa [List.append_assoc] using this
        · exact ((((hf1.trans (Frame.set_x _ _ _ _) (Nat.le_refl _)).trans (hf2.mono (by omega)) (Nat.le_refl _)).trans
            (Frame.set_tmp _ _ (by omega)) (Nat.le_refl _)).trans (Frame.set_tmp _ _ (by omega)) (Nat.le_refl _)).trans hf4 (Nat.le_refl _)
    · intro t w h
      simp only [evalFor] at h
      cases hx : lookup env x with
      | some _ => simp [hx, R.stuck] at h
      | none =>
        simp only [hx, bind_eq, bind_ret_iff] at h
        rcases h with h | ⟨t1, ⟨env1, bv⟩, t2, hbody, hrest, rfl⟩
        · have hr := (hB b ((x, .int v) :: env) (c2 + 4) cb xb c3 _ hb (ha1.cons x (.int v))).2 t w h
          have hbody' : ExecC P σ1 ([.assign (.x x) (.cloneProj (.t copt) 0 0)] ++ cb) t (.returned w) := by
            simpa using ExecC.cons sb hr
          simpa using ExecS.forBodyRet hc hd1 hbody'
        · obtain ⟨σ2, hx2, _, ha2, hf2⟩ := (hB b ((x, .int v) :: env) (c2 + 4) cb xb c3 _ hb (ha1.cons x (.int v))).1 t1 env1 bv hbody
          have hidx2 : σ2 (.t c2) = .int (j : Nat) := by
            rw [hf2 c2 (by omega), set_other _ _ (by intro h; cases h), hidx1]
          have hlst2 : σ2 (.t kl) = .list all := by
            rw [hf2 kl (by omega), set_other _ _ (by intro h; cases h), hlst1]
          have hi := incr σ2 hidx2
          have hlst3 : ((σ2.set (.t (c2 + 1)) (.int 1)).set (.t c2) (.int ((j + 1 : Nat) : Nat))) (.t kl) = .list all := by
            rw [set_other _ _ (by intro h; cases h <;> omega), set_other _ _ (by intro h; cases h <;> omega), hlst2]
          have hx4 := (hR x b (leave env env1) all vs (j + 1) kl c2 copt cb xb c3 _ hb
            ((ha2.leave.set_tmp _ _).set_tmp _ _) hlst3 (by simp) hdrop' hcopt hkl).2 t2 w hrest
          have hbody' : ExecC P σ1 ([.assign (.x x) (.cloneProj (.t copt) 0 0)] ++ cb) t1 (.normal σ2) := by
            simpa using ExecC.cons sb hx2
          have := ExecS.forStep hc hd1 hbody' hi hx4
          simpa [List.append_assoc] using this

theorem simSeq_step {fns P n} (hE : SimE fns P n) (hS : SimSeq fns P n) : SimSeq fns P (n + 1) := by
  intro b env c code x c' σ hl ha
  cases b with
  | nil =>
    simp [lowerBlock] at hl; obtain ⟨rfl, rfl, rfl⟩ := hl
    constructor
    · intro t env' v h
      simp [evalSeq, R.ok] at h
      obtain ⟨rfl, rfl, rfl⟩ := h
      exact ⟨σ.set (.t c) .unit, ExecC.assign1 ((EvalV.pure (by simp [evalValue]))), by simp, ha.set_tmp _ _,
        Frame.set_tmp _ _ (Nat.le_refl _)⟩
    · intro t v h; simp [evalSeq, R.ok] at h
  | last e =>
    simp [lowerBlock, Option.bind_eq_some_iff] at hl
    obtain ⟨ce, ve, c1, h1, rfl, rfl, rfl⟩ := hl
    constructor
    · intro t env' v h
      simp only [evalSeq] at h
      exact hE.mat h1 ha h
    · intro t v h
      simp only [evalSeq] at h
      exact ExecC.append_ret _ (hE.ret h1 ha h)
  | let_ y e rest =>
    simp [lowerBlock, Option.bind_eq_some_iff] at hl
    obtain ⟨ce, ve, c1, h1, cr, xr, c2, h2, rfl, rfl, rfl⟩ := hl
    have ⟨m1, _⟩ := lowerE_mono e c ce ve c1 h1
    constructor
    · intro t env' v h
      simp only [evalSeq, bind_eq, bind_ok_iff] at h
      obtain ⟨t1, ⟨env1, w⟩, t2, hel, h2', rfl⟩ := h
      obtain ⟨σ1, hx1, ha1, hf1⟩ := hE.store h1 ha hel (.x y)
      cases hy : lookup env1 y with
      | some _ => simp [hy, R.stuck] at h2'
      | none =>
        simp only [hy] at h2'
        obtain ⟨σ2, hx2, hv2, ha2, hf2⟩ := (hS rest _ c1 cr xr c2 _ h2 (ha1.cons y w)).1 t2 env' v h2'
        refine ⟨σ2, ?_, hv2, ha2, (hf1.trans (Frame.set_x _ _ _ _) (Nat.le_refl _)).trans (hf2.mono (c := c) m1) (Nat.le_refl _)⟩
        simpa [List.append_assoc] using ExecC.append hx1 hx2
    · intro t v h
      simp only [evalSeq, bind_eq, bind_ret_iff] at h
      rcases h with h | ⟨t1, ⟨env1, w⟩, t2, hel, h2', rfl⟩
      · have := hE.ret h1 ha h
        simpa [List.append_assoc] using ExecC.append_ret _ this
      · obtain ⟨σ1, hx1, ha1, hf1⟩ := hE.store h1 ha hel (.x y)
        cases hy : lookup env1 y with
        | some _ => simp [hy, R.stuck] at h2'
        | none =>
          simp only [hy] at h2'
          have := (hS rest _ c1 cr xr c2 _ h2 (ha1.cons y w)).2 t2 v h2'
          simpa [List.append_assoc] using ExecC.append hx1 this
  | stmt e rest =>
    simp [lowerBlock, Option.bind_eq_some_iff] at hl
    obtain ⟨ce, ve, c1, h1, cr, xr, c2, h2, rfl, rfl, rfl⟩ := hl
    have ⟨m1, b1⟩ := lowerE_mono e c ce ve c1 h1
    have ⟨a1, _⟩ := atv_spec ve c1 b1
    constructor
    · intro t env' v h
      simp only [evalSeq, bind_eq, bind_ok_iff] at h
      obtain ⟨t1, ⟨env1, w⟩, t2, hel, h2', rfl⟩ := h
      obtain ⟨σ1, hx1, _, ha1, hf1⟩ := hE.mat h1 ha hel
      obtain ⟨σ2, hx2, hv2, ha2, hf2⟩ := (hS rest _ _ cr xr c2 _ h2 ha1).1 t2 env' v h2'
      refine ⟨σ2, ?_, hv2, ha2, hf1.trans (hf2.mono (c := c) (by omega)) (Nat.le_refl _)⟩
      simpa [List.append_assoc] using ExecC.append hx1 hx2
    · intro t v h
      simp only [evalSeq, bind_eq, bind_ret_iff] at h
      rcases h with h | ⟨t1, ⟨env1, w⟩, t2, hel, h2', rfl⟩
      · have := hE.ret h1 ha h
        simpa [List.append_assoc] using ExecC.append_ret _ this
      · obtain ⟨σ1, hx1, _, ha1, hf1⟩ := hE.mat h1 ha hel
        have := (hS rest _ _ cr xr c2 _ h2 ha1).2 t2 v h2'
        simpa [List.append_assoc] using ExecC.append hx1 this

theorem simBlock_step {fns P n} (hS : SimSeq fns P n) : SimBlock fns P (n + 1) := by
  intro b env c code x c' σ hl ha
  constructor
  · intro t env' v h
    simp only [evalBlock, bind_eq, bind_ok_iff] at h
    obtain ⟨t1, ⟨env1, w⟩, t2, hs, h2', rfl⟩ := h
    simp [pure_eq, R.ok] at h2'
    obtain ⟨rfl, rfl, rfl⟩ := h2'
    obtain ⟨σ1, hx1, hv1, ha1, hf1⟩ := (hS b env c code x c' σ hl ha).1 t1 env1 w hs
    exact ⟨σ1, by simpa using hx1, hv1, ha1.leave, hf1⟩
  · intro t v h
    simp only [evalBlock, bind_eq, bind_ret_iff] at h
    rcases h with h | ⟨t1, ⟨env1, w⟩, t2, hs, h2', rfl⟩
    · exact (hS b env c code x c' σ hl ha).2 t v h
    · simp [pure_eq, R.ok] at h2'

theorem simWhile_step {fns P n} (hE : SimE fns P n) (hB : SimBlock fns P n) (hW : SimWhile fns P n) :
    SimWhile fns P (n + 1) := by
  intro cnd b env c cc vc c1 cb xb c2 σ h1 h2 ha
  have ⟨m1, _⟩ := lowerE_mono cnd (c + 1) cc vc c1 h1
  have ⟨m2, _⟩ := lowerBlock_mono b c1 cb xb c2 h2
  constructor
  · intro t env' v h
    simp only [evalWhile, bind_eq, bind_ok_iff] at h
    obtain ⟨t1, ⟨env1, cv⟩, t2, hel, h2', rfl⟩ := h
    obtain ⟨σ1, hx1, ha1, hf1⟩ := hE.store h1 ha hel (.t c)
    have hfc : Frame c σ (σ1.set (.t c) cv) :=
      (hf1.mono (by omega)).trans (Frame.set_tmp _ _ (Nat.le_refl _)) (Nat.le_refl _)
    cases cv with
    | bool bv =>
      cases bv with
      | false =>
        simp [pure_eq, R.ok] at h2'
        obtain ⟨rfl, rfl, rfl⟩ := h2'
        exact ⟨_, by simpa using ExecS.whlDone (body := cb) hx1 (by simp), rfl, ha1.set_tmp _ _, hfc⟩
      | true =>
        simp only [bind_eq, bind_ok_iff] at h2'
        obtain ⟨t3, ⟨env2, bvl⟩, t4, hbl, hrest, rfl⟩ := h2'
        obtain ⟨σ2, hx2, _, ha2, hf2⟩ := (hB b env1 c1 cb xb c2 _ h2 (ha1.set_tmp c (.bool true))).1 t3 env2 bvl hbl
        obtain ⟨σ3, hx3, rfl, ha3, hf3⟩ := (hW cnd b env2 c cc vc c1 cb xb c2 σ2 h1 h2 ha2).1 t4 env' v hrest
        refine ⟨σ3, ?_, rfl, ha3, (hfc.trans (hf2.mono (c := c) (by omega)) (Nat.le_refl _)).trans hf3 (Nat.le_refl _)⟩
        simpa [List.append_assoc] using ExecS.whlStep hx1 (by simp) hx2 hx3
    | _ => simp [R.stuck] at h2'
  · intro t w h
    simp only [evalWhile, bind_eq, bind_ret_iff] at h
    rcases h with h | ⟨t1, ⟨env1, cv⟩, t2, hel, h2', rfl⟩
    · exact .whlCondRet (ExecC.append_ret _ (hE.ret h1 ha h))
    · obtain ⟨σ1, hx1, ha1, hf1⟩ := hE.store h1 ha hel (.t c)
      cases cv with
      | bool bv =>
        cases bv with
        | false => simp [pure_eq, R.ok] at h2'
        | true =>
          simp only [bind_eq, bind_ret_iff] at h2'
          rcases h2' with h | ⟨t3, ⟨env2, bvl⟩, t4, hbl, hrest, rfl⟩
          · have hr := (hB b env1 c1 cb xb c2 _ h2 (ha1.set_tmp c (.bool true))).2 t2 w h
            exact .whlBodyRet hx1 (by simp) hr
          · obtain ⟨σ2, hx2, _, ha2, hf2⟩ := (hB b env1 c1 cb xb c2 _ h2 (ha1.set_tmp c (.bool true))).1 t3 env2 bvl hbl
            have hx3 := (hW cnd b env2 c cc vc c1 cb xb c2 σ2 h1 h2 ha2).2 t4 w hrest
            simpa [List.append_assoc] using ExecS.whlStep hx1 (by simp) hx2 hx3
      | _ => simp [R.stuck] at h2'

theorem sim_all (fns : List FnDef) (P : Prog) (hP : ProgOk fns P) :
    ∀ n, SimE fns P n ∧ SimArgs fns P n ∧ SimSeq fns P n ∧ SimBlock fns P n ∧ SimWhile fns P n ∧ SimChain fns P n
      ∧ SimCtor fns P n ∧ SimParts fns P n ∧ SimElems fns P n ∧ SimFor fns P n
  | 0 => by
    refine ⟨?_, ?_, ?_, ?_, ?_, ?_, ?_, ?_, ?_, ?_⟩
    · intro e env c code value c' σ _ _
      exact ⟨fun t env' v h => by simp [evalExpr, R.fuel] at h, fun t v h => by simp [evalExpr, R.fuel] at h⟩
    · intro es env c code tmps c' σ _ _
      exact ⟨fun t env' v h => by simp [evalArgs, R.fuel] at h, fun t v h => by simp [evalArgs, R.fuel] at h⟩
    · intro b env c code x c' σ _ _
      exact ⟨fun t env' v h => by simp [evalSeq, R.fuel] at h, fun t v h => by simp [evalSeq, R.fuel] at h⟩
    · intro b env c code x c' σ _ _
      exact ⟨fun t env' v h => by simp [evalBlock, R.fuel] at h, fun t v h => by simp [evalBlock, R.fuel] at h⟩
    · intro cnd b env c cc vc c1 cb xb c2 σ _ _ _
      exact ⟨fun t env' v h => by simp [evalWhile, R.fuel] at h, fun t v h => by simp [evalWhile, R.fuel] at h⟩
    · intro arms env sel ke tb idx c steps c' σ v ko cA codes cA' c0 _ _ _ _ _ _ _ _ _ _ _
      exact ⟨fun t env' r h => by simp [evalArms, R.fuel] at h, fun t w h => by simp [evalArms, R.fuel] at h⟩
    · intro es env c code xs c' σ _ _
      exact ⟨fun t env' v h => by simp [evalInts, R.fuel] at h, fun t v h => by simp [evalInts, R.fuel] at h⟩
    · intro ps env k c code c' σ acc _ _ _ _
      exact ⟨fun t env' v h => by simp [evalParts, R.fuel] at h, fun t v h => by simp [evalParts, R.fuel] at h⟩
    · intro es env k u c code c' σ pre _ _ _ _
      exact ⟨fun t env' v h => by simp [evalInts, R.fuel] at h, fun t v h => by simp [evalInts, R.fuel] at h⟩
    · intro x b env all xs j kl c2 copt cb xb c3 σ _ _ _ _ _ _ _
      exact ⟨fun t env' v h => by simp [evalFor, R.fuel] at h, fun t v h => by simp [evalFor, R.fuel] at h⟩
  | n + 1 => by
    obtain ⟨hE, hA, hS, hB, hW, hC, hK, hT, hL, hR⟩ := sim_all fns P hP n
    exact ⟨simE_step hE hA hB hW hC hK hT hL hR hP, simArgs_step hE hA, simSeq_step hE hS, simBlock_step hS, simWhile_step hE hB hW,
      simChain_step hE hB hC, simCtor_step hE hK, simParts_step hE hT, simElems_step hE hL, simFor_step hB hR⟩


/-! ### the structured MIR is deterministic -/

theorem bool_flip {k : Bool} {v : Val} (h1 : v = .bool k) (h2 : v = .bool (!k)) : False := by
  rw [h1] at h2; cases k <;> simp at h2

mutual
theorem ExecS.det {P : Prog} : ∀ {σ : Store} {s : Stm} {t t' : Trace} {o o' : Outcome},
    ExecS P σ s t o → ExecS P σ s t' o' → t = t' ∧ o = o'
  | _, _, _, _, _, _, .assign h, .assign h' => by
    obtain ⟨rfl, rfl⟩ := EvalV.det h h'; exact ⟨rfl, rfl⟩
  | _, _, _, _, _, _, .ret, .ret => ⟨rfl, rfl⟩
  | _, _, _, _, _, _, .iteThen _ h, .iteThen _ h' => ExecC.det h h'
  | _, _, _, _, _, _, .iteElse _ h, .iteElse _ h' => ExecC.det h h'
  | _, _, _, _, _, _, .iteThen e _, .iteElse e' _ => (bool_flip e e').elim
  | _, _, _, _, _, _, .iteElse e _, .iteThen e' _ => (bool_flip e' e).elim
  | _, _, _, _, _, _, .whlDone hc e, .whlDone hc' e' => by
    obtain ⟨rfl, h⟩ := ExecC.det hc hc'; cases h; exact ⟨rfl, rfl⟩
  | _, _, _, _, _, _, .whlDone hc e, .whlCondRet hc' => by
    obtain ⟨_, h⟩ := ExecC.det hc hc'; cases h
  | _, _, _, _, _, _, .whlDone hc e, .whlBodyRet hc' e' _ => by
    obtain ⟨_, h⟩ := ExecC.det hc hc'; cases h; rw [e] at e'; cases e'
  | _, _, _, _, _, _, .whlDone hc e, .whlStep hc' e' _ _ => by
    obtain ⟨_, h⟩ := ExecC.det hc hc'; cases h; rw [e] at e'; cases e'
  | _, _, _, _, _, _, .whlCondRet hc, .whlDone hc' e' => by
    obtain ⟨_, h⟩ := ExecC.det hc hc'; cases h
  | _, _, _, _, _, _, .whlCondRet hc, .whlCondRet hc' => by
    obtain ⟨rfl, h⟩ := ExecC.det hc hc'; cases h; exact ⟨rfl, rfl⟩
  | _, _, _, _, _, _, .whlCondRet hc, .whlBodyRet hc' _ _ => by
    obtain ⟨_, h⟩ := ExecC.det hc hc'; cases h
  | _, _, _, _, _, _, .whlCondRet hc, .whlStep hc' _ _ _ => by
    obtain ⟨_, h⟩ := ExecC.det hc hc'; cases h
  | _, _, _, _, _, _, .whlBodyRet hc e hb, .whlDone hc' e' => by
    obtain ⟨_, h⟩ := ExecC.det hc hc'; cases h; rw [e] at e'; cases e'
  | _, _, _, _, _, _, .whlBodyRet hc e hb, .whlCondRet hc' => by
    obtain ⟨_, h⟩ := ExecC.det hc hc'; cases h
  | _, _, _, _, _, _, .whlBodyRet hc e hb, .whlBodyRet hc' e' hb' => by
    obtain ⟨rfl, h⟩ := ExecC.det hc hc'; cases h
    obtain ⟨rfl, h⟩ := ExecC.det hb hb'; cases h; exact ⟨rfl, rfl⟩
  | _, _, _, _, _, _, .whlBodyRet hc e hb, .whlStep hc' e' hb' _ => by
    obtain ⟨_, h⟩ := ExecC.det hc hc'; cases h
    obtain ⟨_, h⟩ := ExecC.det hb hb'; cases h
  | _, _, _, _, _, _, .whlStep hc e hb hr, .whlDone hc' e' => by
    obtain ⟨_, h⟩ := ExecC.det hc hc'; cases h; rw [e] at e'; cases e'
  | _, _, _, _, _, _, .whlStep hc e hb hr, .whlCondRet hc' => by
    obtain ⟨_, h⟩ := ExecC.det hc hc'; cases h
  | _, _, _, _, _, _, .whlStep hc e hb hr, .whlBodyRet hc' e' hb' => by
    obtain ⟨_, h⟩ := ExecC.det hc hc'; cases h
    obtain ⟨_, h⟩ := ExecC.det hb hb'; cases h
  | _, _, _, _, _, _, .whlStep hc e hb hr, .whlStep hc' e' hb' hr' => by
    obtain ⟨rfl, h⟩ := ExecC.det hc hc'; cases h
    obtain ⟨rfl, h⟩ := ExecC.det hb hb'; cases h
    obtain ⟨rfl, h⟩ := ExecS.det hr hr'; cases h; exact ⟨rfl, rfl⟩
  | _, _, _, _, _, _, .setDisc, .setDisc => ⟨rfl, rfl⟩
  | _, _, _, _, _, _, .assignField h p, .assignField h' p' => by
    obtain ⟨rfl, hv⟩ := EvalV.det h h'; cases hv; rw [p] at p'; cases p'; exact ⟨rfl, rfl⟩
  | _, _, _, _, _, _, .iteDThen _ h, .iteDThen _ h' => ExecC.det h h'
  | _, _, _, _, _, _, .iteDElse _ _ h, .iteDElse _ _ h' => ExecC.det h h'
  | _, _, _, _, _, _, .iteDThen e _, .iteDElse e' ne _ => by rw [e] at e'; cases e'; exact (ne rfl).elim
  | _, _, _, _, _, _, .iteDElse e ne _, .iteDThen e' _ => by rw [e] at e'; cases e'; exact (ne rfl).elim
  | _, _, _, _, _, _, .push a b, .push a' b' => by
    rw [a] at a'; cases a'; rw [b] at b'; cases b'; exact ⟨rfl, rfl⟩
  | _, _, _, _, _, _, .forDone c e ne, .forDone c' e' ne' => by
    obtain ⟨rfl, h⟩ := ExecC.det c c'; cases h; exact ⟨rfl, rfl⟩
  | _, _, _, _, _, _, .forDone c e ne, .forBodyRet c' e' _ => by
    obtain ⟨_, h⟩ := ExecC.det c c'; cases h; rw [e] at e'; cases e'; exact (ne rfl).elim
  | _, _, _, _, _, _, .forDone c e ne, .forStep c' e' _ _ _ => by
    obtain ⟨_, h⟩ := ExecC.det c c'; cases h; rw [e] at e'; cases e'; exact (ne rfl).elim
  | _, _, _, _, _, _, .forBodyRet c e b, .forDone c' e' ne' => by
    obtain ⟨_, h⟩ := ExecC.det c c'; cases h; rw [e] at e'; cases e'; exact (ne' rfl).elim
  | _, _, _, _, _, _, .forBodyRet c e b, .forBodyRet c' e' b' => by
    obtain ⟨rfl, h⟩ := ExecC.det c c'; cases h
    obtain ⟨rfl, h⟩ := ExecC.det b b'; cases h; exact ⟨rfl, rfl⟩
  | _, _, _, _, _, _, .forBodyRet c e b, .forStep c' e' b' _ _ => by
    obtain ⟨_, h⟩ := ExecC.det c c'; cases h
    obtain ⟨_, h⟩ := ExecC.det b b'; cases h
  | _, _, _, _, _, _, .forStep c e b i r, .forDone c' e' ne' => by
    obtain ⟨_, h⟩ := ExecC.det c c'; cases h; rw [e] at e'; cases e'; exact (ne' rfl).elim
  | _, _, _, _, _, _, .forStep c e b i r, .forBodyRet c' e' b' => by
    obtain ⟨_, h⟩ := ExecC.det c c'; cases h
    obtain ⟨_, h⟩ := ExecC.det b b'; cases h
  | _, _, _, _, _, _, .forStep c e b i r, .forStep c' e' b' i' r' => by
    obtain ⟨rfl, h⟩ := ExecC.det c c'; cases h
    obtain ⟨rfl, h⟩ := ExecC.det b b'; cases h
    obtain ⟨rfl, h⟩ := ExecC.det i i'; cases h
    obtain ⟨rfl, h⟩ := ExecS.det r r'; exact ⟨rfl, h⟩
  | _, _, _, _, _, _, .mtchArm e g a x, .mtchArm e' g' a' x' => by
    rw [e] at e'; cases e'
    obtain ⟨rfl, h⟩ := ExecG.det g g'; cases h
    rw [a] at a'; cases a'
    obtain ⟨rfl, h⟩ := ExecC.det x x'; exact ⟨rfl, h⟩
  | _, _, _, _, _, _, .mtchArm e g _ _, .mtchGuardRet e' g' => by
    rw [e] at e'; cases e'
    obtain ⟨_, h⟩ := ExecG.det g g'; cases h
  | _, _, _, _, _, _, .mtchGuardRet e g, .mtchArm e' g' _ _ => by
    rw [e] at e'; cases e'
    obtain ⟨_, h⟩ := ExecG.det g g'; cases h
  | _, _, _, _, _, _, .mtchGuardRet e g, .mtchGuardRet e' g' => by
    rw [e] at e'; cases e'
    obtain ⟨rfl, h⟩ := ExecG.det g g'; cases h; exact ⟨rfl, rfl⟩
termination_by structural _ _ _ _ _ _ h _ => h
theorem EvalV.det {P : Prog} : ∀ {σ : Store} {v : Value} {t t' : Trace} {a a' : Val},
    EvalV P σ v t a → EvalV P σ v t' a' → t = t' ∧ a = a'
  | _, _, _, _, _, _, .pure h, .pure h' => by rw [h] at h'; cases h'; exact ⟨rfl, rfl⟩
  | _, _, _, _, _, _, .pure h, .call _ _ _ => by simp [evalValue] at h
  | _, _, _, _, _, _, .call _ _ _, .pure h' => by simp [evalValue] at h'
  | _, _, _, _, _, _, .call hp hb hx, .call hp' hb' hx' => by
    rw [hp] at hp'; cases hp'
    rw [hb] at hb'; cases hb'
    obtain ⟨rfl, h⟩ := ExecC.det hx hx'; cases h; exact ⟨rfl, rfl⟩
termination_by structural _ _ _ _ _ _ h _ => h
theorem ExecG.det {P : Prog} : ∀ {σ : Store} {st : List GStep} {t t' : Trace} {o o' : GOut},
    ExecG P σ st t o → ExecG P σ st t' o' → t = t' ∧ o = o'
  | _, _, _, _, _, _, .plain b, .plain b' => by
    obtain ⟨rfl, h⟩ := ExecC.det b b'; cases h; exact ⟨rfl, rfl⟩
  | _, _, _, _, _, _, .guardTrue b g e, .guardTrue b' g' e' => by
    obtain ⟨rfl, h⟩ := ExecC.det b b'; cases h
    obtain ⟨rfl, h⟩ := ExecC.det g g'; cases h; exact ⟨rfl, rfl⟩
  | _, _, _, _, _, _, .guardTrue b g e, .guardFalse b' g' e' _ => by
    obtain ⟨_, h⟩ := ExecC.det b b'; cases h
    obtain ⟨_, h⟩ := ExecC.det g g'; cases h; rw [e] at e'; cases e'
  | _, _, _, _, _, _, .guardTrue b g e, .guardRet b' g' => by
    obtain ⟨_, h⟩ := ExecC.det b b'; cases h
    obtain ⟨_, h⟩ := ExecC.det g g'; cases h
  | _, _, _, _, _, _, .guardFalse b g e r, .guardTrue b' g' e' => by
    obtain ⟨_, h⟩ := ExecC.det b b'; cases h
    obtain ⟨_, h⟩ := ExecC.det g g'; cases h; rw [e] at e'; cases e'
  | _, _, _, _, _, _, .guardFalse b g e r, .guardFalse b' g' e' r' => by
    obtain ⟨rfl, h⟩ := ExecC.det b b'; cases h
    obtain ⟨rfl, h⟩ := ExecC.det g g'; cases h
    obtain ⟨rfl, h⟩ := ExecG.det r r'; exact ⟨rfl, h⟩
  | _, _, _, _, _, _, .guardFalse b g e r, .guardRet b' g' => by
    obtain ⟨_, h⟩ := ExecC.det b b'; cases h
    obtain ⟨_, h⟩ := ExecC.det g g'; cases h
  | _, _, _, _, _, _, .guardRet b g, .guardTrue b' g' e' => by
    obtain ⟨_, h⟩ := ExecC.det b b'; cases h
    obtain ⟨_, h⟩ := ExecC.det g g'; cases h
  | _, _, _, _, _, _, .guardRet b g, .guardFalse b' g' e' _ => by
    obtain ⟨_, h⟩ := ExecC.det b b'; cases h
    obtain ⟨_, h⟩ := ExecC.det g g'; cases h
  | _, _, _, _, _, _, .guardRet b g, .guardRet b' g' => by
    obtain ⟨rfl, h⟩ := ExecC.det b b'; cases h
    obtain ⟨rfl, h⟩ := ExecC.det g g'; cases h; exact ⟨rfl, rfl⟩
termination_by structural _ _ _ _ _ _ h _ => h
theorem ExecC.det {P : Prog} : ∀ {σ : Store} {c : Code} {t t' : Trace} {o o' : Outcome},
    ExecC P σ c t o → ExecC P σ c t' o' → t = t' ∧ o = o'
  | _, _, _, _, _, _, .nil, .nil => ⟨rfl, rfl⟩
  | _, _, _, _, _, _, .consRet h, .consRet h' => ExecS.det h h'
  | _, _, _, _, _, _, .consRet h, .cons h' _ => by
    obtain ⟨_, h⟩ := ExecS.det h h'; cases h
  | _, _, _, _, _, _, .cons h _, .consRet h' => by
    obtain ⟨_, h⟩ := ExecS.det h h'; cases h
  | _, _, _, _, _, _, .cons h hr, .cons h' hr' => by
    obtain ⟨rfl, h⟩ := ExecS.det h h'; cases h
    obtain ⟨rfl, h⟩ := ExecC.det hr hr'; exact ⟨rfl, h⟩
termination_by structural _ _ _ _ _ _ h _ => h
end

/-- lowering every function gives a program that holds them all -/
theorem lowerProg_ok : ∀ (fns : List FnDef) (P : Prog), lowerProg fns = some P → ProgOk fns P
  | [], P, h => by intro f fd hf; simp at hf
  | fd0 :: rest, P, h => by
    simp [lowerProg, Option.bind_eq_some_iff] at h
    obtain ⟨code, hc, more, hm, rfl⟩ := h
    intro f fd hf
    cases f with
    | zero => simp at hf; subst hf; exact ⟨code, hc, by simp⟩
    | succ f' =>
      simp at hf
      obtain ⟨code', hc', hp'⟩ := lowerProg_ok rest more hm f' fd hf
      exact ⟨code', hc', by simpa using hp'⟩

end RotoV.LowerS
