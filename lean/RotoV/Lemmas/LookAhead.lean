/-
  Lemmas for the look-ahead / lexer-mode model (property C09):
  * mode safety of the token queue is an invariant of every lexer operation
    when `peek_many` stops at `f"` (for ALL inputs and window sizes);
  * the bounded enumeration of bracketed constructs used by
    `Props/C09.lookahead_roundtrip_bounded`.
-/
import RotoV.Model.LookAhead

namespace RotoV.LookAhead

/-! ## Mode safety -/

theorem mem_dropLast_or_last {α} (p : List α) (l : α) (h : p.getLast? = some l) (x : α) (hx : x ∈ p) :
    x ∈ p.dropLast ∨ x = l := by
  have hne : p ≠ [] := by intro h0; subst h0; simp at h
  have hl : p.getLast hne = l := by
    have := List.getLast?_eq_some_getLast hne
    rw [this] at h; exact Option.some.inj h
  have : p = p.dropLast ++ [l] := by rw [← hl]; exact (List.dropLast_concat_getLast hne).symm
  rw [this] at hx
  simp only [List.mem_append, List.mem_singleton] at hx
  exact hx

theorem not_stopped_last_ne (stops : List Tok) (hs : Tok.fstart ∈ stops) (p : List Tok)
    (h : stopped stops p = false) : ∀ x ∈ p, x ∈ p.dropLast ∨ x ≠ Tok.fstart := by
  intro x hx
  unfold stopped at h
  cases hl : p.getLast? with
  | none =>
    have : p = [] := by simpa using hl
    subst this; simp at hx
  | some l =>
    rw [hl] at h
    rcases mem_dropLast_or_last p l hl x hx with h1 | h1
    · exact .inl h1
    · right
      subst h1
      intro hf
      subst hf
      simp at h
      exact h hs

/-- the fill loop of the guarded `peek_many` keeps the queue mode-safe -/
theorem fill_modeSafe (stops : List Tok) (hs : Tok.fstart ∈ stops) :
    ∀ (k : Nat) (s : Lx), ModeSafe s → ModeSafe (fill stops k s).2 := by
  intro k
  induction k with
  | zero => intro s h; simpa [fill] using h
  | succ k ih =>
    intro s h
    unfold fill
    split
    · exact h
    · rename_i hst
      have hst : stopped stops s.peeked = false := by simpa using hst
      split
      · exact h
      · rename_i t r _
        apply ih
        intro x hx
        simp only [List.dropLast_concat] at hx
        rcases not_stopped_last_ne stops hs s.peeked hst x hx with h1 | h1
        · exact h x h1
        · exact h1

theorem peekMany_modeSafe (stops : List Tok) (hs : Tok.fstart ∈ stops) (n : Nat) (s : Lx)
    (h : ModeSafe s) : ∀ w s', peekMany stops n s = .ok w s' → ModeSafe s' := by
  intro w s' he
  unfold peekMany at he
  split at he
  · cases he
  · have := fill_modeSafe stops hs (n - s.peeked.length) s h
    split at he
    · rename_i s1 heq; injection he with _ h2; subst h2; rw [heq] at this; exact this
    · rename_i s1 heq; injection he with _ h2; subst h2; rw [heq] at this; exact this

theorem dropLast_tail_subset {α} (t : α) (p : List α) : ∀ x ∈ p.dropLast, x ∈ (t :: p).dropLast := by
  intro x hx
  cases p with
  | nil => simp at hx
  | cons a q => simp only [List.dropLast_cons_cons]; exact List.mem_cons_of_mem _ hx

theorem next_modeSafe (s : Lx) (h : ModeSafe s) : ∀ t s', s.next = some (t, s') → ModeSafe s' := by
  intro t s' he
  unfold Lx.next at he
  split at he
  · rename_i u p hp
    injection he with he; injection he with _ h2; subst h2
    intro x hx
    apply h x
    rw [hp]
    exact dropLast_tail_subset u p x hx
  · split at he
    · injection he with he; injection he with _ h2; subst h2
      intro x hx; simp at hx
    · cases he

theorem peek_modeSafe (s : Lx) (h : ModeSafe s) : ModeSafe s.peek.2 := by
  unfold Lx.peek
  split
  · exact h
  · split
    · intro x hx; simp at hx
    · exact h

/-- When the parser consumes `f"` from a mode-safe lexer, nothing is queued
behind it: the f-string scanner starts exactly at the text. -/
theorem next_fstart_fresh (s : Lx) (h : ModeSafe s) :
    ∀ s', s.next = some (Tok.fstart, s') → s'.peeked = [] := by
  intro s' he
  unfold Lx.next at he
  split at he
  · rename_i u p hp
    injection he with he; injection he with h1 h2; subst h2; subst h1
    cases p with
    | nil => rfl
    | cons a q =>
      exfalso
      apply h Tok.fstart
      · rw [hp]; simp
      · rfl
  · split at he
    · injection he with he; injection he with _ h2; subst h2; rfl
    · cases he

/-! ## Bounded enumeration of bracketed constructs

Single-hole contexts — one for every position of every bracketed construct —
applied to leaf subjects, nested up to three deep. Canonical trees only (the
printer is injective on them): operands of an operator and targets of a call /
field are never themselves operator expressions. -/

/-- leaf subjects: identifier, literal, unit, f-strings of every part shape,
empty records -/
def subjects : List T :=
  [.id, .lit, .unit,
   .fstr (.fin 0), .fstr (.fin 1),
   .fstr (.part 0 .id (.fin 0)), .fstr (.part 1 .lit (.fin 1)),
   .fstr (.part 1 .id (.part 0 .lit (.fin 0))),
   .fstr (.part 0 (.fstr (.fin 1)) (.fin 1)),
   .recd .nil, .trec .id .nil, .field .id]

/-- contexts whose hole takes any expression (result: an atom) -/
def ctxE : List (T → T) :=
  [fun x => .paren x,
   fun x => .list (.cons x .nil),
   fun x => .list (.cons x (.cons .id .nil)),
   fun x => .list (.cons .lit (.cons x .nil)),
   fun x => .recd (.cons x .nil),
   fun x => .recd (.cons x (.cons .id .nil)),
   fun x => .recd (.cons .lit (.cons x .nil)),
   fun x => .trec .id (.cons x .nil),
   fun x => .trec (.field .id) (.cons .lit (.cons x .nil)),
   fun x => .block (.last x),
   fun x => .block (.stmt x .nil),
   fun x => .block (.stmt x (.last .id)),
   fun x => .block (.stmt .lit (.last x)),
   fun x => .block (.slet x (.last .id)),
   fun x => .block (.slet .id (.last x)),
   fun x => .block (.slet x .nil),
   fun x => .call .id (.cons x .nil),
   fun x => .call .id (.cons x (.cons .id .nil)),
   fun x => .call (.field .lit) (.cons .lit (.cons x .nil)),
   fun x => .fstr (.part 0 x (.fin 0)),
   fun x => .fstr (.part 1 x (.fin 1)),
   fun x => .fstr (.part 1 .id (.part 0 x (.fin 1)))]

/-- contexts whose hole takes an operand (atom / call / field; result: an
expression) -/
def ctxA : List (T → T) :=
  [fun x => .bin x .id,
   fun x => .bin .lit x,
   fun x => .bin (.bin .id x) .lit,
   fun x => .field x,
   fun x => .call x (.cons .id .nil),
   fun x => .call (.field x) .nil]

/-- the `{`-, `(`-, `[`- and hole-opening contexts, for the deeper nests -/
def ctxCore : List (T → T) :=
  [fun x => .paren x,
   fun x => .list (.cons x .nil),
   fun x => .recd (.cons x .nil),
   fun x => .block (.last x),
   fun x => .block (.slet x (.last .id)),
   fun x => .call .id (.cons x .nil),
   fun x => .fstr (.part 0 x (.fin 0)),
   fun x => .fstr (.part 1 x (.fin 1))]

def ctxCore4 : List (T → T) :=
  [fun x => .paren x,
   fun x => .recd (.cons x .nil),
   fun x => .block (.last x),
   fun x => .fstr (.part 1 x (.fin 1))]

/-- the subjects of the two-deep nests -/
def subjects2 : List T :=
  [.id, .lit, .fstr (.fin 0), .fstr (.fin 1), .fstr (.part 1 .lit (.fin 1)), .recd .nil]

/-- the subjects of the three-deep nests -/
def subjects3 : List T := [.id, .fstr (.fin 1), .fstr (.part 0 .id (.fin 1))]

def applyAll (cs : List (T → T)) (xs : List T) : List T := cs.flatMap fun c => xs.map c

/-- every tree the bounded theorem covers (2 964 trees): every subject in
every position; every position of every construct nested in the bracket-opening
ones and in operand position, two deep; the bracket-opening ones three deep. -/
def boundedTrees : List T :=
  subjects ++ applyAll ctxE subjects ++ applyAll ctxA subjects
    ++ applyAll ctxCore (applyAll ctxE subjects2)
    ++ applyAll ctxE (applyAll ctxA subjects2)
    ++ applyAll ctxA (applyAll ctxCore subjects2)
    ++ applyAll ctxCore4 (applyAll ctxCore4 (applyAll ctxCore4 subjects3))
    ++ applyAll ctxCore4 (applyAll ctxA (applyAll ctxCore4 subjects3))

/-- `parse (print e) = e`, entire input consumed, queue empty -/
def roundTrips (c : Cfg) (e : T) : Bool := parseAll c (render e) == .ok e ⟨[], []⟩

/-! ## A block that begins with an f-string — every f-string

For EVERY f-string whose holes hold one identifier or one literal (any number
of parts, any texts), the blocks `{ f"…" }`, `{ f"…"; }` and `{ f"…"; lit }`
parse to the documented tree when the look-ahead stops at `f"`. -/

set_option linter.unusedSimpArgs false

theorem tok_beq (a b : Tok) : (a == b) = decide (a = b) := rfl

theorem expr_id_hole (c : Cfg) (g : Nat) (rest : List Sym) :
    expr c (g + 4) ⟨.n .ident :: .n .rcurly :: rest, []⟩ = .ok .id ⟨rest, [.rcurly]⟩ := by
  simp [tok_beq, expr, access, atom, pathRest, accessLoop, binLoop, Lx.peek, nextInner, pNext, Lx.next,
    nextIs, peekIs, R.bind]

theorem expr_lit_hole (c : Cfg) (g : Nat) (rest : List Sym) :
    expr c (g + 4) ⟨.n .lit :: .n .rcurly :: rest, []⟩ = .ok .lit ⟨rest, [.rcurly]⟩ := by
  simp [tok_beq, expr, access, atom, pathRest, accessLoop, binLoop, Lx.peek, nextInner, pNext, Lx.next,
    nextIs, peekIs, R.bind]

/-- f-string parts whose holes hold one identifier or one literal -/
def FlatParts : T → Bool
  | .fin _ => true
  | .part _ e rest => (e == .id || e == .lit) && FlatParts rest
  | _ => false

def partsCount : T → Nat
  | .part _ _ r => partsCount r + 1
  | _ => 0

/-- the loop of `f_string` on flat parts, started with an empty queue -/
theorem fparts_flat (c : Cfg) : (ps : T) → FlatParts ps = true → ∀ (g : Nat) (rest : List Sym),
    fparts c (partsCount ps + g + 5) ⟨renderParts ps ++ rest, []⟩ = .ok ps ⟨rest, []⟩
  | .fin k, _, g, rest => by simp [partsCount, renderParts, fparts, fPart]
  | .part k e r, h, g, rest => by
    simp only [FlatParts, Bool.and_eq_true, Bool.or_eq_true, beq_iff_eq] at h
    have ih := fparts_flat c r h.2 g rest
    have hf : partsCount (.part k e r) + g + 5 = (partsCount r + g + 5) + 1 := by simp [partsCount]; omega
    rw [hf]
    rcases h.1 with he | he <;> subst he
    · have he := expr_id_hole c (partsCount r + g + 1) (renderParts r ++ rest)
      have h4 : partsCount r + g + 1 + 4 = partsCount r + g + 5 := by omega
      rw [h4] at he
      generalize partsCount r + g + 5 = F at *
      simp [renderParts, render, fparts, fPart, take, Lx.next, nextInner, R.bind, tok_beq, he, ih]
    · have he := expr_lit_hole c (partsCount r + g + 1) (renderParts r ++ rest)
      have h4 : partsCount r + g + 1 + 4 = partsCount r + g + 5 := by omega
      rw [h4] at he
      generalize partsCount r + g + 5 = F at *
      simp [renderParts, render, fparts, fPart, take, Lx.next, nextInner, R.bind, tok_beq, he, ih]
  | .id, h, _, _ | .lit, h, _, _ | .unit, h, _, _ | .paren _, h, _, _ | .bin _ _, h, _, _ | .field _, h, _, _
  | .call _ _, h, _, _ | .fstr _, h, _, _ | .list _, h, _, _ | .recd _, h, _, _ | .trec _ _, h, _, _
  | .block _, h, _, _ | .nil, h, _, _ | .cons _ _, h, _, _ | .slet _ _, h, _, _ | .stmt _ _, h, _, _
  | .last _, h, _, _ => by simp [FlatParts] at h

theorem partsCount_le (ps : T) : partsCount ps ≤ (renderParts ps).length := by
  induction ps <;> simp [partsCount, renderParts] <;> omega

/-- the three block shapes that begin with the f-string `ps` -/
def blockShapes (ps : T) : List T :=
  [.block (.last (.fstr ps)), .block (.stmt (.fstr ps) .nil), .block (.stmt (.fstr ps) (.last .lit))]

theorem block_fstring_last (c : Cfg) (hs : c.stops = [Tok.fstart]) (hw : c.windows = windowsDoc)
    (ps : T) (h : FlatParts ps = true) (g : Nat) :
    expr c (partsCount ps + g + 5 + 8) ⟨render (.block (.last (.fstr ps))), []⟩ = .ok (.block (.last (.fstr ps))) ⟨[], []⟩ := by
  obtain ⟨stops, windows⟩ := c
  simp only at hs hw
  subst hs hw
  have hp : fparts ⟨[Tok.fstart], windowsDoc⟩ (partsCount ps + g + 5 + 1) ⟨renderParts ps ++ [.n .rcurly], []⟩ =
      .ok ps ⟨[.n .rcurly], []⟩ := by
    have := fparts_flat ⟨[Tok.fstart], windowsDoc⟩ ps h (g + 1) [.n .rcurly]
    rwa [show partsCount ps + (g + 1) + 5 = partsCount ps + g + 5 + 1 by omega] at this
  generalize partsCount ps + g + 5 = F at *
  simp [windowsDoc, render, renderItems, expr, access, atom, isRecord, peekMany, fill, stopped, blockItems,
    accessLoop, binLoop, Lx.peek, nextInner, pNext, Lx.next, nextIs, peekIs, take, R.bind, tok_beq] at hp ⊢
  rw [hp]
  simp [accessLoop, binLoop, Lx.peek, nextInner, pNext, Lx.next, nextIs, peekIs, take, R.bind, tok_beq]

theorem block_fstring_stmt (c : Cfg) (hs : c.stops = [Tok.fstart]) (hw : c.windows = windowsDoc)
    (ps : T) (h : FlatParts ps = true) (g : Nat) :
    expr c (partsCount ps + g + 5 + 8) ⟨render (.block (.stmt (.fstr ps) .nil)), []⟩ = .ok (.block (.stmt (.fstr ps) .nil)) ⟨[], []⟩ := by
  obtain ⟨stops, windows⟩ := c
  simp only at hs hw
  subst hs hw
  have hp : fparts ⟨[Tok.fstart], windowsDoc⟩ (partsCount ps + g + 5 + 1) ⟨renderParts ps ++ [.n .semi, .n .rcurly], []⟩ =
      .ok ps ⟨[.n .semi, .n .rcurly], []⟩ := by
    have := fparts_flat ⟨[Tok.fstart], windowsDoc⟩ ps h (g + 1) [.n .semi, .n .rcurly]
    rwa [show partsCount ps + (g + 1) + 5 = partsCount ps + g + 5 + 1 by omega] at this
  generalize partsCount ps + g + 5 = F at *
  simp [windowsDoc, render, renderItems, expr, access, atom, isRecord, peekMany, fill, stopped, blockItems,
    accessLoop, binLoop, Lx.peek, nextInner, pNext, Lx.next, nextIs, peekIs, take, R.bind, tok_beq] at hp ⊢
  rw [hp]
  simp [blockItems, accessLoop, binLoop, Lx.peek, nextInner, pNext, Lx.next, nextIs, peekIs, take, R.bind, tok_beq]

theorem block_fstring_stmt_lit (c : Cfg) (hs : c.stops = [Tok.fstart]) (hw : c.windows = windowsDoc)
    (ps : T) (h : FlatParts ps = true) (g : Nat) :
    expr c (partsCount ps + g + 5 + 8) ⟨render (.block (.stmt (.fstr ps) (.last .lit))), []⟩ = .ok (.block (.stmt (.fstr ps) (.last .lit))) ⟨[], []⟩ := by
  obtain ⟨stops, windows⟩ := c
  simp only at hs hw
  subst hs hw
  have hp : fparts ⟨[Tok.fstart], windowsDoc⟩ (partsCount ps + g + 5 + 1) ⟨renderParts ps ++ [.n .semi, .n .lit, .n .rcurly], []⟩ =
      .ok ps ⟨[.n .semi, .n .lit, .n .rcurly], []⟩ := by
    have := fparts_flat ⟨[Tok.fstart], windowsDoc⟩ ps h (g + 1) [.n .semi, .n .lit, .n .rcurly]
    rwa [show partsCount ps + (g + 1) + 5 = partsCount ps + g + 5 + 1 by omega] at this
  generalize partsCount ps + g + 5 = F at *
  simp [windowsDoc, render, renderItems, expr, access, atom, isRecord, peekMany, fill, stopped, blockItems,
    accessLoop, binLoop, Lx.peek, nextInner, pNext, Lx.next, nextIs, peekIs, take, R.bind, tok_beq] at hp ⊢
  rw [hp]
  simp [blockItems, expr, access, atom, accessLoop, binLoop, Lx.peek, nextInner, pNext, Lx.next, nextIs, peekIs,
    take, R.bind, tok_beq]

theorem block_fstring_fuel (c : Cfg) (hs : c.stops = [Tok.fstart]) (hw : c.windows = windowsDoc)
    (ps : T) (h : FlatParts ps = true) (g : Nat) :
    ∀ e ∈ blockShapes ps, expr c (partsCount ps + g + 5 + 8) ⟨render e, []⟩ = .ok e ⟨[], []⟩ := by
  intro e he
  simp only [blockShapes, List.mem_cons, List.not_mem_nil, or_false] at he
  rcases he with rfl | rfl | rfl
  · exact block_fstring_last c hs hw ps h g
  · exact block_fstring_stmt c hs hw ps h g
  · exact block_fstring_stmt_lit c hs hw ps h g

/-- … and through `parseAll` (the fuel it supplies is enough) -/
theorem block_fstring_parse (c : Cfg) (hs : c.stops = [Tok.fstart]) (hw : c.windows = windowsDoc)
    (ps : T) (h : FlatParts ps = true) :
    ∀ e ∈ blockShapes ps, parseAll c (render e) = .ok e ⟨[], []⟩ := by
  intro e he
  have hlen : partsCount ps + 13 ≤ 4 * (render e).length + 8 := by
    have := partsCount_le ps
    simp only [blockShapes, List.mem_cons, List.not_mem_nil, or_false] at he
    rcases he with rfl | rfl | rfl <;> simp [render, renderItems] <;> omega
  obtain ⟨g, hg⟩ : ∃ g, 4 * (render e).length + 8 = partsCount ps + g + 5 + 8 :=
    ⟨4 * (render e).length + 8 - (partsCount ps + 13), by omega⟩
  unfold parseAll
  rw [hg, block_fstring_fuel c hs hw ps h g e he]
  simp [R.bind, Lx.next, nextInner]

end RotoV.LookAhead
