/-
  A concrete module tree used for the non-vacuity examples and the refutation
  of import-order independence (C13).
-/
import RotoV.Model.Scope
import RotoV.Lemmas.Scope
import RotoV.Lemmas.ScopePath
import RotoV.Lemmas.ScopeFrame
import RotoV.Lemmas.ScopeBuild

namespace RotoV.Scope

/-- the witness tree: `pkg { aa { fn ff #101 }  bb { aa { fn ff #102 } } }`
    (identifiers: aa = 3, bb = 4, ff = 6) -/
def witnessMods : List Module :=
  [ ⟨PKG, none, []⟩,
    ⟨3, some 0, [.fn 6 101 (.mk [] [])]⟩,
    ⟨4, some 0, []⟩,
    ⟨3, some 2, [.fn 6 102 (.mk [] [])]⟩ ]

/-- the graph after `declare_modules` (scopes: 0 root, 1 pkg, 2 pkg.aa, 3 pkg.bb,
    4 pkg.bb.aa), plus the scope (5) of a function of `pkg` -/
def witnessGraph : Graph :=
  match declareModules witnessMods [] Graph.new with
  | .ok (g, _) => (g.wrap 1 (.function 10)).1
  | _ => Graph.new

def kindOf : Res (Option Decl) → Option DKind
  | .ok (some d) => some d.kind
  | _ => none

theorem witness_inv : Inv witnessGraph := by
  unfold witnessGraph
  cases h : declareModules witnessMods [] Graph.new with
  | ok pr =>
    obtain ⟨g, mods⟩ := pr
    simp only
    obtain ⟨s, _, _⟩ := step_declareModules _ _ _ _ _ inv_new (by intro x hx; cases hx) h
    have hl : (match declareModules witnessMods [] Graph.new with
        | .ok (g, _) => decide (1 < g.scopes.length) | _ => false) = true := by decide
    rw [h] at hl
    exact inv_wrap_other s.1 1 _ (by simpa using hl) (by intro n pm hc; cases hc)
  | err e =>
    have : (declareModules witnessMods [] Graph.new).isOk = true := by decide
    rw [h] at this; cases this
  | panic p =>
    have : (declareModules witnessMods [] Graph.new).isOk = true := by decide
    rw [h] at this; cases this

/-- the lookup path of the function scope: the function, its module `pkg`, the root -/
theorem witness_chain : Ancestors witnessGraph 5 [5, 1, 0] := by
  refine .step (sc := ⟨.function 10, some 1, []⟩) (by decide) rfl ?_
  refine .step (sc := ⟨.module ⟨0, PKG⟩ none, some 0, []⟩) (by decide) rfl ?_
  exact .root (sc := ⟨.root, none, []⟩) (by decide) rfl

/-- the lookup path of the scope of `pkg.bb.aa`: module scopes hang off the root -/
theorem witness_chain4 : Ancestors witnessGraph 4 [4, 0] := by
  refine .step (sc := ⟨.module ⟨3, 3⟩ (some 3), some 0, []⟩) (by decide) rfl ?_
  exact .root (sc := ⟨.root, none, []⟩) (by decide) rfl


/-- `resolve_module_part_of_path` as on the pinned tree: the identifier after
    the leading `super`s is looked up *with* recursion -/
def supersPinned (g : Graph) : Nat → Name → List Name → Res PathRes
  | s, id, rest =>
    if id = SUPER then
      match g.parentModule s with
      | .panic p => .panic p
      | .err e => .err e
      | .ok none => .err .tooManySuper
      | .ok (some dec) =>
        match dec.scope with
        | none => .panic .superNoScope
        | some s' =>
          match rest with
          | [] => .ok ⟨id, dec, []⟩
          | id' :: rest' => supersPinned g s' id' rest'
    else segments g s id rest true

/-- `pkg { import bb.gg; }  aa { }  bb { fn gg #103 }` (aa = 3, bb = 4, gg = 7) -/
def witness2Mods : List Module :=
  [ ⟨PKG, none, [.imports [[4, 7]]]⟩, ⟨3, some 0, []⟩, ⟨4, some 0, [.fn 7 103 (.mk [] [])]⟩ ]

def witness2Graph : Graph :=
  match checkModuleTree Graph.new witness2Mods with
  | .ok out => out.g
  | _ => Graph.new


end RotoV.Scope
