/-
  Lemmas/ValueCtor — the MIR lowering of constructors (`Model/ValueCtor.lower
  true`, the tree's `Lowerer::record` / `binop` / `assign` / `block`) computes
  the value-semantics spec (`eval`): simulation proof by mutual induction over
  the source core, with the frame condition that makes it go through — code
  lowered from counter `n` on never writes a temporary below `n`.
-/
import RotoV.Model.ValueCtor

namespace RotoV.ValueCtor

/-- the record value with these components -/
def ofList : List V → V
  | [] => .nil
  | v :: vs => .cons v (ofList vs)

theorem setAt_ofList (pre : List V) (v : V) :
    (ofList pre).setAt pre.length v = ofList (pre ++ [v]) := by
  induction pre with
  | nil => simp [ofList, V.setAt]
  | cons h t ih => simp [ofList, V.setAt, ih]

theorem upd_nil (w v : V) : w.upd [] v = v := by simp [V.upd]

theorem upd_single (w : V) (k : Nat) (v : V) : w.upd [k] v = w.setAt k v := by
  simp [V.upd]

/-! ### running code -/

@[simp] theorem run_nil (s : MS) : s.run [] = s := rfl

theorem run_cons (s : MS) (i : Instr) (c : List Instr) : s.run (i :: c) = (s.step i).run c := rfl

theorem run_append (s : MS) (a b : List Instr) : s.run (a ++ b) = (s.run a).run b := by
  simp [MS.run, List.foldl_append]

/-- `$t: ty = value`: the temporary receives what the value is worth NOW -/
theorem step_tmp (s : MS) (t : Nat) (val : Val) :
    (s.step ⟨⟨.tmp t, []⟩, val⟩).tmps t = s.evalVal val ∧
    (s.step ⟨⟨.tmp t, []⟩, val⟩).users = s.users ∧
    ∀ k, k ≠ t → (s.step ⟨⟨.tmp t, []⟩, val⟩).tmps k = s.tmps k := by
  refine ⟨?_, ?_, ?_⟩
  · simp [MS.step, upd_nil]
  · simp [MS.step]
  · intro k hk; simp [MS.step, hk]

/-- `x.p: ty = value` -/
theorem step_user (s : MS) (x : Nat) (p : List Nat) (val : Val) :
    (s.step ⟨⟨.user x, p⟩, val⟩).users = s.users.write x p (s.evalVal val) ∧
    (s.step ⟨⟨.user x, p⟩, val⟩).tmps = s.tmps := by
  simp [MS.step]

/-- fresh temporaries hold nothing -/
def Fresh (s : MS) (n : Nat) : Prop := ∀ k, n ≤ k → s.tmps k = .nil

/-- what a returned (lazy) value may mention: places of the script's variables
    (whoever receives the value stores it at once) and temporaries below the counter -/
def ValBelow : Val → Nat → Prop
  | .const _, _ => True
  | .clone p, _ => ∃ x, p.var = .user x
  | .move x, n => ∃ t, x = .tmp t ∧ t < n
  | .add l r, n => (∃ t, l = .tmp t ∧ t < n) ∧ (∃ t, r = .tmp t ∧ t < n)

theorem ValBelow.mono {v : Val} {n m : Nat} (h : ValBelow v n) (hnm : n ≤ m) : ValBelow v m := by
  cases v with
  | const _ => trivial
  | clone p => exact h
  | move x => obtain ⟨t, h1, h2⟩ := h; exact ⟨t, h1, Nat.lt_of_lt_of_le h2 hnm⟩
  | add l r =>
    obtain ⟨⟨t, h1, h2⟩, ⟨u, h3, h4⟩⟩ := h
    exact ⟨⟨t, h1, Nat.lt_of_lt_of_le h2 hnm⟩, ⟨u, h3, Nat.lt_of_lt_of_le h4 hnm⟩⟩

/-- a value that only mentions temporaries below `n` (and places of the
    script's variables) is worth the same in two states that agree on both -/
theorem evalVal_congr (s s' : MS) (v : Val) (n : Nat) (hb : ValBelow v n)
    (hu : s'.users = s.users) (ht : ∀ k, k < n → s'.tmps k = s.tmps k) :
    s'.evalVal v = s.evalVal v := by
  cases v with
  | const _ => rfl
  | clone p =>
    obtain ⟨x, hx⟩ := hb
    simp [MS.evalVal, MS.var, hx, hu]
  | move x =>
    obtain ⟨t, h1, h2⟩ := hb
    subst h1
    simp [MS.evalVal, MS.var, ht t h2]
  | add l r =>
    obtain ⟨⟨t, h1, h2⟩, ⟨u, h3, h4⟩⟩ := hb
    subst h1; subst h3
    simp [MS.evalVal, MS.var, ht t h2, ht u h4]

/-- `assign_to_var`: afterwards the variable holds what the value was worth
    when `assign_to_var` was called; nothing else changed -/
theorem assignToVar_ok (val : Val) (n : Nat) (s : MS) (hf : Fresh s n) (hb : ValBelow val n) :
    ((s.run (assignToVar val n).1).var (assignToVar val n).2.1 = s.evalVal val) ∧
    (s.run (assignToVar val n).1).users = s.users ∧
    (∀ k, k < n → (s.run (assignToVar val n).1).tmps k = s.tmps k) ∧
    Fresh (s.run (assignToVar val n).1) (assignToVar val n).2.2 ∧
    n ≤ (assignToVar val n).2.2 ∧
    (∃ t, (assignToVar val n).2.1 = .tmp t ∧ t < (assignToVar val n).2.2) := by
  have fresh_step : ∀ v : Val,
      ((s.run [⟨⟨.tmp n, []⟩, v⟩]).var (.tmp n) = s.evalVal v) ∧
      (s.run [⟨⟨.tmp n, []⟩, v⟩]).users = s.users ∧
      (∀ k, k < n → (s.run [⟨⟨.tmp n, []⟩, v⟩]).tmps k = s.tmps k) ∧
      Fresh (s.run [⟨⟨.tmp n, []⟩, v⟩]) (n + 1) ∧ n ≤ n + 1 ∧
      (∃ t, Var.tmp n = .tmp t ∧ t < n + 1) := by
    intro v
    obtain ⟨h1, h2, h3⟩ := step_tmp s n v
    refine ⟨?_, ?_, ?_, ?_, Nat.le_succ n, ⟨n, rfl, Nat.lt_succ_self n⟩⟩
    · simpa [run_cons, MS.var] using h1
    · simpa [run_cons] using h2
    · intro k hk; simpa [run_cons] using h3 k (Nat.ne_of_lt hk)
    · intro k hk
      have : k ≠ n := by omega
      have h := h3 k this
      simp [run_cons] at *
      rw [h]; exact hf k (by omega)
  cases val with
  | move x =>
    obtain ⟨t, h1, h2⟩ := hb
    simp only [assignToVar, run_nil]
    exact ⟨rfl, trivial, fun _ _ => trivial, hf, Nat.le_refl n, ⟨t, h1, h2⟩⟩
  | const v => simpa [assignToVar] using fresh_step (.const v)
  | clone p => simpa [assignToVar] using fresh_step (.clone p)
  | add l r => simpa [assignToVar] using fresh_step (.add l r)

/-- the final loop of `Lowerer::record`: component after component is moved
    into the new record -/
theorem assemble_ok (to : Nat) : ∀ (vals : List Val) (s : MS) (pre : List V),
    s.tmps to = ofList pre → (∀ v ∈ vals, ∃ t, v = .move (.tmp t) ∧ t < to) →
    (s.run (assemble to vals pre.length)).tmps to = ofList (pre ++ vals.map s.evalVal) ∧
    (s.run (assemble to vals pre.length)).users = s.users ∧
    ∀ k, k ≠ to → (s.run (assemble to vals pre.length)).tmps k = s.tmps k
  | [], s, pre, hto, _ => by simp [assemble, hto]
  | v :: vs, s, pre, hto, hv => by
    obtain ⟨t, hvt, htlt⟩ := hv v (List.mem_cons_self ..)
    subst hvt
    -- the state after `to.k = move($t)`
    let s₁ := s.step ⟨⟨.tmp to, [pre.length]⟩, .move (.tmp t)⟩
    have h1 : s₁.tmps to = ofList (pre ++ [s.tmps t]) := by
      simp [s₁, MS.step, MS.evalVal, MS.var, hto, upd_single, setAt_ofList]
    have h2 : s₁.users = s.users := by simp [s₁, MS.step]
    have h3 : ∀ k, k ≠ to → s₁.tmps k = s.tmps k := by
      intro k hk; simp [s₁, MS.step, hk]
    have hv' : ∀ w ∈ vs, ∃ t, w = .move (.tmp t) ∧ t < to :=
      fun w hw => hv w (List.mem_cons_of_mem _ hw)
    have ih := assemble_ok to vs s₁ (pre ++ [s.tmps t]) h1 hv'
    have hlen : (pre ++ [s.tmps t]).length = pre.length + 1 := by simp
    rw [hlen] at ih
    obtain ⟨i1, i2, i3⟩ := ih
    have hmap : vs.map s₁.evalVal = vs.map s.evalVal := by
      apply List.map_congr_left
      intro w hw
      obtain ⟨u, hwu, hult⟩ := hv' w hw
      subst hwu
      simp [MS.evalVal, MS.var, h3 u (Nat.ne_of_lt hult)]
    refine ⟨?_, ?_, ?_⟩
    · simp only [assemble, run_cons]
      rw [i1, hmap]
      simp [MS.evalVal, MS.var]
    · simp only [assemble, run_cons]
      rw [i2, h2]
    · intro k hk
      simp only [assemble, run_cons]
      rw [i3 k hk, h3 k hk]

/-- what `lower` promises for an expression lowered from counter `n` in state `s` -/
def LowerSpec (s : MS) (n : Nat) (r : List Instr × Val × Nat) (res : V × Store) : Prop :=
  (s.run r.1).evalVal r.2.1 = res.1 ∧ (s.run r.1).users = res.2 ∧
  (∀ k, k < n → (s.run r.1).tmps k = s.tmps k) ∧ Fresh (s.run r.1) r.2.2 ∧ n ≤ r.2.2 ∧
  ValBelow r.2.1 r.2.2

/-- … and `lowerComps` for the components of a constructor: every one sits in
    a temporary of its own -/
def CompsSpec (s : MS) (n : Nat) (r : List Instr × List Val × Nat) (res : V × Store) : Prop :=
  ofList (r.2.1.map (s.run r.1).evalVal) = res.1 ∧ (s.run r.1).users = res.2 ∧
  (∀ k, k < n → (s.run r.1).tmps k = s.tmps k) ∧ Fresh (s.run r.1) r.2.2 ∧ n ≤ r.2.2 ∧
  (∀ v ∈ r.2.1, ∃ t, v = .move (.tmp t) ∧ t < r.2.2)

theorem component_true (val : Val) (n : Nat) :
    component true val n = ((assignToVar val n).1, .move (assignToVar val n).2.1, (assignToVar val n).2.2) := by
  cases val <;> simp [component]

mutual
theorem lower_ok : ∀ (e : CE) (n : Nat) (s : MS), Fresh s n →
    LowerSpec s n (lower true e n) (eval e s.users)
  | .lit v, n, s, hf => by
    simp only [lower, eval, LowerSpec, run_nil]
    exact ⟨rfl, trivial, fun _ _ => trivial, hf, Nat.le_refl n, trivial⟩
  | .read x p, n, s, hf => by
    simp only [lower, eval, LowerSpec, run_nil]
    exact ⟨rfl, trivial, fun _ _ => trivial, hf, Nat.le_refl n, ⟨x, rfl⟩⟩
  | .ctor cs, n, s, hf => by
    obtain ⟨c1, c2, c3, c4, c5, c6⟩ := lowerComps_ok cs n s hf
    simp only [lower, eval, LowerSpec]
    generalize lowerComps true cs n = r at c1 c2 c3 c4 c5 c6 ⊢
    obtain ⟨code, vals, to⟩ := r
    simp only at c1 c2 c3 c4 c5 c6 ⊢
    have hto : (s.run code).tmps to = ofList [] := by simpa [ofList] using c4 to (Nat.le_refl to)
    obtain ⟨a1, a2, a3⟩ := assemble_ok to vals (s.run code) [] hto c6
    simp only [List.length_nil, List.nil_append] at a1 a2 a3
    rw [run_append]
    refine ⟨?_, ?_, ?_, ?_, by omega, ⟨to, rfl, Nat.lt_succ_self to⟩⟩
    · simp only [MS.evalVal, MS.var]; rw [a1, c1]
    · rw [a2, c2]
    · intro k hk; rw [a3 k (by omega), c3 k hk]
    · intro k hk; rw [a3 k (by omega)]; exact c4 k (by omega)
  | .add a b, n, s, hf => by
    simp only [lower, eval, LowerSpec]
    obtain ⟨a1, a2, a3, a4, a5, a6⟩ := lower_ok a n s hf
    generalize lower true a n = ra at a1 a2 a3 a4 a5 a6 ⊢
    obtain ⟨ca, va, na⟩ := ra
    simp only at a1 a2 a3 a4 a5 a6 ⊢
    obtain ⟨l1, l2, l3, l4, l5, ⟨tl, l6, l7⟩⟩ := assignToVar_ok va na (s.run ca) a4 a6
    generalize assignToVar va na = la at l1 l2 l3 l4 l5 l6 l7 ⊢
    obtain ⟨cl, xl, nl⟩ := la
    simp only at l1 l2 l3 l4 l5 l6 l7 ⊢
    subst l6
    obtain ⟨b1, b2, b3, b4, b5, b6⟩ := lower_ok b nl ((s.run ca).run cl) l4
    generalize lower true b nl = rb at b1 b2 b3 b4 b5 b6 ⊢
    obtain ⟨cb, vb, nb⟩ := rb
    simp only at b1 b2 b3 b4 b5 b6 ⊢
    obtain ⟨r1, r2, r3, r4, r5, ⟨tr, r6, r7⟩⟩ := assignToVar_ok vb nb (((s.run ca).run cl).run cb) b4 b6
    generalize assignToVar vb nb = lb at r1 r2 r3 r4 r5 r6 r7 ⊢
    obtain ⟨cr, xr, nr⟩ := lb
    simp only at r1 r2 r3 r4 r5 r6 r7 ⊢
    subst r6
    simp only [run_append]
    refine ⟨?_, ?_, ?_, r4, by omega, ⟨⟨tl, rfl, by omega⟩, ⟨tr, rfl, r7⟩⟩⟩
    · simp only [MS.evalVal]
      have hl : ((((s.run ca).run cl).run cb).run cr).var (.tmp tl) = (eval a s.users).1 := by
        simp only [MS.var] at l1 ⊢
        rw [r3 tl (by omega), b3 tl l7, l1, a1]
      rw [hl, r1, b1, l2, a2]
    · rw [r2, b2, l2, a2]
    · intro k hk
      rw [r3 k (by omega), b3 k (by omega), l3 k (by omega), a3 k hk]
  | .blk x p rhs rest, n, s, hf => by
    simp only [lower, eval, LowerSpec]
    obtain ⟨a1, a2, a3, a4, a5, a6⟩ := lower_ok rhs n s hf
    generalize lower true rhs n = r₁ at a1 a2 a3 a4 a5 a6 ⊢
    obtain ⟨c₁, v₁, t⟩ := r₁
    simp only at a1 a2 a3 a4 a5 a6 ⊢
    -- the three instructions of the assignment statement
    let s₁ := s.run c₁
    let s₂ := s₁.step ⟨⟨.tmp t, []⟩, v₁⟩
    let s₃ := s₂.step ⟨⟨.user x, p⟩, .move (.tmp t)⟩
    let s₄ := s₃.step ⟨⟨.tmp (t + 1), []⟩, .const .nil⟩
    obtain ⟨p1, p2, p3⟩ := step_tmp s₁ t v₁
    obtain ⟨q1, q2⟩ := step_user s₂ x p (.move (.tmp t))
    obtain ⟨u1, u2, u3⟩ := step_tmp s₃ (t + 1) (.const .nil)
    have h4users : s₄.users = (eval rhs s.users).2.write x p (eval rhs s.users).1 := by
      show (s₃.step _).users = _
      rw [u2]; show (s₂.step _).users = _
      rw [q1]; show (s₁.step _).users.write x p _ = _
      rw [p2]
      simp only [MS.evalVal, MS.var]
      show Store.write s₁.users x p ((s₁.step _).tmps t) = _
      rw [p1, a1, a2]
    have h4tmps : ∀ k, k ≠ t → k ≠ t + 1 → s₄.tmps k = s₁.tmps k := by
      intro k hk hk'
      show (s₃.step _).tmps k = _
      rw [u3 k hk']; show (s₂.step _).tmps k = _
      rw [q2]; show (s₁.step _).tmps k = _
      rw [p3 k hk]
    have h4fresh : Fresh s₄ (t + 1 + 1) := by
      intro k hk
      rw [h4tmps k (by omega) (by omega)]
      exact a4 k (by omega)
    obtain ⟨b1, b2, b3, b4, b5, b6⟩ := lower_ok rest (t + 1 + 1) s₄ h4fresh
    generalize lower true rest (t + 1 + 1) = r₂ at b1 b2 b3 b4 b5 b6 ⊢
    obtain ⟨c₂, v₂, n₂⟩ := r₂
    simp only at b1 b2 b3 b4 b5 b6 ⊢
    obtain ⟨f1, f2, f3, f4, f5, ⟨tf, f6, f7⟩⟩ := assignToVar_ok v₂ n₂ (s₄.run c₂) b4 b6
    generalize assignToVar v₂ n₂ = f at f1 f2 f3 f4 f5 f6 f7 ⊢
    obtain ⟨cf, xf, res⟩ := f
    simp only at f1 f2 f3 f4 f5 f6 f7 ⊢
    subst f6
    obtain ⟨g1, g2, g3⟩ := step_tmp ((s₄.run c₂).run cf) res (.move (.tmp tf))
    have hrun : s.run (c₁ ++ [⟨⟨.tmp t, []⟩, v₁⟩, ⟨⟨.user x, p⟩, .move (.tmp t)⟩, ⟨⟨.tmp (t + 1), []⟩, .const .nil⟩]
        ++ c₂ ++ cf ++ [⟨⟨.tmp res, []⟩, .move (.tmp tf)⟩]) =
        ((s₄.run c₂).run cf).step ⟨⟨.tmp res, []⟩, .move (.tmp tf)⟩ := by
      simp only [run_append, run_cons, run_nil]
      rfl
    rw [hrun]
    rw [h4users] at b1 b2
    refine ⟨?_, ?_, ?_, ?_, by omega, ⟨res, rfl, Nat.lt_succ_self res⟩⟩
    · simp only [MS.evalVal, MS.var]
      rw [g1]
      simp only [MS.evalVal]
      rw [f1, b1]
    · rw [g2, f2, b2]
    · intro k hk
      rw [g3 k (by omega), f3 k (by omega), b3 k (by omega), h4tmps k (by omega) (by omega)]
      exact a3 k hk
    · intro k hk
      rw [g3 k (by omega)]
      exact f4 k (by omega)
theorem lowerComps_ok : ∀ (cs : CEs) (n : Nat) (s : MS), Fresh s n →
    CompsSpec s n (lowerComps true cs n) (evals cs s.users)
  | .nil, n, s, hf => by
    simp only [lowerComps, evals, CompsSpec, run_nil]
    exact ⟨rfl, trivial, fun _ _ => trivial, hf, Nat.le_refl n, fun _ h => by simp at h⟩
  | .cons c cs, n, s, hf => by
    simp only [lowerComps, evals, CompsSpec, component_true]
    obtain ⟨a1, a2, a3, a4, a5, a6⟩ := lower_ok c n s hf
    generalize lower true c n = r₁ at a1 a2 a3 a4 a5 a6 ⊢
    obtain ⟨c₁, v₁, n₁⟩ := r₁
    simp only at a1 a2 a3 a4 a5 a6 ⊢
    obtain ⟨l1, l2, l3, l4, l5, ⟨tl, l6, l7⟩⟩ := assignToVar_ok v₁ n₁ (s.run c₁) a4 a6
    generalize assignToVar v₁ n₁ = m at l1 l2 l3 l4 l5 l6 l7 ⊢
    obtain ⟨cm, xm, nm⟩ := m
    simp only at l1 l2 l3 l4 l5 l6 l7 ⊢
    subst l6
    obtain ⟨b1, b2, b3, b4, b5, b6⟩ := lowerComps_ok cs nm ((s.run c₁).run cm) l4
    generalize lowerComps true cs nm = r₂ at b1 b2 b3 b4 b5 b6 ⊢
    obtain ⟨c₂, vs, n₂⟩ := r₂
    simp only at b1 b2 b3 b4 b5 b6 ⊢
    simp only [run_append]
    refine ⟨?_, ?_, ?_, b4, by omega, ?_⟩
    · simp only [List.map_cons, ofList, MS.evalVal]
      have hl : (((s.run c₁).run cm).run c₂).var (.tmp tl) = (eval c s.users).1 := by
        simp only [MS.var] at l1 ⊢
        rw [b3 tl l7, l1, a1]
      rw [hl, b1, l2, a2]
    · rw [b2, l2, a2]
    · intro k hk
      rw [b3 k (by omega), l3 k (by omega), a3 k hk]
    · intro v hv
      rcases List.mem_cons.1 hv with h | h
      · exact ⟨tl, h, by omega⟩
      · exact b6 v h
end

/-- the lowered BODY of a function (`function_like`) returns the spec's value
    and leaves the spec's store -/
theorem runBody_eq_eval (e : CE) (σ : Store) : runBody true e σ = eval e σ := by
  have hf : Fresh ⟨σ, fun _ => V.nil⟩ 0 := fun _ _ => rfl
  obtain ⟨a1, a2, _, a4, _, a6⟩ := lower_ok e 0 ⟨σ, fun _ => .nil⟩ hf
  simp only [runBody, lowerBody]
  generalize lower true e 0 = r at a1 a2 a4 a6 ⊢
  obtain ⟨c, v, n⟩ := r
  simp only at a1 a2 a4 a6 ⊢
  obtain ⟨f1, f2, _, _, _, _⟩ := assignToVar_ok v n (MS.run ⟨σ, fun _ => .nil⟩ c) a4 a6
  simp only [run_append]
  rw [f1, f2, a1, a2]

end RotoV.ValueCtor
