/-
  Helper lemmas for `Props/C01Dce.lean`: facts about `add`, `processBlock`,
  `setBlock`, `retain`, the truncation relation `Trunc`, and the simulation
  lemma `exec_sim`.
-/
import RotoV.Model.Dce

namespace RotoV.Dce

variable {ι κ ρ σ α : Type}

/-! ### `add` and friends only append, keep `Nodup`, and contain what was added -/

theorem add_ext (st : List Label) (l : Label) : ∃ ext, add st l = st ++ ext := by
  unfold add; split
  · exact ⟨[], by simp⟩
  · exact ⟨[l], rfl⟩

theorem mem_add_self (st : List Label) (l : Label) : l ∈ add st l := by
  unfold add; split
  · rename_i h; simpa using h
  · simp

theorem add_nodup {st : List Label} (l : Label) (h : st.Nodup) : (add st l).Nodup := by
  unfold add; split
  · exact h
  · rename_i hc
    have : l ∉ st := by simpa using hc
    rw [List.nodup_append]
    refine ⟨h, by simp, ?_⟩
    intro a ha b hb
    simp at hb; subst hb
    intro e; subst e; exact this ha

theorem mem_add_of_mem {st : List Label} {x : Label} (l : Label) (h : x ∈ st) : x ∈ add st l := by
  obtain ⟨ext, e⟩ := add_ext st l
  rw [e]; exact List.mem_append_left _ h

theorem addBranches_ext (st : List Label) (br : List (Nat × Label)) :
    ∃ ext, addBranches st br = st ++ ext := by
  induction br generalizing st with
  | nil => exact ⟨[], by simp [addBranches]⟩
  | cons p rest ih =>
    obtain ⟨k, l⟩ := p
    obtain ⟨e1, h1⟩ := add_ext st l
    obtain ⟨e2, h2⟩ := ih (add st l)
    exact ⟨e1 ++ e2, by rw [addBranches, h2, h1, List.append_assoc]⟩

theorem addBranches_nodup {st : List Label} (br : List (Nat × Label)) (h : st.Nodup) :
    (addBranches st br).Nodup := by
  induction br generalizing st with
  | nil => simpa [addBranches] using h
  | cons p rest ih =>
    obtain ⟨k, l⟩ := p
    exact ih (add_nodup l h)

theorem mem_addBranches_of_mem {st : List Label} {x : Label} (br : List (Nat × Label)) (h : x ∈ st) :
    x ∈ addBranches st br := by
  obtain ⟨ext, e⟩ := addBranches_ext st br
  rw [e]; exact List.mem_append_left _ h

theorem mem_addBranches (st : List Label) (br : List (Nat × Label)) :
    ∀ p ∈ br, p.2 ∈ addBranches st br := by
  induction br generalizing st with
  | nil => intro p hp; cases hp
  | cons q rest ih =>
    obtain ⟨k, l⟩ := q
    intro p hp
    rcases List.mem_cons.mp hp with e | hp
    · subst e
      exact mem_addBranches_of_mem rest (mem_add_self st l)
    · exact ih (add st l) p hp

theorem addDefault_ext (st : List Label) (d : Option Label) : ∃ ext, addDefault st d = st ++ ext := by
  cases d with
  | none => exact ⟨[], by simp [addDefault]⟩
  | some l => exact add_ext st l

theorem addDefault_nodup {st : List Label} (d : Option Label) (h : st.Nodup) : (addDefault st d).Nodup := by
  cases d with
  | none => simpa [addDefault] using h
  | some l => exact add_nodup l h

theorem mem_addDefault_of_mem {st : List Label} {x : Label} (d : Option Label) (h : x ∈ st) :
    x ∈ addDefault st d := by
  obtain ⟨ext, e⟩ := addDefault_ext st d
  rw [e]; exact List.mem_append_left _ h

/-! ### The truncation relation -/

/-- `Trunc st is is'`: `is'` is `is` cut after its first terminator, and every
    successor that terminator names is in `st`. -/
inductive Trunc (st : List Label) : List (Instr ι κ ρ) → List (Instr ι κ ρ) → Prop
  | other {i rest rest'} : Trunc st rest rest' → Trunc st (.other i :: rest) (.other i :: rest')
  | jump {l rest} : l ∈ st → Trunc st (.jump l :: rest) [.jump l]
  | switch {x br d rest} : (∀ p ∈ br, p.2 ∈ st) → (∀ l, d = some l → l ∈ st) →
      Trunc st (.switch x br d :: rest) [.switch x br d]
  | ret {v rest} : Trunc st (.ret v :: rest) [.ret v]

theorem Trunc.mono {st st' : List Label} {is is' : List (Instr ι κ ρ)}
    (hsub : ∀ x ∈ st, x ∈ st') (h : Trunc st is is') : Trunc st' is is' := by
  induction h with
  | other _ ih => exact .other ih
  | jump hl => exact .jump (hsub _ hl)
  | switch hb hd => exact .switch (fun p hp => hsub _ (hb p hp)) (fun l hl => hsub _ (hd l hl))
  | ret => exact .ret

/-- What `process_block` establishes. -/
theorem processBlock_spec {st st' : List Label} {is is' : List (Instr ι κ ρ)}
    (h : processBlock st is = some (st', is')) :
    Trunc st' is is' ∧ (∃ ext, st' = st ++ ext) ∧ (st.Nodup → st'.Nodup) := by
  induction is generalizing st' is' with
  | nil => simp [processBlock] at h
  | cons i rest ih =>
    cases i with
    | other x =>
      simp only [processBlock] at h
      split at h
      · rename_i st2 is2 heq
        simp only [Option.some.injEq, Prod.mk.injEq] at h
        obtain ⟨h1, h2⟩ := h
        subst h1; subst h2
        obtain ⟨t, e, n⟩ := ih heq
        exact ⟨.other t, e, n⟩
      · cases h
    | jump l =>
      simp only [processBlock, Option.some.injEq, Prod.mk.injEq] at h
      obtain ⟨h1, h2⟩ := h
      subst h1; subst h2
      exact ⟨.jump (mem_add_self st l), add_ext st l, add_nodup l⟩
    | switch x br d =>
      simp only [processBlock, Option.some.injEq, Prod.mk.injEq] at h
      obtain ⟨h1, h2⟩ := h
      subst h1; subst h2
      refine ⟨.switch ?_ ?_, ?_, ?_⟩
      · intro p hp
        exact mem_addDefault_of_mem d (mem_addBranches st br p hp)
      · intro l hl
        subst hl
        exact mem_add_self _ l
      · obtain ⟨e1, h1⟩ := addBranches_ext st br
        obtain ⟨e2, h2⟩ := addDefault_ext (addBranches st br) d
        exact ⟨e1 ++ e2, by rw [h2, h1, List.append_assoc]⟩
      · intro hn
        exact addDefault_nodup d (addBranches_nodup br hn)
    | ret v =>
      simp only [processBlock, Option.some.injEq, Prod.mk.injEq] at h
      obtain ⟨h1, h2⟩ := h
      subst h1; subst h2
      exact ⟨.ret, ⟨[], by simp⟩, id⟩

/-! ### `findBlock` through `setBlock` and `retain` -/

theorem findBlock_setBlock_same {cfg : Cfg ι κ ρ} {l : Label} {b : Block ι κ ρ}
    (is : List (Instr ι κ ρ)) (h : findBlock cfg l = some b) :
    findBlock (setBlock cfg l is) l = some { b with instrs := is } := by
  induction cfg with
  | nil => simp [findBlock] at h
  | cons c rest ih =>
    unfold findBlock at h ih ⊢
    simp only [setBlock]
    by_cases hc : (c.label == l) = true
    · simp only [hc, ↓reduceIte, List.find?_cons_of_pos]
      rw [List.find?_cons_of_pos (by simpa using hc)] at h
      simp only [Option.some.injEq] at h
      subst h
      first | rfl | rw [List.find?_cons_of_pos (by simpa using hc)]
    · simp only [hc, Bool.false_eq_true, ↓reduceIte]
      rw [List.find?_cons_of_neg (by simpa using hc)] at h ⊢
      exact ih h

theorem findBlock_setBlock_other {cfg : Cfg ι κ ρ} {l l' : Label}
    (is : List (Instr ι κ ρ)) (hne : l' ≠ l) :
    findBlock (setBlock cfg l is) l' = findBlock cfg l' := by
  induction cfg with
  | nil => simp [setBlock]
  | cons c rest ih =>
    unfold findBlock at ih ⊢
    simp only [setBlock]
    by_cases hc : (c.label == l) = true
    · have hcl : c.label = l := by simpa using hc
      simp only [hc, ↓reduceIte]
      have h1 : ¬ ((c.label == l') = true) := by
        intro h; have : c.label = l' := by simpa using h
        exact hne (by rw [← this, hcl])
      rw [List.find?_cons_of_neg (by simpa using h1), List.find?_cons_of_neg (by simpa using h1)]
    · simp only [hc, Bool.false_eq_true, ↓reduceIte]
      by_cases h2 : (c.label == l') = true
      · rw [List.find?_cons_of_pos (by simpa using h2), List.find?_cons_of_pos (by simpa using h2)]
      · rw [List.find?_cons_of_neg (by simpa using h2), List.find?_cons_of_neg (by simpa using h2)]
        exact ih

theorem setBlock_labels (cfg : Cfg ι κ ρ) (l : Label) (is : List (Instr ι κ ρ)) :
    (setBlock cfg l is).map (·.label) = cfg.map (·.label) := by
  induction cfg with
  | nil => rfl
  | cons c rest ih =>
    simp only [setBlock]
    split
    · simp
    · simp [ih]

theorem findBlock_retain {st : List Label} {cfg : Cfg ι κ ρ} {l : Label} (h : l ∈ st) :
    findBlock (retain st cfg) l = findBlock cfg l := by
  unfold findBlock retain
  induction cfg with
  | nil => rfl
  | cons c rest ih =>
    by_cases hk : st.contains c.label = true
    · rw [List.filter_cons_of_pos (by simpa using hk)]
      by_cases h2 : (c.label == l) = true
      · rw [List.find?_cons_of_pos (by simpa using h2), List.find?_cons_of_pos (by simpa using h2)]
      · rw [List.find?_cons_of_neg (by simpa using h2), List.find?_cons_of_neg (by simpa using h2)]
        exact ih
    · rw [List.filter_cons_of_neg (by simpa using hk)]
      have h2 : ¬ ((c.label == l) = true) := by
        intro h2
        have : c.label = l := by simpa using h2
        apply hk; rw [this]; simpa using h
      rw [List.find?_cons_of_neg (by simpa using h2)]
      exact ih

theorem mem_labels_of_findBlock {cfg : Cfg ι κ ρ} {l : Label} {b : Block ι κ ρ}
    (h : findBlock cfg l = some b) : l ∈ cfg.map (·.label) := by
  unfold findBlock at h
  have hm := List.mem_of_find?_eq_some h
  have hp := List.find?_some h
  have : b.label = l := by simpa using hp
  exact List.mem_map.mpr ⟨b, hm, this⟩

/-! ### Unfolding the worklist loop -/

theorem loop_done {i : Nat} {st : List Label} (cfg : Cfg ι κ ρ) (fuel : Nat) (h : ¬ i < st.length) :
    loop fuel i st cfg = .ok (st, cfg) := by
  cases fuel <;> simp [loop, h]

theorem loop_zero {i : Nat} {st : List Label} (cfg : Cfg ι κ ρ) (h : i < st.length) :
    loop 0 i st cfg = .fuel := by
  simp [loop, h]

theorem loop_succ {i : Nat} {st : List Label} (cfg : Cfg ι κ ρ) (f : Nat) (h : i < st.length) :
    loop (f + 1) i st cfg =
      match findBlock cfg st[i] with
      | none => .panic
      | some b =>
        match processBlock st b.instrs with
        | none => .panic
        | some (st', is) => loop f (i + 1) st' (setBlock cfg st[i] is) := by
  rw [loop, dif_pos h]
  cases findBlock cfg st[i] with
  | none => rfl
  | some b =>
    cases processBlock st b.instrs with
    | none => rfl
    | some r => rfl

theorem loop_succ_none {i : Nat} {st : List Label} (cfg : Cfg ι κ ρ) (f : Nat) (h : i < st.length)
    (hf : findBlock cfg st[i] = none) : loop (f + 1) i st cfg = .panic := by
  rw [loop_succ cfg f h, hf]

theorem loop_succ_ice {i : Nat} {st : List Label} (cfg : Cfg ι κ ρ) (f : Nat) (h : i < st.length)
    {b : Block ι κ ρ} (hf : findBlock cfg st[i] = some b) (hp : processBlock st b.instrs = none) :
    loop (f + 1) i st cfg = .panic := by
  rw [loop_succ cfg f h, hf]; simp only [hp]

theorem loop_succ_step {i : Nat} {st st' : List Label} (cfg : Cfg ι κ ρ) (f : Nat) (h : i < st.length)
    {b : Block ι κ ρ} {is : List (Instr ι κ ρ)} (hf : findBlock cfg st[i] = some b)
    (hp : processBlock st b.instrs = some (st', is)) :
    loop (f + 1) i st cfg = loop f (i + 1) st' (setBlock cfg st[i] is) := by
  rw [loop_succ cfg f h, hf]; simp only [hp]

/-! ### Simulation: truncated blocks execute identically -/

theorem select_mem {n : Nat} {br : List (Nat × Label)} {d : Option Label} {l : Label}
    (h : select n br d = some l) : (∃ p ∈ br, p.2 = l) ∨ d = some l := by
  unfold select at h
  split at h
  · rename_i p hp
    simp only [Option.some.injEq] at h
    exact .inl ⟨p, List.mem_of_find?_eq_some hp, h⟩
  · exact .inr h

/-- `cfg'` relates to `cfg` on the labels in `st`: same label ↦ truncated block,
    whose successors are again in `st`. -/
def Related (st : List Label) (cfg cfg' : Cfg ι κ ρ) : Prop :=
  ∀ l ∈ st, ∃ b b', findBlock cfg l = some b ∧ findBlock cfg' l = some b' ∧ Trunc st b.instrs b'.instrs

theorem exec_sim (sem : Sem ι κ ρ σ α) {st : List Label} {cfg cfg' : Cfg ι κ ρ}
    (hr : Related st cfg cfg') :
    ∀ (fuel : Nat) (is is' : List (Instr ι κ ρ)) (s : σ), Trunc st is is' →
      exec sem cfg' fuel is' s = exec sem cfg fuel is s := by
  intro fuel
  induction fuel with
  | zero => intro is is' s _; simp [exec]
  | succ f ih =>
    intro is is' s ht
    cases ht with
    | other t =>
      simp only [exec]
      split
      · exact ih _ _ _ t
      · rfl
    | jump hl =>
      obtain ⟨b, b', h1, h2, t⟩ := hr _ hl
      simp only [exec, h1, h2]
      exact ih _ _ _ t
    | @switch x br d rest hb hd =>
      simp only [exec]
      cases hsel : select (sem.scrut x s) br d with
      | none => rfl
      | some l =>
        have hl : l ∈ st := by
          rcases select_mem hsel with ⟨p, hp, e⟩ | e
          · rw [← e]; exact hb p hp
          · exact hd l e
        obtain ⟨b, b', h1, h2, t⟩ := hr _ hl
        simp only [h1, h2]
        exact ih _ _ _ t
    | ret => simp [exec]

/-! ### The worklist loop: invariant, termination bound -/

/-- Invariant of the worklist loop, relative to the original blocks `cfg0`:
    the first `i` labels of the state have been processed (their block is the
    truncation of the original one, successors recorded in the state), every
    other block is untouched, the state has no duplicates. -/
structure Inv (cfg0 : Cfg ι κ ρ) (i : Nat) (st : List Label) (cfg : Cfg ι κ ρ) : Prop where
  le : i ≤ st.length
  nodup : st.Nodup
  processed : ∀ l ∈ st.take i, ∃ b b', findBlock cfg0 l = some b ∧ findBlock cfg l = some b' ∧
    Trunc st b.instrs b'.instrs
  untouched : ∀ l, l ∉ st.take i → findBlock cfg l = findBlock cfg0 l
  labels : cfg.map (·.label) = cfg0.map (·.label)

theorem getElem_not_mem_take {st : List Label} (hn : st.Nodup) {i : Nat} (h : i < st.length) :
    st[i] ∉ st.take i := by
  intro hm
  obtain ⟨j, hj, e⟩ := List.mem_take_iff_getElem.mp hm
  have hji : j < i := by omega
  have hjl : j < st.length := by omega
  have := (List.getElem_inj hn).mp e
  omega

/-- One iteration keeps the invariant. -/
theorem Inv.step {cfg0 cfg : Cfg ι κ ρ} {i : Nat} {st st' : List Label}
    {b : Block ι κ ρ} {is : List (Instr ι κ ρ)}
    (inv : Inv cfg0 i st cfg) (h : i < st.length)
    (hf : findBlock cfg st[i] = some b) (hp : processBlock st b.instrs = some (st', is)) :
    Inv cfg0 (i + 1) st' (setBlock cfg st[i] is) ∧ ∃ ext, st' = st ++ ext := by
  obtain ⟨ht, ⟨ext, he⟩, hnd⟩ := processBlock_spec hp
  have hsub : ∀ x ∈ st, x ∈ st' := fun x hx => by rw [he]; exact List.mem_append_left _ hx
  have hnot := getElem_not_mem_take inv.nodup h
  have hf0 : findBlock cfg0 st[i] = some b := by rw [← inv.untouched _ hnot]; exact hf
  have htake : st'.take (i + 1) = st.take i ++ [st[i]] := by
    rw [he, List.take_append_of_le_length (by omega), List.take_succ_eq_append_getElem h]
  refine ⟨⟨?_, hnd inv.nodup, ?_, ?_, ?_⟩, ext, he⟩
  · rw [he, List.length_append]; omega
  · intro l hl
    rw [htake] at hl
    rcases List.mem_append.mp hl with hl | hl
    · have hne : l ≠ st[i] := fun e => hnot (e ▸ hl)
      obtain ⟨b0, b1, h0, h1, t⟩ := inv.processed l hl
      exact ⟨b0, b1, h0, by rw [findBlock_setBlock_other is hne]; exact h1, t.mono hsub⟩
    · have : l = st[i] := by simpa using hl
      subst this
      exact ⟨b, { b with instrs := is }, hf0, findBlock_setBlock_same is hf, ht⟩
  · intro l hl
    rw [htake] at hl
    have h1 : l ∉ st.take i := fun h => hl (List.mem_append_left _ h)
    have h2 : l ≠ st[i] := fun e => hl (List.mem_append_right _ (by simp [e]))
    rw [findBlock_setBlock_other is h2]
    exact inv.untouched l h1
  · rw [setBlock_labels]; exact inv.labels

/-- The processed labels are distinct labels of blocks, so there are at most
    `cfg0.length` of them (the termination measure of the Rust `while`). -/
theorem Inv.bound {cfg0 cfg : Cfg ι κ ρ} {i : Nat} {st : List Label}
    (inv : Inv cfg0 i st cfg) : i ≤ cfg0.length := by
  have hn : (st.take i).Nodup := List.Nodup.sublist (List.take_sublist i st) inv.nodup
  have hs : st.take i ⊆ cfg0.map (·.label) := by
    intro l hl
    obtain ⟨b0, _, h0, _, _⟩ := inv.processed l hl
    exact mem_labels_of_findBlock h0
  have := List.Nodup.length_le_of_subset hn hs
  rw [List.length_take, List.length_map] at this
  have := inv.le
  omega

/-- The loop with enough fuel never runs out of it; when it finishes, every
    label of the final state has been processed. -/
theorem loop_spec (cfg0 : Cfg ι κ ρ) :
    ∀ (fuel i : Nat) (st : List Label) (cfg : Cfg ι κ ρ),
      Inv cfg0 i st cfg → cfg0.length + 1 ≤ i + fuel →
      match loop fuel i st cfg with
      | .ok (st', cfg') => Inv cfg0 st'.length st' cfg' ∧ ∃ ext, st' = st ++ ext
      | .panic => True
      | .fuel => False := by
  intro fuel
  induction fuel with
  | zero =>
    intro i st cfg inv hfuel
    have := inv.bound
    have := inv.le
    have hnl : ¬ i < st.length := by omega
    rw [loop_done cfg 0 hnl]
    have : i = st.length := by omega
    subst this
    exact ⟨inv, [], by simp⟩
  | succ f ih =>
    intro i st cfg inv hfuel
    by_cases h : i < st.length
    · cases hf : findBlock cfg st[i] with
      | none => rw [loop_succ_none cfg f h hf]; trivial
      | some b =>
        cases hp : processBlock st b.instrs with
        | none => rw [loop_succ_ice cfg f h hf hp]; trivial
        | some r =>
          obtain ⟨st', is⟩ := r
          obtain ⟨inv', ext, he⟩ := inv.step h hf hp
          have := ih (i + 1) st' (setBlock cfg st[i] is) inv' (by omega)
          rw [loop_succ_step cfg f h hf hp]
          split at this
          · obtain ⟨i2, ext2, he2⟩ := this
            exact ⟨i2, ext ++ ext2, by rw [he2, he, List.append_assoc]⟩
          · trivial
          · exact this.elim
    · rw [loop_done cfg (f + 1) h]
      have := inv.le
      have : i = st.length := by omega
      subst this
      exact ⟨inv, [], by simp⟩

theorem inv_init (b : Block ι κ ρ) (rest : Cfg ι κ ρ) :
    Inv (b :: rest) 0 [b.label] (b :: rest) :=
  ⟨by simp, by simp, by simp, fun _ _ => rfl, rfl⟩

end RotoV.Dce
