/-
  Lemmas about the specification of use-tree flattening (`RotoV/Model/UseTree.lean`):
  `paths` against the relational reading `Leaf` of "root-to-leaf path", the
  number of paths, and the absence of the empty path.  Nothing here mentions
  the generated function; `Props/C18.lean` ties it to `flattenSpec`.
-/
import RotoV.Model.UseTree

namespace RotoV.Use

mutual
theorem mem_paths_iff (t : UseTree) (p : Path) : p ∈ paths t ↔ Leaf t p := by
  cases t with
  | path i t =>
    simp only [paths, List.mem_map]
    constructor
    · rintro ⟨q, hq, rfl⟩
      exact .path i t q ((mem_paths_iff t q).mp hq)
    · intro h
      cases h with
      | path _ _ q hq => exact ⟨q, (mem_paths_iff t q).mpr hq, rfl⟩
  | name i =>
    simp only [paths]
    split
    · next h =>
      subst h
      simp only [List.mem_singleton]
      constructor
      · rintro rfl; exact .self
      · intro h
        cases h with
        | name _ hne => exact absurd rfl hne
        | self => rfl
    · next h =>
      simp only [List.mem_singleton]
      constructor
      · rintro rfl; exact .name i h
      · intro h'
        cases h' with
        | name _ _ => rfl
        | self => exact absurd rfl h
  | rename a b => simp only [paths, List.not_mem_nil, false_iff]; intro h; cases h
  | glob => simp only [paths, List.not_mem_nil, false_iff]; intro h; cases h
  | group ts =>
    simp only [paths]
    constructor
    · intro h; exact .group ts p ((mem_pathsAll_iff ts p).mp h)
    · intro h
      cases h with
      | group _ _ h => exact (mem_pathsAll_iff ts p).mpr h
theorem mem_pathsAll_iff (ts : UseTrees) (p : Path) : p ∈ pathsAll ts ↔ LeafAny ts p := by
  cases ts with
  | nil => simp only [pathsAll, List.not_mem_nil, false_iff]; intro h; cases h
  | cons t ts =>
    simp only [pathsAll, List.mem_append]
    constructor
    · rintro (h | h)
      · exact .here t ts p ((mem_paths_iff t p).mp h)
      · exact .there t ts p ((mem_pathsAll_iff ts p).mp h)
    · intro h
      cases h with
      | here _ _ _ h => exact .inl ((mem_paths_iff t p).mpr h)
      | there _ _ _ h => exact .inr ((mem_pathsAll_iff ts p).mpr h)
end

mutual
theorem length_paths (t : UseTree) : (paths t).length = leaves t := by
  cases t with
  | path i t => simp only [paths, leaves, List.length_map]; exact length_paths t
  | name i => simp only [paths, leaves]; split <;> rfl
  | rename a b => rfl
  | glob => rfl
  | group ts => simp only [paths, leaves]; exact length_pathsAll ts
theorem length_pathsAll (ts : UseTrees) : (pathsAll ts).length = leavesAll ts := by
  cases ts with
  | nil => rfl
  | cons t ts => simp only [pathsAll, leavesAll, List.length_append, length_paths t, length_pathsAll ts]
end

mutual
/-- the empty path comes out exactly for a `self` that no segment leads to -/
theorem nil_mem_paths_iff (t : UseTree) : [] ∈ paths t ↔ selfAtRoot t = true := by
  cases t with
  | path i t => simp [paths, selfAtRoot]
  | name i => simp only [paths, selfAtRoot]; split <;> simp_all
  | rename a b => simp [paths, selfAtRoot]
  | glob => simp [paths, selfAtRoot]
  | group ts => simpa [paths, selfAtRoot] using nil_mem_pathsAll_iff ts
theorem nil_mem_pathsAll_iff (ts : UseTrees) : [] ∈ pathsAll ts ↔ selfAtRootAny ts = true := by
  cases ts with
  | nil => simp [pathsAll, selfAtRootAny]
  | cons t ts =>
    simp only [pathsAll, selfAtRootAny, List.mem_append, Bool.or_eq_true,
      nil_mem_paths_iff t, nil_mem_pathsAll_iff ts]
end

theorem paths_ne_nil (t : UseTree) (h : selfAtRoot t = false) : ∀ p ∈ paths t, p ≠ [] := by
  intro p hp hnil
  subst hnil
  have := (nil_mem_paths_iff t).mp hp
  simp [h] at this

/-- the bound names of the paths of a tree are the last segments, one per leaf -/
theorem bindings_length (t : UseTree) (h : selfAtRoot t = false) :
    (bindings (paths t)).length = leaves t := by
  have hne := paths_ne_nil t h
  rw [← length_paths t]
  unfold bindings
  generalize paths t = ps at hne
  induction ps with
  | nil => rfl
  | cons p ps ih =>
    have hp : p ≠ [] := hne p (List.mem_cons_self ..)
    have ih' := ih (fun q hq => hne q (List.mem_cons_of_mem _ hq))
    cases hl : p.getLast? with
    | none => exact absurd (List.getLast?_eq_none_iff.mp hl) hp
    | some l => simp [hl, ih']

end RotoV.Use
