/-
  ListRaw: every `RawList` operation of the model, as written (loops, index
  arithmetic, `unwrap`s), computes the corresponding `List` function on the
  initialised part of the buffer and keeps the representation invariant
  `RawOk` (C15, T1/T2).
-/
import RotoV.Lemmas.ListCap

namespace RotoV.ListM
open RotoV

theorem newRaw_ok (sz : Nat) :
    ∃ l, newRaw sz = .ok l ∧ l.len = 0 ∧ l.elems = [] ∧ l.locked = false ∧ l.rc = 1 ∧ RawOk sz l := by
  unfold newRaw
  by_cases hz : sz = 0
  · simp only [hz, if_true]
    exact ⟨_, rfl, rfl, rfl, rfl, rfl,
      ⟨rfl, Nat.zero_le _, Nat.le_refl _, fun _ => rfl, fun h => absurd rfl h⟩⟩
  · simp only [hz, if_false]
    have hc : computeCapacity sz 0 = .ok 0 := by
      unfold computeCapacity; rw [compute_capacity_eq]; simp [liftRes]
    refine ⟨{ len := 0, cap := 0, elems := [], locked := false, rc := 1 }, ?_, rfl, rfl, rfl, rfl, ?_⟩
    · unfold reserve checkedAdd
      simp [hz, hc, reserve_grows_eq]
    · exact ⟨rfl, Nat.le_refl _, Nat.zero_le _, fun h => absurd h hz, fun _ => Or.inl rfl⟩

theorem rawPush_ok {sz : Nat} {l l' : RawList} {v : Nat}
    (h : rawPush sz l v = .ok l') (ok : RawOk sz l) :
    l'.elems = l.elems ++ [v] ∧ l'.len = l.len + 1 ∧ l'.locked = l.locked ∧ l'.rc = l.rc ∧
      l.cap ≤ l'.cap ∧ RawOk sz l' := by
  unfold rawPush at h
  simp only [push_reserve_eq, push_len_add_eq] at h
  by_cases hz : sz > 0
  · simp only [hz, if_true] at h
    cases hr : reserve sz l 1 with
    | error f => simp [hr] at h
    | ok l1 =>
      simp only [hr] at h
      have ⟨h1, h2, h3, h4, h5, h6, ok1⟩ := reserve_ok hr ok
      have h6 := h6 (by omega)
      by_cases hb : l1.len + 1 > usizeMax
      · simp [hb] at h
      · simp only [hb, if_false] at h
        injection h with h
        subst h
        have hw := ok.wf
        refine ⟨?_, by simp [h1], by simp [h3], by simp [h4], by simpa using h5, ?_⟩
        · simp [h2, h1, ← hw]
        · refine ⟨?_, by simp; omega, by simpa using ok1.bound, by simpa using ok1.zst, by simpa using ok1.shape⟩
          simp [h2, h1, ← hw]
  · have hz0 : sz = 0 := by omega
    simp only [hz, if_false] at h
    by_cases hb : l.len + 1 > usizeMax
    · simp [hb] at h
    · simp only [hb, if_false] at h
      injection h with h
      subst h
      have hw := ok.wf
      have hc := ok.zst hz0
      refine ⟨by simp [← hw], rfl, rfl, rfl, Nat.le_refl _, ?_⟩
      refine ⟨by simp [← hw], by simp; omega, ok.bound, by simpa using ok.zst, by simpa using ok.shape⟩

theorem rawPush_error {sz : Nat} {l : RawList} {v : Nat} {f : Fault}
    (h : rawPush sz l v = .error f) (ok : RawOk sz l) :
    f = .panic ∧ usizeMax < nextPow2 (l.len + 1) := by
  unfold rawPush at h
  simp only [push_reserve_eq, push_len_add_eq] at h
  by_cases hz : sz > 0
  · simp only [hz, if_true] at h
    cases hr : reserve sz l 1 with
    | error g =>
      simp only [hr] at h
      injection h with h
      subst h
      exact ⟨(reserve_error hr).1, (reserve_error hr).2.2⟩
    | ok l1 =>
      simp only [hr] at h
      have ⟨h1, _, _, _, _, h6, ok1⟩ := reserve_ok hr ok
      have h6 := h6 (by omega)
      have := ok1.bound
      by_cases hb : l1.len + 1 > usizeMax
      · omega
      · simp [hb] at h
  · simp only [hz, if_false] at h
    by_cases hb : l.len + 1 > usizeMax
    · simp only [hb, if_true] at h
      injection h with h
      refine ⟨h.symm, ?_⟩
      have := le_nextPow2 (l.len + 1)
      omega
    · simp [hb] at h

theorem rawGet_eq {l : RawList} (hw : l.elems.length = l.len) (i : Nat) :
    rawGet l i = .ok l.elems[i]? := by
  unfold rawGet
  rw [get_oob_eq]
  by_cases h : i ≥ l.len
  · simp only [h, decide_true, if_true]
    rw [List.getElem?_eq_none (by omega)]
  · simp only [h, decide_false, Bool.false_eq_true, if_false]
    have hi : i < l.elems.length := by omega
    rw [List.getElem?_eq_getElem hi]

theorem drop_cons_of_lt {xs : List Nat} {i : Nat} (hi : i < xs.length) :
    ∃ x, xs[i]? = some x ∧ xs.drop i = x :: xs.drop (i + 1) :=
  ⟨xs[i], List.getElem?_eq_getElem hi, List.drop_eq_getElem_cons hi⟩

theorem containsLoop_eq {l : RawList} (hw : l.elems.length = l.len) (v : Nat) :
    ∀ n i, i + n = l.len → containsLoop l v i n = .ok (anyEq v (l.elems.drop i))
  | 0, i, h => by
    have : l.elems.drop i = [] := List.drop_eq_nil_of_le (by omega)
    simp [containsLoop, this, anyEq]
  | n + 1, i, h => by
    obtain ⟨x, hx, hd⟩ := drop_cons_of_lt (xs := l.elems) (i := i) (by omega)
    unfold containsLoop
    rw [rawGet_eq hw, hx, hd]
    simp only []
    by_cases he : elemEq x v = true
    · simp [he, anyEq]
    · rw [if_neg he, containsLoop_eq hw v n (i + 1) (by omega)]
      have he' : elemEq x v = false := by simpa using he
      simp [anyEq, he']

theorem rawContains_eq {l : RawList} (hw : l.elems.length = l.len) (v : Nat) :
    rawContains l v = .ok (anyEq v l.elems) := by
  unfold rawContains
  rw [contains_loop_count_eq, containsLoop_eq hw v l.len 0 (by omega)]
  simp

theorem indexLoop_eq {l : RawList} (hw : l.elems.length = l.len) (v : Nat) :
    ∀ n i, i + n = l.len → indexLoop l v i n = .ok (firstIdx v (l.elems.drop i) i)
  | 0, i, h => by
    have : l.elems.drop i = [] := List.drop_eq_nil_of_le (by omega)
    simp [indexLoop, this, firstIdx]
  | n + 1, i, h => by
    obtain ⟨x, hx, hd⟩ := drop_cons_of_lt (xs := l.elems) (i := i) (by omega)
    unfold indexLoop
    rw [rawGet_eq hw, hx, hd]
    simp only []
    by_cases he : elemEq x v = true
    · simp [he, firstIdx]
    · rw [if_neg he, indexLoop_eq hw v n (i + 1) (by omega)]
      simp [firstIdx, he]

theorem rawIndex_eq {l : RawList} (hw : l.elems.length = l.len) (v : Nat) :
    rawIndex l v = .ok (firstIdx v l.elems 0) := by
  unfold rawIndex
  rw [index_loop_count_eq, indexLoop_eq hw v l.len 0 (by omega)]
  simp

/-! ### element equality: plain values compare by identity -/

theorem elemEq_plain {x y : Nat} (h : x < f64Base ∨ y < f64Base) : elemEq x y = (x == y) := by
  unfold elemEq
  have : ¬ (f64Base ≤ x ∧ f64Base ≤ y) := by omega
  rw [if_neg this]

theorem listEq_length : ∀ {xs ys : List Nat}, listEq xs ys = true → xs.length = ys.length
  | [], [], _ => rfl
  | [], _ :: _, h => by simp [listEq] at h
  | _ :: _, [], h => by simp [listEq] at h
  | x :: xs, y :: ys, h => by
    simp only [listEq, Bool.and_eq_true] at h
    simp [listEq_length h.2]

/-- a list is equal to itself iff each of its elements is (no NaN in it) -/
theorem listEq_self : ∀ (xs : List Nat), listEq xs xs = xs.all (fun e => elemEq e e)
  | [] => rfl
  | x :: xs => by simp [listEq, listEq_self xs]

/-- on plain element values (`u8`, `u64`, string / token ids, handles) the `==`
    of two lists is equality of the sequences -/
theorem listEq_plain : ∀ {xs ys : List Nat}, (∀ x ∈ xs, x < f64Base) →
    listEq xs ys = decide (xs = ys)
  | [], [], _ => by simp [listEq]
  | [], _ :: _, _ => by simp [listEq]
  | _ :: _, [], _ => by simp [listEq]
  | x :: xs, y :: ys, h => by
    have hx : x < f64Base := h x (by simp)
    have ih := listEq_plain (xs := xs) (ys := ys) (fun z hz => h z (by simp [hz]))
    simp only [listEq, elemEq_plain (Or.inl hx), ih]
    by_cases hxy : x = y <;> by_cases hl : xs = ys <;> simp [hxy, hl]

theorem anyEq_plain {v : Nat} (hv : v < f64Base) (xs : List Nat) : anyEq v xs = xs.contains v := by
  induction xs with
  | nil => simp [anyEq]
  | cons x xs ih =>
    simp only [anyEq, List.any_cons, List.contains_cons] at ih ⊢
    rw [ih, elemEq_plain (Or.inr hv)]
    by_cases hxv : x = v
    · subst hxv; simp
    · have h1 : (x == v) = false := by simp [hxv]
      have h2 : (v == x) = false := by simp [Ne.symm hxv]
      simp [h1, h2]

theorem firstIdx_plain {v : Nat} (hv : v < f64Base) : ∀ (xs : List Nat) (i : Nat),
    firstIdx v xs i = if xs.contains v then some (i + xs.idxOf v) else none
  | [], i => by simp [firstIdx]
  | x :: xs, i => by
    unfold firstIdx
    rw [elemEq_plain (Or.inr hv)]
    by_cases he : x = v
    · subst he; simp [List.idxOf_cons]
    · have hne : (x == v) = false := by simp [he]
      have hne' : (v == x) = false := by simp [Ne.symm he]
      simp only [hne, Bool.false_eq_true, if_false]
      rw [firstIdx_plain hv xs (i + 1), List.contains_cons, hne', Bool.false_or, List.idxOf_cons, hne]
      by_cases hc : xs.contains v = true
      · simp only [hc, if_true, cond_false, Option.some.injEq]; omega
      · simp only [hc, Bool.false_eq_true, if_false]

theorem eqLoop_eq {a b : RawList} (ha : a.elems.length = a.len) (hb : b.elems.length = b.len)
    (hl : a.len = b.len) :
    ∀ n i, i + n = a.len → eqLoop a b i n = .ok (listEq (a.elems.drop i) (b.elems.drop i))
  | 0, i, h => by
    have h1 : a.elems.drop i = [] := List.drop_eq_nil_of_le (by omega)
    have h2 : b.elems.drop i = [] := List.drop_eq_nil_of_le (by omega)
    simp [eqLoop, h1, h2, listEq]
  | n + 1, i, h => by
    obtain ⟨x, hx, hda⟩ := drop_cons_of_lt (xs := a.elems) (i := i) (by omega)
    obtain ⟨y, hy, hdb⟩ := drop_cons_of_lt (xs := b.elems) (i := i) (by omega)
    unfold eqLoop
    rw [rawGet_eq ha, rawGet_eq hb, hx, hy, hda, hdb]
    simp only []
    by_cases he : elemEq x y = true
    · rw [if_pos he, eqLoop_eq ha hb hl n (i + 1) (by omega)]
      simp [listEq, he]
    · rw [if_neg he]
      have he' : elemEq x y = false := by simpa using he
      simp [listEq, he']

theorem rawEqErased_eq {a b : RawList} (ha : a.elems.length = a.len) (hb : b.elems.length = b.len) :
    rawEqErased a b = .ok (listEq a.elems b.elems) := by
  unfold rawEqErased
  rw [eq_len_differs_eq]
  by_cases hl : a.len = b.len
  · simp only [hl, ne_eq, not_true_eq_false, decide_false, Bool.false_eq_true, if_false]
    have := eqLoop_eq ha hb hl a.len 0 (by omega)
    simp only [List.drop_zero] at this
    rw [eq_loop_count_eq a b hl]; exact this
  · have hne : listEq a.elems b.elems = false := by
      cases hq : listEq a.elems b.elems with
      | false => rfl
      | true => exact absurd (by rw [← ha, ← hb]; exact listEq_length hq) hl
    simp [hl, hne]

theorem readAll_eq {l : RawList} (hw : l.elems.length = l.len) : readAll l = .ok l.elems := by
  unfold readAll
  have : ¬ l.elems.length < l.len := by omega
  simp only [this, if_false]
  rw [← hw, List.take_length]

theorem rawEqTyped_eq {a b : RawList} (ha : a.elems.length = a.len) (hb : b.elems.length = b.len) :
    rawEqTyped a b = .ok (listEq a.elems b.elems) := by
  unfold rawEqTyped
  rw [readAll_eq ha, readAll_eq hb]

theorem iterLoop_eq {l : RawList} (hw : l.elems.length = l.len) :
    ∀ n i, i + n = l.len + 1 → i ≤ l.len → iterLoop l i n = .ok (l.elems.drop i)
  | 0, i, h, hi => by omega
  | n + 1, i, h, _ => by
    unfold iterLoop
    rw [rawGet_eq hw]
    by_cases hi : i < l.elems.length
    · obtain ⟨x, hx, hd⟩ := drop_cons_of_lt hi
      rw [hx, hd]
      simp only []
      rw [iterLoop_eq hw n (i + 1) (by omega) (by omega)]
    · rw [List.getElem?_eq_none (by omega), List.drop_eq_nil_of_le (by omega)]

theorem swapElems_length (xs : List Nat) (i j : Nat) : (swapElems xs i j).length = xs.length := by
  unfold swapElems
  split <;> simp

theorem swapElems_oob {xs : List Nat} {i j : Nat} (h : xs.length ≤ i ∨ xs.length ≤ j) :
    swapElems xs i j = xs := by
  unfold swapElems
  rcases h with h | h
  · rw [List.getElem?_eq_none h]
  · rw [List.getElem?_eq_none h]
    cases xs[i]? <;> rfl

theorem swapElems_same {xs : List Nat} {j : Nat} : swapElems xs j j = xs := by
  unfold swapElems
  by_cases hj : j < xs.length
  · rw [List.getElem?_eq_getElem hj]
    simp
  · rw [List.getElem?_eq_none (by omega)]

theorem rawSwap_ok {sz : Nat} {l : RawList} (i j : Nat) (ok : RawOk sz l) :
    (rawSwap l i j).elems = swapElems l.elems i j ∧ (rawSwap l i j).len = l.len ∧
      (rawSwap l i j).cap = l.cap ∧ (rawSwap l i j).locked = l.locked ∧ (rawSwap l i j).rc = l.rc ∧
      RawOk sz (rawSwap l i j) := by
  have hw := ok.wf
  unfold rawSwap
  rw [swap_noop_eq]
  by_cases h1 : i ≥ l.len ∨ j ≥ l.len ∨ i = j
  · rw [decide_eq_true h1, if_pos rfl]
    refine ⟨?_, rfl, rfl, rfl, rfl, ok⟩
    rcases h1 with h1 | h1 | h1
    · exact (swapElems_oob (by omega)).symm
    · exact (swapElems_oob (by omega)).symm
    · rw [h1]; exact swapElems_same.symm
  · rw [decide_eq_false h1, if_neg (by simp)]
    refine ⟨rfl, rfl, rfl, rfl, rfl, ?_⟩
    exact ⟨by simp [swapElems_length, hw], ok.le, ok.bound, ok.zst, ok.shape⟩

theorem rawExtend_ok {sz : Nat} {s o s' : RawList}
    (h : rawExtend sz s o = .ok s') (oks : RawOk sz s) (oko : RawOk sz o) :
    s'.elems = s.elems ++ o.elems ∧ s'.len = s.len + o.len ∧ s'.locked = s.locked ∧ s'.rc = s.rc ∧
      s.cap ≤ s'.cap ∧ RawOk sz s' := by
  have hws := oks.wf
  have hwo := oko.wf
  unfold rawExtend at h
  simp only [extend_reserve_eq, extend_len_add_eq, RawList.view] at h
  rw [readAll_eq hwo] at h
  by_cases hz : sz = 0
  · simp only [hz, if_true] at h
    by_cases hb : s.len + o.len > usizeMax
    · simp [hb] at h
    · simp only [hb, if_false] at h
      injection h with h
      subst h
      have hc := oks.zst hz
      refine ⟨by simp [← hws], rfl, rfl, rfl, Nat.le_refl _, ?_⟩
      exact ⟨by simp [← hws, hwo], by simp; omega, oks.bound, by simpa using oks.zst, by simpa using oks.shape⟩
  · simp only [hz, if_false] at h
    by_cases he : o.len = 0
    · simp only [he, if_true] at h
      injection h with h
      subst h
      have : o.elems = [] := List.eq_nil_of_length_eq_zero (by omega)
      exact ⟨by simp [this], by omega, rfl, rfl, Nat.le_refl _, oks⟩
    · simp only [he, if_false] at h
      cases hr : reserve sz s o.len with
      | error f => simp [hr] at h
      | ok s1 =>
        simp only [hr] at h
        injection h with h
        subst h
        have ⟨h1, h2, h3, h4, h5, h6, ok1⟩ := reserve_ok hr oks
        have h6 := h6 hz
        refine ⟨by simp [h2, h1, ← hws], by simp [h1], by simp [h3], by simp [h4], by simpa using h5, ?_⟩
        exact ⟨by simp [h2, h1, ← hws, hwo], by simp; omega, by simpa using ok1.bound,
          by simpa using ok1.zst, by simpa using ok1.shape⟩

theorem rawExtend_error {sz : Nat} {s o : RawList} {f : Fault}
    (h : rawExtend sz s o = .error f) (oks : RawOk sz s) (oko : RawOk sz o) :
    f = .panic ∧ usizeMax < nextPow2 (s.len + o.len) := by
  have hwo := oko.wf
  unfold rawExtend at h
  simp only [extend_reserve_eq, extend_len_add_eq, RawList.view] at h
  rw [readAll_eq hwo] at h
  by_cases hz : sz = 0
  · simp only [hz, if_true] at h
    by_cases hb : s.len + o.len > usizeMax
    · simp only [hb, if_true] at h
      injection h with h
      refine ⟨h.symm, ?_⟩
      have := le_nextPow2 (s.len + o.len)
      omega
    · simp [hb] at h
  · simp only [hz, if_false] at h
    by_cases he : o.len = 0
    · simp [he] at h
    · simp only [he, if_false] at h
      cases hr : reserve sz s o.len with
      | error g =>
        simp only [hr] at h
        injection h with h
        subst h
        exact ⟨(reserve_error hr).1, (reserve_error hr).2.2⟩
      | ok s1 => simp [hr] at h

theorem pushAll_ok {sz : Nat} : ∀ (xs : List Nat) {l l' : RawList},
    pushAll sz l xs = .ok l' → RawOk sz l →
    l'.elems = l.elems ++ xs ∧ l'.len = l.len + xs.length ∧ l'.locked = l.locked ∧ l'.rc = l.rc ∧ RawOk sz l'
  | [], l, l', h, ok => by
    simp [pushAll] at h; subst h; simp [ok]
  | v :: vs, l, l', h, ok => by
    unfold pushAll at h
    cases hp : rawPush sz l v with
    | error f => simp [hp] at h
    | ok l1 =>
      simp only [hp] at h
      have ⟨e1, e2, e3, e4, _, ok1⟩ := rawPush_ok hp ok
      have ⟨f1, f2, f3, f4, ok2⟩ := pushAll_ok vs h ok1
      refine ⟨by simp [f1, e1], by simp [f2, e2]; omega, by simp [f3, e3], by simp [f4, e4], ok2⟩

theorem pushAll_error {sz : Nat} : ∀ (xs : List Nat) {l : RawList} {f : Fault},
    pushAll sz l xs = .error f → RawOk sz l →
    f = .panic ∧ ∃ k, k ≤ xs.length ∧ usizeMax < nextPow2 (l.len + k)
  | [], l, f, h, ok => by simp [pushAll] at h
  | v :: vs, l, f, h, ok => by
    unfold pushAll at h
    cases hp : rawPush sz l v with
    | error g =>
      simp only [hp] at h
      injection h with h
      subst h
      exact ⟨(rawPush_error hp ok).1, 1, by simp, (rawPush_error hp ok).2⟩
    | ok l1 =>
      simp only [hp] at h
      have ⟨_, e2, _, _, _, ok1⟩ := rawPush_ok hp ok
      have ⟨hf, k, hk1, hk2⟩ := pushAll_error vs h ok1
      refine ⟨hf, k + 1, by simp; omega, ?_⟩
      rw [e2] at hk2
      have : l.len + (k + 1) = l.len + 1 + k := by omega
      rw [this]; exact hk2

end RotoV.ListM
