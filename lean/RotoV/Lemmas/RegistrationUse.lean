/-
  C18, the import pass (`declare_imports`, pass 5 of `Rt::add`): after a
  successful `add`, every path of every `use` item of the library — at the top
  or inside modules (the pass hands a module's children the same scope) — is
  bound: its last segment is an import of the starting scope whose target is
  the scope reached by walking the other segments.
-/
import RotoV.Lemmas.Registration

namespace RotoV.Reg

/-- a `use` item with paths `ps` occurs in the tree, at the top or inside modules -/
inductive UseIn : Items → List (List Name) → Prop
  | here (ps : List (List Name)) (is : Items) : UseIn (.cons (.use ps) is) ps
  | there {is : Items} {ps : List (List Name)} (j : Item) : UseIn is ps → UseIn (.cons j is) ps
  | inside {ch : Items} {ps : List (List Name)} (n : Name) (is : Items) :
      UseIn ch ps → UseIn (.cons (.module n ch) is) ps

/-- the import pass leaves declarations alone and only adds imports -/
structure ExtI (st st' : St) : Prop where
  decls : st'.decls = st.decls
  imports : ∀ s n t, st.imports s n = some t → st'.imports s n = some t

theorem ExtI.refl (st : St) : ExtI st st := ⟨rfl, fun _ _ _ h => h⟩
theorem ExtI.trans {a b c : St} (h1 : ExtI a b) (h2 : ExtI b c) : ExtI a c :=
  ⟨h2.decls.trans h1.decls, fun s n t h => h2.imports s n t (h1.imports s n t h)⟩

theorem getScopeOf_congr {st st' : St} (h : st'.decls = st.decls) (s : ScopeId) (n : Name) :
    st'.getScopeOf s n = st.getScopeOf s n := by
  simp [St.getScopeOf, h]

theorem walkPath_congr (cfg : Cfg) {st st' : St} (h : st'.decls = st.decls) (start : ScopeId) :
    ∀ (p : List Name) (cur : ScopeId), walkPath cfg start st' cur p = walkPath cfg start st cur p
  | [], cur => rfl
  | part :: rest, cur => by
    simp only [walkPath, getScopeOf_congr h]
    cases st.getScopeOf (if cfg.walkFromStart then start else cur) part with
    | none => rfl
    | some s => exact walkPath_congr cfg h start rest s

/-- on the current source the walk of `declare_import` is the plain descent through nested scopes -/
theorem walkPath_fixed_iff (st : St) (start : ScopeId) :
    ∀ (p : List Name) (cur s : ScopeId), walkPath Cfg.fixed start st cur p = .ok s ↔ scopeAt st cur p = some s
  | [], cur, s => by simp [walkPath, scopeAt]
  | part :: rest, cur, s => by
    simp only [walkPath, scopeAt, Cfg.fixed, Bool.false_eq_true, if_false]
    cases st.getScopeOf cur part with
    | none => simp
    | some s' => exact walkPath_fixed_iff st start rest s' s

/-- what one bound path looks like in the table -/
def Bound (st : St) (scope : ScopeId) (p : List Name) : Prop :=
  ∃ last s, p.getLast? = some last ∧ scopeAt st scope p.dropLast = some s ∧
    st.imports scope last = some ⟨s, last⟩

theorem Bound.mono {st st' : St} (h : ExtI st st') {scope : ScopeId} {p : List Name}
    (b : Bound st scope p) : Bound st' scope p := by
  obtain ⟨last, s, h1, h2, h3⟩ := b
  refine ⟨last, s, h1, ?_, h.imports _ _ _ h3⟩
  rw [← walkPath_fixed_iff st' scope]
  rw [walkPath_congr Cfg.fixed h.decls]
  exact (walkPath_fixed_iff st scope _ _ _).mpr h2

theorem declareImport_spec (scope : ScopeId) (p : List Name) (st st' : St)
    (h : declareImport Cfg.fixed scope p st = .ok st') : ExtI st st' ∧ Bound st' scope p := by
  unfold declareImport at h
  cases hl : p.getLast? with
  | none => simp [hl, Cfg.fixed] at h
  | some last =>
    simp only [hl] at h
    cases hw : walkPath Cfg.fixed scope st scope p.dropLast with
    | err e => simp [hw] at h
    | panic s => simp [hw] at h
    | ok newScope =>
      simp only [hw] at h
      cases hi : st.imports scope last with
      | some t => simp [hi] at h
      | none =>
        simp only [hi, Res.ok.injEq] at h
        subst h
        have hext : ExtI st (st.insertImport scope last ⟨newScope, last⟩) := by
          refine ⟨rfl, fun s n t ht => ?_⟩
          simp only [St.insertImport]
          by_cases hc : s = scope ∧ n = last
          · obtain ⟨rfl, rfl⟩ := hc; rw [hi] at ht; cases ht
          · simp [hc, ht]
        refine ⟨hext, last, newScope, hl, ?_, by simp [St.insertImport]⟩
        rw [← walkPath_fixed_iff _ scope, walkPath_congr Cfg.fixed hext.decls]
        exact hw

theorem declareImportList_spec (scope : ScopeId) :
    ∀ (ps : List (List Name)) (st st' : St), declareImportList Cfg.fixed scope ps st = .ok st' →
      ExtI st st' ∧ ∀ p ∈ ps, Bound st' scope p
  | [], st, st', h => by
    simp only [declareImportList, Res.ok.injEq] at h
    subst h
    exact ⟨ExtI.refl _, fun _ hp => by cases hp⟩
  | p :: ps, st, st', h => by
    simp only [declareImportList] at h
    cases h1 : declareImport Cfg.fixed scope p st with
    | err e => simp [h1] at h
    | panic s => simp [h1] at h
    | ok st1 =>
      simp only [h1] at h
      obtain ⟨e1, b1⟩ := declareImport_spec scope p st st1 h1
      obtain ⟨e2, b2⟩ := declareImportList_spec scope ps st1 st' h
      refine ⟨e1.trans e2, fun q hq => ?_⟩
      rcases List.mem_cons.mp hq with rfl | hq
      · exact b1.mono e2
      · exact b2 q hq

mutual
theorem declImports_spec (scope : ScopeId) :
    ∀ (is : Items) (st st' : St), declImports Cfg.fixed scope is st = .ok st' →
      ExtI st st' ∧ ∀ ps, UseIn is ps → ∀ p ∈ ps, Bound st' scope p
  | .nil, st, st', h => by
    simp only [declImports, Res.ok.injEq] at h
    subst h
    exact ⟨ExtI.refl _, fun _ hu => by cases hu⟩
  | .cons i is, st, st', h => by
    simp only [declImports] at h
    cases h1 : declImportsItem Cfg.fixed scope i st with
    | err e => simp [h1] at h
    | panic s => simp [h1] at h
    | ok st1 =>
      simp only [h1] at h
      obtain ⟨e1, b1⟩ := declImportsItem_spec scope i st st1 h1
      obtain ⟨e2, b2⟩ := declImports_spec scope is st1 st' h
      refine ⟨e1.trans e2, fun ps hu p hp => ?_⟩
      cases hu with
      | here _ _ => exact (b1 ps (.here ps .nil) p hp).mono e2
      | there _ hu' => exact b2 ps hu' p hp
      | inside n _ hu' => exact (b1 ps (.inside n .nil hu') p hp).mono e2
/-- for one item, phrased over the one-item tree -/
theorem declImportsItem_spec (scope : ScopeId) :
    ∀ (i : Item) (st st' : St), declImportsItem Cfg.fixed scope i st = .ok st' →
      ExtI st st' ∧ ∀ ps, UseIn (.cons i .nil) ps → ∀ p ∈ ps, Bound st' scope p
  | .use qs, st, st', h => by
    simp only [declImportsItem] at h
    obtain ⟨e, b⟩ := declareImportList_spec scope qs st st' h
    refine ⟨e, fun ps hu p hp => ?_⟩
    cases hu with
    | here _ _ => exact b p hp
    | there _ hu' => cases hu'
  | .module n ch, st, st', h => by
    simp only [declImportsItem] at h
    obtain ⟨e, b⟩ := declImports_spec scope ch st st' h
    refine ⟨e, fun ps hu p hp => ?_⟩
    cases hu with
    | there _ hu' => cases hu'
    | inside _ _ hu' => exact b ps hu' p hp
  | .type _ _, st, st', h => by
    simp only [declImportsItem, Res.ok.injEq] at h
    subst h
    exact ⟨ExtI.refl _, fun ps hu => by cases hu with | there _ hu' => cases hu'⟩
  | .function _ _ _ _, st, st', h => by
    simp only [declImportsItem, Res.ok.injEq] at h
    subst h
    exact ⟨ExtI.refl _, fun ps hu => by cases hu with | there _ hu' => cases hu'⟩
  | .constant _ _ _, st, st', h => by
    simp only [declImportsItem, Res.ok.injEq] at h
    subst h
    exact ⟨ExtI.refl _, fun ps hu => by cases hu with | there _ hu' => cases hu'⟩
  | .impl _ _, st, st', h => by
    simp only [declImportsItem, Res.ok.injEq] at h
    subst h
    exact ⟨ExtI.refl _, fun ps hu => by cases hu with | there _ hu' => cases hu'⟩
end

/-- the last pass of a successful `add` -/
theorem add_imports_pass (lex : Name → Lex) (st st' : St) (items : Items)
    (h : add Cfg.fixed lex st items = .ok st') :
    ∃ st4, declImports Cfg.fixed [] items st4 = .ok st' := by
  unfold add at h
  cases h1 : declModules none items st with
  | err e => simp [h1] at h
  | panic s => simp [h1] at h
  | ok st1 =>
    simp only [h1] at h
    cases h2 : walk Cfg.fixed lex .types [] items st1 with
    | err e => simp [h2] at h
    | panic s => simp [h2] at h
    | ok st2 =>
      simp only [h2] at h
      cases h3 : walk Cfg.fixed lex .functions [] items st2 with
      | err e => simp [h3] at h
      | panic s => simp [h3] at h
      | ok st3 =>
        simp only [h3] at h
        cases h4 : walk Cfg.fixed lex .constants [] items st3 with
        | err e => simp [h4] at h
        | panic s => simp [h4] at h
        | ok st4 =>
          simp only [h4] at h
          exact ⟨st4, h⟩

/-- after a successful `add` every path of every `use` item is bound at the root -/
theorem add_uses_bound (lex : Name → Lex) (st st' : St) (items : Items)
    (h : add Cfg.fixed lex st items = .ok st') (ps : List (List Name)) (hu : UseIn items ps) :
    ∀ p ∈ ps, Bound st' [] p := by
  obtain ⟨st4, h5⟩ := add_imports_pass lex st st' items h
  exact (declImports_spec [] items st4 st' h5).2 ps hu

/-- what a script sees through a bound path: unless the root itself declares
    the name, the first segment of a script path resolves to the import's target -/
theorem resolvePath_bound (st : St) (p : List Name) (b : Bound st [] p) :
    ∃ last s, p.getLast? = some last ∧ scopeAt st [] p.dropLast = some s ∧
      (st.decls ⟨[], last⟩ = none → ∀ rest,
        resolvePath st (last :: rest) =
          match st.decls ⟨s, last⟩ with
          | some d => resolveRest st d rest
          | none => none) := by
  obtain ⟨last, s, h1, h2, h3⟩ := b
  refine ⟨last, s, h1, h2, fun hroot rest => ?_⟩
  simp only [resolvePath, resolveFirst, hroot, h3]
  cases st.decls ⟨s, last⟩ <;> rfl

end RotoV.Reg
