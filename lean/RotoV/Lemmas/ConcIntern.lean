/-
Lemmas for Model/ConcIntern: the double-checked get-or-insert keeps the
sequential specification `Good` under every schedule.
-/
import RotoV.Model.ConcIntern

namespace RotoV.Conc.Intern

theorem get_idx {k : Nat} : ∀ {l : List Nat}, k ∈ l → l[idx k l]? = some k
  | [], h => by cases h
  | a :: l, h => by
    by_cases hak : a = k
    · simp [idx, hak]
    · have hk : k ∈ l := by
        cases h with
        | head => exact absurd rfl hak
        | tail _ h => exact h
      simp [idx, hak, get_idx hk]

theorem mem_of_get {k : Nat} : ∀ {l : List Nat} {i : Nat}, l[i]? = some k → k ∈ l
  | [], i, h => by simp at h
  | a :: l, 0, h => by simp at h; simp [h]
  | a :: l, i + 1, h => by
    simp at h
    exact List.mem_cons_of_mem _ (mem_of_get h)

theorem nodup_get_inj {k : Nat} : ∀ {l : List Nat} {i j : Nat}, l.Nodup → l[i]? = some k → l[j]? = some k → i = j
  | [], i, j, _, h, _ => by simp at h
  | a :: l, 0, 0, _, _, _ => rfl
  | a :: l, 0, j + 1, hn, hi, hj => by
    simp at hi hj
    have := mem_of_get hj
    rw [List.nodup_cons] at hn
    subst hi
    exact absurd this hn.1
  | a :: l, i + 1, 0, hn, hi, hj => by
    simp at hi hj
    have := mem_of_get hi
    rw [List.nodup_cons] at hn
    subst hj
    exact absurd this hn.1
  | a :: l, i + 1, j + 1, hn, hi, hj => by
    simp at hi hj
    rw [List.nodup_cons] at hn
    rw [nodup_get_inj hn.2 hi hj]

theorem nodup_snoc {k : Nat} : ∀ {l : List Nat}, l.Nodup → k ∉ l → (l ++ [k]).Nodup
  | [], _, _ => by simp
  | a :: l, hn, hk => by
    rw [List.nodup_cons] at hn
    have hak : k ≠ a := fun h => hk (by simp [h])
    have hkl : k ∉ l := fun h => hk (List.mem_cons_of_mem _ h)
    rw [List.cons_append, List.nodup_cons]
    refine ⟨?_, nodup_snoc hn.2 hkl⟩
    intro hm
    rw [List.mem_append] at hm
    cases hm with
    | inl h => exact hn.1 h
    | inr h => simp at h; exact hak h.symm

theorem get_snoc_old {k x : Nat} : ∀ {l : List Nat} {i : Nat}, l[i]? = some x → (l ++ [k])[i]? = some x
  | [], i, h => by simp at h
  | a :: l, 0, h => by simpa using h
  | a :: l, i + 1, h => by
    simp at h
    simpa using get_snoc_old h

theorem get_snoc_new {k : Nat} : ∀ {l : List Nat}, (l ++ [k])[l.length]? = some k
  | [] => by simp
  | a :: l => by simp

theorem init_good (key : Nat → Nat) (tbl : List Nat) (h : tbl.Nodup) : Good key (init tbl) :=
  ⟨h, fun t i hd => by simp [init] at hd⟩

theorem set_good {key : Nat → Nat} {s : St} {t : Nat} {p : Pc} (h : Good key s)
    (hp : ∀ i, p = .done i → s.table[i]? = some (key t)) : Good key (s.set t p) := by
  refine ⟨h.1, ?_⟩
  intro u i hu
  simp only [St.set] at hu ⊢
  by_cases hut : u = t
  · subst hut
    simp at hu
    exact hp i hu
  · simp [hut] at hu
    exact h.2 u i hu

/-- one section of the DOUBLE-CHECKED get-or-insert keeps the specification -/
theorem step_good (key : Nat → Nat) (s : St) (t : Nat) (h : Good key s) : Good key (step true key s t) := by
  unfold step
  split
  · split
    · rename_i hm
      exact set_good h (fun i hi => by cases hi; exact get_idx hm)
    · exact set_good h (fun i hi => by cases hi)
  · by_cases hm : key t ∈ s.table
    · simp only [Bool.true_and, hm, decide_true, if_true]
      exact set_good h (fun i hi => by cases hi; exact get_idx hm)
    · simp only [Bool.true_and, hm, decide_false, Bool.false_eq_true, if_false]
      refine ⟨nodup_snoc h.1 hm, ?_⟩
      intro u i hu
      simp only at hu ⊢
      by_cases hut : u = t
      · subst hut
        simp at hu
        subst hu
        exact get_snoc_new
      · simp [hut] at hu
        exact get_snoc_old (h.2 u i hu)
  · exact h

theorem run_good (key : Nat → Nat) : ∀ (sched : List Nat) (s : St), Good key s → Good key (run true key s sched)
  | [], _, h => h
  | t :: rest, s, h => run_good key rest _ (step_good key s t h)

/-- the table only grows at its end: indices handed out earlier stay valid -/
theorem step_prefix (r : Bool) (key : Nat → Nat) (s : St) (t : Nat) : s.table <+: (step r key s t).table := by
  unfold step
  split
  · split <;> exact List.prefix_refl _
  · split
    · exact List.prefix_refl _
    · exact List.prefix_append _ _
  · exact List.prefix_refl _

theorem run_prefix (r : Bool) (key : Nat → Nat) : ∀ (sched : List Nat) (s : St), s.table <+: (run r key s sched).table
  | [], _ => List.prefix_refl _
  | t :: rest, s => List.IsPrefix.trans (step_prefix r key s t) (run_prefix r key rest _)

/-- under the specification, equal texts have equal indices and vice versa -/
theorem good_injective {key : Nat → Nat} {s : St} (h : Good key s) {t u i j : Nat}
    (ht : s.pc t = .done i) (hu : s.pc u = .done j) : key t = key u ↔ i = j := by
  constructor
  · intro hk
    have h1 := h.2 t i ht
    have h2 := h.2 u j hu
    rw [← hk] at h2
    exact nodup_get_inj h.1 h1 h2
  · intro hij
    subst hij
    have h1 := h.2 t i ht
    have h2 := h.2 u i hu
    rw [h1] at h2
    exact Option.some.inj h2

/-- a thread's two sections finish its operation (whatever the others do in between
can only turn its second section into a hit) -/
theorem step_progress (r : Bool) (key : Nat → Nat) (s : St) (t : Nat) :
    (s.pc t = .start → (step r key s t).pc t = .missed ∨ ∃ i, (step r key s t).pc t = .done i)
    ∧ (s.pc t = .missed → ∃ i, (step r key s t).pc t = .done i) := by
  constructor
  · intro h
    unfold step
    rw [h]
    simp only
    split
    · exact Or.inr ⟨idx (key t) s.table, by simp [St.set]⟩
    · exact Or.inl (by simp [St.set])
  · intro h
    unfold step
    rw [h]
    simp only
    split
    · exact ⟨idx (key t) s.table, by simp [St.set]⟩
    · exact ⟨s.table.length, by simp⟩

/-! ## every operation finishes -/

theorem step_other (r : Bool) (key : Nat → Nat) (s : St) (t u : Nat) (h : u ≠ t) :
    (step r key s t).pc u = s.pc u := by
  unfold step
  split
  · split <;> simp [St.set, h]
  · split <;> simp [St.set, h]
  · rfl

theorem step_done_stable (r : Bool) (key : Nat → Nat) (s : St) (t u i : Nat) (h : s.pc u = .done i) :
    (step r key s t).pc u = .done i := by
  by_cases hut : u = t
  · subst hut
    unfold step
    rw [h]
    simp only
    exact h
  · rw [step_other r key s t u hut, h]

theorem run_done_stable (r : Bool) (key : Nat → Nat) : ∀ (sched : List Nat) (s : St) (u i : Nat),
    s.pc u = .done i → (run r key s sched).pc u = .done i
  | [], _, _, _, h => h
  | t :: rest, s, u, i, h => run_done_stable r key rest _ u i (step_done_stable r key s t u i h)

/-- a thread that is scheduled twice has finished, whatever the others did -/
theorem run_finishes (r : Bool) (key : Nat → Nat) : ∀ (sched : List Nat) (s : St) (t : Nat),
    (s.pc t = .start → 2 ≤ sched.count t → ∃ i, (run r key s sched).pc t = .done i)
    ∧ (s.pc t = .missed → 1 ≤ sched.count t → ∃ i, (run r key s sched).pc t = .done i)
  | [], s, t => ⟨fun _ h => by simp at h, fun _ h => by simp at h⟩
  | u :: rest, s, t => by
    have ih := run_finishes r key rest (step r key s u) t
    by_cases hut : u = t
    · subst hut
      have hp := step_progress r key s u
      constructor
      · intro hs hc
        simp only [List.count_cons_self] at hc
        cases hp.1 hs with
        | inl hm => exact ih.2 hm (by omega)
        | inr hd => obtain ⟨i, hd⟩ := hd; exact ⟨i, run_done_stable r key rest _ u i hd⟩
      · intro hs _
        obtain ⟨i, hd⟩ := hp.2 hs
        exact ⟨i, run_done_stable r key rest _ u i hd⟩
    · have hpc : (step r key s u).pc t = s.pc t := step_other r key s u t (fun h => hut h.symm)
      have hcount : (u :: rest).count t = rest.count t := by
        simp [hut]
      constructor
      · intro hs hc
        rw [hcount] at hc
        exact ih.1 (by rw [hpc]; exact hs) hc
      · intro hs hc
        rw [hcount] at hc
        exact ih.2 (by rw [hpc]; exact hs) hc

/-! ## the observation checker -/

theorem consistent_iff (obs : List (Nat × Nat)) :
    consistent obs = true ↔ ∀ p ∈ obs, ∀ q ∈ obs, (p.1 = q.1 ↔ p.2 = q.2) := by
  unfold consistent
  simp only [List.all_eq_true, beq_iff_eq, decide_eq_decide]

theorem mem_observations {key : Nat → Nat} {s : St} {ts : List Nat} {p : Nat × Nat}
    (h : p ∈ observations key s ts) : ∃ t, s.pc t = .done p.2 ∧ key t = p.1 := by
  unfold observations at h
  rw [List.mem_filterMap] at h
  obtain ⟨t, _, ht⟩ := h
  refine ⟨t, ?_⟩
  cases hpc : s.pc t with
  | start => rw [hpc] at ht; cases ht
  | missed => rw [hpc] at ht; cases ht
  | done i => rw [hpc] at ht; cases ht; exact ⟨rfl, rfl⟩

theorem good_consistent {key : Nat → Nat} {s : St} (h : Good key s) (ts : List Nat) :
    consistent (observations key s ts) = true := by
  rw [consistent_iff]
  intro p hp q hq
  obtain ⟨t, htd, htk⟩ := mem_observations hp
  obtain ⟨u, hud, huk⟩ := mem_observations hq
  rw [← htk, ← huk]
  exact good_injective h htd hud

/-! ## per-runtime resolution is isolated -/

theorem own_resolution_alone (rt ty : Nat) : ∀ evs : List RegEv,
    resolveOwn (ownTable evs) rt ty = resolveOwn (ownTable (alone rt evs)) rt ty
  | [] => rfl
  | .declare r t n :: rest => by
    have ih := own_resolution_alone rt ty rest
    unfold resolveOwn ownTable at ih ⊢
    by_cases hr : r = rt
    · subst hr
      simp only [alone, List.filter, beq_self_eq_true, List.map_cons, List.find?_cons]
      by_cases ht : t = ty
      · simp [ht]
      · simp only [Bool.true_and]
        have : (t == ty) = false := by simp [ht]
        simp only [this]
        exact ih
    · have hb : (r == rt) = false := by simp [hr]
      simp only [alone, List.filter, hb, List.map_cons, List.find?_cons, Bool.false_and]
      exact ih

end RotoV.Conc.Intern
