/-
  Lemmas about paths (C13): `resolve_module_part_of_path` against its
  declarative reading — first segment by the declarative lookup, later segments
  among direct members only, leading `super`s climb the module tree.
-/
import RotoV.Model.Scope
import RotoV.Lemmas.Scope

namespace RotoV.Scope

/-! ## later segments: direct members only -/

/-- The declarative reading of the segments after the first: `d` is what the
    previous segment `id` stands for; the next segment must be declared
    *directly in the scope `d` owns* — no imports, no enclosing scopes. -/
def walkMembers (g : Graph) : Decl → Name → List Name → Res PathRes
  | d, id, rest =>
    match d.scope with
    | none => .ok ⟨id, d, rest⟩
    | some s' =>
      match rest with
      | [] => .ok ⟨id, d, []⟩
      | i :: rest' =>
        if i = SUPER then .err .tooManySuper else
        match g.decl ⟨s', i⟩ with
        | none => .err .notDefined
        | some d' => walkMembers g d' i rest'

theorem resolve_false (g : Graph) (s : Nat) (x : Name) :
    g.resolve s x false = .ok (g.decl ⟨s, x⟩) := by
  simp only [Graph.resolve, Graph.resolveName]
  cases g.decl ⟨s, x⟩ <;> simp

/-- after the first segment the `recurse = false` loop is `walkMembers` -/
theorem segments_false_eq (g : Graph) :
    ∀ (rest : List Name) (s : Nat) (id : Name),
      segments g s id rest false =
        if id = SUPER then .err .tooManySuper else
        match g.decl ⟨s, id⟩ with
        | none => .err .notDefined
        | some d => walkMembers g d id rest := by
  intro rest
  induction rest with
  | nil =>
    intro s id
    unfold segments
    by_cases h : id = SUPER
    · simp [h]
    · simp only [h, ↓reduceIte, resolve_false]
      cases hd : g.decl ⟨s, id⟩ with
      | none => rfl
      | some d =>
        unfold walkMembers
        cases d.scope <;> rfl
  | cons i rest' ih =>
    intro s id
    unfold segments
    by_cases h : id = SUPER
    · simp [h]
    · simp only [h, ↓reduceIte, resolve_false]
      cases hd : g.decl ⟨s, id⟩ with
      | none => rfl
      | some d =>
        simp only
        conv => rhs; unfold walkMembers
        cases hsc : d.scope with
        | none => rfl
        | some s' =>
          simp only
          rw [ih s' i]

/-- The declarative reading of a path without leading `super`: the first
    segment is looked up along the ancestor chain (declarations, then imports,
    then outward), every later segment among direct members. -/
def pathSpec (g : Graph) (chain : List Nat) (id : Name) (rest : List Name) : Res PathRes :=
  if id = SUPER then .err .tooManySuper else
  match firstHit g id chain with
  | .panic p => .panic p
  | .err e => .err e
  | .ok none => .err .notDefined
  | .ok (some d) => walkMembers g d id rest

theorem segments_true_eq {g : Graph} (wf : WF g) {s : Nat} {chain : List Nat}
    (hc : Ancestors g s chain) (id : Name) (rest : List Name) :
    segments g s id rest true = pathSpec g chain id rest := by
  unfold segments pathSpec
  by_cases h : id = SUPER
  · simp [h]
  · simp only [h, ↓reduceIte]
    have : g.resolve s id true = firstHit g id chain :=
      resolveName_eq_firstHit wf id (s + 1) s chain (Nat.lt_succ_self s) hc
    rw [this]
    cases hf : firstHit g id chain with
    | panic p => rfl
    | err e => rfl
    | ok o =>
      cases o with
      | none => rfl
      | some d =>
        simp only
        conv => rhs; unfold walkMembers
        cases hsc : d.scope with
        | none => rfl
        | some s' =>
          cases rest with
          | nil => rfl
          | cons i rest' =>
            simp only
            rw [segments_false_eq g rest' s' i]

/-! ## leading `super`s -/

/-- the first module scope on an ancestor chain -/
def enclosingModule (g : Graph) : List Nat → Option (Nat × RName × Option Nat)
  | [] => none
  | a :: l =>
    match g.scopes[a]? with
    | some ⟨.module name pm, _, _⟩ => some (a, name, pm)
    | _ => enclosingModule g l

/-- The declarative reading of `parent_module`: find the innermost enclosing
    module scope on the chain; its `parent_module` link names the scope of the
    parent module, whose declaration is the answer. -/
def parentModuleSpec (g : Graph) (chain : List Nat) : Res (Option Decl) :=
  match enclosingModule g chain with
  | none => .ok none
  | some (_, _, none) => .ok none
  | some (_, _, some p) =>
    match g.scopes[p]? with
    | none => .panic .scopeIndex
    | some psc =>
      match psc.kind with
      | .module pname _ =>
        match g.decl pname with
        | some d => .ok (some d)
        | none => .panic .getDeclaration
      | _ => .panic .parentNotModule

theorem parentModuleF_eq {g : Graph} (wf : WF g) :
    ∀ fuel s chain, s < fuel → Ancestors g s chain →
      g.parentModuleF fuel s = parentModuleSpec g chain := by
  intro fuel
  induction fuel with
  | zero => intro s l h; omega
  | succ n ih =>
    intro s chain hfuel hanc
    cases hanc with
    | root hs hp =>
      rename_i sc
      unfold Graph.parentModuleF parentModuleSpec enclosingModule
      simp only [hs]
      obtain ⟨kind, parent, imports⟩ := sc
      cases kind with
      | module name pm => cases pm <;> simp_all [enclosingModule] <;> rfl
      | _ => simp_all [enclosingModule]
    | step hs hp hrest =>
      rename_i sc p l'
      have hlt : p < s := wf s _ hs p hp
      have := ih p l' (by omega) hrest
      unfold Graph.parentModuleF parentModuleSpec enclosingModule
      simp only [hs]
      obtain ⟨kind, parent, imports⟩ := sc
      cases kind with
      | module name pm => cases pm <;> simp_all [parentModuleSpec, enclosingModule] <;> rfl
      | _ => simp_all [parentModuleSpec, enclosingModule]

theorem parentModule_eq {g : Graph} (wf : WF g) {s : Nat} {chain : List Nat}
    (hc : Ancestors g s chain) : g.parentModule s = parentModuleSpec g chain :=
  parentModuleF_eq wf (s + 1) s chain (Nat.lt_succ_self s) hc

/-- Module scopes are owned by their declarations, and `parent_module` links
    point at module scopes: what `declare_modules` / `declare_runtime_module`
    establish (`RotoV.Lemmas.ScopeBuild`). -/
def ModulesOk (g : Graph) : Prop :=
  ∀ (m : Nat) (sc : Scope) (name : RName) (pm : Option Nat),
    g.scopes[m]? = some sc → sc.kind = .module name pm →
      (∃ d, g.decl name = some d ∧ d.scope = some m) ∧
      (∀ p, pm = some p → ∃ psc pn ppm, g.scopes[p]? = some psc ∧ psc.kind = .module pn ppm)

/-- the `parent_module` link of a module scope -/
def moduleUp (g : Graph) (m : Nat) : Option Nat :=
  match g.scopes[m]? with
  | some ⟨.module _ pm, _, _⟩ => pm
  | _ => none

/-- the `n`-th module above module scope `m` -/
def nthUp (g : Graph) : Nat → Nat → Option Nat
  | 0, m => some m
  | n + 1, m => (moduleUp g m).bind (nthUp g n)

theorem enclosingModule_self {g : Graph} {p : Nat} {chain : List Nat} {psc : Scope} {pn : RName}
    {ppm : Option Nat} (hc : Ancestors g p chain) (hs : g.scopes[p]? = some psc)
    (hk : psc.kind = .module pn ppm) : enclosingModule g chain = some (p, pn, ppm) := by
  obtain ⟨kind, parent, imports⟩ := psc
  simp only at hk
  subst hk
  cases hc with
  | root hs' _ => simp [enclosingModule, hs]
  | step hs' _ _ => simp [enclosingModule, hs]

/-- One leading `super`, from any scope whose innermost enclosing module scope
    is `m`: an error when `m` is the root module (or there is no module), else
    resolution continues in the scope of `m`'s parent module. -/
theorem super_step {g : Graph} (wf : WF g) (mok : ModulesOk g) {s : Nat} {chain : List Nat}
    (hc : Ancestors g s chain) (rest : List Name) (after : Bool) :
    supers g s SUPER rest after =
      match enclosingModule g chain with
      | none => .err .tooManySuper
      | some (_, _, none) => .err .tooManySuper
      | some (_, name, some p) =>
        match g.scopes[p]? with
        | none => .panic .scopeIndex
        | some psc =>
          match psc.kind with
          | .module pname _ =>
            match g.decl pname with
            | none => .panic .getDeclaration
            | some d =>
              match rest with
              | [] => .ok ⟨SUPER, d, []⟩
              | x :: rest' => supers g p x rest' true
          | _ => .panic .parentNotModule := by
  conv => lhs; unfold supers
  simp only [↓reduceIte, parentModule_eq wf hc, parentModuleSpec]
  cases he : enclosingModule g chain with
  | none => rfl
  | some t =>
    obtain ⟨m, name, pm⟩ := t
    cases pm with
    | none => rfl
    | some p =>
      simp only
      cases hp : g.scopes[p]? with
      | none => rfl
      | some psc =>
        simp only
        cases hk : psc.kind with
        | module pname ppm =>
          simp only
          obtain ⟨⟨d, hd, hds⟩, _⟩ := mok p psc pname ppm hp hk
          simp only [hd, hds]
          cases rest <;> rfl
        | root => rfl
        | function n => rfl
        | type n => rfl
        | block i => rfl

theorem enclosingModule_spec {g : Graph} :
    ∀ {chain : List Nat} {m : Nat} {name : RName} {pm : Option Nat},
      enclosingModule g chain = some (m, name, pm) →
      ∃ sc, g.scopes[m]? = some sc ∧ sc.kind = .module name pm := by
  intro chain
  induction chain with
  | nil => intro m name pm h; simp [enclosingModule] at h
  | cons a l ih =>
    intro m name pm h
    unfold enclosingModule at h
    cases hs : g.scopes[a]? with
    | none => rw [hs] at h; exact ih h
    | some sc =>
      rw [hs] at h
      obtain ⟨kind, parent, imports⟩ := sc
      cases kind with
      | module n p =>
        simp only [Option.some.injEq, Prod.mk.injEq] at h
        obtain ⟨rfl, rfl, rfl⟩ := h
        exact ⟨_, hs, rfl⟩
      | root => exact ih h
      | function n => exact ih h
      | type n => exact ih h
      | block i => exact ih h

theorem moduleUp_of_kind {g : Graph} {m : Nat} {sc : Scope} {name : RName} {pm : Option Nat}
    (hs : g.scopes[m]? = some sc) (hk : sc.kind = .module name pm) : moduleUp g m = pm := by
  obtain ⟨kind, parent, imports⟩ := sc
  simp only at hk
  subst hk
  simp [moduleUp, hs]

/-- **n + 1 leading `super`s** from any scope whose innermost enclosing module
    scope is `m` land in the `(n+1)`-th module above `m`, or are an error when
    the module tree is not that deep. -/
theorem super_n {g : Graph} (wf : WF g) (mok : ModulesOk g) :
    ∀ (n : Nat) (s : Nat) (chain : List Nat) (m : Nat) (name : RName) (pm : Option Nat)
      (x : Name) (rest : List Name),
      Ancestors g s chain → enclosingModule g chain = some (m, name, pm) →
      x ≠ SUPER → ∀ after : Bool,
      supers g s SUPER (List.replicate n SUPER ++ x :: rest) after =
        match nthUp g (n + 1) m with
        | none => .err .tooManySuper
        | some p => segments g p x rest false := by
  intro n
  induction n with
  | zero =>
    intro s chain m name pm x rest hc he hx after
    rw [super_step wf mok hc]
    obtain ⟨sc, hsm, hkm⟩ := enclosingModule_spec he
    have hm : moduleUp g m = pm := moduleUp_of_kind hsm hkm
    simp only [he, nthUp, hm, List.replicate, List.nil_append]
    cases pm with
    | none => rfl
    | some p =>
      simp only [Option.bind]
      obtain ⟨_, hpar⟩ := mok m sc name (some p) hsm hkm
      obtain ⟨psc, pn, ppm, hps, hpk⟩ := hpar p rfl
      obtain ⟨⟨d, hd, hds⟩, _⟩ := mok p psc pn ppm hps hpk
      simp only [hps, hpk, hd]
      conv => lhs; unfold supers
      simp [hx]
  | succ n ih =>
    intro s chain m name pm x rest hc he hx after
    rw [List.replicate_succ, List.cons_append, super_step wf mok hc]
    obtain ⟨sc, hsm, hkm⟩ := enclosingModule_spec he
    have hm : moduleUp g m = pm := moduleUp_of_kind hsm hkm
    simp only [he]
    cases pm with
    | none => simp [nthUp, hm]
    | some p =>
      obtain ⟨_, hpar⟩ := mok m sc name (some p) hsm hkm
      obtain ⟨psc, pn, ppm, hps, hpk⟩ := hpar p rfl
      obtain ⟨⟨d, hd, hds⟩, _⟩ := mok p psc pn ppm hps hpk
      simp only [hps, hpk, hd]
      -- the chain of the parent module scope starts with that scope
      have hplt : p < g.scopes.length := by
        rcases Nat.lt_or_ge p g.scopes.length with h | h
        · exact h
        · rw [List.getElem?_eq_none h] at hps; cases hps
      obtain ⟨pchain, hpc⟩ := ancestors_exist wf p hplt
      have hpe := enclosingModule_self hpc hps hpk
      rw [ih p pchain p pn ppm x rest hpc hpe hx true]
      simp only [nthUp, hm, Option.bind]

end RotoV.Scope
