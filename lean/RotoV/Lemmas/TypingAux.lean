/-
  Auxiliary lemmas for C07's monotonicity theorem about `match`: the variants a
  flexible examinee type offers, related contexts for pattern binders, and the
  match bookkeeping of the documented rules (`matchHeads`), which only looks at
  names and numbers of fields.
-/
import RotoV.Lemmas.Typing

namespace RotoV.Typing

def instList : List Ty → List Ty → Bool
  | [], [] => true
  | a :: r, b :: r' => inst a b && instList r r'
  | _, _ => false

theorem inst_printable (f g : Ty) (h : inst f g = true) (hp : printable g = true) : printable f = true := by
  cases f <;> cases g <;> simp_all [inst, printable]

theorem instList_printable : ∀ (fs gs : List Ty), instList fs gs = true → gs.all printable = true →
    fs.all printable = true := by
  intro fs
  induction fs with
  | nil => intro gs _ _; rfl
  | cons f r ih =>
    intro gs h hp
    cases gs with
    | nil => simp [instList] at h
    | cons g r' =>
      simp only [instList, Bool.and_eq_true] at h
      simp only [List.all_cons, Bool.and_eq_true] at hp ⊢
      exact ⟨inst_printable f g h.1 hp.1, ih r' h.2 hp.2⟩

def patBeq : Pat → Pat → Bool
  | .wild, .wild => true
  | .variant n bs, .variant n' bs' => patNameEq n n' && bs == bs'
  | _, _ => false

theorem patNameEq_eq (a b : PatName) (h : patNameEq a b = true) : a = b := by
  cases a <;> cases b <;> simp_all [patNameEq]

theorem patBeq_eq : ∀ (p p' : Pat), patBeq p p' = true → p = p' := by
  intro p p' h
  cases p with
  | wild => cases p' <;> simp_all [patBeq]
  | variant n bs =>
    cases p' with
    | wild => simp [patBeq] at h
    | variant n' bs' =>
      simp only [patBeq, Bool.and_eq_true, beq_iff_eq] at h
      rw [patNameEq_eq n n' h.1, h.2]

/-- the variants a flexible examinee type offers are instances of the ground ones -/
def variantsInst : List (PatName × List Ty) → List (PatName × List Ty) → Bool
  | [], [] => true
  | (n, ts) :: r, (n', ts') :: r' =>
    patNameEq n n' && instList ts ts' && ts'.all ground && variantsInst r r'
  | _, _ => false

/-- what the arms are checked against: nothing (flexible examinee) or instances of the ground variants -/
def armVariantsOk : Option (List (PatName × List Ty)) → List (PatName × List Ty) → Bool
  | none, _ => true
  | some vs, vs' => variantsInst vs vs'

/-- every variant pattern of the arms names a variant and has as many binders as it has fields -/
def ArmsArity (vs' : List (PatName × List Ty)) : List Arm → Prop
  | [] => True
  | .mk p _ _ :: rest =>
    (∀ n bs, p = .variant n bs → ∃ tys, lookupVariant vs' n = some tys ∧ (bs.getD []).length = tys.length) ∧
    ArmsArity vs' rest

theorem lookupVariant_rel : ∀ (vs vs' : List (PatName × List Ty)) (n : PatName), variantsInst vs vs' = true →
    (lookupVariant vs' n = none → lookupVariant vs n = none) ∧
    (∀ tys', lookupVariant vs' n = some tys' → ∃ tys, lookupVariant vs n = some tys ∧ instList tys tys' = true ∧
      tys'.all ground = true) := by
  intro vs
  induction vs with
  | nil => intro vs' n h; cases vs' <;> simp_all [variantsInst, lookupVariant]
  | cons v r ih =>
    intro vs' n h
    cases vs' with
    | nil => obtain ⟨m, ts⟩ := v; simp [variantsInst] at h
    | cons v' r' =>
      obtain ⟨m, ts⟩ := v
      obtain ⟨m', ts'⟩ := v'
      simp only [variantsInst, Bool.and_eq_true] at h
      obtain ⟨⟨⟨hm, hi⟩, hgr⟩, hr⟩ := h
      have hmm := patNameEq_eq m m' hm
      subst hmm
      simp only [lookupVariant]
      by_cases hn : patNameEq m n = true
      · simp only [hn, ↓reduceIte]
        refine ⟨fun h0 => (by cases h0), fun tys' he => ?_⟩
        injection he with he; subst he; exact ⟨ts, rfl, hi, hgr⟩
      · simp only [hn, Bool.false_eq_true, ↓reduceIte]
        exact ih r' n hr

theorem instList_length : ∀ (a b : List Ty), instList a b = true → a.length = b.length := by
  intro a
  induction a with
  | nil => intro b h; cases b <;> simp_all [instList]
  | cons x r ih =>
    intro b h
    cases b with
    | nil => simp [instList] at h
    | cons y r' => simp only [instList, Bool.and_eq_true] at h; simp [ih r' h.2]

theorem zip_scopeInst : ∀ (xs : List Nat) (tys tys' : List Ty), instList tys tys' = true →
    tys'.all ground = true → scopeInst (xs.zip tys) (xs.zip tys') = true := by
  intro xs
  induction xs with
  | nil => intro tys tys' _ _; simp [scopeInst]
  | cons x r ih =>
    intro tys tys' hi hg
    cases tys with
    | nil => cases tys' <;> simp_all [instList, scopeInst]
    | cons t ts =>
      cases tys' with
      | nil => simp [instList] at hi
      | cons t' ts' =>
        simp only [instList, Bool.and_eq_true] at hi
        simp only [List.all_cons, Bool.and_eq_true] at hg
        simp [List.zip_cons_cons, scopeInst, hi.1, hg.1, ih ts ts' hi.2 hg.2]

theorem map_unknown_scopeInst : ∀ (xs : List Nat) (tys' : List Ty), xs.length = tys'.length →
    tys'.all ground = true → scopeInst (xs.map fun x => (x, Ty.unknown)) (xs.zip tys') = true := by
  intro xs
  induction xs with
  | nil => intro tys' _ _; simp [scopeInst]
  | cons x r ih =>
    intro tys' hl hg
    cases tys' with
    | nil => simp at hl
    | cons t' ts' =>
      simp only [List.all_cons, Bool.and_eq_true] at hg
      simp only [List.length_cons, Nat.add_right_cancel_iff] at hl
      simp [List.zip_cons_cons, scopeInst, inst, hg.1, ih ts' hl hg.2]

/-- declaring related bindings keeps the contexts related -/
theorem declareAll_mono : ∀ (binds binds' : List (Nat × Ty)) (g g' g1' : Gamma),
    scopeInst binds binds' = true → gammaInst g g' = true → declareAll g' binds' = some g1' →
    ∃ g1, declareAll g binds = some g1 ∧ gammaInst g1 g1' = true := by
  intro binds
  induction binds with
  | nil =>
    intro binds' g g' g1' h hg hd
    cases binds' with
    | nil => simp only [declareAll, Option.some.injEq] at hd; subst hd; exact ⟨g, rfl, hg⟩
    | cons b r => simp [scopeInst] at h
  | cons b r ih =>
    intro binds' g g' g1' h hg hd
    cases binds' with
    | nil => obtain ⟨x, t⟩ := b; simp [scopeInst] at h
    | cons b' r' =>
      obtain ⟨x, t⟩ := b
      obtain ⟨x', t'⟩ := b'
      simp only [scopeInst, Bool.and_eq_true, beq_iff_eq] at h
      obtain ⟨⟨⟨hx, hi⟩, hgr⟩, hr⟩ := h
      subst hx
      simp only [declareAll] at hd ⊢
      cases hdc : declare g' x t' with
      | none => simp [hdc] at hd
      | some g2' =>
        simp only [hdc] at hd
        obtain ⟨g2, d1, d2⟩ := gamma_declare hg x t t' hi hgr hdc
        simp only [d1]
        exact ih r' g2 g2' g1' hr d2 hd

theorem variantsInst_names : ∀ (vs vs' : List (PatName × List Ty)), variantsInst vs vs' = true →
    ∀ (c : List PatName), vs.all (fun v => c.any (patNameEq v.1)) = vs'.all (fun v => c.any (patNameEq v.1)) := by
  intro vs
  induction vs with
  | nil => intro vs' h c; cases vs' <;> simp_all [variantsInst]
  | cons v r ih =>
    intro vs' h c
    cases vs' with
    | nil => obtain ⟨m, ts⟩ := v; simp [variantsInst] at h
    | cons v' r' =>
      obtain ⟨m, ts⟩ := v
      obtain ⟨m', ts'⟩ := v'
      simp only [variantsInst, Bool.and_eq_true] at h
      obtain ⟨⟨⟨hm, _⟩, _⟩, hr⟩ := h
      have hmm := patNameEq_eq m m' hm
      subst hmm
      simp [List.all_cons, ih r' hr c]

/-- arity test of one pattern, as `matchHeads` computes it -/
def arityOk (tys : List Ty) : Option (List Nat) → Bool
  | none => tys.isEmpty
  | some xs => !tys.isEmpty && xs.length == tys.length

theorem arityOk_len {tys tys' : List Ty} (hlen : tys.length = tys'.length) (bs : Option (List Nat)) :
    arityOk tys bs = arityOk tys' bs := by
  have hemp : tys.isEmpty = tys'.isEmpty := by cases tys <;> cases tys' <;> simp_all
  cases bs <;> simp [arityOk, hemp, hlen]

theorem matchHeads_cons (vs : List (PatName × List Ty)) (h : ArmHead) (rest : List ArmHead)
    (covered : List PatName) (dflt : Bool) :
    matchHeads vs (h :: rest) covered dflt =
      (if dflt then some "unreachable-after-default" else
        match h.pat with
        | .wild => matchHeads vs rest covered (!h.guarded)
        | .variant n bs =>
          match lookupVariant vs n with
          | none => some "unknown-variant"
          | some tys =>
            if !arityOk tys bs then some "pattern-arity"
            else if covered.any (patNameEq n) then some "unreachable-duplicate-variant"
            else matchHeads vs rest (if h.guarded then covered else n :: covered) false) := by
  simp only [matchHeads]
  cases dflt with
  | true => rfl
  | false =>
    simp only [Bool.false_eq_true, ↓reduceIte]
    cases h.pat with
    | wild => rfl
    | variant n bs =>
      simp only
      cases lookupVariant vs n with
      | none => rfl
      | some tys => cases bs <;> rfl

/-- the match bookkeeping only looks at names and numbers of fields -/
theorem matchHeads_rel (vs vs' : List (PatName × List Ty)) (h : variantsInst vs vs' = true) :
    ∀ (hs : List ArmHead) (c : List PatName) (d : Bool), matchHeads vs hs c d = matchHeads vs' hs c d := by
  intro hs
  induction hs with
  | nil => intro c d; simp only [matchHeads, variantsInst_names vs vs' h c]
  | cons a r ih =>
    intro c d
    rw [matchHeads_cons, matchHeads_cons]
    cases d with
    | true => rfl
    | false =>
      simp only [Bool.false_eq_true, ↓reduceIte]
      cases hp : a.pat with
      | wild => simp only; exact ih c _
      | variant n bs =>
        simp only
        have hl := lookupVariant_rel vs vs' n h
        cases hv' : lookupVariant vs' n with
        | none => simp [hl.1 hv']
        | some tys' =>
          obtain ⟨tys, h1, h2, _⟩ := hl.2 tys' hv'
          simp only [h1, arityOk_len (instList_length tys tys' h2) bs, ih]

/-- accepted match heads: every variant pattern names a variant with as many binders as fields -/
theorem matchHeads_arity (vs' : List (PatName × List Ty)) : ∀ (arms : List Arm) (c : List PatName) (d : Bool),
    matchHeads vs' (armHeads arms) c d = none → ArmsArity vs' arms := by
  intro arms
  induction arms with
  | nil => intro c d _; trivial
  | cons a r ih =>
    intro c d h
    cases a with
    | mk p gd b =>
    simp only [armHeads] at h
    rw [matchHeads_cons] at h
    cases d with
    | true => simp at h
    | false =>
      simp only [Bool.false_eq_true, ↓reduceIte] at h
      cases p with
      | wild =>
        simp only at h
        exact ⟨fun n bs hh => (by cases hh), ih c _ h⟩
      | variant n bs =>
        simp only at h
        cases hv : lookupVariant vs' n with
        | none => simp [hv] at h
        | some tys =>
          simp only [hv] at h
          by_cases har : (!arityOk tys bs) = true
          · simp [har] at h
          · simp only [har, Bool.false_eq_true, ↓reduceIte] at h
            by_cases hc : c.any (patNameEq n) = true
            · simp [hc] at h
            · simp only [hc, Bool.false_eq_true, ↓reduceIte] at h
              refine ⟨?_, ih _ _ h⟩
              intro n' bs' hh
              injection hh with h1 h2
              subst h1; subst h2
              refine ⟨tys, hv, ?_⟩
              cases bs with
              | none => simp_all [arityOk]
              | some xs => simp_all [arityOk]

end RotoV.Typing
