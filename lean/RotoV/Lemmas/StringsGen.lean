/-
  C17: the documented meaning of the string views, proved over the definitions
  the translator GENERATES from src/value/string.rs (`Generated/C17Views.lean`,
  target `c17views`), not over a hand transcription.

  The generated definitions speak the statement translator's vocabulary
  (`Model/Builtins.lean`: `Str`, `USz`, `RQ.bind` for `?`, `RIter.nthQ` for
  `iter.nth(n)?`, `Str.index_range` for `&s[a..b]` with its panic explicit).
  `usize` is 64 bits wide (`t64`), as everywhere in C17.
-/
import RotoV.Generated.C17Views
import RotoV.Lemmas.Builtins
import RotoV.Lemmas.Strings

namespace RotoV.StringsGen
open RotoV RotoV.Gen.C17Views

/-- the 64-bit target -/
@[reducible] def t64 : Target := ⟨64⟩

attribute [local instance] t64

/-! ## unsigned `RInt` arithmetic as naturals -/

theorem toNat_bv {w : Nat} (a : RInt false w) : a.toNat = a.bv.toNat := by
  simp [RInt.toNat, RInt.val]

/-- `a.checked_sub(b)` on unsigned integers: `None` iff `a < b`, else the difference -/
theorem checked_sub_spec {w : Nat} (a b : RInt false w) :
    (RInt.checked_sub a b).map RInt.toNat =
      if b.toNat ≤ a.toNat then some (a.toNat - b.toNat) else none := by
  have ha := a.bv.isLt
  have hb := b.bv.isLt
  simp only [toNat_bv]
  unfold RInt.checked_sub RInt.inRange RInt.minVal RInt.maxVal
  simp only [RInt.val, Bool.false_eq_true, ↓reduceIte]
  by_cases h : b.bv.toNat ≤ a.bv.toNat
  · have h1 : (0 : Int) ≤ (a.bv.toNat : Int) - (b.bv.toNat : Int) := by omega
    have h2 : (a.bv.toNat : Int) - (b.bv.toNat : Int) ≤ 2 ^ w - 1 := by
      have : ((2 : Int) ^ w) = ((2 ^ w : Nat) : Int) := by simp
      omega
    simp only [h1, h2, decide_true, Bool.and_self, ↓reduceIte, Option.map_some, h]
    congr 1
    simp only [toNat_bv, RInt.ofInt, BitVec.toNat_ofInt]
    have h3 : ((a.bv.toNat : Int) - (b.bv.toNat : Int)) = ((a.bv.toNat - b.bv.toNat : Nat) : Int) := by omega
    rw [h3]
    have h4 : (a.bv.toNat - b.bv.toNat) % 2 ^ w = a.bv.toNat - b.bv.toNat := Nat.mod_eq_of_lt (by omega)
    omega
  · have h1 : ¬ ((0 : Int) ≤ (a.bv.toNat : Int) - (b.bv.toNat : Int)) := by omega
    simp [h]

theorem one_toNat : ((1 : USz)).toNat = 1 := by decide

/-! ## the char-boundary iterator -/

theorem boundariesFrom_length (off : Nat) (cs : List Char) :
    (Str.boundariesFrom off cs).length = cs.length + 1 := by
  induction cs generalizing off with
  | nil => simp [Str.boundariesFrom]
  | cons c cs ih => simp [Str.boundariesFrom, ih]

theorem boundariesFrom_get (off : Nat) (cs : List Char) (k : Nat) (h : k ≤ cs.length) :
    (Str.boundariesFrom off cs)[k]? = some (off + Str.byteLenL (cs.take k)) := by
  have hl := boundariesFrom_length off cs
  cases hx : (Str.boundariesFrom off cs)[k]? with
  | none => rw [List.getElem?_eq_none_iff] at hx; omega
  | some x => rw [(Str.boundariesFrom_getElem? cs off k x hx).2]

theorem boundariesFrom_none (off : Nat) (cs : List Char) (k : Nat) (h : cs.length < k) :
    (Str.boundariesFrom off cs)[k]? = none := by
  rw [List.getElem?_eq_none_iff, boundariesFrom_length]; omega

/-- `&s[x..y]` between the boundaries of characters `a` and `a + n` is characters `a .. a+n` -/
theorem index_range_take (cs : List Char) (a n : Nat) (h : a + n ≤ cs.length) :
    Str.index_range ⟨cs⟩ (Str.byteLenL (cs.take a)) (Str.byteLenL (cs.take (a + n))) =
      .ok ⟨(cs.drop a).take n⟩ := by
  have hsplit : Str.byteLenL (cs.take (a + n)) =
      Str.byteLenL (cs.take a) + Str.byteLenL ((cs.drop a).take n) := by
    rw [List.take_add, Str.byteLenL_append]
  have hlen : n ≤ (cs.drop a).length := by simp; omega
  simp only [Str.index_range, Str.get_range, ToOff.toOff, id]
  rw [hsplit]
  simp only [Nat.le_add_right, ↓reduceIte]
  rw [Str.dropBytes_take _ _ (by omega)]
  simp only [Nat.add_sub_cancel_left]
  rw [Str.takeBytes_take _ _ hlen]
  rfl

/-! ## `StringChars` over the generated definitions -/

/-- `StringChars::get` (generated) is the n-th character. -/
theorem gen_chars_get (dbg : Bool) (s : Str) (idx : USz) :
    StringChars_get dbg s idx = .ok (Strings.specCharsGet s.chars idx.toNat) := by
  simp [StringChars_get, Str.nth_char, Strings.specCharsGet, ToOff.toOff]

/-- `StringChars::slice` (generated from string.rs): never panics, and is
`take (j - i) (drop i s)` on characters when `i ≤ j ≤ len`, `None` otherwise —
for every string and all 64-bit `i`, `j`. -/
theorem gen_chars_slice (dbg : Bool) (s : Str) (i j : USz) :
    StringChars_slice dbg s i j =
      .ok ((Strings.specCharsSlice s.chars i.toNat j.toNat).map Str.mk) := by
  unfold StringChars_slice RQ.bind
  have hs := checked_sub_spec j i
  cases hlen : RInt.checked_sub j i with
  | none =>
    rw [hlen] at hs
    have : ¬ i.toNat ≤ j.toNat := by
      intro h; simp [h] at hs
    simp [Strings.specCharsSlice, this]
  | some len =>
    rw [hlen] at hs
    have hij : i.toNat ≤ j.toNat := by
      by_cases h : i.toNat ≤ j.toNat
      · exact h
      · simp [h] at hs
    have hl : len.toNat = j.toNat - i.toNat := by simpa [hij] using hs
    simp only [RIter.nthQ, Str.boundary_iter, ToOff.toOff]
    by_cases hi : i.toNat ≤ s.chars.length
    · rw [boundariesFrom_get _ _ _ hi]
      simp only []
      have h1 := checked_sub_spec len (1 : USz)
      rw [one_toNat] at h1
      cases hidx : RInt.checked_sub len 1 with
      | none =>
        rw [hidx] at h1
        have : ¬ 1 ≤ len.toNat := by
          intro h; simp [h] at h1
        have hji : j.toNat = i.toNat := by omega
        simp [Strings.specCharsSlice, hji, hi, Str.empty]
      | some idx =>
        rw [hidx] at h1
        have h1l : 1 ≤ len.toNat := by
          by_cases h : 1 ≤ len.toNat
          · exact h
          · simp [h] at h1
        have hidx' : idx.toNat = len.toNat - 1 := by simpa [h1l] using h1
        simp only []
        rw [List.getElem?_drop]
        have hj' : i.toNat + 1 + idx.toNat = j.toNat := by omega
        by_cases hj : j.toNat ≤ s.chars.length
        · rw [hj', boundariesFrom_get _ _ _ hj]
          simp only [Nat.zero_add]
          have hr := index_range_take s.chars i.toNat (j.toNat - i.toNat) (by omega)
          have he : i.toNat + (j.toNat - i.toNat) = j.toNat := by omega
          rw [he] at hr
          rw [hr]
          simp [Strings.specCharsSlice, hij, hj]
        · rw [hj', boundariesFrom_none _ _ _ (by omega)]
          simp [Strings.specCharsSlice, hj]
    · rw [boundariesFrom_none _ _ _ (by omega)]
      have : ¬ j.toNat ≤ s.chars.length := by omega
      simp [Strings.specCharsSlice, this]

/-! ## `StringLines::slice`: the generated definition IS the model the line theorems are about

The two std vocabularies (`Model/Builtins`: `Char.utf8Size`, option-valued
`dropBytes`; `Model/Strings`: the UTF-8 encoder written out, `is_char_boundary`
over the bytes) agree wherever `StringLines::slice` uses them. -/

theorem utf8Size_eq (c : Char) : c.utf8Size = Strings.utf8Size c := by
  unfold Char.utf8Size Strings.utf8Size Strings.utf8Char
  simp only [UInt32.le_iff_toNat_le, UInt32.toNat_ofNatLT, Char.toNat]
  generalize c.val.toNat = n
  by_cases h1 : n < 128
  · have : n ≤ 127 := by omega
    simp [h1, this]
  · have g1 : ¬ n ≤ 127 := by omega
    by_cases h2 : n < 2048
    · have : n ≤ 2047 := by omega
      simp [h1, g1, h2, this]
    · have g2 : ¬ n ≤ 2047 := by omega
      by_cases h3 : n < 65536
      · have : n ≤ 65535 := by omega
        simp [h1, g1, h2, g2, h3, this]
      · have g3 : ¬ n ≤ 65535 := by omega
        simp [h1, g1, h2, g2, h3, g3]

theorem byteLenL_eq (cs : List Char) : Str.byteLenL cs = Strings.byteLen cs := by
  induction cs with
  | nil => rfl
  | cons c cs ih =>
    simp only [Str.byteLenL, ih, utf8Size_eq, Strings.byteLen, Strings.utf8, List.length_append,
      Strings.utf8Size]

theorem afterNewlines_eq (off : Nat) (cs : List Char) :
    Str.afterNewlinesFrom off cs = Strings.nlEndsFrom off cs := by
  induction cs generalizing off with
  | nil => rfl
  | cons c cs ih =>
    simp only [Str.afterNewlinesFrom, Strings.nlEndsFrom]
    by_cases h : c = '\n'
    · subst h
      have : Strings.utf8Size '\n' = 1 := by decide
      simp only [↓reduceIte, this, ih]
    · simp only [h, ↓reduceIte, ih, utf8Size_eq]

theorem advance_eq_model (it : List Nat) (k cur : Nat) :
    Str.advance it k cur = Strings.advance k it cur := by
  induction k generalizing it cur with
  | zero => cases it <;> simp [Str.advance, Strings.advance]
  | succ k ih =>
    cases it with
    | nil => simp [Str.advance, Strings.advance]
    | cons x xs => simp [Str.advance, Strings.advance, ih]

/-- at two char boundaries in order, `&s[x..y]` means the same in both vocabularies -/
theorem index_range_isB (cs : List Char) (x y : Nat) (hx : Str.isB cs x) (hy : Str.isB cs y) (hxy : x ≤ y) :
    Str.index_range ⟨cs⟩ x y = (Strings.strIndex cs x y).map' Str.mk := by
  obtain ⟨p, hp, rfl⟩ := hx
  obtain ⟨q, hq, rfl⟩ := hy
  have hpq : p ≤ q := by
    by_cases h : p ≤ q
    · exact h
    · have := Str.byteLenL_take_lt cs q p (by omega) hp
      omega
  obtain ⟨d, rfl⟩ : ∃ d, q = p + d := ⟨q - p, by omega⟩
  rw [index_range_take cs p d hq, byteLenL_eq, byteLenL_eq, Strings.strIndex_prefix cs p (p + d) (by omega) hq]
  simp [Res.map']

theorem usz_eq_zero_iff (a : USz) : a = 0 ↔ a.toNat = 0 := by
  constructor
  · intro h; subst h; decide
  · intro h
    cases a with
    | mk bv =>
      simp only [toNat_bv] at h
      have : bv = 0 := BitVec.eq_of_toNat_eq (by simp [h])
      subst this; rfl

/-- `StringLines::slice` as GENERATED from string.rs equals, for every string and all
64-bit `i`, `j`, the model `Strings.linesSlice` that `lines_slice_spec_off_edge` and the two
refutations are stated over (panics included). -/
theorem gen_lines_slice_is_model (dbg : Bool) (s : Str) (i j : USz) :
    StringLines_slice dbg s i j =
      (Strings.linesSlice s.chars i.toNat j.toNat).map' (Option.map Str.mk) := by
  unfold StringLines_slice RQ.bind Strings.linesSlice
  have hs := checked_sub_spec j i
  cases hlen : RInt.checked_sub j i with
  | none =>
    rw [hlen] at hs
    have : j.toNat < i.toNat := by
      by_cases h : i.toNat ≤ j.toNat
      · simp [h] at hs
      · omega
    simp [this, Res.map']
  | some num =>
    rw [hlen] at hs
    have hij : i.toNat ≤ j.toNat := by
      by_cases h : i.toNat ≤ j.toNat
      · exact h
      · simp [h] at hs
    have hl : num.toNat = j.toNat - i.toNat := by simpa [hij] using hs
    have hnlt : ¬ j.toNat < i.toNat := by omega
    have h0 : Str.Good s.chars (Str.byteLenL s.chars) 0 (Str.afterNewlinesFrom 0 s.chars) := by
      have := Str.afterNewlines_good [] s.chars 0 ⟨0, by simp, by simp [Str.byteLenL]⟩ (by simp [Str.byteLenL])
      simpa [Str.byteLenL] using this
    have hub : Str.isB s.chars (Str.byteLenL s.chars) := ⟨s.chars.length, Nat.le_refl _, by simp⟩
    have hee : Strings.endsWithNl s.chars = s.ends_with_nl := rfl
    have hnum : (num = 0) ↔ (j.toNat - i.toNat = 0) := by rw [usz_eq_zero_iff, hl]
    simp only [hnlt, ↓reduceIte, hee]
    by_cases he : s.ends_with_nl <;>
      simp only [he, Str.advanceR, Str.after_newlines, Str.chain_opt, ToOff.toOff, id, Nat.sub_zero] <;>
    (cases h1 : Str.advance (Str.afterNewlinesFrom 0 s.chars) i.toNat 0 with
     | none =>
       rw [advance_eq_model, afterNewlines_eq] at h1
       simp [h1, Res.map']
     | some p =>
       obtain ⟨start_idx, iter⟩ := p
       have hg1 := Str.advance_good _ _ _ _ _ h0 h1
       have hg2e : Str.Good s.chars (Str.byteLenL s.chars) start_idx (iter ++ [s.byteLen]) := by
         simpa [Str.byteLen] using Str.good_append iter start_idx hg1.2 hub
       rw [advance_eq_model, afterNewlines_eq] at h1
       by_cases hn : j.toNat - i.toNat = 0
       · simp [h1, hn, hnum.2 hn, REq.eq, Res.map', Str.empty]
       · have hn' : ¬ num = 0 := fun h => hn (hnum.1 h)
         have hbl : Strings.byteLen s.chars = Str.byteLenL s.chars := (byteLenL_eq _).symm
         simp only [h1, hn, hn', REq.eq, ↓reduceIte, decide_false, Res.bind_ok, Res.pure_eq,
           Bool.false_eq_true, Option.toList, List.append_nil, Str.byteLen, hbl]
         cases h2 : Str.advance _ (j.toNat - i.toNat) start_idx with
         | none =>
           rw [advance_eq_model] at h2
           simp [h2, Res.map']
         | some a =>
           have hg3 := Str.advance_good _ _ _ a.fst a.snd (by first | exact hg1.2 | exact hg2e) h2
           have hr := index_range_isB s.chars start_idx a.fst hg1.2.isB hg3.2.isB hg3.1
           rw [advance_eq_model] at h2
           simp [h2, hr, Res.map']
           cases Strings.strIndex s.chars start_idx a.fst <;> simp)

/-! ## `StringBytes::get/slice`, `StringLines::get` over the generated definitions

`Str.dropBytes/takeBytes` (option-valued, `Model/Builtins`) against `is_char_boundary` over
the encoded bytes (`Model/Strings`): both are "the offset is where a character starts". -/

theorem dropBytes_some (cs : List Char) (i : Nat) (t : List Char) (h : Str.dropBytes cs i = some t) :
    ∃ k, k ≤ cs.length ∧ Str.byteLenL (cs.take k) = i := by
  induction cs generalizing i with
  | nil =>
    cases i with
    | zero => exact ⟨0, by simp, by simp [Str.byteLenL]⟩
    | succ i => simp [Str.dropBytes] at h
  | cons c cs ih =>
    cases i with
    | zero => exact ⟨0, by simp, by simp [Str.byteLenL]⟩
    | succ i =>
      simp only [Str.dropBytes] at h
      split at h
      · rename_i hle
        obtain ⟨k, hk, he⟩ := ih _ h
        exact ⟨k + 1, by simpa using hk, by simp [Str.byteLenL, he]; omega⟩
      · simp at h

/-- `s.get(i..)` in the translator's vocabulary: the characters from the one that starts at byte `i` -/
theorem dropBytes_eq (cs : List Char) (i : Nat) :
    Str.dropBytes cs i = (Strings.boundaryIdx cs i).map (fun k => cs.drop k) := by
  cases hb : Strings.boundaryIdx cs i with
  | some k =>
    obtain ⟨hk, he⟩ := (Strings.boundaryIdx_iff cs i k).1 hb
    rw [← he, ← byteLenL_eq, Str.dropBytes_take _ _ hk]; rfl
  | none =>
    cases hd : Str.dropBytes cs i with
    | none => rfl
    | some t =>
      obtain ⟨k, hk, he⟩ := dropBytes_some cs i t hd
      have := (Strings.boundaryIdx_iff cs i k).2 ⟨hk, by rw [← byteLenL_eq]; exact he⟩
      simp [hb] at this

theorem strGetFrom_eq (cs : List Char) (i : Nat) :
    Strings.strGetFrom cs i = (Strings.boundaryIdx cs i).map (fun k => cs.drop k) := by
  unfold Strings.strGetFrom
  rw [Strings.isCharBoundary_eq_isSome]
  cases hb : Strings.boundaryIdx cs i with
  | some k =>
    obtain ⟨hk, he⟩ := (Strings.boundaryIdx_iff cs i k).1 hb
    simp [← he, Strings.dropBytes_prefix cs k hk]
  | none => simp

/-- `StringBytes::get` (generated) = the model `bytesGet` = the documented meaning. -/
theorem gen_bytes_get (dbg : Bool) (s : Str) (idx : USz) :
    StringBytes_get dbg s idx = .ok (Strings.specBytesGet s.chars idx.toNat) := by
  rw [← Strings.bytesGet_eq_spec]
  simp only [StringBytes_get, Str.get_from, ToOff.toOff, dropBytes_eq, Strings.bytesGet, strGetFrom_eq,
    Str.next_char, Res.pure_eq]
  cases Strings.boundaryIdx s.chars idx.toNat <;> simp

/-- `StringLines::get` (generated) has the body of `StringBytes::get`. -/
theorem gen_lines_get (dbg : Bool) (s : Str) (idx : USz) :
    StringLines_get dbg s idx = .ok (Strings.linesGet s.chars idx.toNat) := by
  have : Strings.linesGet s.chars idx.toNat = Strings.specBytesGet s.chars idx.toNat :=
    Strings.bytesGet_eq_spec _ _
  rw [this, ← gen_bytes_get dbg]; rfl
theorem takeBytes_some (cs : List Char) (i : Nat) (t : List Char) (h : Str.takeBytes cs i = some t) :
    ∃ k, k ≤ cs.length ∧ Str.byteLenL (cs.take k) = i := by
  induction cs generalizing i t with
  | nil =>
    cases i with
    | zero => exact ⟨0, by simp, by simp [Str.byteLenL]⟩
    | succ i => simp [Str.takeBytes] at h
  | cons c cs ih =>
    cases i with
    | zero => exact ⟨0, by simp, by simp [Str.byteLenL]⟩
    | succ i =>
      simp only [Str.takeBytes] at h
      split at h
      · rename_i hle
        cases ht : Str.takeBytes cs (i + 1 - c.utf8Size) with
        | none => simp [ht] at h
        | some t' =>
          obtain ⟨k, hk, he⟩ := ih _ _ ht
          exact ⟨k + 1, by simpa using hk, by simp [Str.byteLenL, he]; omega⟩
      · simp at h

theorem takeBytes_eq (cs : List Char) (i : Nat) :
    Str.takeBytes cs i = (Strings.boundaryIdx cs i).map (fun k => cs.take k) := by
  cases hb : Strings.boundaryIdx cs i with
  | some k =>
    obtain ⟨hk, he⟩ := (Strings.boundaryIdx_iff cs i k).1 hb
    rw [← he, ← byteLenL_eq, Str.takeBytes_take _ _ hk]; rfl
  | none =>
    cases hd : Str.takeBytes cs i with
    | none => rfl
    | some t =>
      obtain ⟨k, hk, he⟩ := takeBytes_some cs i t hd
      have := (Strings.boundaryIdx_iff cs i k).2 ⟨hk, by rw [← byteLenL_eq]; exact he⟩
      simp [hb] at this

/-- `s.get(a..b)` means the same in both vocabularies, for ALL offsets -/
theorem get_range_eq (cs : List Char) (a b : Nat) :
    Str.get_range ⟨cs⟩ a b = (Strings.strGet cs a b).map Str.mk := by
  simp only [Str.get_range, ToOff.toOff, id, dropBytes_eq, takeBytes_eq]
  unfold Strings.strGet
  rw [Strings.isCharBoundary_eq_isSome, Strings.isCharBoundary_eq_isSome]
  by_cases hab : a ≤ b
  · simp only [hab, ↓reduceIte, true_and]
    cases ha : Strings.boundaryIdx cs a with
    | none => simp
    | some k =>
      obtain ⟨hk, hea⟩ := (Strings.boundaryIdx_iff cs a k).1 ha
      simp only [Option.map_some, Option.isSome_some, true_and]
      cases hb : Strings.boundaryIdx cs b with
      | some k' =>
        obtain ⟨hk', heb⟩ := (Strings.boundaryIdx_iff cs b k').1 hb
        have hkk : k ≤ k' := by
          by_cases h : k ≤ k'
          · exact h
          · have := Strings.byteLen_take_strictMono cs k' k (by omega) hk
            omega
        have hd : Strings.boundaryIdx (cs.drop k) (b - a) = some (k' - k) := by
          rw [Strings.boundaryIdx_iff]
          refine ⟨by simp; omega, ?_⟩
          rw [List.take_drop] at *
          have := Strings.byteLen_take_drop cs k k' hkk hk'
          rw [← List.take_drop] 
          rw [this, hea, heb]
        have hg := Strings.strGet_prefix cs k k' hkk hk'
        unfold Strings.strGet at hg
        rw [Strings.isCharBoundary_eq_isSome, Strings.isCharBoundary_eq_isSome, hea, heb, ha, hb] at hg
        simp only [hab, Option.isSome_some, and_self, ↓reduceIte] at hg
        simp only [hd, Option.map_some, Option.isSome_some, ↓reduceIte, hg]
      | none =>
        simp only [Option.isSome_none, Bool.false_eq_true, ↓reduceIte, Option.map_none]
        cases hd : Strings.boundaryIdx (cs.drop k) (b - a) with
        | none => simp
        | some m =>
          obtain ⟨hm, hem⟩ := (Strings.boundaryIdx_iff _ _ _).1 hd
          have hm' : k + m ≤ cs.length := by simp at hm; omega
          have h1 := Strings.byteLen_take_drop cs k (k + m) (by omega) hm'
          simp only [Nat.add_sub_cancel_left] at h1
          have h2 := Strings.byteLen_take_mono cs k (k + m) (by omega) hm'
          have := (Strings.boundaryIdx_iff cs b (k + m)).2 ⟨hm', by omega⟩
          simp [hb] at this
  · simp [hab]

/-- `StringBytes::slice` (generated) = the documented meaning, for all strings and offsets. -/
theorem gen_bytes_slice (dbg : Bool) (s : Str) (i j : USz) :
    StringBytes_slice dbg s i j = .ok ((Strings.specBytesSlice s.chars i.toNat j.toNat).map Str.mk) := by
  have h := Strings.bytesSlice_eq_spec s.chars i.toNat j.toNat
  simp only [Strings.bytesSlice, Res.ok.injEq] at h
  rw [← h, ← get_range_eq]
  rfl

/-! ## the script-visible built-ins: basic.rs closure (generated) ∘ string.rs body (generated) -/

/-- `u64 → usize` never fails on a 64-bit target and keeps the value -/
theorem try_into_u64' (a : U64) : (RInt.try_into a : Option (RInt false 64)) = some ⟨a.bv⟩ := by
  have h := a.bv.isLt
  unfold RInt.try_into RInt.inRange RInt.minVal RInt.maxVal
  simp only [RInt.val, Bool.false_eq_true, ↓reduceIte]
  have h1 : (0 : Int) ≤ (a.bv.toNat : Int) := by omega
  have h2 : (a.bv.toNat : Int) ≤ 2 ^ 64 - 1 := by omega
  simp only [h1, h2, decide_true, Bool.and_self, ↓reduceIte, RInt.ofInt, BitVec.ofInt_natCast,
    BitVec.ofNat_toNat, BitVec.setWidth_eq]

theorem try_into_u64 (a : U64) : (RInt.try_into a : Option USz) = some ⟨a.bv⟩ := try_into_u64' a

theorem u64_toNat (a : U64) : (⟨a.bv⟩ : USz).toNat = a.toNat := by simp [toNat_bv]

/-- the script-visible `chars().slice(start, end)` (basic.rs closure + string.rs body, both generated) -/
theorem gen_builtin_chars_slice (dbg : Bool) (s : Str) (i j : U64) :
    bind_StringChars_slice dbg s i j =
      .ok ((Strings.specCharsSlice s.chars i.toNat j.toNat).map Str.mk) := by
  simp only [bind_StringChars_slice, RQ.bind, try_into_u64, gen_chars_slice, u64_toNat]

theorem gen_builtin_chars_get (dbg : Bool) (s : Str) (i : U64) :
    bind_StringChars_get dbg s i = .ok (Strings.specCharsGet s.chars i.toNat) := by
  simp only [bind_StringChars_get, RQ.bind, try_into_u64, gen_chars_get, u64_toNat]

theorem gen_builtin_bytes_slice (dbg : Bool) (s : Str) (i j : U64) :
    bind_StringBytes_slice dbg s i j =
      .ok ((Strings.specBytesSlice s.chars i.toNat j.toNat).map Str.mk) := by
  simp only [bind_StringBytes_slice, RQ.bind, try_into_u64, gen_bytes_slice, u64_toNat]

theorem gen_builtin_bytes_get (dbg : Bool) (s : Str) (i : U64) :
    bind_StringBytes_get dbg s i = .ok (Strings.specBytesGet s.chars i.toNat) := by
  simp only [bind_StringBytes_get, RQ.bind, try_into_u64, gen_bytes_get, u64_toNat]

theorem gen_builtin_lines_slice (dbg : Bool) (s : Str) (i j : U64) :
    bind_StringLines_slice dbg s i j =
      (Strings.linesSlice s.chars i.toNat j.toNat).map' (Option.map Str.mk) := by
  simp only [bind_StringLines_slice, RQ.bind, try_into_u64, gen_lines_slice_is_model, u64_toNat]

theorem gen_builtin_lines_get (dbg : Bool) (s : Str) (i : U64) :
    bind_StringLines_get dbg s i = .ok (Strings.linesGet s.chars i.toNat) := by
  simp only [bind_StringLines_get, RQ.bind, try_into_u64, gen_lines_get, u64_toNat]
end RotoV.StringsGen
