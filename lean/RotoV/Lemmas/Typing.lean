/-
  Lemmas for C07 about the declarative checker `D` (`Model/Typing.lean`):
  the flexible types never make `D` reject a script that has a well-typed,
  fully annotated completion (core fragment).
-/
import RotoV.Model.Typing

namespace RotoV.Typing

/-- no flexible type inside -/
def ground : Ty → Bool
  | .anyInt _ | .anyFloat | .unknown | .never => false
  | .opt t => ground t
  | .list t => ground t
  | .verdict a r => ground a && ground r
  | _ => true

/-- `inst f g`: the ground type `g` is an instance of the (flexible) type `f` -/
def inst : Ty → Ty → Bool
  | .unknown, _ => true
  | .never, _ => true
  | .anyInt s, .int t => !s || t.signed
  | .anyFloat, .f32 => true
  | .anyFloat, .f64 => true
  | .opt a, .opt b => inst a b
  | .list a, .list b => inst a b
  | .verdict a b, .verdict c d => inst a c && inst b d
  | .int a, .int b => a == b
  | .f32, .f32 => true
  | .f64, .f64 => true
  | .bool, .bool => true
  | .string, .string => true
  | .unit, .unit => true
  | .named a, .named b => a == b
  | .prim a, .prim b => a == b
  | _, _ => false

theorem inst_self : ∀ g, ground g = true → inst g g = true := by
  intro g
  induction g with
  | opt t ih => intro h; simp only [ground] at h; simp only [inst]; exact ih h
  | list t ih => intro h; simp only [ground] at h; simp only [inst]; exact ih h
  | verdict a r iha ihr =>
    intro h; simp only [ground, Bool.and_eq_true] at h
    simp only [inst, Bool.and_eq_true]; exact ⟨iha h.1, ihr h.2⟩
  | _ => intro h; simp_all [ground, inst]

/-- two flexible types with a common instance are compatible, and their meet
    still has that instance -/
theorem inst_compat_meet : ∀ (g a b : Ty), inst a g = true → inst b g = true →
    compat a b = true ∧ inst (meet a b) g = true := by
  intro g
  induction g with
  | opt g ih =>
    intro a b ha hb
    cases a <;> cases b <;> simp_all [inst, compat, meet]
    all_goals (rename_i x y; exact ih x y ha hb)
  | list g ih =>
    intro a b ha hb
    cases a <;> cases b <;> simp_all [inst, compat, meet]
    all_goals (rename_i x y; exact ih x y ha hb)
  | verdict g1 g2 ih1 ih2 =>
    intro a b ha hb
    cases a <;> cases b <;> simp_all [inst, compat, meet]
    all_goals (
      rename_i x1 x2 y1 y2
      exact ⟨⟨(ih1 x1 y1 ha.1 hb.1).1, (ih2 x2 y2 ha.2 hb.2).1⟩, (ih1 x1 y1 ha.1 hb.1).2, (ih2 x2 y2 ha.2 hb.2).2⟩)
  | int t =>
    intro a b ha hb
    cases a <;> cases b <;> simp_all [inst, compat, meet]
    rename_i s1 s2
    cases s1 <;> cases s2 <;> simp_all
  | _ =>
    intro a b ha hb
    cases a <;> cases b <;> simp_all [inst, compat, meet]

theorem inst_compat (f g : Ty) (hg : ground g = true) (h : inst f g = true) : compat f g = true :=
  (inst_compat_meet g f g h (inst_self g hg)).1

/-- on ground types compatibility is equality -/
theorem compat_ground_eq : ∀ (a b : Ty), ground a = true → ground b = true → compat a b = true → a = b := by
  intro a
  induction a with
  | opt t ih =>
    intro b ha hb h
    cases b <;> simp_all [ground, compat]
    all_goals (rename_i u; exact ih u hb h)
  | list t ih =>
    intro b ha hb h
    cases b <;> simp_all [ground, compat]
    all_goals (rename_i u; exact ih u hb h)
  | verdict a r iha ihr =>
    intro b ha hb h
    cases b <;> simp_all [ground, compat]
    all_goals (rename_i u v; exact ⟨iha u hb.1 h.1, ihr v hb.2 h.2⟩)
  | _ =>
    intro b ha hb h
    cases b <;> simp_all [ground, compat]

theorem meet_self : ∀ g, ground g = true → meet g g = g := by
  intro g
  induction g with
  | opt t ih => intro h; simp only [ground] at h; simp [meet, ih h]
  | list t ih => intro h; simp only [ground] at h; simp [meet, ih h]
  | verdict a r iha ihr =>
    intro h; simp only [ground, Bool.and_eq_true] at h
    simp [meet, iha h.1, ihr h.2]
  | _ => intro h; simp_all [ground, meet]

theorem inst_numeric (f g : Ty) (h : inst f g = true) (hn : isNumeric g = true) : isNumeric f = true := by
  cases f <;> cases g <;> simp_all [inst, isNumeric]

theorem inst_isInt (f g : Ty) (h : inst f g = true) (hn : isInt g = true) : isInt f = true := by
  cases f <;> cases g <;> simp_all [inst, isInt]

theorem inst_bool (f : Ty) (h : inst f .bool = true) : compat f .bool = true := by
  cases f <;> simp_all [inst, compat]

theorem inst_string (f : Ty) (h : inst f .string = true) : compat f .string = true := by
  cases f <;> simp_all [inst, compat]

theorem num_branch (a b g : Ty) (ha : inst a g = true) (hb : inst b g = true)
    (hn : isNumeric g = true) :
    isNumeric a = true ∧ isNumeric b = true ∧ compat a b = true ∧ inst (meet a b) g = true :=
  ⟨inst_numeric a g ha hn, inst_numeric b g hb hn, inst_compat_meet g a b ha hb⟩

theorem inst_flex_of_not_numeric_left {a g : Ty} (ha : inst a g = true) (hn : isNumeric a = true)
    (hg : isNumeric g = false) : a = .unknown ∨ a = .never := by
  cases a <;> cases g <;> simp_all [inst, isNumeric]

/-- an instance of `String` is `String` itself or fully flexible -/
theorem inst_string_cases {a : Ty} (h : inst a .string = true) : a = .string ∨ a = .unknown ∨ a = .never := by
  cases a <;> simp_all [inst]

theorem inst_list_cases {a x : Ty} (h : inst a (.list x) = true) :
    (∃ a', a = .list a' ∧ inst a' x = true) ∨ a = .unknown ∨ a = .never := by
  cases a <;> simp_all [inst]

theorem ground_numeric_not_list {g : Ty} : isNumeric (.list g) = false := rfl

/-- the operator rule is monotone: if it allows the operator on ground
    instances of the operand types, it allows it on the flexible types, with a
    result that has the ground result as an instance -/
theorem binop_mono (op : BinOp) (a b ga gb gr : Ty)
    (ha : inst a ga = true) (hb : inst b gb = true)
    (hga : ground ga = true) (hgb : ground gb = true)
    (h : binopTy op ga gb = some gr) :
    ∃ r, binopTy op a b = some r ∧ inst r gr = true ∧ ground gr = true := by
  have same : compat ga gb = true → ga = gb := compat_ground_eq ga gb hga hgb
  cases op with
  | and | or =>
    simp only [binopTy] at h ⊢
    by_cases hc : (compat ga .bool && compat gb .bool) = true
    · simp only [hc, ↓reduceIte, Option.some.injEq] at h
      subst h
      simp only [Bool.and_eq_true] at hc
      have h1 := compat_ground_eq ga .bool hga rfl hc.1
      have h2 := compat_ground_eq gb .bool hgb rfl hc.2
      subst h1; subst h2
      simp [inst_bool a ha, inst_bool b hb, inst, ground]
    · simp [hc] at h
  | eq | ne =>
    simp only [binopTy] at h ⊢
    by_cases hc : compat ga gb = true
    · simp only [hc, ↓reduceIte, Option.some.injEq] at h
      subst h
      have := same hc; subst this
      simp [(inst_compat_meet ga a b ha hb).1, inst, ground]
    · simp [hc] at h
  | lt | le | gt | ge =>
    simp only [binopTy] at h ⊢
    by_cases hc : (isNumeric ga && isNumeric gb && compat ga gb) = true
    · simp only [hc, ↓reduceIte, Option.some.injEq] at h
      subst h
      simp only [Bool.and_eq_true] at hc
      have := same hc.2; subst this
      obtain ⟨h1, h2, h3, _⟩ := num_branch a b ga ha hb hc.1.1
      simp [h1, h2, h3, inst, ground]
    · simp [hc] at h
  | sub | mul | div =>
    simp only [binopTy] at h ⊢
    by_cases hc : (isNumeric ga && isNumeric gb && compat ga gb) = true
    · simp only [hc, ↓reduceIte, Option.some.injEq] at h
      subst h
      simp only [Bool.and_eq_true] at hc
      have := same hc.2; subst this
      obtain ⟨h1, h2, h3, h4⟩ := num_branch a b ga ha hb hc.1.1
      rw [meet_self ga hga]
      simp [h1, h2, h3, h4, hga]
    · simp [hc] at h
  | mod =>
    simp only [binopTy] at h ⊢
    by_cases hc : (isInt ga && isInt gb && compat ga gb) = true
    · simp only [hc, ↓reduceIte, Option.some.injEq] at h
      subst h
      simp only [Bool.and_eq_true] at hc
      have := same hc.2; subst this
      have h1 := inst_isInt a ga ha hc.1.1
      have h2 := inst_isInt b ga hb hc.1.1
      obtain ⟨h3, h4⟩ := inst_compat_meet ga a b ha hb
      rw [meet_self ga hga]
      simp [h1, h2, h3, h4, hga]
    · simp [hc] at h
  | add =>
    simp only [binopTy] at h
    by_cases hc : (isNumeric ga && isNumeric gb && compat ga gb) = true
    · simp only [hc, ↓reduceIte, Option.some.injEq] at h
      subst h
      simp only [Bool.and_eq_true] at hc
      have := same hc.2; subst this
      obtain ⟨h1, h2, h3, h4⟩ := num_branch a b ga ha hb hc.1.1
      rw [meet_self ga hga]
      refine ⟨meet a b, ?_, h4, hga⟩
      simp [binopTy, h1, h2, h3]
    · simp only [hc, Bool.false_eq_true, ↓reduceIte] at h
      by_cases hs : (compat ga .string && compat gb .string) = true
      · simp only [hs, ↓reduceIte, Option.some.injEq] at h
        subst h
        simp only [Bool.and_eq_true] at hs
        have h1 := compat_ground_eq ga .string hga rfl hs.1
        have h2 := compat_ground_eq gb .string hgb rfl hs.2
        subst h1; subst h2
        -- instances of String: String itself or fully flexible
        rcases inst_string_cases ha with e1 | e1 | e1 <;> rcases inst_string_cases hb with e2 | e2 | e2 <;>
          subst e1 <;> subst e2 <;> simp [binopTy, isNumeric, compat, meet, inst, ground]
      · simp only [hs, Bool.false_eq_true, ↓reduceIte] at h
        -- two lists of one element type
        cases ga with
        | list x =>
          cases gb with
          | list y =>
            simp only at h
            by_cases hxy : compat x y = true
            · simp only [hxy, ↓reduceIte, Option.some.injEq] at h
              subst h
              simp only [ground] at hga hgb
              have := compat_ground_eq x y hga hgb hxy; subst this
              rw [meet_self x hga]
              rcases inst_list_cases ha with ⟨a', e1, i1⟩ | e1 | e1 <;>
                rcases inst_list_cases hb with ⟨b', e2, i2⟩ | e2 | e2 <;> subst e1 <;> subst e2
              · obtain ⟨c, m⟩ := inst_compat_meet x a' b' i1 i2
                simp [binopTy, isNumeric, compat, c, inst, m, ground, hga]
              all_goals simp_all [binopTy, isNumeric, compat, meet, inst, ground]
            · simp [hxy] at h
          | _ => first | (simp at h; done) | (simp [ground] at hgb; done)
        | _ => first | (simp at h; done) | (simp [ground] at hga; done) | (cases gb <;> simp at h)

theorem neg_mono (a g gr : Ty) (ha : inst a g = true) (hg : ground g = true)
    (h : negTy g = some gr) : ∃ r, negTy a = some r ∧ inst r gr = true ∧ ground gr = true := by
  unfold negTy at h
  by_cases hn : isNegatable g = true
  · simp only [hn, ↓reduceIte, Option.some.injEq] at h
    have hgr : gr = g := by
      cases g <;> simp_all [ground]
    subst hgr
    cases a <;> cases gr <;> simp_all [inst, negTy, isNegatable, ground]
  · simp [hn] at h

/-! ### contexts: a flexible context above a ground one -/

def scopeInst : Scope → Scope → Bool
  | [], [] => true
  | (x, tf) :: r, (y, tg) :: r' => x == y && inst tf tg && ground tg && scopeInst r r'
  | _, _ => false

def gammaInst : Gamma → Gamma → Bool
  | [], [] => true
  | s :: r, s' :: r' => scopeInst s s' && gammaInst r r'
  | _, _ => false

theorem scope_lookup {s s' : Scope} (h : scopeInst s s' = true) (x : Nat) :
    (∀ tg, s'.lookup x = some tg → ∃ tf, s.lookup x = some tf ∧ inst tf tg = true ∧ ground tg = true) ∧
    (s'.lookup x = none → s.lookup x = none) := by
  induction s generalizing s' with
  | nil => cases s' <;> simp_all [scopeInst, List.lookup]
  | cons p r ih =>
    cases s' with
    | nil => simp [scopeInst] at h
    | cons p' r' =>
      obtain ⟨y, tf⟩ := p
      obtain ⟨y', tg⟩ := p'
      simp only [scopeInst, Bool.and_eq_true, beq_iff_eq] at h
      obtain ⟨⟨⟨hy, hi⟩, hgr⟩, hr⟩ := h
      subst hy
      simp only [List.lookup]
      by_cases hx : x = y
      · subst hx
        simp only [beq_self_eq_true]
        exact ⟨fun tg' he => by injection he with he; subst he; exact ⟨tf, rfl, hi, hgr⟩, fun he => by cases he⟩
      · have : (x == y) = false := by simpa using hx
        simp only [this]
        exact ih hr

theorem gamma_lookup {g g' : Gamma} (h : gammaInst g g' = true) (x : Nat) (tg : Ty)
    (hl : lookupVar g' x = some tg) :
    ∃ tf, lookupVar g x = some tf ∧ inst tf tg = true ∧ ground tg = true := by
  induction g generalizing g' with
  | nil => cases g' <;> simp_all [gammaInst, lookupVar]
  | cons s r ih =>
    cases g' with
    | nil => simp [gammaInst] at h
    | cons s' r' =>
      simp only [gammaInst, Bool.and_eq_true] at h
      obtain ⟨hs, hr⟩ := h
      simp only [lookupVar] at hl ⊢
      have hsl := scope_lookup hs x
      cases hl' : s'.lookup x with
      | some t =>
        simp only [hl', Option.some.injEq] at hl
        subst hl
        obtain ⟨tf, h1, h2, h3⟩ := hsl.1 t hl'
        exact ⟨tf, by simp [h1], h2, h3⟩
      | none =>
        simp only [hl'] at hl
        simp only [hsl.2 hl']
        exact ih hr hl

theorem gamma_declare {g g' g1' : Gamma} (h : gammaInst g g' = true) (x : Nat) (tf tg : Ty)
    (hi : inst tf tg = true) (hg : ground tg = true) (hd : declare g' x tg = some g1') :
    ∃ g1, declare g x tf = some g1 ∧ gammaInst g1 g1' = true := by
  cases g with
  | nil =>
    cases g' with
    | nil =>
      simp only [declare, Option.some.injEq] at hd
      subst hd
      exact ⟨[[(x, tf)]], rfl, by simp [gammaInst, scopeInst, hi, hg]⟩
    | cons s' r' => simp [gammaInst] at h
  | cons s r =>
    cases g' with
    | nil => simp [gammaInst] at h
    | cons s' r' =>
      simp only [gammaInst, Bool.and_eq_true] at h
      obtain ⟨hs, hr⟩ := h
      simp only [declare] at hd ⊢
      cases hl' : s'.lookup x with
      | some t => simp [hl'] at hd
      | none =>
        simp only [hl', Option.isSome_none, Bool.false_eq_true, ↓reduceIte, Option.some.injEq] at hd
        subst hd
        have := (scope_lookup hs x).2 hl'
        simp only [this, Option.isSome_none, Bool.false_eq_true, ↓reduceIte]
        exact ⟨_, rfl, by simp [gammaInst, scopeInst, hi, hg, hs, hr]⟩

theorem gamma_push {g g' : Gamma} (h : gammaInst g g' = true) : gammaInst ([] :: g) ([] :: g') = true := by
  simp [gammaInst, scopeInst, h]

end RotoV.Typing
