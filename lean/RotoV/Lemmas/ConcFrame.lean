/-
  C12, T7 — lemmas about the slot-storage machine of `Model/ConcFrame`.
-/
import RotoV.Model.ConcFrame

namespace RotoV.Conc.Frame

theorem addr_frame (st : Nat → Storage) (h : ∀ v, st v = .frame) (a v off : Nat) :
    addr st a v off = (some a, v, off) := by
  simp only [addr, h v]

/-- two memories that agree on the frame of activation `a` -/
def AgreeOn (a : Nat) (m m' : Mem) : Prop := ∀ v off, m (some a, v, off) = m' (some a, v, off)

theorem agree_upd_own (a : Nat) (m m' : Mem) (h : AgreeOn a m m') (v off x : Nat) :
    AgreeOn a (upd m (some a, v, off) x) (upd m' (some a, v, off) x) := by
  intro w o
  simp only [upd]
  split
  · rfl
  · exact h w o

theorem agree_upd_other (a b : Nat) (hb : b ≠ a) (m m' : Mem) (h : AgreeOn a m m') (v off x : Nat) :
    AgreeOn a (upd m (some b, v, off) x) m' := by
  intro w o
  simp only [upd]
  split
  · rename_i heq
    have : a = b := by
      have := congrArg Prod.fst heq
      simpa using this
    exact absurd this.symm hb
  · exact h w o

/-- the core induction: with frame storage, what `a` observes in any interleaving
from `m` is what it observes alone from any memory agreeing with `m` on its frame -/
theorem obs_frame_agree (st : Nat → Storage) (hst : ∀ v, st v = .frame) (a : Nat) :
    ∀ (tr : List Ev) (m m' : Mem), AgreeOn a m m' → obs st a m tr = obs st a m' (solo a tr) := by
  intro tr
  induction tr with
  | nil => intro m m' _; rfl
  | cons e tr ih =>
    intro m m' h
    cases e with
    | write b v off x =>
      by_cases hb : b = a
      · subst hb
        have hs : solo b (Ev.write b v off x :: tr) = Ev.write b v off x :: solo b tr := by
          simp [solo, Ev.act]
        rw [hs]
        simp only [obs, addr_frame st hst]
        exact ih _ _ (agree_upd_own b m m' h v off x)
      · have hs : solo a (Ev.write b v off x :: tr) = solo a tr := by
          simp [solo, Ev.act, hb]
        rw [hs]
        simp only [obs, addr_frame st hst]
        exact ih _ _ (agree_upd_other a b hb m m' h v off x)
    | read b v off =>
      by_cases hb : b = a
      · subst hb
        have hs : solo b (Ev.read b v off :: tr) = Ev.read b v off :: solo b tr := by
          simp [solo, Ev.act]
        rw [hs]
        simp only [obs, addr_frame st hst, if_true]
        rw [h v off, ih m m' h]
      · have hs : solo a (Ev.read b v off :: tr) = solo a tr := by
          simp [solo, Ev.act, hb]
        rw [hs]
        simp only [obs, if_neg hb]
        exact ih m m' h

theorem armOk_slot_frame (a : SlotArm) (hc : a.cls = .stackSlot) (h : armOk a = true) :
    storageOfArm a = .frame := by
  unfold armOk at h
  rw [hc] at h
  simp only [beq_iff_eq] at h
  simp [storageOfArm, h]

theorem slotsInFrame_arms (f : Facts) (h : slotsInFrame f = true) :
    ∀ a ∈ f.slotArms, a.cls = .stackSlot → storageOfArm a = .frame := by
  intro a ha hc
  unfold slotsInFrame at h
  simp only [Bool.and_eq_true, List.all_eq_true] at h
  exact armOk_slot_frame a hc (h.1.1.1.1.1.1.1.1.2 a ha)

theorem slotsInFrame_data (f : Facts) (h : slotsInFrame f = true) :
    ∀ d ∈ f.dataObjects, d.writable = some false ∧ d.tls = some false := by
  intro d hd
  unfold slotsInFrame at h
  simp only [Bool.and_eq_true, List.all_eq_true] at h
  have := h.1.1.2 d hd
  simpa [dataOk] using this

theorem slotsInFrame_host (f : Facts) (h : slotsInFrame f = true) :
    f.hostInvokes ≠ [] ∧ ∀ i ∈ f.hostInvokes, i.retIsLocal = true ∧ i.clean = true := by
  unfold slotsInFrame at h
  simp only [Bool.and_eq_true, List.all_eq_true, Bool.not_eq_true', List.isEmpty_eq_false_iff] at h
  exact ⟨h.1.2, fun i hi => h.2 i hi⟩

end RotoV.Conc.Frame
