/-
  Helper lemmas for Props/C07Builtin.lean (core only).
-/
import RotoV.Model.TcBuiltin

namespace RotoV.TcBuiltin

/-- two lists of equal length whose `zip` is pairwise equal are equal -/
theorem eq_of_length_zip {α : Type} [DecidableEq α] :
    ∀ (l1 l2 : List α), l1.length = l2.length →
      (l1.zip l2).all (fun p => p.1 == p.2) = true → l1 = l2
  | [], [], _, _ => rfl
  | [], _ :: _, h, _ => by simp at h
  | _ :: _, [], h, _ => by simp at h
  | a :: l1, b :: l2, h, hz => by
    simp only [List.zip_cons_cons, List.all_cons, Bool.and_eq_true, beq_iff_eq] at hz
    simp only [List.length_cons, Nat.add_right_cancel_iff] at h
    rw [hz.1, eq_of_length_zip l1 l2 h hz.2]

/-- with all four tests present the comparison of `resolve_obligations` is equality of signatures -/
theorem sigFitsWith_all_exact {α : Type} [DecidableEq α] (found required : Sig α)
    (h : sigFitsWith true true true true found required = true) : found = required := by
  obtain ⟨ps, r⟩ := found
  obtain ⟨qs, q⟩ := required
  simp only [sigFitsWith, Bool.not_true, Bool.false_or, Bool.and_eq_true, beq_iff_eq] at h
  obtain ⟨⟨hl, hz⟩, hr⟩ := h
  rw [eq_of_length_zip ps qs hl hz, hr]

end RotoV.TcBuiltin
