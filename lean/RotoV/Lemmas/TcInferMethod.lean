/-
  C07, `infer_sound` for METHOD CALLS (`e.m(args)` on the built-in types List and
  String): `TypeChecker::method_call` / the `Method` arm of
  `resolve_expression_path` in the model `TcInfer.infer` against the declarative
  rule `Typing.synth (.mcall …)`.
-/
import RotoV.Lemmas.TcInferSound

namespace RotoV.TcInfer
open RotoV.Typing RotoV.Unify RotoV.Gen

/-- what the declarative checker does with a method call once the receiver is typed -/
def mcallK (env : Env) (ctx : Ctx) (gd : Gamma) (m : Nat) (args : List Expr) (tD : Ty) (dD : Bool) : R (Ty × Bool) :=
  match methodSig tD m with
  | some (ps, r) =>
    if args.length != ps.length then fail "arity" else do
      let d' ← checkArgs env ctx gd args ps
      pure (r, dD || d')
  | none =>
    match tD with
    | .unknown | .never => do
      let (_, d') ← synthList env ctx gd args
      pure (.unknown, dD || d')
    | _ => fail "no-method"

theorem synth_mcall {env : Env} {ctx : Ctx} {gd : Gamma} {e : Expr} {m : Nat} {args : List Expr} {tD : Ty} {dD : Bool}
    (h : synth env ctx gd e = .ok (tD, dD)) :
    synth env ctx gd (.mcall e m args) = mcallK env ctx gd m args tD dD := by
  simp only [synth, h, bind, Except.bind, mcallK]
  rfl

/-- parameter types of the declarative side are instantiated by those of the model -/
def InstAll (σ : Val) : List Ty → List MTy → Prop
  | [], [] => True
  | pD :: psD, pM :: psM => inst pD (den σ pM) = true ∧ InstAll σ psD psM
  | _, _ => False

theorem InstAll_length {σ : Val} : ∀ {psD : List Ty} {psM : List MTy}, InstAll σ psD psM → psD.length = psM.length
  | [], [], _ => rfl
  | _ :: _, _ :: _, h => by simp only [List.length_cons]; rw [InstAll_length h.2]
  | [], _ :: _, h => h.elim
  | _ :: _, [], h => h.elim

theorem den_u64 (σ : Val) : den σ (.name 3 []) = .int .u64 := by simp [den, denName, ityOf]

theorem den_unit (σ : Val) : den σ .unit = .unit := rfl

theorem den_tOption' (σ : Val) (a : MTy) : den σ (tOption a) = .opt (den σ a) := by
  simp [tOption, den, denL, denName, nmOption]
theorem den_tList' (σ : Val) (a : MTy) : den σ (tList a) = .list (den σ a) := by
  simp [tList, den, denL, denName, nmList]

/-- the methods of `List[T]`: the declarative signature at a receiver type the
    model's element type instantiates -/
theorem methodSig_list_rel (σ : Val) (elem : MTy) (m : Nat) (ps : List MTy) (ret : MTy)
    (h : methodSigM nmList elem m = some (ps, ret)) (t' : Ty) (ht : inst t' (den σ elem) = true) :
    ∃ psD rD, methodSig (.list t') m = some (psD, rD) ∧ InstAll σ psD ps ∧ inst rD (den σ ret) = true := by
  unfold methodSigM at h
  simp only [beq_self_eq_true, if_true] at h
  split at h <;> simp only [Option.some.injEq, Prod.mk.injEq, reduceCtorEq] at h <;> obtain ⟨rfl, rfl⟩ := h <;>
    refine ⟨_, _, rfl, ?_, ?_⟩ <;>
    simp [InstAll, den_u64, den_tOption', den_tList', den_tBool, den_unit, inst, ht]

/-- the methods of `String` -/
theorem methodSig_string_rel (σ : Val) (elem : MTy) (m : Nat) (ps : List MTy) (ret : MTy)
    (h : methodSigM nmString elem m = some (ps, ret)) :
    ∃ psD rD, methodSig .string m = some (psD, rD) ∧ InstAll σ psD ps ∧ inst rD (den σ ret) = true := by
  unfold methodSigM at h
  have hne : (nmString == nmList) = false := by decide
  simp only [hne, Bool.false_eq_true, if_false, beq_self_eq_true, if_true] at h
  split at h <;> simp only [Option.some.injEq, Prod.mk.injEq, reduceCtorEq] at h <;> obtain ⟨rfl, rfl⟩ := h <;>
    refine ⟨_, _, rfl, ?_, ?_⟩ <;>
    simp [InstAll, den_u64, den_tOption', den_tList', den_tBool, den_tString, inst]

/-- no other type has methods in the model -/
theorem methodSigM_some {n : Nat} {elem : MTy} {m : Nat} {sig : List MTy × MTy}
    (h : methodSigM n elem m = some sig) : n = nmList ∨ n = nmString := by
  unfold methodSigM at h
  by_cases h1 : (n == nmList) = true
  · exact Or.inl (by simpa using h1)
  · by_cases h2 : (n == nmString) = true
    · exact Or.inr (by simpa using h2)
    · simp [h1, h2] at h

theorem methodSigM_WT {n : Nat} {elem : MTy} {m : Nat} {ps : List MTy} {ret : MTy} (he : WT elem = true)
    (h : methodSigM n elem m = some (ps, ret)) : (∀ p ∈ ps, WT p = true) ∧ WT ret = true := by
  have hu : WT (.name 3 []) = true := WT_name0 3 (by decide)
  unfold methodSigM at h
  split at h
  · split at h <;> simp only [Option.some.injEq, Prod.mk.injEq, reduceCtorEq] at h <;> obtain ⟨rfl, rfl⟩ := h <;>
      simp [hu, he, WT_tBool, WT_tOption, WT_tList, WT_unit]
  · split at h
    · split at h <;> simp only [Option.some.injEq, Prod.mk.injEq, reduceCtorEq] at h <;> obtain ⟨rfl, rfl⟩ := h <;>
        simp [hu, WT_tBool, WT_tString, WT_tOption, WT_tList, WT_unit]
    · simp at h

/-- the loop of `check_arguments` against parameter types of the model (method
    signatures are instantiated with fresh variables, so they are not written
    types): whatever parameter types the declarative side uses, as long as the
    model's instantiate them -/
theorem argsM_sound {env : Env} : ∀ (es : List Expr), (∀ a ∈ es, IH env a) → ∀ (psM : List MTy),
    (∀ p ∈ psM, WT p = true) →
    ∀ cx g st d st', WTs st.store → WTcx cx → WTg g → es.length = psM.length →
      inferArgsGo env cx g es psM st = .ok d st' →
      WTs st'.store ∧ ∀ σ : Val, GVal σ → Sat σ st'.store → Sat σ st.store ∧
        ∀ gd, gammaInst gd (denG σ g) = true →
          (∀ psD, InstAll σ psD psM →
            ∃ dd, checkArgs env (denCx σ cx) gd es psD = .ok dd ∧ (d = true → dd = true)) ∧
          (∃ ts dd, synthList env (denCx σ cx) gd es = .ok (ts, dd) ∧ (d = true → dd = true))
  | [], _, [], _, cx, g, st, d, st', hW, _, _, _, h => by
    simp only [inferArgsGo] at h
    obtain ⟨rfl, rfl⟩ := pure_ok.mp h
    refine ⟨hW, fun σ _ hs => ⟨hs, fun gd _ => ⟨fun psD _ => ⟨false, ?_, by simp⟩, [], false, ?_, by simp⟩⟩⟩
    · cases psD <;> simp [checkArgs, pure, Except.pure]
    · simp [synthList, pure, Except.pure]
  | [], _, _ :: _, _, _, _, _, _, _, _, _, _, hl, _ => by simp at hl
  | _ :: _, _, [], _, _, _, _, _, _, _, _, _, hl, _ => by simp at hl
  | e :: es, ihs, p :: ps, hps, cx, g, st, d, st', hW, hcx, hg, hl, h => by
    simp only [inferArgsGo] at h
    obtain ⟨d1, st1, h1, h2⟩ := bind_ok.mp h
    obtain ⟨d2, st2, h3, h4⟩ := bind_ok.mp h2
    obtain ⟨rfl, rfl⟩ := pure_ok.mp h4
    have hWp : WT p = true := hps p List.mem_cons_self
    obtain ⟨hW1, hp1⟩ := ihs e List.mem_cons_self (cx.withTy p) g st d1 st1 hW (WTcx_with hcx hWp) hg h1
    obtain ⟨hW2, hp2⟩ := argsM_sound es (fun a ha => ihs a (List.mem_cons_of_mem _ ha)) ps
      (fun q hq => hps q (List.mem_cons_of_mem _ hq)) cx g st1 d2 st2 hW1 hcx hg (by simpa using hl) h3
    refine ⟨hW2, fun σ hσ hs => ?_⟩
    obtain ⟨hs1, hrest⟩ := hp2 σ hσ hs
    obtain ⟨hs0, hsyn1⟩ := hp1 σ hσ hs1
    refine ⟨hs0, fun gd hgd => ?_⟩
    obtain ⟨te, dd1, a1, a2, a3⟩ := hsyn1 gd hgd
    have a1' : synth env (denCx σ cx) gd e = .ok (te, dd1) := a1
    have a2' : inst te (den σ p) = true := a2
    obtain ⟨hchk, ts, dd2, b1, b2⟩ := hrest gd hgd
    constructor
    · intro psD hi
      cases psD with
      | nil => exact hi.elim
      | cons pD psD =>
        obtain ⟨hi1, hi2⟩ := hi
        obtain ⟨dd2', c1, c2⟩ := hchk psD hi2
        obtain ⟨hcm, _⟩ := inst_compat_meet _ te pD a2' hi1
        refine ⟨dd1 || dd2', ?_, ?_⟩
        · simp only [checkArgs, a1', expect_ok' hcm, c1, bind, Except.bind, pure, Except.pure]
        · intro hd
          simp only [Bool.or_eq_true] at hd ⊢
          rcases hd with hd | hd
          · exact Or.inl (a3 hd)
          · exact Or.inr (c2 hd)
    · refine ⟨te :: ts, dd1 || dd2, ?_, ?_⟩
      · simp only [synthList, a1', b1, bind, Except.bind, pure, Except.pure]
      · intro hd
        simp only [Bool.or_eq_true] at hd ⊢
        rcases hd with hd | hd
        · exact Or.inl (a3 hd)
        · exact Or.inr (b2 hd)

/-- `get_method`: only `List[T]` (signature instantiated with a fresh element
    variable) and `String` have methods -/
theorem getMethod_ok {t : MTy} {m : Nat} {recv : MTy} {ps : List MTy} {ret : MTy} {st st' : St}
    (h : getMethod t m st = .ok (some (recv, ps, ret)) st') (hW : WTs st.store) (ht : WT t = true) :
    Ext st st' ∧ WT recv = true ∧ (∀ p ∈ ps, WT p = true) ∧ WT ret = true ∧
    ((∃ elem, recv = tList elem ∧ methodSigM nmList elem m = some (ps, ret)) ∨
     ((∀ σ : Val, den σ recv = .string) ∧ ∃ elem, methodSigM nmString elem m = some (ps, ret))) := by
  unfold getMethod at h
  obtain ⟨r, s1, h1, h2⟩ := bind_ok.mp h
  obtain ⟨rfl, hres⟩ := resolveM_ok h1
  have hWr : WT r = true := resolve_WT hW ht hres
  cases r with
  | name n args =>
    simp only at h2
    by_cases hn : (n == nmList) = true
    · simp only [hn, if_true] at h2
      have hn' : n = nmList := by simpa using hn
      subst hn'
      cases hu : methodSigM nmList .unit m with
      | none => simp only [hu] at h2; obtain ⟨hh, _⟩ := pure_ok.mp h2; cases hh
      | some sg =>
        simp only [hu] at h2
        obtain ⟨elem, s2, h3, h4⟩ := bind_ok.mp h2
        obtain ⟨rfl, hE⟩ := freshVar_ok h3
        cases he : methodSigM nmList (.var st.store.length) m with
        | none => simp only [he] at h4; obtain ⟨hh, _⟩ := pure_ok.mp h4; cases hh
        | some sg2 =>
          obtain ⟨ps2, r2⟩ := sg2
          simp only [he] at h4
          obtain ⟨hh, rfl⟩ := pure_ok.mp h4
          simp only [Option.some.injEq, Prod.mk.injEq] at hh
          obtain ⟨rfl, rfl, rfl⟩ := hh
          obtain ⟨w1, w2⟩ := methodSigM_WT (WT_var _) he
          exact ⟨hE, WT_tList (WT_var _), w1, w2, Or.inl ⟨_, rfl, he⟩⟩
    · simp only [hn, Bool.false_eq_true, if_false] at h2
      cases hu : methodSigM n .unit m with
      | none => simp only [hu] at h2; obtain ⟨hh, _⟩ := pure_ok.mp h2; cases hh
      | some sg =>
        obtain ⟨ps2, r2⟩ := sg
        simp only [hu] at h2
        obtain ⟨hh, rfl⟩ := pure_ok.mp h2
        simp only [Option.some.injEq, Prod.mk.injEq] at hh
        obtain ⟨rfl, rfl, rfl⟩ := hh
        obtain ⟨w1, w2⟩ := methodSigM_WT (n := n) WT_unit hu
        have hns : n = nmString := by
          rcases methodSigM_some hu with h' | h'
          · exact absurd (by simpa using h') hn
          · exact h'
        subst hns
        refine ⟨Ext.refl _, hWr, w1, w2, Or.inr ⟨fun σ => ?_, _, hu⟩⟩
        simp [den, denName, nmString]
  | _ => simp only at h2; obtain ⟨hh, _⟩ := pure_ok.mp h2; cases hh

theorem methodSig_unknown (m : Nat) : methodSig .unknown m = none := by unfold methodSig; rfl
theorem methodSig_never (m : Nat) : methodSig .never m = none := by unfold methodSig; rfl

/-- the declarative side of a method call whose receiver has nothing known about it -/
theorem mcallK_flexible {env : Env} {ctx : Ctx} {gd : Gamma} {m : Nat} {args : List Expr} {tD : Ty} {dD : Bool}
    (hf : tD = .unknown ∨ tD = .never) {ts : List Ty} {dd : Bool}
    (h : synthList env ctx gd args = .ok (ts, dd)) :
    mcallK env ctx gd m args tD dD = .ok (.unknown, dD || dd) := by
  rcases hf with rfl | rfl
  · simp only [mcallK, methodSig_unknown, h, bind, Except.bind, pure, Except.pure]
  · simp only [mcallK, methodSig_never, h, bind, Except.bind, pure, Except.pure]

/-- … and of one whose receiver type has the method -/
theorem mcallK_known {env : Env} {ctx : Ctx} {gd : Gamma} {m : Nat} {args : List Expr} {tD : Ty} {dD : Bool}
    {psD : List Ty} {rD : Ty} (hs : methodSig tD m = some (psD, rD)) (hl : args.length = psD.length) {dd : Bool}
    (h : checkArgs env ctx gd args psD = .ok dd) :
    mcallK env ctx gd m args tD dD = .ok (rD, dD || dd) := by
  simp only [mcallK, hs, hl, bne_self_eq_false, Bool.false_eq_true, if_false, h, bind, Except.bind, pure, Except.pure]

/-- the common tail of the two method-call arms: `get_method`, the receiver
    unified with the method's receiver parameter, the arguments, the result -/
theorem mcall_tail {env : Env} {cx : Cx} {g : MGamma} {m : Nat} {args : List Expr}
    (ihs : ∀ a ∈ args, IH env a) (hcx : WTcx cx) (hg : WTg g)
    {ft recv ret : MTy} {ps : List MTy} {s0 s1 s2 s3 s4 : St} {d' : Bool} {u u' : Unit}
    (hW0 : WTs s0.store) (hWft : WT ft = true)
    (hgm : getMethod ft m s0 = .ok (some (recv, ps, ret)) s1)
    (hu : unifyM env ft recv s1 = .ok u s2 ∨ unifyM env recv ft s1 = .ok u s2)
    (ha : arityThen args.length ps.length (inferArgsGo env cx g args ps) s2 = .ok d' s3)
    (hr : unifyM env cx.expected ret s3 = .ok u' s4) :
    WTs s4.store ∧ ∀ σ : Val, GVal σ → Sat σ s4.store → Sat σ s0.store ∧
      ∀ gd, gammaInst gd (denG σ g) = true → ∀ tD dD, inst tD (den σ ft) = true →
        ∃ r dd', mcallK env (denCx σ cx) gd m args tD dD = .ok (r, dD || dd') ∧
          inst r (den σ cx.expected) = true ∧ (d' = true → dd' = true) := by
  obtain ⟨hE01, hWrecv, hWps, hWret, hkind⟩ := getMethod_ok hgm hW0 hWft
  have hW1 := hE01.1 hW0
  have hun : WTs s2.store ∧ Ext s1 s2 ∧ ∀ σ : Val, Sat σ s2.store → den σ ft = den σ recv := by
    rcases hu with hu | hu
    · exact unifyM_ok hu hW1 hWft hWrecv
    · obtain ⟨a, b, c⟩ := unifyM_ok hu hW1 hWrecv hWft
      exact ⟨a, b, fun σ hs => (c σ hs).symm⟩
  obtain ⟨hW2, hE12, heq2⟩ := hun
  unfold arityThen at ha
  by_cases hne : (args.length != ps.length) = true
  · simp only [hne, if_true] at ha; exact (throw_ok.mp ha).elim
  · simp only [hne, Bool.false_eq_true, if_false] at ha
    have hlen : args.length = ps.length := by simpa using hne
    obtain ⟨hW3, hp3⟩ := argsM_sound args ihs ps hWps cx g s2 d' s3 hW2 hcx hg hlen ha
    obtain ⟨hW4, hE34, heq4⟩ := unifyM_ok hr hW3 hcx.1 hWret
    refine ⟨hW4, fun σ hσ hs => ?_⟩
    have hs3 := hE34.2 σ hs
    obtain ⟨hs2, hargs⟩ := hp3 σ hσ hs3
    refine ⟨hE01.2 σ (hE12.2 σ hs2), fun gd hgd tD dD hi => ?_⟩
    obtain ⟨hchk, ts, ddl, hsl, hdl⟩ := hargs gd hgd
    rw [heq2 σ hs2] at hi
    rcases hkind with ⟨elem, rfl, hsig⟩ | ⟨hstr, elem, hsig⟩
    · -- List[T]
      rw [den_tList'] at hi
      cases tD with
      | list t' =>
        simp only [inst] at hi
        obtain ⟨psD, rD, q1, q2, q3⟩ := methodSig_list_rel σ elem m ps ret hsig t' hi
        obtain ⟨dd, c1, c2⟩ := hchk psD q2
        exact ⟨rD, dd, mcallK_known q1 (by rw [hlen, InstAll_length q2]) c1, by rw [heq4 σ hs]; exact q3, c2⟩
      | unknown => exact ⟨.unknown, ddl, mcallK_flexible (Or.inl rfl) hsl, by simp [inst], hdl⟩
      | never => exact ⟨.unknown, ddl, mcallK_flexible (Or.inr rfl) hsl, by simp [inst], hdl⟩
      | _ => simp [inst] at hi
    · -- String
      rw [hstr σ] at hi
      cases tD with
      | string =>
        obtain ⟨psD, rD, q1, q2, q3⟩ := methodSig_string_rel σ elem m ps ret hsig
        obtain ⟨dd, c1, c2⟩ := hchk psD q2
        exact ⟨rD, dd, mcallK_known q1 (by rw [hlen, InstAll_length q2]) c1, by rw [heq4 σ hs]; exact q3, c2⟩
      | unknown => exact ⟨.unknown, ddl, mcallK_flexible (Or.inl rfl) hsl, by simp [inst], hdl⟩
      | never => exact ⟨.unknown, ddl, mcallK_flexible (Or.inr rfl) hsl, by simp [inst], hdl⟩
      | _ => simp [inst] at hi

/-- **method calls** `e.m(args)` on `List[T]` and `String`: one path `v.a.m(args)`
    (the `Method` arm of `resolve_expression_path`) or a method of any other
    expression (`method_call`) -/
theorem mcall_sound {env : Env} (henv : EnvPlain env) {e : Expr} {m : Nat} {args : List Expr}
    (ih : IH env e) (ihs : ∀ a ∈ args, IH env a)
    {cx : Cx} {g : MGamma} {st : St} {d : Bool} {st' : St} (hW : WTs st.store) (hcx : WTcx cx) (hg : WTg g)
    (h : infer env cx g (.mcall e m args) st = .ok d st') : PostE env cx g (.mcall e m args) st d st' := by
  simp only [infer] at h
  cases hp : pathOf e with
  | none =>
    simp only [hp] at h
    obtain ⟨v, s1, h1, h2⟩ := bind_ok.mp h
    obtain ⟨rfl, hE1⟩ := freshVar_ok h1
    obtain ⟨d1, s2, h3, h4⟩ := bind_ok.mp h2
    obtain ⟨gm, s3, h5, h6⟩ := bind_ok.mp h4
    obtain ⟨hW2, hp2⟩ := ih (cx.withTy (.var st.store.length)) g s1 d1 s2 (hE1.1 hW) (WTcx_with hcx (WT_var _)) hg h3
    cases gm with
    | none => exact (throw_ok.mp h6).elim
    | some sig =>
      obtain ⟨recv, ps, ret⟩ := sig
      simp only at h6
      obtain ⟨u, s4, h7, h8⟩ := bind_ok.mp h6
      obtain ⟨d', s5, h9, h10⟩ := bind_ok.mp h8
      obtain ⟨u', s6, h11, h12⟩ := bind_ok.mp h10
      obtain ⟨rfl, rfl⟩ := pure_ok.mp h12
      obtain ⟨hW6, hp6⟩ := mcall_tail ihs hcx hg hW2 (WT_var _) h5 (Or.inr h7) h9 h11
      refine ⟨hW6, fun σ hσ hs => ?_⟩
      obtain ⟨hs2, htail⟩ := hp6 σ hσ hs
      obtain ⟨hs1, hsyn⟩ := hp2 σ hσ hs2
      refine ⟨hE1.2 σ hs1, fun gd hgd => ?_⟩
      obtain ⟨tD, dD, a1, a2, a3⟩ := hsyn gd hgd
      have a1' : synth env (denCx σ cx) gd e = .ok (tD, dD) := a1
      obtain ⟨r, dd', b1, b2, b3⟩ := htail gd hgd tD dD a2
      refine ⟨r, dD || dd', by rw [synth_mcall a1']; exact b1, b2, ?_⟩
      intro hd
      simp only [Bool.or_eq_true] at hd ⊢
      rcases hd with hd | hd
      · exact Or.inl (a3 hd)
      · exact Or.inr (b3 hd)
  | some rp =>
    obtain ⟨root, path⟩ := rp
    cases root with
    | ctor =>
      simp only [hp] at h
      obtain ⟨u, s1, _, h2⟩ := bind_ok.mp h
      exact (throw_ok.mp h2).elim
    | var x =>
      simp only [hp] at h
      obtain ⟨p, s1, h1, h2⟩ := bind_ok.mp h
      unfold rootTy at h1
      simp only [Bool.false_eq_true, if_false] at h1
      cases hl : lookupM g x with
      | none => simp only [hl] at h1; exact (throw_ok.mp h1).elim
      | some t =>
        simp only [hl] at h1
        obtain ⟨rfl, rfl⟩ := pure_ok.mp h1
        simp only at h2
        obtain ⟨ft, s2, h3, h4⟩ := bind_ok.mp h2
        obtain ⟨rfl, hWft, hpf⟩ := accessPath_sound henv path h3 hW (lookupM_WT hg hl)
        obtain ⟨gm, s3, h5, h6⟩ := bind_ok.mp h4
        cases gm with
        | none => exact (throw_ok.mp h6).elim
        | some sig =>
          obtain ⟨recv, ps, ret⟩ := sig
          simp only at h6
          obtain ⟨u, s4, h7, h8⟩ := bind_ok.mp h6
          obtain ⟨d', s5, h9, h10⟩ := bind_ok.mp h8
          obtain ⟨u', s6, h11, h12⟩ := bind_ok.mp h10
          obtain ⟨rfl, rfl⟩ := pure_ok.mp h12
          obtain ⟨hW6, hp6⟩ := mcall_tail ihs hcx hg hW hWft h5 (Or.inl h7) h9 h11
          refine ⟨hW6, fun σ hσ hs => ?_⟩
          obtain ⟨hs0, htail⟩ := hp6 σ hσ hs
          refine ⟨hs0, fun gd hgd => ?_⟩
          obtain ⟨tf, c1, c2, _⟩ := gamma_lookup hgd x (den σ t) (by rw [lookup_denG, hl]; rfl)
          obtain ⟨tf', b1, b2⟩ := hpf σ hs0 tf c2
          have a1 : synth env (denCx σ cx) gd e = .ok (tf', false) := synth_path env _ gd e x path tf tf' hp c1 b1
          obtain ⟨r, dd', q1, q2, q3⟩ := htail gd hgd tf' false b2
          exact ⟨r, false || dd', by rw [synth_mcall a1]; exact q1, q2, fun hd => by simpa using q3 hd⟩
    | const c =>
      simp only [hp] at h
      obtain ⟨p, s1, h1, h2⟩ := bind_ok.mp h
      unfold rootTy at h1
      simp only [if_true] at h1
      cases hl : env.consts.lookup c with
      | none => simp only [hl] at h1; exact (throw_ok.mp h1).elim
      | some t =>
        simp only [hl] at h1
        obtain ⟨rfl, rfl⟩ := pure_ok.mp h1
        simp only at h2
        obtain ⟨ft, s2, h3, h4⟩ := bind_ok.mp h2
        have hpl := henv.2.1 c t hl
        obtain ⟨rfl, hWft, hpf⟩ := accessPath_sound henv path h3 hW (den_toM (fun _ => .unit) t hpl).2.1
        obtain ⟨gm, s3, h5, h6⟩ := bind_ok.mp h4
        cases gm with
        | none => exact (throw_ok.mp h6).elim
        | some sig =>
          obtain ⟨recv, ps, ret⟩ := sig
          simp only at h6
          obtain ⟨u, s4, h7, h8⟩ := bind_ok.mp h6
          obtain ⟨d', s5, h9, h10⟩ := bind_ok.mp h8
          obtain ⟨u', s6, h11, h12⟩ := bind_ok.mp h10
          obtain ⟨rfl, rfl⟩ := pure_ok.mp h12
          obtain ⟨hW6, hp6⟩ := mcall_tail ihs hcx hg hW hWft h5 (Or.inl h7) h9 h11
          refine ⟨hW6, fun σ hσ hs => ?_⟩
          obtain ⟨hs0, htail⟩ := hp6 σ hσ hs
          refine ⟨hs0, fun gd hgd => ?_⟩
          obtain ⟨hdt, _, hgt⟩ := den_toM σ t hpl
          obtain ⟨tf', b1, b2⟩ := hpf σ hs0 t (by rw [hdt]; exact inst_self t hgt)
          have a1 : synth env (denCx σ cx) gd e = .ok (tf', false) := synth_path_const env _ gd e c path t tf' hp hl b1
          obtain ⟨r, dd', q1, q2, q3⟩ := htail gd hgd tf' false b2
          exact ⟨r, false || dd', by rw [synth_mcall a1]; exact q1, q2, fun hd => by simpa using q3 hd⟩

end RotoV.TcInfer
