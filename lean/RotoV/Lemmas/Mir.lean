/-
  Simulation lemmas for C03: the abstract ownership state used by `ownCheck`
  is an invariant of the concrete token semantics (`RotoV.Model.Mir`).
-/
import RotoV.Model.Mir

namespace RotoV.Mir

/-! ### list helpers -/

theorem getD_set {α} (l : List α) (v w : Nat) (x d : α) (h : v < l.length) :
    (l.set v x).getD w d = if w = v then x else l.getD w d := by
  simp only [List.getD_eq_getElem?_getD, List.getElem?_set]
  by_cases hw : w = v
  · subst hw; simp [h]
  · have : ¬ v = w := fun e => hw e.symm
    simp [hw, this]

theorem map_insertSortedP (i : Nat) (t : Option Nat) (fs : List (Nat × Option Nat)) :
    (insertSortedP i t fs).map (·.1) = insertSorted i (fs.map (·.1)) := by
  induction fs with
  | nil => rfl
  | cons p fs ih =>
    obtain ⟨j, u⟩ := p
    simp only [insertSortedP, List.map_cons, insertSorted]
    split <;> simp [ih]

/-! ### the simulation relation -/

/-- a value whose variant holds no host value carries no token -/
def Side (it : Item) (v : Nat) (t : Option Nat) (k : Nat) : Prop :=
  ∀ ty, it.varTy v = .ok ty → it.hasTok ty k = false → t = none

inductive Rv (it : Item) (v : Nat) : ASt → CSt → Prop
  | un_un : Rv it v .un .un
  | un_gone : Rv it v .un .gone
  | un_empty (k : Nat) : Rv it v .un (.whole none k)
  | empty (k : Nat) : Rv it v .empty (.whole none k)
  | whole (t : Option Nat) (k : Nat) : Side it v t k → Rv it v .whole (.whole t k)
  | part (d : Option Nat) (fs : List (Nat × Option Nat)) :
      Rv it v (.part d (fs.map (·.1))) (.part d fs)
  | holed (t : Option Nat) (k : Nat) (p : List Proj) : Side it v t k →
      Rv it v (.holed p) (.holed t k p)

/-- the abstract state `a` describes the concrete variable statuses `cs` -/
def R (it : Item) (a : AState) (cs : List CSt) : Prop :=
  a.length = cs.length ∧ ∀ v, Rv it v (aget a v) (cs.getD v .un)

theorem R_set {it : Item} {a a' : AState} {c : CState} {v : Nat} {s : ASt} {s' : CSt}
    (h : R it a c.vs) (hs : Rv it v s s') (ha : aset a v s = .ok a') :
    cset c v s' = .ok { c with vs := c.vs.set v s' } ∧ R it a' (c.vs.set v s') := by
  unfold aset at ha
  split at ha
  · rename_i hv
    injection ha with ha; subst ha
    have hv' : v < c.vs.length := h.1 ▸ hv
    refine ⟨by simp [cset, hv'], by simp [h.1], fun w => ?_⟩
    simp only [aget, getD_set _ _ _ _ _ hv, getD_set _ _ _ _ _ hv']
    by_cases hw : w = v
    · subst hw; simpa using hs
    · have := h.2 w
      simp only [aget] at this
      simpa [hw] using this
  · cases ha

theorem R_weaken_le {it : Item} {v : Nat} {s s' : ASt} {x : CSt}
    (hle : leSt s s' = true) (h : Rv it v s x) : Rv it v s' x := by
  unfold leSt at hle
  by_cases he : s = s'
  · subst he; exact h
  · have : (s == s') = false := by simpa using he
    simp only [this, Bool.false_or, Bool.and_eq_true, beq_iff_eq, Bool.or_eq_true] at hle
    obtain ⟨h1, h2⟩ := hle
    subst h1
    cases h with
    | empty k =>
      rcases h2 with h2 | h2
      · subst h2; exact .whole none k (fun _ _ _ => rfl)
      · subst h2; exact .un_empty k

theorem leA_spec : ∀ {a b : AState}, leA a b = true →
    a.length = b.length ∧ ∀ v, leSt (aget a v) (aget b v) = true
  | [], [], _ => ⟨rfl, fun v => by simp [aget, leSt]⟩
  | s :: a, s' :: b, h => by
    simp only [leA, Bool.and_eq_true] at h
    obtain ⟨ih1, ih2⟩ := leA_spec h.2
    refine ⟨by simp [ih1], fun v => ?_⟩
    cases v with
    | zero => simpa [aget] using h.1
    | succ v => simpa [aget] using ih2 v
  | [], _ :: _, h => by simp [leA] at h
  | _ :: _, [], h => by simp [leA] at h

theorem R_weaken {it : Item} {a b : AState} {cs : List CSt}
    (hle : leA a b = true) (h : R it a cs) : R it b cs := by
  obtain ⟨h1, h2⟩ := leA_spec hle
  exact ⟨h1 ▸ h.1, fun v => R_weaken_le (h2 v) (h.2 v)⟩

/-! ### operands -/

theorem R_get {it : Item} {a : AState} {c : CState} (h : R it a c.vs) (v : Nat) :
    Rv it v (aget a v) (cget c v) := h.2 v

theorem read_sim {it : Item} {a : AState} {c : CState} {v : Nat}
    (h : R it a c.vs) (ha : aRead it a v = .ok ()) : cRead it c v = .ok () := by
  unfold aRead at ha
  unfold cRead
  cases htr : it.tracked v with
  | error e => simp [htr, bind, Except.bind] at ha
  | ok b =>
    cases b with
    | false => simp [bind, Except.bind]
    | true =>
      simp only [htr, bind, Except.bind, if_true] at ha ⊢
      have hv := R_get h v
      generalize cget c v = x at hv ⊢
      generalize aget a v = y at hv ha
      cases hv <;> simp_all

theorem reads_sim {it : Item} {a : AState} {c : CState} :
    ∀ {vs : List Nat}, R it a c.vs → aReads it a vs = .ok () → cReads it c vs = .ok ()
  | [], _, _ => rfl
  | v :: vs, h, ha => by
    simp only [aReads, bind, Except.bind] at ha
    split at ha
    · cases ha
    · rename_i u hu
      cases u
      simp only [cReads, bind, Except.bind, read_sim h hu]
      exact reads_sim h ha

/-- the token/variant pair of a value of type `ty` -/
def ValOk (it : Item) (ty : Nat) (t : Option Nat) (k : Nat) : Prop :=
  it.hasTok ty k = false → t = none

theorem take_sim {it : Item} {a a' : AState} {c : CState} {v ty : Nat}
    (h : R it a c.vs) (ha : aTake it a v ty = .ok a') :
    ∃ c' t k, cTake it c v ty = .ok (c', t, k) ∧ R it a' c'.vs ∧ ValOk it ty t k ∧
      c'.sc = c.sc ∧ c'.clk = c.clk ∧ c'.next = c.next := by
  unfold aTake at ha
  unfold cTake
  cases hty : it.varTy v with
  | error e => simp [hty, bind, Except.bind] at ha
  | ok ty' =>
    simp only [hty, bind, Except.bind] at ha ⊢
    by_cases hne : ty' = ty
    · subst hne
      simp only [ne_eq, not_true_eq_false, if_false] at ha ⊢
      have hv := R_get h v
      generalize cget c v = x at hv ⊢
      generalize aget a v = y at hv ha
      cases hv <;> simp only [reduceCtorEq] at ha
      · -- empty
        rename_i k
        obtain ⟨h1, h2⟩ := R_set h (Rv.un_gone (it := it) (v := v)) ha
        exact ⟨{ c with vs := c.vs.set v .gone }, none, k, by simp [h1], h2, fun _ => rfl, rfl, rfl, rfl⟩
      · -- whole
        rename_i t k hside
        obtain ⟨h1, h2⟩ := R_set h (Rv.un_gone (it := it) (v := v)) ha
        exact ⟨{ c with vs := c.vs.set v .gone }, t, k, by simp [h1], h2, fun hk => hside _ hty hk, rfl, rfl, rfl⟩
    · simp [hne] at ha

theorem args_sim {it : Item} :
    ∀ {args : List (Nat × Nat)} {a a' : AState} {c : CState},
      R it a c.vs → aArgs it a args = .ok a' →
      ∃ c', cArgs it c args = .ok c' ∧ R it a' c'.vs ∧ c'.sc = c.sc ∧ c'.clk = c.clk ∧ c'.next = c.next
  | [], a, a', c, h, ha => by
    simp only [aArgs] at ha; injection ha with ha; subst ha
    exact ⟨c, rfl, h, rfl, rfl, rfl⟩
  | (v, pty) :: rest, a, a', c, h, ha => by
    simp only [aArgs, bind, Except.bind] at ha
    simp only [cArgs, bind, Except.bind]
    cases hnd : it.nd pty with
    | error e => simp [hnd] at ha
    | ok b =>
      simp only [hnd] at ha ⊢
      cases b with
      | false =>
        simp only [Bool.false_eq_true, if_false] at ha ⊢
        exact args_sim h ha
      | true =>
        simp only [if_true] at ha ⊢
        split at ha
        · cases ha
        · rename_i a1 ha1
          obtain ⟨c1, t, k, hc1, hR1, _, hsc, hclk, hn⟩ := take_sim h ha1
          simp only [hc1]
          obtain ⟨c2, hc2, hR2, hsc2, hclk2, hn2⟩ := args_sim hR1 ha
          exact ⟨c2, hc2, hR2, hsc2.trans hsc, hclk2.trans hclk, hn2.trans hn⟩

/-! ### right-hand sides -/

theorem cFresh_spec (it : Item) (c : CState) (ty k : Nat) :
    (cFresh it c ty k).1.vs = c.vs ∧ (cFresh it c ty k).1.sc = c.sc ∧
    (cFresh it c ty k).1.clk = c.clk ∧ ValOk it ty (cFresh it c ty k).2.1 (cFresh it c ty k).2.2 := by
  unfold cFresh ValOk
  by_cases hk : it.hasTok ty k = true
  · simp [hk]
  · simp [hk]

theorem source_sim {it : Item} {ω : Oracle} {a a1 : AState} {c : CState} {ty : Nat} {ndt : Bool}
    {v : Val} (h : R it a c.vs) (ha : aSource it a ty ndt v = .ok a1) :
    ∃ c1 t k, cSource it ω c ty ndt v = .ok (c1, t, k) ∧ R it a1 c1.vs ∧
      (ndt = true → ValOk it ty t k) ∧ c1.sc = c.sc ∧ c1.clk = c.clk := by
  cases v with
  | lit =>
    simp only [aSource] at ha; injection ha with ha; subst ha
    cases ndt with
    | false => exact ⟨c, none, 0, rfl, h, by simp, rfl, rfl⟩
    | true =>
      obtain ⟨h1, h2, h3, h4⟩ := cFresh_spec it c ty (ω c.clk)
      exact ⟨(cFresh it c ty (ω c.clk)).1, (cFresh it c ty (ω c.clk)).2.1, (cFresh it c ty (ω c.clk)).2.2,
        rfl, by rw [h1]; exact h, fun _ => h4, h2, h3⟩
  | global =>
    simp only [aSource] at ha; injection ha with ha; subst ha
    cases ndt with
    | false => exact ⟨c, none, 0, rfl, h, by simp, rfl, rfl⟩
    | true =>
      obtain ⟨h1, h2, h3, h4⟩ := cFresh_spec it c ty (ω c.clk)
      exact ⟨(cFresh it c ty (ω c.clk)).1, (cFresh it c ty (ω c.clk)).2.1, (cFresh it c ty (ω c.clk)).2.2,
        rfl, by rw [h1]; exact h, fun _ => h4, h2, h3⟩
  | clone p =>
    cases ndt with
    | false =>
      simp only [aSource, Bool.false_eq_true, if_false] at ha; injection ha with ha; subst ha
      exact ⟨c, none, 0, by simp [cSource], h, by simp, rfl, rfl⟩
    | true =>
      simp only [aSource, if_true, bind, Except.bind] at ha
      simp only [cSource, if_true, bind, Except.bind]
      cases htr : it.tracked p.var with
      | error e => simp [htr] at ha
      | ok b =>
        cases b with
        | false => simp [htr] at ha
        | true =>
          simp only [htr, if_true] at ha ⊢
          have hv := R_get h p.var
          generalize cget c p.var = x at hv ⊢
          generalize aget a p.var = y at hv ha
          cases hv <;> simp only [reduceCtorEq] at ha
          · rename_i k
            injection ha with ha; subst ha
            obtain ⟨h1, h2, h3, h4⟩ := cFresh_spec it c ty (if p.proj = [] then k else ω c.clk)
            exact ⟨(cFresh it c ty (if p.proj = [] then k else ω c.clk)).1,
              (cFresh it c ty (if p.proj = [] then k else ω c.clk)).2.1,
              (cFresh it c ty (if p.proj = [] then k else ω c.clk)).2.2,
              rfl, by rw [h1]; exact h, fun _ => h4, h2, h3⟩
          · rename_i t k _
            injection ha with ha; subst ha
            obtain ⟨h1, h2, h3, h4⟩ := cFresh_spec it c ty (if p.proj = [] then k else ω c.clk)
            exact ⟨(cFresh it c ty (if p.proj = [] then k else ω c.clk)).1,
              (cFresh it c ty (if p.proj = [] then k else ω c.clk)).2.1,
              (cFresh it c ty (if p.proj = [] then k else ω c.clk)).2.2,
              rfl, by rw [h1]; exact h, fun _ => h4, h2, h3⟩
  | move w =>
    cases ndt with
    | false =>
      simp only [aSource, Bool.false_eq_true, if_false] at ha; injection ha with ha; subst ha
      exact ⟨c, none, 0, by simp [cSource], h, by simp, rfl, rfl⟩
    | true =>
      simp only [aSource, if_true] at ha
      obtain ⟨c', t, k, h1, h2, h3, h4, h5, _⟩ := take_sim h ha
      exact ⟨c', t, k, by simp [cSource, h1], h2, fun _ => h3, h4, h5⟩
  | read vs =>
    cases ndt with
    | true => simp [aSource] at ha
    | false =>
      simp only [aSource, Bool.false_eq_true, if_false, bind, Except.bind] at ha
      split at ha
      · cases ha
      · rename_i u hu
        injection ha with ha; subst ha
        cases u
        exact ⟨c, none, 0, by simp [cSource, bind, Except.bind, reads_sim h hu], h, by simp, rfl, rfl⟩
  | disc x =>
    cases ndt with
    | true => simp [aSource] at ha
    | false =>
      simp only [aSource, Bool.false_eq_true, if_false, bind, Except.bind] at ha
      split at ha
      · cases ha
      · rename_i u hu
        injection ha with ha; subst ha
        cases u
        exact ⟨c, none, 0, by simp [cSource, bind, Except.bind, read_sim h hu], h, by simp, rfl, rfl⟩
  | call args =>
    simp only [aSource] at ha
    obtain ⟨c', h1, h2, h3, h4, _⟩ := args_sim h ha
    cases ndt with
    | false => exact ⟨c', none, 0, by simp [cSource, bind, Except.bind, h1], h2, by simp, h3, h4⟩
    | true =>
      obtain ⟨g1, g2, g3, g4⟩ := cFresh_spec it c' ty (ω c.clk)
      exact ⟨(cFresh it c' ty (ω c.clk)).1, (cFresh it c' ty (ω c.clk)).2.1, (cFresh it c' ty (ω c.clk)).2.2,
        by simp [cSource, bind, Except.bind, h1], by rw [g1]; exact h2, fun _ => g4,
        g2.trans h3, g3.trans h4⟩

/-! ### writes -/

theorem children_hasTok {it : Item} {ty : Nat} {d : Option Nat} {ch : List Nat} {i : Nat}
    (h : it.children ty d = .ok ch) (hi : i ∈ ch) : it.hasTok ty (d.getD 0) = true := by
  unfold Item.children at h
  unfold Item.hasTok
  split at h
  · -- record
    rename_i nd fs heq
    simp [heq]
  · -- enum
    rename_i nd vs k heq
    split at h
    · rename_i fs hfs
      injection h with h; subst h
      have : vs.getD k [] = fs := by simp [List.getD_eq_getElem?_getD, hfs]
      simp only [heq, Option.getD_some, this]
      cases hnd : it.ndIdx fs with
      | nil => simp [hnd] at hi
      | cons x xs => simp
    · cases h
  · cases h

theorem child_sim {it : Item} {a a' : AState} {c : CState} {v : Nat} {d : Option Nat}
    {cfs : List (Nat × Option Nat)} {i : Nat} {t : Option Nat}
    (h : R it a c.vs) (ha : aChild it a v d (cfs.map (·.1)) i = .ok a') :
    ∃ c', cChild it c v d cfs i t = .ok c' ∧ R it a' c'.vs ∧ c'.sc = c.sc ∧ c'.clk = c.clk := by
  unfold aChild at ha
  unfold cChild
  cases hty : it.varTy v with
  | error e => simp [hty, bind, Except.bind] at ha
  | ok ty =>
    simp only [hty, bind, Except.bind] at ha ⊢
    cases hch : it.children ty d with
    | error e => simp [hch] at ha
    | ok ch =>
      simp only [hch] at ha ⊢
      by_cases hcond : i ∈ ch ∧ i ∉ cfs.map (·.1)
      · rw [if_pos hcond] at ha ⊢
        by_cases hall : (ch.all fun j => decide (j ∈ insertSorted i (cfs.map (·.1)))) = true
        · rw [if_pos hall] at ha
          rw [if_pos hall]
          have hside : Side it v (some c.next) (d.getD 0) := by
            intro ty' hty' hk
            rw [hty] at hty'; injection hty' with hty'; subst hty'
            rw [children_hasTok hch hcond.1] at hk; cases hk
          obtain ⟨h1, h2⟩ := R_set (c := { c with next := c.next + 1 }) h
            (Rv.whole (it := it) (v := v) (some c.next) (d.getD 0) hside) ha
          exact ⟨_, h1, h2, rfl, rfl⟩
        · rw [if_neg hall] at ha
          rw [if_neg hall]
          have hr : Rv it v (.part d (insertSorted i (cfs.map (·.1)))) (.part d (insertSortedP i t cfs)) := by
            rw [← map_insertSortedP i t cfs]; exact Rv.part d _
          obtain ⟨h1, h2⟩ := R_set h hr ha
          exact ⟨_, h1, h2, rfl, rfl⟩
      · rw [if_neg hcond] at ha; cases ha

theorem write_sim {it : Item} {a a' : AState} {c : CState} {to : Place} {ty : Nat}
    {t : Option Nat} {k : Nat}
    (h : R it a c.vs) (hval : ValOk it ty t k) (ha : aWrite it a to ty = .ok a') :
    ∃ c', cWrite it c to ty t k = .ok c' ∧ R it a' c'.vs ∧ c'.sc = c.sc ∧ c'.clk = c.clk := by
  unfold aWrite at ha
  unfold cWrite
  have hv := R_get h to.var
  split at ha
  · -- whole variable
    rename_i hproj
    cases hty : it.varTy to.var with
    | error e => simp [hty, bind, Except.bind] at ha
    | ok ty' =>
      simp only [hty, bind, Except.bind] at ha ⊢
      by_cases hne : ty' = ty
      · subst hne
        simp only [ne_eq, not_true_eq_false, if_false] at ha ⊢
        have hside : Side it to.var t k := by
          intro ty2 h2 hk
          rw [hty] at h2; injection h2 with h2; subst h2
          exact hval hk
        generalize cget c to.var = x at hv ⊢
        generalize aget a to.var = y at hv ha
        cases hv <;> simp only [reduceCtorEq] at ha
        all_goals
          obtain ⟨h1, h2⟩ := R_set h (Rv.whole (it := it) (v := to.var) t k hside) ha
          exact ⟨{ c with vs := c.vs.set to.var (.whole t k) }, by simpa [CSt.busy] using h1, h2, rfl, rfl⟩
      · simp [hne] at ha
  · -- one projection
    rename_i pc hproj
    cases htr : it.tracked to.var with
    | error e => simp [htr, bind, Except.bind] at ha
    | ok b =>
      cases b with
      | false => simp [htr, bind, Except.bind] at ha
      | true =>
        simp only [htr, bind, Except.bind, Bool.not_true, Bool.false_eq_true, if_false] at ha ⊢
        generalize cget c to.var = x at hv ⊢
        generalize aget a to.var = y at hv ha
        cases hv with
        | un_un =>
          cases pc with
          | fld i => exact child_sim (cfs := []) h ha
          | vfld k' i => simp at ha
        | un_gone =>
          cases pc with
          | fld i => exact child_sim (cfs := []) h ha
          | vfld k' i => simp at ha
        | un_empty k0 =>
          cases pc with
          | fld i => exact child_sim (cfs := []) h ha
          | vfld k' i => simp at ha
        | empty k0 => cases pc <;> simp at ha
        | whole t0 k0 hs => cases pc <;> simp at ha
        | part d fs =>
          cases d with
          | none =>
            cases pc with
            | fld i => exact child_sim h ha
            | vfld k' i => simp at ha
          | some k1 =>
            cases pc with
            | fld i => simp at ha
            | vfld k' i =>
              simp only at ha ⊢
              by_cases hk : k1 = k'
              · simp only [hk, if_true] at ha ⊢
                exact child_sim h ha
              · simp [hk] at ha
        | holed t0 k0 p hs =>
          simp only at ha ⊢
          by_cases hp : p = [pc]
          · simp only [hp, if_true] at ha ⊢
            obtain ⟨h1, h2⟩ := R_set h (Rv.whole (it := it) (v := to.var) t0 k0 hs) ha
            exact ⟨{ c with vs := c.vs.set to.var (.whole t0 k0) }, h1, h2, rfl, rfl⟩
          · simp [hp] at ha
  · -- longer paths: only filling a hole
    rename_i p hp1 hp2
    cases htr : it.tracked to.var with
    | error e => simp [htr, bind, Except.bind] at ha
    | ok b =>
      cases b with
      | false => simp [htr, bind, Except.bind] at ha
      | true =>
        simp only [htr, bind, Except.bind, Bool.not_true, Bool.false_eq_true, if_false] at ha
        generalize hx : cget c to.var = x at hv
        generalize aget a to.var = y at hv ha
        cases hv <;> simp only [reduceCtorEq] at ha
        rename_i t0 k0 q hs
        by_cases hq : q = to.proj
        · simp only [hq, if_true] at ha
          obtain ⟨h1, h2⟩ := R_set h (Rv.whole (it := it) (v := to.var) t0 k0 hs) ha
          refine ⟨{ c with vs := c.vs.set to.var (.whole t0 k0) }, ?_, h2, rfl, rfl⟩
          simp only [htr, bind, Except.bind, Bool.not_true, Bool.false_eq_true, if_false, hx, hq, if_true]
          exact h1
        · simp [hq] at ha

/-! ### instructions -/

theorem instr_sim {it : Item} {ω : Oracle} {a a' : AState} {c : CState} {i : Instr}
    (h : R it a c.vs) (ha : aInstr it a i = .ok a') :
    ∃ c', cInstr it ω c i = .ok c' ∧ R it a' c'.vs := by
  cases i with
  | assign to ty v =>
    simp only [aInstr, bind, Except.bind] at ha
    simp only [cInstr, bind, Except.bind]
    cases hnd : it.nd ty with
    | error e => simp [hnd] at ha
    | ok ndt =>
      simp only [hnd] at ha ⊢
      split at ha
      · cases ha
      · rename_i a1 ha1
        obtain ⟨c1, t, k, hc1, hR1, hval, _, _⟩ := source_sim (ω := ω) h ha1
        simp only [hc1]
        cases ndt with
        | true =>
          simp only [if_true] at ha ⊢
          obtain ⟨c2, hc2, hR2, _, _⟩ := write_sim (t := t) (k := k) hR1 (hval rfl) ha
          exact ⟨tick c2, by simp [hc2], hR2⟩
        | false =>
          simp only [Bool.false_eq_true, if_false] at ha ⊢
          by_cases hp : to.proj = []
          · simp only [hp, if_true] at ha ⊢
            cases htr : it.tracked to.var with
            | error e => simp [htr] at ha
            | ok b =>
              cases b with
              | true => simp [htr] at ha
              | false =>
                simp only [htr, Bool.false_eq_true, if_false] at ha ⊢
                injection ha with ha; subst ha
                cases v with
                | disc x =>
                  simp only
                  split <;> exact ⟨_, rfl, hR1⟩
                | _ => exact ⟨_, rfl, hR1⟩
          · simp only [hp, if_false] at ha ⊢
            injection ha with ha; subst ha
            exact ⟨_, rfl, hR1⟩
  | setDisc v ty k =>
    simp only [aInstr, bind, Except.bind] at ha
    simp only [cInstr, bind, Except.bind]
    cases hnd : it.nd ty with
    | error e => simp [hnd] at ha
    | ok ndt =>
      cases ndt with
      | false =>
        simp only [hnd, Bool.false_eq_true, if_false] at ha ⊢
        injection ha with ha; subst ha
        exact ⟨_, rfl, h⟩
      | true =>
        simp only [hnd, if_true] at ha ⊢
        cases hty : it.varTy v with
        | error e => simp [hty] at ha
        | ok ty' =>
          simp only [hty] at ha ⊢
          by_cases hne : ty' = ty
          · subst hne
            simp only [ne_eq, not_true_eq_false, if_false] at ha ⊢
            have hv := R_get h v
            generalize cget c v = x at hv ⊢
            generalize aget a v = y at hv ha
            cases hv <;> simp only [reduceCtorEq] at ha
            all_goals
              cases hch : it.children ty' (some k) with
              | error e => simp [hch] at ha
              | ok ch =>
                simp only [hch] at ha
                by_cases hnil : ch = []
                · simp only [hnil, if_true] at ha
                  obtain ⟨h1, h2⟩ := R_set h (Rv.whole (it := it) (v := v) none k (fun _ _ _ => rfl)) ha
                  exact ⟨tick { c with vs := c.vs.set v (.whole none k) }, by simp [CSt.busy, hnil, h1], h2⟩
                · simp only [hnil, if_false] at ha
                  obtain ⟨h1, h2⟩ := R_set h (Rv.part (it := it) (v := v) (some k) []) ha
                  exact ⟨tick { c with vs := c.vs.set v (.part (some k) []) }, by simp [CSt.busy, hnil, h1], h2⟩
          · simp [hne] at ha
  | drop p ty =>
    simp only [aInstr, bind, Except.bind] at ha
    simp only [cInstr, bind, Except.bind]
    cases hnd : it.nd ty with
    | error e => simp [hnd] at ha
    | ok ndt =>
      cases ndt with
      | false =>
        simp only [hnd, Bool.false_eq_true, if_false] at ha ⊢
        injection ha with ha; subst ha
        exact ⟨_, rfl, h⟩
      | true =>
        simp only [hnd, if_true] at ha ⊢
        have hv := R_get h p.var
        split at ha
        · -- whole variable
          rename_i hproj
          cases hty : it.varTy p.var with
          | error e => simp [hty] at ha
          | ok ty' =>
            simp only [hty] at ha ⊢
            by_cases hne : ty' = ty
            · subst hne
              simp only [ne_eq, not_true_eq_false, if_false] at ha ⊢
              generalize cget c p.var = x at hv ⊢
              generalize aget a p.var = y at hv ha
              cases hv <;> simp only [reduceCtorEq] at ha
              all_goals
                obtain ⟨h1, h2⟩ := R_set h (Rv.un_gone (it := it) (v := p.var)) ha
                exact ⟨tick { c with vs := c.vs.set p.var .gone }, by simp [h1], h2⟩
            · simp [hne] at ha
        · -- sub-place
          rename_i path hpath
          have hpne : p.proj ≠ [] := hpath
          cases hty : it.varTy p.var with
          | error e => simp [hty] at ha
          | ok vt =>
            simp only [hty] at ha
            by_cases hok : it.pathOk vt p.proj = true ∧ it.ndB vt = true
            · rw [if_pos hok] at ha
              generalize hx : cget c p.var = x at hv
              generalize aget a p.var = y at hv ha
              cases hv <;> simp only [reduceCtorEq] at ha
              rename_i t k hs
              obtain ⟨h1, h2⟩ := R_set h (Rv.holed (it := it) (v := p.var) t k p.proj hs) ha
              refine ⟨tick { c with vs := c.vs.set p.var (.holed t k p.proj) }, ?_, h2⟩
              simp only [hok, and_self, if_true, h1]
            · rw [if_neg hok] at ha; cases ha

/-! ### blocks -/

theorem disc_instr {it : Item} {ω : Oracle} {a a' : AState} {c c' : CState} {d ty x : Nat}
    (h : R it a c.vs) (ha : aInstr it a (.assign ⟨d, []⟩ ty (.disc x)) = .ok a')
    (hc : cInstr it ω c (.assign ⟨d, []⟩ ty (.disc x)) = .ok c')
    (hw : aget a' x = .whole) :
    ∃ t k, cget c' x = .whole t k ∧ scGet c'.sc d = some k := by
  simp only [aInstr, bind, Except.bind] at ha
  simp only [cInstr, bind, Except.bind] at hc
  cases hnd : it.nd ty with
  | error e => simp [hnd] at ha
  | ok ndt =>
    cases ndt with
    | true => simp [hnd, aSource] at ha
    | false =>
      simp only [hnd, aSource, Bool.false_eq_true, if_false, bind, Except.bind] at ha
      simp only [hnd, cSource, Bool.false_eq_true, if_false, bind, Except.bind] at hc
      split at ha
      · cases ha
      · rename_i a1 ha1
        split at ha1
        · cases ha1
        · rename_i u hu
          injection ha1 with ha1; subst ha1
          rw [read_sim h hu] at hc
          simp only [if_true] at ha hc
          cases htr : it.tracked d with
          | error e => simp [htr] at ha
          | ok b =>
            cases b with
            | true => simp [htr] at ha
            | false =>
              simp only [htr, Bool.false_eq_true, if_false] at ha hc
              injection ha with ha; subst ha
              have hv := R_get h x
              rw [hw] at hv
              generalize hx : cget c x = s at hv hc
              cases hv
              rename_i t k _
              simp only at hc
              injection hc with hc; subst hc
              refine ⟨t, k, ?_, ?_⟩
              · simpa [cget, tick] using hx
              · simp [scGet, tick]

theorem discOf_cons {i j : Instr} {is : List Instr} {d : Nat} :
    discOf (i :: j :: is) d = discOf (j :: is) d := by
  simp [discOf, List.getLast?_cons_cons]

theorem run_sim {it : Item} {ω : Oracle} :
    ∀ (is : List Instr) {a a1 : AState} {c : CState}, R it a c.vs → aRun it a is = .ok a1 →
      ∃ c1, cRun it ω c is = .ok c1 ∧ R it a1 c1.vs ∧
        ∀ d x, discOf is d = some x → aget a1 x = .whole →
          ∃ t k, cget c1 x = .whole t k ∧ scGet c1.sc d = some k
  | [], a, a1, c, h, ha => by
    simp only [aRun] at ha; injection ha with ha; subst ha
    exact ⟨c, rfl, h, fun d x hd => by simp [discOf] at hd⟩
  | [i], a, a1, c, h, ha => by
    simp only [aRun, bind, Except.bind] at ha
    split at ha
    · cases ha
    · rename_i a' ha'
      injection ha with ha; subst ha
      obtain ⟨c', hc', hR'⟩ := instr_sim (ω := ω) h ha'
      refine ⟨c', by simp [cRun, bind, Except.bind, hc'], hR', fun d x hd hw => ?_⟩
      simp only [discOf, List.getLast?_singleton] at hd
      split at hd
      · rename_i d' ty x' heq
        injection heq with heq; subst heq
        by_cases hdd : d' = d
        · subst hdd
          simp only [if_true] at hd
          injection hd with hd; subst hd
          exact disc_instr h ha' hc' hw
        · simp [hdd] at hd
      · cases hd
  | i :: j :: is, a, a1, c, h, ha => by
    simp only [aRun, bind, Except.bind] at ha
    split at ha
    · cases ha
    · rename_i a' ha'
      obtain ⟨c', hc', hR'⟩ := instr_sim (ω := ω) h ha'
      have ha2 : aRun it a' (j :: is) = .ok a1 := by simpa [aRun, bind, Except.bind] using ha
      obtain ⟨c1, hc1, hR1, hd1⟩ := run_sim (j :: is) hR' ha2
      refine ⟨c1, ?_, hR1, fun d x hd => hd1 d x (discOf_cons ▸ hd)⟩
      simp only [cRun, bind, Except.bind, hc']
      simpa [cRun, bind, Except.bind] using hc1

/-! ### terminators -/

theorem leakFree_sim {it : Item} {a : AState} {cs : List CSt} {ov : Option Nat}
    (h : R it a cs) (hl : aLeakFree a ov = true) :
    ∀ w, some w ≠ ov → (cs.getD w .un).owns = false := by
  intro w hw
  have hv := h.2 w
  have hst : aget a w = .un ∨ aget a w = .empty := by
    by_cases hlt : w < a.length
    · simp only [aLeakFree, List.all_eq_true, List.mem_range] at hl
      have := hl w hlt
      simp only [Bool.or_eq_true, decide_eq_true_eq, beq_iff_eq] at this
      rcases this with (h1 | h1) | h1
      · exact absurd h1 hw
      · exact Or.inl h1
      · exact Or.inr h1
    · left
      simp [aget, List.getD_eq_getElem?_getD, List.getElem?_eq_none (Nat.le_of_not_lt hlt)]
  generalize cs.getD w .un = x at hv ⊢
  rcases hst with hst | hst <;> rw [hst] at hv <;> cases hv <;> rfl

theorem cLeakFree_of {c : CState} {ov : Option Nat}
    (h : ∀ w, some w ≠ ov → (cget c w).owns = false) : cLeakFree c ov = true := by
  simp only [cLeakFree, List.all_eq_true, List.mem_range]
  intro w _
  by_cases hw : some w = ov
  · simp [hw]
  · simp [h w hw]

theorem ret_sim {it : Item} {a : AState} {c : CState} {v : Nat}
    (h : R it a c.vs) (ha : aRet it a v = .ok ()) : cRet it c v = .ok () ∧ Balanced c v := by
  unfold aRet at ha
  unfold cRet
  cases hnd : it.nd it.retTy with
  | error e => simp [hnd, bind, Except.bind] at ha
  | ok ndr =>
    simp only [hnd, bind, Except.bind] at ha ⊢
    cases ndr with
    | true =>
      simp only [if_true] at ha ⊢
      cases hty : it.varTy v with
      | error e => simp [hty] at ha
      | ok ty' =>
        simp only [hty] at ha ⊢
        by_cases hne : ty' = it.retTy
        · simp only [hne, ne_eq, not_true_eq_false, if_false] at ha ⊢
          have hv := R_get h v
          generalize cget c v = x at hv ⊢
          generalize aget a v = y at hv ha
          cases hv <;> simp only [reduceCtorEq] at ha
          all_goals
            split at ha
            · rename_i hl
              have hb := leakFree_sim h hl
              exact ⟨by simp [cLeakFree_of (c := c) hb], fun w hw => hb w (by simpa using hw)⟩
            · cases ha
        · simp [hne] at ha
    | false =>
      simp only [Bool.false_eq_true, if_false] at ha ⊢
      split at ha
      · rename_i hl
        have hb := leakFree_sim h hl
        exact ⟨by simp [cLeakFree_of (c := c) hb], fun w _ => hb w (by simp)⟩
      · cases ha

theorem R_set_abs {it : Item} {a : AState} {cs : List CSt} {x : Nat} {s : ASt}
    (h : R it a cs) (hs : Rv it x s (cs.getD x .un)) (hx : x < a.length) : R it (a.set x s) cs := by
  refine ⟨by simp [h.1], fun w => ?_⟩
  simp only [aget, getD_set _ _ _ _ _ hx]
  by_cases hw : w = x
  · subst hw; simpa using hs
  · have := h.2 w
    simp only [aget] at this
    simpa [hw] using this

theorem hasTok_unlisted {it : Item} {ty k : Nat} {brs : List (Nat × Nat)}
    (hn : it.nVariants ty > 0) (hu : unlistedTrivial it ty brs = true)
    (hk : (brs.map (·.1)).contains k = false) : it.hasTok ty k = false := by
  by_cases hlt : k < it.nVariants ty
  · simp only [unlistedTrivial, List.all_eq_true, List.mem_range] at hu
    have := hu k hlt
    rw [hk] at this
    simpa using this
  · unfold Item.nVariants at hn hlt
    unfold Item.hasTok
    split at hn
    · rename_i nd vs heq
      simp only [heq] at hlt ⊢
      have : vs.getD k [] = [] := by
        simp [List.getD_eq_getElem?_getD, List.getElem?_eq_none (Nat.le_of_not_lt hlt)]
      rw [this]
      simp [Item.ndIdx]
    · cases hn

theorem defaultEdge_sim {it : Item} {a1 : AState} {c1 : CState} {is : List Instr} {d : Nat}
    {brs : List (Nat × Nat)} (hR : R it a1 c1.vs)
    (hd : ∀ x, discOf is d = some x → aget a1 x = .whole →
      ∃ t k, cget c1 x = .whole t k ∧ scGet c1.sc d = some k)
    (hk : ∀ k, scGet c1.sc d = some k → (brs.map (·.1)).contains k = false) :
    R it (aDefaultEdge it a1 is d brs) c1.vs := by
  unfold aDefaultEdge
  split
  · rename_i x hx
    split
    · rename_i ty htr hty hw
      split
      · rename_i hcond
        obtain ⟨t, k, hcx, hsc⟩ := hd x hx hw
        have hv := R_get hR x
        rw [hw, hcx] at hv
        cases hv
        rename_i hside
        have ht : t = none := hside ty hty (hasTok_unlisted hcond.1 hcond.2 (hk k hsc))
        subst ht
        have hlt : x < a1.length := by
          by_cases hlt : x < a1.length
          · exact hlt
          · simp [aget, List.getD_eq_getElem?_getD, List.getElem?_eq_none (Nat.le_of_not_lt hlt)] at hw
        refine R_set_abs hR ?_ hlt
        have : c1.vs.getD x .un = .whole none k := hcx
        rw [this]; exact .empty k
      · exact hR
    · exact hR
  · exact hR

/-! ### one block, and the invariant -/

/-- the certified state at `l` describes the concrete state, and `l` exists -/
def Inv (it : Item) (cert : Cert) (l : Nat) (c : CState) : Prop :=
  (it.findBlock l).isSome = true ∧ ∃ a, certAt cert l = some a ∧ R it a c.vs

theorem edge_sim {it : Item} {cert : Cert} {a : AState} {l : Nat} {cs : List CSt}
    (he : edgeOk it cert a l = true) (h : R it a cs) :
    (it.findBlock l).isSome = true ∧ ∃ a', certAt cert l = some a' ∧ R it a' cs := by
  simp only [edgeOk, Bool.and_eq_true] at he
  refine ⟨he.1, ?_⟩
  cases hc : certAt cert l with
  | none => simp [hc] at he
  | some a' => simp only [hc] at he; exact ⟨a', rfl, R_weaken he.2 h⟩

theorem find_mem {brs : List (Nat × Nat)} {k : Nat} {p : Nat × Nat}
    (h : brs.find? (fun p => p.1 = k) = some p) : p ∈ brs := List.mem_of_find?_eq_some h

theorem step_sound {it : Item} {cert : Cert} {ω : Oracle} {l : Nat} {c : CState}
    (hchk : ownCheck it cert = true) (hinv : Inv it cert l c) :
    match stepBlock it ω l c with
    | .running l' c' => Inv it cert l' c'
    | .done c' v => Balanced c' v
    | .fail _ => False := by
  obtain ⟨hfb, a, hcert, hR⟩ := hinv
  simp only [ownCheck, Bool.and_eq_true, List.all_eq_true] at hchk
  unfold stepBlock
  cases hb : it.findBlock l with
  | none => simp [hb] at hfb
  | some b =>
    simp only
    have hmem : b ∈ it.blocks := List.mem_of_find?_eq_some hb
    have hlbl : b.label = l := by
      have := List.find?_some hb
      simpa using this
    have hcb := hchk.2 b hmem
    unfold checkBlock at hcb
    rw [hlbl, hcert] at hcb
    simp only [Bool.and_eq_true] at hcb
    cases hrun : aRun it a b.instrs with
    | error e => simp [hrun] at hcb
    | ok a1 =>
      simp only [hrun] at hcb
      obtain ⟨c1, hc1, hR1, hd1⟩ := run_sim (ω := ω) b.instrs hR hrun
      simp only [hc1]
      have hterm := hcb.2
      unfold checkTerm at hterm
      cases ht : b.term with
      | jump l' =>
        simp only [ht] at hterm
        simp only [cTerm]
        exact edge_sim hterm (by simpa [tick] using hR1)
      | ret v =>
        simp only [ht] at hterm
        simp only [cTerm]
        cases har : aRet it a1 v with
        | error e => simp [har] at hterm
        | ok u =>
          cases u
          obtain ⟨h1, h2⟩ := ret_sim hR1 har
          simp only [h1]
          exact h2
      | switch d brs dflt =>
        simp only [ht, Bool.and_eq_true, List.all_eq_true] at hterm
        obtain ⟨⟨htr, hbrs⟩, hdf⟩ := hterm
        simp only [cTerm]
        cases htd : it.tracked d with
        | error e => simp [htd] at htr
        | ok bd =>
          cases bd with
          | true => simp [htd] at htr
          | false =>
            simp only
            have hRt : R it a1 (tick c1).vs := by simpa [tick] using hR1
            -- every target the concrete semantics can pick is justified
            have branch : ∀ p, p ∈ brs → Inv it cert p.2 (tick c1) :=
              fun p hp => edge_sim (hbrs p hp) hRt
            have dfl : ∀ l', dflt = some l' →
                (∀ k, scGet c1.sc d = some k → (brs.map (·.1)).contains k = false) →
                Inv it cert l' (tick c1) := by
              intro l' hl' hk
              subst hl'
              simp only at hdf
              have := defaultEdge_sim (is := b.instrs) (d := d) (brs := brs) hR1
                (fun x hx hw => hd1 d x hx hw) hk
              exact edge_sim hdf (by simpa [tick] using this)
            have lastb : dflt = none → ∀ p, brs.getLast? = some p → Inv it cert p.2 (tick c1) :=
              fun _ p hp => branch p (List.mem_of_getLast? hp)
            cases hsc : scGet c1.sc d with
            | some k =>
              simp only [switchTarget]
              cases hf : brs.find? (fun p => p.1 = k) with
              | some p =>
                simp only
                exact branch p (find_mem hf)
              | none =>
                simp only [defaultTarget]
                have hnot : (brs.map (·.1)).contains k = false := by
                  rw [List.find?_eq_none] at hf
                  simp only [List.contains_eq_mem, List.mem_map, decide_eq_false_iff_not]
                  rintro ⟨p, hp, hpk⟩
                  exact hf p hp (by simpa using hpk)
                cases hdd : dflt with
                | some l' =>
                  simp only
                  exact dfl l' hdd (fun k' hk' => by rw [hsc] at hk'; injection hk' with hk'; subst hk'; exact hnot)
                | none =>
                  simp only
                  cases hgl : brs.getLast? with
                  | none =>
                    simp only [hdd] at hdf
                    have : brs = [] := by simpa using hgl
                    simp [this] at hdf
                  | some p =>
                    simp only [Option.map_some]
                    exact lastb hdd p hgl
            | none =>
              simp only
              generalize hidx : ω c1.clk % (switchTargets brs dflt).length = idx
              cases hget : (switchTargets brs dflt)[idx]? with
              | none =>
                -- the target list is not empty, so the index is in range
                exfalso
                have hlen : 0 < (switchTargets brs dflt).length := by
                  cases hdd : dflt with
                  | some l' => simp [switchTargets]
                  | none =>
                    simp only [hdd] at hdf
                    cases brs with
                    | nil => simp at hdf
                    | cons p ps => simp [switchTargets]
                have : idx < (switchTargets brs dflt).length := hidx ▸ Nat.mod_lt _ hlen
                rw [List.getElem?_eq_none_iff] at hget
                exact absurd this (Nat.not_lt.mpr hget)
              | some l' =>
                simp only
                have hmem' : l' ∈ switchTargets brs dflt := List.mem_of_getElem? hget
                simp only [switchTargets, List.mem_append, List.mem_map, Option.mem_toList] at hmem'
                rcases hmem' with ⟨p, hp, hpl⟩ | hdl
                · subst hpl; exact branch p hp
                · exact dfl l' (by simpa using hdl) (fun k hk => by rw [hsc] at hk; cases hk)

end RotoV.Mir
