/-
  The OFFSET ARITHMETIC of `unescape_f_string_part` (src/parser/expr.rs),
  property C06: the text part of an f-string is cut into pieces at every brace
  escape (`{{` / `}}`), each piece is decoded on its own, and an escape error in
  a piece is reported at `span.start + piece_start + range`.

  `uScan_chain`: the ranges the scan (`uScan` of `Model/Parse.lean`) cuts out
  form a CHAIN — the first starts at byte 0, every next one starts exactly two
  bytes (the doubled brace, which stands there) after the end of the one before,
  the last one ends at the end of the text. So `piece_start` of piece `j` is
  the sum of the lengths of the pieces before it plus TWO bytes per brace
  escape, for every text.
-/
import RotoV.Lemmas.ParseFText
import RotoV.Lemmas.ParseSub

namespace RotoV.Parse
open RotoV RotoV.Lex

/-- a brace escape stands at byte `k` of `t`: `{{` or `}}` (two one-byte characters) -/
def BraceAt (t : List Char) (k : Nat) : Prop :=
  ∃ pre c post, t = pre ++ c :: c :: post ∧ blen pre = k ∧ (c = '{' ∨ c = '}')

/-- ranges `rs` cut from `ps` on: each starts where the one before ended plus the
two bytes of the brace escape that ended it; `ps'` is where the rest starts -/
def ChainFrom (t : List Char) : Nat → List (Nat × Nat) → Nat → Prop
  | ps, [], ps' => ps = ps'
  | ps, r :: rs, ps' => r.1 = ps ∧ ps ≤ r.2 ∧ BraceAt t r.2 ∧ ChainFrom t (r.2 + 2) rs ps'

/-- the invariant of the scan: what it adds to `acc` is a chain from `piece_start` -/
theorem uScan_chain (t : List Char) (n : Nat) : ∀ (mode : UMode) (i ps : Nat) (rest : List Char)
    (acc : List (Nat × Nat)) (pre : List Char), rest.length ≤ n → t = pre ++ rest → blen pre = i → ps ≤ i →
    ∃ rs, (uScan mode i ps rest acc).1 = acc.reverse ++ rs ∧ ChainFrom t ps rs (uScan mode i ps rest acc).2 := by
  induction n with
  | zero =>
    intro mode i ps rest acc pre hn ht hi hle
    have : rest = [] := List.eq_nil_of_length_eq_zero (by omega)
    subst this
    cases mode <;> exact ⟨[], by simp [uScan], by simp [uScan, ChainFrom]⟩
  | succ n ih =>
    intro mode i ps rest acc pre hn ht hi hle
    cases rest with
    | nil => cases mode <;> exact ⟨[], by simp [uScan], by simp [uScan, ChainFrom]⟩
    | cons c cs =>
      have hc1 := sz_pos c
      have hpre1 : t = (pre ++ [c]) ++ cs := by rw [ht]; simp
      have hb1 : blen (pre ++ [c]) = i + sz c := by rw [blen_append]; simp [blen, hi]
      have step : ∀ (m : UMode), ∃ rs, (uScan m (i + sz c) ps cs acc).1 = acc.reverse ++ rs ∧
          ChainFrom t ps rs (uScan m (i + sz c) ps cs acc).2 :=
        fun m => ih m (i + sz c) ps cs acc (pre ++ [c]) (by simp at hn; omega) hpre1 hb1 (by omega)
      have step2 : ∀ (m : UMode) (d : Char) (ds : List Char) (ps' : Nat) (acc' : List (Nat × Nat)), cs = d :: ds →
          ps' ≤ i + sz c + sz d →
          ∃ rs, (uScan m (i + sz c + sz d) ps' ds acc').1 = acc'.reverse ++ rs ∧
            ChainFrom t ps' rs (uScan m (i + sz c + sz d) ps' ds acc').2 := by
        intro m d ds ps' acc' hcs hl
        subst hcs
        exact ih m _ ps' ds acc' (pre ++ [c, d]) (by simp at hn; omega) (by rw [ht]; simp)
          (by rw [blen_append]; simp [blen, hi]; omega) hl
      cases mode with
      | normal =>
        unfold uScan
        split
        · exact step _
        · split
          · rename_i hbrace
            split
            · rename_i d ds
              split
              · rename_i hd
                -- a doubled brace: both are one byte, the new `piece_start` is `i + 2`
                have hsz : sz c = 1 := by rcases hbrace with rfl | rfl <;> decide
                have hszd : sz d = 1 := by rw [hd]; exact hsz
                obtain ⟨rs, h1, h2⟩ := step2 .normal d ds (i + 2) ((ps, i) :: acc) rfl (by omega)
                refine ⟨(ps, i) :: rs, ?_, ?_⟩
                · rw [h1]; simp
                · exact ⟨rfl, hle, ⟨pre, c, ds, by rw [ht, hd], hi, hbrace⟩, h2⟩
              · exact step _
            · exact ⟨[], by simp, rfl⟩
          · exact step _
      | esc =>
        unfold uScan
        split
        · split
          · rename_i d ds
            split
            · exact step2 _ d ds ps acc rfl (by omega)
            · exact step _
          · exact ⟨[], by simp, rfl⟩
        · exact step _
      | uni =>
        unfold uScan
        split
        · exact step _
        · exact step _

/-- the ranges `unescape_f_string_part` cuts out of `t` form a chain from byte 0 -/
theorem scan_chain (t : List Char) :
    ChainFrom t 0 (uScan .normal 0 0 t []).1 (uScan .normal 0 0 t []).2 := by
  obtain ⟨rs, h1, h2⟩ := uScan_chain t t.length .normal 0 0 t [] [] (Nat.le_refl _) rfl rfl (Nat.le_refl _)
  simp only [List.reverse_nil, List.nil_append] at h1
  rw [h1]; exact h2

/-- a chain, closed by the rest `(ps', e)`: consecutive entries are two bytes apart, a brace escape between -/
theorem chain_step {t : List Char} {e : Nat} : ∀ (rs : List (Nat × Nat)) (ps ps' : Nat), ChainFrom t ps rs ps' →
    ∀ j r r', (rs ++ [(ps', e)])[j]? = some r → (rs ++ [(ps', e)])[j + 1]? = some r' →
      r'.1 = r.2 + 2 ∧ BraceAt t r.2 := by
  intro rs
  induction rs with
  | nil =>
    intro ps ps' _ j r r' _ h2
    simp at h2
  | cons x xs ih =>
    intro ps ps' hc j r r' h1 h2
    obtain ⟨_, _, hb, hrest⟩ := hc
    cases j with
    | zero =>
      simp only [List.cons_append, List.getElem?_cons_zero, Option.some.injEq] at h1
      subst h1
      simp only [List.cons_append, List.getElem?_cons_succ] at h2
      cases xs with
      | nil =>
        simp only [ChainFrom] at hrest
        simp only [List.nil_append, List.getElem?_cons_zero, Option.some.injEq] at h2
        subst h2
        exact ⟨hrest.symm, hb⟩
      | cons y ys =>
        simp only [List.cons_append, List.getElem?_cons_zero, Option.some.injEq] at h2
        subst h2
        exact ⟨hrest.1, hb⟩
    | succ j =>
      simp only [List.cons_append, List.getElem?_cons_succ] at h1 h2
      exact ih _ _ hrest j r r' h1 h2

/-- the first entry of a closed chain starts at `ps` -/
theorem chain_head {t : List Char} {e : Nat} {rs : List (Nat × Nat)} {ps ps' : Nat} (h : ChainFrom t ps rs ps') :
    ((rs ++ [(ps', e)])[0]?).map (·.1) = some ps := by
  cases rs with
  | nil => simp only [ChainFrom] at h; simp [h]
  | cons x xs => simp [h.1]

end RotoV.Parse
