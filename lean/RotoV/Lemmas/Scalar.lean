/-
  Scalar lemmas over the *generated* codegen half of `Generated/OpTables`
  (src/codegen/mod.rs), for C01 and C20:

  * `jitRepr` (the JIT's view of an `IrValue`, through the generated
    `integer_operand`) in closed form, for every tag;
  * every generated arm `cg_*`, `int_cmp`, `float_cmp` composed with the documented
    CLIF semantics on same-typed operands, in closed form (exact results);
  * Rust's `/` `%` (as the evaluator uses them) against the `Div` / `Mod` arms.

  The `Div` / `Mod` arms themselves are in `Lemmas/ScalarDiv` (also used by C10),
  groundwork without generated definitions in `Lemmas/ScalarBase`, the evaluator's
  accessors in `Lemmas/ScalarEval` (C20 only), `lower_binop` in
  `Lemmas/ScalarLower` (C01 only) — so that a change in one source file breaks only
  the properties it concerns.
-/
import RotoV.Lemmas.ScalarDiv

namespace RotoV
open RotoV.Gen RotoV.Gen.OpTables

theorem jitRepr_F32 (x : F32) : jitRepr (.F32 x) = some (CVal.f32 x.bits) := rfl
theorem jitRepr_F64 (x : F64) : jitRepr (.F64 x) = some (CVal.f64 x.bits) := rfl

theorem jitRepr_U8 (x : U8) : jitRepr (.U8 x) = some (CVal.ofBv .I8 x.bv) :=
  congrArg some (mk'_cast .I8 rfl x)
theorem jitRepr_U16 (x : U16) : jitRepr (.U16 x) = some (CVal.ofBv .I16 x.bv) :=
  congrArg some (mk'_cast .I16 rfl x)
theorem jitRepr_U32 (x : U32) : jitRepr (.U32 x) = some (CVal.ofBv .I32 x.bv) :=
  congrArg some (mk'_cast .I32 rfl x)
theorem jitRepr_U64 (x : U64) : jitRepr (.U64 x) = some (CVal.ofBv .I64 x.bv) :=
  congrArg some (mk'_cast .I64 rfl x)
theorem jitRepr_I8 (x : I8) : jitRepr (.I8 x) = some (CVal.ofBv .I8 x.bv) :=
  congrArg some (mk'_cast .I8 rfl x)
theorem jitRepr_I16 (x : I16) : jitRepr (.I16 x) = some (CVal.ofBv .I16 x.bv) :=
  congrArg some (mk'_cast .I16 rfl x)
theorem jitRepr_I32 (x : I32) : jitRepr (.I32 x) = some (CVal.ofBv .I32 x.bv) :=
  congrArg some (mk'_cast .I32 rfl x)
theorem jitRepr_I64 (x : I64) : jitRepr (.I64 x) = some (CVal.ofBv .I64 x.bv) :=
  congrArg some (mk'_I64 x)
theorem jitRepr_Asn (x : U32) : jitRepr (.Asn x) = some (CVal.ofBv .I32 x.bv) :=
  congrArg some (mk'_cast .I32 rfl x)
theorem jitRepr_Char (x : U32) : jitRepr (.Char x) = some (CVal.ofBv .I32 x.bv) := by
  simp only [jitRepr, integer_operand, RCast.cast, Res.pure_eq, RInt.cast_self]
  exact congrArg some (mk'_cast .I32 rfl x)
theorem jitRepr_Pointer (x : Usize) : jitRepr (.Pointer x) = some (CVal.ofBv .I64 x.bv) :=
  congrArg some (mk'_cast .I64 rfl x)
theorem jitRepr_Bool (b : Bool) : jitRepr (.Bool b) = some (CVal.ofBool b) := by
  cases b <;> decide

/-- every `IrValue` has a JIT representation. -/
theorem jitRepr_isSome (v : IrValue) : ∃ cv, jitRepr v = some cv := by
  cases v
  case Bool b => exact ⟨_, jitRepr_Bool b⟩
  case U8 x => exact ⟨_, jitRepr_U8 x⟩
  case U16 x => exact ⟨_, jitRepr_U16 x⟩
  case U32 x => exact ⟨_, jitRepr_U32 x⟩
  case U64 x => exact ⟨_, jitRepr_U64 x⟩
  case I8 x => exact ⟨_, jitRepr_I8 x⟩
  case I16 x => exact ⟨_, jitRepr_I16 x⟩
  case I32 x => exact ⟨_, jitRepr_I32 x⟩
  case I64 x => exact ⟨_, jitRepr_I64 x⟩
  case F32 x => exact ⟨_, jitRepr_F32 x⟩
  case F64 x => exact ⟨_, jitRepr_F64 x⟩
  case Char x => exact ⟨_, jitRepr_Char x⟩
  case Asn x => exact ⟨_, jitRepr_Asn x⟩
  case Pointer x => exact ⟨_, jitRepr_Pointer x⟩

/-- `!x` on the two legal bit patterns of a boolean. -/
theorem cg_Not_bool (dbg : Bool) (b : Bool) : cg_Not dbg (CVal.ofBool b) = .ok (CVal.ofBool (!b)) := by
  cases b <;> cases dbg <;> decide

theorem cg_IntCmp_int (dbg : Bool) (cmp : IntCmp) (ty : CTy) (hf : ty.isFloat = false)
    {w : Nat} (hw : ty.bits = w) (a b : BitVec w) :
    cg_IntCmp dbg cmp (CVal.ofBv ty a) (CVal.ofBv ty b) = .ok (CVal.ofBool (intCmpSpec cmp a b)) := by
  cases cmp <;>
    simp only [cg_IntCmp, int_cmp, Cg.operand, Cg.variable_, Cg.def_, icmp_ofBv _ _ hf hw, Res.pure_eq,
      Res.bind_ok] <;> rfl

theorem cg_IntCmp_mixed (dbg : Bool) (cmp : IntCmp) (a b : CVal) (h : a.ty ≠ b.ty) :
    cg_IntCmp dbg cmp a b = .panic := by
  cases cmp <;>
    simp only [cg_IntCmp, int_cmp, Cg.operand, Cg.variable_, icmp_mixed _ _ _ h, Res.pure_eq,
      Res.bind_ok] <;> rfl

/-- whenever Rust's signed `/` completes, `sdiv` computes the same bits. -/
theorem div_signed_agrees (dbg : Bool) (ty : CTy) (hf : ty.isFloat = false) {w : Nat} (hw : ty.bits = w)
    (h0 : 0 < w) {a b c : RInt true w} (hc : RInt.div dbg a b = .ok c) :
    cg_Div dbg true (CVal.ofBv ty a.bv) (CVal.ofBv ty b.bv) = .ok (CVal.ofBv ty c.bv) := by
  rw [cg_Div_signed dbg ty hf hw]
  rw [RInt.div_signed h0] at hc
  split at hc
  · cases hc
  · split at hc
    · cases hc
    · rename_i h1 h2
      rw [if_neg h1, if_neg h2]; cases hc; rfl
theorem div_unsigned_agrees (dbg : Bool) (ty : CTy) (hf : ty.isFloat = false) {w : Nat} (hw : ty.bits = w)
    {a b c : RInt false w} (hc : RInt.div dbg a b = .ok c) :
    cg_Div dbg false (CVal.ofBv ty a.bv) (CVal.ofBv ty b.bv) = .ok (CVal.ofBv ty c.bv) := by
  rw [cg_Div_unsigned dbg ty hf hw]
  rw [RInt.div_unsigned] at hc
  split at hc
  · cases hc
  · rename_i h1
    rw [if_neg h1]; cases hc; rfl
/-- whenever Rust's signed `%` completes, `srem` computes the same bits (at `MIN % -1` Rust panics
    while `srem` yields 0). -/
theorem rem_signed_agrees (dbg : Bool) (ty : CTy) (hf : ty.isFloat = false) {w : Nat} (hw : ty.bits = w)
    (h0 : 0 < w) {a b c : RInt true w} (hc : RInt.rem dbg a b = .ok c) :
    cg_Mod dbg true (CVal.ofBv ty a.bv) (CVal.ofBv ty b.bv) = .ok (CVal.ofBv ty c.bv) := by
  rw [cg_Mod_signed dbg ty hf hw]
  rw [RInt.rem_signed h0] at hc
  split at hc
  · cases hc
  · split at hc
    · cases hc
    · rename_i h1 h2
      rw [if_neg h1]; cases hc; rfl
theorem rem_unsigned_agrees (dbg : Bool) (ty : CTy) (hf : ty.isFloat = false) {w : Nat} (hw : ty.bits = w)
    {a b c : RInt false w} (hc : RInt.rem dbg a b = .ok c) :
    cg_Mod dbg false (CVal.ofBv ty a.bv) (CVal.ofBv ty b.bv) = .ok (CVal.ofBv ty c.bv) := by
  rw [cg_Mod_unsigned dbg ty hf hw]
  rw [RInt.rem_unsigned] at hc
  split at hc
  · cases hc
  · rename_i h1
    rw [if_neg h1]; cases hc; rfl

section arms
variable [F : FloatOps]

theorem cg_Add_int (dbg : Bool) (ty : CTy) (hf : ty.isFloat = false) {w : Nat} (hw : ty.bits = w)
    (a b : BitVec w) :
    cg_Add dbg (CVal.ofBv ty a) (CVal.ofBv ty b) = .ok (CVal.ofBv ty (a + b)) := by
  cases ty <;> simp [CTy.isFloat] at hf <;>
    simp [cg_Add, Cg.operand, Cg.variable_, Cg.def_, iadd_ofBv _ rfl hw]
theorem cg_Sub_int (dbg : Bool) (ty : CTy) (hf : ty.isFloat = false) {w : Nat} (hw : ty.bits = w)
    (a b : BitVec w) :
    cg_Sub dbg (CVal.ofBv ty a) (CVal.ofBv ty b) = .ok (CVal.ofBv ty (a - b)) := by
  cases ty <;> simp [CTy.isFloat] at hf <;>
    simp [cg_Sub, Cg.operand, Cg.variable_, Cg.def_, isub_ofBv _ rfl hw]
theorem cg_Mul_int (dbg : Bool) (ty : CTy) (hf : ty.isFloat = false) {w : Nat} (hw : ty.bits = w)
    (a b : BitVec w) :
    cg_Mul dbg (CVal.ofBv ty a) (CVal.ofBv ty b) = .ok (CVal.ofBv ty (a * b)) := by
  cases ty <;> simp [CTy.isFloat] at hf <;>
    simp [cg_Mul, Cg.operand, Cg.variable_, Cg.def_, imul_ofBv _ rfl hw]

theorem cg_Negate_int (dbg : Bool) (ty : CTy) (hf : ty.isFloat = false) {w : Nat} (hw : ty.bits = w)
    (a : BitVec w) :
    cg_Negate dbg (CVal.ofBv ty a) = .ok (CVal.ofBv ty (-a)) := by
  cases ty <;> simp [CTy.isFloat] at hf <;>
    simp [cg_Negate, Cg.operand, Cg.variable_, Cg.def_, ineg_ofBv _ rfl hw]

theorem cg_Add_f32 (dbg : Bool) (a b : BitVec 32) :
    cg_Add dbg (CVal.f32 a) (CVal.f32 b) = .ok (CVal.f32 (F.add32 a b)) := by
  simp [cg_Add, Cg.operand, Cg.variable_, Cg.def_, Clif.fadd, floatBin_f32]
theorem cg_Add_f64 (dbg : Bool) (a b : BitVec 64) :
    cg_Add dbg (CVal.f64 a) (CVal.f64 b) = .ok (CVal.f64 (F.add64 a b)) := by
  simp [cg_Add, Cg.operand, Cg.variable_, Cg.def_, Clif.fadd, floatBin_f64]
theorem cg_Sub_f32 (dbg : Bool) (a b : BitVec 32) :
    cg_Sub dbg (CVal.f32 a) (CVal.f32 b) = .ok (CVal.f32 (F.sub32 a b)) := by
  simp [cg_Sub, Cg.operand, Cg.variable_, Cg.def_, Clif.fsub, floatBin_f32]
theorem cg_Sub_f64 (dbg : Bool) (a b : BitVec 64) :
    cg_Sub dbg (CVal.f64 a) (CVal.f64 b) = .ok (CVal.f64 (F.sub64 a b)) := by
  simp [cg_Sub, Cg.operand, Cg.variable_, Cg.def_, Clif.fsub, floatBin_f64]
theorem cg_Mul_f32 (dbg : Bool) (a b : BitVec 32) :
    cg_Mul dbg (CVal.f32 a) (CVal.f32 b) = .ok (CVal.f32 (F.mul32 a b)) := by
  simp [cg_Mul, Cg.operand, Cg.variable_, Cg.def_, Clif.fmul, floatBin_f32]
theorem cg_Mul_f64 (dbg : Bool) (a b : BitVec 64) :
    cg_Mul dbg (CVal.f64 a) (CVal.f64 b) = .ok (CVal.f64 (F.mul64 a b)) := by
  simp [cg_Mul, Cg.operand, Cg.variable_, Cg.def_, Clif.fmul, floatBin_f64]
theorem cg_FDiv_f32 (dbg : Bool) (a b : BitVec 32) :
    cg_FDiv dbg (CVal.f32 a) (CVal.f32 b) = .ok (CVal.f32 (F.div32 a b)) := by
  simp [cg_FDiv, Cg.operand, Cg.variable_, Cg.def_, Clif.fdiv, floatBin_f32]
theorem cg_FDiv_f64 (dbg : Bool) (a b : BitVec 64) :
    cg_FDiv dbg (CVal.f64 a) (CVal.f64 b) = .ok (CVal.f64 (F.div64 a b)) := by
  simp [cg_FDiv, Cg.operand, Cg.variable_, Cg.def_, Clif.fdiv, floatBin_f64]
theorem cg_Negate_f32 (dbg : Bool) (a : BitVec 32) :
    cg_Negate dbg (CVal.f32 a) = .ok (CVal.f32 (F.neg32 a)) := by
  simp [cg_Negate, Cg.operand, Cg.variable_, Cg.def_, Clif.fneg] <;> rfl
theorem cg_Negate_f64 (dbg : Bool) (a : BitVec 64) :
    cg_Negate dbg (CVal.f64 a) = .ok (CVal.f64 (F.neg64 a)) := by
  simp [cg_Negate, Cg.operand, Cg.variable_, Cg.def_, Clif.fneg] <;> rfl

theorem cg_FloatCmp_f32 (dbg : Bool) (cmp : FloatCmp) (a b : BitVec 32) :
    cg_FloatCmp dbg cmp (CVal.f32 a) (CVal.f32 b) = .ok (CVal.ofBool (floatCmpSpec32 cmp a b)) := by
  cases cmp <;>
    simp [cg_FloatCmp, float_cmp, Cg.operand, Cg.variable_, Cg.def_, Clif.fcmp, Clif.fccHolds32,
      floatCmpSpec32, CVal.ofBool] <;> rfl
theorem cg_FloatCmp_f64 (dbg : Bool) (cmp : FloatCmp) (a b : BitVec 64) :
    cg_FloatCmp dbg cmp (CVal.f64 a) (CVal.f64 b) = .ok (CVal.ofBool (floatCmpSpec64 cmp a b)) := by
  cases cmp <;>
    simp [cg_FloatCmp, float_cmp, Cg.operand, Cg.variable_, Cg.def_, Clif.fcmp, Clif.fccHolds64,
      floatCmpSpec64, CVal.ofBool] <;> rfl

/-- mixed or non-float operands are rejected (verifier) in every float arm. -/
theorem cg_FloatCmp_mixed (dbg : Bool) (cmp : FloatCmp) (a b : CVal) (h : a.ty ≠ b.ty) :
    cg_FloatCmp dbg cmp a b = .panic := by
  rcases a with ⟨ta, na⟩; rcases b with ⟨tb, nb⟩
  cases cmp <;> cases ta <;> cases tb <;> simp_all [cg_FloatCmp, float_cmp, Cg.operand, Cg.variable_, Clif.fcmp]

end arms

theorem jitRepr_ofPInt (k : IntKind) (sz : IntSize) (x : PInt k sz) :
    jitRepr (IrValue.ofPInt k sz x) = some (cvInt x) := by
  cases k <;> cases sz
  · exact jitRepr_U8 x
  · exact jitRepr_U16 x
  · exact jitRepr_U32 x
  · exact jitRepr_U64 x
  · exact jitRepr_I8 x
  · exact jitRepr_I16 x
  · exact jitRepr_I32 x
  · exact jitRepr_I64 x

end RotoV
