/-
  Scalar groundwork shared by C01 / C10 / C20.  Nothing here is a statement about a
  *generated* definition, so no change in the Rust sources can break this file:

  1. `RInt` (Rust's fixed-width integers, `Model/RustStd`) against `BitVec`
     operations: what `+ - * / % neg < <= > >= as` compute, exactly when they
     panic, and the `BitVec` results as language-level `Int` results.
  2. SSA values by bit pattern (`CVal.ofBv`, `ofBool`, `f32`, `f64`) and the
     documented CLIF instructions (`Model/Clif`) on them, in closed form.
  3. Vocabulary for the C01 / C10 statements: `PInt`, `cvInt`, `operands`, `wrap`,
     `isMinDivNegOne`, `intCmpSpec`, and `runInstr` — the instruction-kind dispatch
     of `FuncGen::instruction` (hand-written glue; every arm it dispatches to is
     generated).

  Core Lean only.
-/
import RotoV.Model.Repr

namespace RotoV

theorem Res.bind_eq_ok_iff {α β} (r : Res α) (f : α → Res β) (b : β) :
    (r >>= f) = .ok b ↔ ∃ a, r = .ok a ∧ f a = .ok b := by
  cases r <;> simp
theorem Res.bind_eq_panic_iff {α β} (r : Res α) (f : α → Res β) :
    (r >>= f) = .panic ↔ r = .panic ∨ ∃ a, r = .ok a ∧ f a = .panic := by
  cases r <;> simp

/-! ## 1. Rust integers against bit vectors -/
namespace RInt
variable {s : Bool} {w : Nat}

theorem ofInt_val (x : RInt s w) : BitVec.ofInt w x.val = x.bv := by
  cases s <;> simp [val, BitVec.ofInt_natCast]

@[simp] theorem ofInt_bv (i : Int) : (ofInt s w i).bv = BitVec.ofInt w i := rfl

theorem ext_bv {x y : RInt s w} (h : x.bv = y.bv) : x = y := by
  cases x; cases y; simp_all

theorem val_inj {x y : RInt s w} : x.val = y.val ↔ x = y := by
  constructor
  · intro h; apply ext_bv
    cases s <;> simp [val] at h
    · exact BitVec.eq_of_toNat_eq (by omega)
    · exact BitVec.toInt_inj.mp h
  · intro h; rw [h]

theorem add_ok {dbg} {a b c : RInt s w} (h : add dbg a b = .ok c) : c = ofInt s w (a.val + b.val) := by
  unfold add arith at h; split at h <;> simp_all

theorem add_bv {dbg} {a b c : RInt s w} (h : add dbg a b = .ok c) : c.bv = a.bv + b.bv := by
  rw [add_ok h, ofInt_bv, BitVec.ofInt_add, ofInt_val, ofInt_val]

theorem sub_bv {dbg} {a b c : RInt s w} (h : sub dbg a b = .ok c) : c.bv = a.bv - b.bv := by
  unfold sub arith at h; split at h
  · simp at h
  · simp at h; subst h
    rw [ofInt_bv, Int.sub_eq_add_neg, BitVec.ofInt_add, BitVec.ofInt_neg, ofInt_val, ofInt_val, BitVec.sub_eq_add_neg]

theorem mul_bv {dbg} {a b c : RInt s w} (h : mul dbg a b = .ok c) : c.bv = a.bv * b.bv := by
  unfold mul arith at h; split at h
  · simp at h
  · simp at h; subst h
    rw [ofInt_bv, BitVec.ofInt_mul, ofInt_val, ofInt_val]

theorem neg_bv {dbg} {a c : RInt s w} (h : neg dbg a = .ok c) : c.bv = - a.bv := by
  unfold neg arith at h; split at h
  · simp at h
  · simp at h; subst h
    rw [ofInt_bv, BitVec.ofInt_neg, ofInt_val]

theorem val_eq_zero (b : RInt s w) : b.val = 0 ↔ b.bv = 0 := by
  rw [show (0:Int) = (⟨0⟩ : RInt s w).val by cases s <;> simp [val], val_inj]
  constructor
  · intro h; rw [h]
  · intro h; exact ext_bv h

theorem val_eq_min (hw : 0 < w) (a : RInt true w) : a.val = minVal true w ↔ a.bv = BitVec.intMin w := by
  have : minVal true w = (⟨BitVec.intMin w⟩ : RInt true w).val := by
    have : 2 ^ (w-1) < 2 ^ w := Nat.pow_lt_pow_right (by omega) (by omega)
    simp only [val, minVal, if_true, BitVec.toInt_intMin, Nat.mod_eq_of_lt this]
    simp
  rw [this, val_inj]
  constructor
  · intro h; rw [h]
  · intro h; exact ext_bv h

theorem val_eq_neg_one (hw : 0 < w) (a : RInt true w) : a.val = -1 ↔ a.bv = BitVec.allOnes w := by
  have : (-1 : Int) = (⟨BitVec.allOnes w⟩ : RInt true w).val := by
    simp [val, BitVec.toInt_allOnes, hw]
  rw [this, val_inj]
  constructor
  · intro h; rw [h]
  · intro h; exact ext_bv h

/-- Rust `/` on a signed type, in bit-vector terms. -/
theorem div_signed (hw : 0 < w) (dbg : Bool) (a b : RInt true w) :
    div dbg a b =
      if b.bv = 0 then .panic
      else if a.bv = BitVec.intMin w ∧ b.bv = BitVec.allOnes w then .panic
      else .ok ⟨a.bv.sdiv b.bv⟩ := by
  unfold div
  simp only [val_eq_zero, val_eq_min hw, val_eq_neg_one hw, Bool.true_and, Bool.and_eq_true, decide_eq_true_eq]
  split
  · rfl
  · split
    · rfl
    · rename_i h1 h2
      congr 1; apply ext_bv
      simp only [ofInt_bv, val, if_true]
      rw [← BitVec.toInt_sdiv_of_ne_or_ne, BitVec.ofInt_toInt]
      rw [BitVec.neg_one_eq_allOnes]
      by_cases h : a.bv = BitVec.intMin w
      · right; intro hb; exact h2 ⟨h, hb⟩
      · left; exact h

theorem div_unsigned (dbg : Bool) (a b : RInt false w) :
    div dbg a b = if b.bv = 0 then .panic else .ok ⟨a.bv / b.bv⟩ := by
  unfold div
  simp only [val_eq_zero, Bool.false_and, Bool.false_eq_true, if_false]
  split
  · rfl
  · congr 1; apply ext_bv
    simp only [ofInt_bv, val, Bool.false_eq_true, if_false]
    rw [← Int.ofNat_tdiv, ← BitVec.toNat_udiv, BitVec.ofInt_natCast, BitVec.ofNat_toNat, BitVec.setWidth_eq]

theorem rem_signed (hw : 0 < w) (dbg : Bool) (a b : RInt true w) :
    rem dbg a b =
      if b.bv = 0 then .panic
      else if a.bv = BitVec.intMin w ∧ b.bv = BitVec.allOnes w then .panic
      else .ok ⟨a.bv.srem b.bv⟩ := by
  unfold rem
  simp only [val_eq_zero, val_eq_min hw, val_eq_neg_one hw, Bool.true_and, Bool.and_eq_true, decide_eq_true_eq]
  split
  · rfl
  · split
    · rfl
    · congr 1; apply ext_bv
      simp only [ofInt_bv, val, if_true]
      rw [← BitVec.toInt_srem, BitVec.ofInt_toInt]

theorem rem_unsigned (dbg : Bool) (a b : RInt false w) :
    rem dbg a b = if b.bv = 0 then .panic else .ok ⟨a.bv % b.bv⟩ := by
  unfold rem
  simp only [val_eq_zero, Bool.false_and, Bool.false_eq_true, if_false]
  split
  · rfl
  · congr 1; apply ext_bv
    simp only [ofInt_bv, val, Bool.false_eq_true, if_false]
    rw [← Int.ofNat_tmod, ← BitVec.toNat_umod, BitVec.ofInt_natCast, BitVec.ofNat_toNat, BitVec.setWidth_eq]

theorem lt_signed (a b : RInt true w) : lt a b = a.bv.slt b.bv := by simp [lt, val, BitVec.slt]
theorem lt_unsigned (a b : RInt false w) : lt a b = a.bv.ult b.bv := by simp [lt, val, BitVec.ult]
theorem le_signed (a b : RInt true w) : le a b = !(b.bv.slt a.bv) := by
  simp only [le, val, BitVec.slt, if_true, ← decide_not, Int.not_lt]
theorem le_unsigned (a b : RInt false w) : le a b = !(b.bv.ult a.bv) := by
  simp only [le, val, BitVec.ult, Bool.false_eq_true, if_false, ← decide_not, Nat.not_lt, Int.ofNat_le]
theorem gt_eq_lt (a b : RInt s w) : gt a b = lt b a := by simp [gt, lt]
theorem ge_eq_le (a b : RInt s w) : ge a b = le b a := by simp [ge, le]

/-- `x as u64` from an unsigned type of at most 64 bits keeps the value. -/
theorem val_cast_u64 (hw : w ≤ 64) (x : RInt false w) : (cast x : RInt false 64).val = x.val := by
  have h1 := x.bv.isLt
  have h2 : 2 ^ w ≤ 2 ^ 64 := Nat.pow_le_pow_right (by omega) hw
  simp only [cast, ofInt, val, Bool.false_eq_true, if_false, BitVec.ofInt_natCast, BitVec.toNat_ofNat]
  rw [Nat.mod_eq_of_lt (by omega)]

/-- `x as i64` from a signed type of at most 64 bits keeps the value. -/
theorem val_cast_i64 (hw0 : 0 < w) (hw : w ≤ 64) (x : RInt true w) : (cast x : RInt true 64).val = x.val := by
  have h1 := @BitVec.toInt_lt w x.bv
  have h2 := BitVec.le_toInt x.bv
  have h3n : 2 ^ (w - 1) ≤ 2 ^ 63 := Nat.pow_le_pow_right (by omega) (by omega)
  have h3 : (2:Int) ^ (w - 1) ≤ 2 ^ 63 := by exact_mod_cast h3n
  simp only [cast, ofInt, val, if_true]
  apply BitVec.toInt_ofInt_eq_self (by omega) <;> simp <;> omega

end RInt

/-! ## 2. the JIT's view of values -/
open RotoV.Gen RotoV.Gen.OpTables

/-- The SSA value of CLIF type `ty` holding the bit pattern `b` (used with `w = ty.bits`;
    the width is a separate argument so that concrete widths unify syntactically). -/
def CVal.ofBv (ty : CTy) {w : Nat} (b : BitVec w) : CVal := ⟨ty, b.toNat⟩

/-- The SSA value of a boolean: an `i8` holding 1 or 0. -/
def CVal.ofBool (b : Bool) : CVal := ⟨.I8, if b then 1 else 0⟩

@[simp] theorem CVal.ofBv_ty (ty : CTy) {w : Nat} (b : BitVec w) : (CVal.ofBv ty b).ty = ty := rfl
@[simp] theorem CVal.ofBv_bv (ty : CTy) {w : Nat} (b : BitVec w) : (CVal.ofBv ty b).bv w = b := by
  simp [CVal.ofBv, CVal.bv]
theorem CVal.ofBv_inj {ty : CTy} {w : Nat} {a b : BitVec w} : CVal.ofBv ty a = CVal.ofBv ty b ↔ a = b := by
  constructor
  · intro h; have := congrArg (fun v => v.bv w) h; simpa using this
  · intro h; rw [h]
theorem CVal.ofBool_eq (b : Bool) : CVal.ofBool b = CVal.ofBv .I8 (if b then 1#8 else 0#8) := by
  cases b <;> rfl

/-- SSA values of the two float types, by bit pattern. -/
def CVal.f32 (a : BitVec 32) : CVal := ⟨.F32, a.toNat⟩
def CVal.f64 (a : BitVec 64) : CVal := ⟨.F64, a.toNat⟩
@[simp] theorem CVal.f32_ty (a : BitVec 32) : (CVal.f32 a).ty = .F32 := rfl
@[simp] theorem CVal.f64_ty (a : BitVec 64) : (CVal.f64 a).ty = .F64 := rfl
@[simp] theorem CVal.f32_bv (a : BitVec 32) : (CVal.f32 a).bv 32 = a := by simp [CVal.f32, CVal.bv]
@[simp] theorem CVal.f64_bv (a : BitVec 64) : (CVal.f64 a).bv 64 = a := by simp [CVal.f64, CVal.bv]

/-- what `iconst(ty, x as i64)` keeps of an integer of width `w ≤ 64`: its own bits. -/
theorem repr_bits {s : Bool} {w : Nat} (hw : w ≤ 64) (x : RInt s w) :
    (RInt.cast x : I64).bv.toNat % 2 ^ w = x.bv.toNat := by
  have h2 : 2 ^ w ∣ 2 ^ 64 := Nat.pow_dvd_pow 2 hw
  have : (BitVec.ofInt 64 x.val).toNat % 2 ^ w = (BitVec.ofInt w x.val).toNat := by
    simp only [BitVec.toNat_ofInt]
    have hp64 : (0:Int) < ((2 ^ 64 : Nat) : Int) := by exact_mod_cast Nat.two_pow_pos 64
    have hpw : (0:Int) < ((2 ^ w : Nat) : Int) := by exact_mod_cast Nat.two_pow_pos w
    have h64 : 0 ≤ x.val % ((2 ^ 64 : Nat) : Int) := Int.emod_nonneg _ (by omega)
    have hw' : 0 ≤ x.val % ((2 ^ w : Nat) : Int) := Int.emod_nonneg _ (by omega)
    have hd : ((2 ^ w : Nat) : Int) ∣ ((2 ^ 64 : Nat) : Int) := Int.natCast_dvd_natCast.mpr h2
    apply Int.ofNat.inj
    show ((((x.val % ((2 ^ 64 : Nat) : Int)).toNat % 2 ^ w : Nat)) : Int) = (((x.val % ((2 ^ w : Nat) : Int)).toNat : Nat) : Int)
    rw [Int.natCast_emod, Int.toNat_of_nonneg h64, Int.toNat_of_nonneg hw', Int.emod_emod_of_dvd _ hd]
  simp only [RInt.cast, RInt.ofInt_bv]
  rw [this, RInt.ofInt_val]

theorem CTy.bits_le (ty : CTy) : ty.bits ≤ 64 := by cases ty <;> decide

theorem mk'_cast {s : Bool} (ty : CTy) {w : Nat} (hw : ty.bits = w) (x : RInt s w) :
    CVal.mk' ty (RInt.cast x : I64).bv.toNat = CVal.ofBv ty x.bv := by
  subst hw
  simp only [CVal.mk', CVal.ofBv, repr_bits (CTy.bits_le ty) x]

theorem RInt.cast_self {s : Bool} {w : Nat} (x : RInt s w) : (RInt.cast x : RInt s w) = x :=
  RInt.ext_bv (by simp [RInt.cast, RInt.ofInt_val])

theorem mk'_I64 (x : I64) : CVal.mk' .I64 x.bv.toNat = CVal.ofBv .I64 x.bv := by
  simp only [CVal.mk', CVal.ofBv]; congr 1; exact Nat.mod_eq_of_lt x.bv.isLt

theorem intBin_ofBv (f : (w : Nat) → BitVec w → BitVec w → Res (BitVec w)) (ty : CTy)
    (hf : ty.isFloat = false) {w : Nat} (hw : ty.bits = w) (a b : BitVec w) :
    Clif.intBin f (CVal.ofBv ty a) (CVal.ofBv ty b) = (f w a b).map' (CVal.ofBv ty) := by
  subst hw
  simp only [Clif.intBin, CVal.ofBv_ty, CVal.ofBv_bv, hf, ne_eq, not_true_eq_false, decide_false,
    Bool.or_self, Bool.false_eq_true, if_false]
  cases f ty.bits a b <;> rfl

theorem iadd_ofBv (ty : CTy) (hf : ty.isFloat = false) {w : Nat} (hw : ty.bits = w) (a b : BitVec w) :
    Clif.iadd (CVal.ofBv ty a) (CVal.ofBv ty b) = .ok (CVal.ofBv ty (a + b)) := by
  rw [Clif.iadd, intBin_ofBv _ _ hf hw]; rfl
theorem isub_ofBv (ty : CTy) (hf : ty.isFloat = false) {w : Nat} (hw : ty.bits = w) (a b : BitVec w) :
    Clif.isub (CVal.ofBv ty a) (CVal.ofBv ty b) = .ok (CVal.ofBv ty (a - b)) := by
  rw [Clif.isub, intBin_ofBv _ _ hf hw]; rfl
theorem imul_ofBv (ty : CTy) (hf : ty.isFloat = false) {w : Nat} (hw : ty.bits = w) (a b : BitVec w) :
    Clif.imul (CVal.ofBv ty a) (CVal.ofBv ty b) = .ok (CVal.ofBv ty (a * b)) := by
  rw [Clif.imul, intBin_ofBv _ _ hf hw]; rfl
theorem sdiv_ofBv (ty : CTy) (hf : ty.isFloat = false) {w : Nat} (hw : ty.bits = w) (a b : BitVec w) :
    Clif.sdiv (CVal.ofBv ty a) (CVal.ofBv ty b) =
      if b = 0 then .panic
      else if a = BitVec.intMin w ∧ b = BitVec.allOnes w then .panic
      else .ok (CVal.ofBv ty (a.sdiv b)) := by
  rw [Clif.sdiv, intBin_ofBv _ _ hf hw]; split
  · rfl
  · split <;> rfl
theorem udiv_ofBv (ty : CTy) (hf : ty.isFloat = false) {w : Nat} (hw : ty.bits = w) (a b : BitVec w) :
    Clif.udiv (CVal.ofBv ty a) (CVal.ofBv ty b) =
      if b = 0 then .panic else .ok (CVal.ofBv ty (a / b)) := by
  rw [Clif.udiv, intBin_ofBv _ _ hf hw]; split <;> rfl
theorem srem_ofBv (ty : CTy) (hf : ty.isFloat = false) {w : Nat} (hw : ty.bits = w) (a b : BitVec w) :
    Clif.srem (CVal.ofBv ty a) (CVal.ofBv ty b) =
      if b = 0 then .panic else .ok (CVal.ofBv ty (a.srem b)) := by
  rw [Clif.srem, intBin_ofBv _ _ hf hw]; split <;> rfl
theorem urem_ofBv (ty : CTy) (hf : ty.isFloat = false) {w : Nat} (hw : ty.bits = w) (a b : BitVec w) :
    Clif.urem (CVal.ofBv ty a) (CVal.ofBv ty b) =
      if b = 0 then .panic else .ok (CVal.ofBv ty (a % b)) := by
  rw [Clif.urem, intBin_ofBv _ _ hf hw]; split <;> rfl
theorem ineg_ofBv (ty : CTy) (hf : ty.isFloat = false) {w : Nat} (hw : ty.bits = w) (a : BitVec w) :
    Clif.ineg (CVal.ofBv ty a) = .ok (CVal.ofBv ty (-a)) := by
  subst hw
  simp only [Clif.ineg, CVal.ofBv_ty, hf, Bool.false_eq_true, if_false, CVal.ofBv_bv]; rfl
theorem icmp_ofBv (cc : IntCC) (ty : CTy) (hf : ty.isFloat = false) {w : Nat} (hw : ty.bits = w)
    (a b : BitVec w) :
    Clif.icmp cc (CVal.ofBv ty a) (CVal.ofBv ty b) = .ok (CVal.ofBool (Clif.iccHolds cc a b)) := by
  subst hw
  simp only [Clif.icmp, CVal.ofBv_ty, hf, ne_eq, not_true_eq_false, decide_false, Bool.or_self,
    Bool.false_eq_true, if_false, CVal.ofBv_bv]; rfl
theorem icmp_imm_ofBv (cc : IntCC) (ty : CTy) (hf : ty.isFloat = false) {w : Nat} (hw : ty.bits = w)
    (a : BitVec w) (imm : Int) :
    Clif.icmp_imm cc (CVal.ofBv ty a) imm
      = .ok (CVal.ofBool (Clif.iccHolds cc a (BitVec.ofInt w imm))) := by
  subst hw
  simp only [Clif.icmp_imm, CVal.ofBv_ty, hf, Bool.false_eq_true, if_false, CVal.ofBv_bv]; rfl

/-- operands of different CLIF types are rejected by the verifier. -/
theorem icmp_mixed (cc : IntCC) (a b : CVal) (h : a.ty ≠ b.ty) : Clif.icmp cc a b = .panic := by
  simp [Clif.icmp, h]

/-- What each LIR integer comparison means on bit vectors (the specification
    the generated `int_cmp` condition-code table is proved against). -/
def intCmpSpec {w : Nat} (cmp : IntCmp) (a b : BitVec w) : Bool :=
  match cmp with
  | .Eq => a == b | .Ne => a != b
  | .ULt => a.ult b | .ULe => !(b.ult a) | .UGt => b.ult a | .UGe => !(a.ult b)
  | .SLt => a.slt b | .SLe => !(b.slt a) | .SGt => b.slt a | .SGe => !(a.slt b)

theorem floatBin_f32 (f32 : BitVec 32 → BitVec 32 → BitVec 32) (f64 : BitVec 64 → BitVec 64 → BitVec 64)
    (a b : BitVec 32) :
    Clif.floatBin f32 f64 (CVal.f32 a) (CVal.f32 b) = .ok (CVal.f32 (f32 a b)) := by
  simp [Clif.floatBin] <;> rfl
theorem floatBin_f64 (f32 : BitVec 32 → BitVec 32 → BitVec 32) (f64 : BitVec 64 → BitVec 64 → BitVec 64)
    (a b : BitVec 64) :
    Clif.floatBin f32 f64 (CVal.f64 a) (CVal.f64 b) = .ok (CVal.f64 (f64 a b)) := by
  simp [Clif.floatBin] <;> rfl

section
variable [F : FloatOps]
/-- What each LIR float comparison means (specification for the generated `float_cmp` table). -/
def floatCmpSpec32 (cmp : FloatCmp) (a b : BitVec 32) : Bool :=
  match cmp with
  | .Eq => F.eq32 a b | .Ne => !(F.eq32 a b)
  | .Lt => F.lt32 a b | .Le => F.le32 a b | .Gt => F.lt32 b a | .Ge => F.le32 b a
def floatCmpSpec64 (cmp : FloatCmp) (a b : BitVec 64) : Bool :=
  match cmp with
  | .Eq => F.eq64 a b | .Ne => !(F.eq64 a b)
  | .Lt => F.lt64 a b | .Le => F.le64 a b | .Gt => F.lt64 b a | .Ge => F.le64 b a
end

theorem RInt.eq_iff_bv {s : Bool} {w : Nat} (a b : RInt s w) : a = b ↔ a.bv = b.bv :=
  ⟨fun h => by rw [h], RInt.ext_bv⟩

theorem RInt.decide_eq {s : Bool} {w : Nat} (a b : RInt s w) : decide (a = b) = (a.bv == b.bv) := by
  by_cases h : a = b
  · subst h; simp
  · have : a.bv ≠ b.bv := fun hb => h (RInt.ext_bv hb)
    simp [h, this]

/-! ## 5. vocabulary for the C01 / C10 statements -/

@[reducible] def IntKind.signed : IntKind → Bool
  | .Signed => true
  | .Unsigned => false

/-- the CLIF type of an integer of that size. -/
def IntSize.cty : IntSize → CTy
  | .I8 => .I8 | .I16 => .I16 | .I32 => .I32 | .I64 => .I64

abbrev IntSize.bits (sz : IntSize) : Nat := sz.cty.bits

theorem IntSize.cty_notFloat (sz : IntSize) : sz.cty.isFloat = false := by cases sz <;> rfl
theorem IntSize.bits_pos (sz : IntSize) : 0 < sz.bits := by cases sz <;> decide
theorem IntSize.bits_le (sz : IntSize) : sz.bits ≤ 64 := CTy.bits_le _

/-- the values of the script type `Primitive.Int k sz`: Rust integers of that signedness and width. -/
abbrev PInt (k : IntKind) (sz : IntSize) := RInt k.signed sz.bits

/-- the `IrType` of `Primitive.Int k sz` (specification for the generated `lower_type_prim`). -/
def irTypeOf : IntKind → IntSize → IrType
  | .Unsigned, .I8 => .U8 | .Unsigned, .I16 => .U16 | .Unsigned, .I32 => .U32 | .Unsigned, .I64 => .U64
  | .Signed, .I8 => .I8 | .Signed, .I16 => .I16 | .Signed, .I32 => .I32 | .Signed, .I64 => .I64

/-- the `IrValue` carrying an integer of type `Primitive.Int k sz`. -/
def IrValue.ofPInt : (k : IntKind) → (sz : IntSize) → PInt k sz → IrValue
  | .Unsigned, .I8, x => .U8 x | .Unsigned, .I16, x => .U16 x
  | .Unsigned, .I32, x => .U32 x | .Unsigned, .I64, x => .U64 x
  | .Signed, .I8, x => .I8 x | .Signed, .I16, x => .I16 x
  | .Signed, .I32, x => .I32 x | .Signed, .I64, x => .I64 x

/-- the SSA value holding an integer: CLIF type of its size, its own bits. -/
def cvInt {k : IntKind} {sz : IntSize} (x : PInt k sz) : CVal := CVal.ofBv sz.cty x.bv

/-- operand environment of a binary operator: `Side.lhs` is the source-left operand. -/
def operands (l r : CVal) : Side → CVal
  | .lhs => l
  | .rhs => r

section
variable [FloatOps]
/-- Instruction-kind dispatch of `FuncGen::instruction` (src/codegen/mod.rs): hand-written glue,
    every arm it dispatches to is generated.  `CallEq` is `Lowerer::call_eq_of` restricted to its
    scalar arms (src/lir/lower/eq.rs:34-61, hand-modelled): an `IntCmp`/`FloatCmp` with `Eq`/`Ne`. -/
def runInstr (dbg : Bool) (i : Instruction) (env : Side → CVal) : Res CVal :=
  match i with
  | .IntCmp _ cmp l r => cg_IntCmp dbg cmp (env l) (env r)
  | .FloatCmp _ cmp l r => cg_FloatCmp dbg cmp (env l) (env r)
  | .Add _ l r => cg_Add dbg (env l) (env r)
  | .Sub _ l r => cg_Sub dbg (env l) (env r)
  | .Mul _ l r => cg_Mul dbg (env l) (env r)
  | .Div _ l r signed => cg_Div dbg signed (env l) (env r)
  | .Mod _ l r signed => cg_Mod dbg signed (env l) (env r)
  | .FDiv _ l r => cg_FDiv dbg (env l) (env r)
  | .CallEq negate l r =>
    if (env l).ty.isFloat then cg_FloatCmp dbg (if negate then .Ne else .Eq) (env l) (env r)
    else cg_IntCmp dbg (if negate then .Ne else .Eq) (env l) (env r)
end

/-- destination type of an instruction. -/
def Instruction.dest : Instruction → IrType
  | .IntCmp t .. | .FloatCmp t .. | .Add t .. | .Sub t .. | .Mul t .. | .Div t .. | .Mod t ..
  | .FDiv t .. => t
  | .CallEq .. => .Bool

/-! ### bit-vector results as language-level `Int` results -/
namespace RInt
variable {s : Bool} {w : Nat}

theorem bv_add (a b : RInt s w) : a.bv + b.bv = BitVec.ofInt w (a.val + b.val) := by
  rw [BitVec.ofInt_add, ofInt_val, ofInt_val]
theorem bv_sub (a b : RInt s w) : a.bv - b.bv = BitVec.ofInt w (a.val - b.val) := by
  rw [Int.sub_eq_add_neg, BitVec.ofInt_add, BitVec.ofInt_neg, ofInt_val, ofInt_val, BitVec.sub_eq_add_neg]
theorem bv_mul (a b : RInt s w) : a.bv * b.bv = BitVec.ofInt w (a.val * b.val) := by
  rw [BitVec.ofInt_mul, ofInt_val, ofInt_val]
theorem bv_neg (a : RInt s w) : - a.bv = BitVec.ofInt w (- a.val) := by
  rw [BitVec.ofInt_neg, ofInt_val]

/-- `sdiv` is truncating division of the signed values, except at `MIN / -1`. -/
theorem bv_sdiv (h0 : 0 < w) (a b : RInt true w) (hg : ¬(a.val = minVal true w ∧ b.val = -1)) :
    a.bv.sdiv b.bv = BitVec.ofInt w (a.val.tdiv b.val) := by
  simp only [val, if_true]
  rw [← BitVec.toInt_sdiv_of_ne_or_ne, BitVec.ofInt_toInt]
  rw [BitVec.neg_one_eq_allOnes]
  by_cases h : a.bv = BitVec.intMin w
  · right; intro hb; exact hg ⟨(val_eq_min h0 a).mpr h, (val_eq_neg_one h0 b).mpr hb⟩
  · left; exact h
theorem bv_udiv (a b : RInt false w) : a.bv / b.bv = BitVec.ofInt w (a.val.tdiv b.val) := by
  simp only [val, Bool.false_eq_true, if_false]
  rw [← Int.ofNat_tdiv, ← BitVec.toNat_udiv, BitVec.ofInt_natCast, BitVec.ofNat_toNat, BitVec.setWidth_eq]
/-- `srem` is the truncating remainder of the signed values (sign of the dividend), everywhere. -/
theorem bv_srem (a b : RInt true w) : a.bv.srem b.bv = BitVec.ofInt w (a.val.tmod b.val) := by
  simp only [val, if_true]
  rw [← BitVec.toInt_srem, BitVec.ofInt_toInt]
theorem bv_umod (a b : RInt false w) : a.bv % b.bv = BitVec.ofInt w (a.val.tmod b.val) := by
  simp only [val, Bool.false_eq_true, if_false]
  rw [← Int.ofNat_tmod, ← BitVec.toNat_umod, BitVec.ofInt_natCast, BitVec.ofNat_toNat, BitVec.setWidth_eq]

theorem bv_eq_iff (a b : RInt s w) : (a.bv == b.bv) = decide (a.val = b.val) := by
  rw [← decide_eq a b]
  by_cases h : a = b
  · simp [h]
  · have : a.val ≠ b.val := fun hv => h (val_inj.mp hv)
    simp [h, this]
theorem slt_iff (a b : RInt true w) : a.bv.slt b.bv = decide (a.val < b.val) := by
  simp [val, BitVec.slt]
theorem ult_iff (a b : RInt false w) : a.bv.ult b.bv = decide (a.val < b.val) := by
  simp [val, BitVec.ult]
end RInt

/-- reduce an `Int` result mod 2^w and reinterpret by the type's signedness. -/
def wrap (k : IntKind) (sz : IntSize) (i : Int) : PInt k sz := RInt.ofInt _ _ i

/-- `MIN / -1` on a signed type (its quotient is not representable). -/
def isMinDivNegOne {k : IntKind} {sz : IntSize} (a b : PInt k sz) : Prop :=
  k = .Signed ∧ a.val = RInt.minVal true sz.bits ∧ b.val = -1

instance {k sz} (a b : PInt k sz) : Decidable (isMinDivNegOne a b) := by
  unfold isMinDivNegOne; infer_instance

/-- the language-level meaning of each LIR comparison on an integer type whose signedness matches
    the comparison's. -/
theorem intCmpSpec_signed {w : Nat} (a b : RInt true w) :
    intCmpSpec .SLt a.bv b.bv = decide (a.val < b.val) ∧ intCmpSpec .SLe a.bv b.bv = decide (a.val ≤ b.val)
    ∧ intCmpSpec .SGt a.bv b.bv = decide (a.val > b.val) ∧ intCmpSpec .SGe a.bv b.bv = decide (a.val ≥ b.val) := by
  simp only [intCmpSpec, RInt.slt_iff, ← decide_not, Int.not_lt, gt_iff_lt, ge_iff_le, and_self]
theorem intCmpSpec_unsigned {w : Nat} (a b : RInt false w) :
    intCmpSpec .ULt a.bv b.bv = decide (a.val < b.val) ∧ intCmpSpec .ULe a.bv b.bv = decide (a.val ≤ b.val)
    ∧ intCmpSpec .UGt a.bv b.bv = decide (a.val > b.val) ∧ intCmpSpec .UGe a.bv b.bv = decide (a.val ≥ b.val) := by
  simp only [intCmpSpec, RInt.ult_iff, ← decide_not, Int.not_lt, gt_iff_lt, ge_iff_le, and_self]
theorem intCmpSpec_eq {s : Bool} {w : Nat} (a b : RInt s w) :
    intCmpSpec .Eq a.bv b.bv = decide (a.val = b.val) ∧ intCmpSpec .Ne a.bv b.bv = decide (a.val ≠ b.val) := by
  simp only [intCmpSpec, bne, RInt.bv_eq_iff, ← decide_not, and_self]

namespace RInt
/-- a value inside the type's range survives `ofInt` (no wrap). -/
theorem val_ofInt_of_inRange {s : Bool} {w : Nat} (h0 : 0 < w) {i : Int} (h : inRange s w i = true) :
    (ofInt s w i).val = i := by
  simp only [inRange, Bool.and_eq_true, decide_eq_true_eq] at h
  cases s
  · simp only [minVal, maxVal, Bool.false_eq_true, if_false] at h
    simp only [val, ofInt, Bool.false_eq_true, if_false, BitVec.toNat_ofInt]
    have hp : (0:Int) < ((2 ^ w : Nat) : Int) := by exact_mod_cast Nat.two_pow_pos w
    have : i % ((2 ^ w : Nat) : Int) = i := Int.emod_eq_of_lt h.1 (by have := h.2; simp only [Int.natCast_pow, Int.cast_ofNat_Int]; omega)
    rw [this]; exact Int.toNat_of_nonneg h.1
  · simp only [minVal, maxVal, if_true] at h
    simp only [val, ofInt, if_true]
    exact BitVec.toInt_ofInt_eq_self h0 h.1 (by omega)
end RInt

end RotoV
