/-
  C11 — lemmas about baked constant addresses (Model/LifetimeAddr.lean) and about
  the moment at which the state of registered closures is released inside a
  module's drop (Model/Lifetime.lean: `dropFields`).
-/
import RotoV.Model.Lifetime
import RotoV.Model.LifetimeAddr
import RotoV.Lemmas.Lifetime

namespace RotoV.Lifetime

/-! ### baked constant addresses -/

theorem Tab.insert_gen_le (t : Tab) : t.gen ≤ t.insert.gen := by
  unfold Tab.insert
  split
  · exact Nat.le_refl _
  · exact Nat.le_succ _

theorem codegen_gen_step (st : ConstStore) (n : Nat) :
    (codegenConsts st n).1.gen ≤ (codegenConsts st (n + 1)).1.gen := by
  show _ ≤ ((codegenConsts st n).1.insert).gen
  exact Tab.insert_gen_le _

theorem codegen_gen_mono (st : ConstStore) (n : Nat) : ∀ d, (codegenConsts st n).1.gen ≤ (codegenConsts st (n + d)).1.gen
  | 0 => Nat.le_refl _
  | d + 1 => Nat.le_trans (codegen_gen_mono st n d) (codegen_gen_step st (n + d))

theorem codegen_baked_step (st : ConstStore) (n : Nat) (x : Nat × Addr) (h : x ∈ (codegenConsts st n).2) :
    x ∈ (codegenConsts st (n + 1)).2 := by
  show x ∈ _ :: _ :: (codegenConsts st n).2
  exact List.mem_cons_of_mem _ (List.mem_cons_of_mem _ h)

theorem codegen_baked_mono (st : ConstStore) (n : Nat) (x : Nat × Addr) (h : x ∈ (codegenConsts st n).2) :
    ∀ d, x ∈ (codegenConsts st (n + d)).2
  | 0 => h
  | d + 1 => codegen_baked_step st (n + d) x (codegen_baked_mono st n x h d)

/-- with constants in allocations of their own, only such allocations are baked -/
theorem codegen_own_heap : ∀ (n : Nat) (x : Nat × Addr), x ∈ (codegenConsts .ownAlloc n).2 → ∃ c, x.2 = .heap c
  | 0, x, h => by simp [codegenConsts] at h
  | n + 1, x, h => by
    have h' : x ∈ (n, addrOf .ownAlloc (codegenConsts .ownAlloc n).1.insert n)
        :: (n / 2, addrOf .ownAlloc (codegenConsts .ownAlloc n).1.insert (n / 2)) :: (codegenConsts .ownAlloc n).2 := h
    rcases List.mem_cons.1 h' with e | h''
    · exact ⟨n, by rw [e]; rfl⟩
    · rcases List.mem_cons.1 h'' with e | h'''
      · exact ⟨n / 2, by rw [e]; rfl⟩
      · exact codegen_own_heap n x h'''

theorem ownAlloc_all_valid (n : Nat) : allBakedValid .ownAlloc n = true := by
  unfold allBakedValid
  rw [List.all_eq_true]
  intro x hx
  obtain ⟨c, hc⟩ := codegen_own_heap n x hx
  rw [hc]; rfl

/-- values stored inside the map's entries: the address of constant 0 baked into its getter points into the
    first bucket array, which is gone once a 4th constant has been inserted -/
theorem inMapEntry_stale (n : Nat) (hn : 4 ≤ n) : allBakedValid .inMapEntry n = false := by
  obtain ⟨d, rfl⟩ : ∃ d, n = 4 + d := ⟨n - 4, by omega⟩
  have hmem : ((0 : Nat), Addr.table 1 0) ∈ (codegenConsts .inMapEntry (4 + d)).2 := by
    have h1 : ((0 : Nat), Addr.table 1 0) ∈ (codegenConsts .inMapEntry 1).2 := by decide
    have := codegen_baked_mono .inMapEntry 1 _ h1 (3 + d)
    have e : 1 + (3 + d) = 4 + d := by omega
    rwa [e] at this
  have hgen : 2 ≤ (codegenConsts .inMapEntry (4 + d)).1.gen := by
    have h4 : (codegenConsts .inMapEntry 4).1.gen = 2 := by decide
    have := codegen_gen_mono .inMapEntry 4 d
    omega
  unfold allBakedValid
  rw [List.all_eq_false]
  refine ⟨_, hmem, ?_⟩
  show ¬ ((1 == (codegenConsts .inMapEntry (4 + d)).1.gen) = true)
  intro h
  have := eq_of_beq h
  omega

/-! ### the state of registered closures is released while the code is mapped -/

/-- `Drop for RotoConstant` of the constants of a module never touches the mapping of the code -/
theorem dropRotoConstants_mapped (F : Facts) (k : Nat) : ∀ (n : Nat) (s : St),
    (dropRotoConstants F k n s).mapped = s.mapped
  | 0, _ => rfl
  | n + 1, s => by
    have releaseN_mapped : ∀ (x : Res) (m : Nat) (t : St), (releaseN x m t).mapped = t.mapped := by
      intro x m
      induction m with
      | zero => intro t; rfl
      | succ m ih => intro t; show (release x (releaseN x m t)).mapped = _; exact ih t
    simp only [dropRotoConstants]
    rw [releaseN_mapped]
    split
    · exact dropRotoConstants_mapped F k n s
    · show (dropRotoConstants F k n s).mapped = _
      exact dropRotoConstants_mapped F k n s

/-- dropping fields other than the JIT module leaves the code mapped as it was -/
theorem dropFields_mapped_of_no_jit (F : Facts) (k : Nat) : ∀ (fs : List Field) (s : St), Field.jit ∉ fs →
    (dropFields F k fs s).mapped = s.mapped
  | [], _, _ => rfl
  | f :: fs, s, h => by
    have hf : f ≠ Field.jit := fun e => h (by rw [e]; exact List.mem_cons_self ..)
    have hfs : Field.jit ∉ fs := fun m => h (List.mem_cons_of_mem _ m)
    show (dropFields F k fs (dropField F k f s)).mapped = _
    rw [dropFields_mapped_of_no_jit F k fs _ hfs]
    cases f with
    | constants => simp only [dropField]; split <;> simp
    | rotoConstants => simp only [dropField]; exact dropRotoConstants_mapped F k _ s
    | registeredFns => simp only [dropField]; split <;> simp
    | jit => exact absurd rfl hf
    | plain => rfl

/-- the fields of `ModuleData` declared before the keep-alive collection of registered functions -/
def beforeFns (fs : List Field) : List Field := fs.takeWhile (fun f => f != Field.registeredFns)

/-- the collection of registered functions is dropped before the JIT module, and nothing frees the code ahead of
    the fields -/
def fnsBeforeCodeB (F : Facts) : Bool :=
  !(F.freeSites.contains FreeSite.moduleDataDrop) && !((beforeFns F.moduleFields).contains Field.jit)
    && F.moduleFields.contains Field.registeredFns

end RotoV.Lifetime
