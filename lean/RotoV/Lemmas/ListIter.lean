/-
  ListIter: histories with live Rust-side iterators refine shared vectors with
  cursors (C15). Every step of `istep` is a step of the list model (or none),
  so the store invariant and the forward simulation of Lemmas/ListRefine carry
  over; what is new is the cursor: the generated decisions of `IntoIter::next`
  must be those of an index walk over the list as it is at the time of the call.
-/
import RotoV.Lemmas.ListRefine
import RotoV.Model.ListIter

namespace RotoV.ListM
open RotoV

/-- tie obligation: what the source says `into_iter` / `next` decide
    (Generated/ListIter), for EVERY state of the list and the iterator: the walk
    starts at index 0; `next` never answers `None` without asking the list; it
    asks for the element at the iterator's index; the index moves on by one -/
theorem iter_decisions (inner : RawView) (i n : Nat) :
    Gen.ListIter.startIdx = 0 ∧
    Gen.ListIter.nextStopsEarly (Gen.ListIter.mkView inner i n) = false ∧
    Gen.ListIter.nextIndex (Gen.ListIter.mkView inner i n) = i ∧
    Gen.ListIter.nextIdxAfter (Gen.ListIter.mkView inner i n) = i + 1 := by
  refine ⟨?_, ?_, ?_, ?_⟩ <;>
    first
      | rfl
      | (simp [Gen.ListIter.startIdx, Gen.ListIter.nextStopsEarly, Gen.ListIter.nextIndex,
          Gen.ListIter.nextIdxAfter, Gen.ListIter.mkView]; done)
      | (simp [Gen.ListIter.startIdx, Gen.ListIter.nextStopsEarly, Gen.ListIter.nextIndex,
          Gen.ListIter.nextIdxAfter, Gen.ListIter.mkView]; omega)

/-- `next` on a live iterator, from every state satisfying the invariant: the
    element at the iterator's index of the list AS IT IS NOW; the index moves on
    iff there was one; nothing else changes -/
theorem iterNext_bound {sz : Nat} {s : ISt} (inv : Inv sz s.st) {v a : Nat} {l : RawList}
    (hs : s.st.slots[v]? = some (some a)) (hl : s.st.getAlloc a = some l) :
    istep sz s (.iterNext v) =
      match l.elems[s.idx v]? with
      | some x => (.opt (some x), { s with idx := upd s.idx v (s.idx v + 1) })
      | none => (.opt none, s) := by
  have hv : iterView s v = some (Gen.ListIter.mkView l.view (s.idx v) (s.snap v)) := by
    simp only [iterView, slot_ok hs, hl]
  have ⟨_, h2, h3, h4⟩ := iter_decisions l.view (s.idx v) (s.snap v)
  have hw := (inv.raw a l hl).1.wf
  have hget : step sz s.st (.get v (s.idx v)) = (.opt l.elems[s.idx v]?, s.st) := by
    have : stepE sz s.st (.get v (s.idx v)) = .ok (.opt l.elems[s.idx v]?, s.st) :=
      withLock_read' inv hs hl (by simp only [rawGet_eq hw])
    simp only [step, this]
  simp only [istep, hv, h2, h3, h4, hget, Bool.false_eq_true, if_false]
  cases l.elems[s.idx v]? <;> rfl

theorem iterNext_unbound {sz : Nat} {s : ISt} {v : Nat} (hs : ∀ a, s.st.slots[v]? ≠ some (some a)) :
    istep sz s (.iterNext v) = (.fault .badHandle, s) := by
  simp only [istep, iterView, slot_bad hs]

/-- every step keeps the store invariant -/
theorem Inv_istep {sz : Nat} {s : ISt} (inv : Inv sz s.st) (op : IOp) : Inv sz (istep sz s op).2.st := by
  cases op with
  | base op => exact Inv_step inv op
  | iterDrop v => exact Inv_step inv (.dropH v)
  | iterNew v h =>
    simp only [istep]
    split
    · exact Inv_step inv (.cloneH v h)
    · exact inv
  | iterNext v =>
    rcases slot_dec s.st v with ⟨a, hs⟩ | hs
    · have ⟨l, hl⟩ := inv.slot v a hs
      rw [iterNext_bound inv hs hl]
      cases l.elems[s.idx v]? <;> exact inv
    · rw [iterNext_unbound hs]; exact inv

theorem Inv_irunSt {sz : Nat} : ∀ (ops : List IOp) {s : ISt}, Inv sz s.st → Inv sz (irunSt sz s ops).st
  | [], _, inv => inv
  | op :: rest, _, inv => Inv_irunSt rest (Inv_istep inv op)

/-! ### forward simulation -/

def ieraseCap : IOp → Out → Out
  | .base op, o => eraseCap op o
  | _, o => o

/-- the one known deviation of the base operations (`l == l` with a NaN inside) -/
def IRefl (t : ISpec) : IOp → Prop
  | .base op => ReflShortcut t.sp op
  | _ => False

def INoRefl : ISpec → List IOp → Prop
  | _, [] => True
  | t, op :: rest => ¬ IRefl t op ∧ INoRefl (ispecStep t op).2 rest

structure IRel (s : ISt) (t : ISpec) : Prop where
  rel : Rel s.st t.sp
  idx : s.idx = t.idx

theorem IRel_init (n : Nat) : IRel (ISt.init n) (ISpec.init n) := ⟨Rel_init n, rfl⟩

theorem istep_sim {sz : Nat} {s : ISt} {t : ISpec} (inv : Inv sz s.st) (r : IRel s t) (op : IOp)
    (hp : (istep sz s op).1 ≠ .fault .panic) (hq : ¬ IRefl t op) :
    ieraseCap op (istep sz s op).1 = (ispecStep t op).1 ∧ IRel (istep sz s op).2 (ispecStep t op).2 := by
  cases op with
  | base op =>
    rcases good_step inv r.rel op with ⟨h, _, _⟩ | ⟨ho, _, rel', _⟩
    · exact absurd h hp
    · rcases ho with h | ⟨hr, _⟩
      · exact ⟨h, rel', r.idx⟩
      · exact absurd hr hq
  | iterDrop v =>
    rcases good_step inv r.rel (.dropH v) with ⟨h, _, _⟩ | ⟨ho, _, rel', _⟩
    · exact absurd h hp
    · rcases ho with h | ⟨hr, _⟩
      · exact ⟨h, rel', r.idx⟩
      · exact absurd hr (by simp [ReflShortcut])
  | iterNew v h =>
    rcases good_step inv r.rel (.cloneH v h) with ⟨hpan, _, _⟩ | ⟨ho, _, rel', _⟩
    · exfalso; apply hp; simp only [istep, hpan]
    · rcases ho with ho | ⟨hr, _⟩
      · have ho' : (step sz s.st (.cloneH v h)).1 = (specStep t.sp (.cloneH v h)).1 := ho
        simp only [istep, ispecStep, ieraseCap]
        rw [ho']
        generalize (specStep t.sp (.cloneH v h)).1 = o
        cases o <;> first
          | exact ⟨rfl, rel', by rw [r.idx, (iter_decisions ⟨0, 0⟩ 0 0).1]⟩
          | exact ⟨rfl, r⟩
      · exact absurd hr (by simp [ReflShortcut])
  | iterNext v =>
    rcases slot_dec s.st v with ⟨a, hs⟩ | hs
    · have ⟨l, hl⟩ := inv.slot v a hs
      rw [iterNext_bound inv hs hl]
      simp only [ispecStep, vec_ok r.rel hs hl, ← r.idx, ieraseCap]
      cases l.elems[s.idx v]? <;> exact ⟨rfl, r.rel, by simp only [r.idx]⟩
    · rw [iterNext_unbound hs]
      simp only [ispecStep, vec_bad r.rel hs, ieraseCap]
      constructor <;> first | trivial | rfl | exact r

/-- forward simulation along a whole history with iterators -/
theorem irun_sim {sz : Nat} : ∀ (ops : List IOp) {s : ISt} {t : ISpec}, Inv sz s.st → IRel s t →
    (∀ o ∈ irun sz s ops, o ≠ .fault .panic) → INoRefl t ops →
    List.zipWith ieraseCap ops (irun sz s ops) = ispecRun t ops ∧
      IRel (irunSt sz s ops) (ispecRunSt t ops)
  | [], _, _, _, r, _, _ => ⟨rfl, r⟩
  | op :: rest, s, t, inv, r, hp, hq => by
    have hp0 : (istep sz s op).1 ≠ .fault .panic := hp _ (by simp [irun])
    have ⟨h1, r1⟩ := istep_sim inv r op hp0 hq.1
    have ⟨h2, r2⟩ := irun_sim rest (Inv_istep inv op) r1
      (fun o ho => hp o (by simp only [irun, List.mem_cons]; exact Or.inr ho)) hq.2
    refine ⟨?_, r2⟩
    simp only [irun, ispecRun, List.zipWith_cons_cons, h1, h2]

end RotoV.ListM
