/-
  C05 — every tag byte and every leaf of a transformed value lies at the same
  offset whether one follows rustc's `#[repr(u8)]` layout or the offsets a
  script computes through `layout_of` / `VariantField`, at any nesting depth.
-/
import RotoV.Lemmas.BoundaryAbi
set_option linter.unusedSimpArgs false

namespace RotoV.Boundary
open RotoV RotoV.Gen.BoundaryTables

/-- the single field of a variant sits at `roundUp 1 align` on the Roto side too -/
theorem variantFieldOffset_single (h : HostLayouts) (hh : h.WF) (t : BTy) (ht : t.WF) :
    variantFieldOffset h [toMTy t] 0 = some (payloadOffset (rustLayout h t)) := by
  have hl := layout_agrees' h hh t ht
  have hpos := (rustLayout_wf h hh t ht).align_pos
  have e : (LayoutBuilder.add LayoutBuilder.new locationTagLayout).1 = ⟨1, 1⟩ := by decide
  simp [variantFieldOffset, addFields, hl, e, add_snd _ _ hpos, payloadOffset]

theorem placement_agrees' (h : HostLayouts) (hh : h.WF) (t : BTy) (ht : t.WF) :
    ∀ v b, rotoPlace h t v b = rustPlace h t v b := by
  have ho : rotoOptionVariants = defaultOption := by decide
  have hr : rotoResultVariants = defaultResult := by decide
  have hv : verdictVariants = defaultVerdict := by decide
  induction t with
  | prim p => intro v b; cases v <;> rfl
  | unit => intro v b; cases v <;> rfl
  | val l => intro v b; cases v <;> rfl
  | list t _ => intro v b; cases v <;> rfl
  | option t ih =>
    intro v b
    have e : rotoPlace h t = rustPlace h t := funext fun v => funext fun b => ih ht v b
    have o := variantFieldOffset_single h hh t ht
    cases v with
    | tagged d p =>
      simp only [rotoPlace, rustPlace, ho, e]
      rcases d with _ | _ | d <;> cases p <;>
        simp [placeTagged, defaultOption, rotoFieldOffset, instVariants, o]
    | _ => rfl
  | result t e iht ihe =>
    intro v b
    have e1 : rotoPlace h t = rustPlace h t := funext fun v => funext fun b => iht ht.1 v b
    have e2 : rotoPlace h e = rustPlace h e := funext fun v => funext fun b => ihe ht.2 v b
    have o1 := variantFieldOffset_single h hh t ht.1
    have o2 := variantFieldOffset_single h hh e ht.2
    cases v with
    | tagged d p =>
      simp only [rotoPlace, rustPlace, hr, e1, e2]
      rcases d with _ | _ | d <;> cases p <;>
        simp [placeTagged, defaultResult, rotoFieldOffset, instVariants, o1, o2]
    | _ => rfl
  | verdict t e iht ihe =>
    intro v b
    have e1 : rotoPlace h t = rustPlace h t := funext fun v => funext fun b => iht ht.1 v b
    have e2 : rotoPlace h e = rustPlace h e := funext fun v => funext fun b => ihe ht.2 v b
    have o1 := variantFieldOffset_single h hh t ht.1
    have o2 := variantFieldOffset_single h hh e ht.2
    cases v with
    | tagged d p =>
      simp only [rotoPlace, rustPlace, hv, e1, e2]
      rcases d with _ | _ | d <;> cases p <;>
        simp [placeTagged, defaultVerdict, rotoFieldOffset, instVariants, o1, o2]
    | _ => rfl

end RotoV.Boundary
