/-
  Helper lemmas for C12 (see Props/C12.lean for the property theorems).
-/
import RotoV.Model.Conc

namespace RotoV.Conc

set_option linter.unusedSectionVars false

section Sched
variable {ι A V : Type} [DecidableEq ι]

/-- the simulation behind noninterference: a store that agrees with call `i`'s
solo store on `i`'s addresses and on shared addresses keeps agreeing. -/
theorem run_agree (owner : A → Option ι) (i : ι) :
    ∀ (s : Sched ι A V) (m mi : A → V),
      (∀ p ∈ s, LocalStep owner p.1 p.2) →
      (∀ a, owner a = some i ∨ owner a = none → m a = mi a) →
      ∀ a, owner a = some i ∨ owner a = none → run s m a = runSolo (proj i s) mi a := by
  intro s
  induction s with
  | nil => intro m mi _ h a ha; simpa [run, proj, runSolo] using h a ha
  | cons p rest ih =>
    obtain ⟨j, f⟩ := p
    intro m mi hs h a ha
    have hf : LocalStep owner j f := hs (j, f) (by simp)
    have hrest : ∀ p ∈ rest, LocalStep owner p.1 p.2 := fun p hp => hs p (by simp [hp])
    by_cases hji : j = i
    · subst hji
      simp only [run, proj, if_true, runSolo]
      apply ih (f m) (f mi) hrest _ a ha
      intro b hb
      cases hb with
      | inl hb => exact hf.reads m mi h b hb
      | inr hb =>
        have hne : owner b ≠ some j := by simp [hb]
        rw [hf.frame m b hne, hf.frame mi b hne]
        exact h b (Or.inr hb)
    · simp only [run, proj, hji, if_false]
      apply ih (f m) mi hrest _ a ha
      intro b hb
      have hne : owner b ≠ some j := by
        cases hb with
        | inl hb => rw [hb]; intro hc; exact hji (Option.some.inj hc).symm
        | inr hb => simp [hb]
      rw [hf.frame m b hne]
      exact h b hb

theorem run_shared (owner : A → Option ι) :
    ∀ (s : Sched ι A V) (m : A → V), (∀ p ∈ s, LocalStep owner p.1 p.2) →
      ∀ a, owner a = none → run s m a = m a := by
  intro s
  induction s with
  | nil => intro m _ a _; rfl
  | cons p rest ih =>
    obtain ⟨j, f⟩ := p
    intro m hs a ha
    have hf : LocalStep owner j f := hs (j, f) (by simp)
    simp only [run]
    rw [ih (f m) (fun p hp => hs p (by simp [hp])) a ha]
    exact hf.frame m a (by simp [ha])

theorem interleaving_proj {progs : ι → List (Step A V)} {s : Sched ι A V}
    (h : Interleaving progs s) : ∀ i, proj i s = progs i := by
  induction h with
  | nil => intro i; rfl
  | cons j f progs s _ ih =>
    intro i
    by_cases hji : j = i
    · subst hji; simp [proj, ih]
    · have : ¬ i = j := fun h => hji h.symm
      simp [proj, hji, this, ih]

theorem interleaving_mem {progs : ι → List (Step A V)} {s : Sched ι A V}
    (h : Interleaving progs s) : ∀ p ∈ s, p.2 ∈ progs p.1 := by
  induction h with
  | nil => intro p hp; simp at hp
  | cons j f progs s _ ih =>
    intro p hp
    simp only [List.mem_cons] at hp
    cases hp with
    | inl hp => subst hp; simp
    | inr hp =>
      have := ih p hp
      by_cases hpj : p.1 = j
      · simp [hpj] at this ⊢; exact Or.inr this
      · simp [hpj]; exact this

theorem proj_map_same (i : ι) (fs : List (Step A V)) :
    proj i (fs.map (fun f => (i, f))) = fs := by
  induction fs with
  | nil => rfl
  | cons f rest ih => simp [proj, ih]

theorem proj_map_other {i j : ι} (h : j ≠ i) (fs : List (Step A V)) :
    proj i (fs.map (fun f => (j, f))) = [] := by
  induction fs with
  | nil => rfl
  | cons f rest ih => simp [proj, h, ih]

theorem proj_append (i : ι) (s t : Sched ι A V) : proj i (s ++ t) = proj i s ++ proj i t := by
  induction s with
  | nil => rfl
  | cons p rest ih =>
    obtain ⟨j, f⟩ := p
    by_cases h : j = i <;> simp [proj, h, ih]

theorem proj_sequential_not_mem (progs : ι → List (Step A V)) (i : ι) :
    ∀ order : List ι, i ∉ order → proj i (sequential progs order) = [] := by
  intro order
  induction order with
  | nil => intro _; rfl
  | cons j rest ih =>
    intro h
    simp only [List.mem_cons, not_or] at h
    have hji : j ≠ i := fun e => h.1 e.symm
    simp [sequential, proj_append, proj_map_other hji, ih h.2]

theorem proj_sequential (progs : ι → List (Step A V)) (i : ι) :
    ∀ order : List ι, order.Nodup → i ∈ order → proj i (sequential progs order) = progs i := by
  intro order
  induction order with
  | nil => intro _ h; simp at h
  | cons j rest ih =>
    intro hnd hmem
    have hnd' := List.nodup_cons.mp hnd
    by_cases hji : j = i
    · subst hji
      simp [sequential, proj_append, proj_map_same, proj_sequential_not_mem progs j rest hnd'.1]
    · have : i ∈ rest := by
        cases List.mem_cons.mp hmem with
        | inl h => exact absurd h.symm hji
        | inr h => exact h
      simp [sequential, proj_append, proj_map_other hji, ih hnd'.2 this]

theorem mem_sequential (progs : ι → List (Step A V)) :
    ∀ order : List ι, ∀ p ∈ sequential progs order, p.2 ∈ progs p.1 := by
  intro order
  induction order with
  | nil => intro p hp; simp [sequential] at hp
  | cons j rest ih =>
    intro p hp
    simp only [sequential, List.mem_append, List.mem_map] at hp
    cases hp with
    | inl hp => obtain ⟨f, hf, rfl⟩ := hp; exact hf
    | inr hp => exact ih p hp

/-! accounting -/

theorem total_split (i : ι) : ∀ s : List (ι × Int),
    total s = total (deltasOf i s) + total (deltasNot i s) := by
  intro s
  induction s with
  | nil => rfl
  | cons p rest ih =>
    obtain ⟨j, d⟩ := p
    by_cases h : j = i <;> simp [total, deltasOf, deltasNot, h, ih] <;> omega

theorem deltasNot_length (i : ι) : ∀ s : List (ι × Int), (deltasNot i s).length ≤ s.length := by
  intro s
  induction s with
  | nil => simp [deltasNot]
  | cons p rest ih =>
    obtain ⟨j, d⟩ := p
    by_cases h : j = i <;> simp [deltasNot, h] <;> omega

theorem deltasOf_deltasNot {i j : ι} (h : j ≠ i) : ∀ s : List (ι × Int),
    deltasOf j (deltasNot i s) = deltasOf j s := by
  intro s
  induction s with
  | nil => rfl
  | cons p rest ih =>
    obtain ⟨k, d⟩ := p
    by_cases hk : k = i
    · subst hk
      have : ¬ k = j := fun e => h e.symm
      simp [deltasNot, deltasOf, this, ih]
    · by_cases hkj : k = j
      · subst hkj; simp [deltasNot, deltasOf, hk, ih]
      · simp [deltasNot, deltasOf, hk, hkj, ih]

theorem deltasOf_deltasNot_self (i : ι) : ∀ s : List (ι × Int),
    deltasOf i (deltasNot i s) = [] := by
  intro s
  induction s with
  | nil => rfl
  | cons p rest ih =>
    obtain ⟨k, d⟩ := p
    by_cases hk : k = i <;> simp [deltasNot, deltasOf, hk, ih]

end Sched

namespace Lir

/-- the provenance invariant -/
def Inv (cert : Var → Cls) (env : Env) : Prop := ∀ v, holds (cert v) (env v) = true

theorem holds_evalOp {cert : Var → Cls} {env : Env} (h : Inv cert env) (o : Operand) :
    holds (clsOp cert o) (evalOp env o) = true := by
  cases o with
  | var v => exact h v
  | konst => rfl
  | kptr n => rfl

theorem holds_le {a b : Cls} {x : Val} (hle : a.le b = true) (h : holds a x = true) :
    holds b x = true := by
  cases a <;> cases b <;> simp_all [Cls.le, holds] <;> cases x <;> simp_all [holds]

theorem inv_set {cert : Var → Cls} {env : Env} (h : Inv cert env) (v : Var) (x : Val)
    (hx : holds (cert v) x = true) : Inv cert (env.set v x) := by
  intro w
  unfold Env.set
  by_cases hw : w = v
  · subst hw; simpa using hx
  · simpa [hw] using h w

theorem holds_coerce {cert : Var → Cls} {to : Var} {isPtr : Bool} (nd : Val)
    (h : okResult cert to isPtr = true) : holds (cert to) (coerce isPtr nd) = true := by
  unfold okResult at h
  cases isPtr with
  | true =>
    simp at h
    simp [h, holds]
  | false =>
    simp at h
    cases hc : cert to with
    | loc => exact absurd hc h
    | sc => cases nd <;> simp [coerce, holds]
    | any => simp [holds]

theorem holds_offset {c : Cls} {x : Val} (n : Nat) (h : holds c x = true) :
    holds c (offsetVal x n) = true := by
  cases x <;> cases c <;> simp_all [offsetVal, holds]

theorem wtarget_local {x : Val} (h : holds .loc x = true) :
    ∀ r ∈ wtarget x, r.isLocal = true := by
  cases x <;> simp_all [holds, wtarget]

theorem atarget_local {c : Cls} {x : Val} (h : holds c x = true) (hc : (c != .any) = true) :
    ∀ r ∈ atarget x, r.isLocal = true := by
  cases x <;> cases c <;> simp_all [holds, atarget]

theorem argTargets_local {cert : Var → Cls} {env : Env} (h : Inv cert env) :
    ∀ args : List Operand, args.all (fun a => clsOp cert a != .any) = true →
      ∀ r ∈ argTargets env args, r.isLocal = true := by
  intro args
  induction args with
  | nil => intro _ r hr; simp [argTargets] at hr
  | cons a rest ih =>
    intro hall r hr
    simp only [List.all_cons, Bool.and_eq_true] at hall
    simp only [argTargets, List.mem_append] at hr
    cases hr with
    | inl hr => exact atarget_local (holds_evalOp h a) hall.1 r hr
    | inr hr => exact ih hall.2 r hr

theorem optTargets_local {cert : Var → Cls} {env : Env} (h : Inv cert env) (o : Option Var)
    (ho : (match o with | none => true | some r => cert r == .loc) = true) :
    ∀ r ∈ optTargets env o, r.isLocal = true := by
  cases o with
  | none => intro r hr; simp [optTargets] at hr
  | some v =>
    simp at ho
    have := h v
    rw [ho] at this
    exact wtarget_local this

theorem wtarget_op_local {cert : Var → Cls} {env : Env} (h : Inv cert env) (o : Operand)
    (ho : (clsOp cert o == .loc) = true) : ∀ r ∈ wtarget (evalOp env o), r.isLocal = true := by
  have := holds_evalOp h o
  simp at ho
  rw [ho] at this
  exact wtarget_local this

theorem wtarget_var_local {cert : Var → Cls} {env : Env} (h : Inv cert env) (v : Var)
    (ho : (cert v == .loc) = true) : ∀ r ∈ wtarget (env v), r.isLocal = true :=
  wtarget_op_local h (.var v) ho

/-- one step of an accepted instruction keeps the invariant and writes locally -/
theorem step_ok {cert : Var → Cls} {env : Env} (h : Inv cert env) (nd : Val) (i : Instr)
    (hi : okInstr cert i = true) :
    Inv cert (step env nd i).1 ∧ ∀ r ∈ (step env nd i).2, r.isLocal = true := by
  cases i with
  | assign to val =>
    exact ⟨inv_set h _ _ (holds_le hi (holds_evalOp h val)), by simp [step]⟩
  | constAddr to name =>
    simp [okInstr] at hi
    exact ⟨inv_set h _ _ (by simp [hi, holds]), by simp [step]⟩
  | funcAddr to =>
    simp [okInstr] at hi
    exact ⟨inv_set h _ _ (by simp [hi, holds]), by simp [step]⟩
  | initString to => exact ⟨h, wtarget_var_local h to hi⟩
  | call fn to isPtr ctx retPtr args =>
    simp only [okInstr, Bool.and_eq_true] at hi
    obtain ⟨⟨hto, hret⟩, hargs⟩ := hi
    refine ⟨?_, ?_⟩
    · cases to with
      | none => exact h
      | some v => exact inv_set h _ _ (holds_coerce nd hto)
    · intro r hr
      simp only [step, List.mem_append] at hr
      cases hr with
      | inl hr => exact optTargets_local h retPtr hret r hr
      | inr hr => exact argTargets_local h args hargs r hr
  | callRt args => exact ⟨h, argTargets_local h args hi⟩
  | arith to isPtr => exact ⟨inv_set h _ _ (holds_coerce nd hi), by simp [step]⟩
  | offset to src n =>
    exact ⟨inv_set h _ _ (holds_le hi (holds_offset n (holds_evalOp h src))), by simp [step]⟩
  | initBytes to => exact ⟨h, wtarget_var_local h to hi⟩
  | write to val => exact ⟨h, wtarget_op_local h to hi⟩
  | read to isPtr src => exact ⟨inv_set h _ _ (holds_coerce nd hi), by simp [step]⟩
  | copy to src n => exact ⟨h, wtarget_op_local h to hi⟩
  | clone to src => exact ⟨h, wtarget_op_local h to hi⟩
  | drop v hasFn =>
    refine ⟨h, ?_⟩
    cases hasFn with
    | false => simp [step]
    | true =>
      simp [okInstr] at hi
      simpa [step] using wtarget_op_local h v (by simp [hi])
  | eq to l r => exact ⟨inv_set h _ _ (holds_coerce nd hi), by simp [step]⟩
  | ret v => exact ⟨h, by simp [step]⟩
  | nop => exact ⟨h, by simp [step]⟩

theorem events_local {cert : Var → Cls} (instrs : List Instr)
    (hall : instrs.all (okInstr cert) = true) :
    ∀ (tr : List (Instr × Val)) (env : Env), Inv cert env → (∀ p ∈ tr, p.1 ∈ instrs) →
      ∀ r ∈ events env tr, r.isLocal = true := by
  intro tr
  induction tr with
  | nil => intro env _ _ r hr; simp [events] at hr
  | cons p rest ih =>
    obtain ⟨i, nd⟩ := p
    intro env hinv hmem r hr
    have hi : okInstr cert i = true := List.all_eq_true.mp hall i (hmem (i, nd) (by simp))
    obtain ⟨hinv', hloc⟩ := step_ok hinv nd i hi
    simp only [events, List.mem_append] at hr
    cases hr with
    | inl hr => exact hloc r hr
    | inr hr => exact ih _ hinv' (fun p hp => hmem p (by simp [hp])) r hr

theorem init_inv {cert : Var → Cls} {it : Item} (h : okInit cert it = true) (args : Var → Int) :
    Inv cert (initEnv it args) := by
  simp only [okInit, Bool.and_eq_true] at h
  obtain ⟨⟨⟨hslots, hret⟩, hctx⟩, hparams⟩ := h
  intro v
  unfold initEnv
  by_cases hs : v ∈ it.slots
  · have := List.all_eq_true.mp hslots v hs
    simp only [hs, if_true]
    cases hc : cert v <;> simp_all [holds, Region.isLocal]
  · simp only [hs, if_false]
    by_cases hr : it.ret = some v
    · simp only [hr, if_true]
      rw [hr] at hret
      cases hc : cert v <;> simp_all [holds, Region.isLocal]
    · simp only [hr, if_false]
      by_cases hx : it.ctx = some v
      · simp only [hx, if_true]
        rw [hx] at hctx
        simp at hctx
        simp [hctx, holds]
      · simp only [hx, if_false]
        cases hf : it.params.find? (fun p => p.1 == v) with
        | none => cases hc : cert v <;> simp [holds]
        | some p =>
          obtain ⟨w, b⟩ := p
          have hmem := List.mem_of_find?_eq_some hf
          have hw : w = v := by
            have := List.find?_some hf
            simpa using this
          have hp := List.all_eq_true.mp hparams (w, b) hmem
          subst hw
          cases b <;> cases hc : cert w <;> simp_all [holds, Region.isLocal]

end Lir

end RotoV.Conc
