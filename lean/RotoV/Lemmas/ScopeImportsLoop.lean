/-
  C13 — the transliterated body of `TypeChecker::imports` (language and meaning
  in `Model/ScopeImportsLoop.lean`) means `Scope.imports`.
-/
import RotoV.Model.ScopeImportsLoop

set_option linter.unusedSimpArgs false

namespace RotoV.Scope.Loop
open RotoV.Scope

def liftRet : Res Graph → Res Flow
  | .ok g => .ok (.ret g)
  | .err e => .err e
  | .panic x => .panic x

/-- one round of the loop, spelled out -/
def roundSpec (s : Nat) (g : Graph) (paths : List Path) (vars : List (Nat × Nat)) : Res Flow :=
  match retainPass s g paths with
  | .panic x => .panic x
  | .err e => .err e
  | .ok (g', rem) =>
    if rem.length = 0 then .ok (.ret g')
    else if rem.length = paths.length then
      match importAll s g' rem with
      | .ok g'' => .ok (.next ⟨g'', rem, (1, rem.length) :: (0, paths.length) :: vars⟩)
      | .err e => .err e
      | .panic x => .panic x
    else .ok (.next ⟨g', rem, (1, rem.length) :: (0, paths.length) :: vars⟩)

theorem round_eq (s F : Nat) (g : Graph) (paths : List Path) (vars : List (Nat × Nat)) :
    execBlock s F referenceLoopBody ⟨g, paths, vars⟩ = roundSpec s g paths vars := by
  unfold roundSpec
  simp only [referenceLoopBody, execBlock, execStmt]
  cases hr : retainPass s g paths with
  | panic x => rfl
  | err e => rfl
  | ok pr =>
    obtain ⟨g', rem⟩ := pr
    simp only [execBlock, execStmt, evalCond, evalCmp, evalExpr, List.lookup, Option.getD]
    by_cases h0 : rem.length = 0
    · simp [h0]
    · by_cases h1 : rem.length = paths.length
      · have h1' : paths.length = rem.length := h1.symm
        simp only [h1', h0, beq_self_eq_true, ↓reduceIte, beq_iff_eq, List.lookup, Option.getD,
          show (1 == 1) = true from rfl, show (1 == 0) = false from rfl, show (0 == 1) = false from rfl,
          show (0 == 0) = true from rfl]
        cases importAll s g' rem <;> rfl
      · simp [h0, h1, List.lookup]

theorem loop_eq (s F : Nat) : ∀ (n : Nat) (g : Graph) (paths : List Path) (vars : List (Nat × Nat)),
    iterate (execBlock s F referenceLoopBody) n ⟨g, paths, vars⟩ = liftRet (importsF s n g paths) := by
  intro n
  induction n with
  | zero => intro g paths vars; rfl
  | succ n ih =>
    intro g paths vars
    unfold iterate importsF
    rw [round_eq]
    unfold roundSpec
    cases hr : retainPass s g paths with
    | panic x => rfl
    | err e => rfl
    | ok pr =>
      obtain ⟨g', rem⟩ := pr
      simp only
      by_cases h0 : rem.length = 0
      · simp [h0, liftRet]
      · by_cases h1 : rem.length = paths.length
        · have h1' : paths.length = rem.length := h1.symm
          simp only [h1', h0, ↓reduceIte]
          cases hi : importAll s g' rem with
          | ok g'' => simp only; exact ih g'' rem _
          | err e => rfl
          | panic x => rfl
        · simp only [h0, h1, ↓reduceIte]
          exact ih g' rem _

/-- **The reference body means `imports`.** -/
theorem runImports_reference (g : Graph) (s : Nat) (paths : List Path) :
    runImports referenceBody g s paths = imports g s paths := by
  unfold runImports referenceBody imports
  simp only [execBlock, execStmt]
  rw [loop_eq]
  cases importsF s (paths.length + 1) g paths <;> simp [liftRet, execBlock]

/-- the two-pass variant, spelled out -/
theorem runImports_twoPass (g : Graph) (s : Nat) (paths : List Path) :
    runImports twoPassBody g s paths =
      (match retainPass s g paths with
       | .panic x => .panic x
       | .err e => .err e
       | .ok (g', rem) => importAll s g' rem) := by
  unfold runImports twoPassBody
  simp only [execBlock, execStmt]
  cases retainPass s g paths with
  | panic x => rfl
  | err e => rfl
  | ok pr =>
    obtain ⟨g', rem⟩ := pr
    simp only [execBlock, execStmt]
    cases importAll s g' rem <;> rfl

end RotoV.Scope.Loop
