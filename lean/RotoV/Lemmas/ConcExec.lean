/-
  Helper lemmas for C12's composition theorem (Props/C12.lean,
  `accepted_items_noninterfere`): the verified checker's invariant is an
  invariant of the machine of Model/ConcExec, every effect of an accepted
  program writes call-local memory only, and a machine step (guarded by that
  invariant) is a `LocalStep` in the sense of T1.
-/
import RotoV.Lemmas.Conc
import RotoV.Model.ConcExec

namespace RotoV.Conc.Exec
open RotoV.Conc RotoV.Conc.Lir

set_option linter.unusedSectionVars false

/-! ## the invariant -/

def FrameOk (prog : List Item) (fr : Frame) : Prop :=
  ∃ it, prog[fr.fn]? = some it ∧ Inv (infer it) fr.env

def Good (prog : List Item) (s : CallState) : Prop := ∀ fr ∈ s.stack, FrameOk prog fr

/-- arguments landing in pointer-typed parameters are call-local addresses -/
def ArgsLoc : List (Var × Bool) → List Val → Prop
  | (_, isPtr) :: ps, a :: as => (isPtr = true → holds .loc a = true) ∧ ArgsLoc ps as
  | _, _ => True

structure ItemOk (prog : List Item) (it : Item) : Prop where
  init : okInit (infer it) it = true
  instrs : it.instrs.all (okInstr (infer it)) = true
  calls : it.instrs.all (okCallSite prog (infer it)) = true

theorem itemOk_of_acceptProg {prog : List Item} (h : acceptProg prog = true) {it : Item}
    (hit : it ∈ prog) : ItemOk prog it := by
  have := List.all_eq_true.mp h it hit
  simp only [Bool.and_eq_true, accept, check] at this
  exact ⟨this.1.1, this.1.2, this.2⟩

theorem itemOk_of_get {prog : List Item} (h : acceptProg prog = true) {f : Nat} {it : Item}
    (hit : prog[f]? = some it) : ItemOk prog it :=
  itemOk_of_acceptProg h (List.mem_of_getElem? hit)

theorem holds_undef (c : Cls) : holds c .undef = true := by cases c <;> rfl

theorem holds_of_loc {c : Cls} {x : Val} (hc : c ≠ .sc) (h : holds .loc x = true) :
    holds c x = true := by
  cases c with
  | loc => exact h
  | sc => exact absurd rfl hc
  | any => rfl

theorem paramVal_holds (cert : Var → Cls) :
    ∀ (params : List (Var × Bool)) (argv : List Val),
      params.all (fun p => if p.2 then cert p.1 != .sc else cert p.1 != .loc) = true →
      ArgsLoc params argv → ∀ v, holds (cert v) (paramVal params argv v) = true := by
  intro params
  induction params with
  | nil => intro argv _ _ v; simp [paramVal, holds_undef]
  | cons p ps ih =>
    obtain ⟨pv, isPtr⟩ := p
    intro argv hall hargs v
    cases argv with
    | nil => simp [paramVal, holds_undef]
    | cons a as =>
      simp only [List.all_cons, Bool.and_eq_true] at hall
      simp only [ArgsLoc] at hargs
      simp only [paramVal]
      by_cases hpv : pv = v
      · subst hpv
        simp only [if_true]
        cases isPtr with
        | true =>
          have hc : cert pv ≠ .sc := by simpa using hall.1
          have ha := hargs.1 rfl
          simp only [coerce, if_true]
          exact holds_of_loc hc ha
        | false =>
          have hc : cert pv ≠ .loc := by simpa using hall.1
          cases hcc : cert pv with
          | loc => exact absurd hcc hc
          | sc => cases a <;> simp [coerce, holds]
          | any => rfl
      · simp only [hpv, if_false]
        exact ih as hall.2 hargs.2 v

/-- the certificate of an accepted item holds in a fresh activation -/
theorem entry_inv {it : Item} (h : okInit (infer it) it = true) (base : Nat) (retv ctxv : Val)
    (argv : List Val) (hret : holds .loc retv = true) (hargs : ArgsLoc it.params argv) :
    Inv (infer it) (entryEnv it base retv ctxv argv) := by
  simp only [okInit, Bool.and_eq_true] at h
  obtain ⟨⟨⟨hslots, hr⟩, hctx⟩, hparams⟩ := h
  intro v
  unfold entryEnv
  by_cases hs : v ∈ it.slots
  · have := List.all_eq_true.mp hslots v hs
    simp only [hs, if_true]
    exact holds_of_loc (by simpa using this) rfl
  · simp only [hs, if_false]
    by_cases hrv : it.ret = some v
    · simp only [hrv, if_true]
      rw [hrv] at hr
      exact holds_of_loc (by simpa using hr) hret
    · simp only [hrv, if_false]
      by_cases hx : it.ctx = some v
      · simp only [hx, if_true]
        rw [hx] at hctx
        simp at hctx
        simp [hctx, holds]
      · simp only [hx, if_false]
        exact paramVal_holds (infer it) it.params argv hparams hargs v

theorem argsLoc_of_okArgs {cert : Var → Cls} {env : Env} (hinv : Inv cert env) :
    ∀ (params : List (Var × Bool)) (args : List Operand), okArgs cert params args = true →
      ArgsLoc params (args.map (evalOp env)) := by
  intro params
  induction params with
  | nil => intro args _; simp [ArgsLoc]
  | cons p ps ih =>
    obtain ⟨pv, isPtr⟩ := p
    intro args h
    cases args with
    | nil => simp [ArgsLoc]
    | cons a as =>
      simp only [okArgs, Bool.and_eq_true] at h
      simp only [List.map_cons, ArgsLoc]
      refine ⟨fun hp => ?_, ih as h.2⟩
      subst hp
      have hc : clsOp cert a = .loc := by simpa using h.1
      have := holds_evalOp hinv a
      rwa [hc] at this

theorem argsLoc_host (args : Var → Int) :
    ∀ params : List (Var × Bool), ArgsLoc params (hostArgs args params) := by
  intro params
  induction params with
  | nil => simp [ArgsLoc]
  | cons p ps ih =>
    obtain ⟨pv, isPtr⟩ := p
    cases isPtr <;> simp [hostArgs, ArgsLoc, ih, holds, Region.isLocal]

/-! ## regions written by the concrete memory operations -/

theorem storeW_region (addr x : Val) : ∀ w ∈ storeW addr x, w.1 ∈ wtarget addr := by
  cases addr <;> simp [storeW, wtarget]

theorem wtarget_offset (x : Val) (n : Nat) : wtarget (offsetVal x n) = wtarget x := by
  cases x <;> rfl

theorem copyW_region (view : View) (dst src : Val) :
    ∀ n, ∀ w ∈ copyW view dst src n, w.1 ∈ wtarget dst := by
  intro n
  induction n with
  | zero => intro w hw; simp [copyW] at hw
  | succ n ih =>
    intro w hw
    simp only [copyW, List.mem_append] at hw
    cases hw with
    | inl hw => exact ih w hw
    | inr hw =>
      have := storeW_region _ _ w hw
      rwa [wtarget_offset] at this

theorem atarget_sub_wtarget (x : Val) : ∀ r ∈ atarget x, r ∈ wtarget x := by
  cases x <;> simp [atarget, wtarget]

theorem flatMap_atarget_args (env : Env) (args : List Operand) :
    (args.map (evalOp env)).flatMap atarget = argTargets env args := by
  induction args with
  | nil => rfl
  | cons a as ih => simp [argTargets, ih]

/-- the regions Rust code is handed for writing are among the write events of
the checker's semantics -/
theorem rt_handed_sub_events (env : Env) (nd : Val) (ins : Instr) :
    ∀ r ∈ (rtOperands env ins).1.flatMap atarget, r ∈ (step env nd ins).2 := by
  cases ins with
  | initString to => simpa [rtOperands, step] using atarget_sub_wtarget (env to)
  | initBytes to => simpa [rtOperands, step] using atarget_sub_wtarget (env to)
  | callRt args =>
    intro r hr
    simp only [rtOperands, flatMap_atarget_args] at hr
    simpa [step] using hr
  | clone to src => simpa [rtOperands, step] using atarget_sub_wtarget (evalOp env to)
  | drop v hasFn =>
    cases hasFn with
    | true => simpa [rtOperands, step] using atarget_sub_wtarget (evalOp env v)
    | false => simp [rtOperands]
  | _ => simp [rtOperands]

/-! ## a step of an accepted program keeps the invariant and writes locally -/

theorem good_cons {prog : List Item} {fr : Frame} {rest : List Frame} {s : CallState}
    (hfr : FrameOk prog fr) (hrest : ∀ f ∈ rest, FrameOk prog f) (hs : s.stack = fr :: rest) :
    Good prog s := by
  intro f hf
  rw [hs] at hf
  cases List.mem_cons.mp hf with
  | inl h => rw [h]; exact hfr
  | inr h => exact hrest f h

theorem stepInstr_ok {prog : List Item} (hacc : acceptProg prog = true) {sem : Sem}
    (hrt : RtConfined sem) (view : View) (s : CallState) (fr : Frame) (rest : List Frame)
    (it : Item) (hit : prog[fr.fn]? = some it) (hinv : Inv (infer it) fr.env)
    (hrest : ∀ f ∈ rest, FrameOk prog f) (ins : Instr) (hins : ins ∈ it.instrs) :
    Good prog (stepInstr prog sem view s fr rest ins).state
    ∧ ∀ w ∈ (stepInstr prog sem view s fr rest ins).writes, w.1.isLocal = true := by
  have hok := itemOk_of_get hacc hit
  have hi : okInstr (infer it) ins = true := List.all_eq_true.mp hok.instrs ins hins
  have hcs : okCallSite prog (infer it) ins = true := List.all_eq_true.mp hok.calls ins hins
  -- the generic case: registers updated by `Lir.step`, frame advanced
  have adv : ∀ (nd : Val) (s' : CallState) (pc' : Nat),
      s'.stack = { fr with pc := pc', env := (step fr.env nd ins).1 } :: rest → Good prog s' := by
    intro nd s' pc' hs'
    exact good_cons (fr := { fr with pc := pc', env := (step fr.env nd ins).1 })
      ⟨it, hit, (step_ok hinv nd ins hi).1⟩ hrest hs'
  have same : ∀ (s' : CallState) (pc' : Nat),
      s'.stack = { fr with pc := pc' } :: rest → Good prog s' := by
    intro s' pc' hs'
    exact good_cons (fr := { fr with pc := pc' }) ⟨it, hit, hinv⟩ hrest hs'
  have evl : ∀ nd, ∀ r ∈ (step fr.env nd ins).2, r.isLocal = true := fun nd => (step_ok hinv nd ins hi).2
  cases ins with
  | nop =>
    refine ⟨same _ _ rfl, ?_⟩
    intro w hw; simp [stepInstr] at hw
  | write to val =>
    refine ⟨same _ _ rfl, ?_⟩
    intro w hw
    simp only [stepInstr] at hw
    exact evl .undef _ (by simpa [step] using storeW_region _ _ w hw)
  | copy to src n =>
    refine ⟨same _ _ rfl, ?_⟩
    intro w hw
    simp only [stepInstr] at hw
    exact evl .undef _ (by simpa [step] using copyW_region _ _ _ n w hw)
  | read to isPtr src =>
    refine ⟨adv _ _ _ rfl, ?_⟩
    intro w hw; simp [stepInstr] at hw
  | arith to isPtr =>
    refine ⟨adv _ _ _ rfl, ?_⟩
    intro w hw; simp [stepInstr] at hw
  | call f to isPtr ctx retPtr args =>
    simp only [stepInstr]
    simp only [okCallSite] at hcs
    cases hf : prog[f]? with
    | none => rw [hf] at hcs; cases hcs
    | some callee =>
      rw [hf] at hcs
      simp only
      refine ⟨?_, by intro w hw; cases hw⟩
      have hcal := itemOk_of_get hacc hf
      simp only [okInstr, Bool.and_eq_true] at hi
      have hretv : holds .loc (optVarVal fr.env retPtr) = true := by
        cases retPtr with
        | none => rfl
        | some r =>
          have hc : infer it r = .loc := by simpa using hi.1.2
          have := hinv r
          rw [hc] at this
          exact this
      refine good_cons (fr := { fn := f, pc := 0, env := _ }) (rest := fr :: rest)
        ⟨callee, hf, entry_inv hcal.init _ _ _ _ hretv (argsLoc_of_okArgs hinv _ _ hcs)⟩ ?_ rfl
      intro g hg
      cases List.mem_cons.mp hg with
      | inl h => rw [h]; exact ⟨it, hit, hinv⟩
      | inr h => exact hrest g h
  | ret v =>
    simp only [stepInstr]
    cases rest with
    | nil =>
      refine ⟨?_, by intro w hw; cases hw⟩
      intro g hg; cases hg
    | cons caller below =>
      refine ⟨?_, by intro w hw; cases hw⟩
      obtain ⟨cit, hcit, hcinv⟩ := hrest caller (List.mem_cons_self ..)
      have hbelow : ∀ g ∈ below, FrameOk prog g := fun g hg => hrest g (List.mem_cons_of_mem _ hg)
      refine good_cons (fr := { caller with pc := caller.pc + 1, env := _ }) (rest := below)
        ⟨cit, hcit, ?_⟩ hbelow rfl
      simp only [hcit, Option.bind_some]
      cases hc : cit.instrs[caller.pc]? with
      | none => simpa using hcinv
      | some cins =>
        have hcok := itemOk_of_get hacc hcit
        have hci : okInstr (infer cit) cins = true :=
          List.all_eq_true.mp hcok.instrs cins (List.mem_of_getElem? hc)
        simp only [Option.getD_some]
        cases cins with
        | call => exact (step_ok hcinv _ _ hci).1
        | _ => exact hcinv
  | assign to val =>
    refine ⟨adv .undef _ _ rfl, ?_⟩
    intro w hw; simp [stepInstr, isRtInstr] at hw
  | constAddr to name =>
    refine ⟨adv .undef _ _ rfl, ?_⟩
    intro w hw; simp [stepInstr, isRtInstr] at hw
  | funcAddr to =>
    refine ⟨adv .undef _ _ rfl, ?_⟩
    intro w hw; simp [stepInstr, isRtInstr] at hw
  | offset to src n =>
    refine ⟨adv .undef _ _ rfl, ?_⟩
    intro w hw; simp [stepInstr, isRtInstr] at hw
  | initString to =>
    refine ⟨adv _ _ _ rfl, ?_⟩
    intro w hw
    simp only [stepInstr, isRtInstr, if_true] at hw
    exact evl .undef _ (rt_handed_sub_events _ _ _ _ (hrt _ _ _ _ _ w hw))
  | initBytes to =>
    refine ⟨adv _ _ _ rfl, ?_⟩
    intro w hw
    simp only [stepInstr, isRtInstr, if_true] at hw
    exact evl .undef _ (rt_handed_sub_events _ _ _ _ (hrt _ _ _ _ _ w hw))
  | callRt args =>
    refine ⟨adv _ _ _ rfl, ?_⟩
    intro w hw
    simp only [stepInstr, isRtInstr, if_true] at hw
    exact evl .undef _ (rt_handed_sub_events _ _ _ _ (hrt _ _ _ _ _ w hw))
  | clone to src =>
    refine ⟨adv _ _ _ rfl, ?_⟩
    intro w hw
    simp only [stepInstr, isRtInstr, if_true] at hw
    exact evl .undef _ (rt_handed_sub_events _ _ _ _ (hrt _ _ _ _ _ w hw))
  | eq to l r =>
    refine ⟨adv _ _ _ rfl, ?_⟩
    intro w hw
    simp only [stepInstr, isRtInstr, if_true] at hw
    have := hrt _ _ _ _ _ w hw
    simp [rtOperands] at this
  | drop v hasFn =>
    cases hasFn with
    | true =>
      refine ⟨adv _ _ _ rfl, ?_⟩
      intro w hw
      simp only [stepInstr, isRtInstr, if_true] at hw
      exact evl .undef _ (rt_handed_sub_events _ _ _ _ (hrt _ _ _ _ _ w hw))
    | false =>
      refine ⟨adv .undef _ _ rfl, ?_⟩
      intro w hw; simp [stepInstr, isRtInstr] at hw

theorem decideStep_ok {prog : List Item} (hacc : acceptProg prog = true) {sem : Sem}
    (hrt : RtConfined sem) (view : View) (s : CallState) (hs : Good prog s) :
    Good prog (decideStep prog sem view s).state
    ∧ ∀ w ∈ (decideStep prog sem view s).writes, w.1.isLocal = true := by
  unfold decideStep
  cases hst : s.stack with
  | nil => exact ⟨hs, by intro w hw; cases hw⟩
  | cons fr rest =>
    simp only
    obtain ⟨it, hit, hinv⟩ := hs fr (by rw [hst]; exact List.mem_cons_self ..)
    have hrest : ∀ f ∈ rest, FrameOk prog f := fun f hf => hs f (by rw [hst]; exact List.mem_cons_of_mem _ hf)
    simp only [hit, Option.bind_some]
    cases hins : it.instrs[fr.pc]? with
    | none =>
      refine ⟨?_, by intro w hw; cases hw⟩
      intro g hg; cases hg
    | some ins =>
      exact stepInstr_ok hacc hrt view s fr rest it hit hinv hrest ins (List.mem_of_getElem? hins)

theorem initState_good {prog : List Item} (hacc : acceptProg prog = true) (f : Nat) (args : Var → Int) :
    Good prog (initState prog f args) := by
  unfold initState
  cases hf : prog[f]? with
  | none => intro g hg; cases hg
  | some it =>
    have hok := itemOk_of_get hacc hf
    refine good_cons (fr := { fn := f, pc := 0, env := _ }) (rest := [])
      ⟨it, hf, entry_inv hok.init 0 _ _ _ rfl (argsLoc_host args it.params)⟩ (by intro g hg; cases hg) rfl

/-! ## the global store -/

section Store
variable {ι : Type} [DecidableEq ι]

theorem owner_resolve (i : ι) (r : Region) (off : Nat) :
    owner (resolve i r off) = some i ∨ owner (resolve i r off) = none := by
  unfold resolve
  cases r.isLocal <;> simp [owner]

theorem applyWrites_priv (i j : ι) : ∀ (ws : List MemWrite) (m : Store ι),
    applyWrites i m ws (.priv j) = m (.priv j) := by
  intro ws
  induction ws with
  | nil => intro m; rfl
  | cons w ws ih =>
    obtain ⟨r, off, x⟩ := w
    intro m
    simp only [applyWrites]
    rw [ih]
    have : (Addr.priv j : Addr ι) ≠ resolve i r off := by
      unfold resolve; cases r.isLocal <;> simp
    simp [this]

theorem applyWrites_other (i : ι) (a : Addr ι) (ha : owner a ≠ some i) :
    ∀ (ws : List MemWrite) (m : Store ι), (∀ w ∈ ws, w.1.isLocal = true) →
      applyWrites i m ws a = m a := by
  intro ws
  induction ws with
  | nil => intro m _; rfl
  | cons w ws ih =>
    obtain ⟨r, off, x⟩ := w
    intro m hloc
    simp only [applyWrites]
    rw [ih _ (fun w hw => hloc w (List.mem_cons_of_mem _ hw))]
    have hr : r.isLocal = true := hloc (r, off, x) (List.mem_cons_self ..)
    have : a ≠ resolve i r off := by
      intro h
      apply ha
      rw [h]
      simp [resolve, hr, owner]
    simp [this]

theorem applyWrites_congr (i : ι) (a : Addr ι) :
    ∀ (ws : List MemWrite) (m m' : Store ι), m a = m' a →
      applyWrites i m ws a = applyWrites i m' ws a := by
  intro ws
  induction ws with
  | nil => intro m m' h; exact h
  | cons w ws ih =>
    obtain ⟨r, off, x⟩ := w
    intro m m' h
    simp only [applyWrites]
    apply ih
    by_cases ha : a = resolve i r off <;> simp [ha, h]

/-- call `i`'s private state satisfies the checker's invariant -/
def GoodAt (prog : List Item) (i : ι) (m : Store ι) : Prop :=
  ∃ s, m (.priv i) = .priv s ∧ Good prog s

open Classical in
/-- the machine step, guarded by the invariant of the stepping call. On every
store reachable from a good one it IS the machine step (`run_guard_eq`). -/
noncomputable def gstep (prog : List Item) (sem : Sem) (i : ι) : Step (Addr ι) Cell := fun m =>
  if GoodAt prog i m then mstep prog sem i m else m

theorem gstep_good {prog : List Item} {sem : Sem} {i : ι} {m : Store ι} (h : GoodAt prog i m) :
    gstep prog sem i m = mstep prog sem i m := by
  unfold gstep; simp [h]

/-- **every machine step of an accepted program is a `LocalStep` of T1** -/
theorem gstep_local {prog : List Item} (hacc : acceptProg prog = true) {sem : Sem}
    (hrt : RtConfined sem) (i : ι) : LocalStep owner i (gstep prog sem i) where
  frame := by
    intro m a ha
    unfold gstep
    by_cases hg : GoodAt prog i m
    · simp only [hg, if_true]
      obtain ⟨s, hs, hgood⟩ := hg
      simp only [mstep, hs, applyEffect]
      have hne : a ≠ .priv i := by intro h; apply ha; rw [h]; rfl
      simp only [hne, if_false]
      exact applyWrites_other i a ha _ m (decideStep_ok hacc hrt _ s hgood).2
    · simp [hg]
  reads := by
    intro m m' hagree a ha
    have hp : m (.priv i) = m' (.priv i) := hagree _ (Or.inl rfl)
    have hview : viewOf i m = viewOf i m' := by
      funext r off
      unfold viewOf
      rw [hagree _ (owner_resolve i r off)]
    have hiff : GoodAt prog i m ↔ GoodAt prog i m' := by
      unfold GoodAt; rw [hp]
    unfold gstep
    by_cases hg : GoodAt prog i m
    · have hg' := hiff.mp hg
      simp only [hg, hg', if_true]
      obtain ⟨s, hs, _⟩ := hg
      have hs' : m' (.priv i) = .priv s := by rw [← hp]; exact hs
      simp only [mstep, hs, hs', hview, applyEffect]
      by_cases hpa : a = .priv i
      · simp [hpa]
      · simp only [hpa, if_false]
        exact applyWrites_congr i a _ m m' (hagree a (Or.inl ha))
    · have hg' : ¬ GoodAt prog i m' := fun h => hg (hiff.mpr h)
      simp only [hg, hg', if_false]
      exact hagree a (Or.inl ha)

theorem mstep_priv_other (prog : List Item) (sem : Sem) {i j : ι} (hij : j ≠ i) (m : Store ι) :
    mstep prog sem i m (.priv j) = m (.priv j) := by
  unfold mstep
  cases hs : m (.priv i) with
  | val v => rfl
  | priv s =>
    simp only [applyEffect]
    have : (Addr.priv j : Addr ι) ≠ .priv i := by intro h; exact hij (by injection h)
    simp only [this, if_false]
    exact applyWrites_priv i j _ m

theorem mstep_good {prog : List Item} (hacc : acceptProg prog = true) {sem : Sem}
    (hrt : RtConfined sem) (i : ι) (m : Store ι) (h : ∀ j, GoodAt prog j m) :
    ∀ j, GoodAt prog j (mstep prog sem i m) := by
  intro j
  by_cases hij : j = i
  · subst hij
    obtain ⟨s, hs, hgood⟩ := h j
    refine ⟨(decideStep prog sem (viewOf j m) s).state, ?_, (decideStep_ok hacc hrt _ s hgood).1⟩
    simp [mstep, hs, applyEffect]
  · obtain ⟨s, hs, hgood⟩ := h j
    exact ⟨s, by rw [mstep_priv_other prog sem hij]; exact hs, hgood⟩

/-- the schedule in which the calls listed in `sched` take one step each, in
that order -/
def schedOf (f : ι → Step (Addr ι) Cell) (sched : List ι) : Sched ι (Addr ι) Cell :=
  sched.map (fun i => (i, f i))

theorem run_guard_eq {prog : List Item} (hacc : acceptProg prog = true) {sem : Sem}
    (hrt : RtConfined sem) : ∀ (sched : List ι) (m : Store ι), (∀ j, GoodAt prog j m) →
      run (schedOf (mstep prog sem) sched) m = run (schedOf (gstep prog sem) sched) m := by
  intro sched
  induction sched with
  | nil => intro m _; rfl
  | cons i rest ih =>
    intro m h
    simp only [schedOf, List.map_cons, run]
    rw [gstep_good (h i)]
    exact ih _ (mstep_good hacc hrt i m h)

theorem proj_schedOf (f : ι → Step (Addr ι) Cell) (i : ι) :
    ∀ sched : List ι, proj i (schedOf f sched) = List.replicate (sched.count i) (f i) := by
  intro sched
  induction sched with
  | nil => rfl
  | cons j rest ih =>
    by_cases hji : j = i
    · subst hji
      simp only [schedOf, List.map_cons, proj, if_true, List.count_cons_self, List.replicate_succ]
      exact congrArg _ ih
    · have : (j == i) = false := by simp [hji]
      simp only [schedOf, List.map_cons, proj, hji, if_false, List.count_cons, this]
      simpa [schedOf] using ih

theorem runSolo_guard_eq {prog : List Item} (hacc : acceptProg prog = true) {sem : Sem}
    (hrt : RtConfined sem) (i : ι) : ∀ (n : Nat) (m : Store ι), (∀ j, GoodAt prog j m) →
      runSolo (List.replicate n (mstep prog sem i)) m = runSolo (List.replicate n (gstep prog sem i)) m := by
  intro n
  induction n with
  | zero => intro m _; rfl
  | succ n ih =>
    intro m h
    simp only [List.replicate_succ, runSolo]
    rw [gstep_good (h i)]
    exact ih _ (mstep_good hacc hrt i m h)

/-- a call that has returned takes no further steps: its machine step is the
identity -/
theorem mstep_finished (prog : List Item) (sem : Sem) (i : ι) (m : Store ι) (s : CallState)
    (hs : m (.priv i) = .priv s) (hfin : s.stack = []) : mstep prog sem i m = m := by
  funext a
  simp only [mstep, hs, decideStep, hfin, applyEffect, applyWrites]
  by_cases ha : a = .priv i
  · simp [ha, hs]
  · simp [ha]

theorem runSolo_finished (prog : List Item) (sem : Sem) (i : ι) (m : Store ι) (s : CallState)
    (hs : m (.priv i) = .priv s) (hfin : s.stack = []) :
    ∀ k, runSolo (List.replicate k (mstep prog sem i)) m = m := by
  intro k
  induction k with
  | zero => rfl
  | succ k ih => simp only [List.replicate_succ, runSolo, mstep_finished prog sem i m s hs hfin, ih]

theorem runSolo_append {A V : Type} (xs ys : List (Step A V)) (m : A → V) :
    runSolo (xs ++ ys) m = runSolo ys (runSolo xs m) := by
  induction xs generalizing m with
  | nil => rfl
  | cons x xs ih => simp [runSolo, ih]

end Store

end RotoV.Conc.Exec
