/-
  Lemmas for C14: reachability in the reference graph, soundness of the
  certificate checker `validOrder`, the codegen loop under a valid order, and
  the invariant of `determine_uses_context`.
-/
import RotoV.Model.Tarjan

namespace RotoV.Tarjan

/-- `u` mentions `v` -/
def Edge (g : Graph) (u v : Nat) : Prop := v ∈ g.refs u

/-- reflexive-transitive closure of `Edge` -/
inductive Reach (g : Graph) : Nat → Nat → Prop
  | refl (a : Nat) : Reach g a a
  | step {a b c : Nat} : Edge g a b → Reach g b c → Reach g a c

theorem Reach.trans {g : Graph} {a b c : Nat} (h₁ : Reach g a b) (h₂ : Reach g b c) : Reach g a c := by
  induction h₁ with
  | refl => exact h₂
  | step e _ ih => exact .step e (ih h₂)

theorem Reach.single {g : Graph} {a b : Nat} (e : Edge g a b) : Reach g a b := .step e (.refl b)

/-- a set closed under edges is closed under reachability -/
theorem Reach.closed {g : Graph} {S : Nat → Prop} (hS : ∀ x y, S x → Edge g x y → S y)
    {a b : Nat} (h : Reach g a b) (ha : S a) : S b := by
  induction h with
  | refl => exact ha
  | step e _ ih => exact ih (hS _ _ ha e)

/-! ### the certificate checker -/

/-- What `validOrder` certifies. -/
structure TopoOrder (g : Graph) (comps : List (List Nat)) : Prop where
  /-- every name at most once -/
  nodup : comps.flatten.Nodup
  /-- exactly the names of the graph -/
  complete : ∀ n, n ∈ g.nodes ↔ n ∈ comps.flatten
  /-- an edge never leads into a later component -/
  back : ∀ pre c post, comps = pre ++ c :: post →
    ∀ u, u ∈ c → ∀ v, Edge g u v → v ∈ pre.flatten ∨ v ∈ c

theorem nodupB_iff (l : List Nat) : nodupB l = true ↔ l.Nodup := by
  induction l with
  | nil => simp [nodupB]
  | cons x xs ih => simp [nodupB, ih, List.nodup_cons]

theorem compsOk_back (g : Graph) : ∀ (pre : List (List Nat)) (seen c : List Nat) (post : List (List Nat)),
    compsOk g seen (pre ++ c :: post) = true →
    ∀ u, u ∈ c → ∀ v, Edge g u v → v ∈ seen ++ pre.flatten ∨ v ∈ c := by
  intro pre
  induction pre with
  | nil =>
    intro seen c post h u hu v hv
    simp only [List.nil_append, compsOk, Bool.and_eq_true, compOk, List.all_eq_true,
      Bool.or_eq_true, List.contains_eq_mem, decide_eq_true_eq] at h
    have := h.1 u hu v hv
    simpa using this
  | cons p pre ih =>
    intro seen c post h u hu v hv
    simp only [List.cons_append, compsOk, Bool.and_eq_true] at h
    have := ih (seen ++ p) c post h.2 u hu v hv
    simpa [List.append_assoc] using this

theorem validOrder_sound (g : Graph) (comps : List (List Nat)) (h : validOrder g comps = true) :
    TopoOrder g comps := by
  simp only [validOrder, Bool.and_eq_true, List.all_eq_true, List.contains_eq_mem,
    decide_eq_true_eq] at h
  obtain ⟨⟨⟨h1, h2⟩, h3⟩, h4⟩ := h
  refine ⟨(nodupB_iff _).1 h1, fun n => ⟨h2 n, h3 n⟩, ?_⟩
  intro pre c post hc u hu v hv
  subst hc
  simpa using compsOk_back g pre [] c post h4 u hu v hv

/-- the names up to and including a component are closed under edges -/
theorem TopoOrder.prefix_closed {g : Graph} {comps : List (List Nat)} (h : TopoOrder g comps)
    (pre : List (List Nat)) (c : List Nat) (post : List (List Nat)) (hc : comps = pre ++ c :: post) :
    ∀ x y, (x ∈ pre.flatten ∨ x ∈ c) → Edge g x y → (y ∈ pre.flatten ∨ y ∈ c) := by
  intro x y hx e
  rcases hx with hx | hx
  · obtain ⟨c', hc', hxc'⟩ := List.mem_flatten.1 hx
    obtain ⟨p1, p2, hp⟩ := List.append_of_mem hc'
    have hsplit : comps = p1 ++ c' :: (p2 ++ c :: post) := by
      rw [hc, hp]; simp [List.append_assoc]
    rcases h.back p1 c' _ hsplit x hxc' y e with hy | hy
    · left; rw [hp]; simp only [List.flatten_append, List.mem_append]; exact Or.inl hy
    · left; rw [hp]; simp only [List.flatten_append, List.flatten_cons, List.mem_append]
      exact Or.inr (Or.inl hy)
  · exact h.back pre c post hc x hx y e

theorem TopoOrder.reach_back {g : Graph} {comps : List (List Nat)} (h : TopoOrder g comps)
    (pre : List (List Nat)) (c : List Nat) (post : List (List Nat)) (hc : comps = pre ++ c :: post)
    {x y : Nat} (hx : x ∈ pre.flatten ∨ x ∈ c) (r : Reach g x y) : y ∈ pre.flatten ∨ y ∈ c :=
  Reach.closed (S := fun z => z ∈ pre.flatten ∨ z ∈ c) (h.prefix_closed pre c post hc) r hx

theorem TopoOrder.pre_closed {g : Graph} {comps : List (List Nat)} (h : TopoOrder g comps)
    (pre : List (List Nat)) (c : List Nat) (post : List (List Nat)) (hc : comps = pre ++ c :: post) :
    ∀ x y, x ∈ pre.flatten → Edge g x y → y ∈ pre.flatten := by
  intro x y hx e
  obtain ⟨c', hc', hxc'⟩ := List.mem_flatten.1 hx
  obtain ⟨p1, p2, hp⟩ := List.append_of_mem hc'
  have hsplit : comps = p1 ++ c' :: (p2 ++ c :: post) := by
    rw [hc, hp]; simp [List.append_assoc]
  rcases h.back p1 c' _ hsplit x hxc' y e with hy | hy
  · rw [hp]; simp only [List.flatten_append, List.mem_append]; exact Or.inl hy
  · rw [hp]; simp only [List.flatten_append, List.flatten_cons, List.mem_append]
    exact Or.inr (Or.inl hy)

/-! ### the codegen loop under a valid order -/

/-- the filter of `mirItems` -/
def isItem (g : Graph) (n : Nat) : Bool :=
  g.keys.contains n && (g.kind n == .const || g.kind n == .func)

theorem mirItems_eq (g : Graph) (o : List Nat) : mirItems g o = o.filter (isItem g) := rfl

theorem mirItems_append (g : Graph) (a b : List Nat) :
    mirItems g (a ++ b) = mirItems g a ++ mirItems g b := by
  simp [mirItems_eq]

theorem mem_mirItems {g : Graph} {o : List Nat} {n : Nat} :
    n ∈ mirItems g o ↔ n ∈ o ∧ isItem g n = true := by
  simp [mirItems_eq]

theorem cgLoop_append (g : Graph) (items : List Nat) : ∀ (a b : List Nat) (st : CgState),
    cgLoop g items (a ++ b) st = (cgLoop g items a st >>= fun st' => cgLoop g items b st') := by
  intro a
  induction a with
  | nil => intro b st; simp [cgLoop, bind, Except.bind]
  | cons n a ih =>
    intro b st
    simp only [List.cons_append, cgLoop, bind, Except.bind]
    cases cgStep g items st n with
    | error e => rfl
    | ok st1 => simpa [bind, Except.bind] using ih b st1

/-- defining items that are not constants, all of whose constant references
have been evaluated: no failure, nothing evaluated -/
theorem cg_funcs (g : Graph) (items : List Nat) : ∀ (l : List Nat) (st : CgState),
    (∀ n ∈ l, g.kind n ≠ .const) →
    (∀ n ∈ l, ∀ r ∈ constRefs g items n, r ∈ st.store) →
    ∃ st', cgLoop g items l st = .ok st' ∧ st'.store = st.store ∧ st'.log = st.log ∧
      (∀ x, x ∈ st'.defined ↔ x ∈ st.defined ∨ x ∈ l) ∧
      (∀ x, x ∈ st'.pending ↔ x ∈ st.pending ∨ x ∈ l) := by
  intro l
  induction l with
  | nil => intro st _ _; exact ⟨st, rfl, rfl, rfl, by simp, by simp⟩
  | cons n l ih =>
    intro st hk hr
    have hkn : g.kind n ≠ .const := hk n (by simp)
    have hall : (constRefs g items n).all st.store.contains = true := by
      simp only [List.all_eq_true, List.contains_eq_mem, decide_eq_true_eq]
      exact hr n (by simp)
    have hstep : cgStep g items st n
        = .ok { st with defined := n :: st.defined, pending := n :: st.pending } := by
      simp [cgStep, hkn, defineFunction, hall]
    obtain ⟨st', h1, h2, h3, h4, h5⟩ := ih { st with defined := n :: st.defined, pending := n :: st.pending }
      (fun m hm => hk m (by simp [hm])) (fun m hm => hr m (by simp [hm]))
    refine ⟨st', ?_, h2, h3, ?_, ?_⟩
    · simp [cgLoop, hstep, bind, Except.bind, h1]
    · intro x; rw [h4 x]; simp only [List.mem_cons, or_assoc]; exact or_left_comm
    · intro x; rw [h5 x]; simp only [List.mem_cons, or_assoc]; exact or_left_comm

/-- defining, finalising and running one constant -/
theorem cg_const (g : Graph) (items : List Nat) (c : Nat) (st : CgState)
    (hk : g.kind c = .const)
    (hrefs : ∀ r ∈ constRefs g items c, r ∈ st.store)
    (hfin : ∀ f, (f ∈ st.pending ∨ f = c) → ∀ r ∈ funcRefs g items f, r ∈ st.defined ∨ r = c) :
    cgLoop g items [c] st
      = .ok { defined := c :: st.defined, pending := [], store := st.store ++ [c], log := st.log ++ [c] } := by
  have hall : (constRefs g items c).all st.store.contains = true := by
    simp only [List.all_eq_true, List.contains_eq_mem, decide_eq_true_eq]
    exact hrefs
  have hfin' : (c :: st.pending).all
      (fun f => (funcRefs g items f).all (c :: st.defined).contains) = true := by
    simp only [List.all_eq_true, List.contains_eq_mem, decide_eq_true_eq, List.mem_cons]
    intro f hf r hr
    rcases hfin f (by rcases hf with hf | hf; exact Or.inr hf; exact Or.inl hf) r hr with h | h
    · exact Or.inr h
    · exact Or.inl h
  simp [cgLoop, cgStep, hk, defineFunction, hall, finalizeDefinitions, hfin', bind, Except.bind]

theorem mem_constRefs {g : Graph} {items : List Nat} {n r : Nat} :
    r ∈ constRefs g items n ↔ Edge g n r ∧ g.kind r = .const ∧ r ∈ items := by
  simp [constRefs, Edge, and_assoc]

theorem mem_funcRefs {g : Graph} {items : List Nat} {n r : Nat} :
    r ∈ funcRefs g items n ↔ Edge g n r ∧ g.kind r = .func ∧ r ∈ items := by
  simp [funcRefs, Edge, and_assoc]

/-- state of the codegen loop after the components `pre` -/
structure CgInv (g : Graph) (pre : List (List Nat)) (st : CgState) : Prop where
  defined : ∀ x, x ∈ st.defined ↔ x ∈ mirItems g pre.flatten
  store : st.store = (mirItems g pre.flatten).filter g.isConst
  log : st.log = st.store
  pending : ∀ x, x ∈ st.pending → x ∈ st.defined

/-- the two cycle tests of `find_compilation_order` passed -/
structure NoConstCycle (g : Graph) (comps : List (List Nat)) : Prop where
  noSelf : ∀ c, g.kind c = .const → ¬ Edge g c c
  noMixed : ∀ comp, comp ∈ comps → ∀ c, c ∈ comp → g.kind c = .const → comp = [c]

theorem cg_comp {g : Graph} {comps : List (List Nat)} (h : TopoOrder g comps)
    (hc : NoConstCycle g comps) (pre : List (List Nat)) (comp : List Nat) (post : List (List Nat))
    (hsplit : comps = pre ++ comp :: post) (st : CgState) (inv : CgInv g pre st) :
    ∃ st', cgLoop g (mirItems g comps.flatten) (mirItems g comp) st = .ok st' ∧
      CgInv g (pre ++ [comp]) st' := by
  have hmem : comp ∈ comps := by rw [hsplit]; simp
  -- constant references of an item of `comp` have been evaluated
  have hconst : ∀ n, n ∈ comp → ∀ r, r ∈ constRefs g (mirItems g comps.flatten) n → r ∈ st.store := by
    intro n hn r hr
    obtain ⟨e, hk, hi⟩ := mem_constRefs.1 hr
    rw [inv.store]
    have hitem : isItem g r = true := (mem_mirItems.1 hi).2
    rcases h.back pre comp post hsplit n hn r e with hp | hp
    · simp only [List.mem_filter, Graph.isConst, hk, beq_self_eq_true, and_true]
      exact mem_mirItems.2 ⟨hp, hitem⟩
    · have := hc.noMixed comp hmem r hp hk
      rw [this] at hn
      have hnr : n = r := by simpa using hn
      subst hnr
      exact absurd e (hc.noSelf n hk)
  have hflat : (pre ++ [comp]).flatten = pre.flatten ++ comp := by simp
  by_cases hex : ∃ c, c ∈ comp ∧ g.kind c = .const
  · -- a single constant
    obtain ⟨c, hcc, hk⟩ := hex
    have hcomp : comp = [c] := hc.noMixed comp hmem c hcc hk
    subst hcomp
    by_cases hi : isItem g c = true
    · have hmi : mirItems g [c] = [c] := by simp [mirItems_eq, hi]
      rw [hmi]
      refine ⟨_, cg_const g _ c st hk (hconst c (by simp)) ?_, ?_⟩
      · intro f hf r hr
        obtain ⟨e, _, hri⟩ := mem_funcRefs.1 hr
        have hf' : f ∈ pre.flatten ∨ f ∈ [c] := by
          rcases hf with hf | hf
          · exact Or.inl (mem_mirItems.1 ((inv.defined f).1 (inv.pending f hf))).1
          · exact Or.inr (by simp [hf])
        rcases h.prefix_closed pre [c] post hsplit f r hf' e with hp | hp
        · exact Or.inl ((inv.defined r).2 (mem_mirItems.2 ⟨hp, (mem_mirItems.1 hri).2⟩))
        · exact Or.inr (by simpa using hp)
      · constructor
        · intro x
          simp only [List.mem_cons, inv.defined x, hflat, mirItems_append, hmi, List.mem_append,
            List.mem_singleton, List.not_mem_nil, or_false]
          exact or_comm
        · simp [inv.store, hflat, mirItems_append, hmi, Graph.isConst, hk]
        · simp [inv.log]
        · intro x hx; simp at hx
    · have hmi : mirItems g [c] = [] := by simp [mirItems_eq, hi]
      rw [hmi]
      refine ⟨st, rfl, ?_⟩
      constructor
      · intro x; simp [inv.defined x, hflat, mirItems_append, hmi]
      · simp [inv.store, hflat, mirItems_append, hmi]
      · exact inv.log
      · exact inv.pending
  · -- no constant: only function definitions
    have hnc : ∀ n, n ∈ mirItems g comp → g.kind n ≠ .const := by
      intro n hn hk
      exact hex ⟨n, (mem_mirItems.1 hn).1, hk⟩
    obtain ⟨st', h1, h2, h3, h4, h5⟩ := cg_funcs g (mirItems g comps.flatten) (mirItems g comp) st hnc
      (fun n hn => hconst n (mem_mirItems.1 hn).1)
    refine ⟨st', h1, ?_⟩
    constructor
    · intro x
      rw [h4 x, inv.defined x, hflat, mirItems_append, List.mem_append]
    · rw [h2, inv.store, hflat, mirItems_append, List.filter_append]
      have : (mirItems g comp).filter g.isConst = [] := by
        simp only [List.filter_eq_nil_iff, Graph.isConst, beq_iff_eq]
        intro n hn; exact hnc n hn
      simp [this]
    · rw [h3, h2]; exact inv.log
    · intro x hx
      rw [h4 x]
      rcases (h5 x).1 hx with hx | hx
      · exact Or.inl (inv.pending x hx)
      · exact Or.inr hx

theorem cg_comps {g : Graph} {comps : List (List Nat)} (h : TopoOrder g comps)
    (hc : NoConstCycle g comps) : ∀ (post pre : List (List Nat)) (st : CgState),
    comps = pre ++ post → CgInv g pre st →
    ∃ st', cgLoop g (mirItems g comps.flatten) (mirItems g post.flatten) st = .ok st' ∧
      CgInv g comps st' := by
  intro post
  induction post with
  | nil =>
    intro pre st hs inv
    refine ⟨st, by simp [mirItems_eq, cgLoop], ?_⟩
    have : comps = pre := by simpa using hs
    rw [this]; exact inv
  | cons comp post ih =>
    intro pre st hs inv
    obtain ⟨st1, h1, inv1⟩ := cg_comp h hc pre comp post hs st inv
    obtain ⟨st2, h2, inv2⟩ := ih (pre ++ [comp]) st1 (by rw [hs]; simp) inv1
    refine ⟨st2, ?_, inv2⟩
    rw [List.flatten_cons, mirItems_append, cgLoop_append, h1]
    simpa [bind, Except.bind] using h2

/-- `d` occurs strictly before `c` in `l` -/
def Before (d c : Nat) (l : List Nat) : Prop := ∃ l1 l2 l3, l = l1 ++ d :: l2 ++ c :: l3

/-! ### the two cycle tests -/

theorem lookup_mem {β} : ∀ (l : List (Nat × β)) (k : Nat) (v : β), l.lookup k = some v → (k, v) ∈ l := by
  intro l
  induction l with
  | nil => intro k v h; simp [List.lookup] at h
  | cons p l ih =>
    intro k v h
    obtain ⟨k', v'⟩ := p
    simp only [List.lookup] at h
    split at h
    · next heq =>
      have : k = k' := by simpa using heq
      simp at h; subst h; subst this; simp
    · exact List.mem_cons_of_mem _ (ih k v h)

theorem edge_mem_edges {g : Graph} {u v : Nat} (e : Edge g u v) : ∃ rs, (u, rs) ∈ g.edges ∧ v ∈ rs := by
  unfold Edge Graph.refs at e
  split at e
  · next l hl => exact ⟨l, lookup_mem _ _ _ hl, e⟩
  · simp at e

theorem selfEdge_const (g : Graph) : ∀ (es : List (Nat × List Nat)) (c : Nat),
    selfEdge g es = some c → g.kind c = .const := by
  intro es
  induction es with
  | nil => intro c h; simp [selfEdge] at h
  | cons p es ih =>
    intro c h
    obtain ⟨n, rs⟩ := p
    simp only [selfEdge] at h
    split at h
    · next hc =>
      simp only [Bool.and_eq_true, decide_eq_true_eq] at hc
      have : n = c := by simpa using h
      subst this; exact hc.1
    · exact ih c h

theorem selfEdge_some (g : Graph) : ∀ (es : List (Nat × List Nat)) (c : Nat) (rs : List Nat),
    (c, rs) ∈ es → g.kind c = .const → c ∈ rs → ∃ c', g.kind c' = .const ∧ selfEdge g es = some c' := by
  intro es
  induction es with
  | nil => intro c rs h; simp at h
  | cons p es ih =>
    intro c rs hm hk hr
    obtain ⟨n, rs'⟩ := p
    simp only [selfEdge]
    split
    · next hc =>
      simp only [Bool.and_eq_true, decide_eq_true_eq] at hc
      exact ⟨n, hc.1, rfl⟩
    · next hc =>
      rcases List.mem_cons.1 hm with h | h
      · exfalso; apply hc
        have h1 : c = n := congrArg Prod.fst h
        have h2 : rs = rs' := congrArg Prod.snd h
        subst h1; subst h2
        simp [hk, hr]
      · exact ih c rs h hk hr

theorem firstConst_some (g : Graph) : ∀ (l : List Nat) (c : Nat), c ∈ l → g.kind c = .const →
    ∃ c', g.kind c' = .const ∧ firstConst g l = some c' := by
  intro l
  induction l with
  | nil => intro c h; simp at h
  | cons n l ih =>
    intro c hm hk
    simp only [firstConst]
    split
    · next hn => exact ⟨n, hn, rfl⟩
    · next hn =>
      rcases List.mem_cons.1 hm with h | h
      · subst h; exact absurd hk hn
      · exact ih c h hk

theorem firstConst_const (g : Graph) : ∀ (l : List Nat) (c : Nat), firstConst g l = some c →
    g.kind c = .const := by
  intro l
  induction l with
  | nil => intro c h; simp [firstConst] at h
  | cons n l ih =>
    intro c h
    simp only [firstConst] at h
    split at h
    · next hn => have : n = c := by simpa using h
                 subst this; exact hn
    · exact ih c h

theorem mixedComponent_some (g : Graph) : ∀ (comps : List (List Nat)) (comp : List Nat),
    comp ∈ comps → comp.length > 1 → ∀ c, c ∈ comp → g.kind c = .const →
    ∃ c', g.kind c' = .const ∧ mixedComponent g comps = some c' := by
  intro comps
  induction comps with
  | nil => intro comp h; simp at h
  | cons x comps ih =>
    intro comp hm hl c hc hk
    simp only [mixedComponent]
    split
    · next hx =>
      split
      · next n hn => exact ⟨n, firstConst_const g x n hn, rfl⟩
      · next hn =>
        rcases List.mem_cons.1 hm with h | h
        · subst h
          obtain ⟨c', _, h'⟩ := firstConst_some g comp c hc hk
          rw [h'] at hn; cases hn
        · exact ih comp h hl c hc hk
    · next hx =>
      rcases List.mem_cons.1 hm with h | h
      · subst h; exact absurd hl hx
      · exact ih comp h hl c hc hk

theorem two_mem_length {l : List Nat} {a b : Nat} (ha : a ∈ l) (hb : b ∈ l) (hne : a ≠ b) :
    l.length > 1 := by
  match l, ha, hb with
  | [x], ha, hb =>
    have h1 : a = x := by simpa using ha
    have h2 : b = x := by simpa using hb
    exact absurd (h1.trans h2.symm) hne
  | _ :: _ :: _, _, _ => simp

/-! ### strong connectivity of the components -/

theorem reachSet_sound (g : Graph) (comp : List Nat) (x : Nat) :
    ∀ (n y : Nat), y ∈ reachSet g comp x n → Reach g x y := by
  intro n
  induction n with
  | zero => intro y hy; simp only [reachSet, List.mem_singleton] at hy; subst hy; exact .refl _
  | succ n ih =>
    intro y hy
    simp only [reachSet, List.mem_eraseDups, List.mem_append, List.mem_filter, List.mem_flatMap] at hy
    rcases hy with hy | ⟨⟨z, hz, hzy⟩, _⟩
    · exact ih y hy
    · exact (ih z hz).trans (Reach.single hzy)

theorem sccOk_sound (g : Graph) (comp : List Nat) (h : sccOk g comp = true) :
    ∀ a b, a ∈ comp → b ∈ comp → Reach g a b := by
  match comp, h with
  | [], _ => intro a b ha; simp at ha
  | x :: rest, h =>
    simp only [sccOk, List.all_eq_true, Bool.and_eq_true, List.contains_eq_mem, decide_eq_true_eq] at h
    have from_x : ∀ b, b ∈ x :: rest → Reach g x b := by
      intro b hb
      rcases List.mem_cons.1 hb with hb | hb
      · subst hb; exact .refl _
      · exact reachSet_sound g _ _ _ _ (h b hb).1
    have to_x : ∀ a, a ∈ x :: rest → Reach g a x := by
      intro a ha
      rcases List.mem_cons.1 ha with ha | ha
      · subst ha; exact .refl _
      · exact reachSet_sound g _ _ _ _ (h a ha).2
    intro a b ha hb
    exact (to_x a ha).trans (from_x b hb)

theorem Reach.head_of_ne {g : Graph} {a b : Nat} (r : Reach g a b) (hne : a ≠ b) :
    ∃ m, Edge g a m ∧ Reach g m b := by
  cases r with
  | refl => exact absurd rfl hne
  | step e r' => exact ⟨_, e, r'⟩

theorem exists_ne_of_length {l : List Nat} (hn : l.Nodup) (hl : l.length > 1) (c : Nat) :
    ∃ y, y ∈ l ∧ y ≠ c := by
  match l, hn, hl with
  | a :: b :: _, hn, _ =>
    by_cases hac : a = c
    · refine ⟨b, by simp, ?_⟩
      intro hbc
      have : a = b := hac.trans hbc.symm
      simp [this] at hn
    · exact ⟨a, by simp, hac⟩

theorem selfEdge_inv (g : Graph) : ∀ (es : List (Nat × List Nat)) (c : Nat),
    selfEdge g es = some c → g.kind c = .const ∧ ∃ rs, (c, rs) ∈ es ∧ c ∈ rs := by
  intro es
  induction es with
  | nil => intro c h; simp [selfEdge] at h
  | cons p es ih =>
    intro c h
    obtain ⟨n, rs⟩ := p
    simp only [selfEdge] at h
    split at h
    · next hc =>
      simp only [Bool.and_eq_true, decide_eq_true_eq, List.contains_eq_mem] at hc
      have : n = c := by simpa using h
      subst this
      exact ⟨hc.1, rs, by simp, hc.2⟩
    · obtain ⟨k, rs', hm, hr⟩ := ih c h
      exact ⟨k, rs', List.mem_cons_of_mem _ hm, hr⟩

theorem mixedComponent_inv (g : Graph) : ∀ (comps : List (List Nat)) (c : Nat),
    mixedComponent g comps = some c →
    ∃ comp, comp ∈ comps ∧ comp.length > 1 ∧ c ∈ comp ∧ g.kind c = .const := by
  intro comps
  induction comps with
  | nil => intro c h; simp [mixedComponent] at h
  | cons x comps ih =>
    intro c h
    simp only [mixedComponent] at h
    have firstConst_mem : ∀ (l : List Nat) (c : Nat), firstConst g l = some c → c ∈ l := by
      intro l
      induction l with
      | nil => intro c h; simp [firstConst] at h
      | cons n l ihl =>
        intro c h
        simp only [firstConst] at h
        split at h
        · have : n = c := by simpa using h
          subst this; simp
        · exact List.mem_cons_of_mem _ (ihl c h)
    split at h
    · next hx =>
      split at h
      · next n hn =>
        have : n = c := by simpa using h
        subst this
        exact ⟨x, by simp, hx, firstConst_mem x n hn, firstConst_const g x n hn⟩
      · obtain ⟨comp, a, b, c', d⟩ := ih c h
        exact ⟨comp, List.mem_cons_of_mem _ a, b, c', d⟩
    · obtain ⟨comp, a, b, c', d⟩ := ih c h
      exact ⟨comp, List.mem_cons_of_mem _ a, b, c', d⟩

theorem lookup_of_mem_nodup {β} : ∀ (l : List (Nat × β)) (k : Nat) (v : β),
    (l.map Prod.fst).Nodup → (k, v) ∈ l → l.lookup k = some v := by
  intro l
  induction l with
  | nil => intro k v _ h; simp at h
  | cons p l ih =>
    intro k v hn hm
    obtain ⟨k', v'⟩ := p
    simp only [List.map_cons, List.nodup_cons] at hn
    rcases List.mem_cons.1 hm with h | h
    · have h1 : k = k' := congrArg Prod.fst h
      have h2 : v = v' := congrArg Prod.snd h
      subst h1; subst h2
      simp [List.lookup]
    · have hne : k ≠ k' := by
        intro e; subst e
        exact hn.1 (List.mem_map.2 ⟨(k, v), h, rfl⟩)
      have : (k == k') = false := by simpa using hne
      simp only [List.lookup, this]
      exact ih k v hn.2 h

end RotoV.Tarjan
