/-
  The whole-input driver `tokenize` (the protocol of the token hook): it never
  panics, never runs out of fuel, and its token stream satisfies `Good`.
-/
import RotoV.Lemmas.LexerRecognisers

namespace RotoV.Lex
open RotoV RotoV.Gen.LexTables

theorem Reach.blen_input {src : List Char} {L : Lexer} (h : Reach src L) :
    blen L.input + L.pos = blen src := by
  obtain ⟨ho, pre, hp⟩ := h
  rw [Reach.pos_eq ⟨ho, pre, hp⟩ hp]
  conv => rhs; rw [hp, blen_append]
  omega

/-- the three facts `lex_spans` states about a finished token stream -/
def Good (src : List Char) (toks : List OutTok) : Prop :=
  (∀ t ∈ toks, t.kind ≠ .fNone → SpanOk src (t.start, t.stop)) ∧
  (∀ t ∈ toks, (∃ k, t.kind = .tok k) ∨ t.kind = .invalid → t.start < t.stop) ∧
  toks.Pairwise (fun a b => b.kind ≠ .fNone → a.stop ≤ b.start)

/-- the reversed accumulator while the driver loop runs -/
structure AccOk (src : List Char) (acc : List OutTok) (bound : Nat) : Prop where
  noNone : ∀ t ∈ acc, t.kind ≠ .fNone
  span : ∀ t ∈ acc, SpanOk src (t.start, t.stop)
  nonempty : ∀ t ∈ acc, (∃ k, t.kind = .tok k) ∨ t.kind = .invalid → t.start < t.stop
  bounded : ∀ t ∈ acc, t.stop ≤ bound
  sorted : acc.Pairwise (fun b a => a.stop ≤ b.start)

theorem AccOk.nil (src : List Char) (b : Nat) : AccOk src [] b :=
  ⟨by simp, by simp, by simp, by simp, List.Pairwise.nil⟩

theorem AccOk.push {src : List Char} {acc : List OutTok} {bound bound' : Nat}
    (h : AccOk src acc bound) (t : OutTok) (hk : t.kind ≠ .fNone)
    (hs : SpanOk src (t.start, t.stop)) (hb : bound ≤ t.start) (hb' : t.stop ≤ bound')
    (hne : (∃ k, t.kind = .tok k) ∨ t.kind = .invalid → t.start < t.stop) :
    AccOk src (t :: acc) bound' := by
  have hle : t.start ≤ t.stop := hs.1
  refine ⟨?_, ?_, ?_, ?_, ?_⟩
  · intro x hx; rcases List.mem_cons.1 hx with rfl | hx; exact hk; exact h.noNone x hx
  · intro x hx; rcases List.mem_cons.1 hx with rfl | hx; exact hs; exact h.span x hx
  · intro x hx; rcases List.mem_cons.1 hx with rfl | hx; exact hne; exact h.nonempty x hx
  · intro x hx; rcases List.mem_cons.1 hx with rfl | hx; exact hb'
    have := h.bounded x hx; omega
  · refine List.Pairwise.cons ?_ h.sorted
    intro a ha; have := h.bounded a ha; omega

theorem AccOk.good {src : List Char} {acc : List OutTok} {bound : Nat} (h : AccOk src acc bound) :
    Good src acc.reverse := by
  refine ⟨?_, ?_, ?_⟩
  · intro t ht _; exact h.span t (List.mem_reverse.1 ht)
  · intro t ht hk; exact h.nonempty t (List.mem_reverse.1 ht) hk
  · rw [List.pairwise_reverse]
    exact h.sorted.imp (fun {a b} (hab : b.stop ≤ a.start) (_ : a.kind ≠ .fNone) => hab)

theorem AccOk.good_none {src : List Char} {acc : List OutTok} {bound : Nat} (h : AccOk src acc bound) :
    Good src ((⟨.fNone, 0, 0⟩ :: acc).reverse) := by
  refine ⟨?_, ?_, ?_⟩
  · intro t ht hk
    rcases List.mem_cons.1 (List.mem_reverse.1 ht) with rfl | ht
    · exact absurd rfl hk
    · exact h.span t ht
  · intro t ht hk
    rcases List.mem_cons.1 (List.mem_reverse.1 ht) with rfl | ht
    · rcases hk with ⟨k, hk⟩ | hk <;> cases hk
    · exact h.nonempty t ht hk
  · rw [List.pairwise_reverse]
    refine List.Pairwise.cons ?_ (h.sorted.imp (fun {a b} (hab : b.stop ≤ a.start) (_ : a.kind ≠ .fNone) => hab))
    intro a _ hk; exact absurd rfl hk

theorem fPartStep_ok {src : List Char} {L : Lexer} (stack : List Nat) {acc : List OutTok}
    (h : Reach src L) (hacc : AccOk src acc L.pos) :
    ∃ cont L2 stack2 acc2, fPartStep L stack acc = .ok (cont, L2, stack2, acc2) ∧
      (cont = false → Good src acc2.reverse) ∧
      (cont = true → Reach src L2 ∧ L.pos ≤ L2.pos ∧ AccOk src acc2 L2.pos) := by
  obtain ⟨p, L', hf, hr, hspec⟩ := fStringPart_ok' src L h
  unfold fPartStep
  rw [hf]
  cases p with
  | none =>
    refine ⟨false, L', stack, _, rfl, fun _ => hacc.good_none, ?_⟩
    intro hc; cases hc
  | strEnd sp =>
    obtain ⟨h1, h2, h3⟩ := hspec
    have := h2.1
    refine ⟨true, L', stack, _, rfl, ?_, fun _ => ⟨hr, by omega, ?_⟩⟩
    · intro hc; cases hc
    exact hacc.push ⟨.fEnd, sp.1, sp.2⟩ (by simp) h2 (by simp [h1]) (by simp; omega)
      (by intro hk; rcases hk with ⟨k, hk⟩ | hk <;> cases hk)
  | strMid sp =>
    obtain ⟨h1, h2, h3, _⟩ := hspec
    have := h2.1
    refine ⟨true, L', 0 :: stack, _, rfl, ?_, fun _ => ⟨hr, by omega, ?_⟩⟩
    · intro hc; cases hc
    exact hacc.push ⟨.fMid, sp.1, sp.2⟩ (by simp) h2 (by simp [h1]) (by simp; omega)
      (by intro hk; rcases hk with ⟨k, hk⟩ | hk <;> cases hk)

theorem tokLoop_ok (P : Preds) (T : TablesOk) (src : List Char) :
    ∀ (fuel : Nat) (L : Lexer) (stack : List Nat) (acc : List OutTok),
      Reach src L → blen L.input < fuel → AccOk src acc L.pos →
      ∃ toks, tokLoop P fuel L stack acc = .done toks ∧ Good src toks := by
  intro fuel
  induction fuel with
  | zero => intro L _ _ _ hlt _; omega
  | succ fuel ih =>
    intro L stack acc hr hlt hacc
    obtain ⟨it, L1, hn, hr1, hp1, hit⟩ := nextInner_ok' P T src L hr
    simp only [tokLoop]
    rw [hn]
    cases it with
    | eof => exact ⟨_, rfl, hacc.good⟩
    | invalid sp =>
      obtain ⟨h1, h2, h3⟩ := hit
      refine ⟨_, rfl, AccOk.good (bound := sp.2) ?_⟩
      exact hacc.push ⟨.invalid, sp.1, sp.2⟩ (by simp) h3 (by simp; omega) (by simp) (fun _ => h2)
    | tok kind sp =>
      obtain ⟨h1, h2, h3, h4⟩ := hit
      have hacc1 : AccOk src (⟨.tok kind, sp.1, sp.2⟩ :: acc) L1.pos :=
        hacc.push ⟨.tok kind, sp.1, sp.2⟩ (by simp) h4 (by simp; omega) (by simp; omega) (fun _ => h2)
      have hb := hr.blen_input
      have hb1 := hr1.blen_input
      have hfuel : blen L1.input < fuel := by omega
      have viaPart : ∀ st, ∃ toks,
          (match fPartStep L1 st (⟨.tok kind, sp.1, sp.2⟩ :: acc) with
            | .panic => Run.panic
            | .ok (false, _, _, acc) => .done acc.reverse
            | .ok (true, L2, stack, acc) => tokLoop P fuel L2 stack acc) = .done toks ∧ Good src toks := by
        intro st
        obtain ⟨cont, L2, st2, acc2, hf, hfalse, htrue⟩ := fPartStep_ok st hr1 hacc1
        rw [hf]
        cases cont with
        | false => exact ⟨_, rfl, hfalse rfl⟩
        | true =>
          obtain ⟨hr2, hp2, hacc2⟩ := htrue rfl
          have hb2 := hr2.blen_input
          exact ih L2 st2 acc2 hr2 (by omega) hacc2
      dsimp only
      split
      · exact viaPart stack
      · split
        · split
          · exact ih L1 [] _ hr1 hfuel hacc1
          · exact ih L1 _ _ hr1 hfuel hacc1
        · split
          · split
            · exact ih L1 [] _ hr1 hfuel hacc1
            · split
              · exact viaPart _
              · exact ih L1 _ _ hr1 hfuel hacc1
          · exact ih L1 _ _ hr1 hfuel hacc1

theorem tokenize_ok (P : Preds) (T : TablesOk) (src : List Char) :
    ∃ toks, tokenize P src = .done toks ∧ Good src toks := by
  obtain ⟨L, hs, hr, _⟩ := skipShebang_ok' (Reach.new src) P
  unfold tokenize
  rw [hs]
  have := hr.blen_input
  exact tokLoop_ok P T src _ L [] [] hr (by omega) (AccOk.nil _ _)

end RotoV.Lex
