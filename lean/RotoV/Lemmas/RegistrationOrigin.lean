/-
  Registration (C18): every declaration the library makes stems from one item
  of the library, under the name the property says: the module path followed
  by the item's name — for a method or a constant of an impl block the path of
  the *type* followed by the name.
-/
import RotoV.Lemmas.RegistrationAccepts

namespace RotoV.Reg

section
variable (lex : Name → Lex)

/-- where a declaration of `Declared` comes from -/
inductive Origin (st : St) (items : Items) : RName → Decl → Prop
  | module {p : List Name} {n : Name} {ch : Items} :
      ItemAt items p (.module n ch) → Origin st items ⟨p, n⟩ ⟨.module, some (p ++ [n])⟩
  | type {p : List Name} {n : Name} {id : TyId} :
      ItemAt items p (.type n id) → Origin st items ⟨p, n⟩ ⟨.type id, some (p ++ [n])⟩
  | function {p : List Name} {n : Name} {ps : List RustTy} {r : RustTy} {tag : Nat}
      {ps' : List RotoTy} {r' : RotoTy} :
      ItemAt items p (.function n ps r tag) →
      convTys (S2 lex st items) ps = .ok ps' → convTy (S2 lex st items) r = .ok r' →
      Origin st items ⟨p, n⟩ ⟨.function ps' r' tag, none⟩
  | method {q : List Name} {ty : TyId} {ch : Items} {n : Name} {ps : List RustTy} {r : RustTy} {tag : Nat}
      {nm : RName} {ps' : List RotoTy} {r' : RotoTy} :
      ItemAt items q (.impl ty ch) → Item.function n ps r tag ∈ ch.toList →
      (S2 lex st items).types ty = some nm →
      convTys (S2 lex st items) ps = .ok ps' → convTy (S2 lex st items) r = .ok r' →
      Origin st items ⟨nm.path, n⟩ ⟨.method ps' r' tag, none⟩
  | constant {p : List Name} {n : Name} {ty : RustTy} {tag : Nat} {ty' : RotoTy} :
      ItemAt items p (.constant n ty tag) → convTy (S2 lex st items) ty = .ok ty' →
      Origin st items ⟨p, n⟩ ⟨.const ty' tag, none⟩
  | implConstant {q : List Name} {ty : TyId} {ch : Items} {n : Name} {cty : RustTy} {tag : Nat}
      {nm : RName} {ty' : RotoTy} :
      ItemAt items q (.impl ty ch) → Item.constant n cty tag ∈ ch.toList →
      (S2 lex st items).types ty = some nm → convTy (S2 lex st items) cty = .ok ty' →
      Origin st items ⟨nm.path, n⟩ ⟨.const ty' tag, none⟩

theorem convTy_types_congr {st st' : St} (h : st'.types = st.types) (t : RustTy) :
    convTy st' t = convTy st t := by
  induction t with
  | unit => rfl
  | reg id => simp only [convTy, h]
  | option t ih => simp only [convTy, ih]
  | list t ih => simp only [convTy, ih]
  | verdict a r iha ihr => simp only [convTy, iha, ihr]
  | result a r iha ihr => simp only [convTy, iha, ihr]

/-- **every declaration of the library is one of its items**, under the
    declared path -/
theorem declared_origin {st : St} (hw : WF st) (items : Items) (c : Checks lex st items)
    {k : RName} {d : Decl} (h : (k, d) ∈ Declared lex st items) : Origin lex st items k d := by
  obtain ⟨⟨_, w1⟩, ⟨_, w2⟩, ⟨e3, w3⟩, _, _⟩ := checks_stages lex hw items c
  have t3 : (S3 lex st items).types = (S2 lex st items).types := (setAll_insertDecl_types _ _).1
  simp only [Declared, List.mem_append] at h
  rcases h with h | h | h | h
  · -- modules
    obtain ⟨o, ho, he⟩ := List.mem_filterMap.mp h
    obtain ⟨p, i, hi, hoi⟩ := itemAt_of_mem_flat leafMod items [] o ho
    cases i <;> simp [leafMod] at hoi
    subst hoi
    simp only [DOp.ent, DOp.pre, Option.some.injEq, Prod.mk.injEq] at he
    obtain ⟨rfl, rfl⟩ := he
    exact .module hi
  · -- types
    obtain ⟨t, ht, he⟩ := List.mem_filterMap.mp h
    obtain ⟨p, i, hi, hoi⟩ := itemAt_of_mem_flat leafType items [] t ht
    cases i <;> simp [leafType] at hoi
    subst hoi
    split at he
    · simp only [Option.some.injEq, Prod.mk.injEq] at he
      obtain ⟨rfl, rfl⟩ := he
      exact .type hi
    · cases he
  · -- functions and methods
    obtain ⟨o, ho, he⟩ := List.mem_filterMap.mp h
    obtain ⟨p, i, hi, hoi⟩ := itemAt_of_mem_flat leafFn items [] o ho
    simp only [List.nil_append] at hoi
    cases i with
    | function n ps r tag =>
      simp only [leafFn, List.mem_singleton] at hoi
      subst hoi
      simp only [DOp.ent, DOp.pre] at he
      cases hp : fnPre lex (S2 lex st items) p n ps r tag false with
      | ok v =>
        obtain ⟨_, ps', r', h1, h2, rfl⟩ := fnPre_ok lex hp
        simp only [hp, Option.some.injEq, Prod.mk.injEq] at he
        obtain ⟨rfl, rfl⟩ := he
        simpa using Origin.function (lex := lex) hi h1 h2
      | err e => simp [hp] at he
      | panic s => simp [hp] at he
    | impl ty ch =>
      simp only [leafFn, List.mem_cons] at hoi
      rcases hoi with rfl | hoi
      · simp only [DOp.ent, DOp.pre] at he
        cases hs : implScope ty (S2 lex st items) <;> simp [hs] at he
      · obtain ⟨ci, hci, hoc⟩ := List.mem_flatMap.mp hoi
        cases ci with
        | function n ps r tag =>
          simp only [methodOp, List.mem_singleton] at hoc
          subst hoc
          simp only [DOp.ent, DOp.pre] at he
          cases hs : implScope ty (S2 lex st items) with
          | ok s =>
            obtain ⟨nm, hnm, rfl⟩ := implScope_ok w2 hs
            simp only [hs] at he
            cases hp : fnPre lex (S2 lex st items) (nm.scope ++ [nm.ident]) n ps r tag true with
            | ok v =>
              obtain ⟨_, ps', r', h1, h2, rfl⟩ := fnPre_ok lex hp
              simp only [hp, Option.some.injEq, Prod.mk.injEq] at he
              obtain ⟨rfl, rfl⟩ := he
              simpa [RName.path] using Origin.method (lex := lex) hi hci hnm h1 h2
            | err e => simp [hp] at he
            | panic s => simp [hp] at he
          | err e => simp [hs] at he
          | panic s => simp [hs] at he
        | impl _ _ => simp [methodOp] at hoc; subst hoc; simp [DOp.ent, DOp.pre] at he
        | type _ _ => simp [methodOp] at hoc; subst hoc; simp [DOp.ent, DOp.pre] at he
        | module _ _ => simp [methodOp] at hoc; subst hoc; simp [DOp.ent, DOp.pre] at he
        | use _ => simp [methodOp] at hoc
        | constant _ _ _ => simp [methodOp] at hoc
    | module _ _ => simp [leafFn] at hoi
    | type _ _ => simp [leafFn] at hoi
    | constant _ _ _ => simp [leafFn] at hoi
    | use _ => simp [leafFn] at hoi
  · -- constants
    obtain ⟨o, ho, he⟩ := List.mem_filterMap.mp h
    obtain ⟨p, i, hi, hoi⟩ := itemAt_of_mem_flat leafConst items [] o ho
    simp only [List.nil_append] at hoi
    cases i with
    | constant n ty tag =>
      simp only [leafConst, List.mem_singleton] at hoi
      subst hoi
      simp only [DOp.ent, DOp.pre] at he
      cases hp : constPre (S3 lex st items) p n ty tag with
      | ok v =>
        obtain ⟨ty', h1, rfl⟩ := constPre_ok hp
        simp only [hp, Option.some.injEq, Prod.mk.injEq] at he
        obtain ⟨rfl, rfl⟩ := he
        rw [convTy_types_congr t3] at h1
        exact .constant hi h1
      | err e => simp [hp] at he
      | panic s => simp [hp] at he
    | impl ty ch =>
      simp only [leafConst, List.mem_cons] at hoi
      rcases hoi with rfl | hoi
      · simp only [DOp.ent, DOp.pre] at he
        cases hs : implScope ty (S3 lex st items) <;> simp [hs] at he
      · obtain ⟨ci, hci, hoc⟩ := List.mem_flatMap.mp hoi
        cases ci with
        | constant n cty tag =>
          simp only [implConstOp, List.mem_singleton] at hoc
          subst hoc
          simp only [DOp.ent, DOp.pre] at he
          cases hs : implScope ty (S3 lex st items) with
          | ok s =>
            obtain ⟨nm, hnm, rfl⟩ := implScope_ok w3 hs
            simp only [hs] at he
            cases hp : constPre (S3 lex st items) (nm.scope ++ [nm.ident]) n cty tag with
            | ok v =>
              obtain ⟨ty', h1, rfl⟩ := constPre_ok hp
              simp only [hp, Option.some.injEq, Prod.mk.injEq] at he
              obtain ⟨rfl, rfl⟩ := he
              rw [convTy_types_congr t3] at h1
              rw [t3] at hnm
              simpa [RName.path] using Origin.implConstant (lex := lex) hi hci hnm h1
            | err e => simp [hp] at he
            | panic s => simp [hp] at he
          | err e => simp [hs] at he
          | panic s => simp [hs] at he
        | impl _ _ => simp [implConstOp] at hoc; subst hoc; simp [DOp.ent, DOp.pre] at he
        | module _ _ => simp [implConstOp] at hoc; subst hoc; simp [DOp.ent, DOp.pre] at he
        | type _ _ => simp [implConstOp] at hoc
        | use _ => simp [implConstOp] at hoc
        | function _ _ _ _ => simp [implConstOp] at hoc
    | module _ _ => simp [leafConst] at hoi
    | type _ _ => simp [leafConst] at hoi
    | function _ _ _ _ => simp [leafConst] at hoi
    | use _ => simp [leafConst] at hoi

/-- every import the library makes is one path of one of its `use` items:
    the last segment, bound to that name in the scope the other segments name -/
theorem imported_origin {st : St} (hw : WF st) (items : Items) (c : Checks lex st items)
    {n : Name} {tgt : RName} (h : (n, tgt) ∈ Imported lex st items) :
    ∃ u ∈ ops5 items, u.getLast? = some n ∧ tgt = ⟨u.dropLast, n⟩ := by
  obtain ⟨_, _, _, ⟨_, w4⟩, _⟩ := checks_stages lex hw items c
  obtain ⟨u, hu, he⟩ := List.mem_filterMap.mp h
  refine ⟨u, hu, ?_⟩
  unfold impEnt at he
  cases hl : u.getLast? with
  | none => simp [hl] at he
  | some last =>
    simp only [hl] at he
    cases hs : scopeAt (S4 lex st items) [] u.dropLast with
    | none => simp [hs] at he
    | some s =>
      simp only [hs, Option.some.injEq, Prod.mk.injEq] at he
      obtain ⟨rfl, rfl⟩ := he
      have := scopeAt_path w4 _ _ _ hs
      simp only [List.nil_append] at this
      subst this
      exact ⟨rfl, rfl⟩

end

end RotoV.Reg
