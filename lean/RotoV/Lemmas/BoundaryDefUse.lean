/-
C05 — lemmas for the definite-assignment check (`Model/BoundaryDefUse.lean`).
-/
import RotoV.Model.BoundaryDefUse

namespace RotoV.BoundaryDefUse

/-- the set of assigned variables after a list of instructions -/
def finalSet : List Ins → List Var → List Var
  | [], s => s
  | i :: rest, s => finalSet rest (match i.defs with | some d => d :: s | none => s)

theorem subset_iff {a b : List Var} : subset a b = true ↔ ∀ v ∈ a, v ∈ b := by
  simp only [subset, List.all_eq_true, List.contains_iff_mem]

theorem subset_refl (a : List Var) : subset a a = true := subset_iff.2 fun _ h => h

theorem subset_trans {a b c : List Var} (h1 : subset a b = true) (h2 : subset b c = true) : subset a c = true :=
  subset_iff.2 fun v hv => subset_iff.1 h2 v (subset_iff.1 h1 v hv)

theorem uses_mono {u a b : List Var} (h : subset a b = true) (hu : u.all a.contains = true) :
    u.all b.contains = true := by
  rw [List.all_eq_true] at hu ⊢
  intro v hv
  have := hu v hv
  rw [List.contains_iff_mem] at this ⊢
  exact subset_iff.1 h v this

theorem step_mono {a b : List Var} (h : subset a b = true) (d : Option Var) :
    subset (match d with | some d => d :: a | none => a) (match d with | some d => d :: b | none => b) = true := by
  cases d with
  | none => exact h
  | some d =>
    refine subset_iff.2 fun v hv => ?_
    rcases List.mem_cons.1 hv with rfl | hv
    · exact List.mem_cons_self
    · exact List.mem_cons_of_mem _ (subset_iff.1 h v hv)

theorem runBlock_eq {instrs : List Ins} {s out : List Var} (h : runBlock instrs s = some out) :
    out = finalSet instrs s := by
  induction instrs generalizing s with
  | nil => simp only [runBlock, Option.some.injEq] at h; exact h.symm
  | cons i rest ih =>
    simp only [runBlock] at h
    split at h
    · exact ih h
    · cases h

/-- a block that passes from its entry set never reads an unassigned variable
from any larger set, and ends with at least what the check computed -/
theorem runBlock_sound {instrs : List Ins} {s s' out : List Var} (h : runBlock instrs s = some out)
    (hs : subset s s' = true) (rest : List Ins) :
    noUnassignedRead (instrs ++ rest) s' = noUnassignedRead rest (finalSet instrs s') ∧
      subset out (finalSet instrs s') = true := by
  induction instrs generalizing s s' with
  | nil =>
    simp only [runBlock, Option.some.injEq] at h
    subst h
    exact ⟨rfl, hs⟩
  | cons i tl ih =>
    simp only [runBlock] at h
    split at h
    · rename_i hu
      have := ih h (step_mono hs i.defs)
      refine ⟨?_, this.2⟩
      simp only [List.cons_append, noUnassignedRead, finalSet, uses_mono hs hu, Bool.true_and]
      exact this.1
    · cases h

end RotoV.BoundaryDefUse
