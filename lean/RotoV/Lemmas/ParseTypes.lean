/-
  Specifications of `separated` and of the type functions of the parser model
  (`type_expr`, `type_expr_atom`, `record_type`, `record_field`, `params`,
  `type_parameters`), property C06.
-/
import RotoV.Lemmas.ParsePaths

namespace RotoV.Parse
open RotoV RotoV.Lex

theorem Post.weak {α : Type} {c : Ctx} {s1 : PState} {δ : Nat} {X : α → PState → Prop} {a : α} {s : PState}
    (h : Post c s1 δ X a s) : Post c s1 0 (fun _ _ => True) a s :=
  ⟨h.1, by have := h.2.1; omega, h.2.2.1, trivial⟩

/-- re-base a post-condition on an earlier entry state -/
theorem Post.rebase {α : Type} {c : Ctx} {s0 s1 : PState} {δ δ' : Nat} {X : α → PState → Prop} {a : α} {s : PState}
    (h : Post c s1 δ X a s) (hm : μ s1 + δ' ≤ μ s0 + δ) (hn : nsz s0 ≤ nsz s1) : Post c s0 δ' X a s :=
  ⟨h.1, by have := h.2.1; omega, by have := h.2.2.1; omega, h.2.2.2⟩

section
variable (T : LexOk) {c : Ctx}
include T

theorem sepLoop_spec (item : PState → PR Node) (close sep : TokKind) {s00 : PState} {F : Prop}
    (hitem : ∀ s1, InvB 2 c s1 → μ s1 + 1 ≤ μ s00 → SpecR c F (Post c s1 0 fun _ _ => True) (item s1))
    (m : Nat) {acc : List Sx} {s0 : PState} (h : InvB 2 c s0) (hle : μ s0 ≤ μ s00) :
    SpecR c (F ∨ m < μ s0 + 1) (Post c s0 0 fun _ _ => True) (sepLoop c item close sep m acc s0) := by
  induction m generalizing acc s0 with
  | zero => exact Or.inr (by omega)
  | succ m ih =>
    unfold sepLoop
    pb nextIs_spec T _ h
    intro b s1 ⟨hi1, hm1, hn1, hb1⟩
    cases b with
    | false => exact ⟨hi1, hm1, hn1, trivial⟩
    | true =>
      have := hb1 rfl
      simp only [if_true]
      pb peekIs_post T _ hi1
      intro b2 s2 ⟨hi2, hm2, hn2, _⟩
      cases b2 with
      | true => exact ⟨hi2, by omega, by omega, trivial⟩
      | false =>
        simp only [Bool.false_eq_true, if_false]
        refine SpecR.bind' (hitem s2 hi2 (by omega)) Or.inl ?_
        intro x s3 ⟨hi3, hm3, hn3, _⟩
        refine (ih hi3 (by omega)).mono ?_ ?_
        · intro hF
          rcases hF with hF | hF
          · exact Or.inl hF
          · exact Or.inr (by omega)
        · intro r s4 ⟨a1, a2, a3, _⟩
          exact ⟨a1, by omega, by omega, trivial⟩

theorem separated_spec (item : PState → PR Node) (opn close sep : TokKind) (m : Nat) {b : Nat} {s0 : PState}
    {F : Prop} (h : InvB b c s0) (hb : b ≤ 3)
    (hitem : ∀ s1, InvB 2 c s1 → μ s1 + 1 ≤ μ s0 → SpecR c F (Post c s1 0 fun _ _ => True) (item s1)) :
    SpecR c (F ∨ m < μ s0) (Post c s0 1 Vid) (separated c item opn close sep m s0) := by
  unfold separated
  pb take_spec T _ h hb
  intro start s1 ⟨hi1, hm1, hn1, hst⟩
  pb peekIs_post T _ hi1
  intro b1 s2 ⟨hi2, hm2, hn2, _⟩
  cases b1 with
  | true =>
    simp only [if_true]
    pb take_spec T _ hi2 (by omega)
    intro e s3 ⟨hi3, hm3, hn3, he⟩
    exact addNode_ok _ _ hi3 (spanOk_merge hst he) (by omega) (by omega)
  | false =>
    simp only [Bool.false_eq_true, if_false]
    refine SpecR.bind' (hitem s2 hi2 (by omega)) Or.inl ?_
    intro x s3 ⟨hi3, hm3, hn3, _⟩
    refine SpecR.bind' (sepLoop_spec T item close sep hitem m hi3 (by omega)) ?_ ?_
    · intro hF
      rcases hF with hF | hF
      · exact Or.inl hF
      · exact Or.inr (by omega)
    · intro acc s4 ⟨hi4, hm4, hn4, _⟩
      pb take_spec T _ hi4 (by omega)
      intro e s5 ⟨hi5, hm5, hn5, he⟩
      exact addNode_ok _ _ hi5 (spanOk_merge hst he) (by omega) (by omega)

/-- `type_expr` (rank 3), its `?` loop (1), `type_expr_atom` (2), `record_type` (1), `record_field` (1) -/
theorem type_group (n : Nat) :
    (∀ s0, InvB 2 c s0 → SpecR c (FB n 3 s0) (Post c s0 1 Vid) (typeExpr c n s0)) ∧
    (∀ t s0, InvB 2 c s0 → t.id < nsz s0 → SpecR c (FB n 1 s0) (Post c s0 0 Vid) (typeLoop c n t s0)) ∧
    (∀ s0, InvB 2 c s0 → SpecR c (FB n 2 s0) (Post c s0 1 Vid) (typeAtom c n s0)) ∧
    (∀ b s0, InvB b c s0 → b ≤ 3 → SpecR c (FB n 1 s0) (Post c s0 1 Vid) (recordType c n s0)) ∧
    (∀ s0, InvB 2 c s0 → SpecR c (FB n 1 s0) (Post c s0 1 Vid) (recordField c n s0)) := by
  induction n with
  | zero =>
    refine ⟨?_, ?_, ?_, ?_, ?_⟩ <;> intros <;>
      simp only [typeExpr, typeLoop, typeAtom, recordType, recordField, SpecR, FB] <;> omega
  | succ n ih =>
    obtain ⟨ih1, ih2, ih3, ih4, ih5⟩ := ih
    refine ⟨?_, ?_, ?_, ?_, ?_⟩
    · intro s0 h
      unfold typeExpr
      pb ih3 s0 h
      intro t s1 ⟨hi1, hm1, hn1, ht1⟩
      refine (ih2 t s1 hi1 ht1).mono (by intro hF; simp only [FB] at hF ⊢; omega) ?_
      intro r s2 hp
      exact hp.rebase (by omega) (by omega)
    · intro t s0 h ht
      unfold typeLoop
      pb peekIs_post T _ h
      intro b s1 ⟨hi1, hm1, hn1, hb1⟩
      cases b with
      | false => exact ⟨hi1, hm1, hn1, by show t.id < nsz s1; omega⟩
      | true =>
        simp only [if_true]
        obtain ⟨tsp, rest, hq⟩ := hb1 rfl
        obtain ⟨sp, hsp, hk⟩ := getSpan_k hi1 (show t.id < nsz s1 by omega)
        rw [hk]
        have htk := take_spec T (pu "QuestionMark") hi1 (by omega)
        rw [take_front hq] at htk ⊢
        obtain ⟨hi2, hm2, hn2, hsp2⟩ := htk
        dsimp only
        rw [addNode_k]
        refine (ih2 _ _ (hi2.add (spanOk_merge hsp hsp2)) (by simp)).mono
          (by intro hF; simp only [FB, μ_add] at hF ⊢; omega) ?_
        intro r s3 ⟨a1, a2, a3, a4⟩
        simp only [μ_add, nsz_add] at a2 a3
        exact ⟨a1, by omega, by omega, a4⟩
    · intro s0 h
      unfold typeAtom
      pb peekIs_post T _ h
      intro b s1 ⟨hi1, hm1, hn1, _⟩
      cases b with
      | true =>
        simp only [if_true]
        pb take_spec T _ hi1 (by omega)
        intro sp s2 ⟨hi2, hm2, hn2, hsp⟩
        exact addNode_ok _ _ hi2 hsp (by omega) (by omega)
      | false =>
        simp only [Bool.false_eq_true, if_false]
        pb peekIs_post T _ hi1
        intro b s2 ⟨hi2, hm2, hn2, _⟩
        cases b with
        | true =>
          simp only [if_true]
          pb take_spec T _ hi2 (by omega)
          intro l s3 ⟨hi3, hm3, hn3, hl⟩
          pb take_spec T _ hi3 (by omega)
          intro r s4 ⟨hi4, hm4, hn4, hr⟩
          exact addNode_ok _ _ hi4 (spanOk_merge hl hr) (by omega) (by omega)
        | false =>
          simp only [Bool.false_eq_true, if_false]
          pb peekIs_post T _ hi2
          intro b s3 ⟨hi3, hm3, hn3, _⟩
          cases b with
          | true =>
            simp only [if_true]
            pb ih4 2 s3 hi3 (by omega)
            intro rt s4 ⟨hi4, hm4, hn4, hrt⟩
            obtain ⟨sp, hsp, hk⟩ := getSpan_k hi4 hrt
            rw [hk]
            exact addNode_ok _ _ hi4 hsp (by omega) (by omega)
          | false =>
            simp only [Bool.false_eq_true, if_false]
            pb path_spec T n hi3
            intro p s4 ⟨hi4, hm4, hn4, hp⟩
            obtain ⟨psp, hpsp, hk⟩ := getSpan_k hi4 hp
            rw [hk]
            pb peekIs_post T _ hi4
            intro b s5 ⟨hi5, hm5, hn5, _⟩
            cases b with
            | true =>
              simp only [if_true]
              pb separated_spec T (typeExpr c n) _ _ _ n (F := FB (n + 1) 2 s0) hi5 (by omega)
                (fun s6 hi6 hm6 => (ih1 s6 hi6).mono (by intro hF; simp only [FB] at hF ⊢; omega)
                  fun _ _ hp => hp.weak)
              intro params s6 ⟨hi6, hm6, hn6, hps⟩
              obtain ⟨sp2, hsp2, hk2⟩ := getSpan_k hi6 hps
              rw [hk2]
              exact addNode_ok _ _ hi6 (spanOk_merge hpsp hsp2) (by omega) (by omega)
            | false =>
              simp only [Bool.false_eq_true, if_false]
              exact addNode_ok _ _ hi5 hpsp (by omega) (by omega)
    · intro b s0 h hb
      unfold recordType
      refine (separated_spec T (recordField c n) _ _ _ n (F := FB (n + 1) 1 s0) h hb
        (fun s1 hi1 hm1 => (ih5 s1 hi1).mono (by intro hF; simp only [FB] at hF ⊢; omega)
          fun _ _ hp => hp.weak)).mono (by intro hF; simp only [FB] at hF ⊢; omega) fun _ _ hp => hp
    · intro s0 h
      unfold recordField
      pb identifier_spec T h (by omega)
      intro _ s1 ⟨hi1, hm1, hn1, _⟩
      pb take_spec T _ hi1 (by omega)
      intro _ s2 ⟨hi2, hm2, hn2, _⟩
      refine (ih1 s2 hi2).mono (by intro hF; simp only [FB] at hF ⊢; omega) ?_
      intro r s3 hp
      exact hp.rebase (by omega) (by omega)

theorem typeExpr_spec (n : Nat) {s0 : PState} (h : InvB 2 c s0) :
    SpecR c (FB n 3 s0) (Post c s0 1 Vid) (typeExpr c n s0) := (type_group T n).1 s0 h

theorem recordType_spec (n : Nat) {b : Nat} {s0 : PState} (h : InvB b c s0) (hb : b ≤ 3) :
    SpecR c (FB n 1 s0) (Post c s0 1 Vid) (recordType c n s0) := (type_group T n).2.2.2.1 b s0 h hb

theorem recordField_spec (n : Nat) {s0 : PState} (h : InvB 2 c s0) :
    SpecR c (FB n 1 s0) (Post c s0 1 Vid) (recordField c n s0) := (type_group T n).2.2.2.2 s0 h

/-- a closure passed to `separated` by a method whose own fuel bound is `FB n 0 s0` -/
theorem item_of {item : PState → PR Node} {n r : Nat} {s0 : PState} (hr : r ≤ 31)
    (hspec : ∀ s1, InvB 2 c s1 → SpecR c (FB n r s1) (Post c s1 1 Vid) (item s1)) :
    ∀ s1, InvB 2 c s1 → μ s1 + 1 ≤ μ s0 → SpecR c (FB n 0 s0) (Post c s1 0 fun _ _ => True) (item s1) :=
  fun s1 hi1 hm1 => (hspec s1 hi1).mono (by intro hF; simp only [FB] at hF ⊢; omega) fun _ _ hp => hp.weak

theorem params_spec (n : Nat) {s0 : PState} (h : InvB 2 c s0) :
    SpecR c (FB n 0 s0) (Post c s0 1 Vid) (params c n s0) := by
  unfold params
  pb separated_spec T (recordField c n) _ _ _ n (F := FB n 0 s0) h (by omega)
    (item_of T (by omega) fun s1 hi1 => recordField_spec T n hi1)
  intro m s1 ⟨hi1, hm1, hn1, hv⟩
  exact ⟨hi1, hm1, hn1, hv⟩

theorem typeParameters_spec (n : Nat) {s0 : PState} (h : InvB 2 c s0) :
    SpecR c (FB n 0 s0) (Post c s0 0 fun _ _ => True) (typeParameters c n s0) := by
  unfold typeParameters
  pb peekIs_post T _ h
  intro b s1 ⟨hi1, hm1, hn1, _⟩
  cases b with
  | false => exact ⟨hi1, hm1, hn1, trivial⟩
  | true =>
    simp only [if_true]
    pb separated_spec T (identifier c) _ _ _ n (F := FB n 0 s0) hi1 (by omega)
      (fun s2 hi2 _ => (identifier_spec T hi2 (by omega)).mono False.elim fun _ _ hp => hp.weak)
    intro m s2 ⟨hi2, hm2, hn2, _⟩
    exact ⟨hi2, by omega, by omega, trivial⟩

end

end RotoV.Parse
