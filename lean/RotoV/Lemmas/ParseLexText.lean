/-
  What the parser may assume about the TEXT of a token the lexer model hands
  out (property C06): `simple_literal` slices it — `&s[1..s.len() - 1]` for a
  string / character literal, `&s[2..]` for a hexadecimal number and an AS
  number. `TextOk`: a string token starts and ends with `"` (so both cuts are on
  character boundaries and `len ≥ 2`), a character token with `'`, a hex token
  starts with `0x`, an AS number with `AS`. Proved for every token of
  `next_inner`, for ANY order of the recognisers; the one fact needed about the
  GENERATED keyword table is `KwKindsOk` (no keyword is given one of these four
  kinds), closed by `decide` in Props/C06Parse.
-/
import RotoV.Model.Parse
import RotoV.Lemmas.Lexer

namespace RotoV.Parse
open RotoV RotoV.Lex RotoV.Gen.LexTables

/-- the shape of a token's text `simple_literal` relies on -/
def TextOk (k : TokKind) (t : List Char) : Prop :=
  match k with
  | .string => ∃ m, t = '"' :: (m ++ ['"'])
  | .char => ∃ m, t = '\'' :: (m ++ ['\''])
  | .hex => ∃ m, t = '0' :: 'x' :: m
  | .asn => ∃ m, t = 'A' :: 'S' :: m
  | _ => True

/-- the same, as a decomposition of the lexer's input into token text and rest -/
def Shape (k : TokKind) (inp rest : List Char) : Prop := ∃ a, inp = a ++ rest ∧ TextOk k a

/-- the kinds whose text is sliced -/
def sliced (k : TokKind) : Bool :=
  match k with
  | .string | .char | .hex | .asn => true
  | _ => false

theorem TextOk.of_not_sliced {k : TokKind} (h : sliced k = false) (t : List Char) : TextOk k t := by
  cases k <;> simp_all [sliced, TextOk]

/-- obligation on the GENERATED keyword table: no entry has a sliced kind -/
def KwKindsOk : Prop := ∀ e ∈ keywords, sliced e.2 = false

/-! ## model-internal text lookup -/

theorem dropBytes_append (pre x : List Char) : dropBytes (blen pre) (pre ++ x) = x := by
  induction pre with
  | nil => cases x <;> rfl
  | cons c cs ih =>
    have h1 := sz_pos c
    have : blen (c :: cs) = (sz c + blen cs - 1) + 1 := by simp only [blen]; omega
    rw [this]
    simp only [List.cons_append, dropBytes]
    have : sz c + blen cs - 1 + 1 - sz c = blen cs := by omega
    rw [this]
    exact ih

theorem takeBytes_append (a rest : List Char) : takeBytes (blen a) (a ++ rest) = a := by
  induction a with
  | nil => cases rest <;> rfl
  | cons c cs ih =>
    have h1 := sz_pos c
    have : blen (c :: cs) = (sz c + blen cs - 1) + 1 := by simp only [blen]; omega
    rw [this]
    simp only [List.cons_append, takeBytes]
    have : sz c + blen cs - 1 + 1 - sz c = blen cs := by omega
    rw [this, ih]

/-- the text of the span of a token that was cut off the front of the lexer's input -/
theorem textOf_token {src : List Char} {L L' : Lexer} {a : List Char} {sp : Span}
    (h : Reach src L) (h' : Reach src L') (hin : L.input = a ++ L'.input)
    (h1 : sp.1 = L.pos) (h2 : L'.pos = sp.2) : textOf src sp = a := by
  obtain ⟨ho, pre, hp⟩ := h
  have hpos : L.pos = blen pre := Reach.pos_eq ⟨ho, pre, hp⟩ hp
  have hp' : src = (pre ++ a) ++ L'.input := by rw [hp, hin]; simp
  have hpos' : L'.pos = blen (pre ++ a) := Reach.pos_eq h' hp'
  rw [blen_append] at hpos'
  unfold textOf
  have e1 : sp.1 = blen pre := by omega
  have e2 : sp.2 - blen pre = blen a := by omega
  rw [e1, e2, hp, hin, dropBytes_append, takeBytes_append]

/-! ## the recognisers -/

theorem breakAt_kind {L L' : Lexer} {t : List Char} {kind k : TokKind} {sp : Span}
    (h : breakAt L t kind = .ok (some (k, sp, L'))) : k = kind := by
  unfold breakAt at h
  split at h
  · cases h
  · cases h; rfl

/-- `breakAt` at a suffix of the input: the new lexer stands at that suffix -/
theorem breakAt_input {src : List Char} {L L' : Lexer} (hr : Reach src L) {a t : List Char}
    (hin : L.input = a ++ t) {kind k : TokKind} {sp : Span}
    (h : breakAt L t kind = .ok (some (k, sp, L'))) : k = kind ∧ L'.input = t := by
  obtain ⟨sp0, L0, h0, _, _, _, _, _, hL0⟩ := breakAt_ok hr hin kind
  rw [h0] at h
  cases h
  exact ⟨rfl, hL0⟩

theorem eatUntilQuote_shape (q : Char) (b : Bool) (s : List Char) (h : eatUntilQuote q b s ≠ []) :
    ∃ m, s = m ++ q :: eatUntilQuote q b s := by
  induction s generalizing b with
  | nil => simp [eatUntilQuote] at h
  | cons c cs ih =>
    unfold eatUntilQuote at h ⊢
    split
    · rename_i hb
      rw [if_pos hb] at h
      obtain ⟨m, hm⟩ := ih false h
      exact ⟨c :: m, by rw [List.cons_append, ← hm]⟩
    · rename_i hb
      rw [if_neg hb] at h
      split
      · rename_i hq
        rw [if_pos hq] at h
        exact ⟨[], by rw [hq]; rfl⟩
      · rename_i hq
        rw [if_neg hq] at h
        split
        · rename_i hbs
          rw [if_pos hbs] at h
          obtain ⟨m, hm⟩ := ih true h
          exact ⟨c :: m, by rw [List.cons_append, ← hm]⟩
        · rename_i hbs
          rw [if_neg hbs] at h
          obtain ⟨m, hm⟩ := ih false h
          exact ⟨c :: m, by rw [List.cons_append, ← hm]⟩

theorem quoted_shape {src : List Char} {L L' : Lexer} (hr : Reach src L) (q : Char) (kind : TokKind)
    {k : TokKind} {sp : Span} (h : quoted q kind L = .ok (some (k, sp, L'))) :
    k = kind ∧ ∃ m, L.input = (q :: (m ++ [q])) ++ L'.input := by
  unfold quoted at h
  split at h
  · cases h
  · rename_i t1 h1
    dsimp only at h
    split at h
    · cases h
    · rename_i hne
      have hne' : eatUntilQuote q false t1 ≠ [] := by
        intro e; rw [e] at hne; exact hne rfl
      obtain ⟨m, hm⟩ := eatUntilQuote_shape q false t1 hne'
      have hin : L.input = (q :: (m ++ [q])) ++ eatUntilQuote q false t1 := by
        rw [eatChar_true h1]
        conv => lhs; rw [hm]
        simp
      obtain ⟨hk, hL⟩ := breakAt_input hr hin h
      exact ⟨hk, m, by rw [hL]; exact hin⟩

theorem hexNumber_shape {src : List Char} {L L' : Lexer} (hr : Reach src L)
    {k : TokKind} {sp : Span} (h : hexNumber L = .ok (some (k, sp, L'))) :
    k = .hex ∧ ∃ m, L.input = ('0' :: 'x' :: m) ++ L'.input := by
  unfold hexNumber at h
  split at h
  · cases h
  · rename_i t1 h1
    obtain ⟨m, hm⟩ := eatWhile_suffix isAsciiHexDigit t1
    have hin : L.input = ('0' :: 'x' :: m) ++ (eatWhile isAsciiHexDigit t1).2 := by
      rw [eatStr_true h1]
      conv => lhs; rw [hm]
      simp
    obtain ⟨hk, hL⟩ := breakAt_input hr hin h
    exact ⟨hk, m, by rw [hL]; exact hin⟩

theorem asNumber_shape {src : List Char} {L L' : Lexer} (hr : Reach src L)
    {k : TokKind} {sp : Span} (h : asNumber L = .ok (some (k, sp, L'))) :
    k = .asn ∧ ∃ m, L.input = ('A' :: 'S' :: m) ++ L'.input := by
  unfold asNumber at h
  split at h
  · cases h
  · rename_i t1 h1
    split at h
    · cases h
    · rename_i t2 h2
      have hs := eatWhile_suffix isAsciiDigit t1
      rw [h2] at hs
      obtain ⟨m, hm⟩ := hs
      have hin : L.input = ('A' :: 'S' :: m) ++ t2 := by
        rw [eatStr_true h1]
        conv => lhs; rw [hm]
        simp
      obtain ⟨hk, hL⟩ := breakAt_input hr hin h
      exact ⟨hk, m, by rw [hL]; exact hin⟩

/-- recognisers that never produce a sliced kind -/
theorem ipv6_kind {L L' : Lexer} {k : TokKind} {sp : Span} (h : ipv6 L = .ok (some (k, sp, L'))) :
    k = .ipv6 := by
  unfold ipv6 at h; dsimp only at h
  split at h
  · cases h
  · split at h
    · cases h
    · exact breakAt_kind h

theorem ipv4_kind {L L' : Lexer} {k : TokKind} {sp : Span} (h : ipv4 L = .ok (some (k, sp, L'))) :
    k = .ipv4 := by
  unfold ipv4 at h
  split at h
  · cases h
  · split at h
    · cases h
    · split at h
      · cases h
      · exact breakAt_kind h

theorem fString_kind {L L' : Lexer} {k : TokKind} {sp : Span} (h : Lex.fString L = .ok (some (k, sp, L'))) :
    k = .fStringStart := by
  unfold Lex.fString at h
  split at h
  · cases h
  · exact breakAt_kind h

theorem twoChar_kind {L L' : Lexer} {k : TokKind} {sp : Span}
    (h : twoCharPunctuation L = .ok (some (k, sp, L'))) : ∃ n, k = .punct n := by
  unfold twoCharPunctuation at h
  split at h
  · split at h
    · cases h
    · split at h
      · cases h
      · cases h; exact ⟨_, rfl⟩
  · cases h

theorem oneChar_kind {L L' : Lexer} {k : TokKind} {sp : Span}
    (h : oneCharPunctuation L = .ok (some (k, sp, L'))) : ∃ n, k = .punct n := by
  unfold oneCharPunctuation at h
  split at h
  · split at h
    · cases h
    · split at h
      · cases h
      · cases h; exact ⟨_, rfl⟩
  · cases h

theorem number_kind {P : Preds} {L L' : Lexer} {k : TokKind} {sp : Span}
    (h : number P L = .ok (some (k, sp, L'))) : sliced k = false := by
  unfold number at h
  split at h
  · cases h
  · dsimp only at h
    split at h
    · cases h
    · split at h
      · cases h
      · split at h
        · cases h
        · cases h
          split <;> rfl

theorem keywordOrIdent_kind (K : KwKindsOk) {P : Preds} {L L' : Lexer} {k : TokKind} {sp : Span}
    (h : keywordOrIdent P L = .ok (some (k, sp, L'))) : sliced k = false := by
  unfold keywordOrIdent at h
  split at h
  · cases h
  · split at h
    · cases h
    · split at h
      · cases h
      · split at h
        · cases h
        · cases h
          split
          · rename_i e he
            exact K e (List.mem_of_find?_eq_some he)
          · rfl

/-- every recogniser: the token text has the shape its kind promises -/
theorem runRecogniser_shape (K : KwKindsOk) {src : List Char} {L L' : Lexer} (hr : Reach src L) (P : Preds)
    (T : TablesOk) (r : Recogniser) {k : TokKind} {sp : Span}
    (h : runRecogniser P r L = .ok (some (k, sp, L'))) : Shape k L.input L'.input := by
  -- the decomposition of the input exists for every recogniser (`StepOk`); its shape by cases
  have hstep := runRecogniser_ok hr P T r
  rw [h] at hstep
  rcases hstep with hc | ⟨k0, sp0, L0, he, h1, _, h3, hr', _⟩
  · cases hc
  · cases he
    -- the consumed text: `L.input = a ++ L'.input` because both are suffixes of `src` at `sp.1 ≤ sp.2`
    have hns : ∀ {k}, sliced k = false → ∀ a, L.input = a ++ L'.input → Shape k L.input L'.input :=
      fun hk a ha => ⟨a, ha, TextOk.of_not_sliced hk a⟩
    have hdec : ∃ a, L.input = a ++ L'.input := by
      obtain ⟨ho, pre, hp⟩ := hr
      obtain ⟨ho', pre', hp'⟩ := hr'
      have e1 : L.pos = blen pre := Reach.pos_eq ⟨ho, pre, hp⟩ hp
      have e2 : L'.pos = blen pre' := Reach.pos_eq ⟨ho', pre', hp'⟩ hp'
      obtain ⟨m, hm⟩ := prefix_of_blen_le (hp.symm.trans hp') (by omega)
      refine ⟨m, ?_⟩
      have : pre ++ L.input = pre ++ (m ++ L'.input) := by rw [← hp, hp', hm]; simp
      exact List.append_cancel_left this
    obtain ⟨a, ha⟩ := hdec
    cases r <;> simp only [runRecogniser] at h
    · exact hns (by rw [ipv6_kind h]; rfl) a ha
    · exact hns (by rw [ipv4_kind h]; rfl) a ha
    · obtain ⟨n, hn⟩ := twoChar_kind h; exact hns (by rw [hn]; rfl) a ha
    · obtain ⟨n, hn⟩ := oneChar_kind h; exact hns (by rw [hn]; rfl) a ha
    · obtain ⟨hk, m, hm⟩ := asNumber_shape ⟨hr.1, hr.2⟩ h
      exact ⟨_, hm, by rw [hk]; exact ⟨m, rfl⟩⟩
    · obtain ⟨hk, m, hm⟩ := hexNumber_shape ⟨hr.1, hr.2⟩ h
      exact ⟨_, hm, by rw [hk]; exact ⟨m, rfl⟩⟩
    · exact hns (number_kind h) a ha
    · exact hns (by rw [fString_kind h]; rfl) a ha
    · obtain ⟨hk, m, hm⟩ := quoted_shape ⟨hr.1, hr.2⟩ _ _ h
      exact ⟨_, hm, by rw [hk]; exact ⟨m, rfl⟩⟩
    · obtain ⟨hk, m, hm⟩ := quoted_shape ⟨hr.1, hr.2⟩ _ _ h
      exact ⟨_, hm, by rw [hk]; exact ⟨m, rfl⟩⟩
    · exact hns (keywordOrIdent_kind K h) a ha

theorem tryAll_shape (K : KwKindsOk) {src : List Char} {L L' : Lexer} (hr : Reach src L) (P : Preds)
    (T : TablesOk) (rs : List Recogniser) {k : TokKind} {sp : Span}
    (h : tryAll P rs L = .ok (some (k, sp, L'))) : Shape k L.input L'.input := by
  induction rs with
  | nil => cases h
  | cons r rs ih =>
    simp only [tryAll] at h
    split at h
    · cases h
    · rename_i x hx
      cases h
      exact runRecogniser_shape K hr P T r hx
    · exact ih h

/-- every token of `next_inner`: the text its span designates has the shape of its kind -/
theorem nextInner_text (K : KwKindsOk) (P : Preds) (T : TablesOk) {src : List Char} {L L' : Lexer}
    (hr : Reach src L) {k : TokKind} {sp : Span} (h : nextInner P L = .ok (.tok k sp, L')) :
    TextOk k (textOf src sp) := by
  obtain ⟨L1, hw, hr1, _⟩ := skipWhitespace_ok hr P
  have hnt : nextToken P L =
      (if L1.input.isEmpty then .ok (none, L1)
       else match tryAll P recognisers L1 with
        | .panic => .panic
        | .ok none => .ok (none, L1)
        | .ok (some x) => .ok (some (x.1, x.2.1), x.2.2)) := by
    unfold nextToken; rw [hw]; rfl
  unfold nextInner at h
  rw [hnt] at h
  have noTok : ∀ (L2 : Lexer), (match L2.input with
      | [] => (Res.ok (Item.eof, L2) : Res (Item × Lexer))
      | c :: _ =>
        match usub L2.origLen (blen L2.input) with
        | .panic => .panic
        | .ok start => .ok (.invalid (start, start + sz c), L2)) = .ok (.tok k sp, L') → False := by
    intro L2 h2
    split at h2
    · cases h2
    · split at h2 <;> cases h2
  by_cases he : L1.input.isEmpty = true
  · rw [if_pos he] at h
    exact (noTok L1 h).elim
  · rw [if_neg he] at h
    have hstep := tryAll_ok hr1 P T recognisers
    cases htry : tryAll P recognisers L1 with
    | panic => rw [htry] at h; cases h
    | ok r =>
      rw [htry] at h
      cases r with
      | none => exact (noTok L1 h).elim
      | some x =>
        obtain ⟨k0, sp0, L0⟩ := x
        dsimp only at h
        cases h
        rw [htry] at hstep
        rcases hstep with hc | ⟨k1, sp1, L2, he', h1, _, h3, hr', _⟩
        · cases hc
        · cases he'
          obtain ⟨a, ha, hta⟩ := tryAll_shape K hr1 P T recognisers htry
          rw [textOf_token hr1 hr' ha h1 h3]
          exact hta

end RotoV.Parse
