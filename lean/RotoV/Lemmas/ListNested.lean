/-
  ListNested: nested lists seen through the flat model. An element of a
  `List<List<T>>` is an `ErasedList` handle, i.e. exactly what a handle variable
  of the model is: clone / drop of the element are `cloneH` / `dropH`, and the
  element-wise `==` that `contains`, `index` and `==` of the outer list run is
  the model's `.eq` on two variables (typed `List<T>::eq` from the Rust API,
  `ErasedList::eq` from scripts). The loops below are those of
  `RawList::contains` / `RawList::index` / slice equality over the element
  handles; they are proved to terminate without dead-lock in every state
  satisfying the store invariant — for elements that alias each other, alias
  the searched item, or are distinct lists — and to compute the comparison by
  contents. (The outer list's own buffer is a flat list of handles and is
  covered by the flat theorems; its lock is a different mutex from every
  element's.)
-/
import RotoV.Lemmas.ListRefine

namespace RotoV.ListM
open RotoV

/-- `==` of two bound variables: list equality, store unchanged -/
theorem step_eq_ok {sz : Nat} {s : St} (inv : Inv sz s) {a b x y : Nat} {lx ly : RawList} (typed : Bool)
    (hsa : s.slots[a]? = some (some x)) (hsb : s.slots[b]? = some (some y))
    (hx : s.getAlloc x = some lx) (hy : s.getAlloc y = some ly)
    (hp : ∀ e ∈ lx.elems, e < f64Base) :
    step sz s (.eq a b typed) = (.bool (decide (lx.elems = ly.elems)), s) := by
  have hans : (if x = y then true else listEq lx.elems ly.elems) = decide (lx.elems = ly.elems) := by
    by_cases hxy : x = y
    · subst hxy
      rw [hx] at hy; injection hy with hy; subst hy
      simp
    · rw [if_neg hxy, listEq_plain hp]
  have : stepE sz s (.eq a b typed) = .ok (.bool (decide (lx.elems = ly.elems)), s) := by
    rw [← hans]
    simp only [stepE, slot_ok hsa, slot_ok hsb]
    cases typed with
    | true => simp only [if_true]; exact typedEq_ok inv hx hy
    | false => simp only [Bool.false_eq_true, if_false]; exact erasedEq_ok inv hx hy
  simp only [step, this]

/-- the inner lists hold plain values (integers, ids): their `==` is equality of the contents -/
def PlainLists (cs : List (List Nat)) : Prop := ∀ c ∈ cs, ∀ e ∈ c, e < f64Base

/-- the contents a variable shows -/
def St.contents (s : St) (h : Nat) : Option (List Nat) :=
  match s.slots[h]? with
  | some (some a) => (s.getAlloc a).map (·.elems)
  | _ => none

theorem contents_some {sz : Nat} {s : St} (inv : Inv sz s) {h : Nat} {xs : List Nat}
    (hc : s.contents h = some xs) :
    ∃ a l, s.slots[h]? = some (some a) ∧ s.getAlloc a = some l ∧ l.elems = xs := by
  unfold St.contents at hc
  split at hc
  · rename_i a heq
    have ⟨l, hl⟩ := inv.slot h a heq
    rw [hl] at hc
    simp only [Option.map] at hc
    injection hc with hc
    exact ⟨a, l, heq, hl, hc⟩
  · cases hc

/-- the loop of `contains` over element handles `elems`, comparing each with the
    handle `item` by the implementation's `==` -/
def containsN (sz : Nat) (typed : Bool) : St → List Nat → Nat → Out × St
  | s, [], _ => (.bool false, s)
  | s, k :: ks, item =>
    match step sz s (.eq k item typed) with
    | (.bool true, s1) => (.bool true, s1)
    | (.bool false, s1) => containsN sz typed s1 ks item
    | r => r

/-- the loop of `index` -/
def indexN (sz : Nat) (typed : Bool) : St → List Nat → Nat → Nat → Out × St
  | s, [], _, _ => (.opt none, s)
  | s, k :: ks, item, i =>
    match step sz s (.eq k item typed) with
    | (.bool true, s1) => (.opt (some i), s1)
    | (.bool false, s1) => indexN sz typed s1 ks item (i + 1)
    | r => r

/-- `==` of two nested lists: lengths, then element-wise `==` -/
def eqN (sz : Nat) (typed : Bool) : St → List Nat → List Nat → Out × St
  | s, [], [] => (.bool true, s)
  | s, k :: ks, j :: js =>
    match step sz s (.eq k j typed) with
    | (.bool true, s1) => eqN sz typed s1 ks js
    | r => r
  | s, _, _ => (.bool false, s)

/-- every element handle is bound: its contents -/
def allContents (s : St) : List Nat → Option (List (List Nat))
  | [] => some []
  | k :: ks =>
    match s.contents k, allContents s ks with
    | some c, some cs => some (c :: cs)
    | _, _ => none

theorem containsN_ok {sz : Nat} {s : St} (inv : Inv sz s) (typed : Bool) (item : Nat) {ci : List Nat}
    (hi : s.contents item = some ci) :
    ∀ (elems : List Nat) (cs : List (List Nat)), allContents s elems = some cs → PlainLists cs →
      containsN sz typed s elems item = (.bool (cs.contains ci), s)
  | [], cs, h, _ => by
    simp [allContents] at h; subst h; simp [containsN]
  | k :: ks, cs, h, hpl => by
    simp only [allContents] at h
    cases hk : s.contents k with
    | none => simp [hk] at h
    | some c =>
      cases hks : allContents s ks with
      | none => simp [hk, hks] at h
      | some cs' =>
        simp [hk, hks] at h
        subst h
        obtain ⟨x, lx, hsa, hx, ex⟩ := contents_some inv hk
        obtain ⟨y, ly, hsb, hy, ey⟩ := contents_some inv hi
        have he := step_eq_ok inv typed hsa hsb hx hy (by rw [ex]; exact hpl c (by simp))
        unfold containsN
        rw [he, ex, ey]
        by_cases hc : c = ci
        · subst hc; simp
        · have hne : (c == ci) = false := by simp [hc]
          have hne' : (ci == c) = false := by simp [Ne.symm hc]
          simp only [hc, decide_false]
          rw [containsN_ok inv typed item hi ks cs' hks (fun d hd => hpl d (by simp [hd]))]
          congr 1
          rw [List.contains_cons, hne', Bool.false_or]

theorem eqN_ok {sz : Nat} {s : St} (inv : Inv sz s) (typed : Bool) :
    ∀ (as bs : List Nat) (ca cb : List (List Nat)), allContents s as = some ca → allContents s bs = some cb →
      PlainLists ca → eqN sz typed s as bs = (.bool (decide (ca = cb)), s)
  | [], [], ca, cb, h1, h2, _ => by
    simp [allContents] at h1 h2; subst h1 h2; simp [eqN]
  | [], j :: js, ca, cb, h1, h2, _ => by
    simp only [allContents] at h1 h2
    injection h1 with h1; subst h1
    cases hj : s.contents j <;> cases hjs : allContents s js <;> simp [hj, hjs] at h2
    subst h2
    simp [eqN]
  | k :: ks, [], ca, cb, h1, h2, _ => by
    simp only [allContents] at h1 h2
    injection h2 with h2; subst h2
    cases hk : s.contents k <;> cases hks : allContents s ks <;> simp [hk, hks] at h1
    subst h1
    simp [eqN]
  | k :: ks, j :: js, ca, cb, h1, h2, hpl => by
    simp only [allContents] at h1 h2
    cases hk : s.contents k with
    | none => simp [hk] at h1
    | some c =>
      cases hks : allContents s ks with
      | none => simp [hk, hks] at h1
      | some cs =>
        cases hj : s.contents j with
        | none => simp [hj] at h2
        | some d =>
          cases hjs : allContents s js with
          | none => simp [hj, hjs] at h2
          | some ds =>
            simp [hk, hks] at h1
            simp [hj, hjs] at h2
            subst h1 h2
            obtain ⟨x, lx, hsa, hx, ex⟩ := contents_some inv hk
            obtain ⟨y, ly, hsb, hy, ey⟩ := contents_some inv hj
            have he := step_eq_ok inv typed hsa hsb hx hy (by rw [ex]; exact hpl c (by simp))
            unfold eqN
            rw [he, ex, ey]
            by_cases hc : c = d
            · subst hc
              simp only [decide_true]
              rw [eqN_ok inv typed ks js cs ds hks hjs (fun d hd => hpl d (by simp [hd]))]
              simp
            · simp [hc]

/-- first position of a list among lists -/
def firstIdxL (c : List Nat) : List (List Nat) → Nat → Option Nat
  | [], _ => none
  | x :: xs, i => if x = c then some i else firstIdxL c xs (i + 1)

theorem indexN_ok {sz : Nat} {s : St} (inv : Inv sz s) (typed : Bool) (item : Nat) {ci : List Nat}
    (hi : s.contents item = some ci) :
    ∀ (elems : List Nat) (cs : List (List Nat)) (i : Nat), allContents s elems = some cs → PlainLists cs →
      indexN sz typed s elems item i = (.opt (firstIdxL ci cs i), s)
  | [], cs, i, h, _ => by
    simp [allContents] at h; subst h; simp [indexN, firstIdxL]
  | k :: ks, cs, i, h, hpl => by
    simp only [allContents] at h
    cases hk : s.contents k with
    | none => simp [hk] at h
    | some c =>
      cases hks : allContents s ks with
      | none => simp [hk, hks] at h
      | some cs' =>
        simp [hk, hks] at h
        subst h
        obtain ⟨x, lx, hsa, hx, ex⟩ := contents_some inv hk
        obtain ⟨y, ly, hsb, hy, ey⟩ := contents_some inv hi
        have he := step_eq_ok inv typed hsa hsb hx hy (by rw [ex]; exact hpl c (by simp))
        unfold indexN
        rw [he, ex, ey]
        by_cases hc : c = ci
        · subst hc; simp [firstIdxL]
        · simp only [hc, decide_false]
          rw [indexN_ok inv typed item hi ks cs' (i + 1) hks (fun d hd => hpl d (by simp [hd]))]
          simp [firstIdxL, hc]

end RotoV.ListM
