/-
  Lemmas for C11, part 3: the keep-alive collection of registered functions
  (Model/LifetimeKeep.lean) and histories with further registered functions.
-/
import RotoV.Model.LifetimeKeep
import RotoV.Lemmas.LifetimeOps

namespace RotoV.Lifetime

theorem foldl_keepInsert_perArc (called acc : List Sib) :
    called.foldl (keepInsert .perArc) acc = acc ++ called := by
  induction called generalizing acc with
  | nil => simp
  | cons f fs ih => simp [List.foldl, keepInsert, ih, List.append_assoc]

/-- a `Vec` that is pushed to holds exactly what was handed to it -/
theorem keep_perArc (called : List Sib) : keep .perArc called = called := by
  simp [keep, foldl_keepInsert_perArc]

/-- keyed by the Rust type: of two functions made by one closure expression only the first is held -/
theorem keep_perRustType_loses :
    ∃ (called : List Sib) (f : Sib), f ∈ called ∧ f ∉ keep .perRustType called :=
  ⟨[⟨0, 0, 0⟩, ⟨0, 1, 0⟩], ⟨0, 1, 0⟩, by decide⟩

/-- the collection holds every called function, for every set of called functions, exactly when it
    has one entry per `Arc` -/
theorem keep_holds_called_iff (key : KeepKey) :
    (∀ (called : List Sib) (f : Sib), f ∈ called → f ∈ keep key called) ↔ key = .perArc := by
  constructor
  · intro h
    cases key with
    | perArc => rfl
    | perRustType =>
      obtain ⟨called, f, hm, hn⟩ := keep_perRustType_loses
      exact absurd (h called f hm) hn
  · rintro rfl called f hf
    rw [keep_perArc]; exact hf

/-- the invariant of histories with further registered functions: the main state satisfies the
    lifetime invariant, and every compiled version's collection is what `keep` made of its calls -/
structure KInv (F : Facts) (p : St × KeepSt) : Prop where
  main : Inv p.1
  kept : ∀ m ∈ p.2.mods, m.kept = keep F.fnsKeep m.called

theorem kinv_init (F : Facts) : KInv F ({}, {}) :=
  ⟨inv_init, by intro m hm; simp at hm⟩

theorem kstepV_kinv {F : Facts} (hG : Good F) {p : St × KeepSt} (hI : KInv F p) (op : KOp) :
    KInv F (kstepV F p op) := by
  unfold kstepV
  split
  · rename_i hv
    cases op with
    | regSibs r => exact ⟨hI.main, hI.kept⟩
    | main o called =>
      have hvo : valid p.1 o = true := by
        simp only [kvalid, Bool.and_eq_true] at hv
        exact hv.1
      refine ⟨step_inv hG hI.main o hvo, ?_⟩
      simp only [kstep]
      cases o <;> try exact hI.kept
      intro m hm
      rcases List.mem_cons.1 hm with h | h
      · subst h; rfl
      · exact hI.kept m h
  · exact hI

theorem kinv_run {F : Facts} (hG : Good F) (ops : List KOp) : KInv F (krun F ops) := by
  unfold krun
  suffices h : ∀ (p : St × KeepSt), KInv F p → KInv F (ops.foldl (kstepV F) p) from h _ (kinv_init F)
  induction ops with
  | nil => intro p hp; exact hp
  | cons op rest ih => intro p hp; exact ih _ (kstepV_kinv hG hp op)

/-- under admissible facts, a version whose module is still allocated reaches the state of every
    further function its script calls -/
theorem sibCallOk_of_alive {F : Facts} (hG : Good F) {p : St × KeepSt} (hI : KInv F p) (k : Nat)
    (hk : k ∈ p.1.alive) : sibCallOk p.1 p.2 k = true := by
  simp only [sibCallOk, List.all_eq_true, Bool.or_eq_true, bne_iff_ne, ne_eq]
  intro m hm
  by_cases hmk : m.k = k
  · right
    intro f hf
    simp only [sibLive, Bool.or_eq_true, List.any_eq_true, Bool.and_eq_true]
    right
    refine ⟨m, hm, ?_, ?_⟩
    · rw [hmk]; simpa using hk
    · rw [hI.kept m hm, hG.keep, keep_perArc]; simpa using hf
  · left; exact hmk

end RotoV.Lifetime
