/-
  Lemmas for the simulation between the order specification (`TraceSpec`) and
  the structured lowering model (`LowerS`).
-/
import RotoV.Lemmas.TraceSpec
import RotoV.Model.LowerS

namespace RotoV.LowerS
open RotoV.TraceSpec

/-! ### inversion of `R.bind` -/

theorem bind_ok_iff {α β} {r : R α} {f : α → R β} {t : Trace} {b : β} :
    R.bind r f = ⟨t, .ok b⟩ ↔ ∃ t1 a t2, r = ⟨t1, .ok a⟩ ∧ f a = ⟨t2, .ok b⟩ ∧ t = t1 ++ t2 := by
  obtain ⟨rt, ro⟩ := r
  constructor
  · intro h
    cases ro with
    | ok a =>
      simp only [R.bind] at h
      refine ⟨rt, a, (f a).tr, rfl, ?_, ?_⟩
      · cases hf : f a; simp_all
      · simp_all
    | ret v => simp [R.bind] at h
    | fuel => simp [R.bind] at h
    | stuck w => simp [R.bind] at h
  · rintro ⟨t1, a, t2, h1, h2, h3⟩
    cases h1
    simp [R.bind, h2, h3]

theorem bind_ret_iff {α β} {r : R α} {f : α → R β} {t : Trace} {v : Val} :
    R.bind r f = ⟨t, .ret v⟩ ↔
      r = ⟨t, .ret v⟩ ∨ ∃ t1 a t2, r = ⟨t1, .ok a⟩ ∧ f a = ⟨t2, .ret v⟩ ∧ t = t1 ++ t2 := by
  obtain ⟨rt, ro⟩ := r
  constructor
  · intro h
    cases ro with
    | ok a =>
      simp only [R.bind] at h
      refine Or.inr ⟨rt, a, (f a).tr, rfl, ?_, ?_⟩
      · cases hf : f a; simp_all
      · simp_all
    | ret w => simp [R.bind] at h; left; simp [h]
    | fuel => simp [R.bind] at h
    | stuck w => simp [R.bind] at h
  · rintro (h | ⟨t1, a, t2, h1, h2, h3⟩)
    · cases h; simp [R.bind]
    · cases h1
      simp [R.bind, h2, h3]

/-! ### stores and environments -/

/-- The store agrees with the environment on every visible source variable. -/
def Agree (env : Env) (σ : Store) : Prop := ∀ x v, lookup env x = some v → σ (.x x) = v

/-- Temporaries below `c` are untouched. -/
def Frame (c : Nat) (σ σ' : Store) : Prop := ∀ k, k < c → σ' (.t k) = σ (.t k)

theorem Frame.refl (c : Nat) (σ : Store) : Frame c σ σ := fun _ _ => rfl

theorem Frame.trans {c c1 : Nat} {σ σ1 σ2 : Store} (h1 : Frame c σ σ1) (h2 : Frame c1 σ1 σ2) (hc : c ≤ c1) :
    Frame c σ σ2 := fun k hk => by rw [h2 k (Nat.lt_of_lt_of_le hk hc), h1 k hk]

theorem Frame.mono {c c1 : Nat} {σ σ1 : Store} (h : Frame c1 σ σ1) (hc : c ≤ c1) : Frame c σ σ1 :=
  fun k hk => h k (Nat.lt_of_lt_of_le hk hc)

@[simp] theorem set_same (σ : Store) (x : Var) (v : Val) : (σ.set x v) x = v := by simp [Store.set]

theorem set_other (σ : Store) {x y : Var} (v : Val) (h : y ≠ x) : (σ.set x v) y = σ y := by simp [Store.set, h]

theorem Frame.set_tmp {c k : Nat} (σ : Store) (v : Val) (hk : c ≤ k) : Frame c σ (σ.set (.t k) v) := by
  intro j hj
  apply set_other
  intro h; cases h; omega

theorem Frame.set_x (c : Nat) (σ : Store) (x : Nat) (v : Val) : Frame c σ (σ.set (.x x) v) := by
  intro j _
  apply set_other
  intro h; cases h

theorem Agree.set_tmp {env : Env} {σ : Store} (h : Agree env σ) (k : Nat) (v : Val) : Agree env (σ.set (.t k) v) := by
  intro x w hx
  rw [set_other _ _ (by intro h; cases h)]
  exact h x w hx

theorem Agree.cons {env : Env} {σ : Store} (h : Agree env σ) (x : Nat) (v : Val) :
    Agree ((x, v) :: env) (σ.set (.x x) v) := by
  intro y w hy
  simp only [lookup] at hy
  by_cases hxy : y = x
  · subst hxy; simp at hy; simp [hy]
  · simp [hxy] at hy
    rw [set_other _ _ (by intro h; cases h; exact hxy rfl)]
    exact h y w hy

theorem lookup_update {env env' : Env} {x : Nat} {v : Val} (hu : update env x v = some env') (y : Nat) :
    lookup env' y = if y = x then some v else lookup env y := by
  induction env generalizing env' with
  | nil => simp [update] at hu
  | cons p rest ih =>
    obtain ⟨z, w⟩ := p
    simp only [update] at hu
    by_cases hxz : x = z
    · subst hxz
      simp at hu; subst hu
      by_cases hy : y = x <;> simp [lookup, hy]
    · simp [hxz] at hu
      obtain ⟨r', hr, rfl⟩ := hu
      have := ih hr
      by_cases hy : y = z
      · subst hy
        have : y ≠ x := fun h => hxz h.symm
        simp [lookup, this]
      · simp [lookup, hy, this]

theorem Agree.update {env env' : Env} {σ : Store} (h : Agree env σ) {x : Nat} {v : Val}
    (hu : TraceSpec.update env x v = some env') : Agree env' (σ.set (.x x) v) := by
  intro y w hy
  rw [lookup_update hu] at hy
  by_cases hyx : y = x
  · subst hyx; simp at hy; simp [hy]
  · simp [hyx] at hy
    rw [set_other _ _ (by intro h; cases h; exact hyx rfl)]
    exact h y w hy

theorem lookup_leave {outer env' : Env} {x : Nat} {v : Val} (h : lookup (leave outer env') x = some v) :
    lookup env' x = some v := by
  induction outer with
  | nil => simp [leave, lookup] at h
  | cons p rest ih =>
    obtain ⟨y, w⟩ := p
    simp only [leave, List.filterMap_cons] at h
    cases hl : lookup env' y with
    | none =>
      simp [hl] at h
      exact ih h
    | some u =>
      simp only [hl, Option.map_some, lookup] at h
      by_cases hxy : x = y
      · subst hxy; simp at h; rw [hl, h]
      · simp [hxy] at h
        exact ih h

theorem Agree.leave {outer env' : Env} {σ : Store} (h : Agree env' σ) : Agree (leave outer env') σ :=
  fun x v hx => h x v (lookup_leave hx)

/-! ### execution of sequences -/

theorem ExecC.append_ret {P : Prog} {σ : Store} {c1 : Code} {t : Trace} {v : Val} (c2 : Code)
    (h : ExecC P σ c1 t (.returned v)) : ExecC P σ (c1 ++ c2) t (.returned v) := by
  induction c1 generalizing σ t with
  | nil => cases h
  | cons s rest ih =>
    cases h with
    | consRet hs => exact .consRet hs
    | cons hs hr => exact .cons hs (ih hr)

theorem ExecC.append {P : Prog} {σ σ1 : Store} {c1 c2 : Code} {t1 t2 : Trace} {o : Outcome}
    (h1 : ExecC P σ c1 t1 (.normal σ1)) (h2 : ExecC P σ1 c2 t2 o) : ExecC P σ (c1 ++ c2) (t1 ++ t2) o := by
  induction c1 generalizing σ t1 with
  | nil => cases h1; simpa using h2
  | cons s rest ih =>
    cases h1 with
    | cons hs hr =>
      rw [List.append_assoc]
      exact .cons hs (ih hr)

theorem ExecC.single {P : Prog} {σ : Store} {s : Stm} {t : Trace} {o : Outcome} (h : ExecS P σ s t o) : ExecC P σ [s] t o := by
  cases o with
  | normal σ1 => simpa using ExecC.cons h ExecC.nil
  | returned v => exact .consRet h

theorem ExecC.assign1 {P : Prog} {σ : Store} {x : Var} {v : Value} {t : Trace} {val : Val}
    (h : EvalV P σ v t val) : ExecC P σ [.assign x v] t (.normal (σ.set x val)) :=
  ExecC.single (.assign h)

/-! ### static facts about the lowering: the counter only grows, `Move`s name temporaries below it -/

/-- `e.f` for an `e` that is not a plain variable: `access`. -/
theorem lowerE_field_nonvar (e : Expr) (i c : Nat) (h : ∀ x, e ≠ .var x) :
    lowerE (.field e i) c = (lowerE e c).bind (fun p =>
      some (p.1 ++ atvCode p.2.1 p.2.2, .cloneField (atvVar p.2.1 p.2.2) i, atvNext p.2.1 p.2.2)) := by
  cases e with
  | var x => exact absurd rfl (h x)
  | _ => rw [lowerE] <;> first | rfl | exact h | (intro x hx; cases hx)

theorem lowerE_field_inv {e : Expr} {i c : Nat} {code : Code} {v : Value} {c' : Nat} (hv : ¬ ∃ x, e = .var x)
    (h : lowerE (.field e i) c = some (code, v, c')) :
    ∃ ce ve c1, lowerE e c = some (ce, ve, c1) ∧ code = ce ++ atvCode ve c1 ∧ v = .cloneField (atvVar ve c1) i
      ∧ c' = atvNext ve c1 := by
  rw [lowerE_field_nonvar e i c (fun x hx => hv ⟨x, hx⟩)] at h
  simp [Option.bind_eq_some_iff] at h
  obtain ⟨ce, ve, c1, h1, rfl, rfl, rfl⟩ := h
  exact ⟨ce, ve, c1, h1, rfl, rfl, rfl⟩

/-- the pieces of a lowered record literal -/
theorem lowerE_record_inv {perm : List Nat} {fs : Exprs} {c : Nat} {code : Code} {v : Value} {c' : Nat}
    (h : lowerE (.record perm fs) c = some (code, v, c')) :
    ∃ ca xs c1, lowerCtorArgs fs c = some (ca, xs, c1) ∧ permOk perm xs.length = true
      ∧ code = ca ++ [.setDisc (.t c1) (.recd (List.replicate xs.length 0))] ++ storeFieldsAt (.t c1) perm xs
      ∧ v = .move (.t c1) ∧ c' = c1 + 1 := by
  simp only [lowerE, Option.bind_eq_bind, Option.bind_eq_some_iff] at h
  obtain ⟨⟨ca, xs, c1⟩, h1, h2⟩ := h
  by_cases hp : permOk perm xs.length = true
  · simp [hp] at h2
    obtain ⟨rfl, rfl, rfl⟩ := h2
    exact ⟨ca, xs, c1, h1, hp, by simp, rfl, rfl⟩
  · simp [hp] at h2

/-- the pieces of a lowered `match` -/
theorem lowerE_mtch_inv {s : Expr} {isOpt : Bool} {arms : Arms} {c : Nat} {code : Code} {v : Value} {c' : Nat}
    (h : lowerE (.mtch s isOpt arms) c = some (code, v, c')) :
    let nV := if isOpt then 2 else 3
    let tb := if isOpt then 0 else 10
    let ds := discsOf arms
    (ds.any (fun k => decide (nV ≤ k)) = false) ∧
    ∃ ce ve c1 ch0 c0 ch1 c1' ch2 c2 dflt c3 codes,
      lowerE s c = some (ce, ve, c1) ∧
      lowerChain arms (if ds.contains 0 then .variant 0 else .off) (atvVar ve c1) tb 0 (atvNext ve c1 + 1) = some (ch0, c0) ∧
      lowerChain arms (if ds.contains 1 then .variant 1 else .off) (atvVar ve c1) tb 0 c0 = some (ch1, c1') ∧
      lowerChain arms (if ds.contains 2 then .variant 2 else .off) (atvVar ve c1) tb 0 c1' = some (ch2, c2) ∧
      lowerChain arms (if hasWild arms && !((List.range nV).all (fun k => ds.contains k)) then .wildOnly else .off)
        (atvVar ve c1) tb 0 c2 = some (dflt, c3) ∧
      lowerArms arms (.t c3) (c3 + 1) = some (codes, c') ∧
      code = ce ++ atvCode ve c1 ++ [.assign (.t (atvNext ve c1)) (.disc (atvVar ve c1)),
        .mtch (.t (atvNext ve c1))
          ((if ds.contains 0 then [GChain.mk 0 ch0] else []) ++ (if ds.contains 1 then [GChain.mk 1 ch1] else [])
            ++ (if ds.contains 2 then [GChain.mk 2 ch2] else [])) dflt codes] ∧
      v = .move (.t c3) := by
  intro nV tb ds
  simp only [lowerE, Option.pure_def, Option.bind_eq_bind] at h
  by_cases hany : (ds.any (fun k => decide (nV ≤ k))) = true
  · rw [if_pos hany] at h; simp at h
  · rw [if_neg hany] at h
    simp only [Option.bind_eq_some_iff] at h
    obtain ⟨⟨ce, ve, c1⟩, h1, ⟨ch0, c0⟩, h2, ⟨ch1, c1'⟩, h3, ⟨ch2, c2⟩, h4, ⟨dflt, c3⟩, h5, ⟨codes, c4⟩, h6, h7⟩ := h
    simp only [Option.some.injEq, Prod.mk.injEq] at h7
    obtain ⟨rfl, rfl, rfl⟩ := h7
    refine ⟨by simpa using hany, ce, ve, c1, ch0, c0, ch1, c1', ch2, c2, dflt, c3, codes, h1, h2, h3, h4, h5, h6, ?_, rfl⟩
    simp [List.append_assoc, ds]

/-- A `Move` names a temporary allocated below the counter. -/
def MoveBound (v : Value) (c : Nat) : Prop :=
  match v with
  | .move x => ∃ k, x = .t k ∧ k < c
  | _ => True

theorem MoveBound.mono {v : Value} {c c' : Nat} (h : MoveBound v c) (hc : c ≤ c') : MoveBound v c' := by
  cases v <;> simp_all [MoveBound]
  all_goals
    obtain ⟨k, hk, hlt⟩ := h
    exact ⟨k, hk, by omega⟩

theorem atv_spec (v : Value) (c : Nat) (hb : MoveBound v c) :
    c ≤ atvNext v c ∧ ∃ k, atvVar v c = .t k ∧ k < atvNext v c := by
  unfold atvNext atvVar
  cases v <;> simp_all [MoveBound]

mutual
theorem lowerE_mono : ∀ (e : Expr) (c : Nat) (code : Code) (v : Value) (c' : Nat),
    lowerE e c = some (code, v, c') → c ≤ c' ∧ MoveBound v c'
  | .lit _, c, code, v, c', h => by simp [lowerE] at h; obtain ⟨_, rfl, rfl⟩ := h; simp [MoveBound]
  | .var _, c, code, v, c', h => by simp [lowerE] at h; obtain ⟨_, rfl, rfl⟩ := h; simp [MoveBound]
  | .host f args, c, code, v, c', h => by
    simp [lowerE, Option.bind_eq_some_iff] at h
    obtain ⟨a, b, c1, h1, _, rfl, rfl⟩ := h
    exact ⟨(lowerArgs_mono args c a b c1 h1).1, trivial⟩
  | .bin op l r, c, code, v, c', h => by
    simp [lowerE, Option.bind_eq_some_iff] at h
    obtain ⟨cl, vl, c1, h1, cr, vr, c2, h2, _, rfl, rfl⟩ := h
    have ⟨m1, b1⟩ := lowerE_mono l c cl vl c1 h1
    have ⟨a1, _⟩ := atv_spec vl c1 b1
    have ⟨m2, b2⟩ := lowerE_mono r _ cr vr c2 h2
    have ⟨a2, _⟩ := atv_spec vr c2 b2
    exact ⟨by omega, trivial⟩
  | .eqH ne l r, c, code, v, c', h => by
    simp [lowerE, Option.bind_eq_some_iff] at h
    obtain ⟨cl, vl, c1, h1, cr, vr, c2, h2, _, rfl, rfl⟩ := h
    have ⟨m1, b1⟩ := lowerE_mono l c cl vl c1 h1
    have ⟨a1, _⟩ := atv_spec vl c1 b1
    have ⟨m2, b2⟩ := lowerE_mono r _ cr vr c2 h2
    have ⟨a2, _⟩ := atv_spec vr c2 b2
    exact ⟨by omega, trivial⟩
  | .and l r, c, code, v, c', h => by
    simp [lowerE, Option.bind_eq_some_iff] at h
    obtain ⟨cl, vl, c1, h1, cr, vr, c2, h2, _, rfl, rfl⟩ := h
    have ⟨m1, _⟩ := lowerE_mono l _ cl vl c1 h1
    have ⟨m2, _⟩ := lowerE_mono r _ cr vr c2 h2
    exact ⟨by omega, ⟨c, rfl, by omega⟩⟩
  | .or l r, c, code, v, c', h => by
    simp [lowerE, Option.bind_eq_some_iff] at h
    obtain ⟨cl, vl, c1, h1, cr, vr, c2, h2, _, rfl, rfl⟩ := h
    have ⟨m1, _⟩ := lowerE_mono l _ cl vl c1 h1
    have ⟨m2, _⟩ := lowerE_mono r _ cr vr c2 h2
    exact ⟨by omega, ⟨c, rfl, by omega⟩⟩
  | .not e, c, code, v, c', h => by
    simp [lowerE, Option.bind_eq_some_iff] at h
    obtain ⟨ce, ve, c1, h1, _, rfl, rfl⟩ := h
    have ⟨m1, b1⟩ := lowerE_mono e c ce ve c1 h1
    have ⟨a1, _⟩ := atv_spec ve c1 b1
    exact ⟨by omega, trivial⟩
  | .neg e, c, code, v, c', h => by
    simp [lowerE, Option.bind_eq_some_iff] at h
    obtain ⟨ce, ve, c1, h1, _, rfl, rfl⟩ := h
    have ⟨m1, b1⟩ := lowerE_mono e c ce ve c1 h1
    have ⟨a1, _⟩ := atv_spec ve c1 b1
    exact ⟨by omega, trivial⟩
  | .ite cnd th el, c, code, v, c', h => by
    simp [lowerE, Option.bind_eq_some_iff] at h
    obtain ⟨cc, vc, c1, h1, ct, xt, c2, h2, ce, xe, c3, h3, _, rfl, rfl⟩ := h
    have ⟨m1, b1⟩ := lowerE_mono cnd c cc vc c1 h1
    have ⟨a1, _⟩ := atv_spec vc c1 b1
    have ⟨m2, _⟩ := lowerBlock_mono th _ ct xt c2 h2
    have ⟨m3, _⟩ := lowerBlock_mono el _ ce xe c3 h3
    exact ⟨by omega, ⟨c2, rfl, by omega⟩⟩
  | .if1 cnd th, c, code, v, c', h => by
    simp [lowerE, Option.bind_eq_some_iff] at h
    obtain ⟨cc, vc, c1, h1, ct, xt, c2, h2, _, rfl, rfl⟩ := h
    have ⟨m1, b1⟩ := lowerE_mono cnd c cc vc c1 h1
    have ⟨a1, _⟩ := atv_spec vc c1 b1
    have ⟨m2, _⟩ := lowerBlock_mono th _ ct xt c2 h2
    exact ⟨by omega, ⟨c2, rfl, by omega⟩⟩
  | .while cnd b, c, code, v, c', h => by
    simp [lowerE, Option.bind_eq_some_iff] at h
    obtain ⟨cc, vc, c1, h1, cb, xb, c2, h2, _, rfl, rfl⟩ := h
    have ⟨m1, _⟩ := lowerE_mono cnd _ cc vc c1 h1
    have ⟨m2, _⟩ := lowerBlock_mono b _ cb xb c2 h2
    exact ⟨by omega, trivial⟩
  | .block b, c, code, v, c', h => by
    simp [lowerE, Option.bind_eq_some_iff] at h
    obtain ⟨cb, xb, c1, h1, _, rfl, rfl⟩ := h
    have ⟨m1, _⟩ := lowerBlock_mono b _ cb xb c1 h1
    exact ⟨by omega, ⟨c1, rfl, by omega⟩⟩
  | .assign x e, c, code, v, c', h => by
    simp [lowerE, Option.bind_eq_some_iff] at h
    obtain ⟨ce, ve, c1, h1, _, rfl, rfl⟩ := h
    have ⟨m1, _⟩ := lowerE_mono e _ ce ve c1 h1
    exact ⟨by omega, trivial⟩
  | .cassign op x e, c, code, v, c', h => by
    simp [lowerE, Option.bind_eq_some_iff] at h
    obtain ⟨_, cr, vr, c1, h1, _, rfl, rfl⟩ := h
    have ⟨m1, b1⟩ := lowerE_mono e _ cr vr c1 h1
    have ⟨a1, _⟩ := atv_spec vr c1 b1
    exact ⟨by omega, trivial⟩
  | .assignF x i e, c, code, v, c', h => by
    simp [lowerE, Option.bind_eq_some_iff] at h
    obtain ⟨ce, ve, c1, h1, _, rfl, rfl⟩ := h
    have ⟨m1, _⟩ := lowerE_mono e _ ce ve c1 h1
    exact ⟨by omega, trivial⟩
  | .cassignF op x i e, c, code, v, c', h => by
    simp [lowerE, Option.bind_eq_some_iff] at h
    obtain ⟨_, cr, vr, c1, h1, _, rfl, rfl⟩ := h
    have ⟨m1, b1⟩ := lowerE_mono e _ cr vr c1 h1
    have ⟨a1, _⟩ := atv_spec vr c1 b1
    exact ⟨by omega, trivial⟩
  | .ret e, c, code, v, c', h => by
    simp [lowerE, Option.bind_eq_some_iff] at h
    obtain ⟨ce, ve, c1, h1, _, rfl, rfl⟩ := h
    have ⟨m1, b1⟩ := lowerE_mono e c ce ve c1 h1
    have ⟨a1, _⟩ := atv_spec ve c1 b1
    exact ⟨by omega, trivial⟩
  | .some e, c, code, v, c', h => by
    simp [lowerE, Option.bind_eq_some_iff] at h
    obtain ⟨ce, ve, c1, h1, _, rfl, rfl⟩ := h
    have ⟨m1, b1⟩ := lowerE_mono e c ce ve c1 h1
    have ⟨a1, _⟩ := atv_spec ve c1 b1
    exact ⟨by omega, ⟨_, rfl, by omega⟩⟩
  | .none, c, code, v, c', h => by
    simp [lowerE] at h; obtain ⟨_, rfl, rfl⟩ := h; exact ⟨by omega, ⟨c, rfl, by omega⟩⟩
  | .accept e, c, code, v, c', h => by
    simp [lowerE, Option.bind_eq_some_iff] at h
    obtain ⟨ce, ve, c1, h1, _, rfl, rfl⟩ := h
    have ⟨m1, _⟩ := lowerE_mono e c ce ve c1 h1
    exact ⟨by omega, trivial⟩
  | .reject e, c, code, v, c', h => by
    simp [lowerE, Option.bind_eq_some_iff] at h
    obtain ⟨ce, ve, c1, h1, _, rfl, rfl⟩ := h
    have ⟨m1, _⟩ := lowerE_mono e c ce ve c1 h1
    exact ⟨by omega, trivial⟩
  | .try e, c, code, v, c', h => by
    simp [lowerE, Option.bind_eq_some_iff] at h
    obtain ⟨ce, ve, c1, h1, _, rfl, rfl⟩ := h
    have ⟨m1, b1⟩ := lowerE_mono e c ce ve c1 h1
    have ⟨a1, _⟩ := atv_spec ve c1 b1
    exact ⟨by omega, trivial⟩
  | .record perm fs, c, code, v, c', h => by
    obtain ⟨ca, xs, c1, h1, _, _, rfl, rfl⟩ := lowerE_record_inv h
    have ⟨m1, _⟩ := lowerCtorArgs_mono fs c ca xs c1 h1
    exact ⟨by omega, ⟨c1, rfl, by omega⟩⟩
  | .field e i, c, code, v, c', h => by
    by_cases hv : ∃ x, e = .var x
    · obtain ⟨x, rfl⟩ := hv
      simp [lowerE] at h; obtain ⟨_, rfl, rfl⟩ := h; simp [MoveBound]
    · obtain ⟨ce, ve, c1, h1, _, rfl, rfl⟩ := lowerE_field_inv hv h
      have ⟨m1, b1⟩ := lowerE_mono e c ce ve c1 h1
      have ⟨a1, _⟩ := atv_spec ve c1 b1
      exact ⟨by omega, trivial⟩
  | .call f args, c, code, v, c', h => by
    simp [lowerE, Option.bind_eq_some_iff] at h
    obtain ⟨a, b, c1, h1, _, rfl, rfl⟩ := h
    exact ⟨(lowerArgs_mono args c a b c1 h1).1, trivial⟩
  | .mtch s isOpt arms, c, code, v, c', h => by
    obtain ⟨_, ce, ve, c1, ch0, c0, ch1, c1', ch2, c2, dflt, c3, codes, h1, h2, h3, h4, h5, h6, _, rfl⟩ := lowerE_mtch_inv h
    have ⟨m1, b1⟩ := lowerE_mono s c ce ve c1 h1
    have ⟨a1, _⟩ := atv_spec ve c1 b1
    have m2 := lowerChain_mono arms _ _ _ _ _ ch0 c0 h2
    have m3 := lowerChain_mono arms _ _ _ _ _ ch1 c1' h3
    have m4 := lowerChain_mono arms _ _ _ _ _ ch2 c2 h4
    have m5 := lowerChain_mono arms _ _ _ _ _ dflt c3 h5
    have m6 := lowerArms_mono arms _ _ codes c' h6
    exact ⟨by omega, ⟨c3, rfl, by omega⟩⟩
  | .for x l b, c, code, v, c', h => by
    simp [lowerE, Option.bind_eq_some_iff] at h
    obtain ⟨cl, vl, c1, h1, cb, xb, c3, h2, _, rfl, rfl⟩ := h
    have ⟨m1, b1⟩ := lowerE_mono l _ cl vl c1 h1
    have ⟨a1, _⟩ := atv_spec vl c1 b1
    have ⟨m2, _⟩ := lowerBlock_mono b _ cb xb c3 h2
    exact ⟨by omega, trivial⟩
  | .ctor k args, c, code, v, c', h => by
    simp [lowerE, Option.bind_eq_some_iff] at h
    obtain ⟨ca, xs, c1, h1, _, rfl, rfl⟩ := h
    have ⟨m1, _⟩ := lowerCtorArgs_mono args c ca xs c1 h1
    exact ⟨by omega, ⟨c1, rfl, by omega⟩⟩
  | .list es, c, code, v, c', h => by
    simp [lowerE, Option.bind_eq_some_iff] at h
    obtain ⟨ce, c1, h1, _, rfl, rfl⟩ := h
    have m1 := lowerElems_mono es _ _ _ ce c1 h1
    exact ⟨by omega, ⟨c, rfl, by omega⟩⟩
  | .concat l r, c, code, v, c', h => by
    simp [lowerE, Option.bind_eq_some_iff] at h
    obtain ⟨cl, vl, c1, h1, cr, vr, c2, h2, _, rfl, rfl⟩ := h
    have ⟨m1, b1⟩ := lowerE_mono l c cl vl c1 h1
    have ⟨a1, _⟩ := atv_spec vl c1 b1
    have ⟨m2, b2⟩ := lowerE_mono r _ cr vr c2 h2
    have ⟨a2, _⟩ := atv_spec vr c2 b2
    exact ⟨by omega, ⟨_, rfl, by omega⟩⟩
  | .fstr ps, c, code, v, c', h => by
    simp [lowerE, Option.bind_eq_some_iff] at h
    obtain ⟨cp, c1, h1, _, rfl, rfl⟩ := h
    have m1 := lowerParts_mono ps _ _ cp c1 h1
    exact ⟨by omega, ⟨c, rfl, by omega⟩⟩
theorem lowerElems_mono : ∀ (es : Exprs) (lst u : Var) (c : Nat) (code : Code) (c' : Nat),
    lowerElems es lst u c = some (code, c') → c ≤ c'
  | .nil, lst, u, c, code, c', h => by simp [lowerElems] at h; omega
  | .cons e es, lst, u, c, code, c', h => by
    simp [lowerElems, Option.bind_eq_some_iff] at h
    obtain ⟨ce, ve, c1, h1, cs, h2, _⟩ := h
    have ⟨m1, _⟩ := lowerE_mono e (c + 1) ce ve c1 h1
    have := lowerElems_mono es lst u (c1 + 1) cs c' h2
    omega
theorem lowerParts_mono : ∀ (ps : Parts) (acc : Var) (c : Nat) (code : Code) (c' : Nat),
    lowerParts ps acc c = some (code, c') → c ≤ c'
  | .nil, acc, c, code, c', h => by simp [lowerParts] at h; omega
  | .str s rest, acc, c, code, c', h => by
    simp [lowerParts, Option.bind_eq_some_iff] at h
    obtain ⟨cr, h1, _⟩ := h
    have := lowerParts_mono rest acc (c + 1) cr c' h1
    omega
  | .expr e rest, acc, c, code, c', h => by
    simp [lowerParts, Option.bind_eq_some_iff] at h
    obtain ⟨ce, ve, c1, h1, cr, h2, _⟩ := h
    have ⟨m1, _⟩ := lowerE_mono e c ce ve c1 h1
    have := lowerParts_mono rest acc (c1 + 2) cr c' h2
    omega
theorem lowerCtorArgs_mono : ∀ (es : Exprs) (c : Nat) (code : Code) (xs : List Var) (c' : Nat),
    lowerCtorArgs es c = some (code, xs, c') → c ≤ c' ∧ ∀ x ∈ xs, ∃ k, x = .t k ∧ k < c'
  | .nil, c, code, xs, c', h => by simp [lowerCtorArgs] at h; obtain ⟨_, rfl, rfl⟩ := h; simp
  | .cons e es, c, code, xs, c', h => by
    simp [lowerCtorArgs, Option.bind_eq_some_iff] at h
    obtain ⟨ce, ve, c1, h1, cs, xs', c2, h2, _, rfl, rfl⟩ := h
    have ⟨m1, b1⟩ := lowerE_mono e c ce ve c1 h1
    have ⟨a1, k1, hk1, hk1'⟩ := atv_spec ve c1 b1
    have ⟨m2, hxs⟩ := lowerCtorArgs_mono es _ cs xs' c2 h2
    refine ⟨by omega, ?_⟩
    intro x hx
    simp at hx
    rcases hx with rfl | hx
    · exact ⟨k1, hk1, by omega⟩
    · exact hxs x hx
theorem lowerChain_mono : ∀ (arms : Arms) (sel : Sel) (xe : Var) (tb idx c : Nat) (steps : List GStep) (c' : Nat),
    lowerChain arms sel xe tb idx c = some (steps, c') → c ≤ c'
  | .nil, sel, xe, tb, idx, c, steps, c', h => by simp [lowerChain] at h; omega
  | .arm p body rest, sel, xe, tb, idx, c, steps, c', h => by
    simp only [lowerChain] at h
    split at h
    · simp [Option.bind_eq_some_iff] at h
      obtain ⟨st, h1, _⟩ := h
      exact lowerChain_mono rest sel xe tb (idx + 1) c st c' h1
    · exact lowerChain_mono rest sel xe tb (idx + 1) c steps c' h
  | .armG p g body rest, sel, xe, tb, idx, c, steps, c', h => by
    simp only [lowerChain] at h
    split at h
    · simp [Option.bind_eq_some_iff] at h
      obtain ⟨cg, vg, c1, h1, st, h2, _⟩ := h
      have ⟨m1, b1⟩ := lowerE_mono g c cg vg c1 h1
      have ⟨a1, _⟩ := atv_spec vg c1 b1
      have := lowerChain_mono rest sel xe tb (idx + 1) _ st c' h2
      omega
    · exact lowerChain_mono rest sel xe tb (idx + 1) c steps c' h
theorem lowerArms_mono : ∀ (arms : Arms) (out : Var) (c : Nat) (codes : List Code) (c' : Nat),
    lowerArms arms out c = some (codes, c') → c ≤ c'
  | .nil, out, c, codes, c', h => by simp [lowerArms] at h; omega
  | .arm p body rest, out, c, codes, c', h => by
    simp [lowerArms, Option.bind_eq_some_iff] at h
    obtain ⟨cb, xb, c1, h1, cs, h2, _⟩ := h
    have ⟨m1, _⟩ := lowerBlock_mono body c cb xb c1 h1
    have := lowerArms_mono rest out c1 cs c' h2
    omega
  | .armG p g body rest, out, c, codes, c', h => by
    simp [lowerArms, Option.bind_eq_some_iff] at h
    obtain ⟨cb, xb, c1, h1, cs, h2, _⟩ := h
    have ⟨m1, _⟩ := lowerBlock_mono body c cb xb c1 h1
    have := lowerArms_mono rest out c1 cs c' h2
    omega
theorem lowerArgs_mono : ∀ (es : Exprs) (c : Nat) (code : Code) (tmps : List Var) (c' : Nat),
    lowerArgs es c = some (code, tmps, c') → c ≤ c' ∧ ∀ x ∈ tmps, ∃ k, x = .t k ∧ c ≤ k ∧ k < c'
  | .nil, c, code, tmps, c', h => by simp [lowerArgs] at h; obtain ⟨_, rfl, rfl⟩ := h; simp
  | .cons e es, c, code, tmps, c', h => by
    simp [lowerArgs, Option.bind_eq_some_iff] at h
    obtain ⟨ce, ve, c1, h1, cs, ts, c2, h2, _, rfl, rfl⟩ := h
    have ⟨m1, _⟩ := lowerE_mono e c ce ve c1 h1
    have ⟨m2, hts⟩ := lowerArgs_mono es _ cs ts c2 h2
    refine ⟨by omega, ?_⟩
    intro x hx
    simp at hx
    rcases hx with rfl | hx
    · exact ⟨c1, rfl, by omega, by omega⟩
    · obtain ⟨k, rfl, hk1, hk2⟩ := hts x hx
      exact ⟨k, rfl, by omega, hk2⟩
theorem lowerBlock_mono : ∀ (b : Block) (c : Nat) (code : Code) (x : Var) (c' : Nat),
    lowerBlock b c = some (code, x, c') → c ≤ c' ∧ ∃ k, x = .t k ∧ k < c'
  | .nil, c, code, x, c', h => by
    simp [lowerBlock] at h; obtain ⟨_, rfl, rfl⟩ := h; exact ⟨by omega, c, rfl, by omega⟩
  | .last e, c, code, x, c', h => by
    simp [lowerBlock, Option.bind_eq_some_iff] at h
    obtain ⟨ce, ve, c1, h1, _, rfl, rfl⟩ := h
    have ⟨m1, b1⟩ := lowerE_mono e c ce ve c1 h1
    have ⟨a1, a2⟩ := atv_spec ve c1 b1
    exact ⟨by omega, a2⟩
  | .let_ y e rest, c, code, x, c', h => by
    simp [lowerBlock, Option.bind_eq_some_iff] at h
    obtain ⟨ce, ve, c1, h1, cr, xr, c2, h2, _, rfl, rfl⟩ := h
    have ⟨m1, _⟩ := lowerE_mono e c ce ve c1 h1
    have ⟨m2, b2⟩ := lowerBlock_mono rest _ cr xr c2 h2
    exact ⟨by omega, b2⟩
  | .stmt e rest, c, code, x, c', h => by
    simp [lowerBlock, Option.bind_eq_some_iff] at h
    obtain ⟨ce, ve, c1, h1, cr, xr, c2, h2, _, rfl, rfl⟩ := h
    have ⟨m1, b1⟩ := lowerE_mono e c ce ve c1 h1
    have ⟨a1, _⟩ := atv_spec ve c1 b1
    have ⟨m2, b2⟩ := lowerBlock_mono rest _ cr xr c2 h2
    exact ⟨by omega, b2⟩
end

/-! ### which variables a lazy operand reads -/

/-- the variables an operand reads -/
def Value.vars : Value → List Var
  | .const _ => []
  | .clone x => [x]
  | .move x => [x]
  | .binop l _ r => [l, r]
  | .eqHost l _ r => [l, r]
  | .not x => [x]
  | .neg x => [x]
  | .callRt _ args => args
  | .call _ args => args
  | .listNew => []
  | .listGet l i => [l, i]
  | .idxAdd a b => [a, b]
  | .toStr x => [x]
  | .append a b => [a, b]
  | .disc x => [x]
  | .cloneProj x _ _ => [x]
  | .cloneField x _ => [x]

/-- every temporary the operand reads was allocated below the counter -/
def ValueBound (v : Value) (c : Nat) : Prop := ∀ k, Var.t k ∈ v.vars → k < c

theorem evalValue_congr {σ σ' : Store} {v : Value} (h : ∀ x ∈ v.vars, σ' x = σ x) :
    evalValue σ' v = evalValue σ v := by
  cases v with
  | const _ => rfl
  | callRt f args =>
    have : args.map σ' = args.map σ := List.map_congr_left (by simpa [Value.vars] using h)
    simp [evalValue, this]
  | call f args => simp [evalValue]
  | _ => simp_all [evalValue, Value.vars]

theorem evalValue_set_fresh {σ : Store} {v : Value} {c k : Nat} (w : Val) (hb : ValueBound v c) (hk : c ≤ k) :
    evalValue (σ.set (.t k) w) v = evalValue σ v := by
  apply evalValue_congr
  intro x hx
  apply set_other
  intro hxe
  subst hxe
  have := hb k hx
  omega

theorem EvalV.set_fresh {P : Prog} {σ : Store} {v : Value} {c k : Nat} {t : Trace} {val : Val} (w : Val)
    (hb : ValueBound v c) (hk : c ≤ k) (h : EvalV P σ v t val) : EvalV P (σ.set (.t k) w) v t val := by
  cases h with
  | pure h => exact .pure (by rw [evalValue_set_fresh w hb hk]; exact h)
  | call hp hbnd hx =>
    refine .call hp ?_ hx
    rw [← hbnd]
    congr 1
    apply List.map_congr_left
    intro x hx'
    apply set_other
    intro hxe; subst hxe
    have := hb k (by simpa [Value.vars] using hx')
    omega

theorem atv_bound (v : Value) (c : Nat) (hb : MoveBound v c) {k : Nat} (h : atvVar v c = .t k) : k < atvNext v c := by
  obtain ⟨_, k', hk', hlt⟩ := atv_spec v c hb
  rw [hk'] at h; cases h; exact hlt

theorem lowerE_valueBound (e : Expr) (c : Nat) (code : Code) (v : Value) (c' : Nat)
    (h : lowerE e c = some (code, v, c')) : ValueBound v c' := by
  intro k hk
  cases e with
  | lit _ => simp [lowerE] at h; obtain ⟨_, rfl, rfl⟩ := h; simp [Value.vars] at hk
  | var _ => simp [lowerE] at h; obtain ⟨_, rfl, rfl⟩ := h; simp [Value.vars] at hk
  | host f args =>
    simp [lowerE, Option.bind_eq_some_iff] at h
    obtain ⟨a, b, c1, h1, _, rfl, rfl⟩ := h
    obtain ⟨_, rfl', _, hlt⟩ := (lowerArgs_mono args c a b c1 h1).2 _ (by simpa [Value.vars] using hk)
    cases rfl'; exact hlt
  | bin op l r =>
    simp [lowerE, Option.bind_eq_some_iff] at h
    obtain ⟨cl, vl, c1, h1, cr, vr, c2, h2, _, rfl, rfl⟩ := h
    have ⟨m1, b1⟩ := lowerE_mono l c cl vl c1 h1
    have ⟨m2, b2⟩ := lowerE_mono r _ cr vr c2 h2
    have ⟨a2, _⟩ := atv_spec vr c2 b2
    simp [Value.vars] at hk
    rcases hk with hk | hk
    · have := atv_bound vl c1 b1 hk.symm; omega
    · exact atv_bound vr c2 b2 hk.symm
  | eqH ne l r =>
    simp [lowerE, Option.bind_eq_some_iff] at h
    obtain ⟨cl, vl, c1, h1, cr, vr, c2, h2, _, rfl, rfl⟩ := h
    have ⟨m1, b1⟩ := lowerE_mono l c cl vl c1 h1
    have ⟨m2, b2⟩ := lowerE_mono r _ cr vr c2 h2
    have ⟨a2, _⟩ := atv_spec vr c2 b2
    simp [Value.vars] at hk
    rcases hk with hk | hk
    · have := atv_bound vl c1 b1 hk.symm; omega
    · exact atv_bound vr c2 b2 hk.symm
  | and l r =>
    simp [lowerE, Option.bind_eq_some_iff] at h
    obtain ⟨cl, vl, c1, h1, cr, vr, c2, h2, _, rfl, rfl⟩ := h
    have ⟨m1, _⟩ := lowerE_mono l _ cl vl c1 h1
    have ⟨m2, _⟩ := lowerE_mono r _ cr vr c2 h2
    simp [Value.vars] at hk; omega
  | or l r =>
    simp [lowerE, Option.bind_eq_some_iff] at h
    obtain ⟨cl, vl, c1, h1, cr, vr, c2, h2, _, rfl, rfl⟩ := h
    have ⟨m1, _⟩ := lowerE_mono l _ cl vl c1 h1
    have ⟨m2, _⟩ := lowerE_mono r _ cr vr c2 h2
    simp [Value.vars] at hk; omega
  | not e1 =>
    simp [lowerE, Option.bind_eq_some_iff] at h
    obtain ⟨ce, ve, c1, h1, _, rfl, rfl⟩ := h
    have ⟨m1, b1⟩ := lowerE_mono e1 c ce ve c1 h1
    simp [Value.vars] at hk
    exact atv_bound ve c1 b1 hk.symm
  | neg e1 =>
    simp [lowerE, Option.bind_eq_some_iff] at h
    obtain ⟨ce, ve, c1, h1, _, rfl, rfl⟩ := h
    have ⟨m1, b1⟩ := lowerE_mono e1 c ce ve c1 h1
    simp [Value.vars] at hk
    exact atv_bound ve c1 b1 hk.symm
  | «try» e1 =>
    simp [lowerE, Option.bind_eq_some_iff] at h
    obtain ⟨ce, ve, c1, h1, _, rfl, rfl⟩ := h
    have ⟨m1, b1⟩ := lowerE_mono e1 c ce ve c1 h1
    simp [Value.vars] at hk
    have := atv_bound ve c1 b1 hk.symm; omega
  | ite cnd th el =>
    have hm := (lowerE_mono _ c code v c' h).2
    simp [lowerE, Option.bind_eq_some_iff] at h
    obtain ⟨_, _, _, _, _, _, _, _, _, _, _, _, _, rfl, _⟩ := h
    obtain ⟨k', hk', hlt⟩ := hm; cases hk'; simp [Value.vars] at hk; omega
  | if1 cnd th =>
    have hm := (lowerE_mono _ c code v c' h).2
    simp [lowerE, Option.bind_eq_some_iff] at h
    obtain ⟨_, _, _, _, _, _, _, _, _, rfl, _⟩ := h
    obtain ⟨k', hk', hlt⟩ := hm; cases hk'; simp [Value.vars] at hk; omega
  | «while» cnd b =>
    simp [lowerE, Option.bind_eq_some_iff] at h
    obtain ⟨_, _, _, _, _, _, _, _, _, rfl, _⟩ := h
    simp [Value.vars] at hk
  | block b =>
    have hm := (lowerE_mono _ c code v c' h).2
    simp [lowerE, Option.bind_eq_some_iff] at h
    obtain ⟨_, _, _, _, _, rfl, _⟩ := h
    obtain ⟨k', hk', hlt⟩ := hm; cases hk'; simp [Value.vars] at hk; omega
  | assign x e1 =>
    simp [lowerE, Option.bind_eq_some_iff] at h
    obtain ⟨_, _, _, _, _, rfl, _⟩ := h
    simp [Value.vars] at hk
  | cassign op x e1 =>
    simp [lowerE, Option.bind_eq_some_iff] at h
    obtain ⟨_, _, _, _, _, _, rfl, _⟩ := h
    simp [Value.vars] at hk
  | assignF x i e1 =>
    simp [lowerE, Option.bind_eq_some_iff] at h
    obtain ⟨_, _, _, _, _, rfl, _⟩ := h
    simp [Value.vars] at hk
  | cassignF op x i e1 =>
    simp [lowerE, Option.bind_eq_some_iff] at h
    obtain ⟨_, _, _, _, _, _, rfl, _⟩ := h
    simp [Value.vars] at hk
  | ret e1 =>
    simp [lowerE, Option.bind_eq_some_iff] at h
    obtain ⟨_, _, _, _, _, rfl, _⟩ := h
    simp [Value.vars] at hk
  | some e1 =>
    have hm := (lowerE_mono _ c code v c' h).2
    simp [lowerE, Option.bind_eq_some_iff] at h
    obtain ⟨_, _, _, _, _, rfl, _⟩ := h
    obtain ⟨k', hk', hlt⟩ := hm; cases hk'; simp [Value.vars] at hk; omega
  | none =>
    have hm := (lowerE_mono _ c code v c' h).2
    simp [lowerE] at h
    obtain ⟨_, rfl, _⟩ := h
    obtain ⟨k', hk', hlt⟩ := hm; cases hk'; simp [Value.vars] at hk; omega
  | accept e1 =>
    simp [lowerE, Option.bind_eq_some_iff] at h
    obtain ⟨_, _, _, _, _, rfl, _⟩ := h
    simp [Value.vars] at hk
  | reject e1 =>
    simp [lowerE, Option.bind_eq_some_iff] at h
    obtain ⟨_, _, _, _, _, rfl, _⟩ := h
    simp [Value.vars] at hk
  | call f args =>
    simp [lowerE, Option.bind_eq_some_iff] at h
    obtain ⟨a, b, c1, h1, _, rfl, rfl⟩ := h
    obtain ⟨_, rfl', _, hlt⟩ := (lowerArgs_mono args c a b c1 h1).2 _ (by simpa [Value.vars] using hk)
    cases rfl'; exact hlt
  | mtch s isOpt arms =>
    have hm := (lowerE_mono _ c code v c' h).2
    obtain ⟨_, _, _, _, _, _, _, _, _, _, _, _, _, _, _, _, _, _, _, _, rfl⟩ := lowerE_mtch_inv h
    obtain ⟨k', hk', hlt⟩ := hm; cases hk'; simp [Value.vars] at hk; omega
  | «for» x l b =>
    simp [lowerE, Option.bind_eq_some_iff] at h
    obtain ⟨_, _, _, _, _, _, _, _, _, rfl, _⟩ := h
    simp [Value.vars] at hk
  | ctor k' args =>
    have hm := (lowerE_mono _ c code v c' h).2
    simp [lowerE, Option.bind_eq_some_iff] at h
    obtain ⟨_, _, _, _, _, rfl, _⟩ := h
    obtain ⟨k'', hk', hlt⟩ := hm; cases hk'; simp [Value.vars] at hk; omega
  | record perm fs =>
    have hm := (lowerE_mono _ c code v c' h).2
    obtain ⟨_, _, _, _, _, _, rfl, _⟩ := lowerE_record_inv h
    obtain ⟨k', hk', hlt⟩ := hm; cases hk'; simp [Value.vars] at hk; omega
  | field e1 i =>
    by_cases hv : ∃ x, e1 = .var x
    · obtain ⟨x, rfl⟩ := hv
      simp [lowerE] at h; obtain ⟨_, rfl, rfl⟩ := h; simp [Value.vars] at hk
    · obtain ⟨ce, ve, c1, h1, _, rfl, rfl⟩ := lowerE_field_inv hv h
      have ⟨m1, b1⟩ := lowerE_mono e1 c ce ve c1 h1
      simp [Value.vars] at hk
      exact atv_bound ve c1 b1 hk.symm
  | list es =>
    have hm := (lowerE_mono _ c code v c' h).2
    simp [lowerE, Option.bind_eq_some_iff] at h
    obtain ⟨_, _, _, _, rfl, _⟩ := h
    obtain ⟨k', hk', hlt⟩ := hm; cases hk'; simp [Value.vars] at hk; omega
  | fstr ps =>
    have hm := (lowerE_mono _ c code v c' h).2
    simp [lowerE, Option.bind_eq_some_iff] at h
    obtain ⟨_, _, _, _, rfl, _⟩ := h
    obtain ⟨k', hk', hlt⟩ := hm; cases hk'; simp [Value.vars] at hk; omega
  | concat l r =>
    have hm := (lowerE_mono _ c code v c' h).2
    simp [lowerE, Option.bind_eq_some_iff] at h
    obtain ⟨_, _, _, _, _, _, _, _, _, rfl, _⟩ := h
    obtain ⟨k', hk', hlt⟩ := hm; cases hk'; simp [Value.vars] at hk; omega

/-! ### `match`: binders and patterns -/

theorem payload_fieldsOf {v : Val} (h : (discOf v).isSome) (i : Nat) : payload v i = (fieldsOf v)[i]? := by
  cases v with
  | opt o => cases o <;> cases i <;> simp [payload, fieldsOf]
  | enm k fs => simp [payload, fieldsOf]
  | verdict b n => cases i <;> simp [payload, fieldsOf]
  | _ => simp [discOf] at h

/-- the binders of a pattern, assigned from the examinee's fields -/
theorem exec_binds {P : Prog} {ke tag : Nat} : ∀ (bs : List Nat) (fs : List Int) (env env1 : Env) (σ : Store) (j : Nat),
    (∀ i, payload (σ (.t ke)) (j + i) = fs[i]?) → bindAll bs fs env = some env1 → Agree env σ →
    ∃ σ1, ExecC P σ (bindsCode bs (.t ke) tag j) [] (.normal σ1) ∧ Agree env1 σ1 ∧ (∀ k, σ1 (.t k) = σ (.t k))
  | [], fs, env, env1, σ, j, hp, hb, ha => by
    cases fs with
    | nil => simp [bindAll] at hb; subst hb; exact ⟨σ, .nil, ha, fun _ => rfl⟩
    | cons f fs => simp [bindAll] at hb
  | b :: bs, fs, env, env1, σ, j, hp, hb, ha => by
    cases fs with
    | nil => simp [bindAll] at hb
    | cons f fs =>
      simp only [bindAll] at hb
      cases hl : lookup env b with
      | some _ => simp [hl] at hb
      | none =>
        simp only [hl] at hb
        have h0 : payload (σ (.t ke)) j = some f := by simpa using hp 0
        have s1 : ExecS P σ (.assign (.x b) (.cloneProj (.t ke) j tag)) [] (.normal (σ.set (.x b) (.int f))) :=
          .assign (EvalV.pure (by simp [evalValue, h0]))
        have hxe : (σ.set (.x b) (.int f)) (.t ke) = σ (.t ke) := set_other _ _ (by intro h; cases h)
        obtain ⟨σ1, hx, ha1, hk⟩ := exec_binds (P := P) bs fs ((b, .int f) :: env) env1 (σ.set (.x b) (.int f)) (j + 1)
          (by intro i; rw [hxe]; have := hp (i + 1); simpa [Nat.add_assoc, Nat.add_comm 1 i] using this) hb (ha.cons b _)
        refine ⟨σ1, ?_, ha1, fun k => by rw [hk k]; exact set_other _ _ (by intro h; cases h)⟩
        simpa [bindsCode] using ExecC.cons s1 hx

/-- … of a whole pattern -/
theorem exec_patBinds {P : Prog} {ke tb : Nat} (p : Pat) (v : Val) (env env1 : Env) (σ : Store)
    (hv : σ (.t ke) = v) (hd : (discOf v).isSome) (hb : bindPat env v p = some env1) (ha : Agree env σ) :
    ∃ σ1, ExecC P σ (patBinds p (.t ke) tb) [] (.normal σ1) ∧ Agree env1 σ1 ∧ (∀ k, σ1 (.t k) = σ (.t k)) := by
  cases p with
  | wild => simp [bindPat] at hb; subst hb; exact ⟨σ, by simpa [patBinds] using ExecC.nil, ha, fun _ => rfl⟩
  | variant k bs =>
    simp only [bindPat] at hb
    simpa [patBinds] using exec_binds (P := P) (tag := tb + k) bs (fieldsOf v) env env1 σ 0
      (by intro i; rw [hv]; simpa using payload_fieldsOf hd i) hb ha

def patsOf : Arms → List Pat
  | .nil => []
  | .arm p _ rest => p :: patsOf rest
  | .armG p _ _ rest => p :: patsOf rest

theorem mem_discsOf : ∀ (arms : Arms) (k : Nat) (bs : List Nat), Pat.variant k bs ∈ patsOf arms → k ∈ discsOf arms
  | .nil, k, bs, h => by simp [patsOf] at h
  | .arm p _ rest, k, bs, h => by
    simp only [patsOf, List.mem_cons] at h
    cases p with
    | wild => simp [discsOf]; rcases h with h | h; · cases h
              exact mem_discsOf rest k bs h
    | variant k' bs' =>
      simp only [discsOf, List.mem_cons]
      rcases h with h | h
      · cases h; exact Or.inl rfl
      · exact Or.inr (mem_discsOf rest k bs h)
  | .armG p _ _ rest, k, bs, h => by
    simp only [patsOf, List.mem_cons] at h
    cases p with
    | wild => simp [discsOf]; rcases h with h | h; · cases h
              exact mem_discsOf rest k bs h
    | variant k' bs' =>
      simp only [discsOf, List.mem_cons]
      rcases h with h | h
      · cases h; exact Or.inl rfl
      · exact Or.inr (mem_discsOf rest k bs h)

theorem not_hasWild : ∀ (arms : Arms), hasWild arms = false → Pat.wild ∉ patsOf arms
  | .nil, _ => by simp [patsOf]
  | .arm p _ rest, h => by
    cases p with
    | wild => simp [hasWild] at h
    | variant k bs => simp [hasWild] at h; simp [patsOf]; exact not_hasWild rest h
  | .armG p _ _ rest, h => by
    cases p with
    | wild => simp [hasWild] at h
    | variant k bs => simp [hasWild] at h; simp [patsOf]; exact not_hasWild rest h

/-! ### `make_enum`: moving the materialised arguments into the fields -/

theorem exec_storeFields {P : Prog} {k : Nat} {to : Var} : ∀ (xs : List Var) (fs : List Int) (pre : List Int) (σ : Store),
    σ to = .enm k (pre ++ List.replicate xs.length 0) → (∀ x ∈ xs, x ≠ to) → xs.map σ = fs.map Val.int →
    ∃ σ1, ExecC P σ (storeFields to pre.length xs) [] (.normal σ1) ∧ σ1 to = .enm k (pre ++ fs)
      ∧ (∀ y, y ≠ to → σ1 y = σ y)
  | [], fs, pre, σ, hσ, _, hm => by
    cases fs with
    | nil => exact ⟨σ, .nil, by simpa using hσ, fun _ _ => rfl⟩
    | cons f fs => simp at hm
  | x :: xs, fs, pre, σ, hσ, hne, hm => by
    cases fs with
    | nil => simp at hm
    | cons f fs =>
      simp only [List.map_cons, List.cons.injEq] at hm
      obtain ⟨hx, hm'⟩ := hm
      have hset : setPayload (σ to) pre.length f = some (.enm k (pre ++ f :: List.replicate xs.length 0)) := by
        rw [hσ]; simp [setPayload, List.replicate_succ]
      have s1 : ExecS P σ (.assignField to pre.length (.move x)) [] (.normal (σ.set to (.enm k (pre ++ f :: List.replicate xs.length 0)))) :=
        .assignField (EvalV.pure (by simp [evalValue, hx])) hset
      have hmap : xs.map (σ.set to (.enm k (pre ++ f :: List.replicate xs.length 0))) = fs.map Val.int := by
        rw [← hm']
        apply List.map_congr_left
        intro y hy
        exact set_other _ _ (hne y (by simp [hy]))
      obtain ⟨σ1, hx1, hv1, hk1⟩ := exec_storeFields (P := P) (k := k) (to := to) xs fs (pre ++ [f]) (σ.set to (.enm k (pre ++ f :: List.replicate xs.length 0)))
        (by simp) (fun y hy => hne y (by simp [hy])) hmap
      refine ⟨σ1, ?_, by simpa using hv1, fun y hy => by rw [hk1 y hy, set_other _ _ hy]⟩
      have := ExecC.cons s1 hx1
      simpa [storeFields] using this

/-- `record`: moving the materialised fields into the record, in the order in which they were
    written, each into the field it was written for -/
theorem exec_storeFieldsAt {P : Prog} {to : Var} : ∀ (perm : List Nat) (xs : List Var) (fs : List Int) (cur : List Int) (σ : Store),
    σ to = .recd cur → (∀ p ∈ perm, p < cur.length) → (∀ x ∈ xs, x ≠ to) → xs.map σ = fs.map Val.int →
    ∃ σ1, ExecC P σ (storeFieldsAt to perm xs) [] (.normal σ1) ∧ σ1 to = .recd (arrangeFrom cur perm fs)
      ∧ (∀ y, y ≠ to → σ1 y = σ y)
  | [], xs, fs, cur, σ, hσ, _, _, _ => by
    refine ⟨σ, ?_, ?_, fun _ _ => rfl⟩
    · cases xs <;> exact .nil
    · cases fs <;> simpa [arrangeFrom] using hσ
  | p :: ps, [], fs, cur, σ, hσ, _, _, hm => by
    cases fs with
    | nil => exact ⟨σ, .nil, by simpa [arrangeFrom] using hσ, fun _ _ => rfl⟩
    | cons f fs => simp at hm
  | p :: ps, x :: xs, fs, cur, σ, hσ, hp, hne, hm => by
    cases fs with
    | nil => simp at hm
    | cons f fs =>
      simp only [List.map_cons, List.cons.injEq] at hm
      obtain ⟨hx, hm'⟩ := hm
      have hlt : p < cur.length := hp p (by simp)
      have hset : setPayload (σ to) p f = some (.recd (cur.set p f)) := by
        rw [hσ]; simp [setPayload, hlt]
      have s1 : ExecS P σ (.assignField to p (.move x)) [] (.normal (σ.set to (.recd (cur.set p f)))) :=
        .assignField (EvalV.pure (by simp [evalValue, hx])) hset
      have hmap : xs.map (σ.set to (.recd (cur.set p f))) = fs.map Val.int := by
        rw [← hm']
        apply List.map_congr_left
        intro y hy
        exact set_other _ _ (hne y (by simp [hy]))
      obtain ⟨σ1, hx1, hv1, hk1⟩ := exec_storeFieldsAt (P := P) (to := to) ps xs fs (cur.set p f) (σ.set to (.recd (cur.set p f)))
        (by simp [Store.set]) (fun q hq => by simpa using hp q (by simp [hq])) (fun y hy => hne y (by simp [hy])) hmap
      refine ⟨σ1, ?_, by simpa [arrangeFrom] using hv1, fun y hy => by rw [hk1 y hy, set_other _ _ hy]⟩
      have := ExecC.cons s1 hx1
      simpa [storeFieldsAt] using this

/-! ### lists -/

/-- the discriminant `List.get` hands back: `Some` = 0, `None` = 1 -/
def optDisc : Option Int → Nat
  | some _ => 0
  | none => 1

theorem drop_cons_get {α} : ∀ (l : List α) (j : Nat) (v : α) (vs : List α),
    l.drop j = v :: vs → l[j]? = some v ∧ l.drop (j + 1) = vs
  | [], j, v, vs, h => by simp at h
  | a :: l, 0, v, vs, h => by simp at h; obtain ⟨rfl, rfl⟩ := h; simp
  | a :: l, j + 1, v, vs, h => by
    simp at h
    have := drop_cons_get l j v vs h
    simpa using this

theorem drop_nil_get {α} : ∀ (l : List α) (j : Nat), l.drop j = [] → l[j]? = none
  | [], j, _ => by simp
  | a :: l, 0, h => by simp at h
  | a :: l, j + 1, h => by simp at h; simpa using h

/-- a `Move` returned by the lowering names a temporary allocated by that very lowering -/
theorem lowerE_moveLower (e : Expr) (c : Nat) (code : Code) (x : Var) (c' : Nat)
    (h : lowerE e c = some (code, .move x, c')) : ∃ k, x = .t k ∧ c ≤ k := by
  cases e with
  | lit _ => simp [lowerE] at h
  | var _ => simp [lowerE] at h
  | host f args => simp [lowerE, Option.bind_eq_some_iff] at h
  | call f args => simp [lowerE, Option.bind_eq_some_iff] at h
  | bin op l r => simp [lowerE, Option.bind_eq_some_iff] at h
  | eqH ne l r => simp [lowerE, Option.bind_eq_some_iff] at h
  | not e1 => simp [lowerE, Option.bind_eq_some_iff] at h
  | neg e1 => simp [lowerE, Option.bind_eq_some_iff] at h
  | «while» cnd b => simp [lowerE, Option.bind_eq_some_iff] at h
  | assign y e1 => simp [lowerE, Option.bind_eq_some_iff] at h
  | cassign op y e1 => simp [lowerE, Option.bind_eq_some_iff] at h
  | assignF y i e1 => simp [lowerE, Option.bind_eq_some_iff] at h
  | cassignF op y i e1 => simp [lowerE, Option.bind_eq_some_iff] at h
  | ret e1 => simp [lowerE, Option.bind_eq_some_iff] at h
  | accept e1 => simp [lowerE, Option.bind_eq_some_iff] at h
  | reject e1 => simp [lowerE, Option.bind_eq_some_iff] at h
  | «try» e1 => simp [lowerE, Option.bind_eq_some_iff] at h
  | «for» y l b => simp [lowerE, Option.bind_eq_some_iff] at h
  | field e1 i =>
    by_cases hv : ∃ y, e1 = .var y
    · obtain ⟨y, rfl⟩ := hv; simp [lowerE] at h
    · obtain ⟨_, _, _, _, _, hv', _⟩ := lowerE_field_inv hv h; cases hv'
  | and l r =>
    simp [lowerE, Option.bind_eq_some_iff] at h
    obtain ⟨_, _, _, _, _, _, _, _, _, rfl, _⟩ := h
    exact ⟨c, rfl, Nat.le_refl _⟩
  | or l r =>
    simp [lowerE, Option.bind_eq_some_iff] at h
    obtain ⟨_, _, _, _, _, _, _, _, _, rfl, _⟩ := h
    exact ⟨c, rfl, Nat.le_refl _⟩
  | ite cnd th el =>
    simp [lowerE, Option.bind_eq_some_iff] at h
    obtain ⟨cc, vc, c1, h1, ct, xt, c2, h2, _, _, _, _, _, rfl, _⟩ := h
    have ⟨m1, b1⟩ := lowerE_mono cnd c cc vc c1 h1
    have ⟨a1, _⟩ := atv_spec vc c1 b1
    have ⟨m2, _⟩ := lowerBlock_mono th _ ct xt c2 h2
    exact ⟨c2, rfl, by omega⟩
  | if1 cnd th =>
    simp [lowerE, Option.bind_eq_some_iff] at h
    obtain ⟨cc, vc, c1, h1, ct, xt, c2, h2, _, rfl, _⟩ := h
    have ⟨m1, b1⟩ := lowerE_mono cnd c cc vc c1 h1
    have ⟨a1, _⟩ := atv_spec vc c1 b1
    have ⟨m2, _⟩ := lowerBlock_mono th _ ct xt c2 h2
    exact ⟨c2, rfl, by omega⟩
  | block b =>
    simp [lowerE, Option.bind_eq_some_iff] at h
    obtain ⟨cb, xb, c1, h1, _, rfl, _⟩ := h
    have ⟨m1, _⟩ := lowerBlock_mono b c cb xb c1 h1
    exact ⟨c1, rfl, m1⟩
  | some e1 =>
    simp [lowerE, Option.bind_eq_some_iff] at h
    obtain ⟨ce, ve, c1, h1, _, rfl, _⟩ := h
    have ⟨m1, b1⟩ := lowerE_mono e1 c ce ve c1 h1
    have ⟨a1, _⟩ := atv_spec ve c1 b1
    exact ⟨_, rfl, by omega⟩
  | none =>
    simp [lowerE] at h
    obtain ⟨_, rfl, _⟩ := h
    exact ⟨c, rfl, Nat.le_refl _⟩
  | ctor k args =>
    simp [lowerE, Option.bind_eq_some_iff] at h
    obtain ⟨ca, xs, c1, h1, _, rfl, _⟩ := h
    have ⟨m1, _⟩ := lowerCtorArgs_mono args c ca xs c1 h1
    exact ⟨c1, rfl, m1⟩
  | record perm fs =>
    obtain ⟨ca, xs, c1, h1, _, _, hv, _⟩ := lowerE_record_inv h
    cases hv
    have ⟨m1, _⟩ := lowerCtorArgs_mono fs c ca xs c1 h1
    exact ⟨c1, rfl, m1⟩
  | list es =>
    simp [lowerE, Option.bind_eq_some_iff] at h
    obtain ⟨_, _, _, _, rfl, _⟩ := h
    exact ⟨c, rfl, Nat.le_refl _⟩
  | fstr ps =>
    simp [lowerE, Option.bind_eq_some_iff] at h
    obtain ⟨_, _, _, _, rfl, _⟩ := h
    exact ⟨c, rfl, Nat.le_refl _⟩
  | concat l r =>
    simp [lowerE, Option.bind_eq_some_iff] at h
    obtain ⟨cl, vl, c1, h1, cr, vr, c2, h2, _, rfl, _⟩ := h
    have ⟨m1, b1⟩ := lowerE_mono l c cl vl c1 h1
    have ⟨a1, _⟩ := atv_spec vl c1 b1
    have ⟨m2, b2⟩ := lowerE_mono r _ cr vr c2 h2
    have ⟨a2, _⟩ := atv_spec vr c2 b2
    exact ⟨_, rfl, by omega⟩
  | mtch s isOpt arms =>
    obtain ⟨_, ce, ve, c1, ch0, c0, ch1, c1', ch2, c2, dflt, c3, codes, h1, h2, h3, h4, h5, h6, _, hv⟩ := lowerE_mtch_inv h
    cases hv
    have ⟨m1, b1⟩ := lowerE_mono s c ce ve c1 h1
    have ⟨a1, _⟩ := atv_spec ve c1 b1
    have m2 := lowerChain_mono arms _ _ _ _ _ ch0 c0 h2
    have m3 := lowerChain_mono arms _ _ _ _ _ ch1 c1' h3
    have m4 := lowerChain_mono arms _ _ _ _ _ ch2 c2 h4
    have m5 := lowerChain_mono arms _ _ _ _ _ dflt c3 h5
    exact ⟨c3, rfl, by omega⟩

/-- the variable `assign_to_var` leaves the value in was allocated at or above the start counter -/
theorem atvVar_lower (e : Expr) (c : Nat) (code : Code) (v : Value) (c1 : Nat)
    (h : lowerE e c = some (code, v, c1)) {k : Nat} (hk : atvVar v c1 = .t k) : c ≤ k := by
  have ⟨m1, _⟩ := lowerE_mono e c code v c1 h
  by_cases hmv : ∃ x, v = .move x
  · obtain ⟨x, rfl⟩ := hmv
    obtain ⟨k', rfl, hk'⟩ := lowerE_moveLower e c code x c1 h
    simp [atvVar] at hk; subst hk; exact hk'
  · have : atvVar v c1 = .t c1 := by cases v <;> simp_all [atvVar]
    rw [this] at hk; cases hk; exact m1

end RotoV.LowerS
