/-
  Registration (C18): WHICH error a rejected registration reports.

  A pass stops at its first failing operation; the kind of the error is the
  kind of that operation's failure.  For every pass: the kind that is reported
  names a defect the library really has, in the property's words — stated
  against the table the pass starts from (`runD_err`, `runT_err`, `runI_err`).
-/
import RotoV.Lemmas.RegistrationAccepts

namespace RotoV.Reg

/-- a failing run stops at a first failing operation, after a prefix that ran -/
theorem runL_err_split {α : Type} (run : α → St → Res St) :
    ∀ (l : List α) (st : St) (e : Err), runL run l st = .err e →
      ∃ pre o post st1, l = pre ++ o :: post ∧ runL run pre st = .ok st1 ∧ run o st1 = .err e
  | [], st, e, h => by simp [runL] at h
  | a :: l, st, e, h => by
    simp only [runL] at h
    cases hr : run a st with
    | ok st' =>
      rw [hr] at h
      obtain ⟨pre, o, post, st1, hl, hp, ho⟩ := runL_err_split run l st' e h
      refine ⟨a :: pre, o, post, st1, by rw [hl]; rfl, ?_, ho⟩
      simp only [runL, hr]
      exact hp
    | err e' =>
      rw [hr] at h
      cases h
      exact ⟨[], a, l, st, rfl, rfl, hr⟩
    | panic s => rw [hr] at h; cases h

/-! ## the conversion of a signature only ever fails for an unregistered type -/

theorem convTy_err (st : St) : ∀ (t : RustTy) (e : Err), convTy st t = .err e →
    e = .unregistered ∧ ∃ i ∈ t.ids, st.types i = none := by
  intro t
  induction t with
  | unit => intro e h; simp [convTy] at h
  | reg id =>
    intro e h
    cases ht : st.types id with
    | none => simp only [convTy, ht] at h; cases h; exact ⟨rfl, id, by simp [RustTy.ids], ht⟩
    | some nm => simp [convTy, ht] at h
  | option t ih =>
    intro e h
    simp only [convTy, bind, Res.bind, pure] at h
    cases hc : convTy st t with
    | ok t' => simp [hc] at h
    | err e' => rw [hc] at h; cases h; exact ih _ hc
    | panic s => simp [hc] at h
  | list t ih =>
    intro e h
    simp only [convTy, bind, Res.bind, pure] at h
    cases hc : convTy st t with
    | ok t' => simp [hc] at h
    | err e' => rw [hc] at h; cases h; exact ih _ hc
    | panic s => simp [hc] at h
  | verdict a r iha ihr =>
    intro e h
    simp only [convTy, bind, Res.bind, pure] at h
    cases hc : convTy st a with
    | ok a' =>
      rw [hc] at h
      cases hd : convTy st r with
      | ok r' => simp [hd] at h
      | err e' =>
        rw [hd] at h; cases h
        obtain ⟨h1, i, hi, h2⟩ := ihr _ hd
        exact ⟨h1, i, by simp [RustTy.ids, hi], h2⟩
      | panic s => simp [hd] at h
    | err e' =>
      rw [hc] at h; cases h
      obtain ⟨h1, i, hi, h2⟩ := iha _ hc
      exact ⟨h1, i, by simp [RustTy.ids, hi], h2⟩
    | panic s => simp [hc] at h
  | result a r iha ihr =>
    intro e h
    simp only [convTy, bind, Res.bind, pure] at h
    cases hc : convTy st a with
    | ok a' =>
      rw [hc] at h
      cases hd : convTy st r with
      | ok r' => simp [hd] at h
      | err e' =>
        rw [hd] at h; cases h
        obtain ⟨h1, i, hi, h2⟩ := ihr _ hd
        exact ⟨h1, i, by simp [RustTy.ids, hi], h2⟩
      | panic s => simp [hd] at h
    | err e' =>
      rw [hc] at h; cases h
      obtain ⟨h1, i, hi, h2⟩ := iha _ hc
      exact ⟨h1, i, by simp [RustTy.ids, hi], h2⟩
    | panic s => simp [hc] at h

theorem convTys_err (st : St) : ∀ (ts : List RustTy) (e : Err), convTys st ts = .err e →
    e = .unregistered ∧ ∃ i ∈ ts.flatMap RustTy.ids, st.types i = none
  | [], e, h => by simp [convTys] at h
  | t :: ts, e, h => by
    simp only [convTys, bind, Res.bind, pure] at h
    cases hc : convTy st t with
    | ok t' =>
      rw [hc] at h
      cases hd : convTys st ts with
      | ok ts' => simp [hd] at h
      | err e' =>
        rw [hd] at h; cases h
        obtain ⟨h1, i, hi, h2⟩ := convTys_err st ts _ hd
        exact ⟨h1, i, by simp only [List.flatMap_cons, List.mem_append]; exact Or.inr hi, h2⟩
      | panic s => simp [hd] at h
    | err e' =>
      rw [hc] at h; cases h
      obtain ⟨h1, i, hi, h2⟩ := convTy_err st t _ hc
      exact ⟨h1, i, by simp only [List.flatMap_cons, List.mem_append]; exact Or.inl hi, h2⟩
    | panic s => simp [hc] at h

section
variable (lex : Name → Lex)

/-- what an operation's own precondition can fail with, and why -/
def DOp.PreFails (st : St) (o : DOp) (e : Err) : Prop :=
  (e = .nestedInImpl ∧ o = .nested) ∨
  (e = .invalidName ∧ ¬ o.nameOk lex) ∨
  (e = .unregistered ∧ ∃ i ∈ o.mentions, st.types i = none)

theorem fnPre_err {st : St} {scope : ScopeId} {n : Name} {ps : List RustTy} {r : RustTy} {tag : Nat}
    {m : Bool} {e : Err} (h : fnPre lex st scope n ps r tag m = .err e) :
    (e = .invalidName ∧ ¬ ValidName (lex n)) ∨
    (e = .unregistered ∧ ∃ i ∈ ps.flatMap RustTy.ids ++ r.ids, st.types i = none) := by
  unfold fnPre at h
  by_cases hc : checkName Cfg.fixed (lex n) = true
  · simp only [hc, Bool.not_true, Bool.false_eq_true, if_false] at h
    right
    cases hp : convTys st ps with
    | ok ps' =>
      rw [hp] at h
      cases hr : convTy st r with
      | ok r' => simp [hr] at h
      | err e' =>
        rw [hr] at h; cases h
        obtain ⟨h1, i, hi, h2⟩ := convTy_err st r _ hr
        exact ⟨h1, i, List.mem_append.mpr (Or.inr hi), h2⟩
      | panic s => simp [hr] at h
    | err e' =>
      rw [hp] at h; cases h
      obtain ⟨h1, i, hi, h2⟩ := convTys_err st ps _ hp
      exact ⟨h1, i, List.mem_append.mpr (Or.inl hi), h2⟩
    | panic s => simp [hp] at h
  · left
    have hc' : checkName Cfg.fixed (lex n) = false := by simpa using hc
    simp only [hc', Bool.not_false, if_true] at h
    cases h
    exact ⟨rfl, fun hv => hc ((checkName_fixed_iff _).mpr hv)⟩

theorem constPre_err {st : St} {scope : ScopeId} {n : Name} {ty : RustTy} {tag : Nat} {e : Err}
    (h : constPre st scope n ty tag = .err e) :
    e = .unregistered ∧ ∃ i ∈ ty.ids, st.types i = none := by
  unfold constPre at h
  cases hc : convTy st ty with
  | ok t' => simp [hc] at h
  | err e' => rw [hc] at h; cases h; exact convTy_err st ty _ hc
  | panic s => simp [hc] at h

theorem implScope_err {st : St} {ty : TyId} {e : Err} (h : implScope ty st = .err e) :
    e = .unregistered ∧ st.types ty = none := by
  unfold implScope at h
  cases ht : st.types ty with
  | none => simp only [ht] at h; cases h; exact ⟨rfl, rfl⟩
  | some nm =>
    simp only [ht] at h
    split at h <;> cases h

theorem DOp.pre_err {st : St} (o : DOp) {e : Err} (h : o.pre lex st = .err e) : o.PreFails lex st e := by
  unfold DOp.PreFails
  cases o with
  | mod s n => simp [DOp.pre] at h
  | fn s n ps r tag =>
    simp only [DOp.pre] at h
    rcases fnPre_err lex h with ⟨h1, h2⟩ | ⟨h1, h2⟩
    · exact Or.inr (Or.inl ⟨h1, h2⟩)
    · exact Or.inr (Or.inr ⟨h1, h2⟩)
  | implCheck ty =>
    simp only [DOp.pre] at h
    cases hs : implScope ty st with
    | ok s => simp [hs] at h
    | err e' =>
      rw [hs] at h; cases h
      obtain ⟨h1, h2⟩ := implScope_err hs
      exact Or.inr (Or.inr ⟨h1, ty, by simp [DOp.mentions], h2⟩)
    | panic s => simp [hs] at h
  | method ty n ps r tag =>
    simp only [DOp.pre] at h
    cases hs : implScope ty st with
    | ok s =>
      rw [hs] at h
      rcases fnPre_err lex h with ⟨h1, h2⟩ | ⟨h1, i, hi, h2⟩
      · exact Or.inr (Or.inl ⟨h1, h2⟩)
      · exact Or.inr (Or.inr ⟨h1, i, by simp only [DOp.mentions, List.mem_cons]; exact Or.inr hi, h2⟩)
    | err e' =>
      rw [hs] at h; cases h
      obtain ⟨h1, h2⟩ := implScope_err hs
      exact Or.inr (Or.inr ⟨h1, ty, by simp [DOp.mentions], h2⟩)
    | panic s => simp [hs] at h
  | nested => simp only [DOp.pre] at h; cases h; exact Or.inl ⟨rfl, rfl⟩
  | const s n ty tag =>
    simp only [DOp.pre] at h
    obtain ⟨h1, h2⟩ := constPre_err h
    exact Or.inr (Or.inr ⟨h1, h2⟩)
  | implConst ty n cty tag =>
    simp only [DOp.pre] at h
    cases hs : implScope ty st with
    | ok s =>
      rw [hs] at h
      obtain ⟨h1, i, hi, h2⟩ := constPre_err h
      exact Or.inr (Or.inr ⟨h1, i, by simp only [DOp.mentions, List.mem_cons]; exact Or.inr hi, h2⟩)
    | err e' =>
      rw [hs] at h; cases h
      obtain ⟨h1, h2⟩ := implScope_err hs
      exact Or.inr (Or.inr ⟨h1, ty, by simp [DOp.mentions], h2⟩)
    | panic s => simp [hs] at h

/-- **passes 1, 3, 4: the kind that is reported names a defect the pass's
    operations have**, against the table the pass starts from:
    `nestedInImpl` — something is nested in an impl block; `invalidName` — a
    function / method name is not a valid identifier; `unregistered` — an
    operation mentions a type that is not registered; `nameTaken` — the names the
    operations bind are not pairwise different and free. -/
theorem runD_err {st : St} (hw : WF st) (l : List DOp) (e : Err)
    (h : runL (DOp.run lex) l st = .err e) :
    (e = .nestedInImpl ∧ DOp.nested ∈ l) ∨
    (e = .invalidName ∧ ∃ o ∈ l, ¬ o.nameOk lex) ∨
    (e = .unregistered ∧ ∃ o ∈ l, ∃ i ∈ o.mentions, st.types i = none) ∨
    (e = .nameTaken ∧ ¬ Fresh (fun k => st.decls k) (l.filterMap (DOp.key st.types))) := by
  obtain ⟨pre, o, post, st1, hl, hp, ho⟩ := runL_err_split (DOp.run lex) l st e h
  have g := guardedD lex
  obtain ⟨cpre, e1⟩ := (runL_ok_iff g pre st hw st1).mp hp
  have w1 : WF st1 := runL_wf (DOp.run_good lex) hw hp
  have ht : st1.types = st.types := by rw [e1]; exact (setAll_insertDecl_types _ st).1
  have hmem : o ∈ l := by rw [hl]; simp
  rw [DOp.run_eq_gi] at ho
  unfold gi at ho
  cases hpre : o.pre lex st1 with
  | panic s => simp [hpre] at ho
  | err e' =>
    rw [hpre] at ho
    cases ho
    rcases DOp.pre_err lex o hpre with ⟨h1, h2⟩ | ⟨h1, h2⟩ | ⟨h1, i, hi, h2⟩
    · exact Or.inl ⟨h1, h2 ▸ hmem⟩
    · exact Or.inr (Or.inl ⟨h1, o, hmem, h2⟩)
    · exact Or.inr (Or.inr (Or.inl ⟨h1, o, hmem, i, hi, by rw [← ht]; exact h2⟩))
  | ok v =>
    rw [hpre] at ho
    cases v with
    | none => simp at ho
    | some kd =>
      obtain ⟨k, d⟩ := kd
      simp only at ho
      cases hk : st1.decls k with
      | none => simp [hk] at ho
      | some d' =>
        simp only [hk] at ho
        cases ho
        refine Or.inr (Or.inr (Or.inr ⟨rfl, ?_⟩))
        -- the key of `o`
        have hok : o.okp lex st1 := ⟨_, hpre⟩
        have hent : o.ent lex st1 = some (k, d) := by simp [DOp.ent, hpre]
        have hkey : o.key st.types = some k := by
          have := DOp.ent_key lex w1 o hok
          rw [hent, ht] at this
          simpa using this.symm
        -- the keys of the prefix
        have hkeys := keys_eq lex hw pre cpre.1
        rintro ⟨hnd, hfree⟩
        rw [hl, List.filterMap_append, List.filterMap_cons, hkey] at hnd hfree
        have hfree_k : st.decls k = none := hfree k (by simp)
        -- `k` is bound in `st1`: by the prefix
        have hin : k ∈ pre.filterMap (DOp.key st.types) := by
          rw [← hkeys]
          have hex := (insertAll_decls (entsL (DOp.ent lex) st pre) st cpre.2.1 cpre.2.2 k d').mp (by rw [← e1]; exact hk)
          rcases hex with hex | hex
          · rw [hfree_k] at hex; cases hex
          · exact List.mem_map.mpr ⟨(k, d'), hex, rfl⟩
        have := (List.nodup_append.mp hnd).2.2 k hin k (by simp)
        exact this rfl

end

/-! ## pass 2 -/

/-- the name of a `type` item is free for a type: no registered type has it,
    and nothing is declared under it — or only a pre-declared primitive -/
def TOp.nameFree (st : St) (t : TOp) : Prop :=
  st.typeNames t.nm = false ∧ (st.decls t.nm = none ∨ ∃ d, st.decls t.nm = some d ∧ d.kind = .prim)

theorem TOp.free_iff (st : St) (t : TOp) : t.free st ↔ st.types t.id = none ∧ t.nameFree st := Iff.rfl

theorem TOp.run_err (t : TOp) (st : St) (e : Err) (h : t.run st = .err e) :
    (e = .typeTwice ∧ st.types t.id ≠ none) ∨ (e = .nameTaken ∧ ¬ t.nameFree st) := by
  unfold TOp.run declareType at h
  unfold TOp.nameFree
  simp only [TOp.nm, Cfg.fixed, Bool.not_false, Bool.true_and, Bool.false_eq_true, if_false] at h ⊢
  cases ht : st.types t.id with
  | some nm => simp only [ht] at h; cases h; exact Or.inl ⟨rfl, by simp⟩
  | none =>
    simp only [ht] at h
    right
    cases hn : st.typeNames ⟨t.scope, t.n⟩ with
    | true => simp only [hn, if_true] at h; cases h; exact ⟨rfl, by simp⟩
    | false =>
      simp only [hn, Bool.false_eq_true, if_false] at h
      cases hd : st.decls ⟨t.scope, t.n⟩ with
      | none => simp [hd] at h
      | some d =>
        by_cases hp : d.kind = .prim
        · simp [hd, hp] at h
        · simp only [hd, hp, decide_false, Bool.false_eq_true, if_false] at h
          cases h
          exact ⟨rfl, by simp [hp]⟩

theorem TOp.apply_types (st : St) (t : TOp) (j : TyId) :
    (t.apply st).types j = if j = t.id then some t.nm else st.types j := by
  rw [TOp.apply_eq]; rfl

theorem foldl_apply_types_none : ∀ (l : List TOp) (st : St) (i : TyId),
    (l.foldl TOp.apply st).types i = none ↔ st.types i = none ∧ i ∉ l.map (·.id)
  | [], st, i => by simp
  | t :: l, st, i => by
    simp only [List.foldl_cons, List.map_cons, List.mem_cons, not_or]
    rw [foldl_apply_types_none l (t.apply st) i, TOp.apply_types]
    by_cases h : i = t.id
    · simp [h]
    · simp [h]

theorem TOp.nameFree_apply (st : St) (t t' : TOp) (hne : t'.nm ≠ t.nm) :
    t'.nameFree (t.apply st) ↔ t'.nameFree st := by
  have hnames : (t.apply st).typeNames t'.nm = st.typeNames t'.nm := by
    unfold TOp.apply
    cases st.decls t.nm <;> simp [St.insertType, St.insertDecl, hne]
  have hdecls : (t.apply st).decls t'.nm = st.decls t'.nm := by
    unfold TOp.apply
    cases st.decls t.nm <;> simp [St.insertType, St.insertDecl, hne]
  unfold TOp.nameFree
  rw [hnames, hdecls]

theorem foldl_apply_nameFree : ∀ (l : List TOp) (st : St) (t' : TOp), (∀ t ∈ l, t'.nm ≠ t.nm) →
    (t'.nameFree (l.foldl TOp.apply st) ↔ t'.nameFree st)
  | [], _, _, _ => Iff.rfl
  | t :: l, st, t', h => by
    simp only [List.foldl_cons]
    rw [foldl_apply_nameFree l (t.apply st) t' (fun a ha => h a (List.mem_cons_of_mem _ ha))]
    exact TOp.nameFree_apply st t t' (h t (List.mem_cons_self ..))

/-- **pass 2: the kind that is reported names the defect**: `typeTwice` — a Rust
    type is registered by two `type` items or is registered already; `nameTaken` —
    two `type` items have one name, or the name is that of a registered type or of
    a declaration other than a pre-declared primitive. -/
theorem runT_err (l : List TOp) (st : St) (e : Err) (h : runL TOp.run l st = .err e) :
    (e = .typeTwice ∧ ¬ ((l.map (·.id)).Nodup ∧ ∀ t ∈ l, st.types t.id = none)) ∨
    (e = .nameTaken ∧ ¬ ((l.map (·.nm)).Nodup ∧ ∀ t ∈ l, t.nameFree st)) := by
  obtain ⟨pre, t, post, st1, hl, hp, ho⟩ := runL_err_split TOp.run l st e h
  obtain ⟨_, e1⟩ := (runT_ok_iff pre st st1).mp hp
  have hmem : t ∈ l := by rw [hl]; simp
  rcases TOp.run_err t st1 e ho with ⟨h1, h2⟩ | ⟨h1, h2⟩
  · refine Or.inl ⟨h1, ?_⟩
    rintro ⟨hnd, hfree⟩
    apply h2
    rw [e1, foldl_apply_types_none]
    refine ⟨hfree t hmem, ?_⟩
    rw [hl, List.map_append, List.map_cons] at hnd
    intro hin
    exact (List.nodup_append.mp hnd).2.2 _ hin _ (by simp) rfl
  · refine Or.inr ⟨h1, ?_⟩
    rintro ⟨hnd, hfree⟩
    apply h2
    rw [e1, foldl_apply_nameFree pre st t]
    · exact hfree t hmem
    · intro a ha hne
      rw [hl, List.map_append, List.map_cons] at hnd
      exact (List.nodup_append.mp hnd).2.2 _ (List.mem_map.mpr ⟨a, ha, rfl⟩) _ (by simp) hne.symm

/-! ## pass 5 -/

theorem runImport_err (p : List Name) (st : St) (e : Err) (h : runImport p st = .err e) :
    (e = .emptyPath ∧ p = []) ∨ (e = .noScope ∧ ¬ impOk st p) ∨
    (e = .nameTaken ∧ ∃ k v, impEnt st p = some (k, v) ∧ st.imports [] k ≠ none) := by
  unfold runImport declareImport at h
  unfold impOk impEnt
  cases hl : p.getLast? with
  | none =>
    simp only [hl, Cfg.fixed, Bool.false_eq_true, if_false] at h
    cases h
    exact Or.inl ⟨rfl, List.getLast?_eq_none_iff.mp hl⟩
  | some last =>
    simp only [hl] at h ⊢
    rw [walkPath_fixed_eq] at h
    cases hs : scopeAt st [] p.dropLast with
    | none => simp only [hs] at h; cases h; exact Or.inr (Or.inl ⟨rfl, by simp⟩)
    | some s =>
      simp only [hs] at h
      cases hi : st.imports [] last with
      | none => simp [hi] at h
      | some tgt =>
        simp only [hi] at h
        cases h
        exact Or.inr (Or.inr ⟨rfl, last, ⟨s, last⟩, rfl, by simp [hi]⟩)

theorem impEnt_congr {st st' : St} (h : st'.decls = st.decls) (p : List Name) : impEnt st' p = impEnt st p := by
  unfold impEnt
  rw [scopeAt_congr h]

/-- **pass 5: the kind that is reported names the defect**: `emptyPath` — a
    `use` item has an empty path; `noScope` — a path leads through something that
    owns no scope; `nameTaken` — two paths import one name, or the name is
    imported already. -/
theorem runI_err (l : List (List Name)) (st : St) (e : Err) (h : runL runImport l st = .err e) :
    (e = .emptyPath ∧ [] ∈ l) ∨ (e = .noScope ∧ ∃ p ∈ l, ¬ impOk st p) ∨
    (e = .nameTaken ∧ ¬ Fresh (fun k => st.imports [] k) ((entsL impEnt st l).map (·.1))) := by
  obtain ⟨pre, p, post, st1, hl, hp, ho⟩ := runL_err_split runImport l st e h
  obtain ⟨cpre, e1⟩ := (runL_ok_iff guardedI pre st trivial st1).mp hp
  have hd : st1.decls = st.decls := by rw [e1]; exact (setAll_insertImport_decls _ st).1
  have hmem : p ∈ l := by rw [hl]; simp
  rcases runImport_err p st1 e ho with ⟨h1, h2⟩ | ⟨h1, h2⟩ | ⟨h1, k, v, h2, h3⟩
  · exact Or.inl ⟨h1, h2 ▸ hmem⟩
  · refine Or.inr (Or.inl ⟨h1, p, hmem, ?_⟩)
    unfold impOk at h2 ⊢
    rw [impEnt_congr hd] at h2
    exact h2
  · refine Or.inr (Or.inr ⟨h1, ?_⟩)
    rw [impEnt_congr hd] at h2
    rintro ⟨hnd, hfree⟩
    have hents : entsL impEnt st l = entsL impEnt st pre ++ (k, v) :: entsL impEnt st post := by
      unfold entsL
      rw [hl, List.filterMap_append, List.filterMap_cons, h2]
    rw [hents, List.map_append, List.map_cons] at hnd hfree
    have hfree_k : st.imports [] k = none := hfree k (by simp)
    cases hk : st1.imports [] k with
    | none => exact h3 hk
    | some tgt =>
      have hex := (insertAll_imports (entsL impEnt st pre) st cpre.2.1 cpre.2.2 [] k tgt).mp (by rw [← e1]; exact hk)
      rcases hex with hex | ⟨_, hex⟩
      · rw [hfree_k] at hex; cases hex
      · have hin : k ∈ (entsL impEnt st pre).map (·.1) := List.mem_map.mpr ⟨(k, tgt), hex, rfl⟩
        exact (List.nodup_append.mp hnd).2.2 k hin k (by simp) rfl

/-! ## the whole registration -/

section
variable (lex : Name → Lex)

/-- **The defect a reported kind names**, in the words of `Accepts` (each line is
    the negation of a clause of `Accepts`, or of a part of one): -/
def KindDefect (st : St) (items : Items) : Err → Prop
  /- (1) a name is not a valid, non-keyword identifier -/
  | .invalidName => ¬ NamesValid lex items ∨ ∃ o ∈ ops3 items, ¬ o.nameOk lex
  /- (3) a Rust type is registered twice: by two `type` items, or in the runtime already -/
  | .typeTwice => ¬ (((ops2 items).map (·.id)).Nodup ∧ ∀ t ∈ ops2 items, st.types t.id = none)
  /- (4) a signature / impl block (pass 3) or a constant / impl block (pass 4) mentions a type that is
     registered neither in the runtime nor by a `type` item of the library -/
  | .unregistered => (∃ o ∈ ops3 items, ∃ i ∈ o.mentions, ¬ Registered st items i) ∨
      (∃ o ∈ ops4 items, ∃ i ∈ o.mentions, ¬ Registered st items i)
  /- a module / type / impl block inside an impl block -/
  | .nestedInImpl => DOp.nested ∈ ops3 items ∨ DOp.nested ∈ ops4 items
  /- a `use` item with an empty path -/
  | .emptyPath => [] ∈ ops5 items
  /- a `use` path through something that owns no scope -/
  | .noScope => ∃ p ∈ ops5 items, ¬ impOk (S4 lex st items) p
  /- (2) a name is taken: one of the five "pairwise different and free" clauses fails -/
  | .nameTaken =>
      ¬ Fresh (fun k => st.decls k) ((ops1 items).filterMap (DOp.key st.types)) ∨
      ¬ (((ops2 items).map (·.nm)).Nodup ∧ ∀ t ∈ ops2 items,
          st.typeNames t.nm = false ∧ ((S1 lex st items).decls t.nm = none ∨
            ∃ d, (S1 lex st items).decls t.nm = some d ∧ d.kind = .prim)) ∨
      ¬ Fresh (fun k => (S2 lex st items).decls k) ((ops3 items).filterMap (DOp.key (S2 lex st items).types)) ∨
      ¬ Fresh (fun k => (S3 lex st items).decls k) ((ops4 items).filterMap (DOp.key (S3 lex st items).types)) ∨
      ¬ Fresh (fun k => st.imports [] k) ((entsL impEnt (S4 lex st items) (ops5 items)).map (·.1))

/-- every `KindDefect` is the failure of a clause of `Accepts` -/
theorem accepts_no_kindDefect {st : St} {items : Items} (a : Accepts lex st items) (e : Err) :
    ¬ KindDefect lex st items e := by
  cases e with
  | invalidName =>
    rintro (h | ⟨o, ho, h⟩)
    · exact h a.names
    · exact h (a.functions_ok o ho).2.1
  | nameTaken =>
    rintro (h | h | h | h | h)
    · exact h a.modules_fresh
    · exact h a.types_fresh
    · exact h a.functions_fresh
    · exact h a.constants_fresh
    · exact h a.uses_fresh
  | typeTwice => exact fun h => h a.types_once
  | unregistered =>
    rintro (⟨o, ho, i, hi, h⟩ | ⟨o, ho, i, hi, h⟩)
    · exact h ((a.functions_ok o ho).2.2 i hi)
    · exact h ((a.constants_ok o ho).2 i hi)
  | nestedInImpl =>
    rintro (h | h)
    · exact (a.functions_ok _ h).1 rfl
    · exact (a.constants_ok _ h).1 rfl
  | noScope => rintro ⟨p, hp, h⟩; exact h (a.uses_ok p hp)
  | emptyPath =>
    intro h
    have := a.uses_ok [] h
    simp [impOk, impEnt] at this

/-- **The kind of a registration error names a defect the library has**: for
    every library, lexer verdict and well-formed runtime, if the registration is
    rejected with an error of kind `e`, the library violates the clause of
    `Accepts` that `e` stands for (`KindDefect`). -/
theorem register_err_kind {st : St} (hw : WF st) (items : Items) (e : Err)
    (h : register Cfg.fixed lex st items = .err e) : KindDefect lex st items e := by
  unfold register at h
  by_cases hn : namesOk Cfg.fixed lex items = true
  · rw [if_pos hn, add_eq lex hw] at h
    have g := guardedD lex
    have t1 : (S1 lex st items).types = st.types := (setAll_insertDecl_types _ st).1
    have n1 : (S1 lex st items).typeNames = st.typeNames := (setAll_insertDecl_types _ st).2.1
    unfold addOps at h
    cases h1 : runL (DOp.run lex) (ops1 items) st with
    | panic s => simp [h1] at h
    | err e1 =>
      simp only [h1] at h
      cases h
      rcases runD_err lex hw _ _ h1 with ⟨_, hm⟩ | ⟨_, o, ho, hm⟩ | ⟨_, o, ho, i, hi, _⟩ | ⟨rfl, hm⟩
      · obtain ⟨s, n, hsn⟩ := ops1_mod items _ hm; cases hsn
      · obtain ⟨s, n, rfl⟩ := ops1_mod items o ho; exact absurd trivial hm
      · obtain ⟨s, n, rfl⟩ := ops1_mod items o ho; simp [DOp.mentions] at hi
      · exact Or.inl hm
    | ok st1 =>
      simp only [h1] at h
      have w1 := runL_wf (DOp.run_good lex) hw h1
      obtain ⟨_, e1⟩ := (runL_ok_iff g _ st hw st1).mp h1
      have e1' : st1 = S1 lex st items := e1
      subst e1'
      cases h2 : runL TOp.run (ops2 items) (S1 lex st items) with
      | panic s => simp [h2] at h
      | err e2 =>
        simp only [h2] at h
        cases h
        rcases runT_err _ _ _ h2 with ⟨rfl, hm⟩ | ⟨rfl, hm⟩
        · rw [t1] at hm; exact hm
        · refine Or.inr (Or.inl ?_)
          intro hc
          apply hm
          refine ⟨hc.1, fun t ht => ?_⟩
          unfold TOp.nameFree
          rw [n1]
          exact hc.2 t ht
      | ok st2 =>
        simp only [h2] at h
        have w2 := runL_wf TOp.run_good w1 h2
        obtain ⟨_, e2⟩ := (runT_ok_iff _ _ st2).mp h2
        have e2' : st2 = S2 lex st items := e2
        subst e2'
        cases h3 : runL (DOp.run lex) (ops3 items) (S2 lex st items) with
        | panic s => simp [h3] at h
        | err e3 =>
          simp only [h3] at h
          cases h
          rcases runD_err lex w2 _ _ h3 with ⟨rfl, hm⟩ | ⟨rfl, hm⟩ | ⟨rfl, o, ho, i, hi, hm⟩ | ⟨rfl, hm⟩
          · exact Or.inl hm
          · exact Or.inr hm
          · exact Or.inl ⟨o, ho, i, hi, fun hr => (registered_iff lex st items i).mpr hr hm⟩
          · exact Or.inr (Or.inr (Or.inl hm))
        | ok st3 =>
          simp only [h3] at h
          have w3 := runL_wf (DOp.run_good lex) w2 h3
          obtain ⟨_, e3⟩ := (runL_ok_iff g _ _ w2 st3).mp h3
          have e3' : st3 = S3 lex st items := e3
          subst e3'
          cases h4 : runL (DOp.run lex) (ops4 items) (S3 lex st items) with
          | panic s => simp [h4] at h
          | err e4 =>
            simp only [h4] at h
            cases h
            rcases runD_err lex w3 _ _ h4 with ⟨rfl, hm⟩ | ⟨rfl, o, ho, hm⟩ | ⟨rfl, o, ho, i, hi, hm⟩ | ⟨rfl, hm⟩
            · exact Or.inr hm
            · exact absurd (ops4_nameOk lex items o ho) hm
            · exact Or.inr ⟨o, ho, i, hi, fun hr => (registered_iff3 lex st items i).mpr hr hm⟩
            · exact Or.inr (Or.inr (Or.inr (Or.inl hm)))
          | ok st4 =>
            simp only [h4] at h
            obtain ⟨_, e4⟩ := (runL_ok_iff g _ _ w3 st4).mp h4
            have e4' : st4 = S4 lex st items := e4
            subst e4'
            rcases runI_err _ _ _ h with ⟨rfl, hm⟩ | ⟨rfl, hm⟩ | ⟨rfl, hm⟩
            · exact hm
            · exact hm
            · rw [S4_imports] at hm
              exact Or.inr (Or.inr (Or.inr (Or.inr hm)))
  · rw [if_neg hn] at h
    cases h
    exact Or.inl (fun hv => hn ((namesOk_iff lex items).mpr hv))

end

end RotoV.Reg
