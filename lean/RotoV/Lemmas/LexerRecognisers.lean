/-
  Every recogniser of `next_token`, from a reachable state: no panic; either
  `Continue` or a non-empty token whose span starts at the lexer position, lies
  on character boundaries and ends at the new position.
-/
import RotoV.Lemmas.LexerBasics

namespace RotoV.Lex
open RotoV RotoV.Gen.LexTables

/-- what the proofs need from the generated punctuation tables: every byte
they match is ASCII (so `bump(2)` / `bump(1)` stays on a boundary). -/
structure TablesOk : Prop where
  two : ∀ e ∈ twoChar, e.1 < 128 ∧ e.2.1 < 128
  one : ∀ e ∈ oneChar, e.1 < 128

/-- outcome of a recogniser step from state `L` -/
def StepOk (src : List Char) (L : Lexer) (r : Step) : Prop :=
  r = .ok none ∨
  ∃ k sp L', r = .ok (some (k, sp, L')) ∧ sp.1 = L.pos ∧ sp.1 < sp.2 ∧ L'.pos = sp.2 ∧
    Reach src L' ∧ SpanOk src sp

/-- strict suffix: at least one byte shorter -/
def SSuffix (t s : List Char) : Prop := Suffix t s ∧ blen t < blen s

theorem SSuffix.of_cons (c : Char) (s : List Char) : SSuffix s (c :: s) :=
  ⟨Suffix.tail _ _, by have := sz_pos c; simp; omega⟩
theorem SSuffix.trans_left {a b c : List Char} (h1 : Suffix a b) (h2 : SSuffix b c) : SSuffix a c :=
  ⟨h1.trans h2.1, by have := h1.blen_le; have := h2.2; omega⟩
theorem SSuffix.trans_right {a b c : List Char} (h1 : SSuffix a b) (h2 : Suffix b c) : SSuffix a c :=
  ⟨h1.1.trans h2, by have := h2.blen_le; have := h1.2; omega⟩

theorem eatChar_ssuffix {c : Char} {s t : List Char} (h : eatChar c s = (true, t)) : SSuffix t s := by
  rw [eatChar_true h]; exact SSuffix.of_cons _ _

theorem eatStr_ssuffix {p s t : List Char} (hp : p ≠ []) (h : eatStr p s = (true, t)) : SSuffix t s := by
  have := eatStr_true h
  subst this
  refine ⟨⟨p, rfl⟩, ?_⟩
  rw [blen_append]
  cases p with
  | nil => exact absurd rfl hp
  | cons c cs => have := sz_pos c; simp; omega

theorem breakAt_stepOk {src : List Char} {L : Lexer} (h : Reach src L) {t : List Char}
    (hs : SSuffix t L.input) (kind : TokKind) : StepOk src L (breakAt L t kind) := by
  obtain ⟨⟨a, ha⟩, hlt⟩ := hs
  obtain ⟨sp, L', hr, h1, h2, h3, h4, h5, _⟩ := breakAt_ok h ha kind
  refine Or.inr ⟨kind, sp, L', hr, h1, ?_, h3, h4, h5⟩
  rw [ha, blen_append] at hlt
  omega

/-! ### simple recognisers -/

theorem ipv6_ok {src : List Char} {L : Lexer} (h : Reach src L) : StepOk src L (ipv6 L) := by
  unfold ipv6; dsimp only
  split
  · exact Or.inl rfl
  · rename_i t1 h1
    split
    · exact Or.inl rfl
    · rename_i t2 h2
      apply breakAt_stepOk h
      refine SSuffix.trans_left (eatWhile_suffix _ _) ?_
      refine SSuffix.trans_right (eatChar_ssuffix h2) ?_
      refine Suffix.trans (eatWhile_suffix _ _) ?_
      exact (eatChar_ssuffix h1).1.trans (eatWhile_suffix _ _)

theorem ipv4Group_ssuffix {s t : List Char} (h : ipv4Group s = some t) : SSuffix t s := by
  unfold ipv4Group at h
  split at h
  · cases h
  · rename_i t1 h1
    split at h
    · cases h
    · rename_i t2 h2
      injection h with h; subst h
      refine SSuffix.trans_right (eatChar_ssuffix h2) ?_
      have := eatWhile_suffix isAsciiDigit s
      rw [h1] at this; exact this

theorem ipv4_ok {src : List Char} {L : Lexer} (h : Reach src L) : StepOk src L (ipv4 L) := by
  unfold ipv4
  split
  · exact Or.inl rfl
  · rename_i t1 h1
    split
    · exact Or.inl rfl
    · rename_i t2 h2
      split
      · exact Or.inl rfl
      · rename_i t3 h3
        apply breakAt_stepOk h
        refine SSuffix.trans_left (eatWhile_suffix _ _) ?_
        refine SSuffix.trans_right (ipv4Group_ssuffix h3) ?_
        exact (ipv4Group_ssuffix h2).1.trans (ipv4Group_ssuffix h1).1

theorem asNumber_ok {src : List Char} {L : Lexer} (h : Reach src L) : StepOk src L (asNumber L) := by
  unfold asNumber
  split
  · exact Or.inl rfl
  · rename_i t1 h1
    split
    · exact Or.inl rfl
    · rename_i t2 h2
      apply breakAt_stepOk h
      have := eatWhile_suffix isAsciiDigit t1
      rw [h2] at this
      exact SSuffix.trans_left this (eatStr_ssuffix (by simp) h1)

theorem hexNumber_ok {src : List Char} {L : Lexer} (h : Reach src L) : StepOk src L (hexNumber L) := by
  unfold hexNumber
  split
  · exact Or.inl rfl
  · rename_i t1 h1
    apply breakAt_stepOk h
    exact SSuffix.trans_left (eatWhile_suffix _ _) (eatStr_ssuffix (by simp) h1)

theorem fString_ok {src : List Char} {L : Lexer} (h : Reach src L) : StepOk src L (fString L) := by
  unfold fString
  split
  · exact Or.inl rfl
  · rename_i t1 h1
    exact breakAt_stepOk h (eatStr_ssuffix (by simp) h1) _

theorem quoted_ok {src : List Char} {L : Lexer} (h : Reach src L) (q : Char) (k : TokKind) :
    StepOk src L (quoted q k L) := by
  unfold quoted; dsimp only
  split
  · exact Or.inl rfl
  · rename_i t1 h1
    split
    · exact Or.inl rfl
    · exact breakAt_stepOk h (SSuffix.trans_left (eatUntilQuote_suffix _ _ _) (eatChar_ssuffix h1)) _

theorem numberDot_suffix (t : List Char) : Suffix (numberDot t).2 t := by
  unfold numberDot
  cases hE : eatChar '.' t with
  | mk b u =>
    have := eatChar_suffix '.' t
    rw [hE] at this
    cases b
    · exact this
    · exact (eatWhile_suffix _ _).trans this

theorem numberExp_suffix (r : Bool × List Char) : Suffix (numberExp r).2 r.2 := by
  unfold numberExp
  cases hE : eatOneOf ['e', 'E'] r.2 with
  | mk b v =>
    have := eatOneOf_suffix ['e', 'E'] r.2
    rw [hE] at this
    cases b
    · exact Suffix.refl _
    · exact ((eatWhile_suffix _ _).trans (eatOneOf_suffix _ _)).trans this

theorem numberFloatPart_suffix (P : Preds) (t : List Char) : Suffix (numberFloatPart P t).2 t := by
  unfold numberFloatPart
  split
  · exact Suffix.refl _
  · exact (numberExp_suffix _).trans (numberDot_suffix _)

theorem number_ok {src : List Char} {L : Lexer} (h : Reach src L) (P : Preds) :
    StepOk src L (number P L) := by
  unfold number
  split
  · exact Or.inl rfl
  · rename_i hd
    dsimp only
    -- the input starts with a digit
    obtain ⟨c, cs, hin, hc⟩ : ∃ c cs, L.input = c :: cs ∧ isAsciiDigit c = true := by
      cases hi : L.input with
      | nil => rw [hi] at hd; simp [startsWith] at hd
      | cons c cs => rw [hi] at hd; simp [startsWith] at hd; exact ⟨c, cs, rfl, hd⟩
    have h1 : Suffix (eatWhile isRotoDigit L.input).2 cs := by
      rw [hin]; simp only [eatWhile, List.dropWhile_cons, isRotoDigit, hc, Bool.true_or, ite_true]
      exact dropWhile_suffix' _ _
    have h2 := (numberFloatPart_suffix P (eatWhile isRotoDigit L.input).2).trans h1
    generalize numberFloatPart P (eatWhile isRotoDigit L.input).2 = fp at h2 ⊢
    obtain ⟨a1', ha1'⟩ := h2
    -- input = (c :: a1') ++ fp.2
    have hin1 : L.input = (c :: a1') ++ fp.2 := by rw [hin, ha1']; rfl
    have h3 := eatWhile_suffix (fun c => P.xidContinue c || c == '_') fp.2
    generalize (eatWhile (fun c => P.xidContinue c || c == '_') fp.2).2 = t3 at h3 ⊢
    obtain ⟨a2, ha2⟩ := h3
    have hlen : usub (blen L.input) (blen fp.2) = .ok (blen (c :: a1')) := by
      rw [hin1, blen_append, usub_ok (by omega)]; congr 1; omega
    rw [hlen]; dsimp only
    have hin2 : L.input = ((c :: a1') ++ a2) ++ t3 := by
      rw [List.append_assoc, ← ha2]; exact hin1
    obtain ⟨r, hr, spec⟩ := bumpTo_ok h hin2
    rw [hr]; dsimp only
    rw [spec.text, splitAt_append]; dsimp only
    refine Or.inr ⟨_, r.2.1, r.2.2, rfl, spec.start, ?_, ?_, spec.reach, spec.span⟩
    · rw [spec.start, spec.stop, blen_append]; have := sz_pos c; simp; omega
    · rw [spec.pos, spec.stop]

theorem keywordOrIdent_ok {src : List Char} {L : Lexer} (h : Reach src L) (P : Preds) :
    StepOk src L (keywordOrIdent P L) := by
  unfold keywordOrIdent
  split
  · exact Or.inl rfl
  · rename_i c cs hin
    split
    · exact Or.inl rfl
    · have hs : sliceFrom L.input (sz c) = .ok cs := by
        have := splitAt_append [c] cs
        simp only [blen_cons, blen_nil, Nat.add_zero, List.singleton_append] at this
        rw [hin]; simp [sliceFrom, this]
      rw [hs]; dsimp only
      have h3 := eatWhile_suffix P.xidContinue cs
      generalize (eatWhile P.xidContinue cs).2 = t3 at h3 ⊢
      obtain ⟨a2, ha2⟩ := h3
      have hin2 : L.input = (c :: a2) ++ t3 := by rw [hin, ha2]; rfl
      obtain ⟨r, hr, spec⟩ := bumpTo_ok h hin2
      rw [hr]; dsimp only
      refine Or.inr ⟨_, r.2.1, r.2.2, rfl, spec.start, ?_, ?_, spec.reach, spec.span⟩
      · rw [spec.start, spec.stop]; have := sz_pos c; simp; omega
      · rw [spec.pos, spec.stop]

/-- a leading byte below 128 is a one-byte character -/
theorem enc_ascii {c : Char} {v : Nat} {rest : List Nat} (h : enc c = v :: rest) (hv : v < 128) :
    sz c = 1 ∧ rest = [] := by
  unfold enc at h
  unfold sz
  dsimp only at h
  split at h
  · rename_i h1; simp at h; simp [h1, h.2]
  · split at h
    · simp at h; omega
    · split at h
      · simp at h; omega
      · simp at h; omega

theorem enc_ne_nil (c : Char) : enc c ≠ [] := by
  unfold enc; dsimp only; split <;> (try split) <;> (try split) <;> simp

theorem oneCharPunctuation_ok {src : List Char} {L : Lexer} (h : Reach src L) (T : TablesOk) :
    StepOk src L (oneCharPunctuation L) := by
  unfold oneCharPunctuation
  split
  · rename_i a rest hb
    split
    · exact Or.inl rfl
    · rename_i e he
      have hmem := List.mem_of_find?_eq_some he
      have ha : e.1 = a := by have := List.find?_some he; simpa using this
      have hlt : a < 128 := ha ▸ T.one e hmem
      -- the input starts with a one-byte character
      obtain ⟨c, cs, hin, hc⟩ : ∃ c cs, L.input = c :: cs ∧ sz c = 1 := by
        cases hi : L.input with
        | nil => rw [hi] at hb; simp [bytes] at hb
        | cons c cs =>
          rw [hi] at hb
          simp only [List.take_succ_cons, List.take_zero, bytes, List.flatMap_cons, List.flatMap_nil,
            List.append_nil] at hb
          exact ⟨c, cs, rfl, (enc_ascii hb hlt).1⟩
      have hin2 : L.input = [c] ++ cs := by rw [hin]; rfl
      obtain ⟨r, hr, spec⟩ := bump_ok h hin2
      simp only [blen_cons, blen_nil, hc] at hr spec
      rw [hr]; dsimp only
      refine Or.inr ⟨_, r.2.1, r.2.2, rfl, spec.start, ?_, ?_, spec.reach, spec.span⟩
      · rw [spec.start, spec.stop]; simp [hc]
      · rw [spec.pos, spec.stop]
  · exact Or.inl rfl

theorem twoCharPunctuation_ok {src : List Char} {L : Lexer} (h : Reach src L) (T : TablesOk) :
    StepOk src L (twoCharPunctuation L) := by
  unfold twoCharPunctuation
  split
  · rename_i a b rest hb
    split
    · exact Or.inl rfl
    · rename_i e he
      have hmem := List.mem_of_find?_eq_some he
      have hab : e.1 = a ∧ e.2.1 = b := by have := List.find?_some he; simpa using this
      have hlt := T.two e hmem
      rw [hab.1, hab.2] at hlt
      obtain ⟨c1, c2, cs, hin, hc1, hc2⟩ :
          ∃ c1 c2 cs, L.input = c1 :: c2 :: cs ∧ sz c1 = 1 ∧ sz c2 = 1 := by
        cases hi : L.input with
        | nil => rw [hi] at hb; simp [bytes] at hb
        | cons c1 t =>
          cases t with
          | nil =>
            rw [hi] at hb
            simp only [List.take, bytes, List.flatMap_cons, List.flatMap_nil, List.append_nil] at hb
            have := (enc_ascii hb hlt.1).2
            simp at this
          | cons c2 cs =>
            rw [hi] at hb
            simp only [List.take, bytes, List.flatMap_cons, List.flatMap_nil, List.append_nil] at hb
            cases he1 : enc c1 with
            | nil => exact absurd he1 (enc_ne_nil _)
            | cons v r1 =>
              rw [he1] at hb
              simp only [List.cons_append, List.cons.injEq] at hb
              have e1 := enc_ascii he1 (hb.1 ▸ hlt.1)
              rw [e1.2] at hb
              simp only [List.nil_append] at hb
              exact ⟨c1, c2, cs, rfl, e1.1, (enc_ascii hb.2 hlt.2).1⟩
      have hin2 : L.input = [c1, c2] ++ cs := by rw [hin]; rfl
      obtain ⟨r, hr, spec⟩ := bump_ok h hin2
      simp only [blen_cons, blen_nil, hc1, hc2] at hr spec
      rw [hr]; dsimp only
      refine Or.inr ⟨_, r.2.1, r.2.2, rfl, spec.start, ?_, ?_, spec.reach, spec.span⟩
      · rw [spec.start, spec.stop]; simp [hc1, hc2]
      · rw [spec.pos, spec.stop]
  · exact Or.inl rfl


theorem runRecogniser_ok {src : List Char} {L : Lexer} (h : Reach src L) (P : Preds) (T : TablesOk)
    (r : Recogniser) : StepOk src L (runRecogniser P r L) := by
  cases r <;> simp only [runRecogniser]
  · exact ipv6_ok h
  · exact ipv4_ok h
  · exact twoCharPunctuation_ok h T
  · exact oneCharPunctuation_ok h T
  · exact asNumber_ok h
  · exact hexNumber_ok h
  · exact number_ok h P
  · exact fString_ok h
  · exact quoted_ok h _ _
  · exact quoted_ok h _ _
  · exact keywordOrIdent_ok h P

/-- for ANY order of recognisers -/
theorem tryAll_ok {src : List Char} {L : Lexer} (h : Reach src L) (P : Preds) (T : TablesOk)
    (rs : List Recogniser) : StepOk src L (tryAll P rs L) := by
  induction rs with
  | nil => exact Or.inl rfl
  | cons r rs ih =>
    simp only [tryAll]
    rcases runRecogniser_ok h P T r with h1 | ⟨k, sp, L', h1, rest⟩
    · rw [h1]; exact ih
    · rw [h1]; exact Or.inr ⟨k, sp, L', rfl, rest⟩

theorem skipWhitespace_ok {src : List Char} {L : Lexer} (h : Reach src L) (P : Preds) :
    ∃ L', skipWhitespace P L = .ok L' ∧ Reach src L' ∧ L.pos ≤ L'.pos := by
  unfold skipWhitespace
  dsimp only
  split
  · obtain ⟨a, ha⟩ := skipWsTail_suffix P (L.input.length + 1) L.input
    obtain ⟨r, hr, spec⟩ := bumpTo_ok h ha
    rw [hr]
    exact ⟨r.2.2, rfl, spec.reach, by rw [spec.pos]; omega⟩
  · exact ⟨L, rfl, h, Nat.le_refl _⟩

theorem skipShebang_ok' {src : List Char} {L : Lexer} (h : Reach src L) (P : Preds) :
    ∃ L', skipShebang P L = .ok L' ∧ Reach src L' ∧ L.pos ≤ L'.pos := by
  unfold skipShebang
  split
  · rename_i t ht
    have h1 : Suffix (eatUntil '\n' t) L.input :=
      (eatUntil_suffix _ _).trans ⟨['#', '!'], eatStr_true ht⟩
    obtain ⟨a, ha⟩ := h1
    obtain ⟨r, hr, spec⟩ := bumpTo_ok h ha
    rw [hr]
    exact ⟨r.2.2, rfl, spec.reach, by rw [spec.pos]; omega⟩
  · exact ⟨L, rfl, h, Nat.le_refl _⟩

/-- the item `next_inner` returns, relative to the state before (`L`) and after (`L'`) -/
def ItemOk (src : List Char) (L L' : Lexer) : Item → Prop
  | .eof => L'.input = []
  | .invalid sp => sp.1 = L'.pos ∧ sp.1 < sp.2 ∧ SpanOk src sp
  | .tok _ sp => L.pos ≤ sp.1 ∧ sp.1 < sp.2 ∧ sp.2 = L'.pos ∧ SpanOk src sp

theorem nextToken_ok (P : Preds) (T : TablesOk) (src : List Char) (L : Lexer) (h : Reach src L) :
    ∃ r L', nextToken P L = .ok (r, L') ∧ Reach src L' ∧ L.pos ≤ L'.pos ∧
      match r with
      | none => True
      | some t => L.pos ≤ t.2.1 ∧ t.2.1 < t.2.2 ∧ t.2.2 = L'.pos ∧ SpanOk src t.2 := by
  obtain ⟨L1, hw, hr1, hp1⟩ := skipWhitespace_ok h P
  unfold nextToken
  rw [hw]; dsimp only
  split
  · exact ⟨none, L1, rfl, hr1, hp1, trivial⟩
  · rcases tryAll_ok hr1 P T recognisers with h1 | ⟨k, sp, L', h1, hs1, hlt, hpos, hr', hsp⟩
    · rw [h1]; exact ⟨none, L1, rfl, hr1, hp1, trivial⟩
    · rw [h1]; dsimp only
      refine ⟨some (k, sp), L', rfl, hr', by omega, ?_, hlt, hpos.symm, hsp⟩
      show L.pos ≤ sp.1; omega

theorem nextInner_ok' (P : Preds) (T : TablesOk) (src : List Char) (L : Lexer) (h : Reach src L) :
    ∃ it L', nextInner P L = .ok (it, L') ∧ Reach src L' ∧ L.pos ≤ L'.pos ∧ ItemOk src L L' it := by
  obtain ⟨r, L1, hn, hr1, hp1, hspec⟩ := nextToken_ok P T src L h
  unfold nextInner
  rw [hn]
  cases r with
  | some t => exact ⟨.tok t.1 t.2, L1, rfl, hr1, hp1, hspec⟩
  | none =>
    dsimp only
    cases hi : L1.input with
    | nil => exact ⟨.eof, L1, rfl, hr1, hp1, hi⟩
    | cons c cs =>
      dsimp only
      obtain ⟨ho, pre, hp⟩ := hr1
      have hposeq : L1.pos = blen pre := Reach.pos_eq ⟨ho, pre, hp⟩ hp
      have hu : usub L1.origLen (blen (c :: cs)) = .ok (blen pre) := by
        rw [ho, hp, hi, blen_append, usub_ok (by omega)]; congr 1; omega
      rw [hu]; dsimp only
      refine ⟨_, L1, rfl, ⟨ho, pre, hp⟩, hp1, hposeq.symm, ?_, ?_, ?_, ?_⟩
      · have := sz_pos c; show blen pre < blen pre + sz c; omega
      · show blen pre ≤ blen pre + sz c; omega
      · exact ⟨pre, L1.input, hp, rfl⟩
      · refine ⟨pre ++ [c], cs, by rw [hp, hi]; simp, ?_⟩
        rw [blen_append]; simp

theorem sz_brace : sz '{' = 1 := by decide
theorem sz_quote : sz '"' = 1 := by decide

/-- what the scan of `f_string_part` returns, relative to the scanned text -/
def FspOk (input : List Char) : Option (Bool × Nat) → Prop
  | none => True
  | some (true, j) => ∃ p q, input = p ++ '"' :: q ∧ blen p = j
  | some (false, j) => ∃ p q, input = p ++ '{' :: q ∧ blen p + 1 = j

theorem fspScan_spec (input : List Char) (s : List Char) :
    ∀ (mode : FMode) (pre : List Char) (i : Nat), input = pre ++ s → i = blen pre →
      (mode = .brace → ∃ p0, pre = p0 ++ ['{']) → FspOk input (fspScan mode i s) := by
  induction s with
  | nil => intro mode pre i _ _ _; cases mode <;> simp [fspScan, FspOk]
  | cons c cs ih =>
    intro mode pre i hin hi hb
    have hin' : input = (pre ++ [c]) ++ cs := by rw [hin]; simp
    have hi' : i + sz c = blen (pre ++ [c]) := by rw [blen_append, hi]; simp
    have nb : ∀ m : FMode, m ≠ .brace → (m = .brace → ∃ p0, pre ++ [c] = p0 ++ ['{']) :=
      fun m hm h => absurd h hm
    cases mode with
    | normal =>
      simp only [fspScan]
      split
      · exact ih _ _ _ hin' hi' (nb _ (by simp))
      · split
        · rename_i hc
          exact ih _ _ _ hin' hi' (fun _ => ⟨pre, by rw [hc]⟩)
        · split
          · rename_i hq
            exact ⟨pre, cs, by rw [hin, hq], hi.symm⟩
          · exact ih _ _ _ hin' hi' (nb _ (by simp))
    | esc =>
      simp only [fspScan]
      split
      · exact ih _ _ _ hin' hi' (nb _ (by simp))
      · exact ih _ _ _ hin' hi' (nb _ (by simp))
    | escU =>
      simp only [fspScan]
      split
      · exact ih _ _ _ hin' hi' (nb _ (by simp))
      · trivial
    | uni =>
      simp only [fspScan]
      split
      · exact ih _ _ _ hin' hi' (nb _ (by simp))
      · exact ih _ _ _ hin' hi' (nb _ (by simp))
    | brace =>
      simp only [fspScan]
      split
      · exact ih _ _ _ hin' hi' (nb _ (by simp))
      · obtain ⟨p0, hp0⟩ := hb rfl
        refine ⟨p0, c :: cs, by rw [hin, hp0]; simp, ?_⟩
        rw [hi, hp0, blen_append]; simp [sz_brace]

theorem fStringPart_ok' (src : List Char) (L : Lexer) (h : Reach src L) :
    ∃ p L', fStringPart L = .ok (p, L') ∧ Reach src L' ∧
      match p with
      | .none => L' = L
      | .strEnd sp => sp.1 = L.pos ∧ SpanOk src sp ∧ sp.2 + 1 = L'.pos
      | .strMid sp => sp.1 = L.pos ∧ SpanOk src sp ∧ sp.2 = L'.pos ∧ ∃ r, L'.input = '{' :: r := by
  have hspec := fspScan_spec L.input L.input .normal [] 0 rfl rfl (by simp)
  unfold fStringPart
  cases hscan : fspScan .normal 0 L.input with
  | none => exact ⟨.none, L, rfl, h, rfl⟩
  | some r =>
    obtain ⟨b, j⟩ := r
    rw [hscan] at hspec
    cases b with
    | true =>
      obtain ⟨p, q, hin, hj⟩ := hspec
      dsimp only
      obtain ⟨r1, hr1, s1⟩ := bump_ok h hin
      rw [hj] at hr1
      rw [hr1]; dsimp only
      have hin2 : r1.2.2.input = ['"'] ++ q := by rw [s1.next]; rfl
      obtain ⟨r2, hr2, s2⟩ := bump_ok s1.reach hin2
      have hb1 : blen ['"'] = 1 := by simp [sz_quote]
      rw [hb1] at hr2
      rw [hr2]; dsimp only
      refine ⟨_, r2.2.2, rfl, s2.reach, s1.start, s1.span, ?_⟩
      rw [s2.pos, s1.pos, s1.stop, hb1]
    | false =>
      obtain ⟨p, q, hin, hj⟩ := hspec
      dsimp only
      have hu : usub j 1 = .ok (blen p) := by rw [usub_ok (by omega)]; congr 1; omega
      rw [hu]; dsimp only
      obtain ⟨r1, hr1, s1⟩ := bump_ok h hin
      rw [hr1]; dsimp only
      refine ⟨_, r1.2.2, rfl, s1.reach, s1.start, s1.span, ?_, q, by rw [s1.next]⟩
      rw [s1.pos, s1.stop]

end RotoV.Lex
