/-
  Lemmas/ValueMatch — the lowered `match` (bindings re-read per candidate arm, after the guards of
  the earlier arms) equals value semantics exactly when the examinee lives in a temporary that user
  code cannot name. Core Lean only.
-/
import RotoV.Model.ValueMatch

namespace RotoV.ValueMatch

theorem setEnum_enums_self (s : St) (k : Nat) (v : EVal) : (s.setEnum k v).enums k = v := by
  simp [St.setEnum, upd]

theorem bindAll_setEnum (k : Nat) (v : EVal) :
    ∀ (bs fs : List Nat) (s : St), bindAll bs fs (s.setEnum k v) = (bindAll bs fs s).setEnum k v := by
  intro bs
  induction bs with
  | nil => intro fs s; simp [bindAll]
  | cons b bs ih =>
    intro fs s
    cases fs with
    | nil => simp [bindAll]
    | cons f fs =>
      simp only [bindAll]
      rw [← ih fs (s.setLeaf b f)]
      rfl

/-- the chain of candidate arms run on a private copy `tmp` of the value `v` IS value semantics on
    `v` (the copy stays what it was) -/
theorem lowArms_on_copy (tmp : Nat) (v : EVal) :
    ∀ (arms : List Arm) (s : St), armsBlindTo arms tmp →
      lowArms tmp v.tag arms (s.setEnum tmp v)
        = (specArms v arms s).map fun p => (p.1, p.2.setEnum tmp v) := by
  intro arms
  induction arms with
  | nil => intro s _; simp [lowArms, specArms]
  | cons a rest ih =>
    intro s hb
    have hrest : armsBlindTo rest tmp := fun a' ha' g hg => hb a' (List.mem_cons_of_mem _ ha') g hg
    simp only [lowArms, specArms, setEnum_enums_self, bindAll_setEnum]
    by_cases hc : a.candidate v.tag = true
    · simp only [hc, if_true]
      cases hg : a.guard with
      | none => simp
      | some g =>
        have hbl := hb a (List.mem_cons_self) g hg
        simp only [hbl (bindAll a.binds v.fs s) v]
        by_cases hv : (g (bindAll a.binds v.fs s)).2 = true
        · simp [hv]
        · simp only [hv]
          rw [ih _ hrest]
          simp [Option.map_map, Function.comp_def]
    · simp only [hc]
      rw [ih _ hrest]
      simp [Option.map_map, Function.comp_def]

/-- `let examinee = self.expr(expr); let examinee = self.assign_to_var(examinee, ty);` -/
theorem lowMatch_copied (x tmp : Nat) (arms : List Arm) (s : St) (hb : armsBlindTo arms tmp) :
    lowMatch [.evalExpr, .assignToVar] x tmp arms s
      = (specMatch x arms s).map fun p => (p.1, p.2.setEnum tmp (s.enums x)) := by
  simp only [lowMatch, examinee, setEnum_enums_self, specMatch]
  exact lowArms_on_copy tmp (s.enums x) arms s hb

theorem setEnum_comm (s : St) (j k : Nat) (a b : EVal) (h : j ≠ k) :
    (s.setEnum j a).setEnum k b = (s.setEnum k b).setEnum j a := by
  simp only [St.setEnum, St.mk.injEq, and_true]
  funext i
  simp only [upd]
  by_cases h1 : i = k <;> by_cases h2 : i = j <;> simp_all

/-- the arm taken, everything the patterns bound and every variable but the temporary -/
def observe (tmp : Nat) (r : Option (Nat × St)) : Option (Nat × (Nat → Nat) × (Nat → EVal)) :=
  r.map fun p => (p.1, p.2.leaves, fun y => if y = tmp then ⟨0, []⟩ else p.2.enums y)

theorem observe_setEnum (tmp : Nat) (v : EVal) (r : Option (Nat × St)) :
    observe tmp (r.map fun p => (p.1, p.2.setEnum tmp v)) = observe tmp r := by
  cases r with
  | none => rfl
  | some p =>
    simp only [observe, Option.map_some, Option.some.injEq, Prod.mk.injEq, true_and]
    refine ⟨rfl, ?_⟩
    funext y
    by_cases h : y = tmp <;> simp [h, St.setEnum, upd]

/-! ### the witness of seeded change C02-8: `match x { Some(y) if { x = Some(105); false } => …, Some(z) => z, … }` -/

/-- the guard `{ x = Some(105); false }` (`x` = variable 0) -/
def wGuard : Guard := fun s => (s.setEnum 0 ⟨0, [105]⟩, false)
/-- `Some(v1) if { x = Some(105); false }`, then `Some(v2)` -/
def wArms : List Arm := [⟨some 0, [1], some wGuard⟩, ⟨some 0, [2], none⟩]
/-- `x = Some(5)` -/
def wStore : St := ⟨fun _ => ⟨0, [5]⟩, fun _ => 0⟩

theorem wArms_blind : armsBlindTo wArms 7 := by
  intro a ha g hg
  simp only [wArms, List.mem_cons, List.mem_nil_iff, or_false] at ha
  rcases ha with rfl | rfl
  · simp only [Option.some.injEq] at hg
    subst hg
    intro s v
    simp only [wGuard, Prod.mk.injEq, and_true]
    exact setEnum_comm s 7 0 v _ (by decide)
  · simp at hg

end RotoV.ValueMatch
