/-
  Lemmas for C11, part 2: compilation and the drop operations preserve the
  invariant; `step` preserves it; consequences used by Props/C11.lean.
-/
import RotoV.Lemmas.Lifetime

namespace RotoV.Lifetime

theorem compile_inv {s : St} (hI : Inv s) (r k n nz : Nat) (uc uf ud : Bool) (dh : List Holder) (v : Nat) (kc kf : Bool)
    (hk : k ∉ s.compiled) (hkc : kc = true → r ∈ s.rtConst) (hkf : kf = true → r ∈ s.rtClos)
    (huc : uc = true → kc = true) (huf : uf = true → kf = true)
    (hdh : dh.all Holder.heldByHandles = true) :
    Inv { s with
      compiled := k :: s.compiled
      info := upd s.info k { rt := r, nconst := n, nzst := nz, keepConst := kc, keepClos := kf, useConst := uc, useClos := uf,
                             useData := ud, dataHolders := dh, value := v }
      strong := upd s.strong k 1
      alive := k :: s.alive
      mapped := upd s.mapped k true
      pkgs := k :: s.pkgs
      constRc := if kc then upd s.constRc r (s.constRc r + 1) else s.constRc
      closRc := if kf then upd s.closRc r (s.closRc r + 1) else s.closRc } := by
  have hc := hI.toInvCore
  have hs0 : s.strong k = 0 := hc.compiled_strong k hk
  have hna : k ∉ s.alive := by
    have := hc.alive_cnt k
    simp only [hs0, Nat.lt_irrefl, if_false] at this
    exact List.count_eq_zero.1 this
  have hown := hI.strong_eq k
  simp only [owners, hs0] at hown
  have hp0 : s.pkgs.count k = 0 := by omega
  have hh0 : s.hs.countP (fun h => h.k == k) = 0 := by omega
  have hnh : ∀ h ∈ s.hs, h.k ≠ k := by
    intro h hh e
    have := (List.countP_eq_zero.1 hh0) h hh
    simp [e] at this
  generalize hm : ({ rt := r, nconst := n, nzst := nz, keepConst := kc, keepClos := kf, useConst := uc, useClos := uf,
                     useData := ud, dataHolders := dh, value := v } : ModInfo) = m
  have m_rt : m.rt = r := by subst hm; rfl
  have m_kc : m.keepConst = kc := by subst hm; rfl
  have m_kf : m.keepClos = kf := by subst hm; rfl
  have m_uc : m.useConst = uc := by subst hm; rfl
  have m_uf : m.useClos = uf := by subst hm; rfl
  have m_n : m.nconst = n := by subst hm; rfl
  have m_dh : m.dataHolders = dh := by subst hm; rfl
  have cpc : ∀ r', s.alive.countP (constPred (upd s.info k m) r') = s.alive.countP (constPred s.info r') := by
    intro r'; apply List.countP_congr; intro x hx
    have : x ≠ k := fun e => hna (e ▸ hx)
    simp [constPred, upd_other _ _ _ _ this]
  have cpf : ∀ r', s.alive.countP (closPred (upd s.info k m) r') = s.alive.countP (closPred s.info r') := by
    intro r'; apply List.countP_congr; intro x hx
    have : x ≠ k := fun e => hna (e ▸ hx)
    simp [closPred, upd_other _ _ _ _ this]
  constructor
  · constructor
    · exact hc.holds
    · intro j
      show (k :: s.alive).count j = if 0 < upd s.strong k 1 j then 1 else 0
      rw [List.count_cons]
      by_cases hj : j = k
      · subst hj; rw [upd_same]; simp [List.count_eq_zero.2 hna]
      · rw [upd_other _ _ _ _ hj]
        have : (k == j) = false := by simpa using fun e => hj e.symm
        simp only [this, Bool.false_eq_true, if_false, Nat.add_zero]; exact hc.alive_cnt j
    · intro r'
      show (if kc then upd s.constRc r (s.constRc r + 1) else s.constRc) r'
        = s.rtConst.count r' + (k :: s.alive).countP (constPred (upd s.info k m) r')
      rw [List.countP_cons, cpc]
      have c := hc.constRc_eq r'
      have hpk : constPred (upd s.info k m) r' k = (kc && r == r') := by
        simp [constPred, upd_same, m_rt, m_kc]
      rw [hpk]
      cases kc
      · simp; exact c
      · by_cases e : r' = r
        · subst e; simp [upd_same]; omega
        · have : (r == r') = false := by simpa using fun x => e x.symm
          simp [upd_other _ _ _ _ e, this]; exact c
    · intro r'
      show (if kf then upd s.closRc r (s.closRc r + 1) else s.closRc) r'
        = s.rtClos.count r' + (k :: s.alive).countP (closPred (upd s.info k m) r')
      rw [List.countP_cons, cpf]
      have c := hc.closRc_eq r'
      have hpk : closPred (upd s.info k m) r' k = (kf && r == r') := by
        simp [closPred, upd_same, m_rt, m_kf]
      rw [hpk]
      cases kf
      · simp; exact c
      · by_cases e : r' = r
        · subst e; simp [upd_same]; omega
        · have : (r == r') = false := by simpa using fun x => e x.symm
          simp [upd_other _ _ _ _ e, this]; exact c
    · intro r'
      show s.relCount (.regConst r')
        = if r' ∈ s.constEver ∧ (if kc then upd s.constRc r (s.constRc r + 1) else s.constRc) r' = 0 then 1 else 0
      have c := hc.const_rel r'
      cases hkcv : kc
      · simpa using c
      · by_cases e : r' = r
        · subst e
          have hr := hkc hkcv
          have : 0 < s.rtConst.count r' := List.count_pos_iff.2 hr
          have cq := hc.constRc_eq r'
          have hne : ¬ s.constRc r' = 0 := by omega
          simp only [hne, and_false, if_false] at c
          simp [upd_same, c]
        · simp [upd_other _ _ _ _ e]; simpa using c
    · intro r' h'
      show (if kc then upd s.constRc r (s.constRc r + 1) else s.constRc) r' = 0
      have c := hc.const_ever r' h'
      cases hkcv : kc
      · simpa using c
      · by_cases e : r' = r
        · subst e
          have hr := hkc hkcv
          have : 0 < s.rtConst.count r' := List.count_pos_iff.2 hr
          have cq := hc.constRc_eq r'
          omega
        · simp [upd_other _ _ _ _ e]; exact c
    · intro r'
      show s.relCount (.closure r')
        = if r' ∈ s.closEver ∧ (if kf then upd s.closRc r (s.closRc r + 1) else s.closRc) r' = 0 then 1 else 0
      have c := hc.clos_rel r'
      cases hkfv : kf
      · simpa using c
      · by_cases e : r' = r
        · subst e
          have hr := hkf hkfv
          have : 0 < s.rtClos.count r' := List.count_pos_iff.2 hr
          have cq := hc.closRc_eq r'
          have hne : ¬ s.closRc r' = 0 := by omega
          simp only [hne, and_false, if_false] at c
          simp [upd_same, c]
        · simp [upd_other _ _ _ _ e]; simpa using c
    · intro r' h'
      show (if kf then upd s.closRc r (s.closRc r + 1) else s.closRc) r' = 0
      have c := hc.clos_ever r' h'
      cases hkfv : kf
      · simpa using c
      · by_cases e : r' = r
        · subst e
          have hr := hkf hkfv
          have : 0 < s.rtClos.count r' := List.count_pos_iff.2 hr
          have cq := hc.closRc_eq r'
          omega
        · simp [upd_other _ _ _ _ e]; exact c
    · intro j
      show s.relCount (.code j) = if j ∈ k :: s.compiled ∧ upd s.strong k 1 j = 0 then 1 else 0
      have c := hc.code_rel j
      by_cases hj : j = k
      · subst hj; simp only [hk, false_and, if_false] at c; simp [upd_same, c]
      · rw [upd_other _ _ _ _ hj]; simp [hj]; simpa using c
    · intro j
      show upd s.mapped k true j = decide (0 < upd s.strong k 1 j)
      by_cases hj : j = k
      · subst hj; simp [upd_same]
      · rw [upd_other _ _ _ _ hj, upd_other _ _ _ _ hj]; exact hc.mapped_eq j
    · intro j hj
      show upd s.strong k 1 j = 0
      have : j ≠ k ∧ j ∉ s.compiled := by simpa using hj
      rw [upd_other _ _ _ _ this.1]; exact hc.compiled_strong j this.2
    · intro j c
      show s.relCount (.scriptConst j c)
        = if j ∈ k :: s.compiled ∧ upd s.strong k 1 j = 0 ∧ c < (upd s.info k m j).nconst then 1 else 0
      have cc := hc.sc_rel j c
      by_cases hj : j = k
      · subst hj; simp only [hk, false_and, if_false] at cc; simp [upd_same, cc]
      · rw [upd_other _ _ _ _ hj, upd_other _ _ _ _ hj]; simp [hj]; simpa using cc
    · exact hc.no_fault
    · intro h hh
      show h.expect = .ok (upd s.info k m h.k).value
      rw [upd_other _ _ _ _ (hnh h hh)]; exact hc.expect_ok h hh
    · intro j
      show ((upd s.info k m j).useConst = true → (upd s.info k m j).keepConst = true)
        ∧ ((upd s.info k m j).useClos = true → (upd s.info k m j).keepClos = true)
        ∧ (upd s.info k m j).dataHolders.all Holder.heldByHandles = true
      by_cases hj : j = k
      · subst hj; rw [upd_same, m_uc, m_uf, m_kc, m_kf, m_dh]; exact ⟨huc, huf, hdh⟩
      · rw [upd_other _ _ _ _ hj]; exact hc.uses j
  · intro j
    show upd s.strong k 1 j = (k :: s.pkgs).count j + s.hs.countP (fun h => h.k == j)
    rw [List.count_cons]
    by_cases hj : j = k
    · subst hj; rw [upd_same]; simp; omega
    · rw [upd_other _ _ _ _ hj]
      have : (k == j) = false := by simpa using fun e => hj e.symm
      simp only [this, Bool.false_eq_true, if_false, Nat.add_zero]
      exact hI.strong_eq j

theorem dropHandle_inv {F : Facts} (hG : Good F) {s : St} (hI : Inv s) (i : Nat) (h : Handle)
    (hi : s.hs[i]? = some h) : Inv (decModule F h.k { s with hs := s.hs.eraseIdx i }) := by
  have hc := hI.toInvCore
  have hmem : h ∈ s.hs := List.mem_of_getElem? hi
  have hk : 0 < s.strong h.k := hI.strong_pos_of_handle hmem
  have hc1 : InvCore { s with hs := s.hs.eraseIdx i } :=
    ⟨fun x hx => hc.holds x (List.mem_of_mem_eraseIdx hx), hc.alive_cnt, hc.constRc_eq, hc.closRc_eq, hc.const_rel,
      hc.const_ever, hc.clos_rel, hc.clos_ever, hc.code_rel, hc.mapped_eq, hc.compiled_strong, hc.sc_rel,
      hc.no_fault, fun x hx => hc.expect_ok x (List.mem_of_mem_eraseIdx hx), hc.uses⟩
  obtain ⟨hc2, hst, hp, hh, _, _⟩ := decModule_inv hG { s with hs := s.hs.eraseIdx i } h.k hc1 hk
  refine ⟨hc2, ?_⟩
  intro j
  rw [hst]
  simp only [owners, hp, hh]
  show upd s.strong h.k (s.strong h.k - 1) j = s.pkgs.count j + (s.hs.eraseIdx i).countP (fun x => x.k == j)
  obtain ⟨hlt, hget⟩ := List.getElem?_eq_some_iff.1 hi
  have e := countP_eraseIdx_add (fun x : Handle => x.k == j) s.hs i hlt
  rw [hget] at e
  have o := hI.strong_eq j
  simp only [owners] at o
  by_cases hj : j = h.k
  · subst hj; rw [upd_same]; simp at e; omega
  · rw [upd_other _ _ _ _ hj]
    have : (h.k == j) = false := by simpa using fun x => hj x.symm
    simp [this] at e; omega

theorem dropPackage_inv {F : Facts} (hG : Good F) {s : St} (hI : Inv s) (k : Nat) (hk : k ∈ s.pkgs) :
    Inv (decModule F k { s with pkgs := s.pkgs.erase k }) := by
  have hc := hI.toInvCore
  have hpos : 0 < s.strong k := hI.strong_pos_of_pkg hk
  have hc1 : InvCore { s with pkgs := s.pkgs.erase k } :=
    ⟨hc.holds, hc.alive_cnt, hc.constRc_eq, hc.closRc_eq, hc.const_rel, hc.const_ever, hc.clos_rel, hc.clos_ever,
      hc.code_rel, hc.mapped_eq, hc.compiled_strong, hc.sc_rel, hc.no_fault, hc.expect_ok, hc.uses⟩
  obtain ⟨hc2, hst, hp, hh, _, _⟩ := decModule_inv hG { s with pkgs := s.pkgs.erase k } k hc1 hpos
  refine ⟨hc2, ?_⟩
  intro j
  rw [hst]
  simp only [owners, hp, hh]
  show upd s.strong k (s.strong k - 1) j = (s.pkgs.erase k).count j + s.hs.countP (fun x => x.k == j)
  have o := hI.strong_eq j
  simp only [owners] at o
  by_cases hj : j = k
  · subst hj; rw [upd_same, List.count_erase_self]
    have : 0 < s.pkgs.count j := List.count_pos_iff.2 hk
    omega
  · rw [upd_other _ _ _ _ hj, List.count_erase_of_ne hj]; exact o

theorem dropRuntime_inv {s : St} (hI : Inv s) (r : Nat) :
    Inv (step F s (.dropRuntime r)) := by
  have hc := hI.toInvCore
  simp only [step]
  have hc1 : InvCore { s with rts := s.rts.erase r } := hc.of_rts _ _
  have hs1 : Inv { s with rts := s.rts.erase r } := ⟨hc1, hI.strong_eq⟩
  -- the constant
  have step2 : ∀ t : St, Inv t →
      Inv (if t.rtConst.contains r then decConst r { t with rtConst := t.rtConst.erase r } else t) := by
    intro t ht
    split
    · rename_i hcr
      have hr : r ∈ t.rtConst := by simpa using hcr
      refine ⟨dropRtConst_inv ht.toInvCore hr, ?_⟩
      intro j
      have := ht.strong_eq j
      simpa [owners] using this
    · exact ht
  have step3 : ∀ t : St, Inv t →
      Inv (if t.rtClos.contains r then decClos r { t with rtClos := t.rtClos.erase r } else t) := by
    intro t ht
    split
    · rename_i hcr
      have hr : r ∈ t.rtClos := by simpa using hcr
      refine ⟨dropRtClos_inv ht.toInvCore hr, ?_⟩
      intro j
      have := ht.strong_eq j
      simpa [owners] using this
    · exact ht
  exact step3 _ (step2 _ hs1)

/-- every valid operation preserves the invariant -/
theorem step_inv {F : Facts} (hG : Good F) {s : St} (hI : Inv s) (op : Op) (hv : valid s op = true) :
    Inv (step F s op) := by
  have hc := hI.toInvCore
  cases op with
  | buildRuntime r => exact ⟨hc.of_rts _ _, hI.strong_eq⟩
  | registerConst r =>
    simp only [valid, Bool.and_eq_true, Bool.not_eq_true', List.contains_eq_mem, decide_eq_true_eq,
      decide_eq_false_iff_not] at hv
    exact registerConst_inv hI hv.2
  | registerClosure r =>
    simp only [valid, Bool.and_eq_true, Bool.not_eq_true', List.contains_eq_mem, decide_eq_true_eq,
      decide_eq_false_iff_not] at hv
    exact registerClos_inv hI hv.2
  | compile r k n nz uc uf ud v =>
    simp only [valid, Bool.and_eq_true, Bool.not_eq_true', List.contains_eq_mem, decide_eq_true_eq,
      decide_eq_false_iff_not, Bool.or_eq_true] at hv
    obtain ⟨⟨⟨_, hk⟩, huc⟩, huf⟩ := hv
    simp only [step, hG.consts, hG.fns, Bool.true_and]
    apply compile_inv hI r k n nz uc uf ud F.dataHolders v
    · exact hk
    · intro h; simpa using h
    · intro h; subst h; simpa using huf
    · intro h; subst h; simpa using huc
    · exact id
    · exact hG.data
  | getHandle k =>
    simp only [valid, List.contains_eq_mem, decide_eq_true_eq] at hv
    have hpos := hI.strong_pos_of_pkg hv
    simp only [step, hG.holds, if_true]
    exact addHandle_inv hI { k := k, holds := true, expect := callRes s k } hpos rfl (callRes_ok hc hpos)
  | getTest k =>
    simp only [valid, List.contains_eq_mem, decide_eq_true_eq] at hv
    have hpos := hI.strong_pos_of_pkg hv
    simp only [step, hG.holds, hG.test, Bool.and_self, if_true]
    exact addHandle_inv hI { k := k, holds := true, expect := callRes s k, isFn := true } hpos rfl (callRes_ok hc hpos)
  | cloneHandle i =>
    simp only [step]
    cases hi : s.hs[i]? with
    | none => exact hI
    | some h =>
      have hmem : h ∈ s.hs := List.mem_of_getElem? hi
      have hh := hc.holds h hmem
      simp only [hh, if_true]
      exact addHandle_inv hI h (hI.strong_pos_of_handle hmem) hh (hc.expect_ok h hmem)
  | intoFunc i =>
    simp only [step]
    cases hi : s.hs[i]? with
    | none => exact hI
    | some h =>
      simp only [hG.closure, if_true]
      exact intoFunc_inv hI i h hi
  | call i =>
    simp only [step]
    cases hi : s.hs[i]? with
    | none => exact hI
    | some h =>
      have hmem : h ∈ s.hs := List.mem_of_getElem? hi
      have := callRes_ok hc (hI.strong_pos_of_handle hmem)
      simp only [this, reduceCtorEq, if_false]
      exact hI
  | dropHandle i =>
    simp only [step]
    cases hi : s.hs[i]? with
    | none => exact hI
    | some h =>
      have hmem : h ∈ s.hs := List.mem_of_getElem? hi
      have hh := hc.holds h hmem
      have hns : FreeSite.handleDrop ∉ F.freeSites := by rw [hG.sites]; decide
      simp only [hns, if_false, hh, if_true]
      exact dropHandle_inv hG hI i h hi
  | dropPackage k =>
    simp only [valid, List.contains_eq_mem, decide_eq_true_eq] at hv
    have hns : FreeSite.packageDrop ∉ F.freeSites := by rw [hG.sites]; decide
    simp only [step, hns, if_false]
    exact dropPackage_inv hG hI k hv
  | dropRuntime r => exact dropRuntime_inv hI r

theorem stepV_inv {F : Facts} (hG : Good F) {s : St} (hI : Inv s) (op : Op) : Inv (stepV F s op) := by
  unfold stepV
  split
  · rename_i hv; exact step_inv hG hI op hv
  · exact hI

theorem foldl_inv {F : Facts} (hG : Good F) : ∀ (ops : List Op) (s : St), Inv s → Inv (ops.foldl (stepV F) s)
  | [], _, h => h
  | op :: ops, s, h => foldl_inv hG ops (stepV F s op) (stepV_inv hG h op)

/-- the invariant holds after every history -/
theorem inv_run {F : Facts} (hG : Good F) (ops : List Op) : Inv (run F ops) :=
  foldl_inv hG ops {} inv_init

/-! ### independence of packages -/

/-- everything observable about version j: its package, its code, its script
    constants, and what each of its live handles returns (now, and at creation) -/
structure Obs where
  pkgLive : Bool
  mapped : Bool
  codeReleased : Nat
  constsReleased : List Nat
  calls : List (CallRes × CallRes)
  deriving DecidableEq, Repr

def obs (s : St) (j : Nat) : Obs :=
  { pkgLive := s.pkgs.contains j
    mapped := s.mapped j
    codeReleased := s.relCount (.code j)
    constsReleased := (List.range (s.info j).nconst).map (fun c => s.relCount (.scriptConst j c))
    calls := (s.hs.filter (fun h => h.k == j)).map (fun h => (callRes s h.k, h.expect)) }

/-- the package an operation works on -/
def target (s : St) : Op → Option Nat
  | .compile _ k _ _ _ _ _ _ => some k
  | .getHandle k => some k
  | .getTest k => some k
  | .dropPackage k => some k
  | .cloneHandle i => (s.hs[i]?).map (·.k)
  | .intoFunc i => (s.hs[i]?).map (·.k)
  | .call i => (s.hs[i]?).map (·.k)
  | .dropHandle i => (s.hs[i]?).map (·.k)
  | _ => none

theorem filter_eraseIdx_of_not {α : Type} (p : α → Bool) :
    ∀ (l : List α) (i : Nat) (h : i < l.length), p l[i] = false → (l.eraseIdx i).filter p = l.filter p
  | [], i, h, _ => by simp at h
  | a :: l, 0, _, hp => by
    simp only [List.getElem_cons_zero] at hp
    simp [hp]
  | a :: l, i + 1, h, hp => by
    simp only [List.getElem_cons_succ] at hp
    have ih := filter_eraseIdx_of_not p l i (by simpa using h) hp
    simp [List.eraseIdx_cons_succ, List.filter_cons, ih]

/-- what an operation on package k leaves alone for j ≠ k -/
local macro "triv" : tactic => `(tactic| first | trivial | exact Iff.rfl)

theorem frame {F : Facts} (hG : Good F) {s : St} (hI : Inv s) (op : Op) (hv : valid s op = true) (k j : Nat)
    (ht : target s op = some k) (hjk : j ≠ k) :
    (step F s op).pkgs.count j = s.pkgs.count j
      ∧ (step F s op).hs.filter (fun h => h.k == j) = s.hs.filter (fun h => h.k == j)
      ∧ (step F s op).info j = s.info j
      ∧ (j ∈ (step F s op).compiled ↔ j ∈ s.compiled) := by
  have hc := hI.toInvCore
  have hkj : (k == j) = false := by simpa using fun e => hjk e.symm
  cases op with
  | buildRuntime r => simp [target] at ht
  | registerConst r => simp [target] at ht
  | registerClosure r => simp [target] at ht
  | dropRuntime r => simp [target] at ht
  | compile r k' n nz uc uf ud v =>
    simp only [target, Option.some.injEq] at ht; subst ht
    simp only [step]
    refine ⟨?_, (by triv), ?_, ?_⟩
    · show (k' :: s.pkgs).count j = _
      rw [List.count_cons]; simp [hkj]
    · exact upd_other _ _ _ _ hjk
    · show j ∈ k' :: s.compiled ↔ _
      simp [hjk]
  | getHandle k' =>
    simp only [target, Option.some.injEq] at ht; subst ht
    simp only [step]
    refine ⟨(by triv), ?_, (by triv), (by triv)⟩
    show (s.hs ++ [_]).filter _ = _
    simp [List.filter_append, hkj]
  | getTest k' =>
    simp only [target, Option.some.injEq] at ht; subst ht
    simp only [step]
    refine ⟨(by triv), ?_, (by triv), (by triv)⟩
    show (s.hs ++ [_]).filter _ = _
    simp [List.filter_append, hkj]
  | cloneHandle i =>
    simp only [target] at ht
    cases hi : s.hs[i]? with
    | none => simp [hi] at ht
    | some h =>
      simp only [hi, Option.map_some, Option.some.injEq] at ht
      simp only [step, hi]
      refine ⟨(by triv), ?_, (by triv), (by triv)⟩
      show (s.hs ++ [h]).filter _ = _
      simp [List.filter_append, ht, hkj]
  | intoFunc i =>
    simp only [target] at ht
    cases hi : s.hs[i]? with
    | none => simp [hi] at ht
    | some h =>
      simp only [hi, Option.map_some, Option.some.injEq] at ht
      simp only [step, hi, hG.closure, if_true]
      refine ⟨(by triv), ?_, (by triv), (by triv)⟩
      obtain ⟨hlt, hget⟩ := List.getElem?_eq_some_iff.1 hi
      show (s.hs.set i { h with isFn := true }).filter _ = _
      apply filter_set_of_not _ _ _ _ hlt
      · show (h.k == j) = false
        rw [ht]; exact hkj
      · rw [hget, ht]; exact hkj
  | call i =>
    simp only [step]
    cases hi : s.hs[i]? with
    | none => exact ⟨(by triv), (by triv), (by triv), (by triv)⟩
    | some h =>
      simp only
      split <;> exact ⟨(by triv), (by triv), (by triv), (by triv)⟩
  | dropHandle i =>
    simp only [target] at ht
    cases hi : s.hs[i]? with
    | none => simp [hi] at ht
    | some h =>
      simp only [hi, Option.map_some, Option.some.injEq] at ht
      have hmem : h ∈ s.hs := List.mem_of_getElem? hi
      have hh := hc.holds h hmem
      have hns : FreeSite.handleDrop ∉ F.freeSites := by rw [hG.sites]; decide
      simp only [step, hi, hns, if_false, hh, if_true]
      have hk : 0 < s.strong h.k := hI.strong_pos_of_handle hmem
      have hc1 : InvCore { s with hs := s.hs.eraseIdx i } :=
        ⟨fun x hx => hc.holds x (List.mem_of_mem_eraseIdx hx), hc.alive_cnt, hc.constRc_eq, hc.closRc_eq,
          hc.const_rel, hc.const_ever, hc.clos_rel, hc.clos_ever, hc.code_rel, hc.mapped_eq, hc.compiled_strong,
          hc.sc_rel, hc.no_fault, fun x hx => hc.expect_ok x (List.mem_of_mem_eraseIdx hx), hc.uses⟩
      obtain ⟨_, _, hp, hhs, hinfo, hcomp⟩ := decModule_inv hG { s with hs := s.hs.eraseIdx i } h.k hc1 hk
      rw [hp, hhs, hinfo, hcomp]
      refine ⟨(by triv), ?_, (by triv), (by triv)⟩
      obtain ⟨hlt, hget⟩ := List.getElem?_eq_some_iff.1 hi
      show (s.hs.eraseIdx i).filter _ = _
      apply filter_eraseIdx_of_not _ _ _ hlt
      rw [hget, ht]; exact hkj
  | dropPackage k' =>
    simp only [target, Option.some.injEq] at ht; subst ht
    simp only [valid, List.contains_eq_mem, decide_eq_true_eq] at hv
    have hns : FreeSite.packageDrop ∉ F.freeSites := by rw [hG.sites]; decide
    simp only [step, hns, if_false]
    have hpos : 0 < s.strong k' := hI.strong_pos_of_pkg hv
    have hc1 : InvCore { s with pkgs := s.pkgs.erase k' } :=
      ⟨hc.holds, hc.alive_cnt, hc.constRc_eq, hc.closRc_eq, hc.const_rel, hc.const_ever, hc.clos_rel, hc.clos_ever,
        hc.code_rel, hc.mapped_eq, hc.compiled_strong, hc.sc_rel, hc.no_fault, hc.expect_ok, hc.uses⟩
    obtain ⟨_, _, hp, hhs, hinfo, hcomp⟩ := decModule_inv hG { s with pkgs := s.pkgs.erase k' } k' hc1 hpos
    rw [hp, hhs, hinfo, hcomp]
    refine ⟨?_, (by triv), (by triv), (by triv)⟩
    show (s.pkgs.erase k').count j = _
    exact List.count_erase_of_ne hjk

/-- two states satisfying the invariant that agree on j's owners and static data agree on everything observable of j -/
theorem obs_eq_of_frame {s s' : St} (hI : Inv s) (hI' : Inv s') (j : Nat)
    (hp : s'.pkgs.count j = s.pkgs.count j)
    (hh : s'.hs.filter (fun h => h.k == j) = s.hs.filter (fun h => h.k == j))
    (hinfo : s'.info j = s.info j) (hcomp : j ∈ s'.compiled ↔ j ∈ s.compiled) :
    obs s' j = obs s j := by
  have hst : s'.strong j = s.strong j := by
    rw [hI'.strong_eq, hI.strong_eq]
    simp only [owners, List.countP_eq_length_filter, hp, hh]
  have h1 : s'.pkgs.contains j = s.pkgs.contains j := by
    have a : (s'.pkgs.contains j = true) ↔ (s.pkgs.contains j = true) := by
      simp only [List.contains_eq_mem, decide_eq_true_eq]
      rw [← List.count_pos_iff, ← List.count_pos_iff, hp]
    cases h : s.pkgs.contains j <;> cases h' : s'.pkgs.contains j <;> simp_all
  have h2 : s'.mapped j = s.mapped j := by rw [hI'.mapped_eq, hI.mapped_eq, hst]
  have h3 : s'.relCount (.code j) = s.relCount (.code j) := by
    rw [hI'.code_rel, hI.code_rel, hst]
    by_cases a : j ∈ s.compiled
    · simp [a, hcomp.2 a]
    · have : j ∉ s'.compiled := fun x => a (hcomp.1 x)
      simp [a, this]
  have h4 : ∀ c, s'.relCount (.scriptConst j c) = s.relCount (.scriptConst j c) := by
    intro c
    rw [hI'.sc_rel, hI.sc_rel, hst, hinfo]
    by_cases a : j ∈ s.compiled
    · simp [a, hcomp.2 a]
    · have : j ∉ s'.compiled := fun x => a (hcomp.1 x)
      simp [a, this]
  simp only [obs, h1, h2, h3, hinfo, hh, h4]
  congr 1
  apply List.map_congr_left
  intro h hm
  have hmem : h ∈ s.hs := (List.mem_filter.1 hm).1
  have hmem' : h ∈ s'.hs := by rw [← hh] at hm; exact (List.mem_filter.1 hm).1
  have hkj : h.k = j := by simpa using (List.mem_filter.1 hm).2
  rw [callRes_ok hI.toInvCore (hI.strong_pos_of_handle hmem),
    callRes_ok hI'.toInvCore (hI'.strong_pos_of_handle hmem'), hkj, hinfo]

/-! ### who refers to what -/

/-- a live package or a live handle of version k -/
def RefersModule (s : St) (k : Nat) : Prop := k ∈ s.pkgs ∨ ∃ h ∈ s.hs, h.k = k

/-- the live runtime that registered it, or a module somebody still refers to that cloned it -/
def RefersConst (s : St) (r : Nat) : Prop :=
  r ∈ s.rtConst ∨ ∃ k, RefersModule s k ∧ (s.info k).rt = r ∧ (s.info k).keepConst = true

def RefersClos (s : St) (r : Nat) : Prop :=
  r ∈ s.rtClos ∨ ∃ k, RefersModule s k ∧ (s.info k).rt = r ∧ (s.info k).keepClos = true

theorem strong_zero_iff {s : St} (hI : Inv s) (k : Nat) : s.strong k = 0 ↔ ¬ RefersModule s k := by
  rw [hI.strong_eq]
  simp only [owners, RefersModule]
  constructor
  · intro h0
    have a : s.pkgs.count k = 0 := by omega
    have b : s.hs.countP (fun h => h.k == k) = 0 := by omega
    rintro (hp | ⟨h, hh, e⟩)
    · exact (List.count_eq_zero.1 a) hp
    · have := (List.countP_eq_zero.1 b) h hh
      simp [e] at this
  · intro hn
    have a : s.pkgs.count k = 0 := List.count_eq_zero.2 (fun hp => hn (Or.inl hp))
    have b : s.hs.countP (fun h => h.k == k) = 0 :=
      List.countP_eq_zero.2 (fun h hh hp => hn (Or.inr ⟨h, hh, by simpa using hp⟩))
    omega

theorem alive_iff {s : St} (hI : Inv s) (k : Nat) : k ∈ s.alive ↔ RefersModule s k := by
  have hz := strong_zero_iff hI k
  constructor
  · intro hk
    apply Classical.byContradiction
    intro hn
    have h0 := hz.2 hn
    have := hI.alive_cnt k
    simp only [h0, Nat.lt_irrefl, if_false] at this
    exact (List.count_eq_zero.1 this) hk
  · intro hr
    have : ¬ s.strong k = 0 := fun h0 => (hz.1 h0) hr
    exact hI.toInvCore.mem_alive (by omega)

theorem constRc_zero_iff {s : St} (hI : Inv s) (r : Nat) : s.constRc r = 0 ↔ ¬ RefersConst s r := by
  rw [hI.constRc_eq]
  constructor
  · intro h0
    have a : s.rtConst.count r = 0 := by omega
    have b : s.alive.countP (constPred s.info r) = 0 := by omega
    rintro (hp | ⟨k, hk, e, hkc⟩)
    · exact (List.count_eq_zero.1 a) hp
    · have := (List.countP_eq_zero.1 b) k ((alive_iff hI k).2 hk)
      simp [constPred, e, hkc] at this
  · intro hn
    have a : s.rtConst.count r = 0 := List.count_eq_zero.2 (fun hp => hn (Or.inl hp))
    have b : s.alive.countP (constPred s.info r) = 0 :=
      List.countP_eq_zero.2 (fun k hk hp => by
        simp only [constPred, Bool.and_eq_true, beq_iff_eq] at hp
        exact hn (Or.inr ⟨k, (alive_iff hI k).1 hk, hp.2, hp.1⟩))
    omega

theorem closRc_zero_iff {s : St} (hI : Inv s) (r : Nat) : s.closRc r = 0 ↔ ¬ RefersClos s r := by
  rw [hI.closRc_eq]
  constructor
  · intro h0
    have a : s.rtClos.count r = 0 := by omega
    have b : s.alive.countP (closPred s.info r) = 0 := by omega
    rintro (hp | ⟨k, hk, e, hkc⟩)
    · exact (List.count_eq_zero.1 a) hp
    · have := (List.countP_eq_zero.1 b) k ((alive_iff hI k).2 hk)
      simp [closPred, e, hkc] at this
  · intro hn
    have a : s.rtClos.count r = 0 := List.count_eq_zero.2 (fun hp => hn (Or.inl hp))
    have b : s.alive.countP (closPred s.info r) = 0 :=
      List.countP_eq_zero.2 (fun k hk hp => by
        simp only [closPred, Bool.and_eq_true, beq_iff_eq] at hp
        exact hn (Or.inr ⟨k, (alive_iff hI k).1 hk, hp.2, hp.1⟩))
    omega

theorem exactly_once_of {P Q : Prop} [Decidable P] {n : Nat} (h : n = if P then 1 else 0) (hpq : P ↔ Q) :
    (n = 1 ↔ Q) ∧ (n = 0 ↔ ¬ Q) ∧ n ≤ 1 := by
  by_cases hp : P
  · simp only [hp, if_true] at h; subst h
    have q := hpq.1 hp
    refine ⟨⟨fun _ => q, fun _ => rfl⟩, ⟨fun e => ?_, fun nq => absurd q nq⟩, Nat.le_refl 1⟩
    exact absurd e (by decide)
  · simp only [hp, if_false] at h; subst h
    have nq : ¬ Q := fun q => hp (hpq.2 q)
    refine ⟨⟨fun e => ?_, fun q => absurd q nq⟩, ⟨fun _ => nq, fun _ => rfl⟩, Nat.zero_le 1⟩
    exact absurd e (by decide)

/-- how often `x` has been released so far is 1 exactly when `Gone`, 0 exactly when not, never more -/
def ExactlyOnce (n : Nat) (Gone : Prop) : Prop := (n = 1 ↔ Gone) ∧ (n = 0 ↔ ¬ Gone) ∧ n ≤ 1


end RotoV.Lifetime
