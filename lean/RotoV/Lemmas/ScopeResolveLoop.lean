/-
  C13 — the transliterated loop of `ScopeGraph::resolve_name`
  (`Generated/ScopeResolveLoop.lean`, language and meaning in
  `Model/ScopeResolveLoop.lean`) against the hand model `Graph.resolveName`.
-/
import RotoV.Model.ScopeResolveLoop
import RotoV.Generated.ScopeResolveLoop

namespace RotoV.Scope.RLoop
open RotoV.Scope

/-- one iteration of `Graph.resolveName`, as a `Flow` -/
def stepSpec (g : Graph) (s : Nat) (x : Name) (recurse : Bool) : Out Flow :=
  match g.decl ⟨s, x⟩ with
  | some d => .ok (.ret (some d))
  | none =>
    if !recurse then .ok (.ret none) else
    match g.scopes[s]? with
    | none => .panic .scopeIndex
    | some sc =>
      match sc.imports.lookup x with
      | some t =>
        match g.decl t with
        | some d => .ok (.ret (some d))
        | none => .panic .importTarget
      | none =>
        match sc.parent with
        | none => .ok (.ret none)
        | some p => .ok (.fall p)

/-- a loop body whose single pass is `stepSpec` means `Graph.resolveName` -/
theorem run_eq_resolveName (body : RBlock)
    (h : ∀ (g : Graph) (s : Nat) (x : Name) (r : Bool), exec g x r body s [] = stepSpec g s x r)
    (g : Graph) (fuel s : Nat) (x : Name) (recurse : Bool) :
    run body g fuel s x recurse = Out.ofRes (g.resolveName fuel s x recurse) := by
  induction fuel generalizing s with
  | zero => rfl
  | succ n ih =>
    unfold run Graph.resolveName
    rw [h]
    unfold stepSpec
    cases hd : g.decl ⟨s, x⟩ with
    | some d => rfl
    | none =>
      cases recurse with
      | false => rfl
      | true =>
        cases hs : g.scopes[s]? with
        | none => rfl
        | some sc =>
          cases hl : sc.imports.lookup x with
          | some t => cases ht : g.decl t <;> simp [hl, ht, Out.ofRes]
          | none =>
            cases hp : sc.parent with
            | none => simp [hl, hp, Out.ofRes]
            | some p => simp [hl, hp, ih]

/-- a single pass through the body the translator read off the working tree -/
theorem exec_generated (g : Graph) (s : Nat) (x : Name) (r : Bool) :
    exec g x r Gen.ScopeResolveLoop.resolveNameBody s [] = stepSpec g s x r := by
  unfold Gen.ScopeResolveLoop.resolveNameBody stepSpec
  cases r <;> cases hd : g.decl ⟨s, x⟩ <;> cases hs : g.scopes[s]? with
  | none => simp [exec, eval, hd, hs]
  | some sc =>
    cases hl : sc.imports.lookup x with
    | none => cases hp : sc.parent <;> simp [exec, eval, hd, hs, hl, hp]
    | some t => cases ht : g.decl t <;> simp [exec, eval, hd, hs, hl, ht]

/-- the same for the reference body (exercises the language without the generated file) -/
theorem exec_reference (g : Graph) (s : Nat) (x : Name) (r : Bool) :
    exec g x r referenceBody s [] = stepSpec g s x r := by
  unfold referenceBody stepSpec
  cases r <;> cases hd : g.decl ⟨s, x⟩ <;> cases hs : g.scopes[s]? with
  | none => simp [exec, eval, hd, hs]
  | some sc =>
    cases hl : sc.imports.lookup x with
    | none => cases hp : sc.parent <;> simp [exec, eval, hd, hs, hl, hp]
    | some t => cases ht : g.decl t <;> simp [exec, eval, hd, hs, hl, ht]

end RotoV.Scope.RLoop
