/-
  C05 — arithmetic of `next_multiple_of` and powers of two (core Lean only).
-/
import RotoV.Model.Boundary

namespace RotoV.Boundary

theorem roundUp_dvd (n a : Nat) : a ∣ roundUp n a := by
  unfold roundUp; exact Nat.dvd_mul_left _ _

theorem le_roundUp (n a : Nat) (ha : 0 < a) : n ≤ roundUp n a := by
  unfold roundUp
  have h1 := Nat.div_add_mod (n + a - 1) a
  have h2 := Nat.mod_lt (n + a - 1) ha
  have h3 : a * ((n + a - 1) / a) = (n + a - 1) / a * a := Nat.mul_comm _ _
  omega

/-- `roundUp n a` is the *least* multiple of `a` that is `≥ n`. -/
theorem roundUp_le_of_dvd {n a m : Nat} (ha : 0 < a) (hd : a ∣ m) (hn : n ≤ m) : roundUp n a ≤ m := by
  obtain ⟨k, rfl⟩ := hd
  unfold roundUp
  have hc : a * k = k * a := Nat.mul_comm _ _
  have : (n + a - 1) / a < k + 1 :=
    (Nat.div_lt_iff_lt_mul ha).mpr (by rw [Nat.succ_mul]; omega)
  calc (n + a - 1) / a * a ≤ k * a := Nat.mul_le_mul_right _ (Nat.le_of_lt_succ this)
    _ = a * k := hc.symm

theorem roundUp_mono {n m : Nat} (a : Nat) (ha : 0 < a) (h : n ≤ m) : roundUp n a ≤ roundUp m a :=
  roundUp_le_of_dvd ha (roundUp_dvd _ _) (Nat.le_trans h (le_roundUp _ _ ha))

theorem roundUp_of_dvd {n a : Nat} (ha : 0 < a) (h : a ∣ n) : roundUp n a = n :=
  Nat.le_antisymm (roundUp_le_of_dvd ha h (Nat.le_refl _)) (le_roundUp _ _ ha)

theorem roundUp_roundUp_of_dvd {a b : Nat} (n : Nat) (ha : 0 < a) (hb : 0 < b) (h : a ∣ b) :
    roundUp (roundUp n a) b = roundUp n b := by
  apply Nat.le_antisymm
  · apply roundUp_le_of_dvd hb (roundUp_dvd _ _)
    exact roundUp_le_of_dvd ha (Nat.dvd_trans h (roundUp_dvd _ _)) (le_roundUp _ _ hb)
  · exact roundUp_mono b hb (le_roundUp _ _ ha)

theorem roundUp_max (x y a : Nat) (ha : 0 < a) :
    roundUp (max x y) a = max (roundUp x a) (roundUp y a) := by
  rcases Nat.le_total x y with h | h
  · rw [Nat.max_eq_right h, Nat.max_eq_right (roundUp_mono a ha h)]
  · rw [Nat.max_eq_left h, Nat.max_eq_left (roundUp_mono a ha h)]

/-- `usize::next_multiple_of` computes `roundUp`. -/
theorem nextMultipleOf_eq_roundUp (n a : Nat) (ha : 0 < a) : nextMultipleOf n a = roundUp n a := by
  apply Nat.le_antisymm
  · -- nextMultipleOf is a multiple of a that is ≥ n and < n + a, hence the least one
    have hd : a ∣ nextMultipleOf n a := by
      unfold nextMultipleOf
      split
      · exact Nat.dvd_of_mod_eq_zero ‹_›
      · have h1 := Nat.div_add_mod n a
        have h2 := Nat.mod_lt n ha
        refine ⟨n / a + 1, ?_⟩
        rw [Nat.mul_succ]; omega
    have hlt : nextMultipleOf n a < n + a := by
      unfold nextMultipleOf
      split
      · omega
      · have h2 := Nat.mod_lt n ha; omega
    obtain ⟨k, hk⟩ := hd
    obtain ⟨j, hj⟩ := roundUp_dvd n a
    have hge := le_roundUp n a ha
    rw [hk] at hlt; rw [hj] at hge; rw [hk, hj]
    have : k < j + 1 := by
      apply Nat.lt_of_mul_lt_mul_left (a := a)
      rw [Nat.mul_succ]; omega
    exact Nat.mul_le_mul_left a (Nat.le_of_lt_succ this)
  · apply roundUp_le_of_dvd ha
    · unfold nextMultipleOf
      split
      · exact Nat.dvd_of_mod_eq_zero ‹_›
      · have h1 := Nat.div_add_mod n a
        have h2 := Nat.mod_lt n ha
        refine ⟨n / a + 1, ?_⟩
        rw [Nat.mul_succ]; omega
    · unfold nextMultipleOf; split <;> omega

theorem roundUp_one {a : Nat} (ha : 0 < a) : roundUp 1 a = a := by
  unfold roundUp
  have : 1 + a - 1 = a := by omega
  rw [this, Nat.div_self ha, Nat.one_mul]

/-! ### powers of two -/

theorem isPow2.pos {a : Nat} (h : isPow2 a) : 0 < a := by
  obtain ⟨k, rfl⟩ := h; exact Nat.pow_pos (by decide)

theorem isPow2.dvd_max {a b : Nat} (ha : isPow2 a) (hb : isPow2 b) : a ∣ max a b := by
  obtain ⟨i, rfl⟩ := ha; obtain ⟨j, rfl⟩ := hb
  rcases Nat.le_total i j with h | h
  · rw [Nat.max_eq_right (Nat.pow_le_pow_right (by decide) h)]; exact Nat.pow_dvd_pow 2 h
  · rw [Nat.max_eq_left (Nat.pow_le_pow_right (by decide) h)]; exact Nat.dvd_refl _

theorem isPow2.max {a b : Nat} (ha : isPow2 a) (hb : isPow2 b) : isPow2 (max a b) := by
  rcases Nat.le_total a b with h | h
  · rwa [Nat.max_eq_right h]
  · rwa [Nat.max_eq_left h]

theorem isPow2_one : isPow2 1 := ⟨0, rfl⟩

theorem Layout.WF.align_pos {l : Layout} (h : l.WF) : 0 < l.align := h.pow2.pos

end RotoV.Boundary
