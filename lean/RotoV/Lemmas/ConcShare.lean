/-
  Lemmas for C12 part 4 (Model/ConcShare): the lock machine's exclusion
  invariant, exact atomic counts.
-/
import RotoV.Model.ConcShare

namespace RotoV.Conc.Share

set_option linter.unusedSectionVars false

section Lock
variable {ι : Type} [DecidableEq ι]

/-- exclusion invariant of the holder list: a holder whose acquisition grants
exclusivity is the only holder -/
def Excl (k : LockKind) (mode : ι → LockMode) (H : List ι) : Prop :=
  ∀ j ∈ H, grantsExcl k (mode j) = true → H = [j]

theorem excl_nil (k : LockKind) (mode : ι → LockMode) : Excl k mode ([] : List ι) := by
  intro j hj; cases hj

theorem grantsExcl_cases {k : LockKind} {m : LockMode} (h : grantsExcl k m = true) :
    (k = .mutex ∧ m = .mutexLock) ∨ (k = .rwlock ∧ m = .rwWrite) := by
  cases k <;> cases m <;> simp_all [grantsExcl]

theorem canAcq_excl_holder {k : LockKind} {mode : ι → LockMode} {H : List ι} {i j : ι}
    (hj : j ∈ H) (hg : grantsExcl k (mode j) = true) : canAcq k mode H i = false := by
  rcases grantsExcl_cases hg with ⟨hk, _⟩ | ⟨hk, hm⟩
  · subst hk
    cases H with
    | nil => cases hj
    | cons a t => simp [canAcq]
  · subst hk
    unfold canAcq
    by_cases hw : mode i = .rwWrite
    · cases H with
      | nil => cases hj
      | cons a t => simp [hw]
    · simp only [beq_iff_eq, hw, if_false]
      apply Bool.eq_false_iff.mpr
      intro hall
      have := List.all_eq_true.mp hall j hj
      simp [hm] at this

theorem canAcq_self_excl {k : LockKind} {mode : ι → LockMode} {H : List ι} {i : ι}
    (hc : canAcq k mode H i = true) (hg : grantsExcl k (mode i) = true) : H = [] := by
  rcases grantsExcl_cases hg with ⟨hk, _⟩ | ⟨hk, hm⟩
  · subst hk
    cases H with
    | nil => rfl
    | cons a t => simp [canAcq] at hc
  · subst hk
    cases H with
    | nil => rfl
    | cons a t => simp [canAcq, hm] at hc

theorem step_excl {k : LockKind} {mode : ι → LockMode} {H H' : List ι} {e : Ev ι}
    (hinv : Excl k mode H) (hs : stepLock k mode H e = some H') : Excl k mode H' := by
  cases e with
  | acq i =>
    simp only [stepLock] at hs
    split at hs
    · rename_i hc
      simp only [Bool.and_eq_true] at hc
      cases hs
      intro j hj hg
      rcases List.mem_cons.mp hj with rfl | hjH
      · rw [canAcq_self_excl hc.2 hg]
      · have := canAcq_excl_holder (i := i) hjH hg
        rw [this] at hc
        exact absurd hc.2 (by simp)
    · cases hs
  | rel i =>
    simp only [stepLock] at hs
    split at hs
    · cases hs
      intro j hj hg
      have hjH : j ∈ H := List.mem_of_mem_erase hj
      have hH := hinv j hjH hg
      rw [hH] at hj ⊢
      by_cases hij : j = i
      · subst hij; simp at hj
      · simp [hij]
    · cases hs
  | acc i w =>
    simp only [stepLock] at hs
    split at hs
    · cases hs; exact hinv
    · cases hs

/-- while an exclusive holder is inside, nobody else can do anything -/
theorem step_alone {k : LockKind} {mode : ι → LockMode} {i : ι} {H' : List ι} {e : Ev ι}
    (hg : grantsExcl k (mode i) = true) (hs : stepLock k mode [i] e = some H') : e.inst = i := by
  cases e with
  | acq j =>
    simp only [stepLock] at hs
    split at hs
    · rename_i hc
      simp only [Bool.and_eq_true] at hc
      have := canAcq_excl_holder (i := j) (H := [i]) (List.mem_singleton.mpr rfl) hg
      rw [this] at hc
      exact absurd hc.2 (by simp)
    · cases hs
  | rel j =>
    simp only [stepLock] at hs
    split at hs
    · rename_i hc
      simp at hc
      simp [Ev.inst, hc]
    · cases hs
  | acc j w =>
    simp only [stepLock] at hs
    split at hs
    · rename_i hc
      simp at hc
      simp [Ev.inst, hc]
    · cases hs

theorem run_excl {k : LockKind} {mode : ι → LockMode} : ∀ (tr : List (Ev ι)) (H H' : List ι),
    Excl k mode H → runLock k mode H tr = some H' → Excl k mode H'
  | [], H, H', hinv, h => by simp [runLock] at h; subst h; exact hinv
  | e :: rest, H, H', hinv, h => by
    simp only [runLock] at h
    split at h
    · rename_i H1 hs
      exact run_excl rest H1 H' (step_excl hinv hs) h
    · cases h

theorem run_append {k : LockKind} {mode : ι → LockMode} : ∀ (pre post : List (Ev ι)) (H Hf : List ι),
    runLock k mode H (pre ++ post) = some Hf →
    ∃ Hm, runLock k mode H pre = some Hm ∧ runLock k mode Hm post = some Hf
  | [], post, H, Hf, h => ⟨H, rfl, h⟩
  | e :: pre, post, H, Hf, h => by
    simp only [List.cons_append, runLock] at h ⊢
    cases hs : stepLock k mode H e with
    | none => simp [hs] at h
    | some H1 =>
      simp only [hs] at h ⊢
      exact run_append pre post H1 Hf h

/-- an instance that holds the lock keeps holding it until its own release -/
theorem held_preserved {k : LockKind} {mode : ι → LockMode} {r : ι} :
    ∀ (mid : List (Ev ι)) (H H' : List ι), r ∈ H → Ev.rel r ∉ mid →
      runLock k mode H mid = some H' → r ∈ H'
  | [], H, H', hr, _, h => by simp [runLock] at h; subst h; exact hr
  | e :: rest, H, H', hr, hno, h => by
    simp only [runLock] at h
    cases hs : stepLock k mode H e with
    | none => simp [hs] at h
    | some H1 =>
      simp only [hs] at h
      have hno' : Ev.rel r ∉ rest := fun hm => hno (List.mem_cons_of_mem _ hm)
      refine held_preserved rest H1 H' ?_ hno' h
      cases e with
      | acq x =>
        simp only [stepLock] at hs
        split at hs
        · cases hs; exact List.mem_cons_of_mem _ hr
        · cases hs
      | rel x =>
        simp only [stepLock] at hs
        split at hs
        · cases hs
          have hx : r ≠ x := by
            intro e; subst e; exact hno (List.mem_cons_self ..)
          exact (List.mem_erase_of_ne hx).mpr hr
        · cases hs
      | acc x w =>
        simp only [stepLock] at hs
        split at hs
        · cases hs; exact hr
        · cases hs

end Lock

/-! ### atomic counts -/

/-- what `countRun` computes: the count is the number of handles — the initial
ones, plus clones, minus drops; the payload is freed exactly when that number
reaches zero, and then no event can follow -/
theorem countRun_exact : ∀ (evs : List CountEv) (n fr n' fr' : Nat),
    countRun (n, fr) evs = some (n', fr') →
    n' + drops evs = n + clones evs
    ∧ (fr' = if n' = 0 ∧ 0 < n then fr + 1 else fr)
  | [], n, fr, n', fr', h => by
    simp only [countRun, Option.some.injEq, Prod.mk.injEq] at h
    obtain ⟨rfl, rfl⟩ := h
    refine ⟨by simp [drops, clones], ?_⟩
    by_cases h0 : n = 0 <;> simp [h0]
  | e :: rest, 0, fr, n', fr', h => by simp [countRun] at h
  | .clone :: rest, n + 1, fr, n', fr', h => by
    simp only [countRun] at h
    have ih := countRun_exact rest (n + 2) fr n' fr' h
    refine ⟨by simp only [drops, clones]; omega, ?_⟩
    rw [ih.2]
    simp
  | .drop :: rest, n + 1, fr, n', fr', h => by
    simp only [countRun] at h
    by_cases h0 : n = 0
    · subst h0
      simp only [if_true] at h
      cases rest with
      | nil =>
        simp only [countRun, Option.some.injEq, Prod.mk.injEq] at h
        obtain ⟨rfl, rfl⟩ := h
        simp [drops, clones]
      | cons e r => simp [countRun] at h
    · simp only [h0, if_false] at h
      have ih := countRun_exact rest n fr n' fr' h
      refine ⟨by simp only [drops, clones]; omega, ?_⟩
      rw [ih.2]
      have : 0 < n := Nat.pos_of_ne_zero h0
      simp [this]

theorem clones_perm {a b : List CountEv} (h : a.Perm b) : clones a = clones b := by
  induction h with
  | nil => rfl
  | cons x _ ih => cases x <;> simp [clones, ih]
  | swap x y l => cases x <;> cases y <;> simp [clones]
  | trans _ _ ih1 ih2 => exact ih1.trans ih2

theorem drops_perm {a b : List CountEv} (h : a.Perm b) : drops a = drops b := by
  induction h with
  | nil => rfl
  | cons x _ ih => cases x <;> simp [drops, ih]
  | swap x y l => cases x <;> cases y <;> simp [drops]
  | trans _ _ ih1 ih2 => exact ih1.trans ih2

/-! ### swaps under an exclusive lock serialise -/

/-- a whole swap as one action -/
def swapList (arr : List Nat) (a b : Nat) : List Nat :=
  (arr.set a (arr.getD b 0)).set b (arr.getD a 0)

/-- instances in the order in which they acquired the lock -/
def acqOrder : List Micro → List Nat
  | [] => []
  | .acq i :: rest => i :: acqOrder rest
  | _ :: rest => acqOrder rest

theorem swapList_length (arr : List Nat) (a b : Nat) : (swapList arr a b).length = arr.length := by
  simp [swapList]

theorem swapList_perm (arr : List Nat) (a b : Nat) (ha : a < arr.length) (hb : b < arr.length) :
    (swapList arr a b).Perm arr := by
  unfold swapList
  have h1 : arr.getD a 0 = arr[a] := by simp [List.getD_eq_getElem?_getD, ha]
  have h2 : arr.getD b 0 = arr[b] := by simp [List.getD_eq_getElem?_getD, hb]
  rw [h1, h2]
  exact List.set_set_perm ha hb

/-- the six micro-steps of a swap, run without interruption, are the swap -/
theorem execMicro_swapProg (arr : List Nat) (tmp : List (Nat × Nat × Nat)) (i a b : Nat) (rest : List Micro) :
    ∃ tmp', execMicro (arr, tmp) (swapProg i a b ++ rest) = execMicro (swapList arr a b, tmp') rest := by
  refine ⟨(i, 1, arr.getD b 0) :: (i, 0, arr.getD a 0) :: tmp, ?_⟩
  simp [swapProg, execMicro, swapList, List.find?]

theorem projMicro_cons_self (m : Micro) (t : List Micro) (i : Nat) (h : m.toEv.inst = i) :
    projMicro i (m :: t) = m :: projMicro i t := by
  simp [projMicro, h]

theorem projMicro_cons_other (m : Micro) (t : List Micro) (i : Nat) (h : m.toEv.inst ≠ i) :
    projMicro i (m :: t) = projMicro i t := by
  simp [projMicro, h]

theorem projMicro_block_other (i j a b : Nat) (hne : i ≠ j) (rest : List Micro) :
    projMicro j (Micro.acq i :: ([Micro.load i 0 a, .load i 1 b, .store i a 1, .store i b 0]
      ++ Micro.rel i :: rest)) = projMicro j rest := by
  simp [projMicro, Micro.toEv, Ev.inst, hne]

/-- an access micro-step of instance `i` -/
def Micro.isAccOf (i : Nat) : Micro → Bool
  | .load j _ _ => j == i
  | .store j _ _ => j == i
  | _ => false

theorem isAccOf_toEv {i : Nat} {m : Micro} (h : m.isAccOf i = true) : ∃ w, m.toEv = .acc i w := by
  cases m <;> simp_all [Micro.isAccOf, Micro.toEv]

/-- while `i` holds the lock exclusively, the trace continues with exactly the
rest of `i`'s program, then `i` releases -/
theorem follow_block {k : LockKind} {mode : Nat → LockMode} {i : Nat}
    (hg : grantsExcl k (mode i) = true) :
    ∀ (p : List Micro) (tr1 : List Micro), (∀ m ∈ p, m.isAccOf i = true) →
      runLock k mode [i] (tr1.map Micro.toEv) = some [] →
      projMicro i tr1 = p ++ [.rel i] →
      ∃ tr2, tr1 = p ++ .rel i :: tr2 ∧ runLock k mode [] (tr2.map Micro.toEv) = some []
        ∧ projMicro i tr2 = []
  | p, [], _, hrun, _ => by simp [runLock] at hrun
  | [], m :: t, _, hrun, hproj => by
    simp only [List.map_cons, runLock] at hrun
    cases hs : stepLock k mode [i] m.toEv with
    | none => simp [hs] at hrun
    | some H1 =>
      have hi := step_alone hg hs
      rw [projMicro_cons_self m t i hi] at hproj
      simp only [List.nil_append, List.cons.injEq] at hproj
      obtain ⟨rfl, hpt⟩ := hproj
      simp only [hs] at hrun
      simp [Micro.toEv, stepLock] at hs
      subst hs
      exact ⟨t, rfl, hrun, hpt⟩
  | x :: p', m :: t, hacc, hrun, hproj => by
    simp only [List.map_cons, runLock] at hrun
    cases hs : stepLock k mode [i] m.toEv with
    | none => simp [hs] at hrun
    | some H1 =>
      have hi := step_alone hg hs
      rw [projMicro_cons_self m t i hi] at hproj
      simp only [List.cons_append, List.cons.injEq] at hproj
      obtain ⟨rfl, hpt⟩ := hproj
      simp only [hs] at hrun
      obtain ⟨w, hw⟩ := isAccOf_toEv (hacc m (List.mem_cons_self ..))
      rw [hw] at hs
      simp [stepLock] at hs
      subst hs
      obtain ⟨tr2, rfl, h2, h3⟩ := follow_block hg p' t (fun y hy => hacc y (List.mem_cons_of_mem _ hy)) hrun hpt
      exact ⟨tr2, rfl, h2, h3⟩

theorem acqOrder_append_of_acc (i : Nat) : ∀ (p : List Micro), (∀ m ∈ p, m.isAccOf i = true) →
    ∀ rest, acqOrder (p ++ rest) = acqOrder rest
  | [], _, _ => rfl
  | m :: p', h, rest => by
    have hm := h m (List.mem_cons_self ..)
    have ih := acqOrder_append_of_acc i p' (fun y hy => h y (List.mem_cons_of_mem _ hy)) rest
    cases m <;> simp_all [Micro.isAccOf, acqOrder]

/-- **Serialisation.** Every instance runs one `swap` under an acquisition that
grants exclusivity. Then every complete trace the lock admits computes what the
swaps compute when run one after the other, as whole actions, in the order in
which they acquired the lock. -/
theorem exclusive_swaps_serialize (k : LockKind) (mode : Nat → LockMode) (a b : Nat → Nat)
    (hex : ∀ i, grantsExcl k (mode i) = true) :
    ∀ (n : Nat) (tr : List Micro), tr.length ≤ n →
      runLock k mode [] (tr.map Micro.toEv) = some [] →
      (∀ i, projMicro i tr = [] ∨ projMicro i tr = swapProg i (a i) (b i)) →
      ∀ arr tmp, execMicro (arr, tmp) tr
        = (acqOrder tr).foldl (fun arr i => swapList arr (a i) (b i)) arr
  | _, [], _, _, _, arr, tmp => by simp [execMicro, acqOrder]
  | 0, m :: t, hn, _, _, _, _ => by simp at hn
  | n + 1, m :: t, hn, hrun, hprog, arr, tmp => by
    simp only [List.map_cons, runLock] at hrun
    cases hs : stepLock k mode [] m.toEv with
    | none => simp [hs] at hrun
    | some H1 =>
      simp only [hs] at hrun
      -- from the empty holder list only an acquisition can happen
      cases m with
      | rel j => simp [Micro.toEv, stepLock] at hs
      | load j s x => simp [Micro.toEv, stepLock] at hs
      | store j x s => simp [Micro.toEv, stepLock] at hs
      | acq i =>
        simp [Micro.toEv, stepLock, canAcq] at hs
        have hH1 : H1 = [i] := by
          cases k <;> simp_all
        subst hH1
        have hpi := hprog i
        rw [projMicro_cons_self (.acq i) t i rfl] at hpi
        rcases hpi with hnil | hsw
        · cases hnil
        · simp only [swapProg, List.cons.injEq, true_and] at hsw
          have hacc : ∀ y ∈ [Micro.load i 0 (a i), .load i 1 (b i), .store i (a i) 1, .store i (b i) 0],
              y.isAccOf i = true := by
            intro y hy
            simp only [List.mem_cons, List.not_mem_nil, or_false] at hy
            rcases hy with rfl | rfl | rfl | rfl <;> simp [Micro.isAccOf]
          obtain ⟨tr2, rfl, h2, h3⟩ := follow_block (hex i) _ t hacc hrun (by simpa using hsw)
          have hlen : tr2.length ≤ n := by
            simp only [List.length_cons, List.length_append] at hn
            omega
          have hprog2 : ∀ j, projMicro j tr2 = [] ∨ projMicro j tr2 = swapProg j (a j) (b j) := by
            intro j
            by_cases hj : j = i
            · subst hj; exact Or.inl h3
            · have := hprog j
              have hne : i ≠ j := fun e => hj e.symm
              rw [projMicro_block_other i j _ _ hne tr2] at this
              exact this
          have hblock : (Micro.acq i :: ([Micro.load i 0 (a i), .load i 1 (b i), .store i (a i) 1, .store i (b i) 0]
              ++ Micro.rel i :: tr2)) = swapProg i (a i) (b i) ++ tr2 := by
            simp [swapProg]
          rw [hblock]
          obtain ⟨tmp', hexec⟩ := execMicro_swapProg arr tmp i (a i) (b i) tr2
          rw [hexec, exclusive_swaps_serialize k mode a b hex n tr2 hlen h2 hprog2]
          simp [swapProg, acqOrder]

theorem foldl_swap_perm (a b : Nat → Nat) : ∀ (is : List Nat) (arr : List Nat),
    (∀ i, a i < arr.length ∧ b i < arr.length) →
    (is.foldl (fun arr i => swapList arr (a i) (b i)) arr).Perm arr
  | [], arr, _ => List.Perm.refl _
  | i :: rest, arr, h => by
    simp only [List.foldl]
    have h' : ∀ j, a j < (swapList arr (a i) (b i)).length ∧ b j < (swapList arr (a i) (b i)).length := by
      intro j; rw [swapList_length]; exact h j
    exact (foldl_swap_perm a b rest _ h').trans (swapList_perm arr _ _ (h i).1 (h i).2)

/-! ### atomic read-modify-write = load and store with nothing in between -/

/-- every count update as an uninterrupted load/store pair of its thread -/
def atomicOps : List (Nat × CountEv) → List (Nat × RcOp)
  | [] => []
  | (t, .clone) :: r => (t, .ld) :: (t, .stInc) :: atomicOps r
  | (t, .drop) :: r => (t, .ld) :: (t, .stDec) :: atomicOps r

theorem tmpOf_push (c l : Nat) (tm : List (Nat × Nat)) (fr : Nat) (fw : Bool) (t v : Nat) :
    (RcSt.mk c l ((t, v) :: tm) fr fw).tmpOf t = v := by
  simp [RcSt.tmpOf, List.find?]

/-- When no step of another thread falls between a thread's load and its store
(what an atomic read-modify-write guarantees), the load/store machine IS the
atomic machine: the count equals the number of live handles throughout, and the
payload is never freed while a handle lives. -/
theorem rc_atomic_pairs_exact : ∀ (evs : List (Nat × CountEv)) (s : RcSt) (n' fr' : Nat),
    s.count = s.live → s.freedWhileLive = false →
    countRun (s.count, s.frees) (evs.map (·.2)) = some (n', fr') →
    (rcRun s (atomicOps evs)).count = n' ∧ (rcRun s (atomicOps evs)).live = n'
      ∧ (rcRun s (atomicOps evs)).frees = fr' ∧ (rcRun s (atomicOps evs)).freedWhileLive = false
  | [], s, n', fr', hcl, hf, h => by
    simp only [List.map_nil, countRun, Option.some.injEq, Prod.mk.injEq] at h
    obtain ⟨rfl, rfl⟩ := h
    simp [atomicOps, rcRun, hcl.symm, hf]
  | (t, .clone) :: rest, s, n', fr', hcl, hf, h => by
    cases hc : s.count with
    | zero => rw [hc] at h; simp [countRun] at h
    | succ n =>
      rw [hc] at h
      simp only [List.map_cons, countRun] at h
      simp only [atomicOps, rcRun, rcStep]
      apply rc_atomic_pairs_exact rest _ n' fr'
      · simp only [tmpOf_push]; omega
      · exact hf
      · simp only [tmpOf_push, hc]; exact h
  | (t, .drop) :: rest, s, n', fr', hcl, hf, h => by
    cases hc : s.count with
    | zero => rw [hc] at h; simp [countRun] at h
    | succ n =>
      rw [hc] at h
      simp only [List.map_cons, countRun] at h
      simp only [atomicOps, rcRun, rcStep]
      have hl : s.live - 1 = n := by omega
      apply rc_atomic_pairs_exact rest _ n' fr'
      · simp only [tmpOf_push, hc, hl]; omega
      · simp only [tmpOf_push, hf, hc, hl, Bool.false_or, Nat.add_sub_cancel]
        cases n <;> simp
      · simp only [tmpOf_push, hc, Nat.add_sub_cancel]
        exact h

end RotoV.Conc.Share
