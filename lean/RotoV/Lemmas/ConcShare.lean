/-
  Lemmas for C12 part 4 (Model/ConcShare): the lock machine's exclusion
  invariant, exact atomic counts.
-/
import RotoV.Model.ConcShare

namespace RotoV.Conc.Share

set_option linter.unusedSectionVars false

section Lock
variable {ι : Type} [DecidableEq ι]

/-- exclusion invariant of the holder list: a holder whose acquisition grants
exclusivity is the only holder -/
def Excl (k : LockKind) (mode : ι → LockMode) (H : List ι) : Prop :=
  ∀ j ∈ H, grantsExcl k (mode j) = true → H = [j]

theorem excl_nil (k : LockKind) (mode : ι → LockMode) : Excl k mode ([] : List ι) := by
  intro j hj; cases hj

theorem grantsExcl_cases {k : LockKind} {m : LockMode} (h : grantsExcl k m = true) :
    (k = .mutex ∧ m = .mutexLock) ∨ (k = .rwlock ∧ m = .rwWrite) := by
  cases k <;> cases m <;> simp_all [grantsExcl]

theorem canAcq_excl_holder {k : LockKind} {mode : ι → LockMode} {H : List ι} {i j : ι}
    (hj : j ∈ H) (hg : grantsExcl k (mode j) = true) : canAcq k mode H i = false := by
  rcases grantsExcl_cases hg with ⟨hk, _⟩ | ⟨hk, hm⟩
  · subst hk
    cases H with
    | nil => cases hj
    | cons a t => simp [canAcq]
  · subst hk
    unfold canAcq
    by_cases hw : mode i = .rwWrite
    · cases H with
      | nil => cases hj
      | cons a t => simp [hw]
    · simp only [beq_iff_eq, hw, if_false]
      apply Bool.eq_false_iff.mpr
      intro hall
      have := List.all_eq_true.mp hall j hj
      simp [hm] at this

theorem canAcq_self_excl {k : LockKind} {mode : ι → LockMode} {H : List ι} {i : ι}
    (hc : canAcq k mode H i = true) (hg : grantsExcl k (mode i) = true) : H = [] := by
  rcases grantsExcl_cases hg with ⟨hk, _⟩ | ⟨hk, hm⟩
  · subst hk
    cases H with
    | nil => rfl
    | cons a t => simp [canAcq] at hc
  · subst hk
    cases H with
    | nil => rfl
    | cons a t => simp [canAcq, hm] at hc

theorem step_excl {k : LockKind} {mode : ι → LockMode} {H H' : List ι} {e : Ev ι}
    (hinv : Excl k mode H) (hs : stepLock k mode H e = some H') : Excl k mode H' := by
  cases e with
  | acq i =>
    simp only [stepLock] at hs
    split at hs
    · rename_i hc
      simp only [Bool.and_eq_true] at hc
      cases hs
      intro j hj hg
      rcases List.mem_cons.mp hj with rfl | hjH
      · rw [canAcq_self_excl hc.2 hg]
      · have := canAcq_excl_holder (i := i) hjH hg
        rw [this] at hc
        exact absurd hc.2 (by simp)
    · cases hs
  | rel i =>
    simp only [stepLock] at hs
    split at hs
    · cases hs
      intro j hj hg
      have hjH : j ∈ H := List.mem_of_mem_erase hj
      have hH := hinv j hjH hg
      rw [hH] at hj ⊢
      by_cases hij : j = i
      · subst hij; simp at hj
      · simp [hij]
    · cases hs
  | acc i w =>
    simp only [stepLock] at hs
    split at hs
    · cases hs; exact hinv
    · cases hs

/-- while an exclusive holder is inside, nobody else can do anything -/
theorem step_alone {k : LockKind} {mode : ι → LockMode} {i : ι} {H' : List ι} {e : Ev ι}
    (hg : grantsExcl k (mode i) = true) (hs : stepLock k mode [i] e = some H') : e.inst = i := by
  cases e with
  | acq j =>
    simp only [stepLock] at hs
    split at hs
    · rename_i hc
      simp only [Bool.and_eq_true] at hc
      have := canAcq_excl_holder (i := j) (H := [i]) (List.mem_singleton.mpr rfl) hg
      rw [this] at hc
      exact absurd hc.2 (by simp)
    · cases hs
  | rel j =>
    simp only [stepLock] at hs
    split at hs
    · rename_i hc
      simp at hc
      simp [Ev.inst, hc]
    · cases hs
  | acc j w =>
    simp only [stepLock] at hs
    split at hs
    · rename_i hc
      simp at hc
      simp [Ev.inst, hc]
    · cases hs

theorem run_excl {k : LockKind} {mode : ι → LockMode} : ∀ (tr : List (Ev ι)) (H H' : List ι),
    Excl k mode H → runLock k mode H tr = some H' → Excl k mode H'
  | [], H, H', hinv, h => by simp [runLock] at h; subst h; exact hinv
  | e :: rest, H, H', hinv, h => by
    simp only [runLock] at h
    split at h
    · rename_i H1 hs
      exact run_excl rest H1 H' (step_excl hinv hs) h
    · cases h

theorem run_append {k : LockKind} {mode : ι → LockMode} : ∀ (pre post : List (Ev ι)) (H Hf : List ι),
    runLock k mode H (pre ++ post) = some Hf →
    ∃ Hm, runLock k mode H pre = some Hm ∧ runLock k mode Hm post = some Hf
  | [], post, H, Hf, h => ⟨H, rfl, h⟩
  | e :: pre, post, H, Hf, h => by
    simp only [List.cons_append, runLock] at h ⊢
    cases hs : stepLock k mode H e with
    | none => simp [hs] at h
    | some H1 =>
      simp only [hs] at h ⊢
      exact run_append pre post H1 Hf h

end Lock

/-! ### atomic counts -/

/-- what `countRun` computes: the count is the number of handles — the initial
ones, plus clones, minus drops; the payload is freed exactly when that number
reaches zero, and then no event can follow -/
theorem countRun_exact : ∀ (evs : List CountEv) (n fr n' fr' : Nat),
    countRun (n, fr) evs = some (n', fr') →
    n' + drops evs = n + clones evs
    ∧ (fr' = if n' = 0 ∧ 0 < n then fr + 1 else fr)
  | [], n, fr, n', fr', h => by
    simp only [countRun, Option.some.injEq, Prod.mk.injEq] at h
    obtain ⟨rfl, rfl⟩ := h
    refine ⟨by simp [drops, clones], ?_⟩
    by_cases h0 : n = 0 <;> simp [h0]
  | e :: rest, 0, fr, n', fr', h => by simp [countRun] at h
  | .clone :: rest, n + 1, fr, n', fr', h => by
    simp only [countRun] at h
    have ih := countRun_exact rest (n + 2) fr n' fr' h
    refine ⟨by simp only [drops, clones]; omega, ?_⟩
    rw [ih.2]
    simp
  | .drop :: rest, n + 1, fr, n', fr', h => by
    simp only [countRun] at h
    by_cases h0 : n = 0
    · subst h0
      simp only [if_true] at h
      cases rest with
      | nil =>
        simp only [countRun, Option.some.injEq, Prod.mk.injEq] at h
        obtain ⟨rfl, rfl⟩ := h
        simp [drops, clones]
      | cons e r => simp [countRun] at h
    · simp only [h0, if_false] at h
      have ih := countRun_exact rest n fr n' fr' h
      refine ⟨by simp only [drops, clones]; omega, ?_⟩
      rw [ih.2]
      have : 0 < n := Nat.pos_of_ne_zero h0
      simp [this]

end RotoV.Conc.Share
