/-
  Lemmas for `pratt_correct` (Props/C09): the precedence-climbing loop of
  `binop_expr` against the reference grammar. Core Lean only.
-/
import RotoV.Model.Pratt

namespace RotoV.Pratt

/-! ### levels -/

theorem level_le_three (o : BinOp) : level o ≤ 3 := by cases o <;> decide

theorem docRel_right_iff (a b : BinOp) : docRel a b = .Right ↔ level a < level b := by
  unfold docRel
  by_cases h1 : level a < level b
  · simp [h1]
  · by_cases h2 : level b < level a
    · simp [h1, h2]
    · simp only [h1, h2, if_false]
      split <;> simp

theorem docRel_not_iff (a b : BinOp) :
    docRel a b = .Not ↔ (level a = level b ∧ chainable a b = false) := by
  unfold docRel
  by_cases h1 : level a < level b
  · simp [h1]; omega
  · by_cases h2 : level b < level a
    · simp [h1, h2]; omega
    · have : level a = level b := by omega
      simp only [h1, h2, if_false]
      split <;> simp_all

theorem docRel_left_iff (a b : BinOp) :
    docRel a b = .Left ↔ (level b < level a ∨ (level a = level b ∧ chainable a b = true)) := by
  unfold docRel
  by_cases h1 : level a < level b
  · simp [h1]; omega
  · by_cases h2 : level b < level a
    · simp [h1, h2]
    · have : level a = level b := by omega
      simp only [h1, h2, if_false]
      split <;> simp_all

/-! ### splitLevel / refTree -/

theorem splitLevel_none (k : Nat) (s : Tail) (h : ∀ ox ∈ s, level ox.1 ≠ k) :
    splitLevel k s = (s, []) := by
  induction s with
  | nil => rfl
  | cons ox s ih =>
    obtain ⟨o, x⟩ := ox
    have h1 : level o ≠ k := h (o, x) (by simp)
    have h2 := ih (fun y hy => h y (by simp [hy]))
    simp [splitLevel, h2, h1]

theorem splitLevel_snoc (k : Nat) (done run : Tail) (o : BinOp) (x : Operand)
    (ho : level o = k) (hr : ∀ ox ∈ run, level ox.1 ≠ k) :
    splitLevel k (done ++ (o, x) :: run) =
      ((splitLevel k done).1, (splitLevel k done).2 ++ [(o, x, run)]) := by
  induction done with
  | nil => simp [splitLevel, splitLevel_none k run hr, ho]
  | cons dy done ih =>
    obtain ⟨d, y⟩ := dy
    simp only [List.cons_append, splitLevel, ih]
    split <;> simp

/-- a level without operators is skipped -/
theorem refTree_skip (n : Nat) (x : Operand) (s : Tail) (h : ∀ ox ∈ s, level ox.1 ≠ 3 - n) :
    refTree (n + 1) x s = refTree n x s := by
  simp [refTree, splitLevel_none _ s h]

/-- the snoc step at the level of `o` -/
theorem refTree_snoc_at (n : Nat) (x0 x : Operand) (done run : Tail) (o : BinOp)
    (ho : level o = 3 - n) (hr : ∀ ox ∈ run, level ox.1 ≠ 3 - n) :
    refTree (n + 1) x0 (done ++ (o, x) :: run) =
      .bin o (refTree (n + 1) x0 done) (refTree n x run) := by
  simp [refTree, splitLevel_snoc _ done run o x ho hr, List.foldl_append]

/-- **snoc lemma**: appending a chunk `o x run` whose head is not tighter than
    anything before it and whose run is tighter than its head makes `o` the root. -/
theorem refTree_snoc (x0 x : Operand) (done run : Tail) (o : BinOp)
    (hd : ∀ dy ∈ done, level o ≤ level dy.1) (hr : ∀ ry ∈ run, level o < level ry.1) :
    refTree 4 x0 (done ++ (o, x) :: run) = .bin o (refTree 4 x0 done) (refTree 4 x run) := by
  have hall : ∀ ox ∈ done ++ (o, x) :: run, level o ≤ level ox.1 := by
    intro ox hox
    simp only [List.mem_append, List.mem_cons] at hox
    rcases hox with h | h | h
    · exact hd _ h
    · subst h; exact Nat.le_refl _
    · exact Nat.le_of_lt (hr _ h)
  have h3 := level_le_three o
  -- case analysis on the level of `o`
  have hcases : level o = 0 ∨ level o = 1 ∨ level o = 2 ∨ level o = 3 := by omega
  rcases hcases with h | h | h | h
  · -- level 0: split at n = 3
    have hrun : ∀ ry ∈ run, level ry.1 ≠ 3 - 3 := fun ry hry => by have := hr ry hry; omega
    rw [refTree_snoc_at 3 x0 x done run o (by omega) hrun]
    rw [← refTree_skip 3 x run hrun]
  · have e1 : ∀ (y : Operand) (s : Tail), (∀ ox ∈ s, level o ≤ level ox.1) →
        refTree 4 y s = refTree 3 y s := fun y s hs =>
      refTree_skip 3 y s (fun ox hox => by have := hs ox hox; omega)
    have hrun : ∀ ry ∈ run, level ry.1 ≠ 3 - 2 := fun ry hry => by have := hr ry hry; omega
    rw [e1 _ _ hall, e1 x0 done hd, e1 x run (fun ry hry => Nat.le_of_lt (hr ry hry))]
    rw [refTree_snoc_at 2 x0 x done run o (by omega) hrun, ← refTree_skip 2 x run hrun]
  · have e1 : ∀ (y : Operand) (s : Tail), (∀ ox ∈ s, level o ≤ level ox.1) →
        refTree 4 y s = refTree 2 y s := fun y s hs => by
      rw [refTree_skip 3 y s (fun ox hox => by have := hs ox hox; omega),
          refTree_skip 2 y s (fun ox hox => by have := hs ox hox; omega)]
    have hrun : ∀ ry ∈ run, level ry.1 ≠ 3 - 1 := fun ry hry => by have := hr ry hry; omega
    rw [e1 _ _ hall, e1 x0 done hd, e1 x run (fun ry hry => Nat.le_of_lt (hr ry hry))]
    rw [refTree_snoc_at 1 x0 x done run o (by omega) hrun, ← refTree_skip 1 x run hrun]
  · have e1 : ∀ (y : Operand) (s : Tail), (∀ ox ∈ s, level o ≤ level ox.1) →
        refTree 4 y s = refTree 1 y s := fun y s hs => by
      rw [refTree_skip 3 y s (fun ox hox => by have := hs ox hox; omega),
          refTree_skip 2 y s (fun ox hox => by have := hs ox hox; omega),
          refTree_skip 1 y s (fun ox hox => by have := hs ox hox; omega)]
    have hrun : ∀ ry ∈ run, level ry.1 ≠ 3 - 0 := fun ry hry => by have := hr ry hry; omega
    rw [e1 _ _ hall, e1 x0 done hd, e1 x run (fun ry hry => Nat.le_of_lt (hr ry hry))]
    rw [refTree_snoc_at 0 x0 x done run o (by omega) hrun, ← refTree_skip 0 x run hrun]

theorem refTree_nil (x : Operand) : refTree 4 x [] = x.tree := by
  simp [refTree, splitLevel]

/-! ### clashFree -/

theorem nextLE_append (l : Nat) (a b : Tail) :
    nextLE l (a ++ b) = match nextLE l a with | some z => some z | none => nextLE l b := by
  induction a with
  | nil => simp [nextLE]
  | cons ox a ih =>
    obtain ⟨o, x⟩ := ox
    simp only [List.cons_append, nextLE]
    split
    · rfl
    · exact ih

theorem nextLE_none_of_tight (l : Nat) (a : Tail) (h : ∀ ox ∈ a, l < level ox.1) :
    nextLE l a = none := by
  induction a with
  | nil => rfl
  | cons ox a ih =>
    obtain ⟨o, x⟩ := ox
    have h1 : ¬ level o ≤ l := by have := h (o, x) (by simp); simp only at this; omega
    simp [nextLE, h1, ih (fun y hy => h y (by simp [hy]))]

/-- removing a suffix cannot create a clash -/
theorem clashAt_prefix (o : BinOp) (a b : Tail) (h : clashAt o (a ++ b) = false) :
    clashAt o a = false := by
  unfold clashAt at *
  rw [nextLE_append] at h
  cases hn : nextLE (level o) a with
  | none => rfl
  | some z => rw [hn] at h; exact h

theorem clashFree_prefix (a b : Tail) (h : clashFree (a ++ b) = true) : clashFree a = true := by
  induction a with
  | nil => rfl
  | cons ox a ih =>
    obtain ⟨o, x⟩ := ox
    simp only [List.cons_append, clashFree, Bool.and_eq_true, Bool.not_eq_true'] at h ⊢
    exact ⟨clashAt_prefix o a b h.1, ih h.2⟩

theorem clashFree_suffix (a b : Tail) (h : clashFree (a ++ b) = true) : clashFree b = true := by
  induction a with
  | nil => exact h
  | cons ox a ih =>
    obtain ⟨o, x⟩ := ox
    simp only [List.cons_append, clashFree, Bool.and_eq_true] at h
    exact ih h.2

/-- what may follow a chunk: nothing, or one operator `o2` that is not tighter
    than the chunk's head `o` and chainable with it when of the same level -/
def Follows (o : BinOp) (z : Tail) : Prop :=
  z = [] ∨ ∃ o2 x2, z = [(o2, x2)] ∧ level o2 ≤ level o ∧ (level o2 = level o → chainable o o2 = true)

theorem clashFree_run_follow (o : BinOp) (run z : Tail) (hrun : clashFree run = true)
    (ht : ∀ ry ∈ run, level o < level ry.1) (hz : Follows o z) : clashFree (run ++ z) = true := by
  induction run with
  | nil =>
    rcases hz with rfl | ⟨o2, x2, rfl, _, _⟩
    · rfl
    · simp [clashFree, clashAt, nextLE]
  | cons ry run ih =>
    obtain ⟨r, y⟩ := ry
    simp only [List.cons_append, clashFree, Bool.and_eq_true, Bool.not_eq_true'] at hrun ⊢
    refine ⟨?_, ih hrun.2 (fun q hq => ht q (by simp [hq]))⟩
    have hr : level o < level r := ht (r, y) (by simp)
    unfold clashAt at *
    rw [nextLE_append]
    cases hn : nextLE (level r) run with
    | some w => rw [hn] at hrun; exact hrun.1
    | none =>
      rcases hz with rfl | ⟨o2, x2, rfl, h2, _⟩
      · simp [nextLE]
      · have : level o2 ≤ level r := by omega
        have hne : (level o2 == level r) = false := by
          simp only [beq_eq_false_iff_ne, ne_eq]; omega
        simp [nextLE, this, hne]

/-- the invariant of the loop is kept when one chunk is consumed -/
theorem clashFree_chunk (done run z : Tail) (o : BinOp) (x : Operand)
    (h1 : clashFree (done ++ [(o, x)]) = true) (h2 : clashFree run = true)
    (h3 : ∀ dy ∈ done, level o ≤ level dy.1) (h4 : ∀ ry ∈ run, level o < level ry.1)
    (h5 : Follows o z) : clashFree (done ++ (o, x) :: (run ++ z)) = true := by
  induction done with
  | nil =>
    simp only [List.nil_append, clashFree, Bool.and_eq_true, Bool.not_eq_true']
    refine ⟨?_, clashFree_run_follow o run z h2 h4 h5⟩
    unfold clashAt
    rw [nextLE_append, nextLE_none_of_tight _ run h4]
    rcases h5 with rfl | ⟨o2, x2, rfl, h6, h7⟩
    · simp [nextLE]
    · simp only [nextLE, h6, if_true]
      by_cases he : level o2 = level o
      · simp [he, h7 he]
      · have : (level o2 == level o) = false := by simp [he]
        simp [this]
  | cons dy done ih =>
    obtain ⟨d, y⟩ := dy
    simp only [List.cons_append, clashFree, Bool.and_eq_true, Bool.not_eq_true'] at h1 ⊢
    refine ⟨?_, ih h1.2 (fun q hq => h3 q (by simp [hq]))⟩
    have hd : level o ≤ level d := h3 (d, y) (by simp)
    have key : ∀ w : Tail, nextLE (level d) (done ++ (o, x) :: w) = nextLE (level d) (done ++ [(o, x)]) := by
      intro w
      rw [nextLE_append, nextLE_append]
      simp [nextLE, hd]
    unfold clashAt at *
    rw [key]; exact h1.1

/-! ### takeWhile / dropWhile (kept local: independent of library names) -/

section lists
variable {α : Type} (f : α → Bool)

theorem tw_append_dw (l : List α) : l.takeWhile f ++ l.dropWhile f = l := by
  induction l with
  | nil => rfl
  | cons a l ih => simp only [List.takeWhile, List.dropWhile]; split <;> simp [ih]

theorem mem_tw (l : List α) (a : α) (h : a ∈ l.takeWhile f) : f a = true := by
  induction l with
  | nil => simp at h
  | cons b l ih =>
    simp only [List.takeWhile] at h
    split at h
    · simp only [List.mem_cons] at h
      rcases h with rfl | h
      · assumption
      · exact ih h
    · simp at h

theorem dw_head (l : List α) (a : α) (t : List α) (h : l.dropWhile f = a :: t) : f a = false := by
  induction l with
  | nil => simp at h
  | cons b l ih =>
    simp only [List.dropWhile] at h
    split at h
    · exact ih h
    · simp only [List.cons.injEq] at h; obtain ⟨rfl, _⟩ := h; simp_all

theorem tw_append_pos (l1 l2 : List α) (h : ∀ a ∈ l1, f a = true) :
    (l1 ++ l2).takeWhile f = l1 ++ l2.takeWhile f := by
  induction l1 with
  | nil => rfl
  | cons a l ih =>
    have ha := h a (by simp)
    simp [List.takeWhile, ha, ih (fun b hb => h b (by simp [hb]))]

theorem dw_append_pos (l1 l2 : List α) (h : ∀ a ∈ l1, f a = true) :
    (l1 ++ l2).dropWhile f = l2.dropWhile f := by
  induction l1 with
  | nil => rfl
  | cons a l ih =>
    have ha := h a (by simp)
    simp [List.dropWhile, ha, ih (fun b hb => h b (by simp [hb]))]

end lists

/-! ### the loop -/

/-- the documented relation as the parameter of the model -/
def R : BinOp → BinOp → Res Assoc := fun a b => .ok (docRel a b)

/-- may the loop under lower bound `p` consume `o`? -/
def tight (p : Option BinOp) (o : BinOp) : Bool :=
  match p with
  | none => true
  | some q => decide (level q < level o)

abbrev tf (p : Option BinOp) : BinOp × Operand → Bool := fun ox => tight p ox.1
def takeTight (p : Option BinOp) (rest : Tail) : Tail := rest.takeWhile (tf p)
def dropTight (p : Option BinOp) (rest : Tail) : Tail := rest.dropWhile (tf p)

theorem tight_trans (p : Option BinOp) (o r : BinOp) (h1 : tight p o = true)
    (h2 : tight (some o) r = true) : tight p r = true := by
  cases p with
  | none => rfl
  | some q => simp only [tight, decide_eq_true_eq] at *; omega

/-- what `binop_expr(p)` / its loop must return on `x0 done rest` when `done`
    has been folded into the left operand already -/
def SpecL (p : Option BinOp) (x0 : Operand) (done rest : Tail) (r : PRes) : Prop :=
  if clashFree (done ++ takeTight p rest) = true then
    match dropTight p rest, p with
    | [], _ => r = .ok (refTree 4 x0 (done ++ takeTight p rest)) []
    | (o, _) :: _, some q =>
      if docRel q o = .Not then r = .chained o q
      else r = .ok (refTree 4 x0 (done ++ takeTight p rest)) (renderTail (dropTight p rest))
    | _ :: _, none => False
  else ∃ o q, r = .chained o q

/-- the next token is not a postfix form (so `access`'s loop stops there) -/
def NoPost : List Tok → Prop
  | .post _ :: _ => False
  | _ => True

theorem accessLoop_post (ps : List Post) (e : Tree) (s : List Tok) (hs : NoPost s) :
    accessLoop e (ps.map Tok.post ++ s) = (ps.foldl (fun t p => .post p t) e, s) := by
  induction ps generalizing e with
  | nil =>
    cases s with
    | nil => simp [accessLoop]
    | cons t s' => cases t <;> simp_all [accessLoop, NoPost]
  | cons p ps ih => simp only [List.map, List.cons_append, accessLoop, List.foldl]; exact ih _

theorem access_render (n : Nat) (ps : List Post) (s : List Tok) (hs : NoPost s) :
    access (.atom n :: (ps.map Tok.post ++ s)) = .ok (accessTree n ps) s := by
  simp only [access, accessLoop_post ps _ s hs, accessTree, accessTreeOn]

theorem accessTreeOn_isPost (e : Tree) (p : Post) (ps : List Post) :
    (accessTreeOn e (p :: ps)).isPost = true := by
  induction ps generalizing e p with
  | nil => simp [accessTreeOn, Tree.isPost]
  | cons q ps ih => simpa [accessTreeOn] using ih (.post p e) q

theorem negation_render (x : Operand) (s : List Tok) (hs : NoPost s) :
    negation (x.toks ++ s) = .ok x.tree s := by
  obtain ⟨pre, n, ps⟩ := x
  simp only [Operand.toks, Operand.tree]
  induction pre with
  | nil =>
    simp only [List.map, List.nil_append, List.cons_append, List.foldr]
    rw [negation.eq_def]
    exact access_render n ps s hs
  | cons u pre ih =>
    simp only [List.append_assoc, List.cons_append, List.nil_append] at ih ⊢
    cases u <;> simp only [List.map, UnOp.tok, List.cons_append, negation, List.foldr, UnOp.apply] <;>
      rw [ih]

theorem toks_length_pos (x : Operand) : 1 ≤ x.toks.length := by
  simp [Operand.toks]; omega

theorem renderTail_noPost (a : Tail) : NoPost (renderTail a) := by
  cases a with
  | nil => simp [renderTail, NoPost]
  | cons ox a => obtain ⟨o, x⟩ := ox; simp [renderTail, NoPost]

theorem renderTail_append (a b : Tail) : renderTail (a ++ b) = renderTail a ++ renderTail b := by
  induction a with
  | nil => rfl
  | cons ox a ih => obtain ⟨o, x⟩ := ox; simp [renderTail, ih]

/-- one iteration that consumes `o`: `self.next()`, the recursive call, fold -/
def goStep (f : Nat) (p : Option BinOp) (o : BinOp) (lhs : Tree) (ts : List Tok) : PRes :=
  match binopExpr R f (some o) ts with
  | .ok rhs rest => binopLoop R f p (.bin o lhs rhs) rest
  | e => e

theorem loop_nil (f : Nat) (p : Option BinOp) (lhs : Tree) :
    binopLoop R (f + 1) p lhs [] = .ok lhs [] := by
  simp [binopLoop, peekBinop]

theorem loop_tight (f : Nat) (p : Option BinOp) (o : BinOp) (lhs : Tree) (ts : List Tok)
    (h : tight p o = true) : binopLoop R (f + 1) p lhs (.op o :: ts) = goStep f p o lhs ts := by
  cases p with
  | none =>
    simp only [binopLoop, peekBinop, goStep, List.tail_cons]
    cases binopExpr R f (some o) ts <;> rfl
  | some q =>
    have : docRel q o = .Right := (docRel_right_iff q o).2 (by simpa [tight] using h)
    simp only [binopLoop, peekBinop, goStep, R, this, List.tail_cons]
    cases binopExpr (fun a b => Res.ok (docRel a b)) f (some o) ts <;> rfl

theorem loop_left (f : Nat) (q o : BinOp) (lhs : Tree) (ts : List Tok) (h : docRel q o = .Left) :
    binopLoop R (f + 1) (some q) lhs (.op o :: ts) = .ok lhs (.op o :: ts) := by
  simp [binopLoop, peekBinop, R, h]

theorem loop_not (f : Nat) (q o : BinOp) (lhs : Tree) (ts : List Tok) (h : docRel q o = .Not) :
    binopLoop R (f + 1) (some q) lhs (.op o :: ts) = .chained o q := by
  simp [binopLoop, peekBinop, R, h]

theorem expr_succ (f : Nat) (p : Option BinOp) (x : Operand) (s : List Tok) (hs : NoPost s) :
    binopExpr R (f + 1) p (x.toks ++ s) = binopLoop R f p x.tree s := by
  simp [binopExpr, negation_render x s hs]

/-- the loop invariant: `done` is what has been folded into the left operand -/
structure Inv (p : Option BinOp) (done rest : Tail) : Prop where
  tightDone : ∀ dy ∈ done, tight p dy.1 = true
  free : clashFree (done ++ rest.take 1) = true
  bound : ∀ oz ∈ rest.head?, ∀ dy ∈ done, level oz.1 ≤ level dy.1

theorem takeTight_chunk (p : Option BinOp) (o : BinOp) (x : Operand) (rest' : Tail)
    (h : tight p o = true) :
    takeTight p ((o, x) :: rest') =
        (o, x) :: (takeTight (some o) rest' ++ takeTight p (dropTight (some o) rest')) ∧
    dropTight p ((o, x) :: rest') = dropTight p (dropTight (some o) rest') := by
  have hsplit : takeTight (some o) rest' ++ dropTight (some o) rest' = rest' := tw_append_dw _ _
  have hrun : ∀ a ∈ takeTight (some o) rest', tf p a = true :=
    fun a ha => tight_trans p o a.1 h (mem_tw (tf (some o)) rest' a ha)
  have hx : tf p (o, x) = true := h
  constructor
  · have : takeTight p rest' =
        takeTight (some o) rest' ++ takeTight p (dropTight (some o) rest') := by
      have e := tw_append_pos (tf p) _ (dropTight (some o) rest') hrun
      rw [hsplit] at e; exact e
    simp only [takeTight, List.takeWhile, hx] at this ⊢
    rw [this]
  · have : dropTight p rest' = dropTight p (dropTight (some o) rest') := by
      have e := dw_append_pos (tf p) _ (dropTight (some o) rest') hrun
      rw [hsplit] at e; exact e
    simp only [dropTight, List.dropWhile, hx] at this ⊢
    rw [this]

theorem SpecL_chunk (p : Option BinOp) (x0 x : Operand) (done rest' : Tail) (o : BinOp) (r : PRes)
    (h : tight p o = true)
    (hs : SpecL p x0 (done ++ (o, x) :: takeTight (some o) rest') (dropTight (some o) rest') r) :
    SpecL p x0 done ((o, x) :: rest') r := by
  obtain ⟨e1, e2⟩ := takeTight_chunk p o x rest' h
  unfold SpecL at hs ⊢
  rw [e1, e2]
  simpa [List.append_assoc] using hs

theorem clashFree_take1_nil (rest : Tail) : clashFree ([] ++ rest.take 1) = true := by
  cases rest with
  | nil => rfl
  | cons ox r => obtain ⟨o, x⟩ := ox; simp [clashFree, clashAt, nextLE]

theorem render_eq (x : Operand) (rest : Tail) : render x rest = x.toks ++ renderTail rest := rfl

theorem pratt_main : ∀ fuel : Nat,
    (∀ p x0 rest, 2 * (render x0 rest).length ≤ fuel →
      SpecL p x0 [] rest (binopExpr R fuel p (render x0 rest))) ∧
    (∀ p x0 done rest, Inv p done rest → 2 * (renderTail rest).length + 1 ≤ fuel →
      SpecL p x0 done rest (binopLoop R fuel p (refTree 4 x0 done) (renderTail rest))) := by
  intro fuel
  induction fuel with
  | zero =>
    constructor
    · intro p x0 rest h
      have := toks_length_pos x0
      simp only [render_eq, List.length_append] at h; omega
    · intro p x0 done rest _ h; omega
  | succ f ih =>
    obtain ⟨ihP, ihQ⟩ := ih
    constructor
    · intro p x0 rest h
      rw [render_eq, expr_succ _ _ _ _ (renderTail_noPost rest)]
      have hl : 2 * (renderTail rest).length + 1 ≤ f := by
        have := toks_length_pos x0
        simp only [render_eq, List.length_append] at h; omega
      have := ihQ p x0 [] rest ⟨by simp, clashFree_take1_nil rest, by simp⟩ hl
      rwa [refTree_nil] at this
    · intro p x0 done rest inv h
      cases rest with
      | nil =>
        simp only [renderTail, loop_nil]
        have hf : clashFree done = true := by simpa using inv.free
        simp [SpecL, takeTight, dropTight, hf]
      | cons ox rest' =>
        obtain ⟨o, x⟩ := ox
        have hbound : ∀ dy ∈ done, level o ≤ level dy.1 := inv.bound (o, x) (by simp)
        have hfree1 : clashFree (done ++ [(o, x)]) = true := by simpa using inv.free
        have hfreeDone : clashFree done = true := clashFree_prefix _ _ hfree1
        have hfuel : 2 * (renderTail rest').length + 4 ≤ f := by
          have := toks_length_pos x
          simp only [renderTail, List.length_cons, List.length_append] at h; omega
        simp only [renderTail]
        by_cases ht : tight p o = true
        · -- the operator is consumed: recursive call, then the loop goes on
          rw [loop_tight _ _ _ _ _ ht]
          have hlen : 2 * (render x rest').length ≤ f := by
            simp only [renderTail, List.length_cons, List.length_append, render_eq] at h ⊢; omega
          have hsub := ihP (some o) x rest' hlen
          rw [render_eq] at hsub
          apply SpecL_chunk p x0 x done rest' o _ ht
          have hsplit : takeTight (some o) rest' ++ dropTight (some o) rest' = rest' :=
            tw_append_dw _ _
          have hrunT : ∀ ry ∈ takeTight (some o) rest', level o < level ry.1 := by
            intro ry hry
            have := mem_tw (tf (some o)) rest' ry hry
            simpa [tf, tight] using this
          have hlenAfter : (renderTail (dropTight (some o) rest')).length ≤ (renderTail rest').length := by
            have := congrArg (fun l => (renderTail l).length) hsplit
            simp only [renderTail_append, List.length_append] at this; omega
          have hsnoc := refTree_snoc x0 x done (takeTight (some o) rest') o hbound hrunT
          have hdone' : ∀ dy ∈ done ++ (o, x) :: takeTight (some o) rest', tight p dy.1 = true := by
            intro dy hdy
            simp only [List.mem_append, List.mem_cons] at hdy
            rcases hdy with h1 | h1 | h1
            · exact inv.tightDone _ h1
            · subst h1; exact ht
            · exact tight_trans p o dy.1 ht (mem_tw (tf (some o)) rest' dy h1)
          unfold SpecL at hsub
          simp only [List.nil_append] at hsub
          by_cases hfree : clashFree (takeTight (some o) rest') = true
          · rw [if_pos hfree] at hsub
            cases hafter : dropTight (some o) rest' with
            | nil =>
              rw [hafter] at hsub
              simp only at hsub
              have hq := ihQ p x0 (done ++ (o, x) :: takeTight (some o) rest') []
                ⟨hdone', by
                  have := clashFree_chunk done (takeTight (some o) rest') [] o x hfree1 hfree hbound hrunT (Or.inl rfl)
                  simpa using this, by simp⟩ (by simp only [renderTail, List.length_nil]; omega)
              rw [hsnoc] at hq
              simpa [goStep, render_eq, hsub, renderTail] using hq
            | cons oz after' =>
              obtain ⟨o2, x2⟩ := oz
              rw [hafter] at hsub
              simp only at hsub
              have hnt : tight (some o) o2 = false := dw_head (tf (some o)) rest' (o2, x2) after' hafter
              have hle : level o2 ≤ level o := by simpa [tight] using hnt
              by_cases hnot : docRel o o2 = .Not
              · -- `o2` cannot be chained with `o`: the recursive call fails, and so does the reference
                rw [if_pos hnot] at hsub
                have ⟨hlv, hch⟩ := (docRel_not_iff o o2).1 hnot
                have hto2 : tight p o2 = true := by
                  cases p with
                  | none => rfl
                  | some q => simp only [tight, decide_eq_true_eq] at ht ⊢; omega
                have hnf : clashFree ((done ++ (o, x) :: takeTight (some o) rest') ++
                    takeTight p ((o2, x2) :: after')) = false := by
                  cases hc : clashFree ((done ++ (o, x) :: takeTight (some o) rest') ++
                    takeTight p ((o2, x2) :: after')) with
                  | false => rfl
                  | true =>
                    exfalso
                    have hx2 : tf p (o2, x2) = true := hto2
                    have e : takeTight p ((o2, x2) :: after') = (o2, x2) :: takeTight p after' := by
                      simp [takeTight, List.takeWhile, hx2]
                    rw [e] at hc
                    simp only [List.append_assoc, List.cons_append] at hc
                    have h1 := clashFree_suffix _ _ hc
                    simp only [clashFree, Bool.and_eq_true, Bool.not_eq_true'] at h1
                    have h2 := h1.1
                    unfold clashAt at h2
                    rw [nextLE_append, nextLE_none_of_tight _ _ hrunT] at h2
                    simp [nextLE, hle, hlv, hch] at h2
                unfold SpecL
                rw [hnf]
                simp only [goStep, render_eq, hsub]
                exact ⟨o2, o, rfl⟩
              · rw [if_neg hnot] at hsub
                have hleft : docRel o o2 = .Left := by
                  cases hd : docRel o o2 with
                  | Left => rfl
                  | Not => exact absurd hd hnot
                  | Right => have := (docRel_right_iff o o2).1 hd; omega
                have hfol : Follows o [(o2, x2)] := by
                  refine Or.inr ⟨o2, x2, rfl, hle, fun he => ?_⟩
                  rcases (docRel_left_iff o o2).1 hleft with h1 | h1
                  · omega
                  · exact h1.2
                have hq := ihQ p x0 (done ++ (o, x) :: takeTight (some o) rest') ((o2, x2) :: after')
                  ⟨hdone', by
                    have := clashFree_chunk done (takeTight (some o) rest') [(o2, x2)] o x hfree1 hfree hbound hrunT hfol
                    simpa using this, by
                    intro oz hoz dy hdy
                    simp only [List.head?_cons, Option.mem_def, Option.some.injEq] at hoz
                    subst hoz
                    simp only [List.mem_append, List.mem_cons] at hdy
                    rcases hdy with h1 | h1 | h1
                    · show level o2 ≤ level dy.1
                      have := hbound _ h1; omega
                    · subst h1; exact hle
                    · show level o2 ≤ level dy.1
                      have := hrunT _ h1; omega⟩
                  (by rw [hafter] at hlenAfter; omega)
                rw [hsnoc] at hq
                simpa [goStep, render_eq, hsub] using hq
          · -- a clash inside the right operand
            rw [if_neg hfree] at hsub
            obtain ⟨oe, qe, he⟩ := hsub
            have hnf : clashFree ((done ++ (o, x) :: takeTight (some o) rest') ++
                takeTight p (dropTight (some o) rest')) = false := by
              cases hc : clashFree ((done ++ (o, x) :: takeTight (some o) rest') ++
                takeTight p (dropTight (some o) rest')) with
              | false => rfl
              | true =>
                exfalso
                simp only [List.append_assoc, List.cons_append] at hc
                have h1 := clashFree_suffix _ _ hc
                simp only [clashFree, Bool.and_eq_true] at h1
                exact hfree (clashFree_prefix _ _ h1.2)
            unfold SpecL
            rw [hnf]
            simp only [goStep, render_eq, he]
            exact ⟨oe, qe, rfl⟩
        · -- the operator belongs to a caller (Left) or is incompatible (Not)
          cases p with
          | none => simp [tight] at ht
          | some q =>
            have hnt : ¬ level q < level o := by simpa [tight] using ht
            have hx : tf (some q) (o, x) = false := by simpa [tf] using ht
            have hnr : docRel q o ≠ .Right := fun hr => hnt ((docRel_right_iff q o).1 hr)
            cases hd : docRel q o with
            | Right => exact absurd hd hnr
            | Left =>
              rw [loop_left _ _ _ _ _ hd]
              simp [SpecL, takeTight, dropTight, List.takeWhile, List.dropWhile, hx, hfreeDone, hd, renderTail]
            | Not =>
              rw [loop_not _ _ _ _ _ hd]
              simp [SpecL, takeTight, dropTight, List.takeWhile, List.dropWhile, hx, hfreeDone, hd]

theorem takeTight_none (rest : Tail) : takeTight none rest = rest := by
  induction rest with
  | nil => rfl
  | cons ox r ih => simp only [takeTight, List.takeWhile, tf, tight] at ih ⊢; rw [ih]

theorem dropTight_none (rest : Tail) : dropTight none rest = [] := by
  induction rest with
  | nil => rfl
  | cons ox r ih => simp only [dropTight, List.dropWhile, tf, tight] at ih ⊢; exact ih

/-- the whole-expression statement for the documented relation -/
theorem parseExpr_R (x0 : Operand) (rest : Tail) :
    (∀ t, reference x0 rest = some t → parseExpr R (render x0 rest) = .ok t []) ∧
    (reference x0 rest = none → ∃ o q, parseExpr R (render x0 rest) = .chained o q) := by
  have h := (pratt_main (2 * (render x0 rest).length + 2)).1 none x0 rest (by omega)
  unfold SpecL at h
  simp only [takeTight_none, dropTight_none, List.nil_append] at h
  unfold reference
  by_cases hf : clashFree rest = true
  · rw [if_pos hf] at h
    simp only [hf, if_true, Option.some.injEq, reduceCtorEq, false_implies, and_true]
    intro t ht
    subst ht
    simp only [parseExpr, h]
  · rw [if_neg hf] at h
    obtain ⟨o, q, he⟩ := h
    simp only [hf]
    refine ⟨fun t ht => by simp at ht, fun _ => ⟨o, q, ?_⟩⟩
    simp only [parseExpr, he]

/-- one binary operator: the reference is the obvious tree -/
theorem reference_single (x0 : Operand) (o : BinOp) (y : Operand) :
    reference x0 [(o, y)] = some (.bin o x0.tree y.tree) := by
  cases o <;> simp [reference, clashFree, clashAt, nextLE, refTree, splitLevel, level]

end RotoV.Pratt
