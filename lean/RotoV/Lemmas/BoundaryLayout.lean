/-
  C05 — Roto's enum layout (`LayoutBuilder` + pairwise `Layout::union`, as
  generated from the source) equals the Rust reference's `#[repr(u8)]` layout
  in closed form, for every list of variants and every list of well-formed
  field layouts.
-/
import RotoV.Lemmas.BoundaryArith

namespace RotoV.Boundary
open RotoV RotoV.Gen.BoundaryTables

/-! ## The Roto algorithm on field layouts -/

/-- `builder.add(&layout)` for every field -/
def addLayouts (b : LayoutBuilder) : List Layout → LayoutBuilder
  | [] => b
  | l :: ls => addLayouts (LayoutBuilder.add b l).1 ls

/-- the builder after `builder.add(&Layout::of::<u8>())` -/
def tagBuilder : LayoutBuilder := (LayoutBuilder.add LayoutBuilder.new enumTagLayout).1

/-- `variant_layout` of `Pool::layout_of`'s enum arm -/
def variantLayout (fs : List Layout) : Layout := LayoutBuilder.finish (addLayouts tagBuilder fs)

/-- `layout = Some(layout.map_or(variant_layout, |l| l.union(&variant_layout)))` over the variants -/
def unionFold : Option Layout → List Layout → Option Layout
  | acc, [] => acc
  | acc, vl :: rest => unionFold (some (match acc with | none => vl | some l => Layout.union l vl)) rest

/-- Roto's layout of an enum whose variants have these (inhabited) field layouts -/
def rotoEnumLayout (vs : List (List Layout)) : Option Layout := unionFold none (vs.map variantLayout)

theorem tagBuilder_eq : tagBuilder = ⟨1, 1⟩ := by decide

/-! ## builder invariant -/

theorem add_fst (b : LayoutBuilder) (l : Layout) (hl : 0 < l.align) :
    (LayoutBuilder.add b l).1 = ⟨roundUp b.size l.align + l.size, max b.align l.align⟩ := by
  simp [LayoutBuilder.add, nextMultipleOf_eq_roundUp _ _ hl]

theorem add_snd (b : LayoutBuilder) (l : Layout) (hl : 0 < l.align) :
    (LayoutBuilder.add b l).2 = roundUp b.size l.align := by
  simp [LayoutBuilder.add, nextMultipleOf_eq_roundUp _ _ hl]

theorem one_le_maxAlign (ls : List Layout) : 1 ≤ maxAlign ls := by
  cases ls with
  | nil => simp [maxAlign]
  | cons l ls => simp only [maxAlign, List.foldr]; exact Nat.le_trans (by
      induction ls with
      | nil => simp
      | cons m ms ih => simp only [List.foldr]; exact Nat.le_trans ih (Nat.le_max_right _ _)) (Nat.le_max_right _ _)

theorem addLayouts_eq (b : LayoutBuilder) (hb : 1 ≤ b.align) (ls : List Layout)
    (hls : ∀ l ∈ ls, 0 < l.align) :
    addLayouts b ls = ⟨structEnd b.size ls, max b.align (maxAlign ls)⟩ := by
  induction ls generalizing b with
  | nil => simp [addLayouts, structEnd, maxAlign, Nat.max_eq_left hb]
  | cons l ls ih =>
    have hl := hls l (List.mem_cons_self ..)
    rw [addLayouts, add_fst b l hl, ih _ (Nat.le_trans hb (Nat.le_max_left _ _))
      (fun x hx => hls x (List.mem_cons_of_mem _ hx))]
    simp [structEnd, maxAlign, Nat.max_assoc]

theorem maxAlign_cons (l : Layout) (ls : List Layout) : maxAlign (l :: ls) = max l.align (maxAlign ls) := rfl
theorem maxSize_cons (l : Layout) (ls : List Layout) : maxSize (l :: ls) = max l.size (maxSize ls) := rfl

theorem maxAlign_pow2 (ls : List Layout) (h : ∀ l ∈ ls, isPow2 l.align) : isPow2 (maxAlign ls) := by
  induction ls with
  | nil => exact isPow2_one
  | cons l ls ih =>
    rw [maxAlign_cons]
    exact (h l (List.mem_cons_self ..)).max (ih fun x hx => h x (List.mem_cons_of_mem _ hx))

/-- A variant is laid out as the `repr(C)` struct `(u8, fields…)`. -/
theorem variantLayout_eq_reprC (fs : List Layout) (h : ∀ l ∈ fs, 0 < l.align) :
    variantLayout fs = reprC (⟨1, 1⟩ :: fs) := by
  have hpos : 0 < max 1 (maxAlign fs) := Nat.lt_of_lt_of_le Nat.one_pos (Nat.le_max_left _ _)
  rw [variantLayout, tagBuilder_eq, addLayouts_eq ⟨1, 1⟩ (Nat.le_refl _) fs h]
  simp only [LayoutBuilder.finish, Layout.new, nextMultipleOf_eq_roundUp _ _ hpos, reprC, structEnd,
    maxAlign_cons]
  have : roundUp 0 1 = 0 := by decide
  rw [this]

theorem reprC_wf (fs : List Layout) (h : ∀ l ∈ fs, isPow2 l.align) : (reprC fs).WF :=
  ⟨maxAlign_pow2 fs h, roundUp_dvd _ _⟩

/-! ## the union fold -/

theorem union_eq (a b : Layout) (ha : 0 < a.align) :
    Layout.union a b = ⟨roundUp (max a.size b.size) (max a.align b.align), max a.align b.align⟩ := by
  have : 0 < max a.align b.align := Nat.lt_of_lt_of_le ha (Nat.le_max_left _ _)
  simp [Layout.union, nextMultipleOf_eq_roundUp _ _ this]

theorem unionFold_some (acc : Layout) (hacc : acc.WF) (ls : List Layout) (hls : ∀ l ∈ ls, l.WF) :
    unionFold (some acc) ls
      = some ⟨roundUp (max acc.size (maxSize ls)) (max acc.align (maxAlign ls)), max acc.align (maxAlign ls)⟩ := by
  induction ls generalizing acc with
  | nil =>
    have h1 : max acc.align (maxAlign []) = acc.align := Nat.max_eq_left hacc.align_pos
    have h2 : max acc.size (maxSize []) = acc.size := Nat.max_eq_left (Nat.zero_le _)
    simp only [unionFold, h1, h2, roundUp_of_dvd hacc.align_pos hacc.dvd]
  | cons l ls ih =>
    have hl := hls l (List.mem_cons_self ..)
    have hrest : ∀ x ∈ ls, x.WF := fun x hx => hls x (List.mem_cons_of_mem _ hx)
    have hA1 : isPow2 (max acc.align l.align) := hacc.pow2.max hl.pow2
    have hR : isPow2 (maxAlign ls) := maxAlign_pow2 ls fun x hx => (hrest x hx).pow2
    have hwf' : (Layout.union acc l).WF := by
      rw [union_eq _ _ hacc.align_pos]; exact ⟨hA1, roundUp_dvd _ _⟩
    rw [unionFold, ih _ hwf' hrest, union_eq _ _ hacc.align_pos]
    simp only [maxAlign_cons, maxSize_cons]
    have hA2pos : 0 < max (max acc.align l.align) (maxAlign ls) := (hA1.max hR).pos
    rw [roundUp_max _ _ _ hA2pos, roundUp_roundUp_of_dvd _ hA1.pos hA2pos (hA1.dvd_max hR),
      ← roundUp_max _ _ _ hA2pos]
    simp [Nat.max_assoc]

/-- **T1 (layout level).**  For every non-empty list of variants and every list of well-formed
    field layouts, Roto's `layout_of` of the enum is the layout of the `#[repr(u8)]` Rust enum. -/
theorem rotoEnumLayout_eq_reprU8 (vs : List (List Layout)) (hne : vs ≠ [])
    (hwf : ∀ fs ∈ vs, ∀ l ∈ fs, l.WF) :
    rotoEnumLayout vs = some (reprU8 vs) := by
  have hmap : vs.map variantLayout = vs.map fun fs => reprC (⟨1, 1⟩ :: fs) :=
    List.map_congr_left fun fs hfs => variantLayout_eq_reprC fs fun l hl => (hwf fs hfs l hl).align_pos
  have hss : ∀ s ∈ vs.map (fun fs => reprC (⟨1, 1⟩ :: fs)), s.WF := by
    intro s hs
    obtain ⟨fs, hfs, rfl⟩ := List.mem_map.mp hs
    apply reprC_wf
    intro l hl
    rcases List.mem_cons.mp hl with rfl | hl
    · exact isPow2_one
    · exact (hwf fs hfs l hl).pow2
  rw [rotoEnumLayout, hmap, reprU8]
  cases hv : vs.map (fun fs => reprC (⟨1, 1⟩ :: fs)) with
  | nil => cases vs <;> simp_all
  | cons s ss =>
    rw [hv] at hss
    rw [unionFold, unionFold_some s (hss s (List.mem_cons_self ..)) ss
      fun x hx => hss x (List.mem_cons_of_mem _ hx)]
    rfl

/-- the empty enum is uninhabited on the Roto side (and has no `#[repr(u8)]` counterpart) -/
theorem rotoEnumLayout_nil : rotoEnumLayout [] = none := rfl

/-! ## from types to layouts -/

/-- pointwise relation of two lists (core has no `List.Forall₂`) -/
inductive Rel₂ {α β} (r : α → β → Prop) : List α → List β → Prop
  | nil : Rel₂ r [] []
  | cons {a b as bs} : r a b → Rel₂ r as bs → Rel₂ r (a :: as) (b :: bs)

theorem addFields_eq (h : HostLayouts) (b : LayoutBuilder) (ts : List MTy) (ls : List Layout)
    (hl : Rel₂ (fun t l => layoutOf h t = some l) ts ls) :
    addFields h b ts = some (addLayouts b ls) := by
  induction hl generalizing b with
  | nil => simp [addFields, addLayouts]
  | cons h1 _ ih => simp [addFields, addLayouts, h1, ih]

theorem enumVariants_eq (h : HostLayouts) (vs : List (List MTy)) (lvs : List (List Layout))
    (hl : Rel₂ (Rel₂ fun t l => layoutOf h t = some l) vs lvs) (acc : Option Layout) :
    enumVariants h vs acc = unionFold acc (lvs.map variantLayout) := by
  induction hl generalizing acc with
  | nil => simp [enumVariants, unionFold]
  | cons h1 _ ih =>
    rw [enumVariants, addFields_eq h _ _ _ h1]
    simp only [List.map_cons, unionFold]
    exact ih _

/-- the size of a `#[repr(u8)]` enum with at least one variant is positive -/
theorem reprU8_size_pos (vs : List (List Layout)) (hne : vs ≠ []) (hwf : ∀ fs ∈ vs, ∀ l ∈ fs, l.WF) :
    0 < (reprU8 vs).size := by
  cases vs with
  | nil => exact absurd rfl hne
  | cons fs rest =>
    have hA : isPow2 (maxAlign ((fs :: rest).map fun fs => reprC (⟨1, 1⟩ :: fs))) := by
      apply maxAlign_pow2
      intro s hs
      obtain ⟨gs, hgs, rfl⟩ := List.mem_map.mp hs
      apply maxAlign_pow2
      intro l hl
      rcases List.mem_cons.mp hl with rfl | hl
      · exact isPow2_one
      · exact (hwf gs hgs l hl).pow2
    have hfs : ∀ l ∈ fs, 0 < l.align := fun l hl => (hwf fs (List.mem_cons_self ..) l hl).align_pos
    have h1 : 1 ≤ structEnd 0 (⟨1, 1⟩ :: fs) := by
      have : ∀ (ls : List Layout) (o : Nat), (∀ l ∈ ls, 0 < l.align) → o ≤ structEnd o ls := by
        intro ls
        induction ls with
        | nil => intro o _; exact Nat.le_refl _
        | cons l ls ih =>
          intro o hls
          have hl := hls l (List.mem_cons_self ..)
          exact Nat.le_trans (Nat.le_trans (le_roundUp o l.align hl) (Nat.le_add_right _ _))
            (ih _ fun x hx => hls x (List.mem_cons_of_mem _ hx))
      have h0 : roundUp 0 1 = 0 := by decide
      simp only [structEnd, h0]
      exact this fs _ hfs
    have hApos : 0 < maxAlign (⟨1, 1⟩ :: fs) := Nat.lt_of_lt_of_le Nat.one_pos (one_le_maxAlign _)
    have h2 : 1 ≤ (reprC (⟨1, 1⟩ :: fs)).size := Nat.le_trans h1 (le_roundUp _ _ hApos)
    simp only [reprU8, List.map_cons, maxSize_cons]
    exact Nat.lt_of_lt_of_le (Nat.lt_of_lt_of_le Nat.one_pos (Nat.le_trans h2 (Nat.le_max_left _ _)))
      (le_roundUp _ _ hA.pos)

/-! ## boundary types -/

theorem Layout.wf_zero_one : (⟨0, 1⟩ : Layout).WF := ⟨isPow2_one, Nat.dvd_zero _⟩

theorem reprU8_wf (vs : List (List Layout)) (hwf : ∀ fs ∈ vs, ∀ l ∈ fs, l.WF) : (reprU8 vs).WF := by
  refine ⟨?_, roundUp_dvd _ _⟩
  apply maxAlign_pow2
  intro s hs
  obtain ⟨gs, hgs, rfl⟩ := List.mem_map.mp hs
  apply maxAlign_pow2
  intro l hl
  rcases List.mem_cons.mp hl with rfl | hl
  · exact isPow2_one
  · exact (hwf gs hgs l hl).pow2

theorem instVariants_mem_wf (tbl : List (VName × List Nat)) (ls : List Layout) (hls : ∀ l ∈ ls, l.WF) :
    ∀ fs ∈ instVariants ⟨0, 1⟩ tbl ls, ∀ l ∈ fs, l.WF := by
  intro fs hfs l hl
  obtain ⟨v, _, rfl⟩ := List.mem_map.mp hfs
  obtain ⟨i, _, rfl⟩ := List.mem_map.mp hl
  rw [List.getD_eq_getElem?_getD]
  cases hi : ls[i]? with
  | none => exact Layout.wf_zero_one
  | some x => exact hls x (List.mem_of_getElem? hi)

theorem rustPrimLayout_wf (h : HostLayouts) (hh : h.WF) (p : Primitive) : (rustPrimLayout h p).WF := by
  have w : ∀ k, (⟨2 ^ k, 2 ^ k⟩ : Layout).WF := fun k => ⟨⟨k, rfl⟩, Nat.dvd_refl _⟩
  cases p with
  | Int k s => cases s <;> first | exact w 0 | exact w 1 | exact w 2 | exact w 3
  | Float s => cases s <;> first | exact w 2 | exact w 3
  | String => exact hh.string
  | Char => exact hh.char
  | Bool => exact w 0
  | Asn => exact w 2
  | IpAddr => exact hh.ipaddr
  | Prefix => exact hh.prefix_

theorem rustLayout_wf (h : HostLayouts) (hh : h.WF) (t : BTy) (ht : t.WF) : (rustLayout h t).WF := by
  induction t with
  | prim p => exact rustPrimLayout_wf h hh p
  | unit => exact Layout.wf_zero_one
  | val l => exact ht
  | list t _ => exact hh.list
  | option t ih =>
    apply reprU8_wf; apply instVariants_mem_wf
    intro l hl; simp only [List.mem_singleton] at hl; subst hl; exact ih ht
  | result a b iha ihb =>
    apply reprU8_wf; apply instVariants_mem_wf
    intro l hl
    simp only [List.mem_cons, List.not_mem_nil, or_false] at hl
    rcases hl with rfl | rfl
    · exact iha ht.1
    · exact ihb ht.2
  | verdict a b iha ihb =>
    apply reprU8_wf; apply instVariants_mem_wf
    intro l hl
    simp only [List.mem_cons, List.not_mem_nil, or_false] at hl
    rcases hl with rfl | rfl
    · exact iha ht.1
    · exact ihb ht.2

theorem instVariants_rel (h : HostLayouts) (tbl : List (VName × List Nat)) (args : List BTy)
    (hin : ∀ v ∈ tbl, ∀ i ∈ v.2, i < args.length)
    (ih : ∀ a ∈ args, layoutOf h (toMTy a) = some (rustLayout h a)) :
    Rel₂ (Rel₂ fun t l => layoutOf h t = some l)
      (instVariants .never tbl (args.map toMTy)) (instVariants ⟨0, 1⟩ tbl (args.map (rustLayout h))) := by
  induction tbl with
  | nil => exact .nil
  | cons v tbl iht =>
    refine .cons ?_ (iht fun w hw => hin w (List.mem_cons_of_mem _ hw))
    have hv := hin v (List.mem_cons_self ..)
    show Rel₂ _ (v.2.map fun i => (args.map toMTy).getD i .never)
      (v.2.map fun i => (args.map (rustLayout h)).getD i ⟨0, 1⟩)
    generalize v.2 = fs at hv ⊢
    induction fs with
    | nil => exact .nil
    | cons i fs ihf =>
      refine .cons ?_ (ihf fun j hj => hv j (List.mem_cons_of_mem _ hj))
      have hi := hv i (List.mem_cons_self ..)
      simp only [List.getD_eq_getElem?_getD, List.getElem?_map, List.getElem?_eq_getElem hi, Option.map_some,
        Option.getD_some]
      exact ih _ (List.getElem_mem hi)

/-- Roto's layout of a built-in enum instantiated at boundary types = the `#[repr(u8)]` layout of
    its Rust mirror, as soon as both use the same variant table. -/
theorem enum_layout_agrees (h : HostLayouts) (hh : h.WF) (tbl : List (VName × List Nat)) (hne : tbl ≠ [])
    (args : List BTy) (hin : ∀ v ∈ tbl, ∀ i ∈ v.2, i < args.length)
    (hwf : ∀ a ∈ args, a.WF)
    (ih : ∀ a ∈ args, layoutOf h (toMTy a) = some (rustLayout h a)) :
    layoutOf h (.enum (instVariants .never tbl (args.map toMTy)))
      = some (reprU8 (instVariants ⟨0, 1⟩ tbl (args.map (rustLayout h)))) := by
  rw [layoutOf, enumVariants_eq h _ _ (instVariants_rel h tbl args hin ih) none]
  apply rotoEnumLayout_eq_reprU8
  · cases tbl with
    | nil => exact absurd rfl hne
    | cons v t => simp [instVariants]
  · apply instVariants_mem_wf
    intro l hl
    obtain ⟨a, ha, rfl⟩ := List.mem_map.mp hl
    exact rustLayout_wf h hh a (hwf a ha)

theorem primitiveLayout_eq (h : HostLayouts) (p : Primitive) : primitiveLayout h p = rustPrimLayout h p := by
  cases p with
  | Int k s => cases s <;> rfl
  | Float s => cases s <;> rfl
  | _ => rfl

end RotoV.Boundary

namespace RotoV.Boundary
open RotoV RotoV.Gen.BoundaryTables

theorem le_maxSize_of_mem {l : Layout} {ls : List Layout} (h : l ∈ ls) : l.size ≤ maxSize ls := by
  induction ls with
  | nil => cases h
  | cons x xs ih =>
    rw [maxSize_cons]
    rcases List.mem_cons.mp h with rfl | h
    · exact Nat.le_max_left _ _
    · exact Nat.le_trans (ih h) (Nat.le_max_right _ _)

/-- The single payload of a variant lies behind the tag and inside the enum: bytes
    `[payloadOffset l, payloadOffset l + l.size)` are within `[1, size)`. -/
theorem payload_in_bounds' (vs : List (List Layout)) (l : Layout) (hmem : [l] ∈ vs)
    (hwf : ∀ fs ∈ vs, ∀ x ∈ fs, x.WF) :
    1 ≤ payloadOffset l ∧ payloadOffset l + l.size ≤ (reprU8 vs).size := by
  have hl := hwf [l] hmem l (List.mem_singleton.mpr rfl)
  have hpos := hl.align_pos
  refine ⟨le_roundUp 1 l.align hpos, ?_⟩
  -- the struct of this variant
  have hs : (reprC [⟨1, 1⟩, l]).size ≤ maxSize (vs.map fun fs => reprC (⟨1, 1⟩ :: fs)) :=
    le_maxSize_of_mem (List.mem_map.mpr ⟨[l], hmem, rfl⟩)
  have hA : isPow2 (maxAlign (vs.map fun fs => reprC (⟨1, 1⟩ :: fs))) := by
    apply maxAlign_pow2
    intro s hs'
    obtain ⟨gs, hgs, rfl⟩ := List.mem_map.mp hs'
    apply maxAlign_pow2
    intro x hx
    rcases List.mem_cons.mp hx with rfl | hx
    · exact isPow2_one
    · exact (hwf gs hgs x hx).pow2
  have h0 : roundUp 0 1 = 0 := by decide
  have hApos : 0 < maxAlign [⟨1, 1⟩, l] := Nat.lt_of_lt_of_le Nat.one_pos (one_le_maxAlign _)
  have hstruct : payloadOffset l + l.size ≤ (reprC [⟨1, 1⟩, l]).size := by
    simp only [reprC, structEnd, h0, payloadOffset]
    exact le_roundUp _ _ hApos
  exact Nat.le_trans hstruct (Nat.le_trans hs (le_roundUp _ _ hA.pos))

end RotoV.Boundary
