/-
C05 — lemmas for the store model (`Model/BoundaryStore.lean`): every kind of
step keeps the host's cells and the invariant, given the instruction passed
`Instr.ok`.
-/
import RotoV.Model.BoundaryStore

namespace RotoV.BoundaryStore

theorem Val.isHost_scalar (n : Nat) : (Val.scalar n).isHost = false := rfl

theorem get_clean {T : List Var} {σ : State} (hc : Consistent T σ) {op : Operand}
    (h : tainted T op = false) : (σ.get op).isHost = false := by
  cases op with
  | lit n => rfl
  | var v =>
    simp only [State.get]
    cases hv : (σ.env v).isHost with
    | false => rfl
    | true =>
      have := hc.env_ok v hv
      simp only [tainted] at h
      rw [h] at this
      cases this

theorem load_clean {T : List Var} {σ : State} (hc : Consistent T σ) (p : Val) (k : Nat) :
    (σ.load p k).isHost = false := by
  cases p with
  | scalar n => rfl
  | ptr r a =>
    cases r with
    | host => rfl
    | frame => exact hc.frame_ok _

theorem set_consistent {T : List Var} {σ : State} (hc : Consistent T σ) (v : Var) (x : Val)
    (h : x.isHost = true → T.contains v = true) : Consistent T (σ.set v x) := by
  refine ⟨?_, hc.frame_ok, hc.retv_ok⟩
  intro w hw
  simp only [State.set] at hw
  by_cases e : w = v
  · subst e
    simp only [if_true] at hw
    exact h hw
  · simp only [e, if_false] at hw
    exact hc.env_ok w hw

theorem set_host (σ : State) (v : Var) (x : Val) : (σ.set v x).host = σ.host := rfl

theorem store_clean {T : List Var} {σ : State} (hc : Consistent T σ) {p x : Val} (k : Nat)
    (hp : p.isHost = false) (hx : x.isHost = false) :
    (σ.store p k x).host = σ.host ∧ Consistent T (σ.store p k x) := by
  cases p with
  | scalar n => exact ⟨rfl, hc⟩
  | ptr r a =>
    cases r with
    | host => cases hp
    | frame =>
      refine ⟨rfl, hc.env_ok, ?_, hc.retv_ok⟩
      intro b
      simp only [State.store]
      by_cases e : b = a + k
      · simp only [e, if_true]; exact hx
      · simp only [e, if_false]; exact hc.frame_ok b

theorem copyCells_clean {T : List Var} {σ : State} (hc : Consistent T σ) {dst : Val} (src : Val)
    (hd : dst.isHost = false) (n : Nat) :
    (σ.copyCells dst src n).host = σ.host ∧ Consistent T (σ.copyCells dst src n) := by
  induction n with
  | zero => exact ⟨rfl, hc⟩
  | succ n ih =>
    simp only [State.copyCells]
    have h := store_clean ih.2 n hd (load_clean hc src n)
    exact ⟨h.1.trans ih.1, h.2⟩

theorem offsetVal_isHost (x : Val) (k : Nat) : (offsetVal x k).isHost = x.isHost := by
  cases x with
  | scalar n => rfl
  | ptr r a => cases r <;> rfl

/-- `(!tainted op || b) = true`: either the source is clean or `b` holds -/
theorem clean_or_certified {T : List Var} {σ : State} (hc : Consistent T σ) {op : Operand} {b : Bool}
    (h : (!tainted T op || b) = true) : (σ.get op).isHost = true → b = true := by
  intro hh
  cases ht : tainted T op with
  | false =>
    have := get_clean hc ht
    rw [this] at hh
    cases hh
  | true =>
    simp only [ht, Bool.not_true, Bool.false_or] at h
    exact h

theorem stepSimple_clean {P : List Func} {T : List Var} {σ : State} (hc : Consistent T σ) (i : Instr)
    (hok : i.ok P T = true) (hs : i.isSimple = true) :
    (stepSimple i σ).host = σ.host ∧ Consistent T (stepSimple i σ) := by
  cases i with
  | assign to val =>
    exact ⟨rfl, set_consistent hc _ _ (clean_or_certified hc hok)⟩
  | constAddr to c =>
    exact ⟨rfl, set_consistent hc _ _ (fun _ => hok)⟩
  | offset to src off =>
    refine ⟨rfl, set_consistent hc _ _ ?_⟩
    intro hh
    rw [offsetVal_isHost] at hh
    exact clean_or_certified hc hok hh
  | read to src =>
    refine ⟨rfl, set_consistent hc _ _ ?_⟩
    intro hh
    rw [load_clean hc] at hh
    cases hh
  | write dst val =>
    simp only [Instr.ok, Bool.and_eq_true, Bool.not_eq_true'] at hok
    exact store_clean hc 0 (get_clean hc hok.1) (get_clean hc hok.2)
  | copy dst src n =>
    simp only [Instr.ok, Bool.not_eq_true'] at hok
    exact copyCells_clean hc _ (get_clean hc hok) n
  | ret v =>
    cases v with
    | none => exact ⟨rfl, hc⟩
    | some v =>
      simp only [Instr.ok, Bool.not_eq_true'] at hok
      exact ⟨rfl, hc.env_ok, hc.frame_ok, get_clean hc hok⟩
  | control => exact ⟨rfl, hc⟩
  | clone _ _ => cases hs
  | callRt _ _ => cases hs
  | compute _ _ => cases hs
  | call _ _ _ _ _ => cases hs
  | drop _ => cases hs

theorem havoc_consistent {T : List Var} {σ : State} (hc : Consistent T σ) {o : Oracle} (ho : o.WellBehaved) :
    Consistent T { σ with frame := o.havoc σ.frame } :=
  ⟨hc.env_ok, ho.havoc_clean _ hc.frame_ok, hc.retv_ok⟩

theorem stepRt_clean {T : List Var} {σ : State} (hc : Consistent T σ) (i : Instr) (o : Oracle)
    (ho : o.WellBehaved) : (stepRt i o σ).host = σ.host ∧ Consistent T (stepRt i o σ) := by
  cases i with
  | callRt to args =>
    cases to with
    | none => exact ⟨rfl, havoc_consistent hc ho⟩
    | some t =>
      refine ⟨rfl, set_consistent (havoc_consistent hc ho) _ _ ?_⟩
      intro hh
      rw [ho.ret_clean] at hh
      cases hh
  | compute to args =>
    refine ⟨rfl, set_consistent hc _ _ ?_⟩
    intro hh
    cases hh
  | clone _ _ => exact ⟨rfl, havoc_consistent hc ho⟩
  | drop _ => exact ⟨rfl, havoc_consistent hc ho⟩
  | assign _ _ => exact ⟨rfl, hc⟩
  | constAddr _ _ => exact ⟨rfl, hc⟩
  | offset _ _ _ => exact ⟨rfl, hc⟩
  | read _ _ => exact ⟨rfl, hc⟩
  | write _ _ => exact ⟨rfl, hc⟩
  | copy _ _ _ => exact ⟨rfl, hc⟩
  | call _ _ _ _ _ => exact ⟨rfl, hc⟩
  | ret _ => exact ⟨rfl, hc⟩
  | control => exact ⟨rfl, hc⟩

/-- the callee starts consistent: the only pointers into host cells it can hold
are the context pointer and the arguments its own certificate lists -/
theorem enter_consistent {T : List Var} {σ : State} (hc : Consistent T σ) (g : Func)
    (hg : g.taint.contains g.ctxVar = true) (ctx : Val) (args : List Val)
    (hargs : ∀ pa ∈ g.params.zip args, pa.2.isHost = true → g.taint.contains pa.1 = true) :
    Consistent g.taint (enter g ctx args σ) := by
  refine ⟨?_, hc.frame_ok, hc.retv_ok⟩
  intro v hv
  simp only [enter] at hv
  by_cases e : v = g.ctxVar
  · rw [e]; exact hg
  · simp only [e, if_false] at hv
    cases hf : (g.params.zip args).find? (fun p => p.1 == v) with
    | none =>
      rw [hf] at hv
      cases hv
    | some p =>
      rw [hf] at hv
      have hm : p ∈ g.params.zip args := List.mem_of_find?_eq_some hf
      have hp : (p.1 == v) = true := List.find?_some (p := fun q : Var × Val => q.1 == v) hf
      have hpv : p.1 = v := by simpa using hp
      rw [← hpv]
      exact hargs p hm hv

theorem leave_consistent {T Tg : List Var} {σ σg : State} (hc : Consistent T σ) (hg : Consistent Tg σg)
    (to : Option Var) : Consistent T (leave σ σg to) := by
  have h0 : Consistent T { σ with host := σg.host, frame := σg.frame } := ⟨hc.env_ok, hg.frame_ok, hc.retv_ok⟩
  cases to with
  | none => exact h0
  | some t =>
    refine set_consistent h0 _ _ ?_
    intro hh
    rw [hg.retv_ok] at hh
    cases hh

theorem leave_host (σ σg : State) (to : Option Var) : (leave σ σg to).host = σg.host := by
  cases to <;> rfl

theorem zip_args_ok {T : List Var} {σ : State} (hc : Consistent T σ) (g : Func) {ops : List Operand}
    (h : (g.params.zip ops).all (fun pa => !tainted T pa.2 || g.taint.contains pa.1) = true) :
    ∀ pa ∈ g.params.zip (ops.map σ.get), pa.2.isHost = true → g.taint.contains pa.1 = true := by
  intro pa hpa hh
  rw [List.zip_map_right, List.mem_map] at hpa
  obtain ⟨qa, hq, rfl⟩ := hpa
  rw [List.all_eq_true] at h
  exact clean_or_certified hc (h qa hq) hh

end RotoV.BoundaryStore
