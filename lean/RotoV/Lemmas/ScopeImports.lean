/-
  Imports (C13): what a new import can change about lookups, and the
  order-independence of import lists whose members do not depend on each other.
-/
import RotoV.Model.Scope
import RotoV.Lemmas.Scope
import RotoV.Lemmas.ScopeFrame
import RotoV.Lemmas.ScopeBuild

namespace RotoV.Scope

/-- `g'` is `g` except, possibly, for the imports under aliases outside `P` -/
structure SameOn (P : Name → Prop) (g g' : Graph) : Prop where
  decls : g'.decls = g.decls
  scopes : ∀ i : Nat,
    (g.scopes[i]? = none ∧ g'.scopes[i]? = none) ∨
    (∃ sc sc' : Scope, g.scopes[i]? = some sc ∧ g'.scopes[i]? = some sc' ∧
      sc'.kind = sc.kind ∧ sc'.parent = sc.parent ∧
      ∀ x, P x → sc'.imports.lookup x = sc.imports.lookup x)

theorem sameExcept_decl {P : Name → Prop} {g g' : Graph} (h : SameOn P g g') (n : RName) :
    g'.decl n = g.decl n := by
  simp [Graph.decl, h.decls]

theorem resolveName_sameExcept {P : Name → Prop} {g g' : Graph} (h : SameOn P g g') :
    ∀ (fuel s : Nat) (x : Name) (r : Bool), (r = true → P x) →
      g'.resolveName fuel s x r = g.resolveName fuel s x r := by
  intro fuel
  induction fuel with
  | zero => intro s x r _; rfl
  | succ n ih =>
    intro s x r hx
    unfold Graph.resolveName
    rw [sameExcept_decl h]
    cases hd : g.decl ⟨s, x⟩ with
    | some d => rfl
    | none =>
      simp only
      cases r with
      | false => rfl
      | true =>
        simp only [Bool.not_true, Bool.false_eq_true, ↓reduceIte]
        rcases h.scopes s with ⟨h1, h2⟩ | ⟨sc, sc', h1, h2, _, hp, hl⟩
        · rw [h1, h2]
        · rw [h1, h2]
          simp only
          rw [hl x (hx rfl), hp]
          cases hlk : sc.imports.lookup x with
          | some t => simp only; rw [sameExcept_decl h]
          | none =>
            simp only
            cases sc.parent with
            | none => rfl
            | some p => exact ih p x true hx

theorem parentModuleF_sameExcept {P : Name → Prop} {g g' : Graph} (h : SameOn P g g') :
    ∀ (fuel s : Nat), g'.parentModuleF fuel s = g.parentModuleF fuel s := by
  intro fuel
  induction fuel with
  | zero => intro s; rfl
  | succ n ih =>
    intro s
    unfold Graph.parentModuleF
    rcases h.scopes s with ⟨h1, h2⟩ | ⟨sc, sc', h1, h2, hk, hp, _⟩
    · rw [h1, h2]
    · rw [h1, h2]
      simp only
      rw [hk, hp]
      cases hkind : sc.kind with
      | module name pm =>
        simp only
        cases pm with
        | none => rfl
        | some p =>
          simp only
          rcases h.scopes p with ⟨p1, p2⟩ | ⟨psc, psc', p1, p2, pk, _, _⟩
          · rw [p1, p2]
          · rw [p1, p2]
            simp only
            rw [pk]
            cases psc.kind with
            | module pname ppm => simp only; rw [sameExcept_decl h]
            | _ => rfl
      | root => cases sc.parent <;> simp [ih]
      | function n => cases sc.parent <;> simp [ih]
      | type n => cases sc.parent <;> simp [ih]
      | block i => cases sc.parent <;> simp [ih]

theorem segments_sameExcept {P : Name → Prop} {g g' : Graph} (h : SameOn P g g') :
    ∀ (rest : List Name) (s : Nat) (id : Name) (rc : Bool), (rc = true → P id) →
      segments g' s id rest rc = segments g s id rest rc := by
  intro rest
  induction rest with
  | nil =>
    intro s id rc hx
    unfold segments
    simp only [Graph.resolve, resolveName_sameExcept h _ s id rc hx]
  | cons i rest' ih =>
    intro s id rc hx
    unfold segments
    simp only [Graph.resolve, resolveName_sameExcept h _ s id rc hx]
    by_cases hid : id = SUPER
    · simp [hid]
    · simp only [hid, ↓reduceIte]
      cases g.resolveName (s + 1) s id rc with
      | panic p => rfl
      | err e => rfl
      | ok o =>
        cases o with
        | none => rfl
        | some stub =>
          simp only
          cases stub.scope with
          | none => rfl
          | some s' => exact ih s' i false (by intro hc; cases hc)

/-- the first segment of a path that is not `super` -/
def firstSeg : List Name → Option Name
  | [] => none
  | id :: rest => if id = SUPER then firstSeg rest else some id

theorem supers_sameExcept {P : Name → Prop} {g g' : Graph} (h : SameOn P g g') :
    ∀ (rest : List Name) (s : Nat) (id : Name) (after : Bool),
      (∀ x, firstSeg (id :: rest) = some x → P x) →
      supers g' s id rest after = supers g s id rest after := by
  intro rest
  induction rest with
  | nil =>
    intro s id after hf
    unfold supers
    by_cases hid : id = SUPER
    · simp only [hid, ↓reduceIte, Graph.parentModule, parentModuleF_sameExcept h]
    · simp only [hid, ↓reduceIte]
      apply segments_sameExcept h
      intro _
      exact hf id (by simp [firstSeg, hid])
  | cons i rest' ih =>
    intro s id after hf
    unfold supers
    by_cases hid : id = SUPER
    · simp only [hid, ↓reduceIte, Graph.parentModule, parentModuleF_sameExcept h]
      cases g.parentModuleF (s + 1) s with
      | panic p => rfl
      | err e => rfl
      | ok o =>
        cases o with
        | none => rfl
        | some dec =>
          simp only
          cases dec.scope with
          | none => rfl
          | some s' =>
            simp only
            apply ih
            intro x hx
            exact hf x (by simpa [firstSeg, hid] using hx)
    · simp only [hid, ↓reduceIte]
      apply segments_sameExcept h
      intro _
      exact hf id (by simp [firstSeg, hid])

/-- **Imports under aliases outside `P` do not change what a path means when the
    path's first non-`super` segment is in `P`.** -/
theorem resolveModulePart_sameExcept {P : Name → Prop} {g g' : Graph} (h : SameOn P g g')
    (s : Nat) (p : Path) (hf : ∀ x, firstSeg p = some x → P x) :
    resolveModulePart g' s p = resolveModulePart g s p := by
  cases p with
  | nil => rfl
  | cons id rest => exact supers_sameExcept h rest s id false hf

theorem sameOn_refl (P : Name → Prop) (g : Graph) : SameOn P g g where
  decls := rfl
  scopes := by
    intro i
    cases h : g.scopes[i]? with
    | none => exact Or.inl ⟨rfl, rfl⟩
    | some sc => exact Or.inr ⟨sc, sc, rfl, rfl, rfl, rfl, fun _ _ => rfl⟩

theorem lookup_append_ne {α β} [BEq α] [LawfulBEq α] (l : List (α × β)) (a x : α) (b : β)
    (h : x ≠ a) : (l ++ [(a, b)]).lookup x = l.lookup x := by
  induction l with
  | nil =>
    have : (x == a) = false := by simpa using h
    simp [List.lookup, this]
  | cons hd tl ih =>
    obtain ⟨k, v⟩ := hd
    simp only [List.cons_append, List.lookup]
    cases x == k <;> simp [ih]

/-- `insert_import` only touches lookups of the inserted alias -/
theorem insertImport_sameExcept {g g' : Graph} {s : Nat} {tgt : RName}
    (h : g.insertImport s tgt = .ok g') : SameOn (· ≠ tgt.ident) g g' := by
  unfold Graph.insertImport at h
  cases hs : g.scopes[s]? with
  | none => rw [hs] at h; cases h
  | some sc =>
    rw [hs] at h
    simp only at h
    cases hl : sc.imports.lookup tgt.ident with
    | some _ => rw [hl] at h; cases h
    | none =>
      rw [hl] at h
      simp only [Res.ok.injEq] at h
      subst h
      have hslt := getElem?_lt hs
      refine ⟨rfl, ?_⟩
      intro i
      simp only
      rw [List.getElem?_set]
      by_cases hsi : s = i
      · subst hsi
        refine Or.inr ⟨sc, { sc with imports := sc.imports ++ [(tgt.ident, tgt)] }, hs,
          by simp [hslt], rfl, rfl, ?_⟩
        intro x hx
        exact lookup_append_ne _ _ _ _ hx
      · simp only [hsi, ↓reduceIte]
        cases hi : g.scopes[i]? with
        | none => exact Or.inl ⟨rfl, rfl⟩
        | some sci => exact Or.inr ⟨sci, sci, rfl, rfl, rfl, rfl, fun _ _ => rfl⟩

/-! ## import lists whose members do not depend on each other -/

def entries (ts : List RName) : List (Name × RName) := ts.map (fun t => (t.ident, t))

/-- the graph with the imports `ts` added, in this order, to scope `s` -/
def addImports (g : Graph) (s : Nat) (ts : List RName) : Graph :=
  { g with scopes := g.scopes.modify s (fun sc => { sc with imports := sc.imports ++ entries ts }) }

theorem addImports_scope {g : Graph} {s : Nat} {sc : Scope} (hs : g.scopes[s]? = some sc)
    (ts : List RName) (i : Nat) :
    (addImports g s ts).scopes[i]? =
      if s = i then some { sc with imports := sc.imports ++ entries ts } else g.scopes[i]? := by
  simp only [addImports, List.getElem?_modify]
  by_cases h : s = i
  · subst h; simp [hs]
  · simp [h]

theorem addImports_nil {g : Graph} {s : Nat} {sc : Scope} (hs : g.scopes[s]? = some sc) :
    addImports g s [] = g := by
  have : (addImports g s []).scopes = g.scopes := by
    apply List.ext_getElem?
    intro i
    rw [addImports_scope hs]
    by_cases h : s = i
    · subst h; simp [entries, hs]
    · simp [h]
  cases g
  simp only [addImports] at this ⊢
  simp [this]

theorem lookup_append_none {α β} [BEq α] [LawfulBEq α] (l₁ l₂ : List (α × β)) (x : α)
    (h₁ : l₁.lookup x = none) (h₂ : l₂.lookup x = none) : (l₁ ++ l₂).lookup x = none := by
  induction l₁ with
  | nil => simpa using h₂
  | cons hd tl ih =>
    obtain ⟨k, v⟩ := hd
    simp only [List.lookup] at h₁
    simp only [List.cons_append, List.lookup]
    cases hk : x == k with
    | true => rw [hk] at h₁; cases h₁
    | false => rw [hk] at h₁; exact ih h₁

theorem lookup_entries_none (ts : List RName) (x : Name) (h : ∀ t ∈ ts, x ≠ t.ident) :
    (entries ts).lookup x = none := by
  induction ts with
  | nil => rfl
  | cons t tl ih =>
    have h1 : (x == t.ident) = false := by simpa using h t List.mem_cons_self
    simp only [entries, List.map_cons, List.lookup, h1]
    exact ih (fun t' ht' => h t' (List.mem_cons_of_mem _ ht'))

theorem lookup_append_entries (l : List (Name × RName)) (ts : List RName) (x : Name)
    (h : ∀ t ∈ ts, x ≠ t.ident) : (l ++ entries ts).lookup x = l.lookup x := by
  induction l with
  | nil => simpa using lookup_entries_none ts x h
  | cons hd tl ih =>
    obtain ⟨k, v⟩ := hd
    simp only [List.cons_append, List.lookup]
    cases x == k <;> simp [ih]

theorem insertImport_addImports {g : Graph} {s : Nat} {sc : Scope} (hs : g.scopes[s]? = some sc)
    (ts : List RName) (t : RName) (hfresh : (sc.imports ++ entries ts).lookup t.ident = none) :
    (addImports g s ts).insertImport s t = .ok (addImports g s (ts ++ [t])) := by
  unfold Graph.insertImport
  have h1 : (addImports g s ts).scopes[s]? = some { sc with imports := sc.imports ++ entries ts } := by
    rw [addImports_scope hs]; simp
  rw [h1]
  simp only [hfresh]
  congr 1
  have : ((addImports g s ts).scopes.set s
        { kind := sc.kind, parent := sc.parent,
          imports := sc.imports ++ entries ts ++ [(t.ident, t)] }) = (addImports g s (ts ++ [t])).scopes := by
    apply List.ext_getElem?
    intro i
    rw [List.getElem?_set, addImports_scope hs, addImports_scope hs]
    have hslt : s < (addImports g s ts).scopes.length := getElem?_lt h1
    by_cases h : s = i
    · subst h
      simp [hslt, entries, List.append_assoc]
    · simp [h]
  simp only [addImports, List.append_assoc] at this ⊢
  simp [this]

theorem sameOn_addImports {g : Graph} {s : Nat} {sc : Scope} (hs : g.scopes[s]? = some sc)
    (ts : List RName) : SameOn (fun x => ∀ t ∈ ts, x ≠ t.ident) g (addImports g s ts) where
  decls := rfl
  scopes := by
    intro i
    rw [addImports_scope hs]
    by_cases h : s = i
    · subst h
      exact Or.inr ⟨sc, { sc with imports := sc.imports ++ entries ts }, hs, by simp, rfl, rfl,
        fun x hx => lookup_append_entries _ _ _ hx⟩
    · simp only [h, ↓reduceIte]
      cases hi : g.scopes[i]? with
      | none => exact Or.inl ⟨rfl, rfl⟩
      | some sci => exact Or.inr ⟨sci, sci, rfl, rfl, rfl, rfl, fun _ _ => rfl⟩

/-- one pass of the retain loop over imports that resolve independently of each
    other imports them all, in list order -/
theorem retainPass_independent {g : Graph} {s : Nat} {sc : Scope} (hs : g.scopes[s]? = some sc)
    (tgt : Path → RName) :
    ∀ (ps : List Path) (done : List RName),
      (∀ p ∈ ps, ∃ r, resolveModulePart g s p = .ok r ∧ r.rest = [] ∧ r.decl.name = tgt p) →
      (∀ p ∈ ps, ∀ x, firstSeg p = some x → ∀ t ∈ done, x ≠ t.ident) →
      (∀ p ∈ ps, ∀ q ∈ ps, p ≠ q → firstSeg p ≠ some (tgt q).ident) →
      ((done ++ ps.map tgt).map (·.ident)).Nodup →
      (∀ t ∈ done ++ ps.map tgt, sc.imports.lookup t.ident = none) →
      retainPass s (addImports g s done) ps = .ok (addImports g s (done ++ ps.map tgt), []) := by
  intro ps
  induction ps with
  | nil => intro done _ _ _ _; simp [retainPass]
  | cons p ps ih =>
    intro done hres hind hpair hnd hfresh
    obtain ⟨r, hr, hrest, hname⟩ := hres p List.mem_cons_self
    -- the path means in the current graph what it means in `g`
    have hframe : resolveModulePart (addImports g s done) s p = .ok r := by
      rw [resolveModulePart_sameExcept (sameOn_addImports hs done) s p]
      · exact hr
      · intro x hx t ht
        exact hind p List.mem_cons_self x hx t ht
    have hfr : (sc.imports ++ entries done).lookup (tgt p).ident = none := by
      apply lookup_append_none
      · exact hfresh (tgt p) (by simp)
      · apply lookup_entries_none
        intro t ht heq
        -- identifiers of `done ++ tgt p :: …` are pairwise distinct
        simp only [List.map_cons, List.map_append, List.nodup_append, List.nodup_cons] at hnd
        exact hnd.2.2 t.ident (List.mem_map_of_mem ht) (tgt p).ident (by simp) heq.symm
    have hone : importOne (addImports g s done) s p = .ok (addImports g s (done ++ [tgt p])) := by
      unfold importOne
      rw [hframe]
      simp only [hrest, hname]
      exact insertImport_addImports hs done (tgt p) hfr
    unfold retainPass
    rw [hone]
    simp only
    -- the aliases are pairwise distinct, so no later path is `p` itself
    have hne : ∀ q ∈ ps, q ≠ p := by
      intro q hq heq
      subst heq
      simp only [List.map_cons, List.map_append, List.nodup_append, List.nodup_cons, List.mem_map] at hnd
      exact hnd.2.1.1 ⟨tgt q, ⟨q, hq, rfl⟩, rfl⟩
    have := ih (done ++ [tgt p])
      (fun q hq => hres q (List.mem_cons_of_mem _ hq))
      (by
        intro q hq x hx t ht
        simp only [List.mem_append, List.mem_singleton] at ht
        rcases ht with h | h
        · exact hind q (List.mem_cons_of_mem _ hq) x hx t h
        · subst h
          intro heq
          exact hpair q (List.mem_cons_of_mem _ hq) p List.mem_cons_self (hne q hq) (by rw [hx, heq]))
      (fun a ha b hb hab => hpair a (List.mem_cons_of_mem _ ha) b (List.mem_cons_of_mem _ hb) hab)
      (by simpa [List.append_assoc] using hnd)
      (by
        intro t ht
        apply hfresh t
        simp only [List.map_cons, List.mem_append, List.mem_cons, List.mem_singleton,
          List.not_mem_nil, or_false] at ht ⊢
        rcases ht with (h | h) | h
        · exact Or.inl h
        · exact Or.inr (Or.inl h)
        · exact Or.inr (Or.inr h))
    rw [this]
    simp [List.append_assoc]

/-- `imports` on such a list: one pass, everything imported in list order -/
theorem imports_independent {g : Graph} {s : Nat} {sc : Scope} (hs : g.scopes[s]? = some sc)
    (tgt : Path → RName) (ps : List Path)
    (hres : ∀ p ∈ ps, ∃ r, resolveModulePart g s p = .ok r ∧ r.rest = [] ∧ r.decl.name = tgt p)
    (hind : ∀ p ∈ ps, ∀ q ∈ ps, p ≠ q → firstSeg p ≠ some (tgt q).ident)
    (hnd : (ps.map (fun p => (tgt p).ident)).Nodup)
    (hfresh : ∀ p ∈ ps, sc.imports.lookup (tgt p).ident = none) :
    imports g s ps = .ok (addImports g s (ps.map tgt)) := by
  have h := retainPass_independent hs tgt ps []
    hres
    (by intro p _ x _ t ht; cases ht)
    hind
    (by simpa [List.map_map, Function.comp_def] using hnd)
    (by
      intro t ht
      simp only [List.nil_append, List.mem_map] at ht
      obtain ⟨q, hq, rfl⟩ := ht
      exact hfresh q hq)
  rw [addImports_nil hs] at h
  unfold imports importsF
  rw [h]
  simp

theorem lookup_mem_of_nodup {l : List (Name × RName)} (hnd : (l.map (·.1)).Nodup) {x : Name} {v : RName}
    (h : (x, v) ∈ l) : l.lookup x = some v := by
  induction l with
  | nil => cases h
  | cons hd tl ih =>
    obtain ⟨k, w⟩ := hd
    simp only [List.map_cons, List.nodup_cons] at hnd
    simp only [List.mem_cons, Prod.mk.injEq] at h
    simp only [List.lookup]
    rcases h with ⟨rfl, rfl⟩ | h
    · simp
    · have hne : (x == k) = false := by
        have : x ≠ k := by
          intro heq; subst heq
          exact hnd.1 (List.mem_map_of_mem (f := (·.1)) h)
        simpa using this
      rw [hne]
      exact ih hnd.2 h

/-- permuting a table with distinct keys does not change any lookup -/
theorem lookup_perm {l₁ l₂ : List (Name × RName)} (hp : l₁.Perm l₂) (hnd : (l₁.map (·.1)).Nodup)
    (x : Name) : l₁.lookup x = l₂.lookup x := by
  have hnd2 : (l₂.map (·.1)).Nodup := (hp.map _).nodup_iff.mp hnd
  cases h1 : l₁.lookup x with
  | some v =>
    have hm := lookup_mem h1
    exact (lookup_mem_of_nodup hnd2 (hp.mem_iff.mp hm)).symm
  | none =>
    cases h2 : l₂.lookup x with
    | none => rfl
    | some v =>
      have hm := lookup_mem h2
      rw [lookup_mem_of_nodup hnd (hp.mem_iff.mpr hm)] at h1
      cases h1

theorem lookup_append_congr {α β} [BEq α] (l a b : List (α × β)) (x : α)
    (h : a.lookup x = b.lookup x) : (l ++ a).lookup x = (l ++ b).lookup x := by
  induction l with
  | nil => simpa using h
  | cons hd tl ih =>
    obtain ⟨k, v⟩ := hd
    simp only [List.cons_append, List.lookup]
    cases x == k <;> simp [ih]

/-! ## an import is visible only below the scope it is made in -/

/-- an import added to scope `b` changes what scope `a ≠ b` offers for no name -/
theorem hitAt_insertImport {g g' : Graph} {b : Nat} {tgt : RName}
    (h : g.insertImport b tgt = .ok g') (a : Nat) (x : Name) (hne : a ≠ b ∨ x ≠ tgt.ident) :
    hitAt g' a x = hitAt g a x := by
  unfold Graph.insertImport at h
  cases hs : g.scopes[b]? with
  | none => rw [hs] at h; cases h
  | some sc =>
    rw [hs] at h
    simp only at h
    cases hl : sc.imports.lookup tgt.ident with
    | some _ => rw [hl] at h; cases h
    | none =>
      rw [hl] at h
      simp only [Res.ok.injEq] at h
      subst h
      have hslt := getElem?_lt hs
      unfold hitAt
      simp only [Graph.decl]
      cases hd : g.decls.find? (fun d => d.name = ⟨a, x⟩) with
      | some d => rfl
      | none =>
        simp only
        rw [List.getElem?_set]
        by_cases hba : b = a
        · subst hba
          simp only [↓reduceIte, hslt, hs]
          have hx : x ≠ tgt.ident := by
            rcases hne with h1 | h2
            · exact absurd rfl h1
            · exact h2
          rw [lookup_append_ne _ _ _ _ hx]
        · simp [hba]

theorem firstHit_insertImport {g g' : Graph} {b : Nat} {tgt : RName}
    (h : g.insertImport b tgt = .ok g') (x : Name) :
    ∀ chain : List Nat, (b ∉ chain ∨ x ≠ tgt.ident) → firstHit g' x chain = firstHit g x chain := by
  intro chain
  induction chain with
  | nil => intro _; rfl
  | cons a l ih =>
    intro hoff
    have h1 : a ≠ b ∨ x ≠ tgt.ident := by
      rcases hoff with h | h
      · exact Or.inl (fun e => h (by rw [e]; exact List.mem_cons_self))
      · exact Or.inr h
    have h2 : b ∉ l ∨ x ≠ tgt.ident := by
      rcases hoff with h | h
      · exact Or.inl (fun hm => h (List.mem_cons_of_mem _ hm))
      · exact Or.inr h
    simp only [firstHit, hitAt_insertImport h a x h1, ih h2]

end RotoV.Scope
