/-
  C07: the monotonicity of the declarative checker at the level of whole
  programs: if a completion of the script (omitted literal suffixes and `let`
  annotations filled in, nothing else changed) passes `checkProg`, the script
  as written passes it.
-/
import RotoV.Lemmas.TypingMono

namespace RotoV.Typing

/-! ### items referenced: the same before and after filling in -/

set_option maxHeartbeats 1000000 in
mutual
theorem refsE_fills (e e' : Expr) (h : fillsE e e' = true) : refsE e = refsE e' := by
  cases e <;> cases e' <;> (try (simp [fillsE] at h; done))
  case intLit.intLit => simp [refsE]
  case floatLit.floatLit => simp [refsE]
  case boolLit.boolLit => rfl
  case strLit.strLit => rfl
  case unitLit.unitLit => rfl
  case var.var => simp [refsE]
  case const.const c c' => simp only [fillsE, beq_iff_eq] at h; subst h; rfl
  case field.field a f a' f' =>
    simp only [fillsE, Bool.and_eq_true] at h; simp [refsE, refsE_fills a a' h.2]
  case neg.neg a a' => simp only [fillsE] at h; simp [refsE, refsE_fills a a' h]
  case not.not a a' => simp only [fillsE] at h; simp [refsE, refsE_fills a a' h]
  case some.some a a' => simp only [fillsE] at h; simp [refsE, refsE_fills a a' h]
  case try.try a a' => simp only [fillsE] at h; simp [refsE, refsE_fills a a' h]
  case bin.bin op l r op' l' r' =>
    simp only [fillsE, Bool.and_eq_true] at h
    simp [refsE, refsE_fills l l' h.1.2, refsE_fills r r' h.2]
  case ite.ite c t el c' t' el' =>
    cases el <;> cases el' <;> simp only [fillsE, Bool.and_eq_true] at h <;> try (simp at h; done)
    · simp [refsE, refsE_fills c c' h.1, refsB_fills t t' h.2]
    · rename_i eb eb'
      simp [refsE, refsE_fills c c' h.1.1, refsB_fills t t' h.1.2, refsB_fills eb eb' h.2]
  case «while».«while» c b c' b' =>
    simp only [fillsE, Bool.and_eq_true] at h
    simp [refsE, refsE_fills c c' h.1, refsB_fills b b' h.2]
  case «for».«for» x a b x' a' b' =>
    simp only [fillsE, Bool.and_eq_true] at h
    simp [refsE, refsE_fills a a' h.1.2, refsB_fills b b' h.2]
  case block.block b b' => simp only [fillsE] at h; simp [refsE, refsB_fills b b' h]
  case call.call f args f' args' =>
    simp only [fillsE, Bool.and_eq_true, beq_iff_eq] at h
    simp [refsE, h.1, refsL_fills args args' h.2]
  case assign.assign ic x path a ic' x' path' a' =>
    cases ic <;> cases ic' <;> simp only [fillsE, Bool.and_eq_true, beq_iff_eq] at h <;> try (simp at h; done)
    simp [refsE, refsE_fills a a' h.2]
  case cassign.cassign op ic x path a op' ic' x' path' a' =>
    cases ic <;> cases ic' <;> simp only [fillsE, Bool.and_eq_true, beq_iff_eq] at h <;> try (simp at h; done)
    simp [refsE, refsE_fills a a' h.2]
  case record.record t fs t' fs' =>
    simp only [fillsE, Bool.and_eq_true] at h; simp [refsE, refsF_fills fs fs' h.2]
  case listLit.listLit es es' =>
    cases es <;> cases es' <;> simp only [fillsE, Bool.and_eq_true] at h <;> try (simp at h; done)
    rename_i a r a' r'
    simp [refsE, refsL, refsE_fills a a' h.1, refsL_fills r r' h.2]
  case fstr.fstr es es' => simp only [fillsE] at h; simp [refsE, refsL_fills es es' h]
  case ctor.ctor t k args t' k' args' =>
    simp only [fillsE, Bool.and_eq_true] at h; simp [refsE, refsL_fills args args' h.2]
  case «match».«match» sc arms sc' arms' =>
    cases arms <;> cases arms' <;> simp only [fillsE, Bool.and_eq_true] at h <;> try (simp at h; done)
    rename_i a r a' r'
    simp [refsE, refsE_fills sc sc' h.1, refsA_fills (a :: r) (a' :: r') h.2]
termination_by sizeOf e

theorem refsL_fills (es es' : List Expr) (h : fillsL es es' = true) : refsL es = refsL es' := by
  cases es <;> cases es' <;> simp only [fillsL, Bool.and_eq_true] at h <;> try (simp at h; done)
  · rfl
  · rename_i a r a' r'
    simp [refsL, refsE_fills a a' h.1, refsL_fills r r' h.2]
termination_by sizeOf es

theorem refsF_fills (fs fs' : List Field) (h : fillsF fs fs' = true) : refsF fs = refsF fs' := by
  cases fs with
  | nil => cases fs' with
    | nil => rfl
    | cons f' r' => cases f'; simp [fillsF] at h
  | cons f r =>
    cases fs' with
    | nil => cases f; simp [fillsF] at h
    | cons f' r' =>
      cases f with
      | mk n a =>
      cases f' with
      | mk n' a' =>
      simp only [fillsF, Bool.and_eq_true] at h
      simp [refsF, refsE_fills a a' h.1.2, refsF_fills r r' h.2]
termination_by sizeOf fs

theorem refsA_fills (arms arms' : List Arm) (h : fillsA arms arms' = true) : refsA arms = refsA arms' := by
  cases arms with
  | nil => cases arms' with
    | nil => rfl
    | cons a' r' => simp [fillsA] at h
  | cons a r =>
    cases arms' with
    | nil => cases a with | mk p gd b => cases gd <;> simp [fillsA] at h
    | cons a' r' =>
      cases a with
      | mk p gd b =>
      cases a' with
      | mk p' gd' b' =>
      cases gd with
      | none =>
        cases gd' with
        | none =>
          simp only [fillsA, Bool.and_eq_true] at h
          simp [refsA, refsB_fills b b' h.1.2, refsA_fills r r' h.2]
        | some x' => simp [fillsA] at h
      | some x =>
        cases gd' with
        | none => simp [fillsA] at h
        | some x' =>
          simp only [fillsA, Bool.and_eq_true] at h
          simp [refsA, refsE_fills x x' h.1.1.2, refsB_fills b b' h.1.2, refsA_fills r r' h.2]
termination_by sizeOf arms

theorem refsS_fills (ss ss' : List Stmt) (h : fillsS ss ss' = true) : refsS ss = refsS ss' := by
  cases ss with
  | nil => cases ss' with
    | nil => rfl
    | cons s' r' => simp [fillsS] at h
  | cons s r =>
    cases ss' with
    | nil => cases s <;> simp [fillsS] at h
    | cons s' r' =>
      cases s with
      | let_ x ann a =>
        cases s' with
        | let_ x' ann' a' =>
          cases ann' with
          | none => simp [fillsS] at h
          | some t =>
            simp only [fillsS, Bool.and_eq_true] at h
            simp [refsS, refsE_fills a a' h.1.2, refsS_fills r r' h.2]
        | expr a' => simp [fillsS] at h
      | expr a =>
        cases s' with
        | let_ x' ann' a' => cases ann' <;> simp [fillsS] at h
        | expr a' =>
          simp only [fillsS, Bool.and_eq_true] at h
          simp [refsS, refsE_fills a a' h.1, refsS_fills r r' h.2]
termination_by sizeOf ss

theorem refsB_fills (b b' : Block) (h : fillsB b b' = true) : refsB b = refsB b' := by
  cases b with
  | mk ss last =>
  cases b' with
  | mk ss' last' =>
  cases last with
  | none =>
    cases last' with
    | none => simp only [fillsB] at h; simp [refsB, refsS_fills ss ss' h]
    | some e' => simp [fillsB] at h
  | some e =>
    cases last' with
    | none => simp [fillsB] at h
    | some e' =>
      simp only [fillsB, Bool.and_eq_true] at h
      simp [refsB, refsS_fills ss ss' h.1, refsE_fills e e' h.2]
termination_by sizeOf b
end

/-! ### whole programs -/

/-- `d'` is `d` with suffixes / annotations filled in (signatures and type
    declarations unchanged) -/
inductive FillsD : Decl → Decl → Prop
  | fn (n : Nat) (ps : List (Nat × Ty)) (rt : Ty) (b b' : Block) :
      fillsB b b' = true → FillsD (.fn n ps rt b) (.fn n ps rt b')
  | const (n : Nat) (t : Ty) (e e' : Expr) : fillsE e e' = true → FillsD (.const n t e) (.const n t e')
  | type (n : Nat) (d : TypeDef) : FillsD (.type n d) (.type n d)

inductive FillsDs : List Decl → List Decl → Prop
  | nil : FillsDs [] []
  | cons {d d' : Decl} {r r' : List Decl} : FillsD d d' → FillsDs r r' → FillsDs (d :: r) (d' :: r')

def FillsP (p p' : Prog) : Prop := FillsDs p.decls p'.decls

theorem fills_declNames {ds ds' : List Decl} (h : FillsDs ds ds') :
    ds.map declName = ds'.map declName := by
  induction h with
  | nil => rfl
  | cons hd _ ih => cases hd <;> simp [declName, ih]

theorem fills_length {ds ds' : List Decl} (h : FillsDs ds ds') : ds.length = ds'.length := by
  induction h with
  | nil => rfl
  | cons _ _ ih => simp [ih]

theorem fills_mkEnv_parts {ds ds' : List Decl} (h : FillsDs ds ds') :
    (mkEnv ⟨ds⟩).types = (mkEnv ⟨ds'⟩).types ∧ (mkEnv ⟨ds⟩).fns = (mkEnv ⟨ds'⟩).fns ∧
    (mkEnv ⟨ds⟩).consts = (mkEnv ⟨ds'⟩).consts := by
  induction h with
  | nil => exact ⟨rfl, rfl, rfl⟩
  | cons hd _ ih =>
    obtain ⟨i1, i2, i3⟩ := ih
    simp only [mkEnv] at i1 i2 i3 ⊢
    cases hd <;> simp [List.filterMap_cons, i1, i2, i3]

theorem fills_mkEnv {p p' : Prog} (h : FillsP p p') : mkEnv p = mkEnv p' := by
  obtain ⟨h1, h2, h3⟩ := fills_mkEnv_parts h
  cases p; cases p'
  cases hm : mkEnv ⟨_⟩ with
  | mk t f c =>
    cases hm' : mkEnv ⟨_⟩ with
    | mk t' f' c' =>
      simp only [hm, hm'] at h1 h2 h3
      subst h1; subst h2; subst h3
      rfl

theorem fills_itemRefs_ds {ds ds' : List Decl} (h : FillsDs ds ds') (i : Item) :
    itemRefs ⟨ds⟩ i = itemRefs ⟨ds'⟩ i := by
  unfold itemRefs
  induction h with
  | nil => rfl
  | cons hd _ ih =>
    simp only [List.flatMap_cons] at ih ⊢
    rw [ih]
    cases hd with
    | fn n ps rt b b' hb => simp only [refsB_fills b b' hb]
    | const n t e e' he => simp only [refsE_fills e e' he]
    | type n d => rfl

theorem fills_itemRefs {p p' : Prog} (h : FillsP p p') (i : Item) : itemRefs p i = itemRefs p' i := by
  cases p; cases p'
  exact fills_itemRefs_ds h i

theorem fills_itemReaches {p p' : Prog} (h : FillsP p p') (target : Item) :
    ∀ (fuel : Nat) (frontier : List Item), itemReaches p target fuel frontier = itemReaches p' target fuel frontier := by
  intro fuel
  induction fuel with
  | zero => intro _; rfl
  | succ fuel ih =>
    intro frontier
    simp only [itemReaches]
    have : frontier.flatMap (itemRefs p) = frontier.flatMap (itemRefs p') := by
      congr 1
      funext i
      exact fills_itemRefs h i
    rw [this, ih]

theorem fills_constIsRecursive {p p' : Prog} (h : FillsP p p') (c : Nat) :
    constIsRecursive p c = constIsRecursive p' c := by
  unfold constIsRecursive
  rw [fills_itemReaches h, fills_itemRefs h, fills_length h]

/-- what `checkDecls` has checked makes the environment ground -/
def declGround (env : Env) : Decl → Bool
  | .fn _ ps rt _ => (ps.all fun q => wfTy env q.2) && wfTy env rt
  | .const _ t _ => wfTy env t
  | .type _ d => (typeDefWf env d).isNone

theorem checkDecls_declGround (env : Env) (p : Prog) : ∀ (ds : List Decl), checkDecls env p ds = .ok () →
    ds.all (declGround env) = true := by
  intro ds
  induction ds with
  | nil => intro _; rfl
  | cons d r ih =>
    intro h
    simp only [checkDecls, bind, Except.bind] at h
    cases hd : checkDecl env p d with
    | error err => simp [hd] at h
    | ok u =>
      simp only [hd] at h
      simp only [List.all_cons, Bool.and_eq_true]
      refine ⟨?_, ih h⟩
      cases d with
      | fn n ps rt b =>
        simp only [checkDecl, bind, Except.bind] at hd
        by_cases hw : (!(ps.all fun q => wfTy env q.2) || !wfTy env rt) = true
        · simp [hw, fail] at hd
        · simp only [Bool.or_eq_true, Bool.not_eq_true', not_or, Bool.not_eq_false] at hw
          simp [declGround, hw.1, hw.2]
      | const n t e =>
        simp only [checkDecl, bind, Except.bind] at hd
        by_cases hw : (!wfTy env t) = true
        · simp [hw, fail] at hd
        · simpa [declGround] using hw
      | type n df =>
        simp only [checkDecl, bind, Except.bind] at hd
        cases hwf : typeDefWf env df with
        | some err => simp [hwf, fail] at hd
        | none => simp [declGround, hwf]

theorem all_wf_ground (env : Env) (l : List Ty) (h : l.all (wfTy env) = true) : l.all ground = true := by
  induction l with
  | nil => rfl
  | cons t r ih =>
    simp only [List.all_cons, Bool.and_eq_true] at h ⊢
    exact ⟨wfTy_ground env t h.1, ih h.2⟩

def typeDefGround : TypeDef → Bool
  | .record fs => fs.all (fun f => ground f.2)
  | .enum vs => vs.all (fun v => v.2.all ground)

theorem typeDefWf_ground (env : Env) (d : TypeDef) (h : (typeDefWf env d).isNone = true) :
    typeDefGround d = true := by
  cases d with
  | record fs =>
    simp only [typeDefWf] at h
    split at h
    · simp at h
    · split at h
      · rename_i hall
        simp only [typeDefGround, List.all_eq_true] at hall ⊢
        intro f hf
        exact wfTy_ground env f.2 (hall f hf)
      · simp at h
  | enum vs =>
    simp only [typeDefWf] at h
    split at h
    · simp at h
    · split at h
      · rename_i hall
        simp only [typeDefGround, List.all_eq_true] at hall ⊢
        intro v hv
        exact List.all_eq_true.1 (all_wf_ground env v.2 (List.all_eq_true.2 (hall v hv)))
      · simp at h

/-- a program whose declarations passed the well-formedness tests of `checkDecl`
    has a ground environment -/
theorem declGround_envGround (env : Env) : ∀ (ds : List Decl), ds.all (declGround env) = true →
    envGround (mkEnv ⟨ds⟩) = true := by
  intro ds
  induction ds with
  | nil => intro _; rfl
  | cons d r ih =>
    intro h
    simp only [List.all_cons, Bool.and_eq_true] at h
    have ihr := ih h.2
    simp only [envGround, mkEnv, Bool.and_eq_true] at ihr ⊢
    obtain ⟨⟨i1, i2⟩, i3⟩ := ihr
    cases d with
    | fn n ps rt b =>
      simp only [declGround, Bool.and_eq_true] at h
      have hps : (ps.map (·.2)).all ground = true := by
        have := h.1.1
        simp only [List.all_eq_true] at this ⊢
        intro t ht
        obtain ⟨q, hq, rfl⟩ := List.mem_map.1 ht
        exact wfTy_ground env q.2 (this q hq)
      simp [List.filterMap_cons, i1, i2, i3, hps, wfTy_ground env rt h.1.2]
    | const n t e =>
      simp only [declGround] at h
      simp [List.filterMap_cons, i1, i2, i3, wfTy_ground env t h.1]
    | type n df =>
      simp only [declGround] at h
      have := typeDefWf_ground env df h.1
      refine ⟨⟨by simpa [List.filterMap_cons] using i1, by simpa [List.filterMap_cons] using i2⟩, ?_⟩
      simp only [List.filterMap_cons, List.all_cons, Bool.and_eq_true]
      refine ⟨?_, i3⟩
      cases df <;> simpa [typeDefGround] using this

/-- the declarations one by one -/
theorem checkDecls_mono (env : Env) (henv : envGround env = true) (p p' : Prog)
    (hrec : ∀ c, constIsRecursive p c = constIsRecursive p' c) :
    ∀ (ds ds' : List Decl), FillsDs ds ds' → checkDecls env p' ds' = .ok () → checkDecls env p ds = .ok () := by
  intro ds ds' h
  induction h with
  | nil => intro hh; exact hh
  | @cons d d' r r' hd _ ih =>
    intro hh
    simp only [checkDecls, bind, Except.bind] at hh ⊢
    cases hc : checkDecl env p' d' with
    | error err => simp [hc] at hh
    | ok u =>
      simp only [hc] at hh
      have hd1 : checkDecl env p d = .ok () := by
        cases hd with
        | fn n ps rt b b' hb => exact checkDecl_fn_mono env henv p n ps rt b b' hb (by
            -- `checkDecl` of a function does not look at the program
            simpa [checkDecl] using hc)
        | const n t e e' he =>
          simp only [checkDecl, bind, Except.bind] at hc ⊢
          by_cases hw : (!wfTy env t) = true
          · simp [hw, fail] at hc
          · simp only [hw, Bool.false_eq_true, ↓reduceIte] at hc ⊢
            cases hs : synth env { retTy := none } [[]] e' with
            | error err => simp [hs] at hc
            | ok q =>
              obtain ⟨tg, dg⟩ := q
              simp only [hs] at hc
              obtain ⟨_, tf, s1, s2, s3⟩ := monoE env henv { retTy := none } e e' [[]] [[]] tg dg he
                (by simp [gammaInst, scopeInst]) hs
              simp only [s1]
              cases hex : expect "const-value" tg t with
              | error err => simp [hex] at hc
              | ok u2 =>
                simp only [hex] at hc
                have hgt : ground t = true := wfTy_ground env t (by simpa using hw)
                have := compat_ground_eq tg t s3 hgt (expect_inv hex)
                subst this
                simp only [expect_ok (inst_compat tf tg s3 s2)]
                rw [hrec n]
                exact hc
        | type n df => exact hc
      simp only [hd1]
      exact ih hh

/-- **whole programs**: if a completion passes the declarative checker, the
    script as written passes it -/
theorem checkProg_mono (p p' : Prog) (h : FillsP p p') (hok : checkProg p' = .ok ()) : checkProg p = .ok () := by
  unfold checkProg at hok ⊢
  have hnames : p.decls.map declName = p'.decls.map declName := fills_declNames h
  rw [hnames]
  by_cases hdup : hasDupPair (p'.decls.map declName) = true
  · simp [hdup, fail] at hok
  · simp only [hdup, Bool.false_eq_true, ↓reduceIte] at hok ⊢
    rw [fills_mkEnv h]
    have hg := checkDecls_declGround (mkEnv p') p' p'.decls hok
    have henv : envGround (mkEnv p') = true := by
      have := declGround_envGround (mkEnv p') p'.decls hg
      cases p'; exact this
    exact checkDecls_mono (mkEnv p') henv p p' (fills_constIsRecursive h) p.decls p'.decls h hok

end RotoV.Typing
