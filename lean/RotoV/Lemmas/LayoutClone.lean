/-
  Lemmas/LayoutClone — C02: the decoded value of a byte range depends only on
  its bytes (`decode_congr`), the generated clone function writes only inside
  its destination (`cloneTy_frame`) and reproduces the value there
  (`cloneTy_decode`); by mutual induction over type trees.
-/
import RotoV.Lemmas.LayoutPath
namespace RotoV.Layout
open RotoV RotoV.LayoutStd RotoV.Gen.LayoutGen

theorem buildFields_size_mono : ∀ (ts : Tys) (b b' : LayoutBuilder), buildFields ts b = some b' → b.size ≤ b'.size
  | .nil, b, b', h => by simp [buildFields] at h; subst h; exact Nat.le_refl _
  | .cons t ts, b, b', h => by
    cases hl : layoutOf t with
    | none => simp [buildFields, hl] at h
    | some l =>
      simp [buildFields, hl] at h
      have := buildFields_size_mono ts _ b' h
      simp at this
      have := nextMultipleOf_ge b.size l.align
      omega

theorem enumLayout_size_pos : ∀ (vs : Vars) (acc : Option Layout) (L : Layout),
    enumLayout vs acc = some L → (∀ a, acc = some a → 1 ≤ a.size) → 1 ≤ L.size
  | .nil, acc, L, h, hacc => by simp [enumLayout] at h; exact hacc L h
  | .cons v vs, acc, L, h, hacc => by
    cases hb : buildFields v variantStart with
    | none => simp [enumLayout, hb] at h; exact enumLayout_size_pos vs acc L h hacc
    | some bv =>
      simp [enumLayout, hb] at h
      refine enumLayout_size_pos vs _ L h ?_
      intro a ha
      have h1 := buildFields_size_mono v _ bv hb
      rw [variantStart_eq] at h1
      have h2 := finish_size_ge bv
      cases acc with
      | none => simp at ha; subst ha; simp at h1; omega
      | some x =>
        simp at ha; subst ha
        have := (union_size_ge x bv.finish).2
        simp at h1; omega

theorem enum_size_pos (vs : Vars) (L : Layout) (h : layoutOf (.enum vs) = some L) : 1 ≤ L.size :=
  enumLayout_size_pos vs none L (by simpa [layoutOf] using h) (by simp)

theorem collectLayouts_none_decode (m : Mem) : ∀ (ts : Tys) (b : LayoutBuilder) (a : Nat),
    collectLayouts ts = none → decodeFields m ts b a = none
  | .nil, b, a, h => by simp [collectLayouts] at h
  | .cons t ts, b, a, h => by
    cases hl : layoutOf t with
    | none => simp [decodeFields, hl]
    | some l =>
      cases hc : collectLayouts ts with
      | none =>
        have := collectLayouts_none_decode m ts (b.add l).1 a hc
        simp [decodeFields, hl, this]
      | some ls => simp [collectLayouts, hl, hc] at h

theorem collectLayouts_iff_build : ∀ (ts : Tys) (b : LayoutBuilder),
    (collectLayouts ts = none ↔ buildFields ts b = none)
  | .nil, b => by simp [collectLayouts, buildFields]
  | .cons t ts, b => by
    cases hl : layoutOf t with
    | none => simp [collectLayouts, buildFields, hl]
    | some l =>
      have := collectLayouts_iff_build ts (b.add l).1
      cases hc : collectLayouts ts with
      | none => simp [collectLayouts, buildFields, hl, hc, this.1 hc]
      | some ls =>
        simp [collectLayouts, buildFields, hl, hc]
        intro hb
        have := this.2 hb
        simp [hc] at this

theorem read_congr (m1 m2 : Mem) (a1 a2 n : Nat) (h : ∀ i, i < n → m1 (a1 + i) = m2 (a2 + i)) :
    m1.read a1 n = m2.read a2 n := by
  simp only [Mem.read]
  apply List.map_congr_left
  intro i hi
  exact h i (by simpa using hi)

mutual
/-- the decoded value depends only on the bytes of the value, relative to its
    address -/
theorem decode_congr (m1 m2 : Mem) : ∀ (t : Ty) (L : Layout), layoutOf t = some L →
    ∀ (a1 a2 : Nat), (∀ i, i < L.size → m1 (a1 + i) = m2 (a2 + i)) → decode m1 t a1 = decode m2 t a2
  | .unit, L, _, a1, a2, _ => by simp [decode]
  | .never, L, h, _, _, _ => by simp [layoutOf] at h
  | .leaf k s al, L, h, a1, a2, hag => by
    simp [layoutOf, Layout.new] at h; subst h
    simp only [decode]
    rw [read_congr m1 m2 a1 a2 s hag]
  | .record fs, L, h, a1, a2, hag => by
    cases hb : buildFields fs LayoutBuilder.new with
    | none => simp [layoutOf, hb] at h
    | some b =>
      simp [layoutOf, hb] at h; subst h
      have := decodeFields_congr m1 m2 fs _ b hb a1 a2
        (fun i hi => hag i (Nat.lt_of_lt_of_le hi (finish_size_ge b)))
      simp [decode, this]
  | .enum vs, L, h, a1, a2, hag => by
    have hpos := enum_size_pos vs L h
    have htag : m1 a1 = m2 a2 := by simpa using hag 0 (by omega)
    have hge := (enumLayout_ge vs none L (by simpa [layoutOf] using h)).2
    have := decodeVariant_congr m1 m2 vs L.size
      (fun k fields b hk hb => Nat.le_trans (finish_size_ge b) (hge k fields b hk hb)) (m1 a1) a1 a2 hag
    simp only [decode]
    rw [this, htag]
theorem decodeFields_congr (m1 m2 : Mem) : ∀ (ts : Tys) (b b' : LayoutBuilder), buildFields ts b = some b' →
    ∀ (a1 a2 : Nat), (∀ i, i < b'.size → m1 (a1 + i) = m2 (a2 + i)) →
    decodeFields m1 ts b a1 = decodeFields m2 ts b a2
  | .nil, b, b', _, a1, a2, _ => by simp [decodeFields]
  | .cons t ts, b, b', h, a1, a2, hag => by
    cases hl : layoutOf t with
    | none => simp [buildFields, hl] at h
    | some l =>
      simp [buildFields, hl] at h
      have hmono := buildFields_size_mono ts _ b' h
      simp at hmono
      have h1 := decode_congr m1 m2 t l hl (a1 + (b.add l).2) (a2 + (b.add l).2) (by
        intro i hi
        have := hag (nextMultipleOf b.size l.align + i) (by omega)
        simpa [Nat.add_assoc] using this)
      have h2 := decodeFields_congr m1 m2 ts _ b' h a1 a2 hag
      simp only [decodeFields, hl, h1, h2]
theorem decodeVariant_congr (m1 m2 : Mem) : ∀ (vs : Vars) (N : Nat),
    (∀ k fields b, vs.get? k = some fields → buildFields fields variantStart = some b → b.size ≤ N) →
    ∀ (tag a1 a2 : Nat), (∀ i, i < N → m1 (a1 + i) = m2 (a2 + i)) →
    decodeVariant m1 vs tag a1 = decodeVariant m2 vs tag a2
  | .nil, N, _, tag, a1, a2, _ => by simp [decodeVariant]
  | .cons v vs, N, hN, 0, a1, a2, hag => by
    simp only [decodeVariant]
    cases hb : buildFields v variantStart with
    | none =>
      have hc := (collectLayouts_iff_build v variantStart).2 hb
      simp [collectLayouts_none_decode _ v _ _ hc]
    | some b =>
      have := hN 0 v b (by simp [Vars.get?]) hb
      exact decodeFields_congr m1 m2 v _ b hb a1 a2 (fun i hi => hag i (by omega))
  | .cons v vs, N, hN, tag + 1, a1, a2, hag => by
    simp only [decodeVariant]
    exact decodeVariant_congr m1 m2 vs N (fun k fields b hk hb => hN (k + 1) fields b (by simpa [Vars.get?] using hk) hb)
      tag a1 a2 hag
end

theorem copy_outside (m : Mem) (dst src n x : Nat) (h : x < dst ∨ dst + n ≤ x) : m.copy dst src n x = m x := by
  simp only [Mem.copy]
  exact Mem.write_outside _ _ _ _ (by simpa [Mem.read_length] using h)

theorem copy_inside (m : Mem) (dst src n i : Nat) (h : i < n) : m.copy dst src n (dst + i) = m (src + i) := by
  simp only [Mem.copy, Mem.write, Mem.read_length]
  have : dst ≤ dst + i ∧ dst + i < dst + n := by omega
  simp [this, Mem.read, h]

theorem buildFields_some_of_collect (ts : Tys) (b : LayoutBuilder) (ls : List (Ty × Layout))
    (h : collectLayouts ts = some ls) : ∃ b', buildFields ts b = some b' := by
  cases hb : buildFields ts b with
  | none => have := (collectLayouts_iff_build ts b).2 hb; simp [h] at this
  | some b' => exact ⟨b', rfl⟩

mutual
/-- the generated clone function writes only inside the destination value -/
theorem cloneTy_frame : ∀ (t : Ty) (L : Layout), layoutOf t = some L → ∀ (src dst : Nat) (m : Mem) (x : Nat),
    (x < dst ∨ dst + L.size ≤ x) → cloneTy t src dst m x = m x
  | .unit, L, _, src, dst, m, x, _ => by simp [cloneTy]
  | .never, L, h, _, _, _, _, _ => by simp [layoutOf] at h
  | .leaf k s al, L, h, src, dst, m, x, hx => by
    simp [layoutOf, Layout.new] at h; subst h
    simp only [cloneTy]; exact copy_outside _ _ _ _ _ hx
  | .record fs, L, h, src, dst, m, x, hx => by
    simp only [cloneTy]
    split
    · cases hb : buildFields fs LayoutBuilder.new with
      | none => simp [layoutOf, hb] at h
      | some b =>
        simp [layoutOf, hb] at h; subst h
        have hfin := finish_size_ge b
        exact cloneFields_frame fs _ b hb src dst m x (by
          have : LayoutBuilder.new.size = 0 := rfl
          omega)
    · rw [h]; exact copy_outside _ _ _ _ _ hx
  | .enum vs, L, h, src, dst, m, x, hx => by
    simp only [cloneTy]
    have hpos := enum_size_pos vs L h
    split
    · have hge := (enumLayout_ge vs none L (by simpa [layoutOf] using h)).2
      rw [cloneVariant_frame vs L.size
        (fun k fields b hk hb => Nat.le_trans (finish_size_ge b) (hge k fields b hk hb))
        (m src) src dst _ x (by omega)]
      exact Mem.write_outside _ _ _ _ (by simp; omega)
    · rw [h]; exact copy_outside _ _ _ _ _ hx
theorem cloneFields_frame : ∀ (ts : Tys) (b b' : LayoutBuilder), buildFields ts b = some b' →
    ∀ (src dst : Nat) (m : Mem) (x : Nat), (x < dst + b.size ∨ dst + b'.size ≤ x) →
    cloneFields ts b src dst m x = m x
  | .nil, b, b', _, src, dst, m, x, _ => by simp [cloneFields]
  | .cons t ts, b, b', h, src, dst, m, x, hx => by
    cases hl : layoutOf t with
    | none => simp [buildFields, hl] at h
    | some l =>
      simp [buildFields, hl] at h
      have hmono := buildFields_size_mono ts _ b' h
      simp at hmono
      have hge := nextMultipleOf_ge b.size l.align
      simp only [cloneFields, hl]
      rw [cloneFields_frame ts _ b' h src dst _ x (by simp; omega)]
      exact cloneTy_frame t l hl _ _ m x (by simp; omega)
theorem cloneVariant_frame : ∀ (vs : Vars) (N : Nat),
    (∀ k fields b, vs.get? k = some fields → buildFields fields variantStart = some b → b.size ≤ N) →
    ∀ (tag src dst : Nat) (m : Mem) (x : Nat), (x < dst + 1 ∨ dst + N ≤ x) →
    cloneVariant vs tag src dst m x = m x
  | .nil, N, _, tag, src, dst, m, x, _ => by simp [cloneVariant]
  | .cons v .nil, N, hN, tag, src, dst, m, x, hx => by
    simp only [cloneVariant]
    cases hc : collectLayouts v with
    | none => rfl
    | some ls =>
      obtain ⟨b, hb⟩ := buildFields_some_of_collect v variantStart ls hc
      have := hN 0 v b (by simp [Vars.get?]) hb
      exact cloneFields_frame v _ b hb src dst m x (by rw [variantStart_eq]; simp; omega)
  | .cons v (.cons v' vs), N, hN, 0, src, dst, m, x, hx => by
    simp only [cloneVariant]
    cases hc : collectLayouts v with
    | none => rfl
    | some ls =>
      obtain ⟨b, hb⟩ := buildFields_some_of_collect v variantStart ls hc
      have := hN 0 v b (by simp [Vars.get?]) hb
      exact cloneFields_frame v _ b hb src dst m x (by rw [variantStart_eq]; simp; omega)
  | .cons v (.cons v' vs), N, hN, tag + 1, src, dst, m, x, hx => by
    simp only [cloneVariant]
    exact cloneVariant_frame (.cons v' vs) N
      (fun k fields b hk hb => hN (k + 1) fields b (by simpa [Vars.get?] using hk) hb) tag src dst m x hx
end

theorem decode_copy (m : Mem) (t : Ty) (L : Layout) (h : layoutOf t = some L) (src dst : Nat) :
    decode (m.copy dst src L.size) t dst = decode m t src :=
  decode_congr _ _ t L h dst src (fun i hi => copy_inside m dst src L.size i hi)

mutual
/-- the generated clone function reproduces the value at the destination -/
theorem cloneTy_decode : ∀ (t : Ty) (L : Layout), layoutOf t = some L → ∀ (src dst : Nat) (m : Mem),
    (src + L.size ≤ dst ∨ dst + L.size ≤ src) → decode (cloneTy t src dst m) t dst = decode m t src
  | .unit, L, _, src, dst, m, _ => by simp [cloneTy, decode]
  | .never, L, h, _, _, _, _ => by simp [layoutOf] at h
  | .leaf k s al, L, h, src, dst, m, _ => by
    have := decode_copy m (.leaf k s al) L h src dst
    simp [layoutOf, Layout.new] at h; subst h
    simpa [cloneTy] using this
  | .record fs, L, h, src, dst, m, hd => by
    simp only [cloneTy]
    split
    · cases hb : buildFields fs LayoutBuilder.new with
      | none => simp [layoutOf, hb] at h
      | some b =>
        simp [layoutOf, hb] at h; subst h
        have := cloneFields_decode fs _ b hb src dst m b.finish.size (finish_size_ge b) hd
        simp only [decode, this]
    · rw [h]; exact decode_copy m _ L h src dst
  | .enum vs, L, h, src, dst, m, hd => by
    simp only [cloneTy]
    have hpos := enum_size_pos vs L h
    have hge := (enumLayout_ge vs none L (by simpa [layoutOf] using h)).2
    have hN : ∀ k fields b, vs.get? k = some fields → buildFields fields variantStart = some b → b.size ≤ L.size :=
      fun k fields b hk hb => Nat.le_trans (finish_size_ge b) (hge k fields b hk hb)
    split
    · have htag : cloneVariant vs (m src) src dst (m.write dst [m src]) dst = m src := by
        rw [cloneVariant_frame vs L.size hN (m src) src dst _ dst (by omega)]
        simp [Mem.write]
      have h1 := cloneVariant_decode vs L.size hN (m src) src dst (m.write dst [m src]) hd
      have h2 := decodeVariant_congr (m.write dst [m src]) m vs L.size hN (m src) src src (by
        intro i hi
        exact Mem.write_outside _ _ _ _ (by simp; omega))
      simp only [decode, htag, h1, h2]
    · rw [h]; exact decode_copy m _ L h src dst
theorem cloneFields_decode : ∀ (ts : Tys) (b b' : LayoutBuilder), buildFields ts b = some b' →
    ∀ (src dst : Nat) (m : Mem) (N : Nat), b'.size ≤ N → (src + N ≤ dst ∨ dst + N ≤ src) →
    decodeFields (cloneFields ts b src dst m) ts b dst = decodeFields m ts b src
  | .nil, b, b', _, src, dst, m, N, _, _ => by simp [decodeFields]
  | .cons t ts, b, b', h, src, dst, m, N, hN, hd => by
    cases hl : layoutOf t with
    | none => simp [buildFields, hl] at h
    | some l =>
      simp [buildFields, hl] at h
      have hmono := buildFields_size_mono ts _ b' h
      simp at hmono
      have hge := nextMultipleOf_ge b.size l.align
      simp only [cloneFields, hl]
      -- the field itself
      have e1 : decode (cloneFields ts (b.add l).1 src dst
            (cloneTy t (src + (b.add l).2) (dst + (b.add l).2) m)) t (dst + (b.add l).2)
          = decode m t (src + (b.add l).2) := by
        rw [decode_congr _ (cloneTy t (src + (b.add l).2) (dst + (b.add l).2) m) t l hl
          (dst + (b.add l).2) (dst + (b.add l).2) (by
            intro i hi
            exact cloneFields_frame ts _ b' h src dst _ _ (by simp; omega))]
        exact cloneTy_decode t l hl _ _ m (by simp; omega)
      -- the remaining fields
      have e2 : decodeFields (cloneFields ts (b.add l).1 src dst
            (cloneTy t (src + (b.add l).2) (dst + (b.add l).2) m)) ts (b.add l).1 dst
          = decodeFields m ts (b.add l).1 src := by
        rw [cloneFields_decode ts _ b' h src dst _ N hN hd]
        exact decodeFields_congr _ m ts _ b' h src src (by
          intro i hi
          exact cloneTy_frame t l hl _ _ m _ (by simp; omega))
      simp only [decodeFields, hl, e1, e2]
theorem cloneVariant_decode : ∀ (vs : Vars) (N : Nat),
    (∀ k fields b, vs.get? k = some fields → buildFields fields variantStart = some b → b.size ≤ N) →
    ∀ (tag src dst : Nat) (m : Mem), (src + N ≤ dst ∨ dst + N ≤ src) →
    decodeVariant (cloneVariant vs tag src dst m) vs tag dst = decodeVariant m vs tag src
  | .nil, N, _, tag, src, dst, m, _ => by simp [decodeVariant]
  | .cons v .nil, N, hN, 0, src, dst, m, hd => by
    simp only [cloneVariant, decodeVariant]
    cases hc : collectLayouts v with
    | none => simp [collectLayouts_none_decode _ v _ _ hc]
    | some ls =>
      obtain ⟨b, hb⟩ := buildFields_some_of_collect v variantStart ls hc
      exact cloneFields_decode v _ b hb src dst m N (hN 0 v b (by simp [Vars.get?]) hb) hd
  | .cons v .nil, N, hN, tag + 1, src, dst, m, hd => by
    simp [decodeVariant]
  | .cons v (.cons v' vs), N, hN, 0, src, dst, m, hd => by
    simp only [cloneVariant, decodeVariant]
    cases hc : collectLayouts v with
    | none => simp [collectLayouts_none_decode _ v _ _ hc]
    | some ls =>
      obtain ⟨b, hb⟩ := buildFields_some_of_collect v variantStart ls hc
      exact cloneFields_decode v _ b hb src dst m N (hN 0 v b (by simp [Vars.get?]) hb) hd
  | .cons v (.cons v' vs), N, hN, tag + 1, src, dst, m, hd => by
    simp only [cloneVariant, decodeVariant]
    exact cloneVariant_decode (.cons v' vs) N
      (fun k fields b hk hb => hN (k + 1) fields b (by simpa [Vars.get?] using hk) hb) tag src dst m hd
end

end RotoV.Layout
