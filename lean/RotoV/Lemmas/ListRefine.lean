/-
  ListRefine: every operation of the list model, run from a state satisfying
  the store invariant, (a) faults only with a capacity-overflow panic, (b)
  returns what the shared-vector specification returns, (c) re-establishes the
  invariant and the abstraction relation (C15, T1–T4).
-/
import RotoV.Lemmas.ListInv
import RotoV.Lemmas.ListJoin

namespace RotoV.ListM
open RotoV

/-- abstraction relation: same variables, live allocation `a` ↦ vector `a` -/
structure Rel (s : St) (t : Spec) : Prop where
  slots : t.slots = s.slots
  len : t.lists.length = s.allocs.length
  lists : ∀ a l, s.getAlloc a = some l → t.lists[a]? = some l.elems

theorem Rel_init (n : Nat) : Rel (St.init n) (Spec.init n) :=
  ⟨rfl, rfl, fun a l h => by simp [St.init, St.getAlloc] at h⟩

theorem unlock_eq {l : RawList} (h : l.locked = false) : { l with locked := false } = l := by
  cases l; simp at h; subst h; rfl

theorem slot_ok {s : St} {h a : Nat} (hs : s.slots[h]? = some (some a)) : s.slot h = .ok a := by
  unfold St.slot; rw [hs]

theorem slot_bad {s : St} {h : Nat} (hs : ∀ a, s.slots[h]? ≠ some (some a)) :
    s.slot h = .error .badHandle := by
  unfold St.slot
  split
  · rename_i a heq; exact absurd heq (hs a)
  · rfl

theorem vec_ok {s : St} {t : Spec} {h a : Nat} {l : RawList} (rel : Rel s t)
    (hs : s.slots[h]? = some (some a)) (hl : s.getAlloc a = some l) :
    t.vec h = some (a, l.elems) := by
  unfold Spec.vec
  rw [rel.slots, hs]
  simp only []
  rw [rel.lists a l hl]

theorem vec_bad {s : St} {t : Spec} {h : Nat} (rel : Rel s t)
    (hs : ∀ a, s.slots[h]? ≠ some (some a)) : t.vec h = none := by
  unfold Spec.vec
  rw [rel.slots]
  split
  · rename_i a heq; exact absurd heq (hs a)
  · rfl

theorem slot_dec (s : St) (h : Nat) :
    (∃ a, s.slots[h]? = some (some a)) ∨ (∀ a, s.slots[h]? ≠ some (some a)) := by
  cases hh : s.slots[h]? with
  | none => exact Or.inr (fun a => by simp)
  | some o =>
    cases o with
    | none => exact Or.inr (fun a => by simp)
    | some a => exact Or.inl ⟨a, rfl⟩

theorem acquire_live {s : St} {a : Nat} {l : RawList} (hl : s.getAlloc a = some l)
    (hk : l.locked = false) :
    acquire s a = .ok (s.setAlloc a (some { l with locked := true }), l) := by
  unfold acquire; rw [hl]; simp [hk]

theorem unlockAt_live {s : St} {a : Nat} {l : RawList} (hl : s.getAlloc a = some l) :
    unlockAt s a = .ok (s.setAlloc a (some { l with locked := false })) := by
  unfold unlockAt; rw [hl]

/-- one `RawList` operation under `self`'s lock, from an unlocked live list -/
theorem withLock_eq {sz : Nat} {s : St} {h a : Nat} {l : RawList} (inv : Inv sz s)
    (hs : s.slots[h]? = some (some a)) (hl : s.getAlloc a = some l)
    (f : RawList → E (Out × RawList)) :
    withLock s h f =
      match f l with
      | .ok (o, l') => .ok (o, s.setAlloc a (some { l' with locked := false }))
      | .error e => .error e := by
  have hk := (inv.raw a l hl).2.1
  unfold withLock
  rw [slot_ok hs]
  simp only []
  rw [acquire_live hl hk]
  simp only []
  cases hf : f l with
  | error e => rfl
  | ok r =>
    obtain ⟨o, l'⟩ := r
    simp only [release, setAlloc_setAlloc]

/-- an observer leaves the store as it was -/
theorem withLock_read {sz : Nat} {s : St} {h a : Nat} {l : RawList} (inv : Inv sz s)
    (hs : s.slots[h]? = some (some a)) (hl : s.getAlloc a = some l) (o : Out) :
    withLock s h (fun l => .ok (o, l)) = .ok (o, s) ∧ True := by
  refine ⟨?_, trivial⟩
  rw [withLock_eq inv hs hl]
  simp only []
  rw [unlock_eq (inv.raw a l hl).2.1, setAlloc_self hl]

theorem Rel_update {s : St} {t : Spec} {a : Nat} {l l' : RawList} {lv : Nat}
    (rel : Rel s t) (hl : s.getAlloc a = some l) :
    Rel { (s.setAlloc a (some l')) with live := lv } { t with lists := t.lists.set a l'.elems } := by
  have hlt := (getAlloc_some_lt hl).1
  refine ⟨rel.slots, by simp [St.setAlloc, rel.len], ?_⟩
  intro b lb hb
  have hb' : (s.setAlloc a (some l')).getAlloc b = some lb := hb
  rw [getAlloc_setAlloc_live hl] at hb'
  show (t.lists.set a l'.elems)[b]? = some lb.elems
  rw [List.getElem?_set]
  by_cases hab : a = b
  · subst hab
    rw [if_pos rfl] at hb'
    injection hb' with hb'; subst hb'
    simp [rel.len, hlt]
  · rw [if_neg hab] at hb'
    simp only [hab, if_false]
    exact rel.lists b lb hb'


/-- `capacity` is the one result a vector's contents do not determine -/
def eraseCap : Op → Out → Out
  | .capacity _, .nat _ => .unit
  | _, o => o

/-- how many elements an operation brings in -/
def opSize : Op → Nat
  | .fromVec _ xs => xs.length
  | _ => 1

/-- the only way an operation panics: a `usize` capacity computation
    (`checked_add`, `checked_next_power_of_two`, `len += n`) overflows for a
    required length `k` that the lists' current contents account for -/
def PanicCond (s : St) (op : Op) : Prop :=
  ∃ k, usizeMax < nextPow2 k ∧ k ≤ 2 * s.live + opSize op

/-- frame of one step: allocations are never removed from the store nor
    revived, and a list that is alive afterwards was alive before with a
    capacity that was not larger -/
def CapMono (s s' : St) : Prop :=
  s.allocs.length ≤ s'.allocs.length ∧
  ∀ a l', a < s.allocs.length → s'.getAlloc a = some l' →
    ∃ l, s.getAlloc a = some l ∧ l.cap ≤ l'.cap

theorem CapMono_refl (s : St) : CapMono s s :=
  ⟨Nat.le_refl _, fun _ l' _ h => ⟨l', h, Nat.le_refl _⟩⟩

theorem CapMono_setAlloc {s : St} {a : Nat} {l l1 : RawList} {lv : Nat}
    (hl : s.getAlloc a = some l) (h : l.cap ≤ l1.cap) :
    CapMono s { (s.setAlloc a (some l1)) with live := lv } := by
  refine ⟨by simp [St.setAlloc], ?_⟩
  intro b lb' _ hb'
  have hb'' : (s.setAlloc a (some l1)).getAlloc b = some lb' := hb'
  rw [getAlloc_setAlloc_live hl] at hb''
  by_cases hab : a = b
  · subst hab
    rw [if_pos rfl] at hb''; injection hb'' with hb''
    exact ⟨l, hl, by rw [← hb'']; exact h⟩
  · rw [if_neg hab] at hb''
    exact ⟨lb', hb'', Nat.le_refl _⟩

/-- The one place where the list is not a vector. Both `==` answer `true`
    without looking at an element when the two operands are the same `Arc`
    (`Arc::ptr_eq`); a vector compares element by element. The two differ
    exactly when the list holds an element that is not equal to itself — a NaN
    in a `List[f64]`: `l == l` is `true`, `v == v` on the vector is `false`. -/
def ReflShortcut (t : Spec) : Op → Prop
  | .eq a b _ => ∃ x xs, t.vec a = some (x, xs) ∧ t.vec b = some (x, xs) ∧ listEq xs xs = false
  | _ => False

/-- the result is the shared vectors' result — or the step is the reflexive
    shortcut on a list holding a NaN and answers `true` -/
def OutOk (t : Spec) (op : Op) (o : Out) : Prop :=
  o = (specStep t op).1 ∨ (ReflShortcut t op ∧ o = .bool true)

/-- what one step must achieve -/
def Good (sz : Nat) (s : St) (t : Spec) (op : Op) : Prop :=
  ((step sz s op).1 = .fault .panic ∧ (step sz s op).2 = s ∧ PanicCond s op) ∨
  (OutOk t op (eraseCap op (step sz s op).1) ∧ Inv sz (step sz s op).2 ∧
    Rel (step sz s op).2 (specStep t op).2 ∧ CapMono s (step sz s op).2)

theorem good_of_ok' {sz : Nat} {s s' : St} {t : Spec} {op : Op} {o : Out}
    (h : stepE sz s op = .ok (o, s')) (ho : OutOk t op (eraseCap op o))
    (inv : Inv sz s') (rel : Rel s' (specStep t op).2) (cm : CapMono s s') : Good sz s t op := by
  refine Or.inr ?_
  unfold step
  rw [h]
  exact ⟨ho, inv, rel, cm⟩

theorem good_of_ok {sz : Nat} {s s' : St} {t : Spec} {op : Op} {o : Out}
    (h : stepE sz s op = .ok (o, s')) (ho : eraseCap op o = (specStep t op).1)
    (inv : Inv sz s') (rel : Rel s' (specStep t op).2) (cm : CapMono s s') : Good sz s t op :=
  good_of_ok' h (Or.inl ho) inv rel cm

theorem good_of_panic {sz : Nat} {s : St} {t : Spec} {op : Op}
    (h : stepE sz s op = .error .panic) (pc : PanicCond s op) : Good sz s t op := by
  refine Or.inl ?_
  unfold step
  rw [h]
  exact ⟨rfl, rfl, pc⟩

theorem good_of_bad {sz : Nat} {s : St} {t : Spec} {op : Op}
    (h : stepE sz s op = .error .badHandle) (hsp : specStep t op = (.fault .badHandle, t))
    (inv : Inv sz s) (rel : Rel s t) : Good sz s t op := by
  refine Or.inr ?_
  unfold step
  rw [h]
  unfold OutOk
  rw [hsp]
  refine ⟨Or.inl ?_, inv, rel, CapMono_refl s⟩
  cases op <;> rfl

theorem withLock_bad {s : St} {h : Nat} (hs : ∀ a, s.slots[h]? ≠ some (some a))
    (f : RawList → E (Out × RawList)) : withLock s h f = .error .badHandle := by
  unfold withLock; rw [slot_bad hs]

theorem withLock_read' {sz : Nat} {s : St} {h a : Nat} {l : RawList} (inv : Inv sz s)
    (hs : s.slots[h]? = some (some a)) (hl : s.getAlloc a = some l)
    {f : RawList → E (Out × RawList)} {o : Out} (hf : f l = .ok (o, l)) :
    withLock s h f = .ok (o, s) := by
  rw [withLock_eq inv hs hl, hf]
  simp only []
  rw [unlock_eq (inv.raw a l hl).2.1, setAlloc_self hl]

section ops
variable {sz : Nat} {s : St} {t : Spec}

theorem good_get (inv : Inv sz s) (rel : Rel s t) (h i : Nat) : Good sz s t (.get h i) := by
  rcases slot_dec s h with ⟨a, hs⟩ | hs
  · have ⟨l, hl⟩ := inv.slot h a hs
    have hw := (inv.raw a l hl).1.wf
    refine good_of_ok (o := .opt l.elems[i]?) (s' := s) ?_ ?_ ?_ ?_ (CapMono_refl s)
    · exact withLock_read' inv hs hl (by simp only [rawGet_eq hw])
    · simp only [specStep, vec_ok rel hs hl, eraseCap]
    · exact inv
    · simp only [specStep, vec_ok rel hs hl]; exact rel
  · exact good_of_bad (withLock_bad hs _) (by simp only [specStep, vec_bad rel hs]) inv rel

theorem good_len (inv : Inv sz s) (rel : Rel s t) (h : Nat) : Good sz s t (.len h) := by
  rcases slot_dec s h with ⟨a, hs⟩ | hs
  · have ⟨l, hl⟩ := inv.slot h a hs
    have hw := (inv.raw a l hl).1.wf
    refine good_of_ok (o := .nat l.len) (s' := s) ?_ ?_ ?_ ?_ (CapMono_refl s)
    · exact withLock_read' (f := fun l => .ok (.nat l.len, l)) inv hs hl rfl
    · simp only [specStep, vec_ok rel hs hl, eraseCap, hw]
    · exact inv
    · simp only [specStep, vec_ok rel hs hl]; exact rel
  · exact good_of_bad (withLock_bad hs (fun l => .ok (.nat l.len, l))) (by simp only [specStep, vec_bad rel hs]) inv rel

theorem good_isEmpty (inv : Inv sz s) (rel : Rel s t) (h : Nat) : Good sz s t (.isEmpty h) := by
  rcases slot_dec s h with ⟨a, hs⟩ | hs
  · have ⟨l, hl⟩ := inv.slot h a hs
    have hw := (inv.raw a l hl).1.wf
    refine good_of_ok (o := .bool (l.len == 0)) (s' := s) ?_ ?_ ?_ ?_ (CapMono_refl s)
    · exact withLock_read' (f := fun l => .ok (.bool (l.len == 0), l)) inv hs hl rfl
    · simp only [specStep, vec_ok rel hs hl, eraseCap]
      congr 1
      rw [← hw]
      cases l.elems <;> rfl
    · exact inv
    · simp only [specStep, vec_ok rel hs hl]; exact rel
  · exact good_of_bad (withLock_bad hs (fun l => .ok (.bool (l.len == 0), l))) (by simp only [specStep, vec_bad rel hs]) inv rel

theorem good_capacity (inv : Inv sz s) (rel : Rel s t) (h : Nat) : Good sz s t (.capacity h) := by
  rcases slot_dec s h with ⟨a, hs⟩ | hs
  · have ⟨l, hl⟩ := inv.slot h a hs
    refine good_of_ok (o := .nat l.cap) (s' := s) ?_ ?_ ?_ ?_ (CapMono_refl s)
    · exact withLock_read' (f := fun l => .ok (.nat l.cap, l)) inv hs hl rfl
    · simp only [specStep, vec_ok rel hs hl, eraseCap]
    · exact inv
    · simp only [specStep, vec_ok rel hs hl]; exact rel
  · exact good_of_bad (withLock_bad hs (fun l => .ok (.nat l.cap, l))) (by simp only [specStep, vec_bad rel hs]) inv rel

theorem good_contains (inv : Inv sz s) (rel : Rel s t) (h v : Nat) : Good sz s t (.contains h v) := by
  rcases slot_dec s h with ⟨a, hs⟩ | hs
  · have ⟨l, hl⟩ := inv.slot h a hs
    have hw := (inv.raw a l hl).1.wf
    refine good_of_ok (o := .bool (anyEq v l.elems)) (s' := s) ?_ ?_ ?_ ?_ (CapMono_refl s)
    · exact withLock_read' inv hs hl (by simp only [rawContains_eq hw])
    · simp only [specStep, vec_ok rel hs hl, eraseCap]
    · exact inv
    · simp only [specStep, vec_ok rel hs hl]; exact rel
  · exact good_of_bad (withLock_bad hs _) (by simp only [specStep, vec_bad rel hs]) inv rel

theorem good_index (inv : Inv sz s) (rel : Rel s t) (h v : Nat) : Good sz s t (.index h v) := by
  rcases slot_dec s h with ⟨a, hs⟩ | hs
  · have ⟨l, hl⟩ := inv.slot h a hs
    have hw := (inv.raw a l hl).1.wf
    refine good_of_ok (o := .opt (firstIdx v l.elems 0)) (s' := s) ?_ ?_ ?_ ?_ (CapMono_refl s)
    · exact withLock_read' inv hs hl (by simp only [rawIndex_eq hw])
    · simp only [specStep, vec_ok rel hs hl, eraseCap]
    · exact inv
    · simp only [specStep, vec_ok rel hs hl]; exact rel
  · exact good_of_bad (withLock_bad hs _) (by simp only [specStep, vec_bad rel hs]) inv rel

theorem good_toVec (inv : Inv sz s) (rel : Rel s t) (h : Nat) : Good sz s t (.toVec h) := by
  rcases slot_dec s h with ⟨a, hs⟩ | hs
  · have ⟨l, hl⟩ := inv.slot h a hs
    have hw := (inv.raw a l hl).1.wf
    refine good_of_ok (o := .vals l.elems) (s' := s) ?_ ?_ ?_ ?_ (CapMono_refl s)
    · exact withLock_read' inv hs hl (by simp only [readAll_eq hw])
    · simp only [specStep, vec_ok rel hs hl, eraseCap]
    · exact inv
    · simp only [specStep, vec_ok rel hs hl]; exact rel
  · exact good_of_bad (withLock_bad hs _) (by simp only [specStep, vec_bad rel hs]) inv rel

theorem good_join (inv : Inv sz s) (rel : Rel s t) (h : Nat) (sep : Str) : Good sz s t (.join h sep) := by
  rcases slot_dec s h with ⟨a, hs⟩ | hs
  · have ⟨l, hl⟩ := inv.slot h a hs
    have hw := (inv.raw a l hl).1.wf
    refine good_of_ok (o := .str (joinSpec (l.elems.map elemStr) sep)) (s' := s) ?_ ?_ ?_ ?_ (CapMono_refl s)
    · exact withLock_read' inv hs hl (by simp only [readAll_eq hw, join_body_eq])
    · simp only [specStep, vec_ok rel hs hl, eraseCap]
    · exact inv
    · simp only [specStep, vec_ok rel hs hl]; exact rel
  · exact good_of_bad (withLock_bad hs _) (by simp only [specStep, vec_bad rel hs]) inv rel

theorem good_iter (inv : Inv sz s) (rel : Rel s t) (h : Nat) : Good sz s t (.iter h) := by
  rcases slot_dec s h with ⟨a, hs⟩ | hs
  · have ⟨l, hl⟩ := inv.slot h a hs
    have hw := (inv.raw a l hl).1.wf
    refine good_of_ok (o := .vals l.elems) (s' := s) ?_ ?_ ?_ ?_ (CapMono_refl s)
    · refine withLock_read' inv hs hl ?_
      have := iterLoop_eq hw (l.len + 1) 0 (by omega) (by omega)
      simp only [this, List.drop_zero]
    · simp only [specStep, vec_ok rel hs hl, eraseCap]
    · exact inv
    · simp only [specStep, vec_ok rel hs hl]; exact rel
  · exact good_of_bad (withLock_bad hs _) (by simp only [specStep, vec_bad rel hs]) inv rel


theorem good_push (inv : Inv sz s) (rel : Rel s t) (h v : Nat) : Good sz s t (.push h v) := by
  rcases slot_dec s h with ⟨a, hs⟩ | hs
  · have ⟨l, hl⟩ := inv.slot h a hs
    have ⟨ok, hk, hrc, hpos⟩ := inv.raw a l hl
    cases hp : rawPush sz l v with
    | error f =>
      have hf := (rawPush_error hp ok).1
      subst hf
      refine good_of_panic ?_ ⟨l.len + 1, (rawPush_error hp ok).2, ?_⟩
      · simp only [stepE]
        rw [withLock_eq inv hs hl]
        simp only [hp]
      · have := len_le_live inv hl
        simp only [opSize]; omega
    | ok l1 =>
      have ⟨e1, e2, e3, e4, e5, ok1⟩ := rawPush_ok hp ok
      have hk1 : l1.locked = false := by rw [e3]; exact hk
      refine good_of_ok (o := .unit) (s' := { (s.setAlloc a (some l1)) with live := s.live + 1 }) ?_ ?_ ?_ ?_
        (CapMono_setAlloc hl e5)
      · simp only [stepE]
        rw [withLock_eq inv hs hl]
        simp only [hp]
        rw [unlock_eq hk1]
        rfl
      · simp only [specStep, vec_ok rel hs hl, eraseCap]
      · exact InvP_update inv hl ok1 hk1 e4 (by omega)
      · simp only [specStep, vec_ok rel hs hl]
        rw [← e1]
        exact Rel_update rel hl
  · refine good_of_bad ?_ (by simp only [specStep, vec_bad rel hs]) inv rel
    simp only [stepE]
    rw [withLock_bad hs]

theorem good_swap (inv : Inv sz s) (rel : Rel s t) (h i j : Nat) : Good sz s t (.swap h i j) := by
  rcases slot_dec s h with ⟨a, hs⟩ | hs
  · have ⟨l, hl⟩ := inv.slot h a hs
    have ⟨ok, hk, hrc, hpos⟩ := inv.raw a l hl
    have ⟨e1, e2, e3, e4, e5, ok1⟩ := rawSwap_ok i j ok
    have hk1 : (rawSwap l i j).locked = false := by rw [e4]; exact hk
    refine good_of_ok (o := .unit) (s' := { (s.setAlloc a (some (rawSwap l i j))) with live := s.live }) ?_ ?_ ?_ ?_
      (CapMono_setAlloc hl (by rw [e3]; exact Nat.le_refl _))
    · simp only [stepE]
      rw [withLock_eq inv hs hl]
      simp only []
      rw [unlock_eq hk1]
      rfl
    · simp only [specStep, vec_ok rel hs hl, eraseCap]
    · exact InvP_update inv hl ok1 hk1 e5 (by omega)
    · simp only [specStep, vec_ok rel hs hl]
      rw [← e1]
      exact Rel_update rel hl
  · exact good_of_bad (withLock_bad hs (fun l => .ok (.unit, rawSwap l i j))) (by simp only [specStep, vec_bad rel hs]) inv rel


/-- `slot[d] = <the pending handle to a>`, dropping what the variable held -/
theorem assign_ok {s : St} {a d : Nat} (inv : InvP sz s (some a)) :
    (s.slots.length ≤ d ∧ assign s d a = .error .badHandle) ∨
    (d < s.slots.length ∧ ∃ s', assign s d a = .ok s' ∧ Inv sz s' ∧
      s'.slots = s.slots.set d (some a) ∧ s'.allocs.length = s.allocs.length ∧
      (∀ b l', s'.getAlloc b = some l' → ∃ l, s.getAlloc b = some l ∧ l'.elems = l.elems ∧ l'.cap = l.cap)) := by
  unfold assign
  cases hd : s.slots[d]? with
  | none =>
    left
    refine ⟨?_, rfl⟩
    by_cases h : d < s.slots.length
    · rw [List.getElem?_eq_getElem h] at hd; cases hd
    · omega
  | some old =>
    right
    have hlt : d < s.slots.length := by
      by_cases h : d < s.slots.length
      · exact h
      · rw [List.getElem?_eq_none (by omega)] at hd; cases hd
    refine ⟨hlt, ?_⟩
    have inv1 := InvP_swapSlot inv hd
    cases old with
    | none =>
      exact ⟨_, rfl, inv1, rfl, rfl, fun b l' hb => ⟨l', hb, rfl, rfl⟩⟩
    | some o =>
      have ⟨s', h1, h2, h3, h4, h5, h6⟩ := dropHandle_ok inv1
      refine ⟨s', h1, h2, h3, h4, ?_⟩
      intro b l' hb
      by_cases hbo : b = o
      · subst hbo
        have ⟨l, hl, e1, _, e3⟩ := h6 l' hb
        exact ⟨l, hl, e1, e3⟩
      · rw [h5 b hbo] at hb
        exact ⟨l', hb, rfl, rfl⟩

/-- a fresh list bound to variable `d` (new / from / concat) -/
theorem bind_ok {l0 : RawList} (inv : Inv sz s) (rel : Rel s t) (ok : RawOk sz l0)
    (hk : l0.locked = false) (hrc : l0.rc = 1) (d lv : Nat) (hlv : lv = s.live + l0.len) :
    (assign { (s.pushAlloc l0) with live := lv } d s.allocs.length = .error .badHandle ∧
      t.bind d l0.elems = (.fault .badHandle, t)) ∨
    (∃ s', assign { (s.pushAlloc l0) with live := lv } d s.allocs.length = .ok s' ∧ Inv sz s' ∧
      (t.bind d l0.elems).1 = .unit ∧ Rel s' (t.bind d l0.elems).2 ∧ CapMono s s') := by
  subst hlv
  have invp := InvP_pushAlloc inv ok hk hrc
  rcases assign_ok invp with ⟨hge, hb⟩ | ⟨hlt, s', h1, h2, h3, h4, h5⟩
  · left
    refine ⟨hb, ?_⟩
    unfold Spec.bind
    have : ¬ d < t.slots.length := by rw [rel.slots]; exact Nat.not_lt.mpr hge
    rw [if_neg this]
  · right
    have hlt' : d < t.slots.length := by rw [rel.slots]; exact hlt
    refine ⟨s', h1, h2, ?_, ?_, ?_⟩
    · unfold Spec.bind; rw [if_pos hlt']
    · unfold Spec.bind; rw [if_pos hlt']
      refine ⟨?_, ?_, ?_⟩
      · show t.slots.set d (some t.lists.length) = s'.slots
        rw [h3, rel.slots, rel.len]; rfl
      · show (t.lists ++ [l0.elems]).length = s'.allocs.length
        rw [h4]; simp [St.pushAlloc, rel.len]
      · intro b l' hb
        have ⟨l, hl, e, _⟩ := h5 b l' hb
        have hl' : (s.pushAlloc l0).getAlloc b = some l := hl
        rw [getAlloc_pushAlloc] at hl'
        show (t.lists ++ [l0.elems])[b]? = some l'.elems
        by_cases hbn : b = s.allocs.length
        · rw [if_pos hbn] at hl'
          injection hl' with hl'; subst hl'
          rw [e, hbn, ← rel.len]; simp
        · rw [if_neg hbn] at hl'
          have hb2 := (getAlloc_some_lt hl').1
          rw [List.getElem?_append_left (by rw [rel.len]; exact hb2), e]
          exact rel.lists b l hl'
    · refine ⟨by rw [h4]; simp [St.pushAlloc], ?_⟩
      intro b lb' hbn hb'
      have ⟨l2, hl2, _, ec⟩ := h5 b lb' hb'
      have hl2' : (s.pushAlloc l0).getAlloc b = some l2 := hl2
      rw [getAlloc_pushAlloc, if_neg (by omega)] at hl2'
      exact ⟨l2, hl2', by rw [ec]; exact Nat.le_refl _⟩

theorem good_new (inv : Inv sz s) (rel : Rel s t) (d : Nat) : Good sz s t (.new d) := by
  have ⟨l0, h0, e1, e2, e3, e4, ok0⟩ := newRaw_ok sz
  rcases bind_ok inv rel ok0 e3 e4 d s.live (by omega) with ⟨hb, hsp⟩ | ⟨s', h1, h2, h3, h4, hcm⟩
  · rw [e2] at hsp
    refine good_of_bad ?_ hsp inv rel
    simp only [stepE, h0]
    have : ({ (s.pushAlloc l0) with live := s.live } : St) = s.pushAlloc l0 := rfl
    rw [this] at hb
    rw [hb]
  · rw [e2] at h3 h4
    refine good_of_ok (o := .unit) (s' := s') ?_ ?_ h2 h4 hcm
    · simp only [stepE, h0]
      have : ({ (s.pushAlloc l0) with live := s.live } : St) = s.pushAlloc l0 := rfl
      rw [this] at h1
      rw [h1]
    · simp only [specStep, eraseCap]; exact h3.symm

theorem good_fromVec (inv : Inv sz s) (rel : Rel s t) (d : Nat) (xs : List Nat) :
    Good sz s t (.fromVec d xs) := by
  have ⟨l0, h0, e1, e2, e3, e4, ok0⟩ := newRaw_ok sz
  cases hp : pushAll sz l0 xs with
  | error f =>
    have ⟨hf, k, hk1, hk2⟩ := pushAll_error xs hp ok0
    subst hf
    refine good_of_panic ?_ ⟨l0.len + k, hk2, ?_⟩
    · simp only [stepE, h0, hp]
    · simp only [opSize]; omega
  | ok l1 =>
    have ⟨f1, f2, f3, f4, ok1⟩ := pushAll_ok xs hp ok0
    have hel : l1.elems = xs := by rw [f1, e2]; rfl
    rcases bind_ok inv rel ok1 (by rw [f3]; exact e3) (by rw [f4]; exact e4) d (s.live + xs.length)
        (by rw [f2, e1]; omega) with ⟨hb, hsp⟩ | ⟨s', h1, h2, h3, h4, hcm⟩
    · rw [hel] at hsp
      refine good_of_bad ?_ hsp inv rel
      simp only [stepE, h0, hp]
      rw [hb]
    · rw [hel] at h3 h4
      refine good_of_ok (o := .unit) (s' := s') ?_ ?_ h2 h4 hcm
      · simp only [stepE, h0, hp]
        rw [h1]
      · simp only [specStep, eraseCap]; exact h3.symm

theorem good_cloneH (inv : Inv sz s) (rel : Rel s t) (d src : Nat) : Good sz s t (.cloneH d src) := by
  rcases slot_dec s src with ⟨a, hs⟩ | hs
  · have ⟨l, hl⟩ := inv.slot src a hs
    have invp := InvP_incRc inv hl
    rcases assign_ok invp with ⟨hge, hb⟩ | ⟨hlt, s', h1, h2, h3, h4, h5⟩
    · refine good_of_bad ?_ ?_ inv rel
      · simp only [stepE, slot_ok hs, hl]
        rw [hb]
      · simp only [specStep, vec_ok rel hs hl]
        have : ¬ d < t.slots.length := by
          rw [rel.slots]; exact Nat.not_lt.mpr hge
        rw [if_neg this]
    · have hlt' : d < t.slots.length := by rw [rel.slots]; exact hlt
      refine good_of_ok (o := .unit) (s' := s') ?_ ?_ h2 ?_ ?_
      · simp only [stepE, slot_ok hs, hl]
        rw [h1]
      · simp only [specStep, vec_ok rel hs hl, eraseCap]
        rw [if_pos hlt']
      · simp only [specStep, vec_ok rel hs hl]
        rw [if_pos hlt']
        refine ⟨?_, ?_, ?_⟩
        · show t.slots.set d (some a) = s'.slots
          rw [h3, rel.slots]; rfl
        · show t.lists.length = s'.allocs.length
          rw [h4, rel.len]; simp [St.setAlloc]
        · intro b l' hb
          have ⟨l2, hl2, e, _⟩ := h5 b l' hb
          rw [getAlloc_setAlloc_live hl] at hl2
          show t.lists[b]? = some l'.elems
          by_cases hab : a = b
          · subst hab
            rw [if_pos rfl] at hl2
            injection hl2 with hl2; subst hl2
            rw [e]; exact rel.lists a l hl
          · rw [if_neg hab] at hl2
            rw [e]; exact rel.lists b l2 hl2
      · refine ⟨by rw [h4]; simp [St.setAlloc], ?_⟩
        intro b lb' _ hb'
        have ⟨l2, hl2, _, ec⟩ := h5 b lb' hb'
        rw [getAlloc_setAlloc_live hl] at hl2
        by_cases hab : a = b
        · subst hab
          rw [if_pos rfl] at hl2
          injection hl2 with hl2; subst hl2
          exact ⟨l, hl, by rw [ec]; exact Nat.le_refl _⟩
        · rw [if_neg hab] at hl2
          exact ⟨l2, hl2, by rw [ec]; exact Nat.le_refl _⟩
  · refine good_of_bad ?_ (by simp only [specStep, vec_bad rel hs]) inv rel
    simp only [stepE, slot_bad hs]

theorem good_dropH (inv : Inv sz s) (rel : Rel s t) (h : Nat) : Good sz s t (.dropH h) := by
  rcases slot_dec s h with ⟨a, hs⟩ | hs
  · have ⟨l, hl⟩ := inv.slot h a hs
    have invp : InvP sz { s with slots := s.slots.set h none } (some a) := InvP_swapSlot inv hs
    have ⟨s', h1, h2, h3, h4, h5, h6⟩ := dropHandle_ok invp
    refine good_of_ok (o := .unit) (s' := s') ?_ ?_ h2 ?_ ?_
    · simp only [stepE, slot_ok hs]
      rw [h1]
    · simp only [specStep, vec_ok rel hs hl, eraseCap]
    · simp only [specStep, vec_ok rel hs hl]
      refine ⟨?_, ?_, ?_⟩
      · show t.slots.set h none = s'.slots
        rw [h3, rel.slots]
      · show t.lists.length = s'.allocs.length
        rw [h4, rel.len]
      · intro b l' hb
        show t.lists[b]? = some l'.elems
        by_cases hbo : b = a
        · subst hbo
          have ⟨l2, hl2, e1, _, _⟩ := h6 l' hb
          rw [e1]; exact rel.lists b l2 hl2
        · rw [h5 b hbo] at hb
          exact rel.lists b l' hb
    · refine ⟨by rw [h4]; exact Nat.le_refl _, ?_⟩
      intro b lb' _ hb'
      by_cases hbo : b = a
      · subst hbo
        have ⟨l2, hl2, _, _, ec⟩ := h6 lb' hb'
        have hl2' : s.getAlloc b = some l2 := hl2
        exact ⟨l2, hl2', by rw [ec]; exact Nat.le_refl _⟩
      · rw [h5 b hbo] at hb'
        have hb'' : s.getAlloc b = some lb' := hb'
        exact ⟨lb', hb'', Nat.le_refl _⟩
  · refine good_of_bad ?_ (by simp only [specStep, vec_bad rel hs]) inv rel
    simp only [stepE, slot_bad hs]


theorem setAlloc_comm (s : St) {x y : Nat} (h : x ≠ y) (v w : Option RawList) :
    (s.setAlloc x v).setAlloc y w = (s.setAlloc y w).setAlloc x v := by
  unfold St.setAlloc
  simp only [List.set_comm _ _ h]

/-- `==` with lock targets `[self, other]`, compared guards `(0, 1)`, shortcut first:
    never dead-locks, leaves the store as it was, answers list equality -/
theorem eqWith_ok (inv : Inv sz s) {x y : Nat} {lx ly : RawList}
    (hx : s.getAlloc x = some lx) (hy : s.getAlloc y = some ly)
    (cmp : RawList → RawList → E Bool) {r : Bool}
    (hcmp : cmp { lx with locked := true } { ly with locked := true } = .ok r) :
    eqWith true [.self_, .other] (0, 1) cmp s x y = .ok (.bool (if x = y then true else r), s) := by
  unfold eqWith
  by_cases hxy : x = y
  · subst hxy
    simp
  · rw [if_neg hxy]
    have hne : (x == y) = false := by simp [hxy]
    simp only [hne, Bool.and_false, Bool.false_eq_true, if_false, List.map, resolve]
    have hkx := (inv.raw x lx hx).2.1
    have hky := (inv.raw y ly hy).2.1
    -- lock x, lock y
    have a1 : acquire s x = .ok (s.setAlloc x (some { lx with locked := true }), lx) := acquire_live hx hkx
    have g1 : (s.setAlloc x (some { lx with locked := true })).getAlloc y = some ly := by
      rw [getAlloc_setAlloc_live hx, if_neg hxy]; exact hy
    have a2 := acquire_live g1 hky
    simp only [acquireAll, a1, a2]
    -- the two guards
    have g2x : ((s.setAlloc x (some { lx with locked := true })).setAlloc y (some { ly with locked := true })).getAlloc x
        = some { lx with locked := true } := by
      rw [getAlloc_setAlloc_live g1, if_neg (Ne.symm hxy), getAlloc_setAlloc_live hx, if_pos rfl]
    have g2y : ((s.setAlloc x (some { lx with locked := true })).setAlloc y (some { ly with locked := true })).getAlloc y
        = some { ly with locked := true } := by
      rw [getAlloc_setAlloc_live g1, if_pos rfl]
    simp only [List.getElem?_cons_zero, List.getElem?_cons_succ, g2x, g2y, hcmp, List.reverse_cons,
      List.reverse_nil, List.nil_append, List.cons_append]
    -- unlock y, unlock x
    have u1 := unlockAt_live g2y
    have g3x : (((s.setAlloc x (some { lx with locked := true })).setAlloc y (some { ly with locked := true })).setAlloc y
        (some { ({ ly with locked := true } : RawList) with locked := false })).getAlloc x = some { lx with locked := true } := by
      rw [getAlloc_setAlloc_live g2y, if_neg (Ne.symm hxy)]; exact g2x
    have u2 := unlockAt_live g3x
    simp only [unlockAll, u1, u2]
    -- the store is back where it was
    have e1 : ({ ({ lx with locked := true } : RawList) with locked := false } : RawList) = lx := by
      cases lx; simp at hkx; subst hkx; rfl
    have e2 : ({ ({ ly with locked := true } : RawList) with locked := false } : RawList) = ly := by
      cases ly; simp at hky; subst hky; rfl
    rw [e1, e2, setAlloc_setAlloc, setAlloc_comm _ (Ne.symm hxy), setAlloc_setAlloc, setAlloc_self hx,
      setAlloc_self hy]

/-- the same with the locks taken in the other order (`other` first): the
    address-ordered form of `ErasedList::eq` -/
theorem eqWith_ok_rev (inv : Inv sz s) {x y : Nat} {lx ly : RawList}
    (hx : s.getAlloc x = some lx) (hy : s.getAlloc y = some ly)
    (cmp : RawList → RawList → E Bool) {r : Bool}
    (hcmp : cmp { lx with locked := true } { ly with locked := true } = .ok r) :
    eqWith true [.other, .self_] (1, 0) cmp s x y = .ok (.bool (if x = y then true else r), s) := by
  unfold eqWith
  by_cases hxy : x = y
  · subst hxy
    simp
  · rw [if_neg hxy]
    have hne : (x == y) = false := by simp [hxy]
    simp only [hne, Bool.and_false, Bool.false_eq_true, if_false, List.map, resolve]
    have hkx := (inv.raw x lx hx).2.1
    have hky := (inv.raw y ly hy).2.1
    have hyx : y ≠ x := Ne.symm hxy
    have a1 : acquire s y = .ok (s.setAlloc y (some { ly with locked := true }), ly) := acquire_live hy hky
    have g1 : (s.setAlloc y (some { ly with locked := true })).getAlloc x = some lx := by
      rw [getAlloc_setAlloc_live hy, if_neg hyx]; exact hx
    have a2 := acquire_live g1 hkx
    simp only [acquireAll, a1, a2]
    have g2y : ((s.setAlloc y (some { ly with locked := true })).setAlloc x (some { lx with locked := true })).getAlloc y
        = some { ly with locked := true } := by
      rw [getAlloc_setAlloc_live g1, if_neg hxy, getAlloc_setAlloc_live hy, if_pos rfl]
    have g2x : ((s.setAlloc y (some { ly with locked := true })).setAlloc x (some { lx with locked := true })).getAlloc x
        = some { lx with locked := true } := by
      rw [getAlloc_setAlloc_live g1, if_pos rfl]
    simp only [List.getElem?_cons_zero, List.getElem?_cons_succ, g2x, g2y, hcmp, List.reverse_cons,
      List.reverse_nil, List.nil_append, List.cons_append]
    have u1 := unlockAt_live g2x
    have g3y : (((s.setAlloc y (some { ly with locked := true })).setAlloc x (some { lx with locked := true })).setAlloc x
        (some { ({ lx with locked := true } : RawList) with locked := false })).getAlloc y = some { ly with locked := true } := by
      rw [getAlloc_setAlloc_live g2x, if_neg hxy]; exact g2y
    have u2 := unlockAt_live g3y
    simp only [unlockAll, u1, u2]
    have e1 : ({ ({ lx with locked := true } : RawList) with locked := false } : RawList) = lx := by
      cases lx; simp at hkx; subst hkx; rfl
    have e2 : ({ ({ ly with locked := true } : RawList) with locked := false } : RawList) = ly := by
      cases ly; simp at hky; subst hky; rfl
    rw [e1, e2, setAlloc_setAlloc, setAlloc_comm _ hxy, setAlloc_setAlloc, setAlloc_self hy,
      setAlloc_self hx]

/-- `List<T>::eq` with the generated lock facts (`[self, other]`, or ordered by
    address): never dead-locks, restores the store, answers list equality. With
    the pinned tree's `[self, self]` the `decide`d facts below are false and
    this — hence every theorem of the property — stops checking. -/
theorem typedEq_ok (inv : Inv sz s) {x y : Nat} {lx ly : RawList}
    (hx : s.getAlloc x = some lx) (hy : s.getAlloc y = some ly) :
    typedEq s x y = .ok (.bool (if x = y then true else listEq lx.elems ly.elems), s) := by
  have wx := (inv.raw x lx hx).1.wf
  have wy := (inv.raw y ly hy).1.wf
  have hc := rawEqTyped_eq (a := { lx with locked := true }) (b := { ly with locked := true }) wx wy
  have hlt : Gen.ListLocks.typedEqShortcut = true ∧ Gen.ListLocks.typedEqLocksLt = [.self_, .other] ∧
      Gen.ListLocks.typedEqCompareLt = (0, 1) := by decide
  have hge : (Gen.ListLocks.typedEqLocksGe = [.self_, .other] ∧ Gen.ListLocks.typedEqCompareGe = (0, 1)) ∨
      (Gen.ListLocks.typedEqLocksGe = [.other, .self_] ∧ Gen.ListLocks.typedEqCompareGe = (1, 0)) := by decide
  unfold typedEq
  rw [hlt.1, hlt.2.1, hlt.2.2]
  split
  · exact eqWith_ok inv hx hy _ hc
  · rcases hge with ⟨h1, h2⟩ | ⟨h1, h2⟩
    · rw [h1, h2]; exact eqWith_ok inv hx hy _ hc
    · rw [h1, h2]; exact eqWith_ok_rev inv hx hy _ hc

/-- `ErasedList::eq` with the generated lock facts — sequential `[self, other]`,
    or ordered by address (`[other, self]` when `self` is not below `other`) —
    never dead-locks, restores the store, answers list equality -/
theorem erasedEq_ok (inv : Inv sz s) {x y : Nat} {lx ly : RawList}
    (hx : s.getAlloc x = some lx) (hy : s.getAlloc y = some ly) :
    erasedEq s x y = .ok (.bool (if x = y then true else listEq lx.elems ly.elems), s) := by
  have wx := (inv.raw x lx hx).1.wf
  have wy := (inv.raw y ly hy).1.wf
  have hc := rawEqErased_eq (a := { lx with locked := true }) (b := { ly with locked := true }) wx wy
  have hlt : Gen.ListLocks.erasedEqShortcut = true ∧ Gen.ListLocks.erasedEqLocksLt = [.self_, .other] ∧
      Gen.ListLocks.erasedEqCompareLt = (0, 1) := by decide
  have hge : (Gen.ListLocks.erasedEqLocksGe = [.self_, .other] ∧ Gen.ListLocks.erasedEqCompareGe = (0, 1)) ∨
      (Gen.ListLocks.erasedEqLocksGe = [.other, .self_] ∧ Gen.ListLocks.erasedEqCompareGe = (1, 0)) := by decide
  unfold erasedEq
  rw [hlt.1, hlt.2.1, hlt.2.2]
  split
  · exact eqWith_ok inv hx hy _ hc
  · rcases hge with ⟨h1, h2⟩ | ⟨h1, h2⟩
    · rw [h1, h2]; exact eqWith_ok inv hx hy _ hc
    · rw [h1, h2]; exact eqWith_ok_rev inv hx hy _ hc

theorem good_eq (inv : Inv sz s) (rel : Rel s t) (a b : Nat) (typed : Bool) :
    Good sz s t (.eq a b typed) := by
  rcases slot_dec s a with ⟨x, hsa⟩ | hsa
  · rcases slot_dec s b with ⟨y, hsb⟩ | hsb
    · have ⟨lx, hx⟩ := inv.slot a x hsa
      have ⟨ly, hy⟩ := inv.slot b y hsb
      have wx := (inv.raw x lx hx).1.wf
      have wy := (inv.raw y ly hy).1.wf
      refine good_of_ok' (o := .bool (if x = y then true else listEq lx.elems ly.elems)) (s' := s) ?_ ?_ inv ?_
        (CapMono_refl s)
      · simp only [stepE, slot_ok hsa, slot_ok hsb]
        cases typed with
        | true =>
          simp only [if_true]
          exact typedEq_ok inv hx hy
        | false =>
          simp only [Bool.false_eq_true, if_false]
          exact erasedEq_ok inv hx hy
      · by_cases hxy : x = y
        · subst hxy
          rw [hx] at hy; injection hy with hy; subst hy
          cases hq : listEq lx.elems lx.elems with
          | true =>
            refine Or.inl ?_
            simp only [specStep, vec_ok rel hsa hx, vec_ok rel hsb hx, eraseCap, if_true, hq]
          | false =>
            refine Or.inr ⟨⟨x, lx.elems, vec_ok rel hsa hx, vec_ok rel hsb hx, hq⟩, ?_⟩
            simp only [eraseCap, if_true]
        · refine Or.inl ?_
          simp only [specStep, vec_ok rel hsa hx, vec_ok rel hsb hy, eraseCap, if_neg hxy]
      · simp only [specStep, vec_ok rel hsa hx, vec_ok rel hsb hy]; exact rel
    · refine good_of_bad ?_ ?_ inv rel
      · simp only [stepE, slot_ok hsa, slot_bad hsb]
      · have ⟨lx, hx⟩ := inv.slot a x hsa
        simp only [specStep, vec_ok rel hsa hx, vec_bad rel hsb]
  · refine good_of_bad ?_ ?_ inv rel
    · simp only [stepE, slot_bad hsa]
    · simp only [specStep, vec_bad rel hsa]


theorem set_self_of_getElem? {α : Type} {xs : List α} {i : Nat} {v : α} (h : xs[i]? = some v) :
    xs.set i v = xs := by
  apply List.ext_getElem?
  intro j
  rw [List.getElem?_set]
  by_cases hij : i = j
  · subst hij
    have hlt : i < xs.length := by
      by_cases hl : i < xs.length
      · exact hl
      · rw [List.getElem?_eq_none (by omega)] at h; cases h
    rw [List.getElem?_eq_getElem hlt] at h
    injection h with h
    simp [hlt, h]
  · simp [hij]

/-- the nine statements of `concat` leave exactly one new allocation behind -/
theorem concat_allocs (S : List (Option RawList)) (x y : Nat)
    (Lx lx Ly ly l0 L0 ln1 ln2 ln : Option RawList)
    (hx : x < S.length) (hy : y < S.length) (gx : S[x]? = some lx) (gy : S[y]? = some ly) :
    (((((((((S.set x Lx) ++ [l0]).set S.length L0).set S.length ln1).set x lx).set y Ly).set
      S.length ln2).set y ly).set S.length ln) = S ++ [ln] := by
  simp [List.set_append, hx, hy]
  by_cases hxy : x = y
  · subst hxy
    simp [set_self_of_getElem? gy]
  · rw [set_self_of_getElem? gx, set_self_of_getElem? gy]

theorem concatRun_cons_ok {x y : Nat} {c c1 : St × Option Nat} {st : CStep} {rest : List CStep}
    (h : concatStep sz x y c st = .ok c1) :
    concatRun sz x y c (st :: rest) = concatRun sz x y c1 rest := by
  simp only [concatRun, h]

theorem concatRun_cons_err {x y : Nat} {c : St × Option Nat} {st : CStep} {rest : List CStep} {f : Fault}
    (h : concatStep sz x y c st = .error f) :
    concatRun sz x y c (st :: rest) = .error f := by
  simp only [concatRun, h]

theorem RawOk_locked {l : RawList} (ok : RawOk sz l) (b : Bool) : RawOk sz { l with locked := b } :=
  ⟨ok.wf, ok.le, ok.bound, ok.zst, ok.shape⟩

/-- `concat` that locks its operands one after the other (`drop(a)` before `other.lock()`) -/
def seqSteps : List CStep :=
  [.lock .self_, .allocNew, .lockNew, .extendFrom .self_, .unlock .self_, .lock .other,
   .extendFrom .other, .unlock .other, .unlockNew]

/-- `concat` that keeps both operands locked: both are the same list -/
def sameSteps : List CStep :=
  [.lock .self_, .allocNew, .lockNew, .extendFrom .self_, .extendFrom .self_, .unlockNew, .unlock .self_]

/-- … distinct lists, after both were locked (in either order) -/
def bothTail : List CStep :=
  [.allocNew, .lockNew, .extendFrom .self_, .extendFrom .other, .unlockNew, .unlock .other, .unlock .self_]

def ltSteps : List CStep := .lock .self_ :: .lock .other :: bothTail
def geSteps : List CStep := .lock .other :: .lock .self_ :: bothTail

/-- `ErasedList::concat` as written (generated statement order): no dead-lock
    for any pair of operands (also `l.concat(&l)`), operands restored, the new
    list holds `self ++ other` -/
theorem concat_ok_seq (inv : Inv sz s) {x y : Nat} {lx ly : RawList}
    (hx : s.getAlloc x = some lx) (hy : s.getAlloc y = some ly) :
    (concatRun sz x y (s, none) seqSteps = .error .panic ∧
      ∃ k, usizeMax < nextPow2 k ∧ k ≤ lx.len + ly.len) ∨
    ∃ ln, concatRun sz x y (s, none) seqSteps =
        .ok ({ (s.pushAlloc ln) with live := s.live + lx.len + ly.len }, some s.allocs.length) ∧
      ln.elems = lx.elems ++ ly.elems ∧ ln.len = lx.len + ly.len ∧ RawOk sz ln ∧
      ln.locked = false ∧ ln.rc = 1 := by
  unfold seqSteps
  have ⟨hxn, gx⟩ := getAlloc_some_lt hx
  have ⟨hyn, gy⟩ := getAlloc_some_lt hy
  have ⟨okx, kx, _, _⟩ := inv.raw x lx hx
  have ⟨oky, ky, _, _⟩ := inv.raw y ly hy
  have ⟨l0, h0, e01, e02, e03, e04, ok0⟩ := newRaw_ok sz
  have elx : ({ ({ lx with locked := true } : RawList) with locked := false } : RawList) = lx := by
    cases lx; simp at kx; subst kx; rfl
  have ely : ({ ({ ly with locked := true } : RawList) with locked := false } : RawList) = ly := by
    cases ly; simp at ky; subst ky; rfl
  -- 1. lock self
  obtain ⟨S1, hS1⟩ : ∃ S1, S1 = s.setAlloc x (some { lx with locked := true }) := ⟨_, rfl⟩
  have st1 : concatStep sz x y (s, none) (.lock .self_) = .ok (S1, none) := by
    simp only [concatStep, resolve, acquire_live hx kx, hS1]
  have g1 : ∀ b, S1.getAlloc b = if x = b then some { lx with locked := true } else s.getAlloc b := by
    intro b; rw [hS1]; exact getAlloc_setAlloc_live hx _ b
  have len1 : S1.allocs.length = s.allocs.length := by rw [hS1]; simp [St.setAlloc]
  rw [concatRun_cons_ok st1]
  -- 2. new list
  obtain ⟨S2, hS2⟩ : ∃ S2, S2 = S1.pushAlloc l0 := ⟨_, rfl⟩
  have st2 : concatStep sz x y (S1, none) .allocNew = .ok (S2, some s.allocs.length) := by
    simp only [concatStep, h0, len1, hS2]
  have g2 : ∀ b, S2.getAlloc b = if b = s.allocs.length then some l0 else S1.getAlloc b := by
    intro b; rw [hS2, getAlloc_pushAlloc, len1]
  rw [concatRun_cons_ok st2]
  -- 3. lock the new list
  have g2n : S2.getAlloc s.allocs.length = some l0 := by rw [g2, if_pos rfl]
  obtain ⟨S3, hS3⟩ : ∃ S3, S3 = S2.setAlloc s.allocs.length (some { l0 with locked := true }) := ⟨_, rfl⟩
  have st3 : concatStep sz x y (S2, some s.allocs.length) .lockNew = .ok (S3, some s.allocs.length) := by
    simp only [concatStep, acquire_live g2n e03, hS3]
  have g3 : ∀ b, S3.getAlloc b = if s.allocs.length = b then some { l0 with locked := true } else S2.getAlloc b := by
    intro b; rw [hS3]; exact getAlloc_setAlloc_live g2n _ b
  rw [concatRun_cons_ok st3]
  -- 4. extend from self
  have hnx : s.allocs.length ≠ x := by omega
  have hny : s.allocs.length ≠ y := by omega
  have g3n : S3.getAlloc s.allocs.length = some { l0 with locked := true } := by rw [g3, if_pos rfl]
  have g3x : S3.getAlloc x = some { lx with locked := true } := by
    rw [g3, if_neg hnx, g2, if_neg (Ne.symm hnx), g1, if_pos rfl]
  cases he1 : rawExtend sz { l0 with locked := true } { lx with locked := true } with
  | error f =>
    left
    have ⟨hf, hb⟩ := rawExtend_error he1 (RawOk_locked ok0 true) (RawOk_locked okx true)
    subst hf
    refine ⟨?_, l0.len + lx.len, hb, by rw [e01]; omega⟩
    apply concatRun_cons_err
    simp only [concatStep, resolve, g3n, g3x, he1]
    simp
  | ok ln1 =>
    have ⟨x1, x2, x3, x4, _, ok1⟩ := rawExtend_ok he1 (RawOk_locked ok0 true) (RawOk_locked okx true)
    obtain ⟨S4, hS4⟩ : ∃ S4, S4 = ({ (S3.setAlloc s.allocs.length (some ln1)) with live := S3.live + lx.len } : St) := ⟨_, rfl⟩
    have st4 : concatStep sz x y (S3, some s.allocs.length) (.extendFrom .self_) = .ok (S4, some s.allocs.length) := by
      simp only [concatStep, resolve, g3n, g3x, he1, hS4, extend_clone_count_eq]
      simp
    have g4 : ∀ b, S4.getAlloc b = if s.allocs.length = b then some ln1 else S3.getAlloc b := by
      intro b; rw [hS4]; exact getAlloc_setAlloc_live g3n _ b
    rw [concatRun_cons_ok st4]
    -- 5. drop(a)
    have g4x : S4.getAlloc x = some { lx with locked := true } := by rw [g4, if_neg hnx]; exact g3x
    obtain ⟨S5, hS5⟩ : ∃ S5, S5 = S4.setAlloc x (some lx) := ⟨_, rfl⟩
    have st5 : concatStep sz x y (S4, some s.allocs.length) (.unlock .self_) = .ok (S5, some s.allocs.length) := by
      simp only [concatStep, resolve, unlockAt_live g4x, elx, hS5]
    have g5 : ∀ b, S5.getAlloc b = if x = b then some lx else S4.getAlloc b := by
      intro b; rw [hS5]; exact getAlloc_setAlloc_live g4x _ b
    rw [concatRun_cons_ok st5]
    -- 6. lock other
    have g5y : S5.getAlloc y = some ly := by
      rw [g5]
      by_cases hxy : x = y
      · rw [if_pos hxy]; subst hxy; rw [hx] at hy; exact hy
      · rw [if_neg hxy, g4, if_neg hny, g3, if_neg hny, g2, if_neg (Ne.symm hny), g1, if_neg hxy]; exact hy
    obtain ⟨S6, hS6⟩ : ∃ S6, S6 = S5.setAlloc y (some { ly with locked := true }) := ⟨_, rfl⟩
    have st6 : concatStep sz x y (S5, some s.allocs.length) (.lock .other) = .ok (S6, some s.allocs.length) := by
      simp only [concatStep, resolve, acquire_live g5y ky, hS6]
    have g6 : ∀ b, S6.getAlloc b = if y = b then some { ly with locked := true } else S5.getAlloc b := by
      intro b; rw [hS6]; exact getAlloc_setAlloc_live g5y _ b
    rw [concatRun_cons_ok st6]
    -- 7. extend from other
    have g6n : S6.getAlloc s.allocs.length = some ln1 := by
      rw [g6, if_neg (Ne.symm hny), g5, if_neg (Ne.symm hnx), g4, if_pos rfl]
    have g6y : S6.getAlloc y = some { ly with locked := true } := by rw [g6, if_pos rfl]
    have k1 : ln1.locked = true := x3
    cases he2 : rawExtend sz ln1 { ly with locked := true } with
    | error f =>
      left
      have ⟨hf, hb⟩ := rawExtend_error he2 ok1 (RawOk_locked oky true)
      subst hf
      refine ⟨?_, ln1.len + ly.len, hb, by rw [x2, e01]; simp⟩
      apply concatRun_cons_err
      simp only [concatStep, resolve, g6n, g6y, he2]
      simp [k1]
    | ok ln2 =>
      have ⟨y1, y2, y3, y4, _, ok2⟩ := rawExtend_ok he2 ok1 (RawOk_locked oky true)
      obtain ⟨S7, hS7⟩ : ∃ S7, S7 = ({ (S6.setAlloc s.allocs.length (some ln2)) with live := S6.live + ly.len } : St) := ⟨_, rfl⟩
      have st7 : concatStep sz x y (S6, some s.allocs.length) (.extendFrom .other) = .ok (S7, some s.allocs.length) := by
        simp only [concatStep, resolve, g6n, g6y, he2, hS7, extend_clone_count_eq]
        simp [k1]
      have g7 : ∀ b, S7.getAlloc b = if s.allocs.length = b then some ln2 else S6.getAlloc b := by
        intro b; rw [hS7]; exact getAlloc_setAlloc_live g6n _ b
      rw [concatRun_cons_ok st7]
      -- 8. drop(b)
      have g7y : S7.getAlloc y = some { ly with locked := true } := by rw [g7, if_neg hny]; exact g6y
      obtain ⟨S8, hS8⟩ : ∃ S8, S8 = S7.setAlloc y (some ly) := ⟨_, rfl⟩
      have st8 : concatStep sz x y (S7, some s.allocs.length) (.unlock .other) = .ok (S8, some s.allocs.length) := by
        simp only [concatStep, resolve, unlockAt_live g7y, ely, hS8]
      have g8 : ∀ b, S8.getAlloc b = if y = b then some ly else S7.getAlloc b := by
        intro b; rw [hS8]; exact getAlloc_setAlloc_live g7y _ b
      rw [concatRun_cons_ok st8]
      -- 9. drop(raw)
      have g8n : S8.getAlloc s.allocs.length = some ln2 := by
        rw [g8, if_neg (Ne.symm hny), g7, if_pos rfl]
      obtain ⟨S9, hS9⟩ : ∃ S9, S9 = S8.setAlloc s.allocs.length (some { ln2 with locked := false }) := ⟨_, rfl⟩
      have st9 : concatStep sz x y (S8, some s.allocs.length) .unlockNew = .ok (S9, some s.allocs.length) := by
        simp only [concatStep, unlockAt_live g8n, hS9]
      rw [concatRun_cons_ok st9]
      right
      refine ⟨{ ln2 with locked := false }, ?_, ?_, ?_, RawOk_locked ok2 false, rfl, ?_⟩
      · simp only [concatRun]
        congr 1
        congr 1
        -- the final store, field by field
        have hslots : S9.slots = s.slots := by
          rw [hS9, hS8, hS7, hS6, hS5, hS4, hS3, hS2, hS1]; rfl
        have hlive : S9.live = s.live + lx.len + ly.len := by
          rw [hS9, hS8, hS7, hS6, hS5, hS4, hS3, hS2, hS1]; rfl
        have hallocs : S9.allocs = s.allocs ++ [some { ln2 with locked := false }] := by
          rw [hS9, hS8, hS7, hS6, hS5, hS4, hS3, hS2, hS1]
          exact concat_allocs s.allocs x y _ _ _ _ _ _ _ _ _ hxn hyn gx gy
        cases S9
        simp only at hslots hlive hallocs
        subst hslots hlive hallocs
        rfl
      · show ln2.elems = lx.elems ++ ly.elems
        rw [y1, x1, e02]; rfl
      · show ln2.len = lx.len + ly.len
        rw [y2, x2, e01]; simp
      · show ln2.rc = 1
        rw [y4, x4]; exact e04



theorem concat_allocs_same (S : List (Option RawList)) (x : Nat)
    (Lx lx l0 L0 ln1 ln2 ln : Option RawList)
    (hx : x < S.length) (gx : S[x]? = some lx) :
    ((((((((S.set x Lx) ++ [l0]).set S.length L0).set S.length ln1).set S.length ln2).set S.length ln).set x lx))
      = S ++ [ln] := by
  simp [List.set_append, hx]
  exact set_self_of_getElem? gx

theorem concat_allocs_both (S : List (Option RawList)) (x y : Nat)
    (Lx lx Ly ly l0 L0 ln1 ln2 ln : Option RawList)
    (hx : x < S.length) (hy : y < S.length) (hxy : x ≠ y)
    (gx : S[x]? = some lx) (gy : S[y]? = some ly) :
    (((((((((S.set x Lx).set y Ly) ++ [l0]).set S.length L0).set S.length ln1).set S.length ln2).set
      S.length ln).set y ly).set x lx) = S ++ [ln] := by
  simp [List.set_append, hx, hy]
  rw [List.set_comm _ _ hxy, List.set_set, set_self_of_getElem? gy, set_self_of_getElem? gx]

/-- `concat` keeping `self` locked, both operands the same list -/
theorem concat_ok_same (inv : Inv sz s) {x : Nat} {lx : RawList} (hx : s.getAlloc x = some lx) :
    (concatRun sz x x (s, none) sameSteps = .error .panic ∧
      ∃ k, usizeMax < nextPow2 k ∧ k ≤ lx.len + lx.len) ∨
    ∃ ln, concatRun sz x x (s, none) sameSteps =
        .ok ({ (s.pushAlloc ln) with live := s.live + lx.len + lx.len }, some s.allocs.length) ∧
      ln.elems = lx.elems ++ lx.elems ∧ ln.len = lx.len + lx.len ∧ RawOk sz ln ∧
      ln.locked = false ∧ ln.rc = 1 := by
  unfold sameSteps
  have ⟨hxn, gx⟩ := getAlloc_some_lt hx
  have ⟨okx, kx, _, _⟩ := inv.raw x lx hx
  have ⟨l0, h0, e01, e02, e03, e04, ok0⟩ := newRaw_ok sz
  have elx : ({ ({ lx with locked := true } : RawList) with locked := false } : RawList) = lx := by
    cases lx; simp at kx; subst kx; rfl
  have hnx : s.allocs.length ≠ x := by omega
  obtain ⟨S1, hS1⟩ : ∃ S1, S1 = s.setAlloc x (some { lx with locked := true }) := ⟨_, rfl⟩
  have st1 : concatStep sz x x (s, none) (.lock .self_) = .ok (S1, none) := by
    simp only [concatStep, resolve, acquire_live hx kx, hS1]
  have g1 : ∀ b, S1.getAlloc b = if x = b then some { lx with locked := true } else s.getAlloc b := by
    intro b; rw [hS1]; exact getAlloc_setAlloc_live hx _ b
  have len1 : S1.allocs.length = s.allocs.length := by rw [hS1]; simp [St.setAlloc]
  rw [concatRun_cons_ok st1]
  obtain ⟨S2, hS2⟩ : ∃ S2, S2 = S1.pushAlloc l0 := ⟨_, rfl⟩
  have st2 : concatStep sz x x (S1, none) .allocNew = .ok (S2, some s.allocs.length) := by
    simp only [concatStep, h0, len1, hS2]
  have g2 : ∀ b, S2.getAlloc b = if b = s.allocs.length then some l0 else S1.getAlloc b := by
    intro b; rw [hS2, getAlloc_pushAlloc, len1]
  rw [concatRun_cons_ok st2]
  have g2n : S2.getAlloc s.allocs.length = some l0 := by rw [g2, if_pos rfl]
  obtain ⟨S3, hS3⟩ : ∃ S3, S3 = S2.setAlloc s.allocs.length (some { l0 with locked := true }) := ⟨_, rfl⟩
  have st3 : concatStep sz x x (S2, some s.allocs.length) .lockNew = .ok (S3, some s.allocs.length) := by
    simp only [concatStep, acquire_live g2n e03, hS3]
  have g3 : ∀ b, S3.getAlloc b = if s.allocs.length = b then some { l0 with locked := true } else S2.getAlloc b := by
    intro b; rw [hS3]; exact getAlloc_setAlloc_live g2n _ b
  rw [concatRun_cons_ok st3]
  have g3n : S3.getAlloc s.allocs.length = some { l0 with locked := true } := by rw [g3, if_pos rfl]
  have g3x : S3.getAlloc x = some { lx with locked := true } := by
    rw [g3, if_neg hnx, g2, if_neg (Ne.symm hnx), g1, if_pos rfl]
  cases he1 : rawExtend sz { l0 with locked := true } { lx with locked := true } with
  | error f =>
    left
    have ⟨hf, hb⟩ := rawExtend_error he1 (RawOk_locked ok0 true) (RawOk_locked okx true)
    subst hf
    refine ⟨?_, l0.len + lx.len, hb, by rw [e01]; omega⟩
    apply concatRun_cons_err
    simp only [concatStep, resolve, g3n, g3x, he1]
    simp
  | ok ln1 =>
    have ⟨x1, x2, x3, x4, _, ok1⟩ := rawExtend_ok he1 (RawOk_locked ok0 true) (RawOk_locked okx true)
    obtain ⟨S4, hS4⟩ : ∃ S4, S4 = ({ (S3.setAlloc s.allocs.length (some ln1)) with live := S3.live + lx.len } : St) := ⟨_, rfl⟩
    have st4 : concatStep sz x x (S3, some s.allocs.length) (.extendFrom .self_) = .ok (S4, some s.allocs.length) := by
      simp only [concatStep, resolve, g3n, g3x, he1, hS4, extend_clone_count_eq]
      simp
    have g4 : ∀ b, S4.getAlloc b = if s.allocs.length = b then some ln1 else S3.getAlloc b := by
      intro b; rw [hS4]; exact getAlloc_setAlloc_live g3n _ b
    rw [concatRun_cons_ok st4]
    have g4n : S4.getAlloc s.allocs.length = some ln1 := by rw [g4, if_pos rfl]
    have g4x : S4.getAlloc x = some { lx with locked := true } := by rw [g4, if_neg hnx]; exact g3x
    have k1 : ln1.locked = true := x3
    cases he2 : rawExtend sz ln1 { lx with locked := true } with
    | error f =>
      left
      have ⟨hf, hb⟩ := rawExtend_error he2 ok1 (RawOk_locked okx true)
      subst hf
      refine ⟨?_, ln1.len + lx.len, hb, by rw [x2, e01]; simp⟩
      apply concatRun_cons_err
      simp only [concatStep, resolve, g4n, g4x, he2]
      simp [k1]
    | ok ln2 =>
      have ⟨y1, y2, y3, y4, _, ok2⟩ := rawExtend_ok he2 ok1 (RawOk_locked okx true)
      obtain ⟨S5, hS5⟩ : ∃ S5, S5 = ({ (S4.setAlloc s.allocs.length (some ln2)) with live := S4.live + lx.len } : St) := ⟨_, rfl⟩
      have st5 : concatStep sz x x (S4, some s.allocs.length) (.extendFrom .self_) = .ok (S5, some s.allocs.length) := by
        simp only [concatStep, resolve, g4n, g4x, he2, hS5, extend_clone_count_eq]
        simp [k1]
      have g5 : ∀ b, S5.getAlloc b = if s.allocs.length = b then some ln2 else S4.getAlloc b := by
        intro b; rw [hS5]; exact getAlloc_setAlloc_live g4n _ b
      rw [concatRun_cons_ok st5]
      have g5n : S5.getAlloc s.allocs.length = some ln2 := by rw [g5, if_pos rfl]
      obtain ⟨S6, hS6⟩ : ∃ S6, S6 = S5.setAlloc s.allocs.length (some { ln2 with locked := false }) := ⟨_, rfl⟩
      have st6 : concatStep sz x x (S5, some s.allocs.length) .unlockNew = .ok (S6, some s.allocs.length) := by
        simp only [concatStep, unlockAt_live g5n, hS6]
      have g6 : ∀ b, S6.getAlloc b = if s.allocs.length = b then some { ln2 with locked := false } else S5.getAlloc b := by
        intro b; rw [hS6]; exact getAlloc_setAlloc_live g5n _ b
      rw [concatRun_cons_ok st6]
      have g6x : S6.getAlloc x = some { lx with locked := true } := by
        rw [g6, if_neg hnx, g5, if_neg hnx]; exact g4x
      obtain ⟨S7, hS7⟩ : ∃ S7, S7 = S6.setAlloc x (some lx) := ⟨_, rfl⟩
      have st7 : concatStep sz x x (S6, some s.allocs.length) (.unlock .self_) = .ok (S7, some s.allocs.length) := by
        simp only [concatStep, resolve, unlockAt_live g6x, elx, hS7]
      rw [concatRun_cons_ok st7]
      right
      refine ⟨{ ln2 with locked := false }, ?_, ?_, ?_, RawOk_locked ok2 false, rfl, ?_⟩
      · simp only [concatRun]
        congr 1
        congr 1
        have hslots : S7.slots = s.slots := by
          rw [hS7, hS6, hS5, hS4, hS3, hS2, hS1]; rfl
        have hlive : S7.live = s.live + lx.len + lx.len := by
          rw [hS7, hS6, hS5, hS4, hS3, hS2, hS1]; rfl
        have hallocs : S7.allocs = s.allocs ++ [some { ln2 with locked := false }] := by
          rw [hS7, hS6, hS5, hS4, hS3, hS2, hS1]
          exact concat_allocs_same s.allocs x _ _ _ _ _ _ _ hxn gx
        cases S7
        simp only at hslots hlive hallocs
        subst hslots hlive hallocs
        rfl
      · show ln2.elems = lx.elems ++ lx.elems
        rw [y1, x1, e02]; rfl
      · show ln2.len = lx.len + lx.len
        rw [y2, x2, e01]; simp
      · show ln2.rc = 1
        rw [y4, x4]; exact e04

/-- `concat` keeping both (distinct) operands locked: from the state in which
    both are locked -/
theorem concat_ok_tail (inv : Inv sz s) {x y : Nat} {lx ly : RawList}
    (hx : s.getAlloc x = some lx) (hy : s.getAlloc y = some ly) (hxy : x ≠ y) :
    (concatRun sz x y ((s.setAlloc x (some { lx with locked := true })).setAlloc y
        (some { ly with locked := true }), none) bothTail = .error .panic ∧
      ∃ k, usizeMax < nextPow2 k ∧ k ≤ lx.len + ly.len) ∨
    ∃ ln, concatRun sz x y ((s.setAlloc x (some { lx with locked := true })).setAlloc y
        (some { ly with locked := true }), none) bothTail =
        .ok ({ (s.pushAlloc ln) with live := s.live + lx.len + ly.len }, some s.allocs.length) ∧
      ln.elems = lx.elems ++ ly.elems ∧ ln.len = lx.len + ly.len ∧ RawOk sz ln ∧
      ln.locked = false ∧ ln.rc = 1 := by
  unfold bothTail
  have ⟨hxn, gx⟩ := getAlloc_some_lt hx
  have ⟨hyn, gy⟩ := getAlloc_some_lt hy
  have ⟨okx, kx, _, _⟩ := inv.raw x lx hx
  have ⟨oky, ky, _, _⟩ := inv.raw y ly hy
  have ⟨l0, h0, e01, e02, e03, e04, ok0⟩ := newRaw_ok sz
  have elx : ({ ({ lx with locked := true } : RawList) with locked := false } : RawList) = lx := by
    cases lx; simp at kx; subst kx; rfl
  have ely : ({ ({ ly with locked := true } : RawList) with locked := false } : RawList) = ly := by
    cases ly; simp at ky; subst ky; rfl
  have hnx : s.allocs.length ≠ x := by omega
  have hny : s.allocs.length ≠ y := by omega
  have hyx : y ≠ x := Ne.symm hxy
  obtain ⟨S1, hS1⟩ : ∃ S1, S1 = s.setAlloc x (some { lx with locked := true }) := ⟨_, rfl⟩
  have g1 : ∀ b, S1.getAlloc b = if x = b then some { lx with locked := true } else s.getAlloc b := by
    intro b; rw [hS1]; exact getAlloc_setAlloc_live hx _ b
  have g1y : S1.getAlloc y = some ly := by rw [g1, if_neg hxy]; exact hy
  obtain ⟨S2, hS2⟩ : ∃ S2, S2 = S1.setAlloc y (some { ly with locked := true }) := ⟨_, rfl⟩
  have g2 : ∀ b, S2.getAlloc b = if y = b then some { ly with locked := true } else S1.getAlloc b := by
    intro b; rw [hS2]; exact getAlloc_setAlloc_live g1y _ b
  have len2 : S2.allocs.length = s.allocs.length := by rw [hS2, hS1]; simp [St.setAlloc]
  rw [← hS1, ← hS2]
  obtain ⟨S3, hS3⟩ : ∃ S3, S3 = S2.pushAlloc l0 := ⟨_, rfl⟩
  have st3 : concatStep sz x y (S2, none) .allocNew = .ok (S3, some s.allocs.length) := by
    simp only [concatStep, h0, len2, hS3]
  have g3 : ∀ b, S3.getAlloc b = if b = s.allocs.length then some l0 else S2.getAlloc b := by
    intro b; rw [hS3, getAlloc_pushAlloc, len2]
  rw [concatRun_cons_ok st3]
  have g3n : S3.getAlloc s.allocs.length = some l0 := by rw [g3, if_pos rfl]
  obtain ⟨S4, hS4⟩ : ∃ S4, S4 = S3.setAlloc s.allocs.length (some { l0 with locked := true }) := ⟨_, rfl⟩
  have st4 : concatStep sz x y (S3, some s.allocs.length) .lockNew = .ok (S4, some s.allocs.length) := by
    simp only [concatStep, acquire_live g3n e03, hS4]
  have g4 : ∀ b, S4.getAlloc b = if s.allocs.length = b then some { l0 with locked := true } else S3.getAlloc b := by
    intro b; rw [hS4]; exact getAlloc_setAlloc_live g3n _ b
  rw [concatRun_cons_ok st4]
  have g4n : S4.getAlloc s.allocs.length = some { l0 with locked := true } := by rw [g4, if_pos rfl]
  have g4x : S4.getAlloc x = some { lx with locked := true } := by
    rw [g4, if_neg hnx, g3, if_neg (Ne.symm hnx), g2, if_neg hyx, g1, if_pos rfl]
  have g4y : S4.getAlloc y = some { ly with locked := true } := by
    rw [g4, if_neg hny, g3, if_neg (Ne.symm hny), g2, if_pos rfl]
  cases he1 : rawExtend sz { l0 with locked := true } { lx with locked := true } with
  | error f =>
    left
    have ⟨hf, hb⟩ := rawExtend_error he1 (RawOk_locked ok0 true) (RawOk_locked okx true)
    subst hf
    refine ⟨?_, l0.len + lx.len, hb, by rw [e01]; omega⟩
    apply concatRun_cons_err
    simp only [concatStep, resolve, g4n, g4x, he1]
    simp
  | ok ln1 =>
    have ⟨x1, x2, x3, x4, _, ok1⟩ := rawExtend_ok he1 (RawOk_locked ok0 true) (RawOk_locked okx true)
    obtain ⟨S5, hS5⟩ : ∃ S5, S5 = ({ (S4.setAlloc s.allocs.length (some ln1)) with live := S4.live + lx.len } : St) := ⟨_, rfl⟩
    have st5 : concatStep sz x y (S4, some s.allocs.length) (.extendFrom .self_) = .ok (S5, some s.allocs.length) := by
      simp only [concatStep, resolve, g4n, g4x, he1, hS5, extend_clone_count_eq]
      simp
    have g5 : ∀ b, S5.getAlloc b = if s.allocs.length = b then some ln1 else S4.getAlloc b := by
      intro b; rw [hS5]; exact getAlloc_setAlloc_live g4n _ b
    rw [concatRun_cons_ok st5]
    have g5n : S5.getAlloc s.allocs.length = some ln1 := by rw [g5, if_pos rfl]
    have g5y : S5.getAlloc y = some { ly with locked := true } := by rw [g5, if_neg hny]; exact g4y
    have k1 : ln1.locked = true := x3
    cases he2 : rawExtend sz ln1 { ly with locked := true } with
    | error f =>
      left
      have ⟨hf, hb⟩ := rawExtend_error he2 ok1 (RawOk_locked oky true)
      subst hf
      refine ⟨?_, ln1.len + ly.len, hb, by rw [x2, e01]; simp⟩
      apply concatRun_cons_err
      simp only [concatStep, resolve, g5n, g5y, he2]
      simp [k1]
    | ok ln2 =>
      have ⟨y1, y2, y3, y4, _, ok2⟩ := rawExtend_ok he2 ok1 (RawOk_locked oky true)
      obtain ⟨S6, hS6⟩ : ∃ S6, S6 = ({ (S5.setAlloc s.allocs.length (some ln2)) with live := S5.live + ly.len } : St) := ⟨_, rfl⟩
      have st6 : concatStep sz x y (S5, some s.allocs.length) (.extendFrom .other) = .ok (S6, some s.allocs.length) := by
        simp only [concatStep, resolve, g5n, g5y, he2, hS6, extend_clone_count_eq]
        simp [k1]
      have g6 : ∀ b, S6.getAlloc b = if s.allocs.length = b then some ln2 else S5.getAlloc b := by
        intro b; rw [hS6]; exact getAlloc_setAlloc_live g5n _ b
      rw [concatRun_cons_ok st6]
      have g6n : S6.getAlloc s.allocs.length = some ln2 := by rw [g6, if_pos rfl]
      obtain ⟨S7, hS7⟩ : ∃ S7, S7 = S6.setAlloc s.allocs.length (some { ln2 with locked := false }) := ⟨_, rfl⟩
      have st7 : concatStep sz x y (S6, some s.allocs.length) .unlockNew = .ok (S7, some s.allocs.length) := by
        simp only [concatStep, unlockAt_live g6n, hS7]
      have g7 : ∀ b, S7.getAlloc b = if s.allocs.length = b then some { ln2 with locked := false } else S6.getAlloc b := by
        intro b; rw [hS7]; exact getAlloc_setAlloc_live g6n _ b
      rw [concatRun_cons_ok st7]
      have g7y : S7.getAlloc y = some { ly with locked := true } := by
        rw [g7, if_neg hny, g6, if_neg hny]; exact g5y
      obtain ⟨S8, hS8⟩ : ∃ S8, S8 = S7.setAlloc y (some ly) := ⟨_, rfl⟩
      have st8 : concatStep sz x y (S7, some s.allocs.length) (.unlock .other) = .ok (S8, some s.allocs.length) := by
        simp only [concatStep, resolve, unlockAt_live g7y, ely, hS8]
      have g8 : ∀ b, S8.getAlloc b = if y = b then some ly else S7.getAlloc b := by
        intro b; rw [hS8]; exact getAlloc_setAlloc_live g7y _ b
      rw [concatRun_cons_ok st8]
      have g8x : S8.getAlloc x = some { lx with locked := true } := by
        rw [g8, if_neg hyx, g7, if_neg hnx, g6, if_neg hnx, g5, if_neg hnx]; exact g4x
      obtain ⟨S9, hS9⟩ : ∃ S9, S9 = S8.setAlloc x (some lx) := ⟨_, rfl⟩
      have st9 : concatStep sz x y (S8, some s.allocs.length) (.unlock .self_) = .ok (S9, some s.allocs.length) := by
        simp only [concatStep, resolve, unlockAt_live g8x, elx, hS9]
      rw [concatRun_cons_ok st9]
      right
      refine ⟨{ ln2 with locked := false }, ?_, ?_, ?_, RawOk_locked ok2 false, rfl, ?_⟩
      · simp only [concatRun]
        congr 1
        congr 1
        have hslots : S9.slots = s.slots := by
          rw [hS9, hS8, hS7, hS6, hS5, hS4, hS3, hS2, hS1]; rfl
        have hlive : S9.live = s.live + lx.len + ly.len := by
          rw [hS9, hS8, hS7, hS6, hS5, hS4, hS3, hS2, hS1]; rfl
        have hallocs : S9.allocs = s.allocs ++ [some { ln2 with locked := false }] := by
          rw [hS9, hS8, hS7, hS6, hS5, hS4, hS3, hS2, hS1]
          exact concat_allocs_both s.allocs x y _ _ _ _ _ _ _ _ _ hxn hyn hxy gx gy
        cases S9
        simp only at hslots hlive hallocs
        subst hslots hlive hallocs
        rfl
      · show ln2.elems = lx.elems ++ ly.elems
        rw [y1, x1, e02]; rfl
      · show ln2.len = lx.len + ly.len
        rw [y2, x2, e01]; simp
      · show ln2.rc = 1
        rw [y4, x4]; exact e04

/-- `ErasedList::concat` with the generated statements — sequential locking, or
    both operands kept locked in address order, one lock when they are the same
    list: never dead-locks, operands restored, the new list holds `self ++ other` -/
theorem concat_ok (inv : Inv sz s) {x y : Nat} {lx ly : RawList}
    (hx : s.getAlloc x = some lx) (hy : s.getAlloc y = some ly) :
    (concatRun sz x y (s, none) (concatStepsFor x y) = .error .panic ∧
      ∃ k, usizeMax < nextPow2 k ∧ k ≤ lx.len + ly.len) ∨
    ∃ ln, concatRun sz x y (s, none) (concatStepsFor x y) =
        .ok ({ (s.pushAlloc ln) with live := s.live + lx.len + ly.len }, some s.allocs.length) ∧
      ln.elems = lx.elems ++ ly.elems ∧ ln.len = lx.len + ly.len ∧ RawOk sz ln ∧
      ln.locked = false ∧ ln.rc = 1 := by
  have shape : (Gen.ListLocks.concatStepsSame = seqSteps ∧ Gen.ListLocks.concatStepsLt = seqSteps ∧
        Gen.ListLocks.concatStepsGe = seqSteps) ∨
      (Gen.ListLocks.concatStepsSame = sameSteps ∧ Gen.ListLocks.concatStepsLt = ltSteps ∧
        Gen.ListLocks.concatStepsGe = geSteps) := by decide
  have kx := (inv.raw x lx hx).2.1
  have ky := (inv.raw y ly hy).2.1
  unfold concatStepsFor
  rcases shape with ⟨h1, h2, h3⟩ | ⟨h1, h2, h3⟩
  · rw [h1, h2, h3]
    have := concat_ok_seq inv hx hy
    split
    · exact this
    · split <;> exact this
  · rw [h1, h2, h3]
    by_cases hxy : x = y
    · subst hxy
      rw [hx] at hy; injection hy with hy; subst hy
      rw [if_pos rfl]
      exact concat_ok_same inv hx
    · rw [if_neg hxy]
      have tail := concat_ok_tail inv hx hy hxy
      split
      · -- lock self, lock other
        unfold ltSteps
        have st1 : concatStep sz x y (s, none) (.lock .self_) =
            .ok (s.setAlloc x (some { lx with locked := true }), none) := by
          simp only [concatStep, resolve, acquire_live hx kx]
        have g1y : (s.setAlloc x (some { lx with locked := true })).getAlloc y = some ly := by
          rw [getAlloc_setAlloc_live hx, if_neg hxy]; exact hy
        have st2 : concatStep sz x y (s.setAlloc x (some { lx with locked := true }), none) (.lock .other) =
            .ok ((s.setAlloc x (some { lx with locked := true })).setAlloc y (some { ly with locked := true }), none) := by
          simp only [concatStep, resolve, acquire_live g1y ky]
        rw [concatRun_cons_ok st1, concatRun_cons_ok st2]
        exact tail
      · -- lock other, lock self
        unfold geSteps
        have st1 : concatStep sz x y (s, none) (.lock .other) =
            .ok (s.setAlloc y (some { ly with locked := true }), none) := by
          simp only [concatStep, resolve, acquire_live hy ky]
        have g1x : (s.setAlloc y (some { ly with locked := true })).getAlloc x = some lx := by
          rw [getAlloc_setAlloc_live hy, if_neg (Ne.symm hxy)]; exact hx
        have st2 : concatStep sz x y (s.setAlloc y (some { ly with locked := true }), none) (.lock .self_) =
            .ok ((s.setAlloc y (some { ly with locked := true })).setAlloc x (some { lx with locked := true }), none) := by
          simp only [concatStep, resolve, acquire_live g1x kx]
        rw [concatRun_cons_ok st1, concatRun_cons_ok st2, setAlloc_comm _ (Ne.symm hxy)]
        exact tail

theorem good_concat (inv : Inv sz s) (rel : Rel s t) (d a b : Nat) : Good sz s t (.concat d a b) := by
  rcases slot_dec s a with ⟨x, hsa⟩ | hsa
  · rcases slot_dec s b with ⟨y, hsb⟩ | hsb
    · have ⟨lx, hx⟩ := inv.slot a x hsa
      have ⟨ly, hy⟩ := inv.slot b y hsb
      rcases concat_ok inv hx hy with ⟨hp, k, hk1, hk2⟩ | ⟨ln, hrun, c1, c2, okn, kn, rcn⟩
      · refine good_of_panic ?_ ⟨k, hk1, ?_⟩
        · simp only [stepE, slot_ok hsa, slot_ok hsb, hp]
        · have := len_le_live inv hx
          have := len_le_live inv hy
          simp only [opSize]; omega
      · rcases bind_ok inv rel okn kn rcn d (s.live + lx.len + ly.len) (by rw [c2]; omega) with
          ⟨hb, hsp⟩ | ⟨s', h1, h2, h3, h4, hcm⟩
        · rw [c1] at hsp
          refine good_of_bad ?_ ?_ inv rel
          · simp only [stepE, slot_ok hsa, slot_ok hsb, hrun]
            rw [hb]
          · simp only [specStep, vec_ok rel hsa hx, vec_ok rel hsb hy]
            exact hsp
        · rw [c1] at h3 h4
          refine good_of_ok (o := .unit) (s' := s') ?_ ?_ h2 ?_ hcm
          · simp only [stepE, slot_ok hsa, slot_ok hsb, hrun]
            rw [h1]
          · simp only [specStep, vec_ok rel hsa hx, vec_ok rel hsb hy, eraseCap]
            exact h3.symm
          · simp only [specStep, vec_ok rel hsa hx, vec_ok rel hsb hy]
            exact h4
    · refine good_of_bad ?_ ?_ inv rel
      · simp only [stepE, slot_ok hsa, slot_bad hsb]
      · have ⟨lx, hx⟩ := inv.slot a x hsa
        simp only [specStep, vec_ok rel hsa hx, vec_bad rel hsb]
  · refine good_of_bad ?_ ?_ inv rel
    · simp only [stepE, slot_bad hsa]
    · simp only [specStep, vec_bad rel hsa]

/-- every operation, from every state satisfying the invariant -/
theorem good_step (inv : Inv sz s) (rel : Rel s t) (op : Op) : Good sz s t op := by
  cases op with
  | new d => exact good_new inv rel d
  | fromVec d xs => exact good_fromVec inv rel d xs
  | cloneH d src => exact good_cloneH inv rel d src
  | dropH h => exact good_dropH inv rel h
  | push h v => exact good_push inv rel h v
  | get h i => exact good_get inv rel h i
  | len h => exact good_len inv rel h
  | isEmpty h => exact good_isEmpty inv rel h
  | capacity h => exact good_capacity inv rel h
  | swap h i j => exact good_swap inv rel h i j
  | concat d a b => exact good_concat inv rel d a b
  | contains h v => exact good_contains inv rel h v
  | index h v => exact good_index inv rel h v
  | eq a b typed => exact good_eq inv rel a b typed
  | toVec h => exact good_toVec inv rel h
  | iter h => exact good_iter inv rel h
  | join h sep => exact good_join inv rel h sep


end ops

/-- the abstraction of a store -/
def absSpec (s : St) : Spec :=
  { lists := s.allocs.map (fun o => match o with | some l => l.elems | none => []), slots := s.slots }

theorem Rel_abs (s : St) : Rel s (absSpec s) := by
  refine ⟨rfl, by simp [absSpec], ?_⟩
  intro a l h
  have ⟨hlt, he⟩ := getAlloc_some_lt h
  simp only [absSpec, List.getElem?_map, he, Option.map]

theorem Inv_step {sz : Nat} {s : St} (inv : Inv sz s) (op : Op) : Inv sz (step sz s op).2 := by
  rcases good_step inv (Rel_abs s) op with ⟨_, h, _⟩ | ⟨_, h, _, _⟩
  · rw [h]; exact inv
  · exact h

theorem Inv_runSt {sz : Nat} : ∀ (ops : List Op) {s : St}, Inv sz s → Inv sz (runSt sz s ops)
  | [], _, inv => inv
  | op :: rest, _, inv => Inv_runSt rest (Inv_step inv op)

def specRunSt : Spec → List Op → Spec
  | t, [] => t
  | t, op :: rest => specRunSt (specStep t op).2 rest

/-- the history never compares a vector holding a NaN with itself (through the
    same handle or through two aliases) — stated on the shared vectors -/
def NoReflShortcut : Spec → List Op → Prop
  | _, [] => True
  | t, op :: rest => ¬ ReflShortcut t op ∧ NoReflShortcut (specStep t op).2 rest

/-- forward simulation along a whole history that meets no capacity overflow
    and never compares a vector holding a NaN with itself -/
theorem run_sim {sz : Nat} : ∀ (ops : List Op) {s : St} {t : Spec}, Inv sz s → Rel s t →
    (∀ o ∈ run sz s ops, o ≠ .fault .panic) → NoReflShortcut t ops →
    List.zipWith eraseCap ops (run sz s ops) = specRun t ops ∧
      Rel (runSt sz s ops) (specRunSt t ops)
  | [], _, _, _, rel, _, _ => ⟨rfl, rel⟩
  | op :: rest, s, t, inv, rel, hp, hq => by
    have hp0 : (step sz s op).1 ≠ .fault .panic := hp _ (by simp [run])
    have hp1 : ∀ o ∈ run sz (step sz s op).2 rest, o ≠ .fault .panic :=
      fun o ho => hp o (by simp [run, ho])
    rcases good_step inv rel op with ⟨h, _, _⟩ | ⟨h1 | ⟨hr, _⟩, h2, h3, _⟩
    · exact absurd h hp0
    · have ⟨ih1, ih2⟩ := run_sim rest h2 h3 hp1 hq.2
      refine ⟨?_, ih2⟩
      simp only [run, specRun, List.zipWith_cons_cons, h1, ih1]
    · exact absurd hr hq.1

theorem specStep_no_lock_fault (t : Spec) (op : Op) :
    (specStep t op).1 ≠ .fault .deadlock ∧ (specStep t op).1 ≠ .fault .ub := by
  cases op <;> simp only [specStep, Spec.bind] <;> (repeat' split) <;> simp

theorem specStep_fault_bad (t : Spec) (op : Op) {f : Fault} (h : (specStep t op).1 = .fault f) :
    f = .badHandle := by
  revert h
  cases op <;> simp only [specStep, Spec.bind] <;> (repeat' split) <;> simp <;> (intro h; exact h.symm)

theorem eraseCap_fault {op : Op} {o : Out} {f : Fault} (h : o = .fault f) : eraseCap op o = .fault f := by
  subst h; cases op <;> rfl

/-- no operation dead-locks or touches freed / uninitialised memory -/
theorem step_no_lock_fault {sz : Nat} {s : St} (inv : Inv sz s) (op : Op) :
    (step sz s op).1 ≠ .fault .deadlock ∧ (step sz s op).1 ≠ .fault .ub := by
  rcases good_step inv (Rel_abs s) op with ⟨h, _, _⟩ | ⟨h | ⟨_, h⟩, _, _, _⟩
  · rw [h]; simp
  · have ⟨n1, n2⟩ := specStep_no_lock_fault (absSpec s) op
    constructor
    · intro hd; rw [eraseCap_fault hd] at h; exact n1 h.symm
    · intro hd; rw [eraseCap_fault hd] at h; exact n2 h.symm
  · constructor
    · intro hd; rw [eraseCap_fault hd] at h; cases h
    · intro hd; rw [eraseCap_fault hd] at h; cases h

end RotoV.ListM
