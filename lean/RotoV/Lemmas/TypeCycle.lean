/-
  Lemmas about the type-cycle model (`Model/TypeCycle.lean`) behind property
  C06.
-/
import RotoV.Model.TypeCycle

namespace RotoV.TypeCycle

/-- the witness on the unchanged tree: `Option[T] = enum { Some(T), None }`
(definition 0) and `record A { x: A? }` (definition 1) -/
def witnessDefs : Defs := [.fields [.var 0], .fields [.name 0 [.name 1 []]]]

/-- the check of the unchanged tree accepts the witness -/
theorem old_accepts_witness : Accepts .old witnessDefs [0, 1] :=
  ⟨20, [(1, true), (1, false), (0, true), (0, false)], rfl⟩

/-- `convert` never returns on `A` (nor on `Option[A]`): whatever the fuel, it
is still recursing. -/
theorem witness_diverges (fuel : Nat) :
    convert witnessDefs fuel (.name 1 []) = none ∧
    convert witnessDefs fuel (.name 0 [.name 1 []]) = none ∧
    convertList witnessDefs fuel [.name 1 []] = none ∧
    convertList witnessDefs fuel [.name 0 [.name 1 []]] = none := by
  induction fuel with
  | zero => simp [convert, convertList]
  | succ f ih =>
    obtain ⟨h1, h2, h3, h4⟩ := ih
    refine ⟨?_, ?_, ?_, ?_⟩
    · simp [convert, witnessDefs, substList, subst]
      simpa [witnessDefs] using h4
    · simp [convert, witnessDefs, substList, subst]
      simpa [witnessDefs] using h3
    · simp [convertList, h1]
    · simp [convertList, h2]

/-- T4 is false for the check on the unchanged tree: the witness is accepted
and `convert` never returns on `A`. -/
theorem old_unsound :
    Accepts .old witnessDefs [0, 1] ∧ ¬ Terminates witnessDefs (.name 1 []) :=
  ⟨old_accepts_witness, fun ⟨fuel, h⟩ => h (witness_diverges fuel).1⟩

/-- the repaired check rejects the witness -/
theorem fixed_rejects_witness_at :
    detect .fixed witnessDefs 20 [] [0, 1] = some (.err "cycle detected!") := rfl

end RotoV.TypeCycle
