/-
  Lemmas about the type-cycle model (`Model/TypeCycle.lean`) behind property
  C06.
-/
import RotoV.Model.TypeCycle

namespace RotoV.TypeCycle

/-- the witness on the unchanged tree: `Option[T] = enum { Some(T), None }`
(definition 0) and `record A { x: A? }` (definition 1) -/
def witnessDefs : Defs := [.fields [.var 0], .fields [.name 0 [.name 1 []]]]

/-- the check of the unchanged tree accepts the witness -/
theorem old_accepts_witness : Accepts .old witnessDefs [0, 1] :=
  ⟨20, [(1, true), (1, false), (0, true), (0, false)], rfl⟩

/-- `convert` never returns on `A` (nor on `Option[A]`): whatever the fuel, it
is still recursing. -/
theorem witness_diverges (fuel : Nat) :
    convert witnessDefs fuel (.name 1 []) = none ∧
    convert witnessDefs fuel (.name 0 [.name 1 []]) = none ∧
    convertList witnessDefs fuel [.name 1 []] = none ∧
    convertList witnessDefs fuel [.name 0 [.name 1 []]] = none := by
  induction fuel with
  | zero => simp [convert, convertList]
  | succ f ih =>
    obtain ⟨h1, h2, h3, h4⟩ := ih
    refine ⟨?_, ?_, ?_, ?_⟩
    · simp [convert, witnessDefs, substList, subst]
      simpa [witnessDefs] using h4
    · simp [convert, witnessDefs, substList, subst]
      simpa [witnessDefs] using h3
    · simp [convertList, h1]
    · simp [convertList, h2]

/-- T4 is false for the check on the unchanged tree: the witness is accepted
and `convert` never returns on `A`. -/
theorem old_unsound :
    Accepts .old witnessDefs [0, 1] ∧ ¬ Terminates witnessDefs (.name 1 []) :=
  ⟨old_accepts_witness, fun ⟨fuel, h⟩ => h (witness_diverges fuel).1⟩

/-- the repaired check rejects the witness -/
theorem fixed_rejects_witness_at :
    detect .fixed witnessDefs 20 [] [0, 1] = some (.err "cycle detected!") := rfl

mutual
/-- all names a type mentions (also inside arguments and anonymous records) -/
def Ty.names : Ty → List Nat
  | .var _ => []
  | .leaf => []
  | .unresolved => []
  | .record fs => Ty.namesList fs
  | .name n args => n :: Ty.namesList args
def Ty.namesList : List Ty → List Nat
  | [] => []
  | t :: ts => Ty.names t ++ Ty.namesList ts
end

/-- `convert` is well-founded below the name `n`: accessibility along "the
definition of `n` mentions `m`". -/
inductive Good (defs : Defs) : Nat → Prop where
  | opaque (n : Nat) : defs[n]? = some .opaque → Good defs n
  | list (n : Nat) : defs[n]? = some .list → Good defs n
  | fields (n : Nat) (fs : List Ty) : defs[n]? = some (.fields fs) →
      (∀ m ∈ Ty.namesList fs, Good defs m) → Good defs n

def Perm (v : Visited) (n : Nat) : Prop := v.get n = some true
def PermGood (defs : Defs) (v : Visited) : Prop := ∀ n, Perm v n → Good defs n
def Mono (v v' : Visited) : Prop := ∀ n, Perm v n → Perm v' n

theorem Mono.refl (v : Visited) : Mono v v := fun _ h => h
theorem Mono.trans {a b c : Visited} (h1 : Mono a b) (h2 : Mono b c) : Mono a c :=
  fun n h => h2 n (h1 n h)

theorem get_cons (v : Visited) (m : Nat) (b : Bool) (n : Nat) :
    Visited.get ((m, b) :: v) n = if m = n then some b else Visited.get v n := rfl

/-- the invariant of the depth-first search, for all three functions at once -/
theorem dfs_inv (defs : Defs) (fuel : Nat) :
    (∀ v n v', visitName .fixed defs fuel v n = some (.ok v') → PermGood defs v →
      PermGood defs v' ∧ Perm v' n ∧ Mono v v') ∧
    (∀ v t v', visit .fixed defs fuel v t = some (.ok v') → PermGood defs v →
      PermGood defs v' ∧ (∀ m ∈ Ty.names t, Perm v' m) ∧ Mono v v') ∧
    (∀ v ts v', visitList .fixed defs fuel v ts = some (.ok v') → PermGood defs v →
      PermGood defs v' ∧ (∀ m ∈ Ty.namesList ts, Perm v' m) ∧ Mono v v') := by
  induction fuel with
  | zero => simp [visitName, visit, visitList]
  | succ f ih =>
    obtain ⟨ihN, ihV, ihL⟩ := ih
    refine ⟨?_, ?_, ?_⟩
    · intro v n v' h hg
      simp only [visitName] at h
      split at h
      · cases h
      · rename_i hget
        injection h with h; injection h with h; subst h
        exact ⟨hg, hget, Mono.refl _⟩
      · rename_i hget
        have keep : ∀ m, Perm v m → n ≠ m := by
          intro m hm e; subst e; unfold Perm at hm; rw [hget] at hm; cases hm
        cases hdef : defs[n]? with
        | none => rw [hdef] at h; cases h
        | some d =>
          rw [hdef] at h
          rcases d with fs | _ | _
          · -- fields
            dsimp only at h
            cases hl : visitList .fixed defs f ((n, false) :: v) fs with
            | none => rw [hl] at h; cases h
            | some r =>
              rw [hl] at h
              cases r with
              | err e => cases h
              | ok v'' =>
                injection h with h; injection h with h; subst h
                have hg1 : PermGood defs ((n, false) :: v) := by
                  intro m hm
                  unfold Perm at hm; rw [get_cons] at hm
                  split at hm
                  · cases hm
                  · exact hg m hm
                obtain ⟨hg2, hnames, hmono⟩ := ihL _ _ _ hl hg1
                refine ⟨?_, ?_, ?_⟩
                · intro m hm
                  unfold Perm at hm; rw [get_cons] at hm
                  split at hm
                  · rename_i hmn; subst hmn
                    exact Good.fields _ fs hdef (fun k hk => hg2 k (hnames k hk))
                  · exact hg2 m hm
                · unfold Perm; rw [get_cons]; simp
                · intro m hm
                  have hne := keep m hm
                  have : Perm ((n, false) :: v) m := by
                    unfold Perm; rw [get_cons]; simp [hne]; exact hm
                  have := hmono m this
                  unfold Perm; rw [get_cons]; simp [hne]; exact this
          all_goals
            dsimp only at h
            injection h with h; injection h with h; subst h
            refine ⟨?_, ?_, ?_⟩
            · intro m hm
              unfold Perm at hm; rw [get_cons] at hm
              split at hm
              · rename_i hmn; subst hmn
                first
                  | exact Good.opaque _ hdef
                  | exact Good.list _ hdef
              · rw [get_cons] at hm
                split at hm
                · cases hm
                · exact hg m hm
            · unfold Perm; rw [get_cons]; simp
            · intro m hm
              have hne := keep m hm
              unfold Perm; rw [get_cons, get_cons]; simp [hne]; exact hm
    · intro v t v' h hg
      simp only [visit] at h
      cases t with
      | unresolved => simp at h
      | leaf => simp at h; subst h; exact ⟨hg, by simp [Ty.names], Mono.refl _⟩
      | var i => simp at h; subst h; exact ⟨hg, by simp [Ty.names], Mono.refl _⟩
      | record fs =>
        simp only at h
        obtain ⟨a, b, c⟩ := ihL _ _ _ h hg
        exact ⟨a, by simpa [Ty.names] using b, c⟩
      | name n args =>
        simp only at h
        cases hn : visitName .fixed defs f v n with
        | none => rw [hn] at h; cases h
        | some r =>
          rw [hn] at h
          cases r with
          | err e => cases h
          | ok v1 =>
            dsimp only at h
            obtain ⟨g1, p1, m1⟩ := ihN _ _ _ hn hg
            obtain ⟨g2, p2, m2⟩ := ihL _ _ _ h g1
            refine ⟨g2, ?_, m1.trans m2⟩
            intro m hm
            simp only [Ty.names, List.mem_cons] at hm
            rcases hm with rfl | hm
            · exact m2 _ p1
            · exact p2 m hm
    · intro v ts v' h hg
      cases ts with
      | nil =>
        simp [visitList] at h; subst h
        exact ⟨hg, by simp [Ty.namesList], Mono.refl _⟩
      | cons t ts =>
        simp only [visitList] at h
        cases hv : visit .fixed defs f v t with
        | none => rw [hv] at h; cases h
        | some r =>
          rw [hv] at h
          cases r with
          | err e => cases h
          | ok v1 =>
            dsimp only at h
            obtain ⟨g1, p1, m1⟩ := ihV _ _ _ hv hg
            obtain ⟨g2, p2, m2⟩ := ihL _ _ _ h g1
            refine ⟨g2, ?_, m1.trans m2⟩
            intro m hm
            simp only [Ty.namesList, List.mem_append] at hm
            rcases hm with hm | hm
            · exact m2 _ (p1 m hm)
            · exact p2 m hm

theorem detect_inv (defs : Defs) (fuel : Nat) (order : List Nat) :
    ∀ v v', detect .fixed defs fuel v order = some (.ok v') → PermGood defs v →
      PermGood defs v' ∧ (∀ n ∈ order, Perm v' n) ∧ Mono v v' := by
  induction order with
  | nil =>
    intro v v' h hg
    simp [detect] at h; subst h
    exact ⟨hg, by simp, Mono.refl _⟩
  | cons n rest ih =>
    intro v v' h hg
    simp only [detect] at h
    cases hn : visitName .fixed defs fuel v n with
    | none => rw [hn] at h; cases h
    | some r =>
      rw [hn] at h
      cases r with
      | err e => cases h
      | ok v1 =>
        dsimp only at h
        obtain ⟨g1, p1, m1⟩ := (dfs_inv defs fuel).1 _ _ _ hn hg
        obtain ⟨g2, p2, m2⟩ := ih _ _ h g1
        refine ⟨g2, ?_, m1.trans m2⟩
        intro m hm
        rcases List.mem_cons.1 hm with rfl | hm
        · exact m2 _ p1
        · exact p2 m hm

/-- acceptance makes every covered name `Good` -/
theorem accepts_good {defs : Defs} {order : List Nat} (h : Accepts .fixed defs order) :
    ∀ n ∈ order, Good defs n := by
  obtain ⟨fuel, v, hd⟩ := h
  obtain ⟨g, p, _⟩ := detect_inv defs fuel order [] v hd (by intro n hn; cases hn)
  exact fun n hn => g n (p n hn)

/-! ### `convert` terminates below `Good` names -/

theorem convert_name_none {defs : Defs} {n : Nat} (h : defs[n]? = none) (f : Nat) (args : List Ty) :
    convert defs (f + 1) (.name n args) = some false := by simp only [convert, h]
theorem convert_name_opaque {defs : Defs} {n : Nat} (h : defs[n]? = some .opaque) (f : Nat)
    (args : List Ty) : convert defs (f + 1) (.name n args) = some true := by simp only [convert, h]
theorem convert_name_list_nil {defs : Defs} {n : Nat} (h : defs[n]? = some .list) (f : Nat) :
    convert defs (f + 1) (.name n []) = some false := by simp only [convert, h]
theorem convert_name_list_cons {defs : Defs} {n : Nat} (h : defs[n]? = some .list) (f : Nat)
    (a : Ty) (as : List Ty) : convert defs (f + 1) (.name n (a :: as)) = convert defs f a := by
  simp only [convert, h]
theorem convert_name_fields {defs : Defs} {n : Nat} {fs : List Ty} (h : defs[n]? = some (.fields fs))
    (f : Nat) (args : List Ty) :
    convert defs (f + 1) (.name n args) = convertList defs f (substList args fs) := by
  simp only [convert, h]
theorem convert_record (defs : Defs) (f : Nat) (fs : List Ty) :
    convert defs (f + 1) (.record fs) = convertList defs f fs := by
  simp only [convert]
theorem convertList_cons_true {defs : Defs} {f : Nat} {t : Ty} (h : convert defs f t = some true)
    (ts : List Ty) : convertList defs (f + 1) (t :: ts) = convertList defs f ts := by
  simp only [convertList, h]
theorem convertList_cons_false {defs : Defs} {f : Nat} {t : Ty} (h : convert defs f t = some false)
    (ts : List Ty) : convertList defs (f + 1) (t :: ts) = some false := by
  simp only [convertList, h]
theorem convertList_cons_none {defs : Defs} {f : Nat} {t : Ty} (h : convert defs f t = none)
    (ts : List Ty) : convertList defs (f + 1) (t :: ts) = none := by
  simp only [convertList, h]

theorem convert_mono (defs : Defs) (f : Nat) :
    (∀ t r, convert defs f t = some r → convert defs (f + 1) t = some r) ∧
    (∀ ts r, convertList defs f ts = some r → convertList defs (f + 1) ts = some r) := by
  induction f with
  | zero => simp [convert, convertList]
  | succ f ih =>
    obtain ⟨ihC, ihL⟩ := ih
    refine ⟨?_, ?_⟩
    · intro t r h
      cases t with
      | var i => simpa [convert] using h
      | leaf => simpa [convert] using h
      | unresolved => simpa [convert] using h
      | record fs =>
        rw [convert_record] at h ⊢
        exact ihL _ _ h
      | name n args =>
        cases hd : defs[n]? with
        | none => rw [convert_name_none hd] at h ⊢; exact h
        | some d =>
          rcases d with fs | _ | _
          · rw [convert_name_fields hd] at h ⊢; exact ihL _ _ h
          · rw [convert_name_opaque hd] at h ⊢; exact h
          · cases args with
            | nil => rw [convert_name_list_nil hd] at h ⊢; exact h
            | cons a as => rw [convert_name_list_cons hd] at h ⊢; exact ihC _ _ h
    · intro ts r h
      cases ts with
      | nil => simpa [convertList] using h
      | cons t ts =>
        cases hc : convert defs f t with
        | none => rw [convertList_cons_none hc] at h; cases h
        | some b =>
          cases b with
          | true =>
            rw [convertList_cons_true hc] at h
            rw [convertList_cons_true (ihC _ _ hc)]
            exact ihL _ _ h
          | false =>
            rw [convertList_cons_false hc] at h
            rw [convertList_cons_false (ihC _ _ hc)]
            exact h

theorem convert_mono_le (defs : Defs) {f g : Nat} (hle : f ≤ g) :
    (∀ t r, convert defs f t = some r → convert defs g t = some r) ∧
    (∀ ts r, convertList defs f ts = some r → convertList defs g ts = some r) := by
  induction hle with
  | refl => exact ⟨fun _ _ h => h, fun _ _ h => h⟩
  | step _ ih =>
    exact ⟨fun t r h => (convert_mono defs _).1 t r (ih.1 t r h),
           fun ts r h => (convert_mono defs _).2 ts r (ih.2 ts r h)⟩

/-- `convert` returns (with some answer) -/
def Term (defs : Defs) (t : Ty) : Prop := ∃ f r, convert defs f t = some r
def TermList (defs : Defs) (ts : List Ty) : Prop := ∃ f r, convertList defs f ts = some r

theorem termList_of (defs : Defs) (ts : List Ty) (h : ∀ t ∈ ts, Term defs t) : TermList defs ts := by
  induction ts with
  | nil => exact ⟨1, true, by simp [convertList]⟩
  | cons t ts ih =>
    obtain ⟨f1, r1, h1⟩ := h t (List.mem_cons_self ..)
    obtain ⟨f2, r2, h2⟩ := ih (fun x hx => h x (List.mem_cons_of_mem _ hx))
    have e1 := (convert_mono_le defs (Nat.le_max_left f1 f2)).1 _ _ h1
    have e2 := (convert_mono_le defs (Nat.le_max_right f1 f2)).2 _ _ h2
    cases r1 with
    | true => exact ⟨max f1 f2 + 1, r2, by rw [convertList_cons_true e1]; exact e2⟩
    | false => exact ⟨max f1 f2 + 1, false, convertList_cons_false e1 _⟩

theorem term_record {defs : Defs} {fs : List Ty} (h : TermList defs fs) : Term defs (.record fs) := by
  obtain ⟨f, r, hf⟩ := h
  exact ⟨f + 1, r, by rw [convert_record]; exact hf⟩

mutual
/-- substituting terminating arguments into a field type whose names are all
handled by the induction hypothesis gives a terminating type -/
theorem subst_term (defs : Defs) (args : List Ty) (hargs : ∀ a ∈ args, Term defs a) :
    ∀ (t : Ty), (∀ m ∈ Ty.names t, ∀ as, (∀ a ∈ as, Term defs a) → Term defs (.name m as)) →
      Term defs (subst args t)
  | .var i, _ => by
    rw [subst]
    cases hi : args[i]? with
    | none => exact ⟨1, false, by simp [convert]⟩
    | some a => exact hargs a (List.mem_of_getElem? hi)
  | .leaf, _ => ⟨1, true, by simp [subst, convert]⟩
  | .unresolved, _ => ⟨1, true, by simp [subst, convert]⟩
  | .record fs, h => by
    rw [subst]
    exact term_record (termList_of defs _ (substList_term defs args hargs fs (by simpa [Ty.names] using h)))
  | .name m as, h => by
    rw [subst]
    apply h m (by simp [Ty.names])
    exact substList_term defs args hargs as (fun k hk => h k (by simp [Ty.names, hk]))
theorem substList_term (defs : Defs) (args : List Ty) (hargs : ∀ a ∈ args, Term defs a) :
    ∀ (ts : List Ty), (∀ m ∈ Ty.namesList ts, ∀ as, (∀ a ∈ as, Term defs a) → Term defs (.name m as)) →
      ∀ t ∈ substList args ts, Term defs t
  | [], _ => by simp [substList]
  | t :: ts, h => by
    intro x hx
    rw [substList] at hx
    rcases List.mem_cons.1 hx with hx | hx
    · rw [hx]; exact subst_term defs args hargs t (fun m hm => h m (by simp [Ty.namesList, hm]))
    · exact substList_term defs args hargs ts (fun m hm => h m (by simp [Ty.namesList, hm])) x hx
end

theorem good_term (defs : Defs) (n : Nat) (hg : Good defs n) :
    ∀ args, (∀ a ∈ args, Term defs a) → Term defs (.name n args) := by
  induction hg with
  | «opaque» n hd => intro args _; exact ⟨1, true, convert_name_opaque hd _ _⟩
  | list n hd =>
    intro args hargs
    cases args with
    | nil => exact ⟨1, false, convert_name_list_nil hd _⟩
    | cons a as =>
      obtain ⟨f, r, hf⟩ := hargs a (List.mem_cons_self ..)
      exact ⟨f + 1, r, by rw [convert_name_list_cons hd]; exact hf⟩
  | fields n fs hd _ ih =>
    intro args hargs
    obtain ⟨f, r, hf⟩ := termList_of defs _ (substList_term defs args hargs fs ih)
    exact ⟨f + 1, r, by rw [convert_name_fields hd]; exact hf⟩

mutual
theorem closed_term (defs : Defs) (hgood : ∀ n, n < defs.length → Good defs n) :
    ∀ t : Ty, Ty.closedIn defs.length t = true → Term defs t
  | .var _, _ => ⟨1, false, by simp [convert]⟩
  | .leaf, _ => ⟨1, true, by simp [convert]⟩
  | .unresolved, _ => ⟨1, true, by simp [convert]⟩
  | .record fs, h => by
    rw [Ty.closedIn] at h
    exact term_record (termList_of defs _ (closedList_term defs hgood fs h))
  | .name n args, h => by
    rw [Ty.closedIn] at h
    simp only [Bool.and_eq_true, decide_eq_true_eq] at h
    exact good_term defs n (hgood n h.1) args (closedList_term defs hgood args h.2)
theorem closedList_term (defs : Defs) (hgood : ∀ n, n < defs.length → Good defs n) :
    ∀ ts : List Ty, Ty.closedInList defs.length ts = true → ∀ t ∈ ts, Term defs t
  | [], _ => by simp
  | t :: ts, h => by
    rw [Ty.closedInList] at h
    simp only [Bool.and_eq_true] at h
    intro x hx
    rcases List.mem_cons.1 hx with hx | hx
    · rw [hx]; exact closed_term defs hgood t h.1
    · exact closedList_term defs hgood ts h.2 x hx
end

/-- T4 on the repaired check -/
theorem fixed_sound (defs : Defs) (order : List Nat)
    (hcover : ∀ n, n < defs.length → n ∈ order)
    (hacc : Accepts .fixed defs order) (ty : Ty) (hty : Ty.closedIn defs.length ty = true) :
    Terminates defs ty := by
  have hgood := accepts_good hacc
  obtain ⟨f, r, h⟩ := closed_term defs (fun n hn => hgood n (hcover n hn)) ty hty
  exact ⟨f, by rw [h]; simp⟩

/-- the repaired check rejects the witness of the unchanged tree -/
theorem fixed_rejects_witness : ¬ Accepts .fixed witnessDefs [0, 1] := by
  intro h
  have := fixed_sound witnessDefs [0, 1] (by intro n hn; simp [witnessDefs] at hn; simp; omega) h
    (.name 1 []) (by decide)
  exact old_unsound.2 this


end RotoV.TypeCycle
