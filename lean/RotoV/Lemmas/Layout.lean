import RotoV.Model.Layout
namespace RotoV.Layout
open RotoV.LayoutStd RotoV.Gen.LayoutGen

theorem nextMultipleOf_ge (a b : Nat) : a ≤ nextMultipleOf a b := by
  unfold nextMultipleOf; split <;> omega

theorem nextMultipleOf_mod (a b : Nat) (hb : 0 < b) : nextMultipleOf a b % b = 0 := by
  unfold nextMultipleOf
  split
  · assumption
  · have h1 : a % b < b := Nat.mod_lt _ hb
    have h2 : a = b * (a / b) + a % b := (Nat.div_add_mod a b).symm
    have : a + (b - a % b) = b * (a / b + 1) := by
      rw [Nat.mul_add]; omega
    rw [this]; exact Nat.mul_mod_right _ _

theorem nextMultipleOf_lt (a b : Nat) (hb : 0 < b) : nextMultipleOf a b < a + b := by
  unfold nextMultipleOf
  split
  · omega
  · have h1 : a % b < b := Nat.mod_lt _ hb
    omega

theorem nextMultipleOf_of_mod (a b : Nat) (h : a % b = 0) : nextMultipleOf a b = a := by
  unfold nextMultipleOf; simp [h]

theorem isPowerOfTwo_iff (n : Nat) : isPowerOfTwo n = true ↔ ∃ k, n = 2 ^ k := by
  unfold isPowerOfTwo
  constructor
  · intro h
    simp at h
    exact ⟨n.log2, h.2⟩
  · rintro ⟨k, rfl⟩
    simp [Nat.log2_two_pow]

/-- the three `assert!`s of `Layout::new`, as a proposition -/
def WF (l : Layout) : Prop := 0 < l.align ∧ isPowerOfTwo l.align = true ∧ l.size % l.align = 0

theorem isMultipleOf_iff (a b : Nat) (hb : 0 < b) : isMultipleOf a b = true ↔ a % b = 0 := by
  unfold isMultipleOf
  have : b ≠ 0 := by omega
  simp [this]

theorem wf_iff (l : Layout) : Layout.wf l = true ↔ WF l := by
  unfold Layout.wf Layout.new_asserts WF
  constructor
  · intro h
    simp at h
    obtain ⟨h1, h2, h3⟩ := h
    exact ⟨h1, h2, (isMultipleOf_iff _ _ h1).1 h3⟩
  · rintro ⟨h1, h2, h3⟩
    simp [h1, h2, (isMultipleOf_iff _ _ h1).2 h3]

/-- invariant of a `LayoutBuilder` -/
def BInv (b : LayoutBuilder) : Prop := 0 < b.align ∧ isPowerOfTwo b.align = true

theorem binv_new : BInv LayoutBuilder.new := by
  unfold BInv LayoutBuilder.new; decide

theorem natMax_eq (a b : Nat) : Nat.max a b = max a b := rfl

theorem natMax_cases (a b : Nat) : (Nat.max a b = a ∧ b ≤ a) ∨ (Nat.max a b = b ∧ a ≤ b) := by
  rw [natMax_eq]; omega

theorem isPowerOfTwo_max {a b : Nat} (ha : isPowerOfTwo a = true) (hb : isPowerOfTwo b = true) :
    isPowerOfTwo (Nat.max a b) = true := by
  rcases natMax_cases a b with h | h <;> rw [h.1] <;> assumption

theorem natMax_pos {a b : Nat} (ha : 0 < a) : 0 < Nat.max a b := by
  rw [natMax_eq]; omega

@[simp] theorem add_fst_align (b : LayoutBuilder) (l : Layout) :
    (b.add l).1.align = Nat.max b.align l.align := rfl
@[simp] theorem add_fst_size (b : LayoutBuilder) (l : Layout) :
    (b.add l).1.size = nextMultipleOf b.size l.align + l.size := rfl
@[simp] theorem add_snd (b : LayoutBuilder) (l : Layout) :
    (b.add l).2 = nextMultipleOf b.size l.align := rfl
@[simp] theorem finish_align (b : LayoutBuilder) : b.finish.align = b.align := rfl
@[simp] theorem finish_size (b : LayoutBuilder) : b.finish.size = nextMultipleOf b.size b.align := rfl
@[simp] theorem union_align (a b : Layout) : (a.union b).align = Nat.max a.align b.align := rfl
@[simp] theorem union_size (a b : Layout) :
    (a.union b).size = nextMultipleOf (Nat.max a.size b.size) (Nat.max a.align b.align) := rfl

theorem binv_add {b : LayoutBuilder} {l : Layout} (hb : BInv b) (hl : WF l) : BInv (b.add l).1 := by
  unfold BInv at *
  simp only [add_fst_align]
  exact ⟨natMax_pos hb.1, isPowerOfTwo_max hb.2 hl.2.1⟩

theorem wf_finish {b : LayoutBuilder} (hb : BInv b) : WF b.finish := by
  unfold WF
  simp only [finish_align, finish_size]
  exact ⟨hb.1, hb.2, nextMultipleOf_mod _ _ hb.1⟩

theorem wf_union {a b : Layout} (ha : WF a) (hb : WF b) : WF (a.union b) := by
  unfold WF
  simp only [union_align, union_size]
  have hpos : 0 < Nat.max a.align b.align := natMax_pos ha.1
  exact ⟨hpos, isPowerOfTwo_max ha.2.1 hb.2.1, nextMultipleOf_mod _ _ hpos⟩

/-- the five independently written enum loops start from the same builder
    state, and `()` is `size 0, align 1` — over the constants regenerated from
    each loop's own source -/
theorem loop_constants_agree :
    variantStartLoc = variantStart ∧ variantStartClone = variantStart ∧
    variantStartDrop = variantStart ∧ variantStartEq = variantStart ∧
    tagLayout = Layout.new 1 1 ∧ Gen.LayoutLoops.unit_layout = Layout.new 0 1 := by decide

@[simp] theorem variantStartLoc_eq : variantStartLoc = variantStart := loop_constants_agree.1
@[simp] theorem variantStartClone_eq : variantStartClone = variantStart := loop_constants_agree.2.1
@[simp] theorem variantStartDrop_eq : variantStartDrop = variantStart := loop_constants_agree.2.2.1
@[simp] theorem variantStartEq_eq : variantStartEq = variantStart := loop_constants_agree.2.2.2.1
@[simp] theorem unit_layout_eq : Gen.LayoutLoops.unit_layout = Layout.new 0 1 := loop_constants_agree.2.2.2.2.2

theorem wf_tag : WF tagLayout := by rw [loop_constants_agree.2.2.2.2.1]; unfold WF Layout.new; decide
theorem wf_unit : WF (Layout.new 0 1) := by unfold WF Layout.new; decide
theorem binv_variantStart : BInv variantStart := binv_add binv_new wf_tag

mutual
theorem layoutOf_wf : ∀ (t : Ty), leavesWf t = true → ∀ l, layoutOf t = some l → WF l
  | .unit, _, l, h => by
    simp [layoutOf] at h; subst h; exact wf_unit
  | .never, _, l, h => by simp [layoutOf] at h
  | .leaf k s a, hw, l, h => by
    simp [layoutOf] at h; subst h
    exact (wf_iff _).1 (by simpa [leavesWf] using hw)
  | .record fs, hw, l, h => by
    simp only [layoutOf] at h
    split at h
    · simp at h
    · rename_i b hb
      simp at h; subst h
      exact wf_finish (buildFields_inv fs (by simpa [leavesWf] using hw) _ _ binv_new hb)
  | .enum vs, hw, l, h => by
    simp only [layoutOf] at h
    exact enumLayout_wf vs (by simpa [leavesWf] using hw) none l (by simp) h
theorem buildFields_inv : ∀ (ts : Tys), leavesWfs ts = true →
    ∀ b b', BInv b → buildFields ts b = some b' → BInv b'
  | .nil, _, b, b', hb, h => by
    simp [buildFields] at h; subst h; exact hb
  | .cons t ts, hw, b, b', hb, h => by
    simp only [leavesWfs, Bool.and_eq_true] at hw
    simp only [buildFields] at h
    split at h
    · simp at h
    · rename_i l hl
      exact buildFields_inv ts hw.2 _ _ (binv_add hb (layoutOf_wf t hw.1 l hl)) h
theorem enumLayout_wf : ∀ (vs : Vars), leavesWfv vs = true →
    ∀ acc l, (∀ a, acc = some a → WF a) → enumLayout vs acc = some l → WF l
  | .nil, _, acc, l, hacc, h => by
    simp [enumLayout] at h; exact hacc l h
  | .cons v vs, hw, acc, l, hacc, h => by
    simp only [leavesWfv, Bool.and_eq_true] at hw
    simp only [enumLayout] at h
    split at h
    · exact enumLayout_wf vs hw.2 acc l hacc h
    · rename_i b hb
      have hfin : WF b.finish := wf_finish (buildFields_inv v hw.1 _ _ binv_variantStart hb)
      refine enumLayout_wf vs hw.2 _ l ?_ h
      intro a ha
      cases acc with
      | none => simp at ha; subst ha; exact hfin
      | some x => simp at ha; subst ha; exact wf_union (hacc x rfl) hfin
end

/-- the visits lie in `[lo, hi]` in order, each aligned to its own alignment,
    none overlapping the next -/
def Placed : Nat → List Visit → Nat → Prop
  | lo, [], hi => lo ≤ hi
  | lo, (_, off, t) :: r, hi =>
    ∃ l, layoutOf t = some l ∧ lo ≤ off ∧ (0 < l.align → off % l.align = 0) ∧ Placed (off + l.size) r hi

theorem placed_mono {lo lo' hi hi' : Nat} {vs : List Visit} (h : Placed lo vs hi) (h1 : lo' ≤ lo) (h2 : hi ≤ hi') :
    Placed lo' vs hi' := by
  induction vs generalizing lo lo' with
  | nil => simp only [Placed] at *; omega
  | cons v r ih =>
    obtain ⟨i, off, t⟩ := v
    simp only [Placed] at *
    obtain ⟨l, hl, h3, h4, h5⟩ := h
    exact ⟨l, hl, by omega, h4, ih h5 (Nat.le_refl _)⟩

theorem placed_lo_le_hi {lo hi : Nat} {vs : List Visit} (h : Placed lo vs hi) : lo ≤ hi := by
  induction vs generalizing lo with
  | nil => simpa [Placed] using h
  | cons v r ih =>
    obtain ⟨i, off, t⟩ := v
    simp only [Placed] at h
    obtain ⟨l, _, h3, _, h5⟩ := h
    have := ih h5
    omega

/-- `layout_of`'s placement walks exactly like `buildFields` and places the
    fields in order without overlap -/
theorem placement_placed : ∀ (ts : Tys) (i : Nat) (b : LayoutBuilder) (vs : List Visit),
    placement ts i b = some vs →
    ∃ b', buildFields ts b = some b' ∧ Placed b.size vs b'.size ∧ vs.length = ts.length
  | .nil, i, b, vs, h => by
    simp [placement] at h; subst h
    exact ⟨b, rfl, by simp [Placed], rfl⟩
  | .cons t ts, i, b, vs, h => by
    cases hl : layoutOf t with
    | none => simp [placement, hl] at h
    | some l =>
      cases hvs : placement ts (i + 1) (b.add l).1 with
      | none => simp [placement, hl, hvs] at h
      | some vs' =>
        simp [placement, hl, hvs] at h; subst h
        obtain ⟨b', hb', hp, hlen⟩ := placement_placed ts (i + 1) _ vs' hvs
        refine ⟨b', by simp [buildFields, hl, hb'], ?_, by simp [Tys.length, hlen]⟩
        simp only [Placed]
        refine ⟨l, hl, ?_, ?_, ?_⟩
        · exact nextMultipleOf_ge _ _
        · intro hpos; exact nextMultipleOf_mod _ _ hpos
        · simpa using hp

theorem buildFields_placement : ∀ (ts : Tys) (i : Nat) (b b' : LayoutBuilder),
    buildFields ts b = some b' → ∃ vs, placement ts i b = some vs
  | .nil, i, b, b', h => ⟨[], rfl⟩
  | .cons t ts, i, b, b', h => by
    simp only [buildFields] at h
    split at h
    · simp at h
    · rename_i l hl
      obtain ⟨vs, hvs⟩ := buildFields_placement ts (i + 1) _ b' h
      exact ⟨(i, (b.add l).2, t) :: vs, by simp [placement, hl, hvs]⟩

theorem variantStart_eq : variantStart = { size := 1, align := 1 } := by decide

theorem finish_size_ge (b : LayoutBuilder) : b.size ≤ b.finish.size := by
  simp only [finish_size]; exact nextMultipleOf_ge _ _

theorem union_size_ge (a b : Layout) : a.size ≤ (a.union b).size ∧ b.size ≤ (a.union b).size := by
  simp only [union_size]
  have h := nextMultipleOf_ge (Nat.max a.size b.size) (Nat.max a.align b.align)
  rw [natMax_eq] at h ⊢
  constructor <;> omega

/-- every inhabited variant fits into the enum's layout -/
theorem enumLayout_ge : ∀ (vs : Vars) (acc : Option Layout) (L : Layout),
    enumLayout vs acc = some L →
    (∀ a, acc = some a → a.size ≤ L.size) ∧
    (∀ k fields b, vs.get? k = some fields → buildFields fields variantStart = some b →
      b.finish.size ≤ L.size)
  | .nil, acc, L, h => by
    simp [enumLayout] at h; subst h
    exact ⟨by intro a ha; cases ha; exact Nat.le_refl _, by intro k fields b hk; simp [Vars.get?] at hk⟩
  | .cons v vs, acc, L, h => by
    cases hb : buildFields v variantStart with
    | none =>
      simp [enumLayout, hb] at h
      obtain ⟨h1, h2⟩ := enumLayout_ge vs acc L h
      refine ⟨h1, ?_⟩
      intro k fields b hk hbf
      cases k with
      | zero => simp [Vars.get?] at hk; subst hk; simp [hb] at hbf
      | succ k => simp [Vars.get?] at hk; exact h2 k fields b hk hbf
    | some bv =>
      simp [enumLayout, hb] at h
      obtain ⟨h1, h2⟩ := enumLayout_ge vs _ L h
      constructor
      · intro a ha; subst ha
        have := h1 _ rfl
        have := (union_size_ge a bv.finish).1
        simp at *; omega
      · intro k fields b hk hbf
        cases k with
        | zero =>
          simp [Vars.get?] at hk; subst hk
          rw [hb] at hbf; cases hbf
          cases acc with
          | none => exact h1 _ rfl
          | some a =>
            have := h1 _ rfl
            have := (union_size_ge a bv.finish).2
            simp at *; omega
        | succ k => simp [Vars.get?] at hk; exact h2 k fields b hk hbf

/-! ### the four offset loops agree -/

/-- whenever `get_field` finds field `n` at an offset, the generated clone
    function touches field `n` at that very offset (no hypothesis on the
    record: `get_field` succeeding already forces fields `0..n` inhabited) -/
theorem getField_mem_clone : ∀ (ts : Tys) (n i : Nat) (b : LayoutBuilder) (off : Nat) (t : Ty),
    getField ts n b = .ok (off, t) → (i + n, off, t) ∈ cloneRecordLoop ts i b
  | .nil, n, i, b, off, t, h => by simp [getField] at h
  | .cons t' ts, n, i, b, off, t, h => by
    cases hl : layoutOf t' with
    | none => simp [getField, hl] at h
    | some l =>
      cases n with
      | zero =>
        simp [getField, hl] at h
        obtain ⟨h1, h2⟩ := h
        subst h1; subst h2
        simp [cloneRecordLoop, hl]
      | succ n =>
        simp [getField, hl] at h
        have := getField_mem_clone ts n (i + 1) _ off t h
        have e : i + (n + 1) = i + 1 + n := by omega
        simp only [cloneRecordLoop, hl]
        rw [e]; exact List.mem_cons_of_mem _ this

theorem getField_mem_eq : ∀ (ts : Tys) (n i : Nat) (b : LayoutBuilder) (off : Nat) (t : Ty),
    getField ts n b = .ok (off, t) → (i + n, off, t) ∈ eqRecordLoop ts i b
  | .nil, n, i, b, off, t, h => by simp [getField] at h
  | .cons t' ts, n, i, b, off, t, h => by
    cases hl : layoutOf t' with
    | none => simp [getField, hl] at h
    | some l =>
      cases n with
      | zero =>
        simp [getField, hl] at h
        obtain ⟨h1, h2⟩ := h
        subst h1; subst h2
        simp [eqRecordLoop, hl]
      | succ n =>
        simp [getField, hl] at h
        have := getField_mem_eq ts n (i + 1) _ off t h
        have e : i + (n + 1) = i + 1 + n := by omega
        simp only [eqRecordLoop, hl]
        rw [e]; exact List.mem_cons_of_mem _ this

theorem getField_mem_drop : ∀ (ts : Tys) (n i : Nat) (b : LayoutBuilder) (off : Nat) (t : Ty),
    getField ts n b = .ok (off, t) → needsDrop t = true → (i + n, off, t) ∈ dropRecordLoop ts i b
  | .nil, n, i, b, off, t, h, _ => by simp [getField] at h
  | .cons t' ts, n, i, b, off, t, h, hd => by
    cases hl : layoutOf t' with
    | none => simp [getField, hl] at h
    | some l =>
      cases n with
      | zero =>
        simp [getField, hl] at h
        obtain ⟨h1, h2⟩ := h
        subst h2
        simp [dropRecordLoop, hl, hd, h1]
      | succ n =>
        simp [getField, hl] at h
        have := getField_mem_drop ts n (i + 1) _ off t h hd
        have e : i + (n + 1) = i + 1 + n := by omega
        rw [e]
        simp only [dropRecordLoop, hl]
        split
        · exact this
        · exact List.mem_cons_of_mem _ this

theorem getField_mem_placement : ∀ (ts : Tys) (n i : Nat) (b : LayoutBuilder) (off : Nat) (t : Ty)
    (vs : List Visit), getField ts n b = .ok (off, t) → placement ts i b = some vs → (i + n, off, t) ∈ vs
  | .nil, n, i, b, off, t, vs, h, _ => by simp [getField] at h
  | .cons t' ts, n, i, b, off, t, vs, h, hp => by
    cases hl : layoutOf t' with
    | none => simp [getField, hl] at h
    | some l =>
      cases hvs : placement ts (i + 1) (b.add l).1 with
      | none => simp [placement, hl, hvs] at hp
      | some vs' =>
        simp [placement, hl, hvs] at hp; subst hp
        cases n with
        | zero =>
          simp [getField, hl] at h
          simp [h.1, h.2]
        | succ n =>
          simp [getField, hl] at h
          have := getField_mem_placement ts n (i + 1) _ off t vs' h hvs
          have e : i + (n + 1) = i + 1 + n := by omega
          rw [e]; exact List.mem_cons_of_mem _ this

/-- on an inhabited record the loops of clone and eq produce exactly
    `layout_of`'s placement; drop produces the part that needs dropping -/
theorem placement_loops : ∀ (ts : Tys) (i : Nat) (b : LayoutBuilder) (vs : List Visit),
    placement ts i b = some vs →
    cloneRecordLoop ts i b = vs ∧ eqRecordLoop ts i b = vs ∧
    dropRecordLoop ts i b = vs.filter (fun v => needsDrop v.2.2)
  | .nil, i, b, vs, h => by simp [placement] at h; subst h; simp [cloneRecordLoop, eqRecordLoop, dropRecordLoop]
  | .cons t ts, i, b, vs, h => by
    cases hl : layoutOf t with
    | none => simp [placement, hl] at h
    | some l =>
      cases hvs : placement ts (i + 1) (b.add l).1 with
      | none => simp [placement, hl, hvs] at h
      | some vs' =>
        simp [placement, hl, hvs] at h; subst h
        obtain ⟨h1, h2, h3⟩ := placement_loops ts (i + 1) _ vs' hvs
        refine ⟨by simp [cloneRecordLoop, hl, h1], by simp [eqRecordLoop, hl, h2], ?_⟩
        simp only [dropRecordLoop, hl]
        cases hd : needsDrop t <;> simp [hd, h3, List.filter]

/-- on an inhabited record / variant `get_field` finds every field, at the
    offset `layout_of` placed it -/
theorem getField_total : ∀ (ts : Tys) (n i : Nat) (b : LayoutBuilder) (vs : List Visit),
    placement ts i b = some vs → n < ts.length →
    ∃ off t, getField ts n b = .ok (off, t) ∧ ts.get? n = some t ∧ (i + n, off, t) ∈ vs
  | .nil, n, i, b, vs, _, hn => by simp [Tys.length] at hn
  | .cons t' ts, n, i, b, vs, hp, hn => by
    cases hl : layoutOf t' with
    | none => simp [placement, hl] at hp
    | some l =>
      cases hvs : placement ts (i + 1) (b.add l).1 with
      | none => simp [placement, hl, hvs] at hp
      | some vs' =>
        simp [placement, hl, hvs] at hp; subst hp
        cases n with
        | zero => exact ⟨(b.add l).2, t', by simp [getField, hl], by simp [Tys.get?], by simp⟩
        | succ n =>
          simp [Tys.length] at hn
          obtain ⟨off, t, h1, h2, h3⟩ := getField_total ts n (i + 1) _ vs' hvs hn
          refine ⟨off, t, by simpa [getField, hl] using h1, by simpa [Tys.get?] using h2, ?_⟩
          have e : i + (n + 1) = i + 1 + n := by omega
          rw [e]; exact List.mem_cons_of_mem _ h3

/-- the `take(n + 1)` loop of the `VariantField` arm computes what
    `get_field`'s loop computes -/
theorem variantFieldLoop_of_getField : ∀ (ts : Tys) (n : Nat) (b : LayoutBuilder) (last : Option (Nat × Ty))
    (r : Nat × Ty), getField ts n b = .ok r → variantFieldLoop ts (n + 1) b last = some (some r)
  | .nil, n, b, last, r, h => by simp [getField] at h
  | .cons t' ts, n, b, last, r, h => by
    cases hl : layoutOf t' with
    | none => simp [getField, hl] at h
    | some l =>
      cases n with
      | zero =>
        simp [getField, hl] at h
        subst h
        simp [variantFieldLoop, hl]
      | succ n =>
        simp [getField, hl] at h
        have := variantFieldLoop_of_getField ts n _ (some ((b.add l).2, t')) r h
        simpa [variantFieldLoop, hl] using this

/-- on an inhabited variant the three per-variant loops produce exactly
    `layout_of`'s placement -/
theorem placement_variant_loops : ∀ (ts : Tys) (i : Nat) (b : LayoutBuilder) (vs : List Visit),
    placement ts i b = some vs →
    ∃ ls, collectLayouts ts = some ls ∧ cloneVariantLoop ls i b = vs ∧
      dropVariantLoop ls i b = vs ∧ eqVariantLoop ls i b = vs
  | .nil, i, b, vs, h => by
    simp [placement] at h; subst h
    exact ⟨[], rfl, rfl, rfl, rfl⟩
  | .cons t ts, i, b, vs, h => by
    cases hl : layoutOf t with
    | none => simp [placement, hl] at h
    | some l =>
      cases hvs : placement ts (i + 1) (b.add l).1 with
      | none => simp [placement, hl, hvs] at h
      | some vs' =>
        simp [placement, hl, hvs] at h; subst h
        obtain ⟨ls, h0, h1, h2, h3⟩ := placement_variant_loops ts (i + 1) _ vs' hvs
        refine ⟨(t, l) :: ls, by simp [collectLayouts, hl, h0], ?_, ?_, ?_⟩
        · simp [cloneVariantLoop, h1]
        · simp [dropVariantLoop, h2]
        · simp [eqVariantLoop, h3]

theorem collectLayouts_placement : ∀ (ts : Tys) (i : Nat) (b : LayoutBuilder) (ls : List (Ty × Layout)),
    collectLayouts ts = some ls → ∃ vs, placement ts i b = some vs
  | .nil, i, b, ls, h => ⟨[], rfl⟩
  | .cons t ts, i, b, ls, h => by
    cases hl : layoutOf t with
    | none => simp [collectLayouts, hl] at h
    | some l =>
      cases hc : collectLayouts ts with
      | none => simp [collectLayouts, hl, hc] at h
      | some ls' =>
        obtain ⟨vs, hvs⟩ := collectLayouts_placement ts (i + 1) (b.add l).1 ls' hc
        exact ⟨(i, (b.add l).2, t) :: vs, by simp [placement, hl, hvs]⟩

theorem collectLayouts_none_placement : ∀ (ts : Tys) (i : Nat) (b : LayoutBuilder),
    collectLayouts ts = none → placement ts i b = none ∧ buildFields ts b = none
  | .nil, i, b, h => by simp [collectLayouts] at h
  | .cons t ts, i, b, h => by
    cases hl : layoutOf t with
    | none => simp [placement, buildFields, hl]
    | some l =>
      cases hc : collectLayouts ts with
      | none =>
        obtain ⟨h1, h2⟩ := collectLayouts_none_placement ts (i + 1) (b.add l).1 hc
        simp [placement, buildFields, hl, h1, h2]
      | some ls' => simp [collectLayouts, hl, hc] at h

/-- what `Placed` says, spelled out: every visit has a layout, lies inside
    `[lo, hi]`, is aligned; any two are in order and do not overlap -/
theorem placed_explicit {lo hi : Nat} {vs : List Visit} (h : Placed lo vs hi) :
    (∀ v ∈ vs, ∃ l, layoutOf v.2.2 = some l ∧ lo ≤ v.2.1 ∧ v.2.1 + l.size ≤ hi ∧
        (0 < l.align → v.2.1 % l.align = 0)) ∧
    vs.Pairwise (fun a b => ∀ la, layoutOf a.2.2 = some la → a.2.1 + la.size ≤ b.2.1) := by
  induction vs generalizing lo with
  | nil => simp
  | cons v r ih =>
    obtain ⟨i, off, t⟩ := v
    simp only [Placed] at h
    obtain ⟨l, hl, h1, h2, h3⟩ := h
    obtain ⟨ih1, ih2⟩ := ih h3
    have hle := placed_lo_le_hi h3
    constructor
    · intro v hv
      simp at hv
      rcases hv with rfl | hv
      · exact ⟨l, hl, h1, hle, h2⟩
      · obtain ⟨l', a, b, c, d⟩ := ih1 v hv
        exact ⟨l', a, by omega, c, d⟩
    · refine List.Pairwise.cons ?_ ih2
      intro b hb la hla
      simp at hla
      rw [hl] at hla; cases hla
      obtain ⟨_, _, c, _, _⟩ := ih1 b hb
      exact c

theorem record_placed (fs : Tys) (L : Layout) (h : layoutOf (.record fs) = some L) :
    ∃ vs, placement fs 0 LayoutBuilder.new = some vs ∧ vs.length = fs.length ∧ Placed 0 vs L.size := by
  cases hb : buildFields fs LayoutBuilder.new with
  | none => simp [layoutOf, hb] at h
  | some b =>
    simp [layoutOf, hb] at h; subst h
    obtain ⟨vs, hvs⟩ := buildFields_placement fs 0 _ b hb
    obtain ⟨b', hb', hp, hlen⟩ := placement_placed fs 0 _ vs hvs
    rw [hb] at hb'; cases hb'
    exact ⟨vs, hvs, hlen, placed_mono hp (Nat.zero_le _) (finish_size_ge b)⟩

theorem variant_placed (vs : Vars) (L : Layout) (h : layoutOf (.enum vs) = some L)
    (k : Nat) (fields : Tys) (hk : vs.get? k = some fields) (ls : List (Ty × Layout))
    (hinh : collectLayouts fields = some ls) :
    ∃ ps, placement fields 0 variantStart = some ps ∧ ps.length = fields.length ∧ Placed 1 ps L.size := by
  obtain ⟨ps, hps⟩ := collectLayouts_placement fields 0 variantStart ls hinh
  obtain ⟨b', hb', hp, hlen⟩ := placement_placed fields 0 _ ps hps
  have hge := (enumLayout_ge vs none L (by simpa [layoutOf] using h)).2 k fields b' hk hb'
  exact ⟨ps, hps, hlen,
    placed_mono hp (by rw [variantStart_eq]; exact Nat.le_refl _) (Nat.le_trans (finish_size_ge b') hge)⟩

end RotoV.Layout
