import RotoV.Model.Layout
namespace RotoV.Layout
open RotoV.LayoutStd RotoV.Gen.LayoutGen

theorem nextMultipleOf_ge (a b : Nat) : a ≤ nextMultipleOf a b := by
  unfold nextMultipleOf; split <;> omega

theorem nextMultipleOf_mod (a b : Nat) (hb : 0 < b) : nextMultipleOf a b % b = 0 := by
  unfold nextMultipleOf
  split
  · assumption
  · have h1 : a % b < b := Nat.mod_lt _ hb
    have h2 : a = b * (a / b) + a % b := (Nat.div_add_mod a b).symm
    have : a + (b - a % b) = b * (a / b + 1) := by
      rw [Nat.mul_add]; omega
    rw [this]; exact Nat.mul_mod_right _ _

theorem nextMultipleOf_lt (a b : Nat) (hb : 0 < b) : nextMultipleOf a b < a + b := by
  unfold nextMultipleOf
  split
  · omega
  · have h1 : a % b < b := Nat.mod_lt _ hb
    omega

theorem nextMultipleOf_of_mod (a b : Nat) (h : a % b = 0) : nextMultipleOf a b = a := by
  unfold nextMultipleOf; simp [h]

theorem isPowerOfTwo_iff (n : Nat) : isPowerOfTwo n = true ↔ ∃ k, n = 2 ^ k := by
  unfold isPowerOfTwo
  constructor
  · intro h
    simp at h
    exact ⟨n.log2, h.2⟩
  · rintro ⟨k, rfl⟩
    simp [Nat.log2_two_pow]

/-- the three `assert!`s of `Layout::new`, as a proposition -/
def WF (l : Layout) : Prop := 0 < l.align ∧ isPowerOfTwo l.align = true ∧ l.size % l.align = 0

theorem isMultipleOf_iff (a b : Nat) (hb : 0 < b) : isMultipleOf a b = true ↔ a % b = 0 := by
  unfold isMultipleOf
  have : b ≠ 0 := by omega
  simp [this]

theorem wf_iff (l : Layout) : Layout.wf l = true ↔ WF l := by
  unfold Layout.wf Layout.new_asserts WF
  constructor
  · intro h
    simp at h
    obtain ⟨h1, h2, h3⟩ := h
    exact ⟨h1, h2, (isMultipleOf_iff _ _ h1).1 h3⟩
  · rintro ⟨h1, h2, h3⟩
    simp [h1, h2, (isMultipleOf_iff _ _ h1).2 h3]

/-- invariant of a `LayoutBuilder` -/
def BInv (b : LayoutBuilder) : Prop := 0 < b.align ∧ isPowerOfTwo b.align = true

theorem binv_new : BInv LayoutBuilder.new := by
  unfold BInv LayoutBuilder.new; decide

theorem natMax_eq (a b : Nat) : Nat.max a b = max a b := rfl

theorem natMax_cases (a b : Nat) : (Nat.max a b = a ∧ b ≤ a) ∨ (Nat.max a b = b ∧ a ≤ b) := by
  rw [natMax_eq]; omega

theorem isPowerOfTwo_max {a b : Nat} (ha : isPowerOfTwo a = true) (hb : isPowerOfTwo b = true) :
    isPowerOfTwo (Nat.max a b) = true := by
  rcases natMax_cases a b with h | h <;> rw [h.1] <;> assumption

theorem natMax_pos {a b : Nat} (ha : 0 < a) : 0 < Nat.max a b := by
  rw [natMax_eq]; omega

@[simp] theorem add_fst_align (b : LayoutBuilder) (l : Layout) :
    (b.add l).1.align = Nat.max b.align l.align := rfl
@[simp] theorem add_fst_size (b : LayoutBuilder) (l : Layout) :
    (b.add l).1.size = nextMultipleOf b.size l.align + l.size := rfl
@[simp] theorem add_snd (b : LayoutBuilder) (l : Layout) :
    (b.add l).2 = nextMultipleOf b.size l.align := rfl
@[simp] theorem finish_align (b : LayoutBuilder) : b.finish.align = b.align := rfl
@[simp] theorem finish_size (b : LayoutBuilder) : b.finish.size = nextMultipleOf b.size b.align := rfl
@[simp] theorem union_align (a b : Layout) : (a.union b).align = Nat.max a.align b.align := rfl
@[simp] theorem union_size (a b : Layout) :
    (a.union b).size = nextMultipleOf (Nat.max a.size b.size) (Nat.max a.align b.align) := rfl

theorem binv_add {b : LayoutBuilder} {l : Layout} (hb : BInv b) (hl : WF l) : BInv (b.add l).1 := by
  unfold BInv at *
  simp only [add_fst_align]
  exact ⟨natMax_pos hb.1, isPowerOfTwo_max hb.2 hl.2.1⟩

theorem wf_finish {b : LayoutBuilder} (hb : BInv b) : WF b.finish := by
  unfold WF
  simp only [finish_align, finish_size]
  exact ⟨hb.1, hb.2, nextMultipleOf_mod _ _ hb.1⟩

theorem wf_union {a b : Layout} (ha : WF a) (hb : WF b) : WF (a.union b) := by
  unfold WF
  simp only [union_align, union_size]
  have hpos : 0 < Nat.max a.align b.align := natMax_pos ha.1
  exact ⟨hpos, isPowerOfTwo_max ha.2.1 hb.2.1, nextMultipleOf_mod _ _ hpos⟩

theorem wf_tag : WF tagLayout := by unfold WF tagLayout Layout.new; decide
theorem wf_unit : WF (Layout.new 0 1) := by unfold WF Layout.new; decide
theorem binv_variantStart : BInv variantStart := binv_add binv_new wf_tag

mutual
theorem layoutOf_wf : ∀ (t : Ty), leavesWf t = true → ∀ l, layoutOf t = some l → WF l
  | .unit, _, l, h => by
    simp [layoutOf] at h; subst h; exact wf_unit
  | .never, _, l, h => by simp [layoutOf] at h
  | .leaf k s a, hw, l, h => by
    simp [layoutOf] at h; subst h
    exact (wf_iff _).1 (by simpa [leavesWf] using hw)
  | .record fs, hw, l, h => by
    simp only [layoutOf] at h
    split at h
    · simp at h
    · rename_i b hb
      simp at h; subst h
      exact wf_finish (buildFields_inv fs (by simpa [leavesWf] using hw) _ _ binv_new hb)
  | .enum vs, hw, l, h => by
    simp only [layoutOf] at h
    exact enumLayout_wf vs (by simpa [leavesWf] using hw) none l (by simp) h
theorem buildFields_inv : ∀ (ts : Tys), leavesWfs ts = true →
    ∀ b b', BInv b → buildFields ts b = some b' → BInv b'
  | .nil, _, b, b', hb, h => by
    simp [buildFields] at h; subst h; exact hb
  | .cons t ts, hw, b, b', hb, h => by
    simp only [leavesWfs, Bool.and_eq_true] at hw
    simp only [buildFields] at h
    split at h
    · simp at h
    · rename_i l hl
      exact buildFields_inv ts hw.2 _ _ (binv_add hb (layoutOf_wf t hw.1 l hl)) h
theorem enumLayout_wf : ∀ (vs : Vars), leavesWfv vs = true →
    ∀ acc l, (∀ a, acc = some a → WF a) → enumLayout vs acc = some l → WF l
  | .nil, _, acc, l, hacc, h => by
    simp [enumLayout] at h; exact hacc l h
  | .cons v vs, hw, acc, l, hacc, h => by
    simp only [leavesWfv, Bool.and_eq_true] at hw
    simp only [enumLayout] at h
    split at h
    · exact enumLayout_wf vs hw.2 acc l hacc h
    · rename_i b hb
      have hfin : WF b.finish := wf_finish (buildFields_inv v hw.1 _ _ binv_variantStart hb)
      refine enumLayout_wf vs hw.2 _ l ?_ h
      intro a ha
      cases acc with
      | none => simp at ha; subst ha; exact hfin
      | some x => simp at ha; subst ha; exact wf_union (hacc x rfl) hfin
end

end RotoV.Layout
