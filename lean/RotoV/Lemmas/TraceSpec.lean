/-
  Helper lemmas about the writer-style result `R` of `Model/TraceSpec.lean`.
-/
import RotoV.Model.TraceSpec

namespace RotoV.TraceSpec

theorem bind_eq {α β} (r : R α) (f : α → R β) : (r >>= f) = R.bind r f := rfl
theorem pure_eq {α} (a : α) : (pure a : R α) = R.ok a := rfl

/-- The calls made by a continuation that only runs when `r` ended normally. -/
def R.after {α} (r : R α) (k : α → Trace) : Trace :=
  match r.out with
  | .ok a => k a
  | _ => []

/-- `r` ended normally with `a`, having made the calls `t`. -/
def R.yields {α} (r : R α) (t : Trace) (a : α) : Prop := r.tr = t ∧ r.out = .ok a

/-- `r` is an in-flight return of `v`, having made the calls `t`. -/
def R.leaves {α} (r : R α) (t : Trace) (v : Val) : Prop := r.tr = t ∧ r.out = .ret v

instance {α} [DecidableEq α] (r : R α) (t : Trace) (a : α) : Decidable (r.yields t a) := by
  unfold R.yields; exact inferInstance

instance {α} [DecidableEq α] (r : R α) (t : Trace) (v : Val) : Decidable (r.leaves t v) := by
  unfold R.leaves; exact inferInstance

theorem R.bind_tr {α β} (r : R α) (f : α → R β) :
    (R.bind r f).tr = r.tr ++ r.after (fun a => (f a).tr) := by
  unfold R.bind R.after
  cases h : r.out <;> simp

theorem R.bind_yields {α β} {r : R α} {f : α → R β} {t a} (h : r.yields t a) :
    R.bind r f = ⟨t ++ (f a).tr, (f a).out⟩ := by
  obtain ⟨h1, h2⟩ := h
  unfold R.bind
  rw [h2, h1]

theorem R.bind_leaves {α β} {r : R α} {f : α → R β} {t v} (h : r.leaves t v) :
    R.bind r f = ⟨t, .ret v⟩ := by
  obtain ⟨h1, h2⟩ := h
  unfold R.bind
  rw [h2, h1]

theorem getField_inv {env : Env} {x i : Nat} {a : Int} (h : getField env x i = some a) :
    ∃ fs, lookup env x = some (.recd fs) ∧ fs[i]? = some a := by
  unfold getField at h
  split at h
  · rename_i fs hl; exact ⟨fs, hl, h⟩
  · cases h

theorem setField_inv {env env' : Env} {x i : Nat} {k : Int} (h : setField env x i k = some env') :
    ∃ fs, lookup env x = some (.recd fs) ∧ i < fs.length ∧ update env x (.recd (fs.set i k)) = some env' := by
  unfold setField at h
  split at h
  · rename_i fs hl
    by_cases hi : i < fs.length
    · simp [hi] at h; exact ⟨fs, hl, hi, h⟩
    · simp [hi] at h
  · cases h

/-! ### how a `while` loop unfolds -/

/-- `LoopRun fns c b env cs bs env'`: started in `env`, the loop `while c { b }`
    evaluates its condition with the call traces `cs` (in order) and its body
    with the call traces `bs`, and ends in `env'`: the last evaluation of the
    condition says `false`, every earlier one said `true` and was followed by
    one run of the body. -/
inductive LoopRun (fns : List FnDef) (c : Expr) (b : Block) : Env → List Trace → List Trace → Env → Prop
  | done {env env' tc k} :
      evalExpr fns k env c = ⟨tc, .ok (env', .bool false)⟩ → LoopRun fns c b env [tc] [] env'
  | step {env env1 env2 env' tc tb k k' bv cs bs} :
      evalExpr fns k env c = ⟨tc, .ok (env1, .bool true)⟩ →
      evalBlock fns k' env1 b = ⟨tb, .ok (env2, bv)⟩ →
      LoopRun fns c b env2 cs bs env' → LoopRun fns c b env (tc :: cs) (tb :: bs) env'

/-- condition, body, condition, body, …, condition -/
def weave : List Trace → List Trace → Trace
  | c :: cs, b :: bs => c ++ b ++ weave cs bs
  | cs, [] => cs.flatten
  | [], _ :: _ => []

theorem R.bind_ok_iff {α β} {r : R α} {f : α → R β} {t : Trace} {b : β} :
    R.bind r f = ⟨t, .ok b⟩ ↔ ∃ t1 a t2, r = ⟨t1, .ok a⟩ ∧ f a = ⟨t2, .ok b⟩ ∧ t = t1 ++ t2 := by
  obtain ⟨rt, ro⟩ := r
  constructor
  · intro h
    cases ro with
    | ok a =>
      simp only [R.bind] at h
      refine ⟨rt, a, (f a).tr, rfl, ?_, ?_⟩
      · cases hf : f a; simp_all
      · simp_all
    | ret v => simp [R.bind] at h
    | fuel => simp [R.bind] at h
    | stuck w => simp [R.bind] at h
  · rintro ⟨t1, a, t2, h1, h2, h3⟩
    cases h1
    simp [R.bind, h2, h3]

theorem while_unfolds (fns : List FnDef) (c : Expr) (b : Block) :
    ∀ (n : Nat) (env env' : Env) (t : Trace) (v : Val),
      evalWhile fns n env c b = ⟨t, .ok (env', v)⟩ →
      ∃ cs bs, LoopRun fns c b env cs bs env' ∧ cs.length = bs.length + 1 ∧ t = weave cs bs
  | 0, _, _, _, _, h => by simp [evalWhile, R.fuel] at h
  | n + 1, env, env', t, v, h => by
    simp only [evalWhile, bind_eq, R.bind_ok_iff] at h
    obtain ⟨t1, ⟨env1, cv⟩, t2, hc, h2, rfl⟩ := h
    cases cv with
    | bool bv =>
      cases bv with
      | false =>
        simp [pure_eq, R.ok] at h2
        obtain ⟨rfl, rfl, rfl⟩ := h2
        exact ⟨[t1], [], .done hc, rfl, by simp [weave]⟩
      | true =>
        simp only [bind_eq, R.bind_ok_iff] at h2
        obtain ⟨t3, ⟨env2, bvl⟩, t4, hb, hrest, rfl⟩ := h2
        obtain ⟨cs, bs, hrun, hlen, rfl⟩ := while_unfolds fns c b n env2 env' t4 v hrest
        exact ⟨t1 :: cs, t3 :: bs, .step hc hb hrun, by simp [hlen], by simp [weave]⟩
    | _ => simp [R.stuck] at h2

/-! ### how a `for` loop unfolds -/

/-- `ForRun fns x b env xs bs env'`: the loop `for x in … { b }` over the elements `xs`,
    started in `env`, runs the body once per element, in order, with the call traces `bs`. -/
inductive ForRun (fns : List FnDef) (x : Nat) (b : Block) : Env → List Int → List Trace → Env → Prop
  | done {env} : ForRun fns x b env [] [] env
  | step {env env1 env' v vs tb k bv bs} :
      evalBlock fns k ((x, .int v) :: env) b = ⟨tb, .ok (env1, bv)⟩ →
      ForRun fns x b (leave env env1) vs bs env' → ForRun fns x b env (v :: vs) (tb :: bs) env'

theorem for_unfolds (fns : List FnDef) (x : Nat) (b : Block) :
    ∀ (n : Nat) (env env' : Env) (xs : List Int) (t : Trace) (v : Val),
      evalFor fns n env x xs b = ⟨t, .ok (env', v)⟩ →
      ∃ bs, ForRun fns x b env xs bs env' ∧ bs.length = xs.length ∧ t = bs.flatten
  | 0, _, _, _, _, _, h => by simp [evalFor, R.fuel] at h
  | n + 1, env, env', [], t, v, h => by
    simp [evalFor, R.ok] at h
    obtain ⟨rfl, rfl, rfl⟩ := h
    exact ⟨[], .done, rfl, rfl⟩
  | n + 1, env, env', w :: ws, t, v, h => by
    simp only [evalFor] at h
    cases hx : lookup env x with
    | some _ => simp [hx, R.stuck] at h
    | none =>
      simp only [hx, bind_eq, R.bind_ok_iff] at h
      obtain ⟨t1, ⟨env1, bv⟩, t2, hb, hrest, rfl⟩ := h
      obtain ⟨bs, hrun, hlen, rfl⟩ := for_unfolds fns x b n (leave env env1) env' ws t2 v hrest
      exact ⟨t1 :: bs, .step hb hrun, by simp [hlen], by simp⟩

end RotoV.TraceSpec
