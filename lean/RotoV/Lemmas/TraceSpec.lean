/-
  Helper lemmas about the writer-style result `R` of `Model/TraceSpec.lean`.
-/
import RotoV.Model.TraceSpec

namespace RotoV.TraceSpec

theorem bind_eq {α β} (r : R α) (f : α → R β) : (r >>= f) = R.bind r f := rfl
theorem pure_eq {α} (a : α) : (pure a : R α) = R.ok a := rfl

/-- The calls made by a continuation that only runs when `r` ended normally. -/
def R.after {α} (r : R α) (k : α → Trace) : Trace :=
  match r.out with
  | .ok a => k a
  | _ => []

/-- `r` ended normally with `a`, having made the calls `t`. -/
def R.yields {α} (r : R α) (t : Trace) (a : α) : Prop := r.tr = t ∧ r.out = .ok a

/-- `r` is an in-flight return of `v`, having made the calls `t`. -/
def R.leaves {α} (r : R α) (t : Trace) (v : Val) : Prop := r.tr = t ∧ r.out = .ret v

theorem R.bind_tr {α β} (r : R α) (f : α → R β) :
    (R.bind r f).tr = r.tr ++ r.after (fun a => (f a).tr) := by
  unfold R.bind R.after
  cases h : r.out <;> simp

theorem R.bind_yields {α β} {r : R α} {f : α → R β} {t a} (h : r.yields t a) :
    R.bind r f = ⟨t ++ (f a).tr, (f a).out⟩ := by
  obtain ⟨h1, h2⟩ := h
  unfold R.bind
  rw [h2, h1]

theorem R.bind_leaves {α β} {r : R α} {f : α → R β} {t v} (h : r.leaves t v) :
    R.bind r f = ⟨t, .ret v⟩ := by
  obtain ⟨h1, h2⟩ := h
  unfold R.bind
  rw [h2, h1]

end RotoV.TraceSpec
