import RotoV.Lemmas.Tarjan
namespace RotoV.Tarjan
end RotoV.Tarjan
