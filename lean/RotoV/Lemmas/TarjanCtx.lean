/-
  The invariant of `determine_uses_context` ("assume false while on the stack,
  do not cache such results") and what `context_check` decides.
-/
import RotoV.Lemmas.Tarjan

namespace RotoV.Tarjan

/-- `a` reaches a context variable -/
def UsesCtx (g : Graph) (a : Nat) : Prop := ∃ x, Reach g a x ∧ g.kind x = .ctx

theorem UsesCtx.step {g : Graph} {a b : Nat} (e : Edge g a b) (h : UsesCtx g b) : UsesCtx g a := by
  obtain ⟨x, r, k⟩ := h
  exact ⟨x, .step e r, k⟩

/-- State invariant along a run in which every call so far returned `false`.
`stack` are the names whose `determine_uses_context` call is still active. -/
structure CInv (g : Graph) (st : CState) (stack : List Nat) : Prop where
  /-- no `true` has been cached (a `true` aborts the whole check) -/
  allFalse : ∀ n b, st.usesContext.lookup n = some b → b = false
  /-- a cached `false` is justified up to names still on the stack -/
  closed : ∀ n, st.usesContext.lookup n = some false →
    g.kind n ≠ .ctx ∧ ∀ r, Edge g n r → (st.usesContext.lookup r = some false ∨ r ∈ stack)
  /-- names on the stack are visited and not cached -/
  stackFresh : ∀ n, n ∈ stack → st.usesContext.lookup n = none ∧ n ∈ st.visited
  /-- visited names are cached or on the stack -/
  visited : ∀ n, n ∈ st.visited → (st.usesContext.lookup n = some false ∨ n ∈ stack)

/-- the caches only grow -/
def CMono (st st' : CState) : Prop :=
  (∀ n v, st.usesContext.lookup n = some v → st'.usesContext.lookup n = some v) ∧
  (∀ n, n ∈ st.visited → n ∈ st'.visited)

theorem CMono.refl (st : CState) : CMono st st := ⟨fun _ _ h => h, fun _ h => h⟩

theorem CMono.trans {a b c : CState} (h₁ : CMono a b) (h₂ : CMono b c) : CMono a c :=
  ⟨fun n v h => h₂.1 n v (h₁.1 n v h), fun n h => h₂.2 n (h₁.2 n h)⟩

/-- what one call of `determine_uses_context` guarantees -/
def DetSpec (g : Graph) (rec : CState → Nat → M (Bool × CState)) : Prop :=
  ∀ (st : CState) (name : Nat) (stack : List Nat) (b : Bool) (st' : CState),
    CInv g st stack → rec st name = .ok (b, st') →
    (b = true → UsesCtx g name) ∧
    (b = false → CInv g st' stack ∧
      (st'.usesContext.lookup name = some false ∨ name ∈ stack) ∧ CMono st st')

theorem lookup_cons_self {β} (k : Nat) (v : β) (l : List (Nat × β)) :
    List.lookup k ((k, v) :: l) = some v := by simp [List.lookup]

theorem lookup_cons_ne {β} {k n : Nat} (v : β) (l : List (Nat × β)) (h : n ≠ k) :
    List.lookup n ((k, v) :: l) = List.lookup n l := by
  have : (n == k) = false := by simpa using h
  simp [List.lookup, this]

/-- the loop over the references of `name`, `name` being on the stack -/
theorem detLoop_spec (g : Graph) (rec : CState → Nat → M (Bool × CState)) (hrec : DetSpec g rec)
    (name : Nat) (stack : List Nat) (hkind : g.kind name ≠ .ctx) (hns : name ∉ stack) :
    ∀ (rs : List Nat) (st : CState) (b : Bool) (st' : CState),
      (∀ r, r ∈ rs → Edge g name r) →
      (∀ r, Edge g name r → r ∈ rs ∨ st.usesContext.lookup r = some false ∨ r ∈ name :: stack) →
      CInv g st (name :: stack) →
      detLoop rec name rs st = .ok (b, st') →
      (b = true → UsesCtx g name) ∧
      (b = false → CInv g st' stack ∧ st'.usesContext.lookup name = some false ∧ CMono st st') := by
  intro rs
  induction rs with
  | nil =>
    intro st b st' _ hdone inv h
    simp only [detLoop, Except.ok.injEq, Prod.mk.injEq] at h
    obtain ⟨hb, hst⟩ := h
    subst hb; subst hst
    refine ⟨(fun h => by cases h), fun _ => ⟨?_, lookup_cons_self _ _ _, ?_⟩⟩
    · have hfresh := (inv.stackFresh name (by simp)).1
      have key : ∀ r, (st.usesContext.lookup r = some false ∨ r ∈ name :: stack) →
          (List.lookup r ((name, false) :: st.usesContext) = some false ∨ r ∈ stack) := by
        intro r hr
        by_cases hrn : r = name
        · subst hrn; exact Or.inl (lookup_cons_self _ _ _)
        · rw [lookup_cons_ne _ _ hrn]
          rcases hr with hr | hr
          · exact Or.inl hr
          · rcases List.mem_cons.1 hr with hr | hr
            · exact absurd hr hrn
            · exact Or.inr hr
      constructor
      · intro n b hb
        by_cases hn : n = name
        · subst hn; rw [lookup_cons_self] at hb; cases hb; rfl
        · rw [lookup_cons_ne _ _ hn] at hb; exact inv.allFalse n b hb
      · intro n hn
        by_cases hnn : n = name
        · subst hnn
          refine ⟨hkind, fun r e => key r ?_⟩
          rcases hdone r e with h | h
          · simp at h
          · exact h
        · rw [lookup_cons_ne _ _ hnn] at hn
          obtain ⟨hk, hcl⟩ := inv.closed n hn
          exact ⟨hk, fun r e => key r (hcl r e)⟩
      · intro n hn
        have hnn : n ≠ name := fun h => hns (h ▸ hn)
        obtain ⟨h1, h2⟩ := inv.stackFresh n (List.mem_cons_of_mem _ hn)
        exact ⟨by rw [lookup_cons_ne _ _ hnn]; exact h1, h2⟩
      · intro n hn
        exact key n (inv.visited n hn)
    · have hfresh := (inv.stackFresh name (by simp)).1
      refine ⟨fun n v hv => ?_, fun _ h => h⟩
      have hnn : n ≠ name := by
        intro h; subst h; rw [hfresh] at hv; cases hv
      show List.lookup n ((name, false) :: st.usesContext) = some v
      rw [lookup_cons_ne _ _ hnn]; exact hv
  | cons r rs ih =>
    intro st b st' hedges hdone inv h
    simp only [detLoop] at h
    cases hr : rec st r with
    | error e => rw [hr] at h; cases h
    | ok p =>
      obtain ⟨br, st1⟩ := p
      rw [hr] at h
      have spec := hrec st r (name :: stack) br st1 inv hr
      cases br with
      | true =>
        simp only [Except.ok.injEq, Prod.mk.injEq] at h
        obtain ⟨hb, _⟩ := h
        subst hb
        exact ⟨fun _ => UsesCtx.step (hedges r (by simp)) (spec.1 rfl), fun h => by cases h⟩
      | false =>
        simp only at h
        obtain ⟨inv1, hr1, mono1⟩ := spec.2 rfl
        have hdone1 : ∀ x, Edge g name x →
            x ∈ rs ∨ st1.usesContext.lookup x = some false ∨ x ∈ name :: stack := by
          intro x e
          rcases hdone x e with hx | hx | hx
          · rcases List.mem_cons.1 hx with hx | hx
            · subst hx; exact Or.inr hr1
            · exact Or.inl hx
          · exact Or.inr (Or.inl (mono1.1 x false hx))
          · exact Or.inr (Or.inr hx)
        obtain ⟨ht, hf⟩ := ih st1 b st' (fun x hx => hedges x (List.mem_cons_of_mem _ hx)) hdone1 inv1 h
        refine ⟨ht, fun hb => ?_⟩
        obtain ⟨i, l, m⟩ := hf hb
        exact ⟨i, l, mono1.trans m⟩

theorem determine_spec (g : Graph) : ∀ fuel, DetSpec g (determine g fuel) := by
  intro fuel
  induction fuel with
  | zero =>
    intro st name stack b st' inv h
    unfold determine at h
    split at h
    · next bb hb =>
      simp only [Except.ok.injEq, Prod.mk.injEq] at h
      obtain ⟨h1, h2⟩ := h
      subst h1; subst h2
      have := inv.allFalse name bb hb
      subst this
      exact ⟨(fun h => by cases h), fun _ => ⟨inv, Or.inl hb, CMono.refl _⟩⟩
    · next hb =>
      split at h
      · next hv =>
        simp only [Except.ok.injEq, Prod.mk.injEq] at h
        obtain ⟨h1, h2⟩ := h
        subst h1; subst h2
        have hv' : name ∈ st.visited := by simpa using hv
        exact ⟨(fun h => by cases h), fun _ => ⟨inv, inv.visited name hv', CMono.refl _⟩⟩
      · split at h
        · next hk =>
          simp only [Except.ok.injEq, Prod.mk.injEq] at h
          obtain ⟨h1, _⟩ := h
          subst h1
          exact ⟨fun _ => ⟨name, .refl _, hk⟩, fun h => by cases h⟩
        · cases h
  | succ fuel ih =>
    intro st name stack b st' inv h
    unfold determine at h
    split at h
    · next bb hb =>
      simp only [Except.ok.injEq, Prod.mk.injEq] at h
      obtain ⟨h1, h2⟩ := h
      subst h1; subst h2
      have := inv.allFalse name bb hb
      subst this
      exact ⟨(fun h => by cases h), fun _ => ⟨inv, Or.inl hb, CMono.refl _⟩⟩
    · next hb =>
      split at h
      · next hv =>
        simp only [Except.ok.injEq, Prod.mk.injEq] at h
        obtain ⟨h1, h2⟩ := h
        subst h1; subst h2
        have hv' : name ∈ st.visited := by simpa using hv
        exact ⟨(fun h => by cases h), fun _ => ⟨inv, inv.visited name hv', CMono.refl _⟩⟩
      · next hv =>
        have hv' : name ∉ st.visited := by simpa using hv
        split at h
        · next hk =>
          simp only [Except.ok.injEq, Prod.mk.injEq] at h
          obtain ⟨h1, _⟩ := h
          subst h1
          exact ⟨fun _ => ⟨name, .refl _, hk⟩, fun h => by cases h⟩
        · next hk =>
          have hns : name ∉ stack := fun hn => hv' (inv.stackFresh name hn).2
          have inv' : CInv g { st with visited := name :: st.visited } (name :: stack) := by
            constructor
            · exact inv.allFalse
            · intro n hn
              obtain ⟨k, cl⟩ := inv.closed n hn
              exact ⟨k, fun r e => (cl r e).imp id (List.mem_cons_of_mem _)⟩
            · intro n hn
              rcases List.mem_cons.1 hn with hn | hn
              · subst hn; exact ⟨hb, by simp⟩
              · obtain ⟨a, c⟩ := inv.stackFresh n hn
                exact ⟨a, List.mem_cons_of_mem _ c⟩
            · intro n hn
              rcases List.mem_cons.1 hn with hn | hn
              · subst hn; exact Or.inr (by simp)
              · exact (inv.visited n hn).imp id (List.mem_cons_of_mem _)
          obtain ⟨ht, hf⟩ := detLoop_spec g (determine g fuel) ih name stack hk hns (g.refs name)
            { st with visited := name :: st.visited } b st' (fun r hr => hr)
            (fun r e => Or.inl e) inv' h
          refine ⟨ht, fun hbf => ?_⟩
          obtain ⟨i, l, m⟩ := hf hbf
          exact ⟨i, Or.inl l, ⟨m.1, fun n hn => m.2 n (List.mem_cons_of_mem _ hn)⟩⟩

/-- between top-level calls the stack is empty: a cached `false` is right -/
theorem CInv.false_sound {g : Graph} {st : CState} (inv : CInv g st []) {n : Nat}
    (h : st.usesContext.lookup n = some false) : ¬ UsesCtx g n := by
  rintro ⟨x, r, k⟩
  have hx : st.usesContext.lookup x = some false :=
    Reach.closed (S := fun z => st.usesContext.lookup z = some false)
      (fun a b ha e => by
        rcases (inv.closed a ha).2 b e with h | h
        · exact h
        · simp at h) r h
  exact (inv.closed x hx).1 k

theorem contextLoop_spec (g : Graph) (fuel : Nat) : ∀ (keys : List Nat) (st : CState) (r : Option Nat),
    CInv g st [] → contextLoop g fuel keys st = .ok r →
    (r = none → ∀ c, c ∈ keys → g.kind c = .const → ¬ UsesCtx g c) ∧
    (∀ c, r = some c → c ∈ keys ∧ g.kind c = .const ∧ UsesCtx g c) := by
  intro keys
  induction keys with
  | nil =>
    intro st r _ h
    simp only [contextLoop, Except.ok.injEq] at h
    subst h
    exact ⟨fun _ c hc => by simp at hc, fun c h => by cases h⟩
  | cons k keys ih =>
    intro st r inv h
    simp only [contextLoop] at h
    split at h
    · next hk =>
      cases hd : determine g fuel st k with
      | error e => rw [hd] at h; cases h
      | ok p =>
        obtain ⟨b, st1⟩ := p
        rw [hd] at h
        have spec := determine_spec g fuel st k [] b st1 inv hd
        cases b with
        | true =>
          simp only [Except.ok.injEq] at h
          subst h
          refine ⟨(fun h => by cases h), fun c hc => ?_⟩
          have : k = c := by simpa using hc
          subst this
          exact ⟨by simp, hk, spec.1 rfl⟩
        | false =>
          simp only at h
          obtain ⟨inv1, hl, _⟩ := spec.2 rfl
          obtain ⟨a1, a2⟩ := ih st1 r inv1 h
          refine ⟨fun hr c hc hkc => ?_, fun c hc => ?_⟩
          · rcases List.mem_cons.1 hc with hc | hc
            · subst hc
              rcases hl with hl | hl
              · exact inv1.false_sound hl
              · simp at hl
            · exact a1 hr c hc hkc
          · obtain ⟨x, y, z⟩ := a2 c hc
            exact ⟨List.mem_cons_of_mem _ x, y, z⟩
    · next hk =>
      obtain ⟨a1, a2⟩ := ih st r inv h
      refine ⟨fun hr c hc hkc => ?_, fun c hc => ?_⟩
      · rcases List.mem_cons.1 hc with hc | hc
        · subst hc; exact absurd hkc hk
        · exact a1 hr c hc hkc
      · obtain ⟨x, y, z⟩ := a2 c hc
        exact ⟨List.mem_cons_of_mem _ x, y, z⟩

theorem CInv.init (g : Graph) : CInv g ⟨[], []⟩ [] :=
  ⟨fun n b h => by simp [List.lookup] at h, fun n h => by simp [List.lookup] at h,
   fun n h => by simp at h, fun n h => by simp at h⟩

/-! ### the fuel (node count) is never exhausted -/

/-- names of the graph not yet visited -/
def unvis (g : Graph) (vis : List Nat) : Nat :=
  (g.nodes.eraseDups.filter fun n => !vis.contains n).length

theorem unvis_le (g : Graph) (vis : List Nat) : unvis g vis ≤ g.nodeCount :=
  List.length_filter_le _ _

theorem filter_length_mono (p q : Nat → Bool) (hpq : ∀ x, p x = true → q x = true) :
    ∀ l : List Nat, (l.filter p).length ≤ (l.filter q).length := by
  intro l
  induction l with
  | nil => simp
  | cons x l ih =>
    simp only [List.filter_cons]
    cases hp : p x with
    | true => simp only [hpq x hp, ↓reduceIte, List.length_cons]; omega
    | false =>
      cases hq : q x with
      | true => simp only [↓reduceIte, List.length_cons, Bool.false_eq_true]; omega
      | false => simpa using ih

theorem filter_length_lt (p q : Nat → Bool) (hpq : ∀ x, p x = true → q x = true) (a : Nat)
    (hpa : p a = false) (hqa : q a = true) :
    ∀ l : List Nat, a ∈ l → (l.filter p).length < (l.filter q).length := by
  intro l
  induction l with
  | nil => intro h; simp at h
  | cons x l ih =>
    intro hm
    simp only [List.filter_cons]
    by_cases hxa : x = a
    · subst hxa
      have := filter_length_mono p q hpq l
      simp only [hpa, hqa, ↓reduceIte, List.length_cons, Bool.false_eq_true]; omega
    · have hm' : a ∈ l := by
        rcases List.mem_cons.1 hm with h | h
        · exact absurd h.symm hxa
        · exact h
      have := ih hm'
      cases hp : p x with
      | true => simp only [hpq x hp, ↓reduceIte, List.length_cons]; omega
      | false =>
        cases hq : q x with
        | true => simp only [↓reduceIte, List.length_cons, Bool.false_eq_true]; omega
        | false => simpa using this

theorem unvis_visit_lt (g : Graph) (a : Nat) (vis : List Nat) (ha : a ∈ g.nodes) (hv : a ∉ vis) :
    unvis g (a :: vis) < unvis g vis := by
  unfold unvis
  apply filter_length_lt _ _ _ a _ _ _ (List.mem_eraseDups.2 ha)
  · intro x hx
    simp only [Bool.not_eq_eq_eq_not, Bool.not_true, List.contains_eq_mem, decide_eq_false_iff_not,
      List.mem_cons, not_or] at hx ⊢
    exact hx.2
  · simp
  · simp [hv]

theorem unvis_mono (g : Graph) (vis vis' : List Nat) (h : ∀ n, n ∈ vis → n ∈ vis') :
    unvis g vis' ≤ unvis g vis := by
  unfold unvis
  apply filter_length_mono
  intro x hx
  simp only [Bool.not_eq_eq_eq_not, Bool.not_true, List.contains_eq_mem, decide_eq_false_iff_not] at hx ⊢
  exact fun hm => hx (h x hm)

theorem unvis_zero_mem (g : Graph) (vis : List Nat) (h : unvis g vis = 0) (a : Nat) (ha : a ∈ g.nodes) :
    a ∈ vis := by
  unfold unvis at h
  have hnil := List.length_eq_zero_iff.1 h
  have := List.filter_eq_nil_iff.1 hnil a (List.mem_eraseDups.2 ha)
  simpa using this

theorem refs_mem_nodes {g : Graph} {u v : Nat} (e : Edge g u v) : v ∈ g.nodes := by
  obtain ⟨rs, hm, hv⟩ := edge_mem_edges e
  simp only [Graph.nodes, List.mem_append, List.mem_flatMap]
  exact Or.inr ⟨(u, rs), hm, hv⟩

/-- `rec` terminates within its fuel on every name of the graph -/
def DetTotal (g : Graph) (fuel : Nat) (rec : CState → Nat → M (Bool × CState)) : Prop :=
  ∀ (st : CState) (name : Nat), name ∈ g.nodes → unvis g st.visited ≤ fuel →
    ∃ b st', rec st name = .ok (b, st') ∧ (∀ n, n ∈ st.visited → n ∈ st'.visited)

theorem detLoop_total (g : Graph) (fuel : Nat) (rec : CState → Nat → M (Bool × CState))
    (hrec : DetTotal g fuel rec) (name : Nat) : ∀ (rs : List Nat) (st : CState),
    (∀ r, r ∈ rs → r ∈ g.nodes) → unvis g st.visited ≤ fuel →
    ∃ b st', detLoop rec name rs st = .ok (b, st') ∧ (∀ n, n ∈ st.visited → n ∈ st'.visited) := by
  intro rs
  induction rs with
  | nil => intro st _ _; exact ⟨false, _, rfl, fun _ h => h⟩
  | cons r rs ih =>
    intro st hn hf
    obtain ⟨b, st1, h1, m1⟩ := hrec st r (hn r (by simp)) hf
    cases b with
    | true =>
      exact ⟨true, { st1 with usesContext := (name, true) :: st1.usesContext }, by simp [detLoop, h1],
        fun n h => m1 n h⟩
    | false =>
      obtain ⟨b2, st2, h2, m2⟩ := ih st1 (fun x hx => hn x (List.mem_cons_of_mem _ hx))
        (Nat.le_trans (unvis_mono g _ _ m1) hf)
      exact ⟨b2, st2, by simp [detLoop, h1, h2], fun n h => m2 n (m1 n h)⟩

theorem determine_total (g : Graph) : ∀ fuel, DetTotal g fuel (determine g fuel) := by
  intro fuel
  induction fuel with
  | zero =>
    intro st name hn hf
    have hv : name ∈ st.visited := unvis_zero_mem g _ (Nat.le_zero.1 hf) name hn
    unfold determine
    split
    · exact ⟨_, _, rfl, fun _ h => h⟩
    · simp [hv]
  | succ fuel ih =>
    intro st name hn hf
    unfold determine
    split
    · exact ⟨_, _, rfl, fun _ h => h⟩
    · split
      · exact ⟨_, _, rfl, fun _ h => h⟩
      · next hv =>
        have hv' : name ∉ st.visited := by simpa using hv
        split
        · exact ⟨_, _, rfl, fun _ h => h⟩
        · have hlt := unvis_visit_lt g name st.visited hn hv'
          obtain ⟨b, st', h, m⟩ := detLoop_total g fuel (determine g fuel) ih name (g.refs name)
            { st with visited := name :: st.visited } (fun r hr => refs_mem_nodes hr) (by simp only; omega)
          exact ⟨b, st', h, fun n hn => m n (List.mem_cons_of_mem _ hn)⟩

theorem contextLoop_total (g : Graph) : ∀ (keys : List Nat) (st : CState),
    (∀ k, k ∈ keys → k ∈ g.nodes) → ∃ r, contextLoop g g.nodeCount keys st = .ok r := by
  intro keys
  induction keys with
  | nil => intro st _; exact ⟨none, rfl⟩
  | cons k keys ih =>
    intro st hk
    simp only [contextLoop]
    split
    · obtain ⟨b, st', h, _⟩ := determine_total g g.nodeCount st k (hk k (by simp)) (unvis_le g _)
      rw [h]
      cases b with
      | true => exact ⟨some k, rfl⟩
      | false => exact ih st' (fun x hx => hk x (List.mem_cons_of_mem _ hx))
    · exact ih st (fun x hx => hk x (List.mem_cons_of_mem _ hx))

theorem contextCheck_total (g : Graph) : ∃ r, contextCheck g = .ok r :=
  contextLoop_total g g.keys ⟨[], []⟩ (fun k hk => by simp [Graph.nodes, hk])

end RotoV.Tarjan
