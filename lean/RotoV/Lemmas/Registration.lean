/-
  Lemmas about the registration model (C18): extension of the declaration
  table, the well-formedness invariant, modules declared by pass 1, generic
  post-conditions of the tree walks.
-/
import RotoV.Model.Registration

namespace RotoV.Reg

/-! ## check_name -/

theorem checkName_fixed_iff (l : Lex) : checkName Cfg.fixed l = true ↔ ValidName l := by
  unfold checkName ValidName
  rcases l with ⟨first, more, whole⟩
  rcases first with _ | (_ | tok) <;> simp [Cfg.fixed]
  cases tok <;> cases more <;> cases whole <;> simp

/-! ## extension -/

/-- `st'` extends `st`: nothing that was declared or registered changes. -/
structure Ext (st st' : St) : Prop where
  decls : ∀ k d, st.decls k = some d → st'.decls k = some d
  types : ∀ id nm, st.types id = some nm → st'.types id = some nm

theorem Ext.refl (st : St) : Ext st st := ⟨fun _ _ h => h, fun _ _ h => h⟩
theorem Ext.trans {a b c : St} (h1 : Ext a b) (h2 : Ext b c) : Ext a c :=
  ⟨fun k d h => h2.decls k d (h1.decls k d h), fun i n h => h2.types i n (h1.types i n h)⟩

theorem Ext.getScopeOf {st st' : St} (h : Ext st st') {scope n s}
    (hs : st.getScopeOf scope n = some s) : st'.getScopeOf scope n = some s := by
  unfold St.getScopeOf at *
  cases hd : st.decls ⟨scope, n⟩ with
  | none => simp [hd] at hs
  | some d => simp [hd] at hs; simp [h.decls _ _ hd, hs]

/-- every registered type has a declaration that owns a scope -/
structure WF (st : St) : Prop where
  types : ∀ id nm, st.types id = some nm → ∃ d s, st.decls nm = some d ∧ d.scope = some s
  /-- the pre-declared primitive types own a scope (`insert_type` in `declare_builtin_types`) -/
  prims : ∀ k d, st.decls k = some d → d.kind = .prim → ∃ s, d.scope = some s
  /-- scopes are named by their path: the scope a declaration owns is the scope it sits in
      extended by its own name (the quotient by scope numbering, see the model's header) -/
  paths : ∀ k d s, st.decls k = some d → d.scope = some s → s = k.scope ++ [k.ident]

theorem ext_insertDecl {st : St} {k : RName} {d : Decl} (h : st.decls k = none) :
    Ext st (st.insertDecl k d) := by
  refine ⟨fun k' d' h' => ?_, fun _ _ h' => h'⟩
  simp only [St.insertDecl]
  by_cases hk : k' = k
  · subst hk; rw [h] at h'; cases h'
  · simp [hk, h']

theorem wf_insertDecl {st : St} {k : RName} {d : Decl} (h : st.decls k = none) (hw : WF st)
    (hp : d.kind ≠ .prim) (hpath : ∀ s, d.scope = some s → s = k.scope ++ [k.ident]) :
    WF (st.insertDecl k d) := by
  refine ⟨fun id nm hn => ?_, fun k' d' hd' hk' => ?_, fun k' d' s' hd' hs' => ?_⟩
  · obtain ⟨d', s, hd, hs⟩ := hw.types id nm hn
    exact ⟨d', s, (ext_insertDecl h).decls _ _ hd, hs⟩
  · simp only [St.insertDecl] at hd'
    by_cases hk : k' = k
    · simp [hk] at hd'; subst hd'; exact absurd hk' hp
    · simp [hk] at hd'; exact hw.prims k' d' hd' hk'
  · simp only [St.insertDecl] at hd'
    by_cases hk : k' = k
    · simp [hk] at hd'; subst hd'; subst hk; exact hpath s' hs'
    · simp [hk] at hd'; exact hw.paths k' d' s' hd' hs'

theorem ext_insertType {st : St} {id : TyId} {nm : RName} (h : st.types id = none) :
    Ext st (st.insertType id nm) := by
  refine ⟨fun _ _ h' => h', fun i n h' => ?_⟩
  simp only [St.insertType]
  by_cases hi : i = id
  · subst hi; rw [h] at h'; cases h'
  · simp [hi, h']

theorem ext_insertImport {st : St} {s : ScopeId} {n : Name} {t : RName} :
    Ext st (st.insertImport s n t) := ⟨fun _ _ h' => h', fun _ _ h' => h'⟩

/-- the shape of a result of a step started in a well-formed state: no panic,
    and a successful step extends the state and keeps it well-formed -/
def Good (st : St) : Res St → Prop
  | .ok st' => Ext st st' ∧ WF st'
  | .err _ => True
  | .panic _ => False

theorem Good.mono {st0 st : St} (h : Ext st0 st) {r : Res St} (g : Good st r) : Good st0 r := by
  cases r with
  | ok st' => exact ⟨h.trans g.1, g.2⟩
  | err e => trivial
  | panic s => exact g

/-! ## leaf operations (current source: `Cfg.fixed`) -/

theorem convTy_noPanic (st : St) (t : RustTy) : ∀ s, convTy st t ≠ .panic s := by
  induction t with
  | unit => intro s h; simp [convTy] at h
  | reg id => intro s h; simp only [convTy] at h; split at h <;> cases h
  | option t ih =>
    intro s h; simp only [convTy, bind, Res.bind] at h
    cases ht : convTy st t with
    | ok a => simp [ht, pure] at h
    | err e => simp [ht] at h
    | panic s' => exact ih s' ht
  | list t ih =>
    intro s h; simp only [convTy, bind, Res.bind] at h
    cases ht : convTy st t with
    | ok a => simp [ht, pure] at h
    | err e => simp [ht] at h
    | panic s' => exact ih s' ht
  | verdict a r iha ihr =>
    intro s h; simp only [convTy, bind, Res.bind] at h
    cases ha : convTy st a with
    | ok a' =>
      cases hr : convTy st r with
      | ok r' => simp [ha, hr, pure] at h
      | err e => simp [ha, hr] at h
      | panic s' => exact ihr s' hr
    | err e => simp [ha] at h
    | panic s' => exact iha s' ha
  | result a r iha ihr =>
    intro s h; simp only [convTy, bind, Res.bind] at h
    cases ha : convTy st a with
    | ok a' =>
      cases hr : convTy st r with
      | ok r' => simp [ha, hr, pure] at h
      | err e => simp [ha, hr] at h
      | panic s' => exact ihr s' hr
    | err e => simp [ha] at h
    | panic s' => exact iha s' ha

theorem convTys_noPanic (st : St) (ts : List RustTy) : ∀ s, convTys st ts ≠ .panic s := by
  induction ts with
  | nil => intro s h; simp [convTys] at h
  | cons t ts ih =>
    intro s h; simp only [convTys, bind, Res.bind] at h
    cases ht : convTy st t with
    | ok a =>
      cases hts : convTys st ts with
      | ok b => simp [ht, hts, pure] at h
      | err e => simp [ht, hts] at h
      | panic s' => exact ih s' hts
    | err e => simp [ht] at h
    | panic s' => exact convTy_noPanic st t s' ht


theorem declareModule_good {st : St} (hw : WF st) (scope : ScopeId) (n : Name) :
    match declareModule scope n st with
    | .ok (st', ms) => Ext st st' ∧ WF st' ∧ st'.getScopeOf scope n = some ms
    | .err _ => True
    | .panic _ => False := by
  unfold declareModule
  cases hd : st.decls ⟨scope, n⟩ with
  | some d => simp
  | none =>
    simp only
    refine ⟨ext_insertDecl hd, wf_insertDecl hd hw (by simp) (by simp), ?_⟩
    simp [St.getScopeOf, St.insertDecl]

theorem wf_insertType {st : St} {id : TyId} {nm : RName} (hw : WF st)
    (h : ∃ d s, st.decls nm = some d ∧ d.scope = some s) : WF (st.insertType id nm) := by
  refine ⟨fun i n hi => ?_, hw.prims, hw.paths⟩
  simp only [St.insertType] at hi ⊢
  by_cases hid : i = id
  · simp [hid] at hi; subst hi; exact h
  · simp [hid] at hi; exact hw.types i n hi

theorem declareType_good {st : St} (hw : WF st) (scope : ScopeId) (n : Name) (id : TyId) :
    Good st (declareType Cfg.fixed scope n id st) := by
  unfold declareType
  cases ht : st.types id with
  | some nm => simp [Good]
  | none =>
    simp only [Cfg.fixed, Bool.not_false, Bool.true_and, Bool.false_eq_true, if_false]
    by_cases hn : st.typeNames ⟨scope, n⟩ = true
    · simp [hn, Good]
    · simp only [hn]
      cases hd : st.decls ⟨scope, n⟩ with
      | none =>
        simp only [Good]
        have hw1 := wf_insertDecl (d := ⟨.type id, some (scope ++ [n])⟩) hd hw (by simp) (by simp)
        refine ⟨(ext_insertDecl hd).trans (ext_insertType (by simpa [St.insertDecl] using ht)), ?_⟩
        exact wf_insertType hw1 ⟨⟨.type id, some (scope ++ [n])⟩, scope ++ [n], by simp [St.insertDecl], rfl⟩
      | some d =>
        by_cases hp : d.kind = .prim
        · simp only [hp, decide_true, if_true, Good]
          obtain ⟨s, hs⟩ := hw.prims _ d hd hp
          exact ⟨ext_insertType ht, wf_insertType hw ⟨d, s, hd, hs⟩⟩
        · simp [hp, Good]

theorem declareFunction_good {st : St} (hw : WF st) (lex : Name → Lex) (scope : ScopeId) (n : Name)
    (ps : List RustTy) (r : RustTy) (tag : Nat) (m : Bool) :
    Good st (declareFunction Cfg.fixed lex scope n ps r tag m st) := by
  unfold declareFunction
  split
  · trivial
  · cases hps : convTys st ps with
    | panic s => exact absurd hps (convTys_noPanic st ps s)
    | err e => trivial
    | ok ps' =>
      cases hr : convTy st r with
      | panic s => exact absurd hr (convTy_noPanic st r s)
      | err e => trivial
      | ok r' =>
        cases hd : st.decls ⟨scope, n⟩ with
        | some d => trivial
        | none =>
          refine ⟨ext_insertDecl hd, wf_insertDecl hd hw ?_ (by simp)⟩
          cases m <;> simp

theorem declareConstant_good {st : St} (hw : WF st) (scope : ScopeId) (n : Name)
    (ty : RustTy) (tag : Nat) : Good st (declareConstant scope n ty tag st) := by
  unfold declareConstant
  cases hr : convTy st ty with
  | panic s => exact absurd hr (convTy_noPanic st ty s)
  | err e => trivial
  | ok r' =>
    cases hd : st.decls ⟨scope, n⟩ with
    | some d => trivial
    | none => exact ⟨ext_insertDecl hd, wf_insertDecl hd hw (by simp) (by simp)⟩

theorem implScope_noPanic {st : St} (hw : WF st) (ty : TyId) : ∀ s, implScope ty st ≠ .panic s := by
  intro s h
  unfold implScope at h
  cases ht : st.types ty with
  | none => simp [ht] at h
  | some nm =>
    obtain ⟨d, sc, hd, hs⟩ := hw.types ty nm ht
    simp [ht, St.getScopeOf, hd, hs] at h

/-! ## post-conditions over an item tree -/

mutual
/-- `Q` holds (in `st`) for every non-module item of the tree at the scope
    that the chain of module declarations leads to. With `Q = True` this says:
    every module of the tree is declared and owns a scope. -/
def Holds (Q : St → ScopeId → Item → Prop) (st : St) (scope : ScopeId) : Items → Prop
  | .nil => True
  | .cons i is => HoldsItem Q st scope i ∧ Holds Q st scope is
def HoldsItem (Q : St → ScopeId → Item → Prop) (st : St) (scope : ScopeId) : Item → Prop
  | .module n ch => ∃ s, st.getScopeOf scope n = some s ∧ Holds Q st s ch
  | .type n id => Q st scope (.type n id)
  | .function n ps r tag => Q st scope (.function n ps r tag)
  | .constant n ty tag => Q st scope (.constant n ty tag)
  | .impl ty ch => Q st scope (.impl ty ch)
  | .use ps => Q st scope (.use ps)
end

def Mono (Q : St → ScopeId → Item → Prop) : Prop :=
  ∀ st st' scope i, Ext st st' → Q st scope i → Q st' scope i

def QTrue : St → ScopeId → Item → Prop := fun _ _ _ => True
theorem mono_QTrue : Mono QTrue := fun _ _ _ _ _ _ => trivial

mutual
theorem Holds.mono {Q} (hQ : Mono Q) {st st' : St} (h : Ext st st') :
    ∀ (scope : ScopeId) (is : Items), Holds Q st scope is → Holds Q st' scope is
  | _, .nil, _ => by simp [Holds]
  | scope, .cons i is, hh => by
    simp only [Holds] at hh ⊢
    exact ⟨HoldsItem.mono hQ h scope i hh.1, Holds.mono hQ h scope is hh.2⟩
theorem HoldsItem.mono {Q} (hQ : Mono Q) {st st' : St} (h : Ext st st') :
    ∀ (scope : ScopeId) (i : Item), HoldsItem Q st scope i → HoldsItem Q st' scope i
  | scope, .module n ch, hh => by
    simp only [HoldsItem] at hh ⊢
    obtain ⟨s, hs, hc⟩ := hh
    exact ⟨s, h.getScopeOf hs, Holds.mono hQ h s ch hc⟩
  | scope, .type n id, hh => by simp only [HoldsItem] at hh ⊢; exact hQ _ _ _ _ h hh
  | scope, .function n ps r tag, hh => by simp only [HoldsItem] at hh ⊢; exact hQ _ _ _ _ h hh
  | scope, .constant n ty tag, hh => by simp only [HoldsItem] at hh ⊢; exact hQ _ _ _ _ h hh
  | scope, .impl ty ch, hh => by simp only [HoldsItem] at hh ⊢; exact hQ _ _ _ _ h hh
  | scope, .use ps, hh => by simp only [HoldsItem] at hh ⊢; exact hQ _ _ _ _ h hh
end

/- weakening of the post-condition -/
mutual
theorem Holds.imp {Q Q' : St → ScopeId → Item → Prop} {st : St}
    (hq : ∀ scope i, Q st scope i → Q' st scope i) :
    ∀ (scope : ScopeId) (is : Items), Holds Q st scope is → Holds Q' st scope is
  | _, .nil, _ => by simp [Holds]
  | scope, .cons i is, hh => by
    simp only [Holds] at hh ⊢
    exact ⟨HoldsItem.imp hq scope i hh.1, Holds.imp hq scope is hh.2⟩
theorem HoldsItem.imp {Q Q' : St → ScopeId → Item → Prop} {st : St}
    (hq : ∀ scope i, Q st scope i → Q' st scope i) :
    ∀ (scope : ScopeId) (i : Item), HoldsItem Q st scope i → HoldsItem Q' st scope i
  | scope, .module n ch, hh => by
    simp only [HoldsItem] at hh ⊢
    obtain ⟨s, hs, hc⟩ := hh
    exact ⟨s, hs, Holds.imp hq s ch hc⟩
  | scope, .type n id, hh => by simp only [HoldsItem] at hh ⊢; exact hq _ _ hh
  | scope, .function n ps r tag, hh => by simp only [HoldsItem] at hh ⊢; exact hq _ _ hh
  | scope, .constant n ty tag, hh => by simp only [HoldsItem] at hh ⊢; exact hq _ _ hh
  | scope, .impl ty ch, hh => by simp only [HoldsItem] at hh ⊢; exact hq _ _ hh
  | scope, .use ps, hh => by simp only [HoldsItem] at hh ⊢; exact hq _ _ hh
end

/-! ## pass 1 -/

/-- result shape of pass 1: no panic; on success the state is extended, stays
    well-formed and every module of the tree is declared -/
def Good1 (st : St) (P : St → Prop) : Res St → Prop
  | .ok st' => Ext st st' ∧ WF st' ∧ P st'
  | .err _ => True
  | .panic _ => False

mutual
theorem declModules_good (parent : Option ScopeId) :
    ∀ (is : Items) (st : St), WF st →
      Good1 st (fun st' => Holds QTrue st' (parent.getD []) is) (declModules parent is st)
  | .nil, st, hw => by simp [declModules, Good1, Holds, Ext.refl, hw]
  | .cons i is, st, hw => by
    have h1 := declModulesItem_good parent i st hw
    simp only [declModules]
    cases hr : declModulesItem parent i st with
    | err e => simp [Good1]
    | panic s => rw [hr] at h1; exact h1
    | ok st1 =>
      rw [hr] at h1
      obtain ⟨e1, w1, p1⟩ := h1
      have h2 := declModules_good parent is st1 w1
      dsimp only
      cases hr2 : declModules parent is st1 with
      | err e => simp [Good1]
      | panic s => rw [hr2] at h2; exact h2
      | ok st2 =>
        rw [hr2] at h2
        obtain ⟨e2, w2, p2⟩ := h2
        simp only [Good1, Holds]
        exact ⟨e1.trans e2, w2, HoldsItem.mono mono_QTrue e2 _ _ p1, p2⟩
theorem declModulesItem_good (parent : Option ScopeId) :
    ∀ (i : Item) (st : St), WF st →
      Good1 st (fun st' => HoldsItem QTrue st' (parent.getD []) i) (declModulesItem parent i st)
  | .module n ch, st, hw => by
    have h1 := declareModule_good hw (parent.getD []) n
    simp only [declModulesItem]
    cases hr : declareModule (parent.getD []) n st with
    | err e => simp [Good1]
    | panic s => rw [hr] at h1; exact h1
    | ok p =>
      obtain ⟨st1, ms⟩ := p
      rw [hr] at h1
      obtain ⟨e1, w1, g1⟩ := h1
      have h2 := declModules_good (some ms) ch st1 w1
      dsimp only
      cases hr2 : declModules (some ms) ch st1 with
      | err e => simp [Good1]
      | panic s => rw [hr2] at h2; exact h2
      | ok st2 =>
        rw [hr2] at h2
        obtain ⟨e2, w2, p2⟩ := h2
        simp only [Good1, HoldsItem]
        exact ⟨e1.trans e2, w2, ms, e2.getScopeOf g1, p2⟩
  | .type n id, st, hw => by simp [declModulesItem, Good1, HoldsItem, QTrue, Ext.refl, hw]
  | .function n ps r tag, st, hw => by simp [declModulesItem, Good1, HoldsItem, QTrue, Ext.refl, hw]
  | .constant n ty tag, st, hw => by simp [declModulesItem, Good1, HoldsItem, QTrue, Ext.refl, hw]
  | .impl ty ch, st, hw => by simp [declModulesItem, Good1, HoldsItem, QTrue, Ext.refl, hw]
  | .use ps, st, hw => by simp [declModulesItem, Good1, HoldsItem, QTrue, Ext.refl, hw]
end

/-! ## passes 2–4 -/

section
variable (lex : Name → Lex)

mutual
theorem walk_good (p : Pass) (Qpre Q : St → ScopeId → Item → Prop) (hpre : Mono Qpre) (hQ : Mono Q)
    (hleaf : ∀ scope i st, WF st → Qpre st scope i →
      Good1 st (fun st' => Q st' scope i) (passLeaf Cfg.fixed lex p scope i st)) :
    ∀ (is : Items) (scope : ScopeId) (st : St), WF st → Holds Qpre st scope is →
      Good1 st (fun st' => Holds Q st' scope is) (walk Cfg.fixed lex p scope is st)
  | .nil, scope, st, hw, _ => by simp [walk, Good1, Holds, Ext.refl, hw]
  | .cons i is, scope, st, hw, hh => by
    simp only [Holds] at hh
    have h1 := walkItem_good p Qpre Q hpre hQ hleaf i scope st hw hh.1
    simp only [walk]
    cases hr : walkItem Cfg.fixed lex p scope i st with
    | err e => simp [Good1]
    | panic s => rw [hr] at h1; exact h1
    | ok st1 =>
      rw [hr] at h1
      obtain ⟨e1, w1, p1⟩ := h1
      have h2 := walk_good p Qpre Q hpre hQ hleaf is scope st1 w1 (Holds.mono hpre e1 _ _ hh.2)
      dsimp only
      cases hr2 : walk Cfg.fixed lex p scope is st1 with
      | err e => simp [Good1]
      | panic s => rw [hr2] at h2; exact h2
      | ok st2 =>
        rw [hr2] at h2
        obtain ⟨e2, w2, p2⟩ := h2
        simp only [Good1, Holds]
        exact ⟨e1.trans e2, w2, HoldsItem.mono hQ e2 _ _ p1, p2⟩
theorem walkItem_good (p : Pass) (Qpre Q : St → ScopeId → Item → Prop) (hpre : Mono Qpre) (hQ : Mono Q)
    (hleaf : ∀ scope i st, WF st → Qpre st scope i →
      Good1 st (fun st' => Q st' scope i) (passLeaf Cfg.fixed lex p scope i st)) :
    ∀ (i : Item) (scope : ScopeId) (st : St), WF st → HoldsItem Qpre st scope i →
      Good1 st (fun st' => HoldsItem Q st' scope i) (walkItem Cfg.fixed lex p scope i st)
  | .module n ch, scope, st, hw, hh => by
    simp only [HoldsItem] at hh
    obtain ⟨s, hs, hc⟩ := hh
    simp only [walkItem, hs]
    have h2 := walk_good p Qpre Q hpre hQ hleaf ch s st hw hc
    cases hr2 : walk Cfg.fixed lex p s ch st with
    | err e => simp [Good1]
    | panic s => rw [hr2] at h2; exact h2
    | ok st2 =>
      rw [hr2] at h2
      obtain ⟨e2, w2, p2⟩ := h2
      simp only [Good1, HoldsItem]
      exact ⟨e2, w2, s, e2.getScopeOf hs, p2⟩
  | .type n id, scope, st, hw, hh => by
    simp only [HoldsItem] at hh ⊢; simp only [walkItem]; exact hleaf _ _ _ hw hh
  | .function n ps r tag, scope, st, hw, hh => by
    simp only [HoldsItem] at hh ⊢; simp only [walkItem]; exact hleaf _ _ _ hw hh
  | .constant n ty tag, scope, st, hw, hh => by
    simp only [HoldsItem] at hh ⊢; simp only [walkItem]; exact hleaf _ _ _ hw hh
  | .impl ty ch, scope, st, hw, hh => by
    simp only [HoldsItem] at hh ⊢; simp only [walkItem]; exact hleaf _ _ _ hw hh
  | .use ps, scope, st, hw, hh => by
    simp only [HoldsItem] at hh ⊢; simp only [walkItem]; exact hleaf _ _ _ hw hh
end

/-- the children of an impl block that pass 3 accepts -/
def Flat : Items → Prop
  | .nil => True
  | .cons (.module _ _) _ => False
  | .cons (.impl _ _) _ => False
  | .cons (.type _ _) _ => False
  | .cons (.function _ _ _ _) is => Flat is
  | .cons (.constant _ _ _) is => Flat is
  | .cons (.use _) is => Flat is

theorem declMethods_good (scope : ScopeId) :
    ∀ (is : Items) (st : St), WF st →
      Good1 st (fun _ => Flat is) (declMethods Cfg.fixed lex scope is st)
  | .nil, st, hw => by simp [declMethods, Good1, Flat, Ext.refl, hw]
  | .cons (.function n ps r tag) is, st, hw => by
    have h1 := declareFunction_good hw lex scope n ps r tag true
    simp only [declMethods]
    cases hr : declareFunction Cfg.fixed lex scope n ps r tag true st with
    | err e => simp [Good1]
    | panic s => rw [hr] at h1; exact h1
    | ok st1 =>
      rw [hr] at h1
      have h2 := declMethods_good scope is st1 h1.2
      dsimp only
      cases hr2 : declMethods Cfg.fixed lex scope is st1 with
      | err e => simp [Good1]
      | panic s => rw [hr2] at h2; exact h2
      | ok st2 =>
        rw [hr2] at h2
        simp only [Good1, Flat]
        exact ⟨h1.1.trans h2.1, h2.2.1, h2.2.2⟩
  | .cons (.impl _ _) _, st, hw => by simp [declMethods, Good1]
  | .cons (.type _ _) _, st, hw => by simp [declMethods, Good1]
  | .cons (.module _ _) _, st, hw => by simp [declMethods, Good1]
  | .cons (.use _) is, st, hw => by
    simp only [declMethods, Flat]; exact declMethods_good scope is st hw
  | .cons (.constant _ _ _) is, st, hw => by
    simp only [declMethods, Flat]; exact declMethods_good scope is st hw

theorem declImplConstants_good (scope : ScopeId) :
    ∀ (is : Items) (st : St), WF st → Flat is → Good st (declImplConstants scope is st)
  | .nil, st, hw, _ => by simp [declImplConstants, Good, Ext.refl, hw]
  | .cons (.constant n ty tag) is, st, hw, hf => by
    have h1 := declareConstant_good hw scope n ty tag
    simp only [declImplConstants]
    cases hr : declareConstant scope n ty tag st with
    | err e => simp [Good]
    | panic s => rw [hr] at h1; exact h1
    | ok st1 =>
      rw [hr] at h1
      have h2 := declImplConstants_good scope is st1 h1.2 (by simpa [Flat] using hf)
      dsimp only
      exact Good.mono h1.1 h2
  | .cons (.module _ _) _, st, hw, hf => by simp [Flat] at hf
  | .cons (.impl _ _) _, st, hw, hf => by simp [Flat] at hf
  | .cons (.type _ _) _, st, hw, hf => by simp [Flat] at hf
  | .cons (.function _ _ _ _) is, st, hw, hf => by
    simp only [declImplConstants]; exact declImplConstants_good scope is st hw (by simpa [Flat] using hf)
  | .cons (.use _) is, st, hw, hf => by
    simp only [declImplConstants]; exact declImplConstants_good scope is st hw (by simpa [Flat] using hf)

/-- what pass 3 establishes about an item (beyond the modules being declared) -/
def QFlat : St → ScopeId → Item → Prop
  | _, _, .impl _ ch => Flat ch
  | _, _, _ => True

theorem mono_QFlat : Mono QFlat := by
  intro st st' scope i _ h
  cases i <;> simp [QFlat] at h ⊢ <;> exact h

theorem good1_of_good {st : St} {r : Res St} (h : Good st r) : Good1 st (fun _ => True) r := by
  cases r with
  | ok st' => exact ⟨h.1, h.2, trivial⟩
  | err e => trivial
  | panic s => exact h

theorem leaf_types (scope : ScopeId) (i : Item) (st : St) (hw : WF st) (_ : QTrue st scope i) :
    Good1 st (fun st' => QTrue st' scope i) (passLeaf Cfg.fixed lex .types scope i st) := by
  cases i with
  | type n id => simpa [passLeaf, QTrue] using good1_of_good (declareType_good hw scope n id)
  | _ => simp [passLeaf, Good1, QTrue, Ext.refl, hw]

theorem leaf_functions (scope : ScopeId) (i : Item) (st : St) (hw : WF st) (_ : QTrue st scope i) :
    Good1 st (fun st' => QFlat st' scope i) (passLeaf Cfg.fixed lex .functions scope i st) := by
  cases i with
  | function n ps r tag =>
    simpa [passLeaf, QFlat] using good1_of_good (declareFunction_good hw lex scope n ps r tag false)
  | impl ty ch =>
    simp only [passLeaf, implScopeC_fixed]
    cases hs : implScope ty st with
    | panic s => exact absurd hs (implScope_noPanic hw ty s)
    | err e => simp [Good1]
    | ok s =>
      dsimp only
      have := declMethods_good lex s ch st hw
      cases hr : declMethods Cfg.fixed lex s ch st with
      | err e => simp [Good1]
      | panic s => rw [hr] at this; exact this
      | ok st' => rw [hr] at this; simpa [Good1, QFlat] using this
  | _ => simp [passLeaf, Good1, QFlat, Ext.refl, hw]

theorem leaf_constants (scope : ScopeId) (i : Item) (st : St) (hw : WF st) (hq : QFlat st scope i) :
    Good1 st (fun st' => QTrue st' scope i) (passLeaf Cfg.fixed lex .constants scope i st) := by
  cases i with
  | constant n ty tag =>
    simpa [passLeaf, QTrue] using good1_of_good (declareConstant_good hw scope n ty tag)
  | impl ty ch =>
    simp only [passLeaf, implScopeC_fixed]
    cases hs : implScope ty st with
    | panic s => exact absurd hs (implScope_noPanic hw ty s)
    | err e => simp [Good1]
    | ok s =>
      dsimp only
      simpa [QTrue] using good1_of_good (declImplConstants_good s ch st hw (by simpa [QFlat] using hq))
  | _ => simp [passLeaf, Good1, QTrue, Ext.refl, hw]

end

/-! ## pass 5 -/

theorem wf_insertImport {st : St} (hw : WF st) (s : ScopeId) (n : Name) (t : RName) :
    WF (st.insertImport s n t) := ⟨hw.types, hw.prims, hw.paths⟩

theorem walkPath_noPanic (start : ScopeId) (st : St) :
    ∀ (path : List Name) (cur : ScopeId) (s : Site), walkPath Cfg.fixed start st cur path ≠ .panic s
  | [], cur, s => by simp [walkPath]
  | part :: rest, cur, s => by
    simp only [walkPath]
    split
    · simp
    · exact walkPath_noPanic start st rest _ s

theorem declareImport_good {st : St} (hw : WF st) (scope : ScopeId) (path : List Name) :
    Good st (declareImport Cfg.fixed scope path st) := by
  unfold declareImport
  cases path.getLast? with
  | none => simp [Cfg.fixed, Good]
  | some last =>
    dsimp only
    cases hwk : walkPath Cfg.fixed scope st scope path.dropLast with
    | panic s => exact absurd hwk (walkPath_noPanic scope st _ _ s)
    | err e => trivial
    | ok ns =>
      dsimp only
      cases st.imports scope last with
      | some _ => trivial
      | none => exact ⟨ext_insertImport, wf_insertImport hw _ _ _⟩

theorem declareImportList_good (scope : ScopeId) :
    ∀ (ps : List (List Name)) (st : St), WF st → Good st (declareImportList Cfg.fixed scope ps st)
  | [], st, hw => by simp [declareImportList, Good, Ext.refl, hw]
  | p :: ps, st, hw => by
    have h1 := declareImport_good hw scope p
    simp only [declareImportList]
    cases hr : declareImport Cfg.fixed scope p st with
    | err e => trivial
    | panic s => rw [hr] at h1; exact h1
    | ok st1 =>
      rw [hr] at h1
      dsimp only
      exact Good.mono h1.1 (declareImportList_good scope ps st1 h1.2)

mutual
theorem declImports_good (scope : ScopeId) :
    ∀ (is : Items) (st : St), WF st → Good st (declImports Cfg.fixed scope is st)
  | .nil, st, hw => by simp [declImports, Good, Ext.refl, hw]
  | .cons i is, st, hw => by
    have h1 := declImportsItem_good scope i st hw
    simp only [declImports]
    cases hr : declImportsItem Cfg.fixed scope i st with
    | err e => trivial
    | panic s => rw [hr] at h1; exact h1
    | ok st1 =>
      rw [hr] at h1
      dsimp only
      exact Good.mono h1.1 (declImports_good scope is st1 h1.2)
theorem declImportsItem_good (scope : ScopeId) :
    ∀ (i : Item) (st : St), WF st → Good st (declImportsItem Cfg.fixed scope i st)
  | .use ps, st, hw => by simp only [declImportsItem]; exact declareImportList_good scope ps st hw
  | .module n ch, st, hw => by simp only [declImportsItem]; exact declImports_good scope ch st hw
  | .type _ _, st, hw => by simp [declImportsItem, Good, Ext.refl, hw]
  | .function _ _ _ _, st, hw => by simp [declImportsItem, Good, Ext.refl, hw]
  | .constant _ _ _, st, hw => by simp [declImportsItem, Good, Ext.refl, hw]
  | .impl _ _, st, hw => by simp [declImportsItem, Good, Ext.refl, hw]
end

/-! ## `Rt::add` -/

theorem add_good (lex : Name → Lex) {st : St} (hw : WF st) (items : Items) :
    Good st (add Cfg.fixed lex st items) := by
  unfold add
  have h1 := declModules_good none items st hw
  cases hr1 : declModules none items st with
  | err e => trivial
  | panic s => rw [hr1] at h1; exact h1
  | ok st1 =>
    rw [hr1] at h1
    obtain ⟨e1, w1, m1⟩ := h1
    dsimp only
    have h2 := walk_good lex .types QTrue QTrue mono_QTrue mono_QTrue (leaf_types lex) items [] st1 w1 m1
    cases hr2 : walk Cfg.fixed lex .types [] items st1 with
    | err e => trivial
    | panic s => rw [hr2] at h2; exact h2
    | ok st2 =>
      rw [hr2] at h2
      obtain ⟨e2, w2, m2⟩ := h2
      dsimp only
      have h3 := walk_good lex .functions QTrue QFlat mono_QTrue mono_QFlat (leaf_functions lex) items [] st2 w2 m2
      cases hr3 : walk Cfg.fixed lex .functions [] items st2 with
      | err e => trivial
      | panic s => rw [hr3] at h3; exact h3
      | ok st3 =>
        rw [hr3] at h3
        obtain ⟨e3, w3, m3⟩ := h3
        dsimp only
        have h4 := walk_good lex .constants QFlat QTrue mono_QFlat mono_QTrue (leaf_constants lex) items [] st3 w3 m3
        cases hr4 : walk Cfg.fixed lex .constants [] items st3 with
        | err e => trivial
        | panic s => rw [hr4] at h4; exact h4
        | ok st4 =>
          rw [hr4] at h4
          obtain ⟨e4, w4, _⟩ := h4
          dsimp only
          exact Good.mono (e1.trans (e2.trans (e3.trans e4))) (declImports_good [] items st4 w4)

theorem register_good (lex : Name → Lex) {st : St} (hw : WF st) (items : Items) :
    Good st (register Cfg.fixed lex st items) := by
  unfold register
  split
  · exact add_good lex hw items
  · trivial

theorem wf_init (prims : List (Name × TyId)) (others : List Name) : WF (St.init prims others) := by
  refine ⟨fun id nm h => ?_, fun k d h hk => ?_, fun k d s h hs' => ?_⟩
  rotate_left 2
  · simp only [St.init] at h
    by_cases hs : k.scope = []
    · simp only [hs, if_true] at h
      cases hg : prims.find? (fun q => q.1 = k.ident) with
      | some q => simp [hg] at h; subst h; simp at hs'; simp [hs, hs'.symm]
      | none =>
        simp [hg] at h
        obtain ⟨_, rfl⟩ := h
        simp at hs'
    · simp [hs] at h
  · simp only [St.init] at h ⊢
    cases hf : prims.find? (fun p => p.2 = id) with
    | none => simp [hf] at h
    | some p =>
      simp [hf] at h; subst h
      have hm := List.mem_of_find?_eq_some hf
      have : prims.find? (fun q => q.1 = p.1) ≠ none := by
        intro hn
        have := List.find?_eq_none.mp hn p hm
        simp at this
      cases hg : prims.find? (fun q => q.1 = p.1) with
      | none => exact absurd hg this
      | some q => exact ⟨⟨.prim, some [p.1]⟩, [p.1], by simp, rfl⟩
  · simp only [St.init] at h
    by_cases hs : k.scope = []
    · simp only [hs, if_true] at h
      cases hg : prims.find? (fun q => q.1 = k.ident) with
      | some q => simp [hg] at h; subst h; exact ⟨_, rfl⟩
      | none =>
        simp [hg] at h
        obtain ⟨_, rfl⟩ := h
        simp at hk
    · simp [hs] at h

/-! ## reachability: what the passes leave in the table -/

theorem convTy_ext {st st' : St} (h : Ext st st') : ∀ (t : RustTy) (t' : RotoTy),
    convTy st t = .ok t' → convTy st' t = .ok t' := by
  intro t
  induction t with
  | unit => intro t' ht; simpa [convTy] using ht
  | reg id =>
    intro t' ht
    simp only [convTy] at ht ⊢
    cases hi : st.types id with
    | none => simp [hi] at ht
    | some nm => simp [hi] at ht; simp [h.types _ _ hi, ht]
  | option t ih =>
    intro t' ht
    simp only [convTy, bind, Res.bind] at ht ⊢
    cases hc : convTy st t with
    | ok a => simp [hc, pure] at ht; simp [ih a hc, pure, ht]
    | err e => simp [hc] at ht
    | panic s => simp [hc] at ht
  | list t ih =>
    intro t' ht
    simp only [convTy, bind, Res.bind] at ht ⊢
    cases hc : convTy st t with
    | ok a => simp [hc, pure] at ht; simp [ih a hc, pure, ht]
    | err e => simp [hc] at ht
    | panic s => simp [hc] at ht
  | verdict a r iha ihr =>
    intro t' ht
    simp only [convTy, bind, Res.bind] at ht ⊢
    cases ha : convTy st a with
    | ok a' =>
      cases hr : convTy st r with
      | ok r' => simp [ha, hr, pure] at ht; simp [iha a' ha, ihr r' hr, pure, ht]
      | err e => simp [ha, hr] at ht
      | panic s => simp [ha, hr] at ht
    | err e => simp [ha] at ht
    | panic s => simp [ha] at ht
  | result a r iha ihr =>
    intro t' ht
    simp only [convTy, bind, Res.bind] at ht ⊢
    cases ha : convTy st a with
    | ok a' =>
      cases hr : convTy st r with
      | ok r' => simp [ha, hr, pure] at ht; simp [iha a' ha, ihr r' hr, pure, ht]
      | err e => simp [ha, hr] at ht
      | panic s => simp [ha, hr] at ht
    | err e => simp [ha] at ht
    | panic s => simp [ha] at ht

theorem convTys_ext {st st' : St} (h : Ext st st') : ∀ (ts : List RustTy) (ts' : List RotoTy),
    convTys st ts = .ok ts' → convTys st' ts = .ok ts'
  | [], ts', ht => by simpa [convTys] using ht
  | t :: ts, ts', ht => by
    simp only [convTys, bind, Res.bind] at ht ⊢
    cases hc : convTy st t with
    | ok a =>
      cases hcs : convTys st ts with
      | ok b => simp [hc, hcs, pure] at ht; simp [convTy_ext h t a hc, convTys_ext h ts b hcs, pure, ht]
      | err e => simp [hc, hcs] at ht
      | panic s => simp [hc, hcs] at ht
    | err e => simp [hc] at ht
    | panic s => simp [hc] at ht

/-- the declaration an item leaves behind: its name is bound, in the scope the
    item sits in, to a declaration with the item's own (converted) signature
    and identity -/
def QDecl : St → ScopeId → Item → Prop
  | st, scope, .type n id =>
    st.types id = some ⟨scope, n⟩ ∧ ∃ d s, st.decls ⟨scope, n⟩ = some d ∧ d.scope = some s
  | st, scope, .function n ps r tag =>
    ∃ ps' r', convTys st ps = .ok ps' ∧ convTy st r = .ok r' ∧
      st.decls ⟨scope, n⟩ = some ⟨.function ps' r' tag, none⟩
  | st, scope, .constant n ty tag =>
    ∃ ty', convTy st ty = .ok ty' ∧ st.decls ⟨scope, n⟩ = some ⟨.const ty' tag, none⟩
  | _, _, _ => True

/-- the part of `QDecl` that pass `p` establishes -/
def QPass (p : Pass) : St → ScopeId → Item → Prop
  | st, scope, .type n id => p = .types → QDecl st scope (.type n id)
  | st, scope, .function n ps r tag => p = .functions → QDecl st scope (.function n ps r tag)
  | st, scope, .constant n ty tag => p = .constants → QDecl st scope (.constant n ty tag)
  | _, _, _ => True

theorem mono_QDecl : Mono QDecl := by
  intro st st' scope i h hq
  cases i with
  | type n id =>
    obtain ⟨h1, d, s, h2, h3⟩ := hq
    exact ⟨h.types _ _ h1, d, s, h.decls _ _ h2, h3⟩
  | function n ps r tag =>
    obtain ⟨ps', r', h1, h2, h3⟩ := hq
    exact ⟨ps', r', convTys_ext h _ _ h1, convTy_ext h _ _ h2, h.decls _ _ h3⟩
  | constant n ty tag =>
    obtain ⟨ty', h1, h2⟩ := hq
    exact ⟨ty', convTy_ext h _ _ h1, h.decls _ _ h2⟩
  | module n ch => trivial
  | impl ty ch => trivial
  | use ps => trivial

theorem mono_QPass (p : Pass) : Mono (QPass p) := by
  intro st st' scope i h hq
  cases i with
  | type n id => exact fun hp => mono_QDecl _ _ _ _ h (hq hp)
  | function n ps r tag => exact fun hp => mono_QDecl _ _ _ _ h (hq hp)
  | constant n ty tag => exact fun hp => mono_QDecl _ _ _ _ h (hq hp)
  | module n ch => trivial
  | impl ty ch => trivial
  | use ps => trivial

theorem good1_and {st : St} {r : Res St} {P : St → Prop} (g : Good st r)
    (hp : ∀ st', r = .ok st' → P st') : Good1 st P r := by
  cases r with
  | ok st' => exact ⟨g.1, g.2, hp st' rfl⟩
  | err e => trivial
  | panic s => exact g

theorem good1_weaken {st : St} {r : Res St} {P P' : St → Prop} (g : Good1 st P r)
    (hp : ∀ st', P st' → P' st') : Good1 st P' r := by
  cases r with
  | ok st' => exact ⟨g.1, g.2.1, hp st' g.2.2⟩
  | err e => trivial
  | panic s => exact g

theorem declareType_post {st st' : St} (hw : WF st) {scope : ScopeId} {n : Name} {id : TyId}
    (h : declareType Cfg.fixed scope n id st = .ok st') : QDecl st' scope (.type n id) := by
  unfold declareType at h
  cases ht : st.types id with
  | some nm => simp [ht] at h
  | none =>
    simp only [ht, Cfg.fixed, Bool.not_false, Bool.true_and, Bool.false_eq_true, if_false] at h
    by_cases hn : st.typeNames ⟨scope, n⟩ = true
    · simp [hn] at h
    · simp only [hn] at h
      cases hd : st.decls ⟨scope, n⟩ with
      | none =>
        simp [hd] at h; subst h
        exact ⟨by simp [St.insertType], ⟨.type id, some (scope ++ [n])⟩, scope ++ [n],
          by simp [St.insertType, St.insertDecl], rfl⟩
      | some d =>
        by_cases hp : d.kind = .prim
        · simp [hd, hp] at h; subst h
          obtain ⟨s, hs⟩ := hw.prims _ d hd hp
          exact ⟨by simp [St.insertType], d, s, by simp [St.insertType, hd], hs⟩
        · simp [hd, hp] at h

theorem convTys_insertDecl (st : St) (k : RName) (d : Decl) (ts : List RustTy) :
    convTys (st.insertDecl k d) ts = convTys st ts := by
  have hty : ∀ t, convTy (st.insertDecl k d) t = convTy st t := by
    intro t
    induction t with
    | unit => rfl
    | reg id => rfl
    | option t ih => simp only [convTy, ih]
    | list t ih => simp only [convTy, ih]
    | verdict a r iha ihr => simp only [convTy, iha, ihr]
    | result a r iha ihr => simp only [convTy, iha, ihr]
  induction ts with
  | nil => rfl
  | cons t ts ih => simp only [convTys, hty, ih]

theorem convTy_insertDecl (st : St) (k : RName) (d : Decl) (t : RustTy) :
    convTy (st.insertDecl k d) t = convTy st t := by
  induction t with
  | unit => rfl
  | reg id => rfl
  | option t ih => simp only [convTy, ih]
  | list t ih => simp only [convTy, ih]
  | verdict a r iha ihr => simp only [convTy, iha, ihr]
  | result a r iha ihr => simp only [convTy, iha, ihr]

theorem declareFunction_post {st st' : St} (lex : Name → Lex) {scope : ScopeId} {n : Name}
    {ps : List RustTy} {r : RustTy} {tag : Nat}
    (h : declareFunction Cfg.fixed lex scope n ps r tag false st = .ok st') :
    QDecl st' scope (.function n ps r tag) := by
  unfold declareFunction at h
  split at h
  · cases h
  · cases hps : convTys st ps with
    | panic s => simp [hps] at h
    | err e => simp [hps] at h
    | ok ps' =>
      cases hr : convTy st r with
      | panic s => simp [hps, hr] at h
      | err e => simp [hps, hr] at h
      | ok r' =>
        cases hd : st.decls ⟨scope, n⟩ with
        | some d => simp [hps, hr, hd] at h
        | none =>
          simp [hps, hr, hd] at h; subst h
          exact ⟨ps', r', by rw [convTys_insertDecl]; exact hps, by rw [convTy_insertDecl]; exact hr,
            by simp [St.insertDecl]⟩

theorem declareConstant_post {st st' : St} {scope : ScopeId} {n : Name} {ty : RustTy} {tag : Nat}
    (h : declareConstant scope n ty tag st = .ok st') : QDecl st' scope (.constant n ty tag) := by
  unfold declareConstant at h
  cases hr : convTy st ty with
  | panic s => simp [hr] at h
  | err e => simp [hr] at h
  | ok r' =>
    cases hd : st.decls ⟨scope, n⟩ with
    | some d => simp [hr, hd] at h
    | none =>
      simp [hr, hd] at h; subst h
      exact ⟨r', by rw [convTy_insertDecl]; exact hr, by simp [St.insertDecl]⟩

section
variable (lex : Name → Lex)

theorem leaf_types_post (scope : ScopeId) (i : Item) (st : St) (hw : WF st) (_ : QTrue st scope i) :
    Good1 st (fun st' => QPass .types st' scope i) (passLeaf Cfg.fixed lex .types scope i st) := by
  cases i with
  | type n id =>
    simp only [passLeaf]
    exact good1_and (declareType_good hw scope n id) (fun st' h _ => declareType_post hw h)
  | function n ps r tag => simp [passLeaf, Good1, QPass, Ext.refl, hw]
  | constant n ty tag => simp [passLeaf, Good1, QPass, Ext.refl, hw]
  | module n ch => simp [passLeaf, Good1, QPass, Ext.refl, hw]
  | impl ty ch => simp [passLeaf, Good1, QPass, Ext.refl, hw]
  | use ps => simp [passLeaf, Good1, QPass, Ext.refl, hw]

theorem leaf_functions_post (scope : ScopeId) (i : Item) (st : St) (hw : WF st) (hq : QTrue st scope i) :
    Good1 st (fun st' => QFlat st' scope i ∧ QPass .functions st' scope i)
      (passLeaf Cfg.fixed lex .functions scope i st) := by
  have h0 := leaf_functions lex scope i st hw hq
  cases i with
  | function n ps r tag =>
    simp only [passLeaf] at h0 ⊢
    exact good1_and (declareFunction_good hw lex scope n ps r tag false)
      (fun st' h => ⟨by simp [QFlat], fun _ => declareFunction_post lex h⟩)
  | type n id => exact good1_weaken h0 (fun st' h => ⟨h, by simp [QPass]⟩)
  | constant n ty tag => exact good1_weaken h0 (fun st' h => ⟨h, by simp [QPass]⟩)
  | module n ch => exact good1_weaken h0 (fun st' h => ⟨h, by simp [QPass]⟩)
  | impl ty ch => exact good1_weaken h0 (fun st' h => ⟨h, by simp [QPass]⟩)
  | use ps => exact good1_weaken h0 (fun st' h => ⟨h, by simp [QPass]⟩)

theorem leaf_constants_post (scope : ScopeId) (i : Item) (st : St) (hw : WF st)
    (hq : QFlat st scope i ∧ QPass .functions st scope i) :
    Good1 st (fun st' => QPass .constants st' scope i) (passLeaf Cfg.fixed lex .constants scope i st) := by
  have h0 := leaf_constants lex scope i st hw hq.1
  cases i with
  | constant n ty tag =>
    simp only [passLeaf] at h0 ⊢
    exact good1_and (declareConstant_good hw scope n ty tag) (fun st' h _ => declareConstant_post h)
  | type n id => exact good1_weaken h0 (fun st' _ => by simp [QPass])
  | function n ps r tag => exact good1_weaken h0 (fun st' _ => by simp [QPass])
  | module n ch => exact good1_weaken h0 (fun st' _ => by simp [QPass])
  | impl ty ch => exact good1_weaken h0 (fun st' _ => by simp [QPass])
  | use ps => exact good1_weaken h0 (fun st' _ => by simp [QPass])

end

mutual
theorem Holds.and {Q1 Q2 : St → ScopeId → Item → Prop} {st : St} :
    ∀ (scope : ScopeId) (is : Items), Holds Q1 st scope is → Holds Q2 st scope is →
      Holds (fun st s i => Q1 st s i ∧ Q2 st s i) st scope is
  | _, .nil, _, _ => by simp [Holds]
  | scope, .cons i is, h1, h2 => by
    simp only [Holds] at h1 h2 ⊢
    exact ⟨HoldsItem.and scope i h1.1 h2.1, Holds.and scope is h1.2 h2.2⟩
theorem HoldsItem.and {Q1 Q2 : St → ScopeId → Item → Prop} {st : St} :
    ∀ (scope : ScopeId) (i : Item), HoldsItem Q1 st scope i → HoldsItem Q2 st scope i →
      HoldsItem (fun st s i => Q1 st s i ∧ Q2 st s i) st scope i
  | scope, .module n ch, h1, h2 => by
    simp only [HoldsItem] at h1 h2 ⊢
    obtain ⟨s1, hs1, hc1⟩ := h1
    obtain ⟨s2, hs2, hc2⟩ := h2
    have : s1 = s2 := by rw [hs1] at hs2; exact Option.some.inj hs2
    subst this
    exact ⟨s1, hs1, Holds.and s1 ch hc1 hc2⟩
  | scope, .type n id, h1, h2 => by simp only [HoldsItem] at h1 h2 ⊢; exact ⟨h1, h2⟩
  | scope, .function n ps r tag, h1, h2 => by simp only [HoldsItem] at h1 h2 ⊢; exact ⟨h1, h2⟩
  | scope, .constant n ty tag, h1, h2 => by simp only [HoldsItem] at h1 h2 ⊢; exact ⟨h1, h2⟩
  | scope, .impl ty ch, h1, h2 => by simp only [HoldsItem] at h1 h2 ⊢; exact ⟨h1, h2⟩
  | scope, .use ps, h1, h2 => by simp only [HoldsItem] at h1 h2 ⊢; exact ⟨h1, h2⟩
end

/-- after a successful `add` every type, function and constant of the tree is
    declared — in the scope its chain of modules leads to — with its own
    signature and identity -/
theorem add_post (lex : Name → Lex) {st st' : St} (hw : WF st) (items : Items)
    (h : add Cfg.fixed lex st items = .ok st') : Holds QDecl st' [] items := by
  unfold add at h
  have h1 := declModules_good none items st hw
  cases hr1 : declModules none items st with
  | err e => simp [hr1] at h
  | panic s => simp [hr1] at h
  | ok st1 =>
    rw [hr1] at h1
    obtain ⟨e1, w1, m1⟩ := h1
    simp only [hr1] at h
    have h2 := walk_good lex .types QTrue (QPass .types) mono_QTrue (mono_QPass _) (leaf_types_post lex) items [] st1 w1 m1
    cases hr2 : walk Cfg.fixed lex .types [] items st1 with
    | err e => simp [hr2] at h
    | panic s => simp [hr2] at h
    | ok st2 =>
      rw [hr2] at h2
      obtain ⟨e2, w2, m2⟩ := h2
      simp only [hr2] at h
      have m2' : Holds QTrue st2 [] items := Holds.mono mono_QTrue e2 _ _ m1
      have h3 := walk_good lex .functions QTrue (fun st s i => QFlat st s i ∧ QPass .functions st s i)
        mono_QTrue (fun a b c d e f => ⟨mono_QFlat a b c d e f.1, mono_QPass _ a b c d e f.2⟩)
        (leaf_functions_post lex) items [] st2 w2 m2'
      cases hr3 : walk Cfg.fixed lex .functions [] items st2 with
      | err e => simp [hr3] at h
      | panic s => simp [hr3] at h
      | ok st3 =>
        rw [hr3] at h3
        obtain ⟨e3, w3, m3⟩ := h3
        simp only [hr3] at h
        have h4 := walk_good lex .constants (fun st s i => QFlat st s i ∧ QPass .functions st s i)
          (QPass .constants)
          (fun a b c d e f => ⟨mono_QFlat a b c d e f.1, mono_QPass _ a b c d e f.2⟩) (mono_QPass _)
          (leaf_constants_post lex) items [] st3 w3 m3
        cases hr4 : walk Cfg.fixed lex .constants [] items st3 with
        | err e => simp [hr4] at h
        | panic s => simp [hr4] at h
        | ok st4 =>
          rw [hr4] at h4
          obtain ⟨e4, w4, m4⟩ := h4
          simp only [hr4] at h
          have h5 := declImports_good [] items st4 w4
          rw [h] at h5
          have e5 := h5.1
          have a2 := Holds.mono (mono_QPass .types) (e3.trans (e4.trans e5)) _ _ m2
          have a3 := Holds.mono (mono_QPass .functions) (e4.trans e5) _ _
            (Holds.imp (fun _ _ hq => hq.2) _ _ m3)
          have a4 := Holds.mono (mono_QPass .constants) e5 _ _ m4
          have all := Holds.and _ _ a2 (Holds.and _ _ a3 a4)
          refine Holds.imp (fun scope i hq => ?_) _ _ all
          cases i with
          | type n id => exact hq.1 rfl
          | function n ps r tag => exact hq.2.1 rfl
          | constant n ty tag => exact hq.2.2 rfl
          | module n ch => trivial
          | impl ty ch => trivial
          | use ps => trivial

/-! ## from the table to what a script sees -/

/-- the scope a chain of module (or type) names leads to -/
def scopeAt (st : St) : ScopeId → List Name → Option ScopeId
  | s, [] => some s
  | s, n :: rest =>
    match st.getScopeOf s n with
    | some s' => scopeAt st s' rest
    | none => none

/-- item `i` sits in the tree under the module path `p` -/
inductive ItemAt : Items → List Name → Item → Prop
  | here (i : Item) (is : Items) : ItemAt (.cons i is) [] i
  | there {is : Items} {p : List Name} {i : Item} (j : Item) : ItemAt is p i → ItemAt (.cons j is) p i
  | inside {ch : Items} {p : List Name} {i : Item} (n : Name) (is : Items) :
      ItemAt ch p i → ItemAt (.cons (.module n ch) is) (n :: p) i

theorem holds_itemAt {Q : St → ScopeId → Item → Prop} {st : St} :
    ∀ {items : Items} {p : List Name} {i : Item}, ItemAt items p i →
      ∀ scope, Holds Q st scope items → ∃ s, scopeAt st scope p = some s ∧ HoldsItem Q st s i := by
  intro items p i h
  induction h with
  | here i is => intro scope hh; simp only [Holds] at hh; exact ⟨scope, rfl, hh.1⟩
  | there j _ ih => intro scope hh; simp only [Holds] at hh; exact ih scope hh.2
  | inside n is _ ih =>
    intro scope hh
    simp only [Holds, HoldsItem] at hh
    obtain ⟨⟨s, hs, hc⟩, _⟩ := hh
    obtain ⟨s', hs', hq⟩ := ih s hc
    exact ⟨s', by simp [scopeAt, hs, hs'], hq⟩

theorem resolveRest_scopeAt (st : St) : ∀ (p : List Name) (d : Decl) (s s' : ScopeId) (n : Name) (d' : Decl),
    d.scope = some s → scopeAt st s p = some s' → st.decls ⟨s', n⟩ = some d' →
    resolveRest st d (p ++ [n]) = some d'
  | [], d, s, s', n, d', hd, hs, hn => by
    simp only [scopeAt] at hs; cases hs
    simp [resolveRest, hd, hn]
  | m :: p, d, s, s', n, d', hd, hs, hn => by
    simp only [scopeAt] at hs
    cases hg : st.getScopeOf s m with
    | none => simp [hg] at hs
    | some s1 =>
      simp only [hg] at hs
      unfold St.getScopeOf at hg
      cases hm : st.decls ⟨s, m⟩ with
      | none => simp [hm] at hg
      | some dm =>
        simp only [hm] at hg
        simp only [List.cons_append, resolveRest, hd, hm]
        exact resolveRest_scopeAt st p dm s1 s' n d' hg hs hn

theorem resolvePath_scopeAt (st : St) (p : List Name) (s : ScopeId) (n : Name) (d : Decl)
    (hs : scopeAt st [] p = some s) (hn : st.decls ⟨s, n⟩ = some d) :
    resolvePath st (p ++ [n]) = some d := by
  cases p with
  | nil =>
    simp only [scopeAt] at hs; cases hs
    simp [resolvePath, resolveFirst, hn, resolveRest]
  | cons m p =>
    simp only [scopeAt] at hs
    cases hg : st.getScopeOf [] m with
    | none => simp [hg] at hs
    | some s1 =>
      simp only [hg] at hs
      unfold St.getScopeOf at hg
      cases hm : st.decls ⟨[], m⟩ with
      | none => simp [hm] at hg
      | some dm =>
        simp only [hm] at hg
        simp only [List.cons_append, resolvePath, resolveFirst, hm]
        exact resolveRest_scopeAt st p dm s1 s n d hg hs hn

/-! ## names -/

mutual
/-- every named item of the library (at any depth, inside impl blocks too) has a valid name -/
def NamesValid (lex : Name → Lex) : Items → Prop
  | .nil => True
  | .cons i is => NameValidItem lex i ∧ NamesValid lex is
def NameValidItem (lex : Name → Lex) : Item → Prop
  | .module n ch => ValidName (lex n) ∧ NamesValid lex ch
  | .type n _ => ValidName (lex n)
  | .function n _ _ _ => ValidName (lex n)
  | .constant n _ _ => ValidName (lex n)
  | .impl _ ch => NamesValid lex ch
  | .use _ => True
end

mutual
theorem namesOk_iff (lex : Name → Lex) :
    ∀ (is : Items), namesOk Cfg.fixed lex is = true ↔ NamesValid lex is
  | .nil => by simp [namesOk, NamesValid]
  | .cons i is => by
    simp only [namesOk, NamesValid, Bool.and_eq_true]
    exact and_congr (nameOkItem_iff lex i) (namesOk_iff lex is)
theorem nameOkItem_iff (lex : Name → Lex) :
    ∀ (i : Item), nameOkItem Cfg.fixed lex i = true ↔ NameValidItem lex i
  | .module n ch => by
    simp only [nameOkItem, NameValidItem, Bool.and_eq_true]
    exact and_congr (checkName_fixed_iff _) (namesOk_iff lex ch)
  | .type n _ => by simp only [nameOkItem, NameValidItem]; exact checkName_fixed_iff _
  | .function n _ _ _ => by simp only [nameOkItem, NameValidItem]; exact checkName_fixed_iff _
  | .constant n _ _ => by simp only [nameOkItem, NameValidItem]; exact checkName_fixed_iff _
  | .impl _ ch => by simp only [nameOkItem, NameValidItem]; exact namesOk_iff lex ch
  | .use _ => by simp [nameOkItem, NameValidItem]
end

/-! ## reordering -/

/-- Reordering of the items of a library at any level: generated by adjacent
    swaps, at the top or inside a module or impl block (every permutation of
    every item list is a composition of these). -/
inductive Shuffle : Items → Items → Prop
  | refl (is : Items) : Shuffle is is
  | trans {a b c : Items} : Shuffle a b → Shuffle b c → Shuffle a c
  | swap (i j : Item) (is : Items) : Shuffle (.cons i (.cons j is)) (.cons j (.cons i is))
  | tail (i : Item) {is is' : Items} : Shuffle is is' → Shuffle (.cons i is) (.cons i is')
  | inModule (n : Name) {ch ch' : Items} (is : Items) :
      Shuffle ch ch' → Shuffle (.cons (.module n ch) is) (.cons (.module n ch') is)
  | inImpl (ty : TyId) {ch ch' : Items} (is : Items) :
      Shuffle ch ch' → Shuffle (.cons (.impl ty ch) is) (.cons (.impl ty ch') is)

def Leaf : Item → Prop
  | .function _ _ _ _ => True
  | .constant _ _ _ => True
  | .type _ _ => True
  | _ => False

theorem itemAt_shuffle {a b : Items} (h : Shuffle a b) :
    ∀ {p : List Name} {x : Item}, Leaf x → ItemAt a p x → ItemAt b p x := by
  induction h with
  | refl => intro p x _ hx; exact hx
  | trans _ _ ih1 ih2 => intro p x hl hx; exact ih2 hl (ih1 hl hx)
  | swap i j is =>
    intro p x _ hx
    cases hx with
    | here => exact .there _ (.here _ _)
    | there _ h1 =>
      cases h1 with
      | here => exact .here _ _
      | there _ h2 => exact .there _ (.there _ h2)
      | inside n is' h2 => exact .inside n _ h2
    | inside n is' h1 => exact .there _ (.inside n _ h1)
  | tail i _ ih =>
    intro p x hl hx
    cases hx with
    | here => exact .here _ _
    | there _ h1 => exact .there _ (ih hl h1)
    | inside n is' h1 => exact .inside n _ h1
  | inModule n is _ ih =>
    intro p x hl hx
    cases hx with
    | here => exact absurd hl (by simp [Leaf])
    | there _ h1 => exact .there _ h1
    | inside n' is' h1 => exact .inside n _ (ih hl h1)
  | inImpl ty is _ ih =>
    intro p x hl hx
    cases hx with
    | here => exact absurd hl (by simp [Leaf])
    | there _ h1 => exact .there _ h1

end RotoV.Reg
